"""C14 rolling_window / expanding_window: the indices select exactly the points inside each window."""
import random
import numpy as np
from . import core, layouts, pylite_tie
from .core import Case, cZ, cZraw, cN, cD, clist, cbool, copt

ID = "C14"
obligations = pylite_tie.windows_obligations   # source-regenerated tie (harness/pylite_tie.py, pylite_windows.v.tmpl)
PROPS_FILE = "Props/C14.v"
IMPORTS = "From Verde Require Import Model.Coordinates Model.CoordCases Model.Blocks Model.Windows."
SHARD = 40
RULE = ("rolling_window and expanding_window on point clouds given as 1-D and 2-D arrays (optionally with an ignored third coordinate): "
        "dyadic-lattice clouds with many points exactly on window edges and corners (all float tests exact there: compared exactly), and "
        "random float clouds (points within 2^-30 x scale of a window edge without being on it are excluded point-wise); window sizes "
        "from tiny to exactly the region's smaller side; steps given as scalar / (north, east) spacing with both adjust modes or as "
        "shapes >= 2 per direction; regions given (larger and smaller than the cloud) or inferred; expanding windows with unsorted, "
        "repeated and zero sizes and centres on and off the lattice; empty windows; invalid arguments (neither shape nor spacing, both, "
        "window larger than the region, bad adjust, empty cloud without region). Index tuples are read back through ravel_multi_index "
        "against the input's shape. 2-D inputs (and the extra coordinate) come in varied memory layouts with the same logical element "
        "sequence - C, Fortran-ordered copies, transposed views of transposed copies, strided windows of larger C / Fortran arrays, slices of "
        "transposed views, easting and northing with different layouts, non-square shapes - and integer-valued lattice clouds also as "
        "int64 / int32 arrays; easting, northing and the extra coordinate also with DIFFERENT dtypes (int32/int64/float32/float64 in all "
        "orders) and values needing the wider type (fractions next to integers, 7.5e6 + fractions next to float32), regions also smaller "
        "than the data extent with both adjust modes; integer coordinates with fractional centres, sizes and steps (C14); the model always receives the logical C-order ravel. Every call is made twice on the same argument objects "
        "(identical result, arguments unchanged); region, centre and sizes passed as tuple / list / float64 / integer ndarray in rotation, the same objects for both calls, the second answer evaluated against the model when it differs; a sequence stream calls either window function, modifies the same array objects in place "
        "(shift, scale, centre, overwrite) and calls again (must match the model on the new values and a call on fresh copies); shape= "
        "with n_north != n_east on clearly non-square regions (also after shrinking) and windows equal to a side. Non-trivial = the call returns windows for a non-empty cloud; distinct = distinct argument tuples.")
ASSUMPTIONS = [
    "scipy cKDTree.query_ball_point(x, r, p=inf) returns the points with max(|de|, |dn|) <= r (closed ball, eps = 0); modelled by a linear scan",
    "floats are read as the exact rationals they denote; on-edge membership is compared exactly (the float subtraction is exact when the distance equals the radius); points within 2^-30 x scale of a window edge but not on it are excluded from membership comparison",
    "window centres compared with tolerance 2^-40 x scale against the closed-form grid of the shrunk region (rounding ties of the extent/spacing quotient within 2^-30 are skipped)",
    "shapes with a single window per direction are not generated: with a region given as Python floats verde raises ZeroDivisionError in its overlap warning helper (outside the property's claims)",
]
TRUSTED = ["harness/layouts.py (builds the argument arrays in each memory layout / dtype; replays rebuild them from the same source)", "harness/c14.py (generators, observation of numpy object arrays / index tuples as integers and exact dyadics)"]

ADJ = {0: "spacing", 1: "region", 2: "bogus"}


def dl(xs):
    return clist([cD(float(x)) for x in xs])


def zl(xs):
    return "(%s)%%Z" % clist([cZraw(int(x)) for x in xs])


def ctuple(tup):
    return clist([zl(a) for a in tup])


def tuple_ok(tup, ndim):
    return (isinstance(tup, tuple) and len(tup) == ndim
            and all(isinstance(a, np.ndarray) and a.ndim == 1 and np.issubdtype(a.dtype, np.integer) for a in tup))


def indexing_works(coords, tup, cx, cy, half):
    """use the tuple the way the docstring says (coords[k][indices]) - a direct observation kept in the evidence"""
    try:
        e = coords[0][tup]
        n = coords[1][tup]
        return bool(np.all(np.abs(e - cx) <= half * (1 + 1e-9) + 1e-9) and np.all(np.abs(n - cy) <= half * (1 + 1e-9) + 1e-9))
    except Exception:
        return False


def cspacing(spacing):
    if spacing is None:
        return "None"
    if np.isscalar(spacing):
        return "(Some %s)" % dl([spacing])
    return "(Some %s)" % dl(spacing)


def same_tuples(a, b):
    return len(a) == len(b) and all(len(x) == len(y) and all(np.array_equal(p, q) for p, q in zip(x, y)) for x, y in zip(a, b))


def rolling_case(vd, spec, size, spacing, shape, region, adj, kind, pre=None, rkind="tuple"):
    """spec: [(values, layout, dtype), ...] (harness/layouts.py); the model gets the logical C-order ravel.
    pre = (first, ops): an earlier call on the same array objects followed by in-place modifications.
    rkind: the kind of object the region is passed as; the SAME object is used for both calls and, when the second
    result differs from the first, it is the second one that is evaluated against the model"""
    coords = layouts.build(spec)
    if pre:
        layouts.first_call(vd, coords, pre[0])
        layouts.apply_ops(coords, pre[1])
    snap = layouts.snapshot(coords)
    east, north = coords[0], coords[1]
    kw = {"size": size}
    kwsrc = ["size=%r" % (size,)]
    if spacing is not None:
        kw["spacing"] = spacing
        kwsrc.append("spacing=%r" % (spacing,))
    if shape is not None:
        kw["shape"] = shape
        kwsrc.append("shape=%r" % (shape,))
    if region is not None:
        kw["region"], rsrc = layouts.arg_obj(rkind, region)
        kwsrc.append("region=r")
    if adj != 0:
        kw["adjust"] = ADJ[adj]
        kwsrc.append("adjust=%r" % ADJ[adj])
    bad = None
    try:
        wc, idx = vd.rolling_window(coords, **kw)
        ok = (len(wc) == 2 and all(isinstance(a, np.ndarray) and a.ndim == 2 and a.dtype == np.float64 for a in wc)
              and isinstance(idx, np.ndarray) and idx.ndim == 2 and idx.dtype == object
              and all(tuple_ok(t, east.ndim) for t in idx.ravel()))
        if ok:
            works = all(indexing_works(coords, idx[i, j], wc[0][i, j], wc[1][i, j], size / 2)
                        for i in range(idx.shape[0]) for j in range(idx.shape[1])) if idx.shape == wc[0].shape else False
            # same argument objects again: identical result, arguments untouched
            wc2, idx2 = vd.rolling_window(coords, **kw)
            stable = (layouts.unchanged(coords, snap) and all(np.array_equal(a, b) for a, b in zip(wc, wc2))
                      and idx2.shape == idx.shape and same_tuples(list(idx.ravel()), list(idx2.ravel())))
            if pre:   # and the same as a call on fresh copies of the modified arrays
                wc3, idx3 = vd.rolling_window(layouts.fresh(coords), **kw)
                stable = (stable and all(np.array_equal(a, b) for a, b in zip(wc, wc3))
                          and idx3.shape == idx.shape and same_tuples(list(idx.ravel()), list(idx3.ravel())))
            obs = {"centres_east": wc[0].tolist(), "centres_north": wc[1].tolist(),
                   "indices": [[[a.tolist() for a in t] for t in row] for row in idx], "direct_indexing_works": works,
                   "second_call_identical_and_arguments_unchanged": bool(stable)}
            if region is not None:
                obs["region_object_unchanged"] = layouts.same_values(kw["region"], region)
            if not stable and layouts.unchanged(coords, snap) and all(isinstance(a, np.ndarray) and a.ndim == 2 for a in wc2) \
                    and isinstance(idx2, np.ndarray) and idx2.ndim == 2 and all(tuple_ok(t, east.ndim) for t in idx2.ravel()):
                # the second call on the same argument objects answered differently: evaluate THAT answer
                obs["second_call"] = {"centres_east": wc2[0].tolist(), "centres_north": wc2[1].tolist(),
                                      "indices": [[[a.tolist() for a in t] for t in row] for row in idx2]}
                wc, idx = wc2, idx2
                bad = "second-differs"
            cobs = "(Some (%s, %s, %s))" % (clist([dl(r) for r in wc[0]]), clist([dl(r) for r in wc[1]]),
                                            clist([clist([ctuple(t) for t in row]) for row in idx]))
            if bad is None and not works:
                bad = "indexing"
            elif bad is None and not stable:
                bad = "unstable"
        else:
            obs = {"malformed_output": repr((wc, idx))[:500]}
            bad = "malformed"
    except ValueError:
        obs = "ValueError"
        cobs = "None"
    except Exception as exc:   # any other exception on these inputs is a failure of the implementation
        obs = {"unexpected_exception": repr(exc)}
        bad = "malformed"
    cshape = "None" if shape is None else "(Some (%s, %s))" % (cZ(shape[0]), cZ(shape[1]))
    creg = "None" if region is None else "(Some %s)" % dl(region)
    if bad in ("malformed", "unstable"):
        term = "Vboth"
    else:
        # (when direct indexing failed the tuples are still evaluated in Coq, which then reports the failing window)
        term = "c14_rolling %s %s %s %s %s %s %s %s %s" % (
            dl(layouts.logical(east)), dl(layouts.logical(north)), clist([cN(d) for d in east.shape]), cD(size), cspacing(spacing), cshape, creg, cZ(adj), cobs)
        if bad in ("indexing", "second-differs"):
            term = "(match %s with Vok | Vskip => Vboth | v => v end)" % term
    repro = (layouts.repro_args(spec) + (layouts.repro_sequence(*pre) if pre else "")
             + ("import numpy as np; r = %s\n" % rsrc if region is not None else "")
             + "import verde; print(verde.rolling_window(c, %s)); print(verde.rolling_window(c, %s))" % (", ".join(kwsrc), ", ".join(kwsrc)))
    inp = {"fn": "rolling_window", "coordinates": layouts.describe(spec), "size": size, "spacing": spacing, "shape": shape,
           "region": None if region is None else [float(r) for r in region], "region_passed_as": rkind if region is not None else None,
           "adjust": ADJ[adj]}
    if pre:
        inp["after"] = {"earlier_call_on_same_objects": [pre[0][0], repr(pre[0][1])], "then_in_place": [list(o) for o in pre[1]]}
    return Case(inp, obs, term, repro, kind, nontrivial=(obs != "ValueError" and east.size > 0))


def expanding_case(vd, spec, center, sizes, kind, pre=None, ckind="tuple", skind="list"):
    """ckind / skind: the kind of object the centre / the sizes are passed as (the same objects for both calls)"""
    coords = layouts.build(spec)
    if pre:
        layouts.first_call(vd, coords, pre[0])
        layouts.apply_ops(coords, pre[1])
    snap = layouts.snapshot(coords)
    east, north = coords[0], coords[1]
    cobj, csrc = layouts.arg_obj(ckind, center)
    sobj, ssrc = layouts.arg_obj(skind, sizes)
    bad = None
    try:
        out = vd.expanding_window(coords, center=cobj, sizes=sobj)
        ok = isinstance(out, list) and all(tuple_ok(t, east.ndim) for t in out)
        if ok:
            works = len(out) == len(sizes) and all(indexing_works(coords, t, center[0], center[1], s / 2) for t, s in zip(out, sizes))
            out2 = vd.expanding_window(coords, center=cobj, sizes=sobj)
            stable = layouts.unchanged(coords, snap) and same_tuples(out, out2)
            if pre:
                stable = stable and same_tuples(out, vd.expanding_window(layouts.fresh(coords), center=cobj, sizes=sobj))
            obs = {"indices": [[a.tolist() for a in t] for t in out], "direct_indexing_works": works,
                   "second_call_identical_and_arguments_unchanged": bool(stable),
                   "centre_and_sizes_objects_unchanged": layouts.same_values(cobj, center) and layouts.same_values(sobj, sizes)}
            if not stable and layouts.unchanged(coords, snap) and isinstance(out2, list) and all(tuple_ok(t, east.ndim) for t in out2):
                obs["second_call"] = {"indices": [[a.tolist() for a in t] for t in out2]}
                out = out2
                bad = "second-differs"
            cobs = "(Some %s)" % clist([ctuple(t) for t in out])
            if bad is None and not works:
                bad = "indexing"
            elif bad is None and not stable:
                bad = "unstable"
        else:
            obs = {"malformed_output": repr(out)[:500]}
            bad = "malformed"
    except ValueError:
        obs = "ValueError"
        cobs = "None"
    except Exception as exc:
        obs = {"unexpected_exception": repr(exc)}
        bad = "malformed"
    if bad in ("malformed", "unstable"):
        term = "Vboth"
    else:
        term = "c14_expanding %s %s %s %s %s %s %s" % (
            dl(layouts.logical(east)), dl(layouts.logical(north)), clist([cN(d) for d in east.shape]), cD(center[0]), cD(center[1]), dl(sizes), cobs)
        if bad in ("indexing", "second-differs"):
            term = "(match %s with Vok | Vskip => Vboth | v => v end)" % term
    repro = (layouts.repro_args(spec) + (layouts.repro_sequence(*pre) if pre else "")
             + "import verde, numpy as np; ce = %s; sz = %s\nprint(verde.expanding_window(c, center=ce, sizes=sz)); print(verde.expanding_window(c, center=ce, sizes=sz))" % (csrc, ssrc))
    inp = {"fn": "expanding_window", "coordinates": layouts.describe(spec), "center": list(center), "sizes": list(sizes),
           "center_passed_as": ckind, "sizes_passed_as": skind}
    if pre:
        inp["after"] = {"earlier_call_on_same_objects": [pre[0][0], repr(pre[0][1])], "then_in_place": [list(o) for o in pre[1]]}
    return Case(inp, obs, term, repro, kind, nontrivial=(obs != "ValueError" and east.size > 0 and len(sizes) > 0))


# ---------------------------------------------------------------------------
class Uni:
    """uniform floats: full 53-bit mantissas one case in five, else multiples of 2^-12 (cheaper exact arithmetic in coqc)"""
    def __init__(self, rnd):
        self.rnd = rnd
        self.full = rnd.random() < 0.2

    def __call__(self, a, b):
        x = self.rnd.uniform(a, b)
        if self.full:
            return x
        y = round(x * 4096) / 4096
        return y if a <= y <= b else x


def lattice_rolling(rnd):
    w = rnd.randint(-8, 8) / 4
    s = rnd.randint(-8, 8) / 4
    width = rnd.choice([2.0, 3.0, 4.0, 5.0])
    height = rnd.choice([2.0, 2.5, 3.0, 4.0])
    region = (w, w + width, s, s + height)
    size = rnd.choice([0.5, 1.0, 1.5, 2.0, min(width, height)])
    mode = rnd.choice(["shape", "scalar", "pair"])
    adj = 0
    spacing = shape = None
    if mode == "shape":
        shape = rnd.choice([(2, 2), (2, 3), (3, 2), (3, 4), (4, 3), (2, 5)])
    else:
        adj = rnd.choice([0, 0, 1])
        cands = [0.5, 0.75, 1.0, 1.5, 2.0, 3.0]
        spacing = rnd.choice(cands) if mode == "scalar" else (rnd.choice(cands), rnd.choice(cands))
        spn, spe = (spacing, spacing) if np.isscalar(spacing) else spacing
        if ((width - size) / spe + 1.5) * ((height - size) / spn + 1.5) > 20:
            spacing = 1.5 if mode == "scalar" else (1.5, 2.0)
    m = rnd.choice([1, 2, 4, 6, 6, 8, 10, 12, 12, 15, 18, 20, 24])
    xs = [w + rnd.randint(-2, int(width * 4) + 2) / 4 for _ in range(m)]
    ys = [s + rnd.randint(-2, int(height * 4) + 2) / 4 for _ in range(m)]
    return region, size, spacing, shape, adj, xs, ys


def random_rolling(rnd, uni):
    w = uni(-500, 500)
    s = uni(-500, 500)
    width = uni(2, 40)
    height = uni(2, 40)
    region = (w, w + width, s, s + height)
    mn = min(region[1] - region[0], region[3] - region[2])
    size = mn * rnd.choice([0.05, 0.2, 0.33, 0.5, 0.9])
    if not uni.full:
        size = max(round(size * 4096) / 4096, 1 / 4096)
    mode = rnd.choice(["shape", "scalar", "pair"])
    adj = 0
    spacing = shape = None
    if mode == "shape":
        shape = rnd.choice([(2, 2), (2, 3), (3, 2), (3, 4), (4, 3), (2, 5)])
    else:
        adj = rnd.choice([0, 0, 1])
        f = [0.3, 0.45, 0.7, 1.1]
        spacing = (mn - size) * rnd.choice(f) + 0.01 if mode == "scalar" else ((height - size) * rnd.choice(f) + 0.01, (width - size) * rnd.choice(f) + 0.01)
        if not uni.full:
            spacing = round(spacing * 4096) / 4096 + 1 / 4096 if mode == "scalar" else tuple(round(x * 4096) / 4096 + 1 / 4096 for x in spacing)
        spn, spe = (spacing, spacing) if np.isscalar(spacing) else spacing
        if ((width - size) / spe + 1.5) * ((height - size) / spn + 1.5) > 20:
            spacing = (height - size) / 2.2 + 0.01 if mode == "scalar" else ((height - size) / 2.2 + 0.01, (width - size) / 3.1 + 0.01)
    m = rnd.choice([1, 2, 4, 6, 6, 8, 10, 12, 12, 15, 18])
    xs = [uni(w - 0.1 * width, w + 1.1 * width) for _ in range(m)]
    ys = [uni(s - 0.1 * height, s + 1.1 * height) for _ in range(m)]
    return region, size, spacing, shape, adj, xs, ys


def generate(tier, seed):
    import verde as vd
    return _generate(tier, seed, vd)


def _guard(fn):
    def wrapped(vd, spec, *a, **k):
        kind = a[-1] if not k.get("kind") else k["kind"]
        inp = {"fn": fn.__name__, "coordinates": layouts.describe(spec), "arguments": repr(a[:-1]), "after": repr(k.get("pre"))}
        return core.guarded(lambda: fn(vd, spec, *a, **k), inp, kind)
    return wrapped


def _generate(tier, seed, vd):
    rnd = random.Random(seed)
    cases = []
    nroll = 60 if tier == "quick" else 700
    for stream in ("rolling-lattice", "rolling-random"):
        for i in range(nroll):
            uni = Uni(rnd)
            region, size, spacing, shape, adj, xs, ys = lattice_rolling(rnd) if stream == "rolling-lattice" else random_rolling(rnd, uni)
            given = rnd.random() < 0.6
            if not given:
                # the inferred region must be at least as wide as the window: put points on the corners
                xs += [region[0], region[1]]
                ys += [region[2], region[3]]
                if stream == "rolling-lattice":
                    xs = [min(max(x, region[0]), region[1]) for x in xs]
                    ys = [min(max(y, region[2]), region[3]) for y in ys]
            arrs = [xs, ys]
            if i % 5 == 0:
                arrs.append([rnd.uniform(-1e3, 1e3) for _ in xs])
            cases.append(rolling_case(vd, layouts.arrange(rnd, arrs), size, spacing, shape, region if given else None, adj, stream, rkind=layouts.ARG_KINDS[i % 4]))
    # docstring examples
    g = vd.grid_coordinates((-5, -1, 6, 10), spacing=1)
    cases.append(rolling_case(vd, layouts.from_arrays(g), 2.0, 2.0, None, None, 0, "docstring"))
    cases.append(rolling_case(vd, layouts.from_arrays([a.ravel() for a in g]), 2.0, 2.0, None, None, 0, "docstring"))
    g2 = vd.grid_coordinates((-10, 5, 0, 20), spacing=3)
    cases.append(rolling_case(vd, layouts.from_arrays(g2), 2.0, 2.0, None, (-5.0, -1.0, 6.0, 10.0), 0, "docstring"))
    g3 = vd.grid_coordinates((-5, -1, 6, 10), spacing=1, extra_coords=20)
    cases.append(rolling_case(vd, layouts.from_arrays(g3), 2.0, 2.0, None, None, 0, "docstring"))
    cases.append(rolling_case(vd, layouts.from_arrays(g), 0.5, None, (2, 3), (-4.6, -1.4, 6.4, 9.6), 0, "empty-windows"))
    cases.append(rolling_case(vd, layouts.from_arrays(g), 4.0, 1.0, None, None, 0, "window-fills-region"))
    cases.append(expanding_case(vd, layouts.from_arrays(g), (-3.0, 8.0), [1.0, 2.0, 4.0], "docstring"))
    cases.append(expanding_case(vd, layouts.from_arrays([a.ravel() for a in g]), (-3.0, 8.0), [1.0, 2.0, 4.0], "docstring"))
    cases.append(expanding_case(vd, layouts.from_arrays(g3), (-3.0, 8.0), [4.0, 1.0, 2.0, 0.0], "docstring"))
    cases.append(expanding_case(vd, layouts.from_arrays(g), (-3.0, 8.0), [], "docstring"))
    cases.append(expanding_case(vd, layouts.from_arrays(g), (20.0, 8.0), [1.0, 3.0], "empty-windows"))
    # the docstring grid (5 x 5) and a non-square 3 x 5 part of it in every memory layout, easting and northing alike and different
    for ke in layouts.KINDS:
        for kn in ("C", "F", "Tslice"):
            spec = [(g[0].tolist(), ke, "float64"), (g[1].tolist(), kn, "float64"), (g3[2].tolist(), "stridedF", "float64")]
            cases.append(rolling_case(vd, spec, 2.0, 2.0, None, None, 0, "layout-grid"))
            cases.append(expanding_case(vd, spec, (-3.0, 8.0), [4.0, 1.0, 2.0], "layout-grid"))
            spec = [(g[0][:3].tolist(), ke, "float64"), (g[1][:3].tolist(), kn, "float64")]
            cases.append(rolling_case(vd, spec, 1.0, (1.0, 1.5), None, None, 0, "layout-grid"))
            cases.append(expanding_case(vd, spec, (-2.0, 7.0), [2.0, 3.0, 0.0], "layout-grid"))
    # integer-dtype coordinates with fractional window centres, sizes and steps; regions given (also smaller than the
    # data extent, both adjust modes) or inferred
    def few_windows(width, height, size, sp):
        spn, spe = (sp, sp) if np.isscalar(sp) else sp
        return ((width - size) / spe + 1.5) * ((height - size) / spn + 1.5) <= 24

    for i in range(nroll // 2):
        m = rnd.choice([4, 6, 6, 8, 10, 12, 12, 15, 18])
        xs = [rnd.randint(-4, 4) for _ in range(m - 2)] + [-4, 4]
        ys = [rnd.randint(-3, 3) for _ in range(m - 2)] + [-3, 3]
        dt = rnd.choice(["int64", "int32"])
        arrs = [xs, ys] + ([list(range(m))] if i % 3 == 0 else [])
        spec = layouts.arrange(rnd, arrs, dt=dt, p2d=0.7)
        if i % 2 == 0:
            reg = rnd.choice([None, (-4.0, 4.0, -3.0, 3.0), (-3.0, 3.0, -2.0, 2.0), (-2.5, 3.25, -1.5, 2.75)])
            width, height = (8.0, 6.0) if reg is None else (reg[1] - reg[0], reg[3] - reg[2])
            size = rnd.choice([0.5, 1.0, 1.5, 2.0, 2.5, 3.0, min(width, height)])
            if rnd.random() < 0.6:
                sp, sh, adj = rnd.choice([0.75, 1.0, 1.25, 1.5, 2.0, (2.0, 3.0), (1.25, 0.5), (0.75, 2.5)]), None, rnd.choice([0, 1])
                if not few_windows(width, height, size, sp):
                    sp = 2.25
            else:
                sp, sh, adj = None, rnd.choice([(2, 3), (3, 2), (2, 2), (3, 4)]), 0
            cases.append(rolling_case(vd, spec, size, sp, sh, reg, adj, "integer-dtype", rkind=layouts.ARG_KINDS[(i // 2) % 4]))
        else:
            center = (rnd.randint(-3, 3) + rnd.choice([0.0, 0.5, 0.25, -0.5]), rnd.randint(-2, 2) + rnd.choice([0.0, 0.5, 0.75]))
            sizes = [rnd.choice([0.0, 0.5, 1.0, 1.5, 2.0, 3.0, 3.5, 5.0, 9.0]) for _ in range(rnd.randint(1, 4))]
            cases.append(expanding_case(vd, spec, center, sizes, "integer-dtype"))
    ig = np.meshgrid(np.arange(11), np.arange(9))
    cases.append(expanding_case(vd, layouts.from_arrays(ig), (2.5, 3.5), [1.0, 3.0, 5.0], "integer-dtype"))
    cases.append(expanding_case(vd, layouts.from_arrays([a.astype("int32") for a in ig]), (7.25, 1.5), [2.5, 0.5], "integer-dtype"))
    cases.append(rolling_case(vd, layouts.from_arrays([a[:6, :7] for a in ig]), 1.5, (1.25, 0.75), None, (0.5, 5.5, 1.0, 4.0), 1, "integer-dtype"))
    # easting, northing (and the extra coordinate) of different dtypes, values needing the wider one
    for i in range(nroll // 2):
        m = rnd.choice([4, 6, 6, 8, 10, 12, 12, 15, 18])
        we, hn = rnd.choice([4, 6, 8]), rnd.choice([3, 5, 6])
        arrs, dts, be, bn = layouts.mixed_axes(rnd, m, we, hn, spill=rnd.choice([0.0, 0.25]))
        keep = 3 if i % 2 == 0 else 2
        if i % 2 == 0:
            inferred = "float32" not in dts[:2] and rnd.random() < 0.3
            if inferred:   # the inferred region must not be smaller than the window: pin two corners
                arrs[0][0], arrs[0][1], arrs[1][0], arrs[1][1] = be, be + we, bn, bn + hn
            reg = None if inferred else (be, be + we, bn, bn + hn)
            size = rnd.choice([0.5, 1.0, 1.5, 2.0, 3.0])
            if rnd.random() < 0.6:
                sp, sh, adj = rnd.choice([0.75, 1.0, 1.5, 2.0, (2.0, 3.0), (1.25, 0.5)]), None, rnd.choice([0, 1])
                if not few_windows(we, hn, size, sp):
                    sp = 2.25
            else:
                sp, sh, adj = None, rnd.choice([(2, 3), (3, 2), (2, 2), (3, 4)]), 0
            cases.append(rolling_case(vd, layouts.arrange(rnd, arrs[:keep], dt=dts[:keep]), size, sp, sh, reg, adj, "mixed-dtype", rkind=layouts.ARG_KINDS[(i // 2) % 4]))
        else:
            center = (be + rnd.randint(0, we * 4) / 4, bn + rnd.randint(0, hn * 4) / 4)
            sizes = [rnd.choice([0.0, 0.5, 1.0, 1.5, 2.0, 3.0, 5.0, 9.0]) for _ in range(rnd.randint(1, 4))]
            cases.append(expanding_case(vd, layouts.arrange(rnd, arrs[:keep], dt=dts[:keep]), center, sizes, "mixed-dtype", ckind=layouts.ARG_KINDS[(i // 2) % 4], skind=layouts.ARG_KINDS[(i // 8) % 4]))
    # the region / centre / sizes handed over as every kind of object, the same object for both calls
    for rk in layouts.ARG_KINDS:
        cases.append(rolling_case(vd, layouts.from_arrays(g2), 2.0, 2.0, None, (-5.0, -1.0, 6.0, 10.0), 0, "argument-objects", rkind=rk))
        cases.append(rolling_case(vd, layouts.from_arrays(g2), 1.0, None, (2, 3), (-6.0, 2.0, 3.0, 12.0), 0, "argument-objects", rkind=rk))
        for sk in layouts.ARG_KINDS:
            cases.append(expanding_case(vd, layouts.from_arrays(g), (-3.0, 8.0), [4.0, 1.0, 2.0], "argument-objects", ckind=rk, skind=sk))
    # shape= on clearly non-square regions (also non-square after shrinking), n_north != n_east, windows equal to a side
    gx, gy = np.meshgrid(np.arange(0.0, 21.0, 2.5), np.arange(0.0, 11.0, 2.5))
    for reg, size, shp in [((0.0, 20.0, 0.0, 10.0), 4.0, (3, 5)), ((0.0, 20.0, 0.0, 10.0), 4.0, (5, 3)), ((0.0, 20.0, 0.0, 10.0), 10.0, (2, 4)),
                           ((0.0, 20.0, 0.0, 10.0), 10.0, (3, 2)), ((0.0, 20.0, 0.0, 10.0), 2.5, (2, 6)), ((0.0, 10.0, 0.0, 20.0), 4.0, (4, 2)),
                           ((2.5, 17.5, 0.0, 10.0), 5.0, (2, 3)), (None, 4.0, (3, 5)), (None, 10.0, (2, 3)), ((0.0, 20.0, 0.0, 10.0), 6.0, (2, 7))]:
        e, n = (gy, gx) if reg == (0.0, 10.0, 0.0, 20.0) else (gx, gy)
        cases.append(rolling_case(vd, layouts.from_arrays((e, n)), size, None, shp, reg, 0, "shape-nonsquare"))
    for i in range(nroll // 3):
        w, s0 = rnd.randint(-8, 8) / 4, rnd.randint(-8, 8) / 4
        width, height = rnd.choice([(8.0, 3.0), (3.0, 9.0), (12.0, 4.0), (2.5, 7.5), (10.0, 5.0)])
        reg = (w, w + width, s0, s0 + height)
        size = rnd.choice([0.5, 1.0, 2.0, min(width, height), min(width, height)])
        shp = rnd.choice([(2, 3), (3, 2), (2, 5), (5, 2), (3, 4), (4, 3), (2, 6), (6, 2)])
        m = rnd.choice([6, 8, 10, 12, 15, 18])
        xs = [w + rnd.randint(0, int(width * 4)) / 4 for _ in range(m - 2)] + [reg[0], reg[1]]
        ys = [s0 + rnd.randint(0, int(height * 4)) / 4 for _ in range(m - 2)] + [reg[2], reg[3]]
        cases.append(rolling_case(vd, layouts.arrange(rnd, [xs, ys]), size, None, shp, reg if rnd.random() < 0.6 else None, 0, "shape-nonsquare", rkind=layouts.ARG_KINDS[i % 4]))
    # sequences: a call, the SAME coordinate array objects modified in place, the call under test (must match the
    # model on the new values and a call on fresh copies)
    for i in range(nroll // 2):
        m = rnd.choice([6, 8, 10, 12, 15, 18])
        ints = rnd.random() < 0.3
        if ints:
            xs = [rnd.randint(-4, 4) for _ in range(m - 2)] + [-4, 4]
            ys = [rnd.randint(-3, 3) for _ in range(m - 2)] + [-3, 3]
        else:
            xs = [rnd.randint(-16, 16) / 4 for _ in range(m - 2)] + [-4.0, 4.0]
            ys = [rnd.randint(-12, 12) / 4 for _ in range(m - 2)] + [-3.0, 3.0]
        spec = layouts.arrange(rnd, [xs, ys], dt=rnd.choice(["int64", "int32"]) if ints else "float64")
        ops = layouts.sequence_ops(rnd, spec)
        rkw = {"size": rnd.choice([1.0, 1.5, 2.0]), "spacing": rnd.choice([1.0, 1.5, 2.5])}
        ekw = {"center": (rnd.randint(-8, 8) / 4, rnd.randint(-8, 8) / 4), "sizes": [rnd.choice([0.5, 1.0, 2.0, 3.0, 5.0]) for _ in range(rnd.randint(1, 3))]}
        first = ("rolling_window", rkw) if rnd.random() < 0.5 else ("expanding_window", ekw)
        if i % 2 == 0:
            size = rnd.choice([1.0, 1.5, 2.0])
            sp, sh = (rnd.choice([1.0, 1.5, 2.5, (2.0, 3.0)]), None) if rnd.random() < 0.6 else (None, rnd.choice([(2, 3), (3, 2)]))
            cases.append(rolling_case(vd, spec, size, sp, sh, None, 0, "sequence-in-place", pre=(first, ops)))
        else:
            center = (rnd.randint(-8, 8) / 4, rnd.randint(-8, 8) / 4)
            sizes = [rnd.choice([0.5, 1.0, 2.0, 3.0, 5.0, 9.0]) for _ in range(rnd.randint(1, 3))]
            cases.append(expanding_case(vd, spec, center, sizes, "sequence-in-place", pre=(first, ops)))
    # expanding windows
    nexp = 60 if tier == "quick" else 700
    for i in range(nexp):
        lat = rnd.random() < 0.6
        uni = Uni(rnd)
        m = rnd.choice([1, 3, 6, 6, 8, 10, 12, 12, 15, 18, 20, 24, 28])
        if lat:
            xs = [rnd.randint(-12, 12) / 4 for _ in range(m)]
            ys = [rnd.randint(-12, 12) / 4 for _ in range(m)]
            center = (rnd.randint(-8, 8) / 4, rnd.randint(-8, 8) / 4)
            sizes = [rnd.choice([0.0, 0.5, 1.0, 1.5, 2.0, 2.5, 4.0, 7.0]) for _ in range(rnd.randint(1, 5))]
        else:
            xs = [uni(-50, 50) for _ in range(m)]
            ys = [uni(-30, 30) for _ in range(m)]
            center = (uni(-40, 40), uni(-25, 25))
            sizes = [uni(0, 120) for _ in range(rnd.randint(1, 5))]
            if i % 3 == 0:
                center = (xs[0], ys[0])
        arrs = [xs, ys] + ([[float(k) for k in range(m)]] if i % 4 == 0 else [])
        cases.append(expanding_case(vd, layouts.arrange(rnd, arrs), center, sizes, "expanding-lattice" if lat else "expanding-random",
                                    ckind=layouts.ARG_KINDS[i % 4], skind=layouts.ARG_KINDS[(i // 4) % 4]))
    # invalid arguments
    pts = (np.array([0.0, 1.0, 2.0, 3.0, 4.0]), np.array([0.0, 1.0, 2.0, 1.0, 3.0]))
    for size, sp, sh, reg, adj in [(1.0, None, None, None, 0), (1.0, 1.0, (2, 2), None, 0), (3.5, 1.0, None, None, 0), (3.0, 1.0, None, None, 0),
                                   (1.0, 1.0, None, None, 2), (1.0, 1.0, None, (0.0, 4.0, 0.0, 0.5), 0), (1.0, None, (2, 2), (4.0, 0.0, 0.0, 3.0), 0),
                                   (1.0, (1.0, 1.0, 1.0), None, None, 0)]:
        cases.append(rolling_case(vd, layouts.from_arrays(pts), size, sp, sh, reg, adj, "invalid"))
    cases.append(rolling_case(vd, layouts.from_arrays((np.zeros(0), np.zeros(0))), 1.0, 1.0, None, None, 0, "invalid"))
    cases.append(rolling_case(vd, layouts.from_arrays((np.zeros(0), np.zeros(0))), 1.0, 1.0, None, (0.0, 3.0, 0.0, 2.0), 0, "empty-cloud"))
    cases.append(expanding_case(vd, layouts.from_arrays((np.zeros(0), np.zeros(0))), (0.0, 0.0), [1.0, 2.0], "empty-cloud"))
    return cases


def search(dis, tier, seed):
    return generate("quick", seed + 1)


rolling_case = _guard(rolling_case)
expanding_case = _guard(expanding_case)
