"""C01 exact interpolators reproduce the data at the data points; Trend reproduces polynomials everywhere."""
import json
import random
import warnings
import numpy as np
from . import core, pylite_tie
from .core import Case, cD, cN, clist
from .c02 import dl, dmat, tolist

obligations = pylite_tie.c03_obligations   # source-regenerated theorems about Trend.predict / Trend.jacobian / Trend.fit
ID = "C01"
PROPS_FILE = "Props/C01.v"
IMPORTS = "From Verde Require Import Lib.LinAlgD Model.LeastSquares Model.Interpolators Model.LSCases."
SHARD = 40
CFACTOR = 1e3
KAPPA_MAX = 1e12
RULE = ("pairwise-distinct point clouds (3..30 points; scatter / jittered grid / line / two tight clusters; 1-D and 2-D arrays; "
        "coordinate scale 1e-2..1e6; offsets up to 1e3 x extent), data of varied magnitude. Estimators: undamped Spline (mindist "
        "None/0/small), undamped VectorSpline2D (Poisson ratio in [-1,1] incl. end points), KNeighbors(k=1), Linear and Cubic "
        "(rescale on/off; non-collinear clouds only), 17 compositions with an exact interpolator in EVERY position of a chain "
        "(Chain(Trend, Spline), Chain(Spline, Linear), Chain(Spline, KNeighbors), Chain(Trend, Spline, Cubic), Chain(Spline, Spline), "
        "Chain(Linear, Spline), Chain(VectorSpline2D, Vector(Linear, KNeighbors)), a Vector of such chains, ...), all fitted and predicted "
        "at the same points; coordinates and data are handed over 1-D or as 2-D arrays that are NOT xy-meshgrids (scattered points "
        "reshaped to (r, c), a column (n, 1), a row (1, n), meshgrid(indexing='ij'), a rotated grid) and every 2-D case is also "
        "compared with the same points passed 1-D (stream shape-2d-vs-1d/*: equal values, output in the shape of the input); "
        "every stream has a 'prefit' variant in which the SAME estimator instance (or composite) is first fitted "
        "to a different cloud with fewer or more points (VectorSpline2D, which documents that it keeps its first force locations, "
        "gets them explicitly there); Spline / VectorSpline2D forces are the copied data points (force_coords=None), the SAME points "
        "passed through force_coords shuffled or sorted, or a separate set of the same size (square system); documented special "
        "values are hit exactly in a fixed share of cases (poisson -1, 0, 1, 0.5; mindist None, 0, the default 10e3); a fixed stream of 4 thin two-cluster layouts x {Linear, Cubic}(rescale=False) (known finding F17: NaN at "
        "a data point); Trend of degree 0..4 fitted to a random polynomial of total degree <= N and evaluated at OTHER points given in each of those array layouts. "
        "Coq evaluates on exact dyadics |predict - truth| <= 1e3 * 2^-52 * kappa * max|truth| (kappa = condition number of the "
        "column-scaled system from numpy SVD, passed exactly; kappa > 1e12 -> counted skip); for the least-squares interpolators "
        "also the C02 certificate of the fitted parameters (agree); for KNeighbors bit-exact equality with the data and with the "
        "Coq brute-force nearest-neighbour model; for Linear/Cubic equality within 2^-40. Non-trivial = inequality evaluated.")
ASSUMPTIONS = [
    "condition numbers come from numpy's SVD of the column-scaled Jacobian and only set the tolerance / the skip threshold 1e12",
    "scipy's k-d tree, Delaunay/LinearNDInterpolator/CloughTocher2DInterpolator are external: modelled by 'nearest point' (executable in Coq, compared bit-exactly) resp. by the interpolation condition itself (checked within 2^-40)",
    "Linear/Cubic need a non-degenerate triangulation: collinear clouds are not generated for them (Qhull raises QhullError), nor two tight clusters (thin triangles: scipy's find_simplex can return -1 for a hull vertex, giving NaN at a data point with rescale=False; reported as a finding, key C01-scipy-find_simplex-misses-hull-vertex)",
    "the polynomial values a Trend is fitted to are computed in floating point by the harness; the tolerance is relative to the largest sum of |terms| of the polynomial over fit and query points",
]
TRUSTED = ["harness/c01.py (generators, numpy SVD for kappa, floating-point polynomial evaluation)"]


class Layout(str):
    """layout name; .shape is the natural 2-D shape of a gridded cloud (None for scattered ones)"""
    shape = None


def grid_axes(rnd, k):
    t = np.cumsum([rnd.uniform(0.5, 1.5) for _ in range(k)])
    return (t - t[0]) / (t[-1] - t[0]) if k > 1 else np.array([0.5])


def grid_cloud(rnd, r, c, kind):
    """(r, c) arrays that are NOT an xy-meshgrid: meshgrid(indexing='ij') (easting varies along the FIRST axis) or an
    xy-grid rotated by 10..80 degrees; unit square, C-order"""
    if kind == "ijgrid":
        x, y = grid_axes(rnd, r), grid_axes(rnd, c)
        E, N = np.meshgrid(x, y, indexing="ij")
    else:
        x, y = grid_axes(rnd, c), grid_axes(rnd, r)
        X, Y = np.meshgrid(x, y)
        th = np.radians(rnd.uniform(10, 80))
        E = 0.5 + 0.6 * (np.cos(th) * (X - 0.5) - np.sin(th) * (Y - 0.5))
        N = 0.5 + 0.6 * (np.sin(th) * (X - 0.5) + np.cos(th) * (Y - 0.5))
    return E, N


def layout2d(rnd, arrs, layout=None):
    """how the SAME points are handed over: 1-D, or 2-D arrays that are not xy-meshgrids: the natural (r, c) shape of an
    ij-/rotated grid, scattered points reshaped to (r, c), a column (n, 1), a row (1, n)"""
    n = arrs[0].size
    shp = getattr(layout, "shape", None)
    if shp:
        return [a.reshape(shp) for a in arrs]
    u = rnd.random()
    if u < 0.3:
        return list(arrs)
    if u < 0.42:
        return [a.reshape(n, 1) for a in arrs]
    if u < 0.54:
        return [a.reshape(1, n) for a in arrs]
    fac = [(r, n // r) for r in range(2, n) if n % r == 0]
    if fac:
        shp = rnd.choice(fac)
        return [a.reshape(shp) for a in arrs]
    return list(arrs)


def cloud(rnd, n, collinear_ok=True):
    """pairwise distinct points"""
    scale = 10.0 ** rnd.uniform(-2, 6)
    offset = rnd.choice([0.0, 0.0, 1.0, 30.0, 1e3]) * rnd.uniform(-1, 1)
    # collinear_ok=False is the Linear/Cubic (Delaunay) setting: no collinear clouds (QhullError) and no tight
    # clusters (thin triangles: scipy's find_simplex misses a hull vertex -> NaN at a data point; reported finding)
    layouts = ["scatter", "scatter", "grid", "ijgrid", "rotgrid", "unitlattice"] + (["clusters", "line"] if collinear_ok else [])
    layout = Layout(rnd.choice(layouts))
    if layout == "unitlattice":
        # stations with pairs EXACTLY 1.0 apart (the biharmonic Green's function switches formula at distance 1):
        # integer lattice (unit spacing, integer offset) plus a few 3-4-5 points; coordinate scale exactly 1
        k = int(np.ceil(n ** 0.5)) + 1
        pts = [(float(a), float(b)) for a in range(k) for b in range(k)] + [(0.6, 0.8), (0.28, 0.96), (1.6, 0.8)]
        rnd.shuffle(pts)
        off = float(rnd.choice([0, 0, 7, -1000]))
        e = np.array([q[0] for q in pts[:n]]) + off
        nn = np.array([q[1] for q in pts[:n]]) - off
        return e, nn, 1.0, layout
    fac = [(r, n // r) for r in range(2, n) if n % r == 0]
    if layout in ("ijgrid", "rotgrid") and not fac:
        layout = Layout("scatter")
    if layout in ("ijgrid", "rotgrid"):
        shp = rnd.choice(fac)
        E, N = grid_cloud(rnd, shp[0], shp[1], str(layout))
        e, nn = E.ravel(), N.ravel()
        layout.shape = shp
    elif layout == "grid":
        k = int(np.ceil(n ** 0.5))
        pts = [(i + 0.2 * rnd.random(), j + 0.2 * rnd.random()) for i in range(k) for j in range(k)]
        rnd.shuffle(pts)
        pts = pts[:n]
        e = np.array([p[0] for p in pts]) / k
        nn = np.array([p[1] for p in pts]) / k
    elif layout == "clusters":
        c = [(rnd.random(), rnd.random()) for _ in range(2)]
        e = np.array([c[i % 2][0] + 0.02 * rnd.random() for i in range(n)])
        nn = np.array([c[i % 2][1] + 0.02 * rnd.random() for i in range(n)])
    elif layout == "line":
        t = np.array(sorted(rnd.random() for _ in range(n)))
        e, nn = t, 0.25 + 0.5 * t
    else:
        e = np.array([rnd.random() for _ in range(n)])
        nn = np.array([rnd.random() for _ in range(n)])
    e = scale * (offset + e)
    nn = scale * (-0.3 * offset + nn)
    if len(set(zip(e.tolist(), nn.tolist()))) != n:
        return cloud(rnd, n, collinear_ok)
    return e, nn, scale, layout


def rdata(rnd, n):
    return np.array([rnd.gauss(0, 1) for _ in range(n)]) * 10.0 ** rnd.uniform(-3, 4) + rnd.choice([0.0, 0.0, 50.0])


def kappa_scaled(A):
    sc = A.std(0)
    sc = np.where(sc == 0, 1.0, sc)
    s = np.linalg.svd(A / sc, compute_uv=False)
    return np.inf if (s[-1] == 0 or A.shape[0] < A.shape[1]) else float(s[0] / s[-1])


def _lit(data):
    return ("tuple(np.array(x) for x in %r)" % (tolist(data),)) if isinstance(data, tuple) else "np.array(%r)" % (tolist(data),)


def mk_repro(expr, coords, data, prefit=None):
    pre = ""
    if prefit is not None:
        pre = "est.fit(tuple(np.array(x) for x in %r), %s); " % (tolist(prefit[0]), _lit(prefit[1]))
    return ("import numpy as np, verde as vd, warnings; warnings.simplefilter('ignore'); "
            "c = tuple(np.array(x) for x in %r); d = %s; est = %s; %sest.fit(c, d); p = est.predict(c); "
            "print(np.max(np.abs(np.ravel(p) - np.ravel(d))))" % (tolist(coords), _lit(data), expr, pre))


def other_set(rnd, n, vec, collinear_ok=True):
    """a DIFFERENT data set (fewer or more points) the same estimator instance is fitted to BEFORE the measured fit:
    nothing of it may survive in the second fit"""
    n0 = max(4, n // 2) if rnd.random() < 0.5 else n + rnd.randint(3, 10)
    if n0 == n:
        n0 += 1
    e, nn, _, _ = cloud(rnd, n0, collinear_ok)
    if vec:
        return (e, nn), (rdata(rnd, n0), rdata(rnd, n0))
    return (e, nn), rdata(rnd, n0)


def fc_literal(coords):
    return "(np.array(%r), np.array(%r))" % (np.ravel(coords[0]).tolist(), np.ravel(coords[1]).tolist())


def flat(x):
    if isinstance(x, tuple):
        return np.concatenate([np.ravel(c) for c in x])
    return np.ravel(x)


_EXTRA = []


def drain():
    out = list(_EXTRA)
    del _EXTRA[:]
    return out


def shape_case(expr, coords, pred, pred1d, what, repro):
    """the same points handed over as 2-D arrays and as 1-D arrays: same values (2^-40 of the largest), output in the
    shape of the input coordinates"""
    comps = pred if isinstance(pred, tuple) else (pred,)
    inp = {"estimator": expr, "coordinates": tolist(coords), "compared": what}
    kind = "shape-2d-vs-1d/" + expr.split("(")[0].replace("vd.", "")
    if any(np.shape(c) != np.shape(coords[0]) for c in comps):
        return Case(inp, {"output_shapes": [list(np.shape(c)) for c in comps], "coordinate_shape": list(np.shape(coords[0]))},
                    "Vviol", repro, kind + "/wrong-output-shape")
    a, b = flat(pred1d), flat(pred)
    if not (np.all(np.isfinite(a)) and np.all(np.isfinite(b))):
        return None
    return Case(inp, {"max_abs_difference": float(np.max(np.abs(a - b)))}, "c01_passthrough %s %s" % (dl(a), dl(b)), repro, kind)


def run(expr, coords, data, prefit=None):
    import verde as vd
    est = eval(expr, {"vd": vd, "np": np})
    with warnings.catch_warnings():
        warnings.simplefilter("ignore")
        if prefit is not None:
            est.fit(prefit[0], prefit[1])
        est.fit(coords, data)
        pred = est.predict(coords)
        if np.ndim(coords[0]) == 2:
            # the same points and data as 1-D arrays, fresh instance: fit/predict must not depend on the array shape
            c1 = tuple(np.ravel(c) for c in coords)
            d1 = tuple(np.ravel(c) for c in data) if isinstance(data, tuple) else np.ravel(data)
            est1 = eval(expr, {"vd": vd, "np": np})
            est1.fit(c1, d1)
            extra = shape_case(expr, coords, pred, est1.predict(c1), "fit+predict at the data points, %s arrays vs 1-D" % (np.shape(coords[0]),),
                               mk_repro(expr, coords, data, prefit))
            if extra is not None:
                _EXTRA.append(extra)
    return est, pred


def skip_case(inp, out, repro, stream):
    return Case(inp, out, "Vskip", repro, stream + "/skip-illconditioned", nontrivial=False)


def spline_kernel(e, nn, fe, fn, mindist):
    """independent numpy evaluation of the biharmonic Green's function matrix r^2 (log r - 1) (0 at r = 0): used only for
    the condition number that sets the tolerance / the skip, so that a wrong jacobian() cannot hide behind a skip"""
    r = np.hypot(e[:, None] - fe[None, :], nn[:, None] - fn[None, :]) + (0.0 if mindist is None else mindist)
    with np.errstate(divide="ignore", invalid="ignore"):
        g = np.where(r > 0, r * r * (np.log(np.where(r > 0, r, 1.0)) - 1.0), 0.0)
    return g


FORCE_MODES = ["none", "permuted", "none", "separate-same-size", "none", "sorted"]
POISSON_SPECIAL = [-1.0, 0.0, 1.0, 0.5]


def forces_for(rnd, mode, coords):
    """force_coords for an exact interpolator: None (copied data points), the SAME set of points in another order
    (shuffled / sorted by easting), or a separate set of the same size (square system: still exact)"""
    e, nn = np.ravel(coords[0]), np.ravel(coords[1])
    if mode == "permuted":
        idx = list(range(e.size))
        rnd.shuffle(idx)
        if idx == sorted(idx) and e.size > 1:
            idx = idx[1:] + idx[:1]
        return e[idx].copy(), nn[idx].copy()
    if mode == "sorted":
        idx = np.argsort(e, kind="stable")[::-1]
        return e[idx].copy(), nn[idx].copy()
    if mode == "separate-same-size":
        fe = e.min() + (e.max() - e.min()) * np.array([rnd.uniform(-0.05, 1.05) for _ in range(e.size)])
        fn = nn.min() + (nn.max() - nn.min() + (e.max() - e.min()) * 1e-3) * np.array([rnd.uniform(-0.05, 1.05) for _ in range(e.size)])
        return fe, fn
    return None


def spline_case(rnd, i, vector):
    n = rnd.randint(3, 12) if vector else rnd.randint(3, 22)
    e, nn, scale, layout = cloud(rnd, n)
    prefit_flag = bool(i % 2)
    mode = FORCE_MODES[(i // 2) % len(FORCE_MODES)]
    if vector:
        # documented special Poisson ratios (exactly -1: uncoupled, 0, 1, the default 0.5) in every third case
        poisson = POISSON_SPECIAL[(i // 3) % 4] if i % 3 == 0 else rnd.uniform(-1, 1)
        mind = 10e3 if i % 5 == 4 else scale * 10.0 ** rnd.uniform(-3, -0.5)      # 10e3 is the documented default
        arrs = layout2d(rnd, [e, nn, rdata(rnd, n), rdata(rnd, n)], layout)
        coords, data = (arrs[0], arrs[1]), (arrs[2], arrs[3])
        fcs = forces_for(rnd, mode, coords)
        # VectorSpline2D documents that it keeps the force locations of its FIRST fit: in the prefit variant the
        # forces are therefore always given explicitly so that the documented memory is not an alarm
        if fcs is None and prefit_flag:
            fcs = (np.ravel(coords[0]).copy(), np.ravel(coords[1]).copy())
        expr = "vd.VectorSpline2D(poisson=%r, mindist=%r%s)" % (poisson, mind, "" if fcs is None else ", force_coords=" + fc_literal(fcs))
    else:
        mind = [None, 0.0, None, 1e-6 * scale, None, 1e-2 * scale][i % 6]
        arrs = layout2d(rnd, [e, nn, rdata(rnd, n)], layout)
        coords, data = (arrs[0], arrs[1]), arrs[2]
        fcs = forces_for(rnd, mode, coords)
        expr = "vd.Spline(mindist=%r%s)" % (mind, "" if fcs is None else ", force_coords=" + fc_literal(fcs))
    prefit = other_set(rnd, n, vector) if prefit_flag else None
    est, pred = run(expr, coords, data, prefit)
    # certificate: Jacobian for the estimator's CURRENT force coordinates; conditioning (tolerance / skip): the system
    # the user configured (forces at the measured points, in the configured order, or the separate set) - evaluated
    # independently of jacobian() for the scalar spline - so that stale state or a wrong Jacobian cannot hide behind a skip
    fc = est.force_coords if vector else est.force_coords_
    A = np.array(est.jacobian(coords, fc), dtype=float)
    conf_fc = fcs if fcs is not None else tuple(np.ravel(c) for c in coords)
    if vector:
        kap = kappa_scaled(np.array(est.jacobian(coords, conf_fc), dtype=float))
    else:
        kap = kappa_scaled(spline_kernel(np.ravel(coords[0]), np.ravel(coords[1]), conf_fc[0], conf_fc[1], mind))
    d = flat(data)
    p = np.array(est.force_, dtype=float)
    if not vector:
        # the implementation's Jacobian against the independent kernel: entries within 2^-40 of the largest
        ref = spline_kernel(np.ravel(coords[0]), np.ravel(coords[1]), np.ravel(fc[0]), np.ravel(fc[1]), mind)
        if ref.shape == A.shape:
            diff = (A - ref).ravel()
            _EXTRA.append(Case({"estimator": expr, "coordinates": tolist(coords), "layout": layout},
                               {"max_abs_difference": float(np.max(np.abs(diff))), "max_abs_entry": float(np.max(np.abs(ref)))},
                               "c01_exact %s %s %s %s %s" % (cD(1.0), cD(4096.0), cD(float(np.max(np.abs(ref)))),
                                                             clist(["(0,0)%Z"] * diff.size), dl(diff)),
                               mk_repro(expr, coords, data, prefit), "jacobian-vs-independent/spline"))
    stream = ("vector-spline" if vector else "spline") + ("" if mode == "none" else "-forces-" + mode) + ("-prefit" if prefit is not None else "")
    inp = {"estimator": expr, "coordinates": tolist(coords), "data": tolist(data), "layout": layout, "force_mode": mode,
           "fitted_before_to": None if prefit is None else {"coordinates": tolist(prefit[0]), "data": tolist(prefit[1])}}
    out = {"max_abs_misfit": float(np.max(np.abs(flat(pred) - d))), "kappa": kap, "n_forces": int(p.size)}
    repro = mk_repro(expr, coords, data, prefit)
    if not kap <= KAPPA_MAX:
        return skip_case(inp, out, repro, stream)
    term = "c01_ls_exact %s %s %s %s %s %s (0,0)%%Z %s %s" % (
        cN(A.shape[1]), dmat(A), dl(d), dl(p), cD(CFACTOR), cD(kap), dl(d), dl(flat(pred)))
    return Case(inp, out, term, repro, stream, nontrivial=True)


def knn_case(rnd, i):
    n = rnd.randint(1, 30)
    e, nn, scale, layout = cloud(rnd, n)
    arrs = layout2d(rnd, [e, nn, rdata(rnd, n)], layout)
    coords, data = (arrs[0], arrs[1]), arrs[2]
    expr = "vd.KNeighbors(k=1)" if i % 2 else "vd.KNeighbors()"
    prefit = other_set(rnd, n, False) if i % 4 >= 2 else None
    est, pred = run(expr, coords, data, prefit)
    ok_shape = np.shape(pred) == np.shape(data)
    term = "c01_knn %s %s %s %s" % (dl(coords[0]), dl(coords[1]), dl(data), dl(pred) if ok_shape else "[]")
    return Case({"estimator": expr, "coordinates": tolist(coords), "data": tolist(data), "layout": layout,
                 "fitted_before_to": None if prefit is None else {"coordinates": tolist(prefit[0]), "data": tolist(prefit[1])}},
                {"max_abs_misfit": float(np.max(np.abs(flat(pred) - flat(data)))), "shape_ok": bool(ok_shape)},
                term, mk_repro(expr, coords, data, prefit), "kneighbors" + ("-prefit" if prefit is not None else ""), nontrivial=n > 1)


def nan_report(coords, pf):
    """which data points were predicted non-finite, and whether they all lie ON THE BOUNDARY of the convex hull of the
    cloud (a hull vertex, or a point on a hull edge as the border nodes of a rotated grid): the signature of finding F17"""
    from scipy.spatial import ConvexHull
    bad = np.flatnonzero(~np.isfinite(pf))
    pts = np.column_stack([np.ravel(coords[0]), np.ravel(coords[1])])
    try:
        hull = ConvexHull(pts)
        ext = float(np.max(np.ptp(pts, axis=0))) or 1.0
        # signed distance to the nearest facet: 0 on the boundary, negative inside
        dist = np.max(hull.equations[:, :2] @ pts[bad].T + hull.equations[:, 2:3], axis=0)
        on_hull = bool(bad.size > 0 and np.all(dist >= -1e-9 * ext))
    except Exception:
        on_hull = False
    return {"non_finite_predictions": int(bad.size), "at_data_points": bad.tolist(), "all_on_convex_hull": on_hull}


def scipy_direct_nan(expr, coords, data):
    """positions where SciPy's own interpolator (built directly here, without verde) returns a non-finite value at the
    data points: verde's Linear/Cubic are documented to return what SciPy returns"""
    from scipy.interpolate import LinearNDInterpolator, CloughTocher2DInterpolator
    pts = np.column_stack([np.ravel(coords[0]), np.ravel(coords[1])])
    cls = LinearNDInterpolator if "Linear" in expr else CloughTocher2DInterpolator
    try:
        with warnings.catch_warnings():
            warnings.simplefilter("ignore")
            v = cls(pts, np.ravel(data), rescale=("rescale=True" in expr))(pts)
        return np.flatnonzero(~np.isfinite(np.ravel(v))).tolist()
    except Exception:
        return None


def scipy_case(rnd, i):
    n = rnd.randint(4, 30)
    e, nn, scale, layout = cloud(rnd, n, collinear_ok=False)
    arrs = layout2d(rnd, [e, nn, rdata(rnd, n)], layout)
    coords, data = (arrs[0], arrs[1]), arrs[2]
    kind = ["Linear", "Cubic"][i % 2]
    expr = "vd.%s(rescale=%r)" % (kind, bool((i // 2) % 2))
    prefit = other_set(rnd, n, False, collinear_ok=False) if i % 8 >= 4 else None
    inp = {"estimator": expr, "coordinates": tolist(coords), "data": tolist(data), "layout": layout,
           "fitted_before_to": None if prefit is None else {"coordinates": tolist(prefit[0]), "data": tolist(prefit[1])}}
    repro = mk_repro(expr, coords, data, prefit)
    try:
        est, pred = run(expr, coords, data, prefit)
    except Exception as exc:   # QhullError on (numerically) degenerate input: not an exactness statement
        return Case(inp, {"raised": type(exc).__name__}, "Vskip", repro, kind.lower() + "/skip-qhull-error", nontrivial=False)
    pf = flat(pred)
    if not np.all(np.isfinite(pf)):
        rep = nan_report(coords, pf)
        rep["scipy_direct_non_finite_at"] = scipy_direct_nan(expr, coords, data)
        rep["same_as_scipy_direct"] = rep["scipy_direct_non_finite_at"] == rep["at_data_points"]
        return Case(inp, rep, "Vviol", repro, kind.lower() + "/nan-at-data-point")
    term = "c01_passthrough %s %s" % (dl(data), dl(pf))
    return Case(inp, {"max_abs_misfit": float(np.max(np.abs(pf - flat(data))))}, term, repro,
                kind.lower() + ("-prefit" if prefit is not None else ""), nontrivial=True)


COMPOSITES = [
    # (label, expression, vector data?): exact interpolators in EVERY position of a chain; the last step is always exact
    ("Chain-trend-spline", "vd.Chain([('trend', vd.Trend(1)), ('spline', vd.Spline())])", False),
    ("Chain-trend-knn", "vd.Chain([('trend', vd.Trend(2)), ('nn', vd.KNeighbors(1))])", False),
    ("Chain-trend-linear", "vd.Chain([('trend', vd.Trend(1)), ('lin', vd.Linear())])", False),
    ("Chain-knn-spline", "vd.Chain([('nn', vd.KNeighbors(1)), ('spline', vd.Spline())])", False),
    ("Vector-spline-spline", "vd.Vector([vd.Spline(), vd.Spline(mindist=0)])", True),
    ("Vector-knn-cubic", "vd.Vector([vd.KNeighbors(1), vd.Cubic()])", True),
    ("Chain-vtrend-vspline", "vd.Chain([('trend', vd.Vector([vd.Trend(1), vd.Trend(2)])), ('spline', vd.VectorSpline2D(poisson=0.3, mindist=MIND))])", True),
    ("Chain-vtrend-vector-splines", "vd.Chain([('trend', vd.Vector([vd.Trend(1), vd.Trend(1)])), ('spline', vd.Vector([vd.Spline(), vd.Spline()]))])", True),
    ("Chain-spline-linear", "vd.Chain([('spline', vd.Spline()), ('lin', vd.Linear())])", False),
    ("Chain-spline-knn", "vd.Chain([('spline', vd.Spline()), ('nn', vd.KNeighbors(1))])", False),
    ("Chain-trend-spline-cubic", "vd.Chain([('trend', vd.Trend(1)), ('spline', vd.Spline()), ('cub', vd.Cubic())])", False),
    ("Chain-spline-spline", "vd.Chain([('s1', vd.Spline()), ('s2', vd.Spline(mindist=0))])", False),
    ("Chain-linear-spline", "vd.Chain([('lin', vd.Linear()), ('spline', vd.Spline())])", False),
    ("Chain-cubic-knn", "vd.Chain([('cub', vd.Cubic()), ('nn', vd.KNeighbors(1))])", False),
    ("Chain-knn-linear-spline", "vd.Chain([('nn', vd.KNeighbors(1)), ('lin', vd.Linear()), ('spline', vd.Spline())])", False),
    ("Chain-vspline-vector-linear-knn", "vd.Chain([('vs', vd.VectorSpline2D(poisson=0.3, mindist=MIND)), ('v', vd.Vector([vd.Linear(), vd.KNeighbors(1)]))])", True),
    ("Chain-nested-chain-spline", "vd.Chain([('inner', vd.Chain([('trend', vd.Trend(1)), ('nn', vd.KNeighbors(1))])), ('spline', vd.Spline())])", False),
    ("Vector-of-chains-spline-first", "vd.Vector([vd.Chain([('spline', vd.Spline()), ('lin', vd.Linear())]), vd.Chain([('spline', vd.Spline()), ('nn', vd.KNeighbors(1))])])", True),
]


LABEL_MODES = ["all-equal", "unique", "last-two-equal", "first-two-equal"]


def relabel(expr, mode):
    """Chain never requires unique step labels: rewrite the labels of EVERY chain in the expression (nested chains and
    chains inside a Vector included) so that they are all equal / the first two equal / the last two equal"""
    import re
    if mode == "unique":
        return expr
    chains, stack, depth = [], [], 0
    labels = {m.start(): m for m in re.finditer(r"\('(\w+)', ", expr)}
    k = 0
    while k < len(expr):
        if expr.startswith("vd.Chain(", k):
            stack.append((depth, []))
            chains.append(stack[-1][1])
        if k in labels and stack:
            stack[-1][1].append(labels[k])
        ch = expr[k]
        if ch in "([":
            depth += 1
        elif ch in ")]":
            depth -= 1
            if stack and depth == stack[-1][0]:
                stack.pop()
        k += 1
    edits = []
    for ms in chains:
        names = [m.group(1) for m in ms]
        if len(names) < 2:
            continue
        if mode == "all-equal":
            new = [names[0]] * len(names)
        elif mode == "first-two-equal":
            new = [names[0], names[0]] + names[2:]
        else:
            new = names[:-2] + [names[-1], names[-1]]
        edits += [(m.start(1), m.end(1), nm) for m, nm in zip(ms, new)]
    for a, b, nm in sorted(edits, reverse=True):
        expr = expr[:a] + nm + expr[b:]
    return expr


def triangulation_nan(coords):
    """does scipy's Delaunay-based interpolation (default rescale=False) miss one of these data points?  (known finding
    F17: depends on the cloud only, not on the data)"""
    import verde as vd
    c1 = tuple(np.ravel(c) for c in coords)
    with warnings.catch_warnings():
        warnings.simplefilter("ignore")
        pf = np.ravel(vd.Linear().fit(c1, np.arange(c1[0].size, dtype=float)).predict(c1))
    return None if np.all(np.isfinite(pf)) else pf


def composite_case(rnd, i):
    label, expr, vec = COMPOSITES[i % len(COMPOSITES)]
    has_vspline = "VectorSpline2D" in expr
    has_spline = "vd.Spline(" in expr
    needs_tri = "Linear(" in expr or "Cubic(" in expr
    n = rnd.randint(7, 20) if not has_vspline else rnd.randint(7, 12)
    e, nn, scale, layout = cloud(rnd, n, collinear_ok=not needs_tri)
    expr = expr.replace("MIND", repr(scale * 0.05))
    # step labels: unique, or deliberately repeated (consecutive rounds of the list use different modes, so that every
    # composite meets a repeated-label mode within any two rounds)
    label_mode = LABEL_MODES[(i % len(COMPOSITES) + i // len(COMPOSITES)) % len(LABEL_MODES)]
    expr = relabel(expr, label_mode)
    if vec:
        arrs = layout2d(rnd, [e, nn, rdata(rnd, n), rdata(rnd, n)], layout)
        coords, data = (arrs[0], arrs[1]), (arrs[2], arrs[3])
    else:
        arrs = layout2d(rnd, [e, nn, rdata(rnd, n)], layout)
        coords, data = (arrs[0], arrs[1]), arrs[2]
    # every second round of the composite list: the same composite instance is first fitted to another data set
    prefit = other_set(rnd, n, vec, collinear_ok=not needs_tri) if (i // len(COMPOSITES)) % 2 else None
    if prefit is not None and has_vspline:   # documented memory of VectorSpline2D: give the forces explicitly
        expr = expr.replace("mindist=%r)" % (scale * 0.05), "mindist=%r, force_coords=%s)" % (scale * 0.05, fc_literal(coords)))
    stream = "composite/" + label + ("-prefit" if prefit is not None else "")
    inp = {"estimator": expr, "coordinates": tolist(coords), "data": tolist(data), "layout": layout, "step_labels": label_mode,
           "fitted_before_to": None if prefit is None else {"coordinates": tolist(prefit[0]), "data": tolist(prefit[1])}}
    repro = mk_repro(expr, coords, data, prefit)
    if needs_tri:
        pf = triangulation_nan(coords)
        if pf is not None:      # this cloud exhibits the known scipy finding: report it as such, not through the composite
            rep = nan_report(coords, pf)
            rep["scipy_direct_non_finite_at"] = scipy_direct_nan("vd.Linear(rescale=False)", coords, np.arange(np.size(coords[0]), dtype=float))
            rep["same_as_scipy_direct"] = rep["scipy_direct_non_finite_at"] == rep["at_data_points"]
            return Case({"estimator": "vd.Linear(rescale=False)", "coordinates": tolist(coords), "layout": layout},
                        rep, "Vviol", repro, "linear/nan-at-data-point")
    try:
        est, pred = run(expr, coords, data, prefit)
    except Exception as exc:
        if needs_tri:
            return Case(inp, {"raised": type(exc).__name__}, "Vskip", repro, stream + "/skip-qhull-error", nontrivial=False)
        raise
    d, pf = flat(data), flat(pred)
    out = {"max_abs_misfit": float(np.max(np.abs(pf - d)))}
    if not np.all(np.isfinite(pf)):
        return Case(inp, out, "Vviol", repro, stream + "/nan-at-data-point")
    if has_spline or has_vspline:
        # conditioning of the least-squares steps: the spline system(s) at these points (independent kernel for the scalar one)
        import verde as vd
        c1 = tuple(np.ravel(c) for c in coords)
        kap = 1.0
        if has_spline:
            kap = max(kap, kappa_scaled(spline_kernel(c1[0], c1[1], c1[0], c1[1], None)))
        if has_vspline:
            kap = max(kap, kappa_scaled(np.array(vd.VectorSpline2D(poisson=0.3, mindist=scale * 0.05).jacobian(c1, c1), dtype=float)))
        out["kappa"] = kap
        if not kap <= KAPPA_MAX:
            return skip_case(inp, out, repro, stream)
        term = "c01_exact %s %s (0,0)%%Z %s %s" % (cD(CFACTOR), cD(kap), dl(d), dl(pf))
    else:
        # every step passes data through or is a trend: 2^-40 of max|data|
        term = "c01_passthrough %s %s" % (dl(d), dl(pf))
    return Case(inp, out, term, repro, stream, nontrivial=True)


def trend_poly_case(rnd, i):
    import verde as vd
    from verde.trend import polynomial_power_combinations
    degree = i % 5
    ncoef = (degree + 1) * (degree + 2) // 2
    n = rnd.randint(ncoef + 1, 30)
    e, nn, scale, layout = cloud(rnd, n, collinear_ok=False)
    pdeg = rnd.randint(0, degree)
    combos = polynomial_power_combinations(pdeg)
    # coefficients sized so that every term is O(amp) over the cloud
    amp = 10.0 ** rnd.uniform(-2, 3)
    ref = max(np.abs(e).max(), np.abs(nn).max())
    coefs = [amp * rnd.uniform(-1, 1) / ref ** (a + b) for a, b in combos]

    def poly(x, y):
        val = np.zeros_like(x)
        mag = np.zeros_like(x)
        for c, (a, b) in zip(coefs, combos):
            t = c * x ** a * y ** b
            val = val + t
            mag = mag + np.abs(t)
        return val, mag

    data, mag_fit = poly(e, nn)
    # query points OFF the data, handed over in every array layout: 1-D, scattered points in (r, c) / (m, 1) / (1, m)
    # arrays, an ij-meshgrid, a rotated grid (none of the 2-D ones is an xy-meshgrid)
    qmode = ["flat", "reshaped", "column", "row", "ijgrid", "rotgrid"][(i // 5) % 6]
    if qmode in ("ijgrid", "rotgrid"):
        QE, QN = grid_cloud(rnd, rnd.randint(2, 4), rnd.randint(2, 4), qmode)
    else:
        m = rnd.choice([4, 6, 8, 9, 12]) if qmode == "reshaped" else rnd.randint(3, 12)
        QE = np.array([rnd.random() for _ in range(m)])
        QN = np.array([rnd.random() for _ in range(m)])
        if qmode == "reshaped":
            r = rnd.choice([r for r in range(2, m) if m % r == 0])
            QE, QN = QE.reshape(r, m // r), QN.reshape(r, m // r)
        elif qmode == "column":
            QE, QN = QE.reshape(m, 1), QN.reshape(m, 1)
        elif qmode == "row":
            QE, QN = QE.reshape(1, m), QN.reshape(1, m)
    qe = e.min() + (e.max() - e.min()) * QE
    qn = nn.min() + (nn.max() - nn.min()) * QN
    truth, mag_q = poly(qe, qn)
    arrs = layout2d(rnd, [e, nn, data], layout)
    coords = (arrs[0], arrs[1])
    est = vd.Trend(degree)
    prefit = other_set(rnd, n, False) if i % 10 >= 5 else None
    if prefit is not None:
        with warnings.catch_warnings():
            warnings.simplefilter("ignore")
            est.fit(prefit[0], prefit[1])
    est.fit(coords, arrs[2])
    pred = est.predict((qe, qn))
    A = np.array(est.jacobian(coords), dtype=float)
    qrepro = ("import numpy as np, verde as vd; c = tuple(np.array(x) for x in %r); d = np.array(%r); q = tuple(np.array(x) for x in %r); "
              "t = vd.Trend(%d).fit(c, d); print(t.predict(q) - t.predict(tuple(np.ravel(x) for x in q)).reshape(q[0].shape))"
              % (tolist(coords), tolist(arrs[2]), [qe.tolist(), qn.tolist()], degree))
    if np.ndim(qe) == 2:
        extra = shape_case("vd.Trend(%d)" % degree, (qe, qn), pred, est.predict((qe.ravel(), qn.ravel())),
                           "predict off the data, %s arrays (%s) vs 1-D" % (np.shape(qe), qmode), qrepro)
        if extra is not None:
            _EXTRA.append(extra)
    if np.shape(pred) != np.shape(qe):
        pred = np.full(np.shape(qe), np.nan)     # reported by the shape case; keep the term well formed
    if not np.all(np.isfinite(pred)):
        return Case({"estimator": "vd.Trend(%d)" % degree, "query": [qe.tolist(), qn.tolist()], "query_layout": qmode},
                    {"non_finite_or_misshaped_prediction": True}, "Vviol", qrepro, "trend-polynomial/bad-prediction")
    kap = kappa_scaled(A)
    inp = {"estimator": "vd.Trend(%d)" % degree, "polynomial_degree": pdeg, "polynomial_coefficients": coefs,
           "coordinates": tolist(coords), "query": [qe.tolist(), qn.tolist()], "layout": layout, "query_layout": qmode}
    out = {"max_abs_error_off_data": float(np.max(np.abs(pred - truth))), "kappa": kap}
    repro = ("import numpy as np, verde as vd; c = tuple(np.array(x) for x in %r); d = np.array(%r); q = tuple(np.array(x) for x in %r); "
             "print(vd.Trend(%d).fit(c, d).predict(q) - np.array(%r))" % (tolist(coords), tolist(arrs[2]), [qe.tolist(), qn.tolist()], degree, truth.tolist()))
    if prefit is not None:
        inp["fitted_before_to"] = {"coordinates": tolist(prefit[0]), "data": tolist(prefit[1])}
    if not kap <= KAPPA_MAX:
        return skip_case(inp, out, repro, "trend-polynomial")
    scale_mag = float(max(mag_fit.max(), mag_q.max()))
    term = "c01_ls_exact %s %s %s %s %s %s %s %s %s" % (
        cN(A.shape[1]), dmat(A), dl(data), dl(est.coef_), cD(CFACTOR), cD(kap), cD(scale_mag), dl(truth), dl(pred))
    return Case(inp, out, term, repro, "trend-polynomial" + ("-prefit" if prefit is not None else ""), nontrivial=True)


def generate(tier, seed):
    rnd = random.Random(seed)
    q = tier == "quick"
    cases = []

    def add(case):
        cases.append(case)
        cases.extend(drain())     # the 2-D versus 1-D comparisons queued while the case was built

    del _EXTRA[:]
    for i in range(24 if q else 192):
        add(spline_case(rnd, i, vector=False))
    for i in range(24 if q else 144):
        add(spline_case(rnd, i, vector=True))
    for i in range(12 if q else 120):
        add(knn_case(rnd, i))
    for i in range(16 if q else 160):
        add(scipy_case(rnd, i))
    for i in range(36 if q else 216):
        add(composite_case(rnd, i))
    for i in range(30 if q else 210):
        add(trend_poly_case(rnd, i))
    cases.extend(thin_cases())
    del _EXTRA[:]
    return cases


# deterministic thin-triangulation witnesses (two tight clusters): scipy's Delaunay.find_simplex returns -1 for a hull
# vertex, so Linear/Cubic(rescale=False) predict NaN AT A DATA POINT (known finding F17); layout 2 has no offset at all
THIN_LAYOUTS = [
    ([10778.978903660258, 13452.608060274664, 10733.427101825906, 13584.529134417486, 10846.027522695942, 13418.221306128455, 10624.116658589695, 13588.336287813854, 10845.609249824543],
     [4391.676441557876, 2100.908669002415, 4473.616950740503, 2187.39196324411, 4434.769706501367, 2140.1683379461147, 4473.339781549647, 2065.9315712075795, 4461.858909730165]),
    ([514.5851131709663, 1540.6043312057732, 480.7820886773036, 1521.380351835127, 490.9619014099803, 1550.5608791359762, 518.3301990178882],
     [1280.1857919667953, 1562.9953385442948, 1308.7638351050946, 1560.3281887843807, 1272.8095648978385, 1587.1028147200313, 1309.1941209787378]),
    ([0.5261680339642513, 0.2558492697527155, 0.5122833635378381, 0.2567880086838299, 0.5144306097766627, 0.25268031520621326, 0.5205584071132926, 0.2618266710291542],
     [0.808148027616729, 0.45990794740014884, 0.8042374075268677, 0.4674293599756638, 0.7970770399253131, 0.4629830619528762, 0.8030765308667743, 0.4675647869054446]),
    ([-8.118324860049912, -7.88768520592463, -8.136723802783495, -7.889106177609343, -8.140091936614795, -7.900320070630911, -8.125808655436515, -7.900884282719932, -8.130155102950186, -7.892054307642286, -8.122121305184487, -7.900924654878147],
     [2.723579213264746, 3.1615166323783948, 2.71442056344499, 3.1668615006193424, 2.7101354608297297, 3.1651680565494367, 2.720320567529053, 3.1431280795983514, 2.7119744390273257, 3.164935286728915, 2.7088176541185502, 3.1487134644267476]),
]
THIN_STREAM = "thin-triangulation"


def thin_cases():
    """fixed inputs, independent of the seed: cases that come out fine are simply ok"""
    cases = []
    for k, (e, nn) in enumerate(THIN_LAYOUTS):
        e, nn = np.array(e), np.array(nn)
        data = np.arange(1, e.size + 1, dtype=float) * (-1.0) ** np.arange(e.size)
        for kind in ("Linear", "Cubic"):
            expr = "vd.%s(rescale=False)" % kind
            inp = {"estimator": expr, "coordinates": [e.tolist(), nn.tolist()], "data": data.tolist(), "layout": "thin two-cluster witness %d" % k}
            repro = mk_repro(expr, (e, nn), data)
            est, pred = run(expr, (e, nn), data)
            pf = flat(pred)
            if not np.all(np.isfinite(pf)):
                rep = nan_report((e, nn), pf)
                rep["scipy_direct_non_finite_at"] = scipy_direct_nan(expr, (e, nn), data)
                rep["same_as_scipy_direct"] = rep["scipy_direct_non_finite_at"] == rep["at_data_points"]
                cases.append(Case(inp, rep, "Vviol", repro,
                                  "%s/%s/nan-at-data-point" % (THIN_STREAM, kind.lower())))
            else:
                cases.append(Case(inp, {"max_abs_misfit": float(np.max(np.abs(pf - data)))},
                                  "c01_passthrough %s %s" % (dl(data), dl(pf)), repro, "%s/%s" % (THIN_STREAM, kind.lower())))
    return cases


def finding_key(case):
    # only the narrow signature of the reported scipy behaviour: data points ON THE BOUNDARY of the convex hull (vertex or edge point; border nodes
    # of a rotated grid can be several) where SciPy's own interpolator, built directly by the harness, is non-finite at exactly the same positions - or exactly ONE such point,
    # predicted NaN by a plain Linear/Cubic (it also happens, rarely, with rescale=True and ordinary scatters: see the
    # 16-point witness in the report); anything broader (several NaNs, interior points, composites) stays a violation
    if case.kind in ("linear/nan-at-data-point", "cubic/nan-at-data-point", THIN_STREAM + "/linear/nan-at-data-point",
                     THIN_STREAM + "/cubic/nan-at-data-point") \
            and isinstance(case.out, dict) and case.out.get("all_on_convex_hull") is True \
            and (case.out.get("non_finite_predictions") == 1 or
                 (case.out.get("non_finite_predictions", 0) >= 1 and case.out.get("same_as_scipy_direct") is True)):
        return "C01-scipy-find_simplex-misses-hull-vertex"
    return None


def search(dis, tier, seed):
    return generate("thorough" if tier == "quick" else "quick", seed + 1)
