#!/bin/sh
# Build the Coq development from files on disk (offline). Full .vo build.
cd "$(dirname "$0")" || exit 2
mkdir -p build evidence
sh coq/gen_coqproject.sh
timeout 3400 make -C coq -j16 2>&1 | grep -v '^COQC\|^COQDEP\|Closed under the global context\|^$' | tail -40
test -f coq/theories/Props/C17.vo
