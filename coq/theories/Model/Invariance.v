(** Model-level definitions for C04: gridding results do not depend on array
    layout, point order or dtype.

    What the code does with its array arguments (verde/base/utils.py):
    [n_1d_arrays] takes the first two coordinate arrays, converts them with
    [np.atleast_1d] and ravels them in C order; [check_fit_input] ravels the
    weights; data are raveled by the estimators; the prediction is reshaped to
    [np.broadcast(easting, northing).shape].  So every model function of this
    development takes the C-order element SEQUENCES ([list Q]) of easting,
    northing, data and weights.  This file defines

    - how a stored array (row-major, Fortran-ordered, strided view) is read
      through its logical index and raveled ([ravel2], [ravel1]);
    - numpy's shape broadcasting as a function on lists of naturals;
    - index permutations of lists ([permute]) and row bundles of a
      least-squares system, the vocabulary of the reordering theorems;
    - a generic gridder as a function of the raveled sequences. *)
From Coq Require Import QArith Qabs ZArith List Bool Arith Lia Permutation.
From Verde Require Import Lib.LinAlgQ.
Import ListNotations.
Open Scope Q_scope.

(** ** stored arrays and their logical element order *)
Inductive order := COrder | FOrder.

(** a 2-D array: shape (rows, cols), a memory order, a flat buffer *)
Record arr2 := { a_rows : nat; a_cols : nat; a_order : order; a_buf : list Q }.

(** logical element [i, j] read from the buffer *)
Definition get2 (a : arr2) (i j : nat) : Q :=
  match a_order a with
  | COrder => nth (i * a_cols a + j) (a_buf a) 0
  | FOrder => nth (j * a_rows a + i) (a_buf a) 0
  end.

(** [np.ravel(a)] (order="C"): logical elements, last index fastest *)
Definition ravel2 (a : arr2) : list Q :=
  flat_map (fun i => map (fun j => get2 a i j) (seq 0 (a_cols a))) (seq 0 (a_rows a)).

Definition c_array (r c : nat) (l : list Q) : arr2 :=
  {| a_rows := r; a_cols := c; a_order := COrder; a_buf := l |}.

(** [np.asfortranarray(a)]: same logical elements, column-major buffer *)
Definition as_fortran (a : arr2) : arr2 :=
  {| a_rows := a_rows a; a_cols := a_cols a; a_order := FOrder;
     a_buf := flat_map (fun j => map (fun i => get2 a i j) (seq 0 (a_rows a))) (seq 0 (a_cols a)) |}.

(** what [ravel(order="K")] / [ravel("F")] would return: the buffer order *)
Definition ravel_F (a : arr2) : list Q :=
  flat_map (fun j => map (fun i => get2 a i j) (seq 0 (a_rows a))) (seq 0 (a_cols a)).

(** a 1-D strided view [buf[off :: step]] of length [len] *)
Record view1 := { v_off : nat; v_step : nat; v_len : nat; v_buf : list Q }.
Definition ravel1 (v : view1) : list Q :=
  map (fun i => nth (v_off v + i * v_step v) (v_buf v) 0) (seq 0 (v_len v)).

(** every second element of a doubled buffer *)
Fixpoint interleave (l junk : list Q) : list Q :=
  match l, junk with
  | x :: l', y :: j' => x :: y :: interleave l' j'
  | _, _ => []
  end.

(** ** numpy broadcasting of two shapes *)
(** on reversed shapes (trailing dimension first) *)
Fixpoint bc_rev (a b : list nat) : option (list nat) :=
  match a, b with
  | [], _ => Some b
  | _, [] => Some a
  | x :: a', y :: b' =>
      match bc_rev a' b' with
      | None => None
      | Some t => if (x =? y)%nat then Some (x :: t)
                  else if (x =? 1)%nat then Some (y :: t)
                  else if (y =? 1)%nat then Some (x :: t)
                  else None
      end
  end.

(** [np.broadcast(a, b).shape]; [None] = "operands could not be broadcast" *)
Definition broadcast_shape (a b : list nat) : option (list nat) :=
  option_map (@rev nat) (bc_rev (rev a) (rev b)).

Definition shape_size (s : list nat) : nat := fold_right Nat.mul 1%nat s.

(** ** index permutations *)
(** [permute d s l] = [l[s]] (numpy fancy indexing with the index list [s]) *)
Definition permute {T} (d : T) (s : list nat) (l : list T) : list T := map (fun i => nth i l d) s.
(** [s] lists every index below [n] exactly once *)
Definition is_perm (n : nat) (s : list nat) : Prop := Permutation s (seq 0 n).

Definition qpermute := @permute Q 0.

(** ** a least-squares system as a list of rows (Jacobian row, datum, weight) *)
Definition lsrow := (list Q * (Q * Q))%type.
Definition rA (B : list lsrow) : list (list Q) := map fst B.
Definition rD (B : list lsrow) : list Q := map (fun b => fst (snd b)) B.
Definition rW (B : list lsrow) : list Q := map (fun b => snd (snd b)) B.
Definition bundle (A : list (list Q)) (d w : list Q) : list lsrow := combine A (combine d w).

(** linear combination a x + b y *)
Definition lin (a : Q) (x : list Q) (b : Q) (y : list Q) : list Q := vadd (vscale a x) (vscale b y).

(** ** a gridder seen from its array arguments *)
(** arguments of fit/predict: anything with a shape and a C-order element
    sequence; extra coordinates are carried but never read *)
Record ndarray := { nd_shape : list nat; nd_ravel : list Q }.
Record fit_args := { f_east : ndarray; f_north : ndarray; f_extra : list ndarray; f_data : ndarray; f_weights : option ndarray }.
Record query_args := { q_east : ndarray; q_north : ndarray; q_extra : list ndarray }.

(** a model function works on sequences only:
    (easting, northing, data, weights) (query easting, query northing) -> values *)
Definition seq_model := list Q -> list Q -> list Q -> option (list Q) -> list Q -> list Q -> list Q.

(** the result: values in query order plus the shape they are reshaped to *)
Definition grid_apply (g : seq_model) (f : fit_args) (q : query_args) : option (list nat) * list Q :=
  (broadcast_shape (nd_shape (q_east q)) (nd_shape (q_north q)),
   g (nd_ravel (f_east f)) (nd_ravel (f_north f)) (nd_ravel (f_data f))
     (option_map nd_ravel (f_weights f)) (nd_ravel (q_east q)) (nd_ravel (q_north q))).

(** two argument bundles with the same element sequences *)
Definition same_sequences (f f' : fit_args) : Prop :=
  nd_ravel (f_east f) = nd_ravel (f_east f') /\ nd_ravel (f_north f) = nd_ravel (f_north f') /\
  nd_ravel (f_data f) = nd_ravel (f_data f') /\
  option_map nd_ravel (f_weights f) = option_map nd_ravel (f_weights f').
Definition same_query (q q' : query_args) : Prop :=
  nd_ravel (q_east q) = nd_ravel (q_east q') /\ nd_ravel (q_north q) = nd_ravel (q_north q') /\
  broadcast_shape (nd_shape (q_east q)) (nd_shape (q_north q)) =
  broadcast_shape (nd_shape (q_east q')) (nd_shape (q_north q')).
