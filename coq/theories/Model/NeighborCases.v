(** Case functions of the C15 correspondence check: evaluated by vm_compute on
    exact dyadic literals produced by harness/c15.py. *)
From Coq Require Import QArith Qabs ZArith List Bool Arith Lia.
From Verde Require Import Lib.Dyadic Lib.QExtra Lib.Verdict Lib.ISort Model.Neighbors.
Import ListNotations.
Open Scope Q_scope.

Definition QsN (l : list D) : list Q := map QD l.
Definition mkpts (e n : list D) : list pt := combine (QsN e) (QsN n).
Definition tie30N : Q := 1 # (2 ^ 30).

(** an affine projection (e, n) -> (ae * e + be, an * n + bn), and the identity *)
Definition affine (ae be an bn : D) (p : pt) : pt :=
  (QD ae * fst p + QD be, QD an * snd p + QD bn).
Definition ident (p : pt) : pt := p.

(** ** KNeighbors *)
(** the k-th and (k+1)-th squared distances from the query (read off its sorted
    keys [s]) are within 2^-30 (relative) of each other, or equal: which point is
    the k-th nearest is then not determined by the (rounded) distances - that
    (query, k) is excluded from the comparison *)
Definition knn_tie (k : nat) (s : list key) : bool :=
  match nth_error s (k - 1), nth_error s k with
  | Some a, Some b => Qleb (fst b - fst a) (tie30N * fst b)
  | _, _ => false
  end.

(** [knn_predict] computed from the already sorted keys of the query
    (Proofs: predict_from_sorted_ok) *)
Definition predict_from_sorted (r : reduction) (k : nat) (vals : list Q) (s : list key) : Q :=
  reduce r (map (fun i => nth i vals 0) (map snd (firstn k s))).

(** one cloud, one set of query points, several (reduction, k) with the
    predictions observed for each: the keys of each query are sorted once *)
Definition c15_knn (de dn dv : list D) (qe qn : list D) (shape_ok : bool)
    (obs : option (list (reduction * nat * list D))) : verdict :=
  let pts := mkpts de dn in
  let vals := QsN dv in
  let qs := mkpts qe qn in
  match obs with
  | None => Vboth
  | Some entries =>
      let n := length pts in
      if negb ((length vals =? n)%nat &&
               forallb (fun e => let '(r, k, o) := e in
                                 (length o =? length qs)%nat && (1 <=? k)%nat && (k <=? n)%nat) entries)
      then Vboth else
      let sc := maxabs_list vals in
      let S := map (sorted_keys pts) qs in
      let res :=
        map (fun e => let '(r, k, o) := e in
               let live := filter (fun so => negb (knn_tie k (fst so))) (combine S (QsN o)) in
               (length live,
                forallb (fun so => close_by sc (predict_from_sorted r k vals (fst so)) (snd so)) live))
            entries in
      let nlive := fold_right (fun x a => (fst x + a)%nat) 0%nat res in
      let agree := forallb snd res in
      if (nlive =? 0)%nat then (if shape_ok then Vskip else Vboth)
      else mk_verdict (agree && shape_ok) (agree && shape_ok)
  end.

(** ** median_distance *)
(** [m] is (sqrt a + sqrt b) / 2 up to rounding, tested without square roots:
    (2m)^2 - a - b = 2 sqrt(a b)  (Proofs: mean_of_roots_iff) *)
Definition meddist_ok (ab : Q * Q) (m : Q) : bool :=
  let '(a, b) := ab in
  if Qeqb a b then Qleb 0 m && Qleb (Qabs (m * m - a)) (tol40 * a)
  else
    let M := Qmax a b in
    let X := 4 * m * m - a - b in
    Qleb 0 m && Qleb (- (tol40 * M)) X && Qleb (Qabs (X * X - 4 * a * b)) (tol40 * 4 * M * M).

(** [median_d2] from the sorted keys of point i (Proofs: median_from_sorted_ok) *)
Definition median_from_sorted (k : nat) (s : list key) : Q * Q :=
  let l := tl (map fst (firstn (S k) s)) in
  (nth ((k - 1) / 2) l 0, nth (k / 2) l 0).

(** the literal reading: squared distances from point [i] to every OTHER point, sorted *)
Definition brute_others_d2 (pts : list pt) (i : nat) : list Q :=
  qsort (map (fun j => Qred (dist2 pts (nth i pts p0) j))
             (filter (fun j => negb (j =? i)%nat) (seq 0 (length pts)))).

Definition brute_median (k : nat) (l : list Q) : Q * Q :=
  let l := firstn k l in
  (nth ((k - 1) / 2) l 0, nth (k / 2) l 0).

(** one cloud, several k with the distances observed for each *)
Definition c15_meddist (e n : list D) (shape_ok : bool) (obs : option (list (nat * list D))) : verdict :=
  let pts := mkpts e n in
  match obs with
  | None => Vboth
  | Some entries =>
      let np := length pts in
      if negb (forallb (fun en => let '(k, o) := en in
                                  (length o =? np)%nat && (1 <=? k)%nat && (k <? np)%nat) entries)
      then Vboth else
      let S := map (fun i => sorted_keys pts (nth i pts p0)) (seq 0 np) in
      let B := map (brute_others_d2 pts) (seq 0 np) in
      let agree := forallb (fun en => let '(k, o) := en in
                                      all2 (fun s m => meddist_ok (median_from_sorted k s) m) S (QsN o)) entries in
      let holds := forallb (fun en => let '(k, o) := en in
                                      all2 (fun b m => meddist_ok (brute_median k b) m) B (QsN o)) entries in
      mk_verdict (agree && shape_ok) (holds && shape_ok)
  end.

(** ** distance_mask *)
(** the nearest squared distance [dmin] is within 2^-30 (relative) of maxdist^2
    without being equal to it: the rounded comparison may go either way *)
Definition near_maxdist (maxdist dmin : Q) : bool :=
  let m2 := maxdist * maxdist in
  let g := Qabs (dmin - m2) in
  Qltb 0 g && Qleb g (tie30N * m2).

Definition min_d2 (ppts : list pt) (pq : pt) : Q :=
  qmin_list (map (fun p => Qred (d2 p pq)) ppts).

Definition mask_tie (maxdist : Q) (ppts : list pt) (pq : pt) : bool :=
  near_maxdist maxdist (min_d2 ppts pq).

Definition c15_mask (proj : pt -> pt) (maxdist : D) (de dn : list D) (qe qn : list D)
    (shape_ok : bool) (obs : option (list bool)) : verdict :=
  let pts := mkpts de dn in
  let qs := mkpts qe qn in
  let md := QD maxdist in
  match obs with
  | None => Vboth
  | Some o =>
      if negb ((length o =? length qs)%nat && (1 <=? length pts)%nat) then Vboth else
      let ppts := map proj pts in
      let rows := map (fun qo => (fst qo, snd qo, min_d2 ppts (proj (fst qo)))) (combine qs o) in
      let live := filter (fun x => negb (near_maxdist md (snd x))) rows in
      match live with
      | [] => if shape_ok then Vskip else Vboth
      | _ =>
          let agree := forallb (fun x => Bool.eqb (distance_mask_proj proj md pts (fst (fst x))) (snd (fst x))) live in
          (* the statement: True iff the nearest data point is within maxdist *)
          let holds := forallb (fun x => Bool.eqb (snd (fst x)) (Qleb 0 md && Qleb (snd x) (md * md))) live in
          mk_verdict (agree && shape_ok) (holds && shape_ok)
      end
  end.

(** grid form.  [obs_grid]: the values of the masked Dataset, C order, None = NaN;
    [obs_array]: what the array form returned for np.meshgrid(easting, northing) *)
Definition optQ_eqb (a b : option Q) : bool :=
  match a, b with
  | None, None => true
  | Some x, Some y => Qeqb x y
  | _, _ => false
  end.

Definition c15_grid (proj : pt -> pt) (maxdist : D) (de dn : list D) (east north : list D)
    (vals : list D) (shape_ok : bool) (obs_grid : option (list (option D)))
    (obs_array : option (list bool)) : verdict :=
  let pts := mkpts de dn in
  let md := QD maxdist in
  let E := QsN east in let N := QsN north in
  let V := QsN vals in
  match obs_grid, obs_array with
  | Some og, Some oa =>
      let ncell := (length N * length E)%nat in
      if negb ((length og =? ncell)%nat && (length oa =? ncell)%nat && (length V =? ncell)%nat) then Vboth else
      let og := map (option_map QD) og in
      let model := distance_mask_grid proj md pts E N V in
      let ppts := map proj pts in
      let cells := combine (meshgrid E N) (combine model og) in
      let live := filter (fun c => negb (mask_tie md ppts (proj (fst c)))) cells in
      let agree := forallb (fun c => optQ_eqb (fst (snd c)) (snd (snd c))) live in
      (* kept exactly where the array form is True, with the value unchanged *)
      let holds := list_eqb optQ_eqb og (where_mask oa V) in
      mk_verdict (agree && shape_ok) (holds && shape_ok)
  | _, _ => Vboth
  end.
