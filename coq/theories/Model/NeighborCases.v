(** Case functions of the C15 correspondence check: evaluated by vm_compute on
    exact dyadic literals produced by harness/c15.py. *)
From Coq Require Import QArith Qabs ZArith List Bool Arith Lia.
From Verde Require Import Lib.Dyadic Lib.QExtra Lib.Verdict Lib.ISort Model.Neighbors.
Import ListNotations.
Open Scope Q_scope.

Definition QsN (l : list D) : list Q := map QD l.
Definition mkpts (e n : list D) : list pt := combine (QsN e) (QsN n).
Definition tie30N : Q := 1 # (2 ^ 30).

(** an affine projection (e, n) -> (ae * e + be, an * n + bn), and the identity *)
Definition affine (ae be an bn : D) (p : pt) : pt :=
  (QD ae * fst p + QD be, QD an * snd p + QD bn).
Definition ident (p : pt) : pt := p.

(** ** KNeighbors *)
(** the k-th and (k+1)-th squared distances from [q] are within 2^-30 (relative)
    of each other, or equal: which point is the k-th nearest is then not
    determined by the (rounded) distances - excluded from the comparison *)
Definition knn_tie (k : nat) (pts : list pt) (q : pt) : bool :=
  let s := map fst (sorted_keys pts q) in
  match nth_error s (k - 1), nth_error s k with
  | Some a, Some b => Qleb (b - a) (tie30N * b)
  | _, _ => false
  end.

Definition c15_knn (r : reduction) (k : nat) (de dn dv : list D) (qe qn : list D)
    (shape_ok : bool) (obs : option (list D)) : verdict :=
  let pts := mkpts de dn in
  let vals := QsN dv in
  let qs := mkpts qe qn in
  match obs with
  | None => Vboth
  | Some o =>
      if negb ((length o =? length qs)%nat && (length vals =? length pts)%nat &&
               (1 <=? k)%nat && (k <=? length pts)%nat) then Vboth else
      let sc := maxabs_list vals in
      let live := filter (fun qo => negb (knn_tie k pts (fst qo))) (combine qs (QsN o)) in
      match live with
      | [] => if shape_ok then Vskip else Vboth
      | _ =>
          let agree := forallb (fun qo => close_by sc (knn_predict r k pts vals (fst qo)) (snd qo)) live in
          let holds :=
            forallb (fun qo =>
                       let sel := k_nearest k pts (fst qo) in
                       closest_setb k pts (fst qo) sel &&
                       close_by sc (reduce r (map (fun i => nth i vals 0) sel)) (snd qo)) live in
          mk_verdict (agree && shape_ok) (holds && shape_ok)
      end
  end.

(** ** median_distance *)
(** [m] is (sqrt a + sqrt b) / 2 up to rounding, tested without square roots:
    (2m)^2 - a - b = 2 sqrt(a b)  (Proofs: mean_of_roots_iff) *)
Definition meddist_ok (ab : Q * Q) (m : Q) : bool :=
  let '(a, b) := ab in
  if Qeqb a b then Qleb 0 m && Qleb (Qabs (m * m - a)) (tol40 * a)
  else
    let M := Qmax a b in
    let X := 4 * m * m - a - b in
    Qleb 0 m && Qleb (- (tol40 * M)) X && Qleb (Qabs (X * X - 4 * a * b)) (tol40 * 4 * M * M).

(** the literal reading: squared distances from point [i] to every OTHER point, sorted *)
Definition brute_others_d2 (pts : list pt) (i : nat) : list Q :=
  qsort (map (fun j => Qred (dist2 pts (nth i pts p0) j))
             (filter (fun j => negb (j =? i)%nat) (seq 0 (length pts)))).

Definition brute_median_d2 (k : nat) (pts : list pt) (i : nat) : Q * Q :=
  let l := firstn k (brute_others_d2 pts i) in
  (nth ((k - 1) / 2) l 0, nth (k / 2) l 0).

Definition c15_meddist (k : nat) (e n : list D) (shape_ok : bool) (obs : option (list D)) : verdict :=
  let pts := mkpts e n in
  match obs with
  | None => Vboth
  | Some o =>
      if negb ((length o =? length pts)%nat && (1 <=? k)%nat && (k <? length pts)%nat) then Vboth else
      let o := QsN o in
      let agree := all2 meddist_ok (median_d2_all k pts) o in
      let holds := all2 meddist_ok (map (brute_median_d2 k pts) (seq 0 (length pts))) o in
      mk_verdict (agree && shape_ok) (holds && shape_ok)
  end.

(** ** distance_mask *)
(** the nearest squared distance is within 2^-30 (relative) of maxdist^2 without
    being equal to it: the rounded comparison may go either way *)
Definition mask_tie (maxdist : Q) (pts : list pt) (q : pt) : bool :=
  let m2 := maxdist * maxdist in
  let g := Qabs (qmin_list (map (fun p => d2 p q) pts) - m2) in
  Qltb 0 g && Qleb g (tie30N * m2).

Definition c15_mask (proj : pt -> pt) (maxdist : D) (de dn : list D) (qe qn : list D)
    (shape_ok : bool) (obs : option (list bool)) : verdict :=
  let pts := mkpts de dn in
  let qs := mkpts qe qn in
  let md := QD maxdist in
  match obs with
  | None => Vboth
  | Some o =>
      if negb (length o =? length qs)%nat then Vboth else
      let ppts := map proj pts in
      let live := filter (fun qo => negb (mask_tie md ppts (proj (fst qo)))) (combine qs o) in
      match live with
      | [] => if shape_ok then Vskip else Vboth
      | _ =>
          let agree := forallb (fun qo => Bool.eqb (distance_mask_proj proj md pts (fst qo)) (snd qo)) live in
          let holds :=
            forallb (fun qo =>
                       Bool.eqb (snd qo)
                         (Qleb 0 md &&
                          existsb (fun p => Qleb (d2 (proj p) (proj (fst qo))) (md * md)) pts)) live in
          mk_verdict (agree && shape_ok) (holds && shape_ok)
      end
  end.

(** grid form.  [obs_grid]: the values of the masked Dataset, C order, None = NaN;
    [obs_array]: what the array form returned for np.meshgrid(easting, northing) *)
Definition optQ_eqb (a b : option Q) : bool :=
  match a, b with
  | None, None => true
  | Some x, Some y => Qeqb x y
  | _, _ => false
  end.

Definition c15_grid (proj : pt -> pt) (maxdist : D) (de dn : list D) (east north : list D)
    (vals : list D) (shape_ok : bool) (obs_grid : option (list (option D)))
    (obs_array : option (list bool)) : verdict :=
  let pts := mkpts de dn in
  let md := QD maxdist in
  let E := QsN east in let N := QsN north in
  let V := QsN vals in
  match obs_grid, obs_array with
  | Some og, Some oa =>
      let ncell := (length N * length E)%nat in
      if negb ((length og =? ncell)%nat && (length oa =? ncell)%nat && (length V =? ncell)%nat) then Vboth else
      let og := map (option_map QD) og in
      let model := distance_mask_grid proj md pts E N V in
      let ppts := map proj pts in
      let cells := combine (meshgrid E N) (combine model og) in
      let live := filter (fun c => negb (mask_tie md ppts (proj (fst c)))) cells in
      let agree := forallb (fun c => optQ_eqb (fst (snd c)) (snd (snd c))) live in
      (* kept exactly where the array form is True, with the value unchanged *)
      let holds := list_eqb optQ_eqb og (where_mask oa V) in
      mk_verdict (agree && shape_ok) (holds && shape_ok)
  | _, _ => Vboth
  end.
