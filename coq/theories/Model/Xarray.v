(** Model of verde.utils.make_xarray_grid, meshgrid_to_1d, meshgrid_from_1d,
    check_meshgrid and grid_to_table (with verde.base.utils.check_data,
    check_data_names, check_extra_coords_names, check_coordinates), C18.

    Values are opaque: the code never computes with data or extra-coordinate
    values, and uses the horizontal coordinates only in numpy.allclose.  The
    model is therefore polymorphic in the value type [V]; [close a b] stands
    for one element test of numpy.allclose(a, b).  The generated case files
    instantiate [V] with exact dyadic doubles.

    A 2-D numpy array is the list of its rows (C order); [.ravel()] is
    [concat].  An xarray Dataset is the ordered list of its coordinates
    (index coordinates are 1-D, the others carry their own pair of dimension
    names) and the ordered list of its data variables, each with its own
    pair of dimension names - grid_to_table transposes every variable and
    2-D non-index coordinate to the dimension order of the first variable
    before raveling it (the repair of finding F6), and the model does the
    same; [grid_to_table_pinned] is the code before the repair, which raveled
    every variable in the variable's own layout.

    [None] is ValueError.  Not modelled (outside the property's quantifier,
    never generated): arrays with a zero-length axis passed as 2-D
    coordinates (IndexError in the code), duplicate names, Datasets without
    data variables passed to grid_to_table (IndexError). *)
From Coq Require Import String List Bool Arith ZArith Lia.
From Verde Require Import Lib.Verdict Lib.Dyadic.
Import ListNotations.


Set Implicit Arguments.

(** a [data_names] / [extra_coords_names] argument *)
Inductive names := NNone | NStr (s : string) | NList (l : list string).

Fixpoint assoc {B} (nm : string) (l : list (string * B)) : option B :=
  match l with
  | [] => None
  | (k, b) :: t => if String.eqb nm k then Some b else assoc nm t
  end.

Definition smem (s : string) (l : list string) : bool := existsb (String.eqb s) l.

Section Xarray.
Variable V : Type.
Variable veqb : V -> V -> bool.

Definition arr2 := list (list V).

(** shape == (nn, ne) *)
Definition rect (nn ne : nat) (a : arr2) : bool :=
  (length a =? nn) && forallb (fun r => length r =? ne) a.

Definition cell (a : arr2) (i j : nat) : option V :=
  match nth_error a i with Some r => nth_error r j | None => None end.

Definition ravel (a : arr2) : list V := concat a.

(** column j of an array, and the transposed array (.T / xarray transpose) *)
Definition col (j : nat) (a : arr2) : list V :=
  flat_map (fun r => match nth_error r j with Some x => [x] | None => [] end) a.
Definition transpose (a : arr2) : arr2 :=
  map (fun j => col j a) (seq 0 (length (hd [] a))).

(** numpy.meshgrid(e, n) = (mesh_e e n, mesh_n e n) *)
Definition mesh_e (e n : list V) : arr2 := map (fun _ => e) n.
Definition mesh_n (e n : list V) : arr2 := map (fun y => map (fun _ => y) e) n.

Definition all2 (f : V -> V -> bool) (l1 l2 : list V) : bool :=
  forallb (fun p => f (fst p) (snd p)) (combine l1 l2).

(** numpy.allclose(E[0, :], E) with element test [cl a b] *)
Definition rows_close (cl : V -> V -> bool) (E : arr2) : bool :=
  match E with [] => true | r0 :: _ => forallb (all2 cl r0) E end.

(** numpy.allclose(N[:, 0][:, None], N) *)
Definition cols_close (cl : V -> V -> bool) (N : arr2) : bool :=
  forallb (fun r => match r with [] => true | x0 :: _ => forallb (cl x0) r end) N.

(** E[0, :] and N[:, 0] *)
Definition first_row (E : arr2) : list V := hd [] E.
Definition first_col (N : arr2) : list V := flat_map (firstn 1) N.

Section WithClose.
Variable close : V -> V -> bool.

(** meshgrid_to_1d: check_coordinates, check_meshgrid, first row / column.
    Extra coordinates are returned unchanged. *)
Definition meshgrid_to_1d (E N : arr2) (extras : list arr2) : option (list V * list V) :=
  let nn := length E in
  let ne := length (first_row E) in
  if (0 <? nn) && (0 <? ne)
     && rect nn ne E && rect nn ne N && forallb (rect nn ne) extras
     && rows_close close E && cols_close close N
  then Some (first_row E, first_col N)
  else None.

(** meshgrid_from_1d (on 1-D input): numpy.meshgrid then check_coordinates *)
Definition meshgrid_from_1d (e n : list V) (extras : list arr2) : option (arr2 * arr2) :=
  if forallb (rect (length n) (length e)) extras
  then Some (mesh_e e n, mesh_n e n) else None.

(** a horizontal coordinate argument: 1-D or 2-D *)
Inductive nd := A1 (v : list V) | A2 (a : arr2).

(** the [data] argument: None, a single array, a tuple of arrays *)
Inductive dataarg := DNone | DOne (a : arr2) | DTuple (l : list arr2).

Definition data_list (d : dataarg) : list arr2 :=
  match d with DNone => [] | DOne a => [a] | DTuple l => l end.

(** check_data_names / check_extra_coords_names for [count] arrays *)
Definition check_names (count : nat) (nm : names) : option (list string) :=
  match nm with
  | NNone => None
  | NStr s => if count =? 1 then Some [s] else None
  | NList l => if count =? length l then Some l else None
  end.

Record var2 := mk_var { v_dims : string * string; v_rows : arr2 }.
Inductive coord := Idx (vals : list V) | Aux (v : var2).
Record dataset := mk_ds { ds_coords : list (string * coord); ds_vars : list (string * var2) }.

(** xarray.Dataset(data_vars, coords): conflicting sizes are a ValueError *)
Definition xr_dataset (dims : string * string) (e n : list V)
    (xs ds : list (string * arr2)) : option dataset :=
  if String.eqb (fst dims) (snd dims) then None
  else if forallb (fun p => rect (length n) (length e) (snd p)) (xs ++ ds)
  then Some (mk_ds ((snd dims, Idx e) :: (fst dims, Idx n)
                      :: map (fun p => (fst p, Aux (mk_var dims (snd p)))) xs)
                   (map (fun p => (fst p, mk_var dims (snd p))) ds))
  else None.

(** get_ndim_horizontal_coords + meshgrid_to_1d when 2-D *)
Definition horizontal (ce cn : nd) (extras : list arr2) : option (list V * list V) :=
  match ce, cn with
  | A1 e, A1 n => Some (e, n)
  | A2 E, A2 N => meshgrid_to_1d E N extras
  | _, _ => None
  end.

Definition make_xarray_grid (ce cn : nd) (extras : list arr2) (data : dataarg)
    (data_names : names) (dims : string * string) (extra_names : names) : option dataset :=
  match horizontal ce cn extras with
  | None => None
  | Some (e, n) =>
    match (match extras with [] => Some [] | _ => check_names (length extras) extra_names end) with
    | None => None
    | Some xn =>
      match (match data with DNone => Some [] | _ => check_names (length (data_list data)) data_names end) with
      | None => None
      | Some dn => xr_dataset dims e n (combine xn extras) (combine dn (data_list data))
      end
    end
  end.

(** grid_to_table *)
Inductive grid := GDataset (ds : dataset) | GArray (name : option string) (v : var2) (coords : list (string * coord)).

Definition grid_vars (g : grid) : list (string * var2) :=
  match g with
  | GDataset ds => ds_vars ds
  | GArray nm v _ => [(match nm with Some s => s | None => "scalars"%string end, v)]
  end.

Definition grid_coords (g : grid) : list (string * coord) :=
  match g with GDataset ds => ds_coords ds | GArray _ _ cs => cs end.

(** [.values.ravel()] of a coordinate, in the coordinate's own layout *)
Definition coord_values (c : coord) : list V :=
  match c with Idx v => v | Aux v => ravel (v_rows v) end.

Definition table := list (string * list V).

Definition is_extra (d0 d1 : string) (p : string * coord) : bool :=
  negb (String.eqb (fst p) d0 || String.eqb (fst p) d1).

Definition dims_eqb (a b : string * string) : bool :=
  String.eqb (fst a) (fst b) && String.eqb (snd a) (snd b).

(** [v.transpose(d0, d1).values]: unchanged when the variable is already laid
    out as (d0, d1), transposed when it is laid out as (d1, d0) (other
    dimension names are outside the model) *)
Definition oriented (d0 d1 : string) (v : var2) : arr2 :=
  if dims_eqb (v_dims v) (d0, d1) then v_rows v else transpose (v_rows v).

Definition coord_oriented (d0 d1 : string) (c : coord) : list V :=
  match c with Idx v => v | Aux v => ravel (oriented d0 d1 v) end.

Definition grid_to_table (g : grid) : option table :=
  match grid_vars g with
  | [] => None
  | (_, v0) :: _ =>
    let d0 := fst (v_dims v0) in
    let d1 := snd (v_dims v0) in
    match assoc d0 (grid_coords g), assoc d1 (grid_coords g) with
    | Some cn, Some ce =>
      let north := coord_values cn in
      let east := coord_values ce in
      Some ((d0, ravel (mesh_n east north)) :: (d1, ravel (mesh_e east north))
            :: map (fun p => (fst p, coord_oriented d0 d1 (snd p))) (filter (is_extra d0 d1) (grid_coords g))
            ++ map (fun p => (fst p, ravel (oriented d0 d1 (snd p)))) (grid_vars g))
    | _, _ => None
    end
  end.

(** the code before the repair of F6: every variable and coordinate raveled
    in its own layout (used only by the refutation Example in Props/C18.v) *)
Definition grid_to_table_pinned (g : grid) : option table :=
  match grid_vars g with
  | [] => None
  | (_, v0) :: _ =>
    let d0 := fst (v_dims v0) in
    let d1 := snd (v_dims v0) in
    match assoc d0 (grid_coords g), assoc d1 (grid_coords g) with
    | Some cn, Some ce =>
      let north := coord_values cn in
      let east := coord_values ce in
      Some ((d0, ravel (mesh_n east north)) :: (d1, ravel (mesh_e east north))
            :: map (fun p => (fst p, coord_values (snd p))) (filter (is_extra d0 d1) (grid_coords g))
            ++ map (fun p => (fst p, ravel (v_rows (snd p)))) (grid_vars g))
    | _, _ => None
    end
  end.

(** ** Specification vocabulary *)

(** row [k] of a table *)
Definition table_row (t : table) (k : nat) : list (option V) :=
  map (fun c => nth_error (snd c) k) t.

(** the value of variable [nm] at index (i, j) of ITS dimensions, together with
    the coordinates of that cell along those dimensions: (y, x, value) *)
Definition sel (ds : dataset) (nm : string) (i j : nat) : option (V * V * V) :=
  match assoc nm (ds_vars ds) with
  | Some v =>
    match assoc (fst (v_dims v)) (ds_coords ds), assoc (snd (v_dims v)) (ds_coords ds) with
    | Some (Idx ys), Some (Idx xs) =>
      match nth_error ys i, nth_error xs j, cell (v_rows v) i j with
      | Some y, Some x, Some z => Some (y, x, z)
      | _, _, _ => None
      end
    | _, _ => None
    end
  | None => None
  end.

(** same for a non-index coordinate *)
Definition sel_coord (ds : dataset) (nm : string) (i j : nat) : option (V * V * V) :=
  match assoc nm (ds_coords ds) with
  | Some (Aux v) =>
    match assoc (fst (v_dims v)) (ds_coords ds), assoc (snd (v_dims v)) (ds_coords ds) with
    | Some (Idx ys), Some (Idx xs) =>
      match nth_error ys i, nth_error xs j, cell (v_rows v) i j with
      | Some y, Some x, Some z => Some (y, x, z)
      | _, _, _ => None
      end
    | _, _ => None
    end
  | _ => None
  end.

(** exact meshgrids: every row of the easting array is the first row, every
    entry of a northing row is that row's first entry *)
Definition rows_equal_first (E : arr2) : Prop := forall r, In r E -> r = first_row E.
Definition cols_equal_first (N : arr2) : Prop := forall r x, In r N -> In x r -> hd_error r = Some x.

(** where the source cell (i, j) of a make_xarray_grid input lies: exactly
    (n[i], e[j]) for 1-D input; for 2-D input (N[i][j], E[i][j]), which the
    grid's (y, x) matches within the allclose test that accepted the input,
    and exactly when the input is an exact meshgrid *)
Definition source_cell (ce cn : nd) (i j : nat) (y x : V) : Prop :=
  match ce, cn with
  | A1 e, A1 n => nth_error n i = Some y /\ nth_error e j = Some x
  | A2 E, A2 N =>
    exists y0 x0, cell N i j = Some y0 /\ cell E i j = Some x0 /\
      close y y0 = true /\ close x x0 = true /\
      (rows_equal_first E -> x = x0) /\ (cols_equal_first N -> y = y0)
  | _, _ => False
  end.

(** the value of a variable at index i along d0 and j along d1, whichever
    of the two layouts (d0, d1) / (d1, d0) it is stored in *)
Definition value_at (d0 d1 : string) (v : var2) (i j : nat) : option V :=
  if dims_eqb (v_dims v) (d0, d1) then cell (v_rows v) i j
  else if dims_eqb (v_dims v) (d1, d0) then cell (v_rows v) j i
  else None.

Definition coord_at (d0 d1 : string) (c : coord) (i j : nat) : option V :=
  match c with Aux v => value_at d0 d1 v i j | Idx _ => None end.

(** a variable stored as (d0, d1) with shape nn x ne, or as (d1, d0) with
    shape ne x nn *)
Definition laid_out (d0 d1 : string) (nn ne : nat) (v : var2) : Prop :=
  (v_dims v = (d0, d1) /\ rect nn ne (v_rows v) = true) \/
  (v_dims v = (d1, d0) /\ rect ne nn (v_rows v) = true).

(** a grid over the dimensions (d0, d1) of its first variable, with index
    coordinates [north] for d0 and [east] for d1; every variable and every
    non-index coordinate is stored along these two dimensions, in either
    order *)
Definition aligned_grid (g : grid) (d0 d1 : string) (north east : list V) : Prop :=
  d0 <> d1 /\
  (exists nm v0 rest, grid_vars g = (nm, v0) :: rest /\ v_dims v0 = (d0, d1)) /\
  assoc d0 (grid_coords g) = Some (Idx north) /\
  assoc d1 (grid_coords g) = Some (Idx east) /\
  Forall (fun p => laid_out d0 d1 (length north) (length east) (snd p)) (grid_vars g) /\
  Forall (fun p => is_extra d0 d1 p = true ->
                   exists v, snd p = Aux v /\ laid_out d0 d1 (length north) (length east) v) (grid_coords g).

(** the conditions under which make_xarray_grid accepts its input *)
Definition names_valid (count : nat) (nm : names) : bool :=
  match nm with
  | NNone => false
  | NStr _ => count =? 1
  | NList l => count =? length l
  end.

Definition names_list (nm : names) : list string :=
  match nm with NNone => [] | NStr s => [s] | NList l => l end.

(** the names in force: extra_coords_names is ignored without extra
    coordinates, data_names is ignored when data is None *)
Definition extra_names_of (extras : list arr2) (xnames : names) : list string :=
  match extras with [] => [] | _ => names_list xnames end.
Definition data_names_of (data : dataarg) (dnames : names) : list string :=
  match data with DNone => [] | _ => names_list dnames end.

Definition coords_valid (ce cn : nd) (extras datas : list arr2) : bool :=
  match ce, cn with
  | A1 e, A1 n => forallb (rect (length n) (length e)) (extras ++ datas)
  | A2 E, A2 N =>
    let nn := length E in
    let ne := length (first_row E) in
    (0 <? nn) && (0 <? ne) && forallb (rect nn ne) (E :: N :: extras ++ datas)
    && rows_close close E && cols_close close N
  | _, _ => false
  end.

Definition make_valid (ce cn : nd) (extras : list arr2) (data : dataarg)
    (data_names : names) (dims : string * string) (extra_names : names) : bool :=
  coords_valid ce cn extras (data_list data)
  && (match extras with [] => true | _ => names_valid (length extras) extra_names end)
  && (match data with DNone => true | _ => names_valid (length (data_list data)) data_names end)
  && negb (String.eqb (fst dims) (snd dims)).

(** ** Decidable statements, evaluated on the implementation's output *)

Definition arr_eqb (a b : arr2) : bool := list_eqb (list_eqb veqb) a b.
Definition var_eqb (a b : var2) : bool :=
  dims_eqb (v_dims a) (v_dims b) && arr_eqb (v_rows a) (v_rows b).
Definition coord_eqb (a b : coord) : bool :=
  match a, b with
  | Idx x, Idx y => list_eqb veqb x y
  | Aux x, Aux y => var_eqb x y
  | _, _ => false
  end.
Definition named_eqb {B} (eqb : B -> B -> bool) (a b : string * B) : bool :=
  String.eqb (fst a) (fst b) && eqb (snd a) (snd b).
Definition dataset_eqb (a b : dataset) : bool :=
  list_eqb (named_eqb coord_eqb) (ds_coords a) (ds_coords b)
  && list_eqb (named_eqb var_eqb) (ds_vars a) (ds_vars b).
Definition table_eqb (a b : table) : bool := list_eqb (named_eqb (list_eqb veqb)) a b.

(** the grid's axis vectors against the source cell coordinates: [e'[j]]
    against [E[i][j]] and [n'[i]] against [N[i][j]] for every cell *)
Definition axis_e_matches (cl : V -> V -> bool) (e' : list V) (E : arr2) : bool :=
  forallb (fun r => (length r =? length e') && all2 cl e' r) E.
Definition axis_n_matches (cl : V -> V -> bool) (n' : list V) (N : arr2) : bool :=
  (length N =? length n') &&
  forallb (fun p => forallb (cl (fst p)) (snd p)) (combine n' N).

Definition exact_meshgrid_b (E N : arr2) : bool := rows_close veqb E && cols_close veqb N.

(** make_xarray_grid: accepted exactly when valid; then every data array and
    extra coordinate is in the grid under its name, with the requested dims,
    cell for cell, and the axis vectors are the source coordinates (exactly
    for 1-D input and exact meshgrids, within the allclose tolerance that
    accepted the input otherwise) *)
Definition make_holds (ce cn : nd) (extras : list arr2) (data : dataarg)
    (data_names : names) (dims : string * string) (extra_names : names)
    (obs : option dataset) : bool :=
  if make_valid ce cn extras data data_names dims extra_names then
    match obs with
    | None => false
    | Some ds =>
      let xn := extra_names_of extras extra_names in
      let dn := data_names_of data data_names in
      match assoc (fst dims) (ds_coords ds), assoc (snd dims) (ds_coords ds) with
      | Some (Idx n'), Some (Idx e') =>
        (match ce, cn with
         | A1 e, A1 n => list_eqb veqb e' e && list_eqb veqb n' n
         | A2 E, A2 N =>
           let cl := if exact_meshgrid_b E N then veqb else close in
           axis_e_matches cl e' E && axis_n_matches cl n' N
         | _, _ => false
         end)
        && (length (ds_coords ds) =? 2 + length extras)
        && forallb (fun p => match assoc (fst p) (ds_coords ds) with
                             | Some (Aux v) => dims_eqb (v_dims v) dims && arr_eqb (v_rows v) (snd p)
                             | _ => false
                             end) (combine xn extras)
        && (length (ds_vars ds) =? length (data_list data))
        && forallb (fun p => match assoc (fst p) (ds_vars ds) with
                             | Some v => dims_eqb (v_dims v) dims && arr_eqb (v_rows v) (snd p)
                             | None => false
                             end) (combine dn (data_list data))
      | _, _ => false
      end
    end
  else match obs with None => true | Some _ => false end.

(** grid_to_table on a grid whose variables and non-index coordinates are
    laid out along the same two dimensions (d0, d1) as the first variable:
    columns d0, d1, extra coordinates, variables; one row per cell, row-major;
    row k holds the coordinates and every value of cell (k / ne, k mod ne)
    ([value_at]: variables / coordinates stored as (d1, d0) are read at the
    same cell, i.e. transposed). *)
Definition table_holds (g : grid) (obs : option table) : bool :=
  match grid_vars g, obs with
  | (_, v0) :: _, Some t =>
    let d0 := fst (v_dims v0) in
    let d1 := snd (v_dims v0) in
    match assoc d0 (grid_coords g), assoc d1 (grid_coords g) with
    | Some (Idx north), Some (Idx east) =>
      let nn := length north in
      let ne := length east in
      let extras := filter (is_extra d0 d1) (grid_coords g) in
      list_eqb String.eqb (map fst t) (d0 :: d1 :: map fst extras ++ map fst (grid_vars g))
      && forallb (fun c => length (snd c) =? nn * ne) t
      && forallb (fun k =>
           let i := k / ne in
           let j := k mod ne in
           list_eqb (option_eqb veqb) (table_row t k)
             (nth_error north i :: nth_error east j
              :: map (fun p => coord_at d0 d1 (snd p) i j) extras
              ++ map (fun p => value_at d0 d1 (snd p) i j) (grid_vars g)))
         (seq 0 (nn * ne))
    | _, _ => false
    end
  | _, _ => false
  end.

(** arrays -> grid -> table returns the raveled inputs: columns dims[0],
    dims[1] are the raveled northing / easting meshgrids, followed by the
    raveled extra coordinates and data arrays under their names *)
Definition roundtrip_expected (ce cn : nd) (extras : list arr2) (data : dataarg)
    (data_names : names) (dims : string * string) (extra_names : names) : option table :=
  let xn := extra_names_of extras extra_names in
  let dn := data_names_of data data_names in
  match ce, cn with
  | A1 e, A1 n =>
    Some ((fst dims, ravel (mesh_n e n)) :: (snd dims, ravel (mesh_e e n))
          :: combine xn (map ravel extras) ++ combine dn (map ravel (data_list data)))
  | A2 E, A2 N =>
    Some ((fst dims, ravel N) :: (snd dims, ravel E)
          :: combine xn (map ravel extras) ++ combine dn (map ravel (data_list data)))
  | _, _ => None
  end.

(** the table must equal the raveled inputs; the two coordinate columns are
    compared exactly for 1-D input and exact meshgrids and with the allclose
    test otherwise *)
Definition roundtrip_holds (ce cn : nd) (extras : list arr2) (data : dataarg)
    (data_names : names) (dims : string * string) (extra_names : names)
    (obs : option table) : bool :=
  if make_valid ce cn extras data data_names dims extra_names then
    match roundtrip_expected ce cn extras data data_names dims extra_names, obs with
    | Some (c0 :: c1 :: rest), Some (o0 :: o1 :: orest) =>
      let cl := match ce, cn with
                | A2 E, A2 N => if exact_meshgrid_b E N then veqb else close
                | _, _ => veqb
                end in
      String.eqb (fst c0) (fst o0) && String.eqb (fst c1) (fst o1)
      && (length (snd c0) =? length (snd o0)) && (length (snd c1) =? length (snd o1))
      && all2 cl (snd o0) (snd c0) && all2 cl (snd o1) (snd c1)
      && table_eqb rest orest
    | _, _ => false
    end
  else match obs with None => true | Some _ => false end.

End WithClose.
End Xarray.

Arguments DNone {V}.
Arguments GArray {V}.
Arguments GDataset {V}.

(** ** Instance on exact dyadic doubles *)
Definition deqb (a b : D) : bool := (fst a =? fst b)%Z && (snd a =? snd b)%Z.

(** numpy.allclose defaults: the doubles nearest 1e-8 and 1e-5 *)
Definition np_atol : D := (3022314549036573, -78)%Z.
Definition np_rtol : D := (5902958103587057, -69)%Z.

(** |a - b| <= atol + rtol * |b| (in exact arithmetic; the generator keeps
    away from the boundary) *)
Definition dclose (a b : D) : bool :=
  dle (dabs (dsub a b)) (dadd np_atol (dmul np_rtol (dabs b))).

(** a value that may be NaN ([None]); the generated case files use this
    type for every array entry *)
Definition OD := option D.
Definition odeqb (a b : OD) : bool := option_eqb deqb a b.
Definition oclose (a b : OD) : bool :=
  match a, b with Some x, Some y => dclose x y | _, _ => false end.

(** Datasets compared as xarray presents them to this property: the two
    index coordinates by name (their position among the coordinates is not
    observable through make_xarray_grid's contract or grid_to_table), the
    non-index coordinates in order, the variables in order *)
Definition dataset_agree (dims : string * string) (a b : dataset OD) : bool :=
  (length (ds_coords a) =? length (ds_coords b))
  && option_eqb (coord_eqb odeqb) (assoc (fst dims) (ds_coords a)) (assoc (fst dims) (ds_coords b))
  && option_eqb (coord_eqb odeqb) (assoc (snd dims) (ds_coords a)) (assoc (snd dims) (ds_coords b))
  && list_eqb (named_eqb (coord_eqb odeqb))
       (filter (is_extra (fst dims) (snd dims)) (ds_coords a))
       (filter (is_extra (fst dims) (snd dims)) (ds_coords b))
  && list_eqb (named_eqb (var_eqb odeqb)) (ds_vars a) (ds_vars b).

(** make_xarray_grid *)
Definition c18_make (ce cn : nd OD) (extras : list (arr2 OD)) (data : dataarg OD)
    (data_names : names) (dims : string * string) (extra_names : names)
    (obs : option (dataset OD)) : verdict :=
  mk_verdict
    (option_eqb (dataset_agree dims) (make_xarray_grid oclose ce cn extras data data_names dims extra_names) obs)
    (make_holds odeqb oclose ce cn extras data data_names dims extra_names obs).

(** grid_to_table on a grid given as observed from xarray *)
Definition c18_table (g : grid OD) (obs : option (table OD)) : verdict :=
  mk_verdict (option_eqb (table_eqb odeqb) (grid_to_table g) obs) (table_holds odeqb g obs).

(** grid_to_table (make_xarray_grid ...) *)
Definition c18_round (ce cn : nd OD) (extras : list (arr2 OD)) (data : dataarg OD)
    (data_names : names) (dims : string * string) (extra_names : names)
    (obs : option (table OD)) : verdict :=
  mk_verdict
    (option_eqb (table_eqb odeqb)
       (match make_xarray_grid oclose ce cn extras data data_names dims extra_names with
        | Some ds => grid_to_table (GDataset ds)
        | None => None
        end) obs)
    (roundtrip_holds odeqb oclose ce cn extras data data_names dims extra_names obs).

(** meshgrid_to_1d (meshgrid_from_1d (e, n, extras)): [obs1] is the observed
    meshgrid, [obs2] the observed 1-D vectors recovered from it *)
Definition c18_from_to (e n : list OD) (extras : list (arr2 OD))
    (obs1 : option (arr2 OD * arr2 OD)) (obs2 : option (list OD * list OD)) : verdict :=
  let pair_eqb {A B} (f : A -> A -> bool) (g : B -> B -> bool) (x y : A * B) :=
      f (fst x) (fst y) && g (snd x) (snd y) in
  let m1 := meshgrid_from_1d e n extras in
  let m2 := match m1 with Some (E, N) => meshgrid_to_1d oclose E N extras | None => None end in
  mk_verdict
    (option_eqb (pair_eqb (arr_eqb odeqb) (arr_eqb odeqb)) m1 obs1
     && option_eqb (pair_eqb (list_eqb odeqb) (list_eqb odeqb)) m2 obs2)
    (if forallb (rect (length n) (length e)) extras then
       match obs1 with
       | Some (E, N) =>
         rect (length n) (length e) E && rect (length n) (length e) N
         && axis_e_matches odeqb e E && axis_n_matches odeqb n N
         && (if (0 <? length e) && (0 <? length n) && forallb (fun x => oclose x x) (e ++ n) then
               match obs2 with
               | Some (e', n') => list_eqb odeqb e' e && list_eqb odeqb n' n
               | None => false
               end
             else true)
       | None => false
       end
     else match obs1 with None => true | Some _ => false end).

(** meshgrid_from_1d (meshgrid_to_1d (E, N, extras)) *)
Definition c18_to_from (E N : arr2 OD) (extras : list (arr2 OD))
    (obs1 : option (list OD * list OD)) (obs2 : option (arr2 OD * arr2 OD)) : verdict :=
  let pair_eqb {A B} (f : A -> A -> bool) (g : B -> B -> bool) (x y : A * B) :=
      f (fst x) (fst y) && g (snd x) (snd y) in
  let m1 := meshgrid_to_1d oclose E N extras in
  let m2 := match m1 with Some (e, n) => meshgrid_from_1d e n extras | None => None end in
  mk_verdict
    (option_eqb (pair_eqb (list_eqb odeqb) (list_eqb odeqb)) m1 obs1
     && option_eqb (pair_eqb (arr_eqb odeqb) (arr_eqb odeqb)) m2 obs2)
    (if coords_valid oclose (A2 E) (A2 N) extras [] then
       match obs1, obs2 with
       | Some (e, n), Some (E', N') =>
         let cl := if exact_meshgrid_b odeqb E N then odeqb else oclose in
         axis_e_matches cl e E && axis_n_matches cl n N
         && (if exact_meshgrid_b odeqb E N then arr_eqb odeqb E' E && arr_eqb odeqb N' N
             else axis_e_matches odeqb e E' && axis_n_matches odeqb n N'
                  && rect (length E) (length (first_row E)) E' && rect (length E) (length (first_row E)) N')
       | _, _ => false
       end
     else match obs1 with None => true | Some _ => false end).
