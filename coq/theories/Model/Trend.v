(** C03 - verde.Trend (polynomial_power_combinations, jacobian, predict) and the
    column-accumulating prediction loops of Spline / VectorSpline2D, over nat / Q.

    verde/trend.py:

        combinations = ((i, j) for j in range(degree + 1) for i in range(degree + 1 - j))
        return tuple(sorted(combinations, key=sum))          # Python's sort is stable

        jacobian:  out[:, col] = (easting**i) * (northing**j)     for col, (i, j) in enumerate(combinations)
        predict:   data += (easting**i) * (northing**j) * coef    for coef, (i, j) in zip(coef_, combinations)

    verde/spline.py predict_numpy:      result[:] = 0;  for j: result += green[:, j] * forces[j]
    verde/vector.py predict_2d_numpy:   for j: vec_east  += green_ee[:, j] * forces[j] + green_ne[:, j] * forces[j + nforces]
                                               vec_north += green_ne[:, j] * forces[j] + green_nn[:, j] * forces[j + nforces] *)
From Coq Require Import QArith ZArith List Bool Arith Lia.
Import ListNotations.

(** ** monomial order *)
Open Scope nat_scope.
Definition gen_combos (N : nat) : list (nat * nat) :=
  flat_map (fun j => map (fun i => (i, j)) (seq 0 (N + 1 - j))) (seq 0 (N + 1)).

Definition deg (c : nat * nat) : nat := fst c + snd c.

(** stable insertion sort by a key: [x] goes before the first element whose key is
    not smaller (elements are inserted from the right, so equal keys keep their order) *)
Fixpoint insert_by {A} (k : A -> nat) (x : A) (l : list A) : list A :=
  match l with
  | [] => [x]
  | y :: t => if k x <=? k y then x :: y :: t else y :: insert_by k x t
  end.

Fixpoint stable_sort {A} (k : A -> nat) (l : list A) : list A :=
  match l with
  | [] => []
  | x :: t => insert_by k x (stable_sort k t)
  end.

Definition power_combinations (N : nat) : list (nat * nat) := stable_sort deg (gen_combos N).

(** the documented order: by total degree d = 0..N; within a degree
    (d, 0), (d - 1, 1), ..., (0, d) *)
Definition by_degree (N : nat) : list (nat * nat) :=
  flat_map (fun d => map (fun j => (d - j, j)) (seq 0 (d + 1))) (seq 0 (N + 1)).

(** ** rational vectors *)
Open Scope Q_scope.

Fixpoint qpow (x : Q) (n : nat) : Q :=
  match n with O => 1 | S k => x * qpow x k end.

Fixpoint dot (u v : list Q) : Q :=
  match u, v with
  | a :: u', b :: v' => a * b + dot u' v'
  | _, _ => 0
  end.

Definition mv (A : list (list Q)) (x : list Q) : list Q := map (fun r => dot r x) A.

Definition monomial (e n : Q) (c : nat * nat) : Q := qpow e (fst c) * qpow n (snd c).

(** one row of Trend.jacobian *)
Definition trend_row (N : nat) (e n : Q) : list Q := map (monomial e n) (power_combinations N).

Definition trend_jacobian (N : nat) (east north : list Q) : list (list Q) :=
  map (fun p => trend_row N (fst p) (snd p)) (combine east north).

(** ** the accumulation loops (arrays updated column by column) *)
Fixpoint axpy (acc col : list Q) (c : Q) : list Q :=
  match acc, col with
  | a :: acc', g :: col' => (a + g * c) :: axpy acc' col' c
  | _, _ => []
  end.

(** [result += green_j * forces[j]] for each column; [zip] stops at the shorter list *)
Fixpoint predict_loop (cols : list (list Q)) (forces : list Q) (acc : list Q) : list Q :=
  match cols, forces with
  | c :: cs, f :: fs => predict_loop cs fs (axpy acc c f)
  | _, _ => acc
  end.

Definition zeros (n : nat) : list Q := repeat 0 n.

(** kernel tables as functions of (row, column) *)
Definition col_of (K : nat -> nat -> Q) (n j : nat) : list Q := map (fun i => K i j) (seq 0 n).
Definition row_of (K : nat -> nat -> Q) (m i : nat) : list Q := map (fun j => K i j) (seq 0 m).
Definition cols_of (K : nat -> nat -> Q) (n m : nat) : list (list Q) := map (col_of K n) (seq 0 m).
Definition jac_of (K : nat -> nat -> Q) (n m : nat) : list (list Q) := map (row_of K m) (seq 0 n).

(** Trend.predict for the coordinate lists: the same loop over monomial columns *)
Definition trend_cols (N : nat) (east north : list Q) : list (list Q) :=
  map (fun c => map (fun p => monomial (fst p) (snd p) c) (combine east north)) (power_combinations N).

Definition trend_predict (N : nat) (coef east north : list Q) : list Q :=
  predict_loop (trend_cols N east north) coef (zeros (length (combine east north))).

(** two-component loop: [forces] = east forces ++ north forces *)
Fixpoint axpy2 (acc c1 c2 : list Q) (f1 f2 : Q) : list Q :=
  match acc, c1, c2 with
  | a :: acc', g1 :: c1', g2 :: c2' => (a + (g1 * f1 + g2 * f2)) :: axpy2 acc' c1' c2' f1 f2
  | _, _, _ => []
  end.

Fixpoint predict2_loop (cee cnn cne : list (list Q)) (fe fn : list Q) (ve vn : list Q)
  : list Q * list Q :=
  match cee, cnn, cne, fe, fn with
  | a :: cee', b :: cnn', c :: cne', f1 :: fe', f2 :: fn' =>
      predict2_loop cee' cnn' cne' fe' fn' (axpy2 ve a c f1 f2) (axpy2 vn c b f1 f2)
  | _, _, _, _, _ => (ve, vn)
  end.

(** the (2n) x (2m) block Jacobian: east rows / columns first *)
Definition jac2_of (Kee Knn Kne : nat -> nat -> Q) (n m : nat) : list (list Q) :=
  map (fun i => row_of Kee m i ++ row_of Kne m i) (seq 0 n) ++
  map (fun i => row_of Kne m i ++ row_of Knn m i) (seq 0 n).
