(** Model of verde.io.load_surfer (verde/io.py).

    A file is the list of its lines (text mode, split at newlines).  The
    model contains the tokeniser ([str.split()] / numpy.loadtxt's whitespace
    delimiter, [split_ws]), [str.strip()] for the grid id, loadtxt's comment
    stripping and blank-line skipping, the rectangularity test and [squeeze]
    of loadtxt, the blank mask [>= 1.70141e38] in the requested dtype,
    [_check_surfer_integrity] with [numpy.allclose] (rtol 1e-5, atol 1e-8,
    evaluated exactly), [numpy.linspace] (exactly, in Q) and the handle that
    the function opens and closes in [try/finally].

    What is NOT modelled but supplied as oracles (section variables): the
    conversion of one token to a number,
      [pint] = Python [int(token)],
      [pflt] = Python [float(token)]          (header),
      [pval] = loadtxt's conversion of a token in the requested dtype (body).
    A number is a finite dyadic, an infinity or NaN ([num]).

    Errors carry the exception class: [EValue] ValueError, [EIO] IOError /
    OSError, [EIndex] IndexError.  [EUnsupported] marks the one place where
    the model does not follow the code: a header region that is not finite
    (the code returns NaN coordinates). *)
From Coq Require Import ZArith QArith Qabs String Ascii List Bool Lia.
From Verde Require Import Lib.Verdict Lib.Dyadic.
Import ListNotations.
Open Scope string_scope.

(** ** Text *)

(** Python's [str.isspace] on ASCII: TAB LF VT FF CR, FS GS RS US, SPACE *)
Definition is_ws (c : ascii) : bool :=
  let n := nat_of_ascii c in
  ((9 <=? n) && (n <=? 13) || (28 <=? n) && (n <=? 32))%nat.

Definition all_ws (s : string) : bool := forallb is_ws (list_ascii_of_string s).
Definition no_ws (s : string) : bool := forallb (fun c => negb (is_ws c)) (list_ascii_of_string s).

(** [str.split()]: maximal runs of non-whitespace characters *)
Fixpoint split_ws (s : string) : list string :=
  match s with
  | EmptyString => []
  | String c r =>
      if is_ws c then split_ws r
      else match r with
           | EmptyString => [String c EmptyString]
           | String c' _ =>
               if is_ws c' then String c EmptyString :: split_ws r
               else match split_ws r with
                    | t :: ts => String c t :: ts
                    | [] => [String c EmptyString]
                    end
           end
  end.

Fixpoint lstrip (s : string) : string :=
  match s with
  | EmptyString => EmptyString
  | String c r => if is_ws c then lstrip r else s
  end.

Fixpoint rstrip (s : string) : string :=
  match s with
  | EmptyString => EmptyString
  | String c r =>
      match rstrip r with
      | EmptyString => if is_ws c then EmptyString else String c EmptyString
      | r' => String c r'
      end
  end.

(** [str.strip()] *)
Definition strip (s : string) : string := rstrip (lstrip s).

(** loadtxt [comments="#"]: the rest of the line is ignored *)
Fixpoint strip_comment (s : string) : string :=
  match s with
  | EmptyString => EmptyString
  | String c r => if Ascii.eqb c "#" then EmptyString else String c (strip_comment r)
  end.

(** tokens separated (and surrounded) by whitespace runs: the text of one line.
    [join_ws sep0 [(t1,sep1); ...; (tn,sepn)] = sep0 t1 sep1 ... tn sepn] *)
Fixpoint join_ws (l : list (string * string)) : string :=
  match l with
  | [] => EmptyString
  | (t, sep) :: r => t ++ sep ++ join_ws r
  end.

(** ** Numbers *)

Inductive num := Fin (d : D) | PInf | NInf | NaN.
Inductive dtype := F64 | F32.

(** the double nearest to 1.70141e38, and its rounding to float32: the
    comparison [field >= 1.70141e38] is carried out in the dtype of [field] *)
Definition thr (dt : dtype) : D :=
  match dt with
  | F64 => (2251797385606155, 76)%Z
  | F32 => (8388599, 104)%Z
  end.

Definition is_blank (dt : dtype) (v : num) : bool :=
  match v with
  | Fin d => dle (thr dt) d
  | PInf => true
  | NInf | NaN => false
  end.

(** a masked cell shows as NaN in the DataArray *)
Definition mask (dt : dtype) (v : num) : num := if is_blank dt v then NaN else v.

Definition is_nan (v : num) : bool := match v with NaN => true | _ => false end.

Definition nmin (a b : num) : num :=
  match a, b with
  | NaN, _ | _, NaN => NaN
  | NInf, _ | _, NInf => NInf
  | PInf, x | x, PInf => x
  | Fin x, Fin y => if dle x y then Fin x else Fin y
  end.

Definition nmax (a b : num) : num :=
  match a, b with
  | NaN, _ | _, NaN => NaN
  | PInf, _ | _, PInf => PInf
  | NInf, x | x, NInf => x
  | Fin x, Fin y => if dle x y then Fin y else Fin x
  end.

(** min / max of the unmasked cells; a fully masked field gives [masked],
    which numpy.allclose sees as NaN *)
Definition fold_num (op : num -> num -> num) (l : list num) : num :=
  match l with
  | [] => NaN
  | v :: t => fold_left op t v
  end.

Definition rtol : Q := 1 # 100000.
Definition atol : Q := 1 # 100000000.

(** numpy.isclose(x, y) with the default tolerances, exactly:
    [|x - y| <= atol + rtol * |y|] for finite numbers, equality for
    infinities, never for NaN.  Evaluated on dyadics after multiplying
    through by 10^8. *)
Definition isclose_lhs (a b : D) : D := dmul (dZ 100000000) (dabs (dsub a b)).
Definition isclose_rhs (b : D) : D := dadd (dZ 1) (dmul (dZ 1000) (dabs b)).

Definition isclose (x y : num) : bool :=
  match x, y with
  | Fin a, Fin b => dle (isclose_lhs a b) (isclose_rhs b)
  | PInf, PInf | NInf, NInf => true
  | _, _ => false
  end.

(** the float evaluation of the inequality can differ from the exact one only
    when the two sides agree to 2^-30 relative *)
Definition isclose_tie (x y : num) : bool :=
  match x, y with
  | Fin a, Fin b =>
      let l := isclose_lhs a b in let r := isclose_rhs b in
      dle (dabs (dsub l r)) (dmul (dpow2 (-30)) (dadd l r))
  | _, _ => false
  end.

(** ** Results *)

Inductive err := EValue | EIO | EIndex | EOther | EUnsupported.
Inductive result (A : Type) := Ok (a : A) | Err (e : err).
Arguments Ok {A} a.
Arguments Err {A} e.

Definition bind {A B} (r : result A) (k : A -> result B) : result B :=
  match r with Ok a => k a | Err e => Err e end.

Fixpoint map_opt {A B} (f : A -> option B) (l : list A) : option (list B) :=
  match l with
  | [] => Some []
  | x :: t => match f x, map_opt f t with
              | Some y, Some r => Some (y :: r)
              | _, _ => None
              end
  end.

Definition is_nil {A} (l : list A) : bool := match l with [] => true | _ => false end.

(** numpy.linspace(a, b, n) *)
Definition linspace (a b : Q) (n : nat) : list Q :=
  match n with
  | 0%nat => []
  | 1%nat => [a]
  | _ => map (fun i => a + inject_Z (Z.of_nat i) * (b - a) / inject_Z (Z.of_nat (n - 1))) (seq 0 n)
  end.

(** the value of the [file] attribute: the very object that was given as
    [fname] - a [str] (recorded character by character as given, whatever its
    spelling: "./x", "a//b", "a/./b", "a/../a/b", relative or absolute) or a
    [pathlib.Path] object (identified by its [str()]) *)
Inductive fattr := FStr (s : string) | FPathObj (s : string).

Definition fattr_eqb (a b : fattr) : bool :=
  match a, b with
  | FStr x, FStr y | FPathObj x, FPathObj y => String.eqb x y
  | _, _ => false
  end.

(** the keys of [attrs], in insertion order, and the DataArray's [name] *)
Definition attr_keys (fa : option fattr) : list string :=
  "gridID" :: match fa with Some _ => ["file"] | None => [] end.
Definition grid_name : option string := None.

Record grid := {
  g_vals : list (list num);      (* row by row; NaN = blank *)
  g_north : list Q;
  g_east : list Q;
  g_id : string;
  g_file : option fattr;
  g_dims : list string;
  g_dtype : dtype
}.

Record header := {
  h_id : string;
  h_shape : list Z;
  h_south : num; h_north : num; h_west : num; h_east : num;
  h_range : list num
}.

(** ** The function *)
Section Surfer.
Variable pint : string -> option Z.
Variable pflt : string -> option num.
Variable pval : string -> option num.

(** [readline()] returns "" at end of file *)
Definition line (f : list string) (i : nat) : string := nth i f "".

(** _read_surfer_header *)
Definition parse_header (f : list string) : result header :=
  match map_opt pint (split_ws (line f 1)) with
  | None => Err EValue
  | Some shape =>
    match map_opt pflt (split_ws (line f 2)) with
    | Some [s; n] =>
      match map_opt pflt (split_ws (line f 3)) with
      | Some [w; e] =>
        match map_opt pflt (split_ws (line f 4)) with
        | Some rng =>
            Ok {| h_id := strip (line f 0); h_shape := shape;
                  h_south := s; h_north := n; h_west := w; h_east := e;
                  h_range := rng |}
        | None => Err EValue
        end
      | _ => Err EValue
      end
    | _ => Err EValue
    end
  end.

(** numpy.loadtxt on the rest of the file: comments stripped, lines without
    tokens skipped, every token converted, all rows of one length *)
Definition body_rows (f : list string) : list (list string) :=
  filter (fun r => negb (is_nil r)) (map (fun l => split_ws (strip_comment l)) (skipn 5 f)).

Definition rect {A} (rows : list (list A)) : bool :=
  match rows with
  | [] => true
  | r :: t => forallb (fun r' => (length r' =? length r)%nat) t
  end.

Definition loadtxt (f : list string) : result (list (list num)) :=
  match map_opt (map_opt pval) (body_rows f) with
  | None => Err EValue
  | Some rows => if rect rows then Ok rows else Err EValue
  end.

(** shape of loadtxt's result: (rows, columns) squeezed; no data -> (0,) *)
Definition field_shape {A} (rows : list (list A)) : list Z :=
  match rows with
  | [] => [0%Z]
  | r :: _ => filter (fun n => negb (n =? 1)%Z) [Z.of_nat (length rows); Z.of_nat (length r)]
  end.

Definition unmasked (dt : dtype) (rows : list (list num)) : list num :=
  filter (fun v => negb (is_blank dt v)) (concat rows).

Definition field_min dt rows := fold_num nmin (unmasked dt rows).
Definition field_max dt rows := fold_num nmax (unmasked dt rows).

(** numpy.allclose([min, max], data_range) with broadcasting *)
Definition range_close (lo hi : num) (rng : list num) : option bool :=
  match rng with
  | [b] => Some (isclose lo b && isclose hi b)
  | [b1; b2] => Some (isclose lo b1 && isclose hi b2)
  | _ => None
  end.

(** _check_surfer_integrity *)
Definition check_integrity (dt : dtype) (rows : list (list num)) (h : header) : result unit :=
  if negb (list_eqb Z.eqb (field_shape rows) (h_shape h)) then Err EIO
  else if is_nil (concat rows) then Err EValue     (* min of a zero-size array *)
  else match range_close (field_min dt rows) (field_max dt rows) (h_range h) with
       | None => Err EValue                         (* shapes do not broadcast *)
       | Some false => Err EIO
       | Some true => Ok tt
       end.

Definition dims : list string := ["northing"; "easting"].

(** the body of the [try] block *)
Definition read_lines (fileattr : option fattr) (dt : dtype) (f : list string) : result grid :=
  bind (parse_header f) (fun h =>
  bind (loadtxt f) (fun rows =>
  bind (check_integrity dt rows h) (fun _ =>
  match h_shape h with
  | [nr; nc] =>
      match h_south h, h_north h, h_west h, h_east h with
      | Fin s, Fin n, Fin w, Fin e =>
          Ok {| g_vals := map (map (mask dt)) rows;
                g_north := linspace (D2Q s) (D2Q n) (Z.to_nat nr);
                g_east := linspace (D2Q w) (D2Q e) (Z.to_nat nc);
                g_id := h_id h;
                g_file := fileattr;
                g_dims := dims;
                g_dtype := dt |}
      | _, _, _, _ => Err EUnsupported
      end
  | _ => Err EIndex                                  (* shape[0] / shape[1] *)
  end))).

(** *** Handles *)
Inductive hstate := Opened | Closed.
Record handle := { hd_lines : list string; hd_state : hstate }.

Definition close (h : handle) : handle := {| hd_lines := hd_lines h; hd_state := Closed |}.

(** reading from a closed file raises ValueError *)
Definition read_handle (fileattr : option fattr) (dt : dtype) (h : handle) : result grid :=
  match hd_state h with
  | Closed => Err EValue
  | Opened => read_lines fileattr dt (hd_lines h)
  end.

(** [try: body finally: if ispath: close] - the [finally] clause runs on
    every outcome of the body *)
Definition bracket {A} (ispath : bool) (h : handle) (body : handle -> result A) : result A * handle :=
  let r := body h in
  (r, if ispath then close h else h).

Inductive source := Path (p : string) | PathObj (p : string) | FileObj (h : handle).

Record outcome := {
  o_result : result grid;
  o_opened : option handle;   (* the handle the function opened itself, as it leaves it *)
  o_given : option handle     (* the caller's file object, as the function leaves it *)
}.

(** [fname] is a path (a [str], or a [pathlib.Path] whose [str()] is [p]):
    [open(fname)], and [attrs["file"] = fname] - the object as given *)
Definition load_path (fs : string -> option (list string)) (p : string) (fa : fattr) (dt : dtype) : outcome :=
  match fs p with
  | None => {| o_result := Err EIO; o_opened := None; o_given := None |}   (* open() fails *)
  | Some c =>
      let rh := bracket true {| hd_lines := c; hd_state := Opened |} (read_handle (Some fa) dt) in
      {| o_result := fst rh; o_opened := Some (snd rh); o_given := None |}
  end.

Definition load_surfer (fs : string -> option (list string)) (src : source) (dt : dtype) : outcome :=
  match src with
  | Path p => load_path fs p (FStr p) dt
  | PathObj p => load_path fs p (FPathObj p) dt
  | FileObj h =>
      let rh := bracket false h (read_handle None dt) in
      {| o_result := fst rh; o_opened := None; o_given := Some (snd rh) |}
  end.

(** ** Specification vocabulary *)

(** the file read directly: what a faithful grid must contain *)
Definition header_is (f : list string) (nr nc : nat) (s n w e : D) (rng : list num) : Prop :=
  map_opt pint (split_ws (line f 1)) = Some [Z.of_nat nr; Z.of_nat nc] /\
  map_opt pflt (split_ws (line f 2)) = Some [Fin s; Fin n] /\
  map_opt pflt (split_ws (line f 3)) = Some [Fin w; Fin e] /\
  map_opt pflt (split_ws (line f 4)) = Some rng.

(** the body, one list of numbers per non-empty line *)
Definition body_is (f : list string) (rows : list (list num)) : Prop :=
  map_opt (map_opt pval) (body_rows f) = Some rows.

Definition has_shape {A} (rows : list (list A)) (nr nc : nat) : Prop :=
  length rows = nr /\ Forall (fun r => length r = nc) rows.

(** the header's data range agrees with the body's (numpy.allclose) *)
Definition range_agrees (dt : dtype) (rows : list (list num)) (rng : list num) : Prop :=
  range_close (field_min dt rows) (field_max dt rows) rng = Some true.

End Surfer.

(** ** Decidable form of the property, evaluated on the observed output *)

Record ogrid := {
  og_vals : list (list num);
  og_north : list D;
  og_east : list D;
  og_id : string;
  og_file : option fattr;
  og_attr_keys : list string;     (* list(attrs) *)
  og_name : option string;        (* DataArray.name *)
  og_dims : list string;
  og_dtype : dtype
}.

Inductive oresult := OOk (g : ogrid) | OErr (e : err).

Record observation := {
  ob_res : oresult;
  ob_leak : Z;                      (* files opened by the call and still open after it *)
  ob_given_closed : option bool     (* [f.closed] of the caller's file object after the call *)
}.

(** how the function was called *)
Inductive csource :=
  | CPath (p : string) (exists_ : bool)
  | CPathObj (p : string) (exists_ : bool)      (* pathlib.Path; p = str(path) *)
  | CFile (closed_before : bool).

Definition num_eqb (a b : num) : bool :=
  match a, b with
  | Fin x, Fin y => deq x y
  | PInf, PInf | NInf, NInf | NaN, NaN => true
  | _, _ => false
  end.

Definition dtype_eqb (a b : dtype) : bool :=
  match a, b with F64, F64 | F32, F32 => true | _, _ => false end.

Definition err_eqb (a b : err) : bool :=
  match a, b with
  | EValue, EValue | EIO, EIO | EIndex, EIndex | EOther, EOther | EUnsupported, EUnsupported => true
  | _, _ => false
  end.

Definition vals_eqb (a b : list (list num)) : bool := list_eqb (list_eqb num_eqb) a b.

(** computed coordinates: 2^-40 relative to the larger end of the range *)
Definition coords_close (qs : list Q) (ds : list D) : bool :=
  let scale := match qs with [] => 0%Q | q :: _ => Qabs q + Qabs (last qs q) end in
  let tol := (scale * pow2 (-40))%Q in
  (length qs =? length ds)%nat &&
  forallb (fun p => Qle_bool (Qabs (D2Q (snd p) - fst p)) tol) (combine qs ds).

Definition lookup {A} (tbl : list (string * option A)) (s : string) : option A :=
  match find (fun p => String.eqb (fst p) s) tbl with
  | Some (_, v) => v
  | None => None
  end.

Inductive tri := Yes | No | Tie.

(** the file's lines cut into grid rows of [nc] values, when every grid row
    occupies a whole number (>= 1) of consecutive lines: one row per line, or a
    genuinely wrapped layout.  [None] when some line straddles two grid rows or
    holds more than one (a body that merely has the right number of values). *)
Fixpoint regroup {A} (nc : nat) (acc : list A) (rows : list (list A)) : option (list (list A)) :=
  match rows with
  | [] => if is_nil acc then Some [] else None
  | r :: t =>
      let acc' := (acc ++ r)%list in
      if (length acc' =? nc)%nat then option_map (cons acc') (regroup nc [] t)
      else if (length acc' <? nc)%nat then regroup nc acc' t
      else None
  end.

Section Decide.
Variable pint : string -> option Z.
Variable pflt : string -> option num.
Variable pval : string -> option num.

(** the header's range against the body's, with the tie zone made explicit *)
Definition range_status (dt : dtype) (rows : list (list num)) (rng : list num) : tri :=
  let lo := field_min dt rows in let hi := field_max dt rows in
  match rng with
  | [b1; b2] =>
      if isclose_tie lo b1 || isclose_tie hi b2 then Tie
      else if isclose lo b1 && isclose hi b2 then Yes else No
  | [b] =>
      if isclose_tie lo b || isclose_tie hi b then Tie
      else if isclose lo b && isclose hi b then Yes else No
  | _ => No
  end.

Definition all_len {A} (n : nat) (rows : list (list A)) : bool :=
  forallb (fun r => (length r =? n)%nat) rows.

(** "the returned grid is the file's grid": the header's shape, the file's
    values row by row with blanks as NaN - where the grid rows are the file's
    lines (one grid row per line) or, for a wrapped layout, whole groups of
    consecutive lines ([regroup]; such a layout may be loaded this way or
    refused, and the code refuses it) -, coordinates, attributes, dims, dtype,
    and the header's range agrees with the body.  A body that merely has
    rows x columns values but whose lines do not line up with the header's
    grid rows (swapped counts, another factorisation, lines holding several
    grid rows) disagrees with its header: returning its re-cut is [No]. *)
Definition grid_is_file (fileattr : option fattr) (dt : dtype) (f : list string) (g : ogrid) : tri :=
  match map_opt pint (split_ws (line f 1)),
        map_opt pflt (split_ws (line f 2)),
        map_opt pflt (split_ws (line f 3)),
        map_opt pflt (split_ws (line f 4)),
        map_opt (map_opt pval) (body_rows f) with
  | Some [nr; nc], Some [Fin s; Fin n], Some [Fin w; Fin e], Some rng, Some rows =>
      if match regroup (Z.to_nat nc) [] rows with
         | Some grows => (Z.of_nat (length grows) =? nr)%Z
                         && vals_eqb (map (map (mask dt)) grows) (og_vals g)
         | None => false
         end
         && coords_close (linspace (D2Q s) (D2Q n) (Z.to_nat nr)) (og_north g)
         && coords_close (linspace (D2Q w) (D2Q e) (Z.to_nat nc)) (og_east g)
         && String.eqb (og_id g) (strip (line f 0))
         && option_eqb fattr_eqb (og_file g) fileattr
         && list_eqb String.eqb (og_attr_keys g) (attr_keys fileattr)
         && option_eqb String.eqb (og_name g) grid_name
         && list_eqb String.eqb (og_dims g) ["northing"; "easting"]
         && dtype_eqb (og_dtype g) dt
      then range_status dt rows rng
      else No
  | _, _, _, _, _ => No
  end.

Definition finite_or_blank (dt : dtype) (v : num) : bool :=
  match v with Fin _ => true | _ => false end.

(** "a well-formed Surfer grid written one grid row per line, whose header
    agrees with its body": at least 2 x 2, finite region, finite values
    (blanks are the finite values >= the threshold), not all blank *)
Definition well_formed (dt : dtype) (f : list string) : tri :=
  match map_opt pint (split_ws (line f 1)),
        map_opt pflt (split_ws (line f 2)),
        map_opt pflt (split_ws (line f 3)),
        map_opt pflt (split_ws (line f 4)),
        map_opt (map_opt pval) (body_rows f) with
  | Some [nr; nc], Some [Fin s; Fin n], Some [Fin w; Fin e], Some [Fin lo; Fin hi], Some rows =>
      if (2 <=? nr)%Z && (2 <=? nc)%Z
         && (Z.of_nat (length rows) =? nr)%Z && all_len (Z.to_nat nc) rows
         && forallb (finite_or_blank dt) (concat rows)
         && negb (is_nil (unmasked dt rows))
      then range_status dt rows [Fin lo; Fin hi]
      else No
  | _, _, _, _, _ => No
  end.

(** the file the call reads, if there is one it can read *)
Definition readable (src : csource) : bool :=
  match src with CPath _ ex | CPathObj _ ex => ex | CFile closed => negb closed end.

Definition fileattr_of (src : csource) : option fattr :=
  match src with CPath p _ => Some (FStr p) | CPathObj p _ => Some (FPathObj p) | CFile _ => None end.

(** (tie, holds) *)
Definition surfer_holds (dt : dtype) (f : list string) (src : csource) (ob : observation) : bool * bool :=
  let closed_ok := (ob_leak ob =? 0)%Z in
  match ob_res ob with
  | OOk g =>
      if readable src then
        match grid_is_file (fileattr_of src) dt f g with
        | Yes => (false, closed_ok) | Tie => (true, closed_ok) | No => (false, false)
        end
      else (false, false)
  | OErr _ =>
      if readable src then
        match well_formed dt f with
        | Yes => (false, false) | Tie => (true, closed_ok) | No => (false, closed_ok)
        end
      else (false, closed_ok)
  end.

(** model output against the observation *)
Definition grid_agrees (g : grid) (o : ogrid) : bool :=
  vals_eqb (g_vals g) (og_vals o)
  && coords_close (g_north g) (og_north o)
  && coords_close (g_east g) (og_east o)
  && String.eqb (g_id g) (og_id o)
  && option_eqb fattr_eqb (g_file g) (og_file o)
  && list_eqb String.eqb (og_attr_keys o) (attr_keys (g_file g))
  && option_eqb String.eqb (og_name o) grid_name
  && list_eqb String.eqb (g_dims g) (og_dims o)
  && dtype_eqb (g_dtype g) (og_dtype o).

Definition hstate_closed (h : handle) : bool :=
  match hd_state h with Closed => true | Opened => false end.

Definition outcome_agrees (m : outcome) (ob : observation) : bool :=
  match o_result m, ob_res ob with
  | Ok g, OOk o => grid_agrees g o
  | Err e, OErr e' => err_eqb e e'
  | _, _ => false
  end
  && match o_opened m with
     | Some h => Bool.eqb (hstate_closed h) (ob_leak ob =? 0)%Z
     | None => (ob_leak ob =? 0)%Z
     end
  && option_eqb Bool.eqb (option_map hstate_closed (o_given m)) (ob_given_closed ob).

Definition model_source (f : list string) (src : csource) : (string -> option (list string)) * source :=
  match src with
  | CPath p ex => ((fun q => if ex && String.eqb q p then Some f else None), Path p)
  | CPathObj p ex => ((fun q => if ex && String.eqb q p then Some f else None), PathObj p)
  | CFile closed => ((fun _ => None), FileObj {| hd_lines := f; hd_state := if closed then Closed else Opened |})
  end.

End Decide.

(** one generated case: the file's lines, the three token oracles as tables,
    the call and what was observed *)
Definition c19_case (f : list string)
    (tint : list (string * option Z)) (tflt tval : list (string * option num))
    (dt : dtype) (src : csource) (ob : observation) : verdict :=
  let pint := lookup tint in let pflt := lookup tflt in let pval := lookup tval in
  let ms := model_source f src in
  let m := load_surfer pint pflt pval (fst ms) (snd ms) dt in
  let th := surfer_holds pint pflt pval dt f src ob in
  (* a tie in the range test excuses a different Ok/Err outcome only *)
  mk_verdict_tie (fst th) (outcome_agrees m ob) (snd th).

(** characters that cannot be written inside a Coq string literal portably *)
Definition ch (n : nat) : string := String (ascii_of_nat n) EmptyString.
