(** Model of verde.projections.project_grid as a composition of understood
    pieces and oracles:

      table of valid (non-NaN) cells in C order         [valid_table]
      -> projection of their coordinates                 (oracle: what the callable returned, logged)
      -> get_region of the projected points              (Model.Coordinates.get_region)
      -> region / shape / spacing defaults               [pg_region_spacing] (shape_to_spacing)
      -> optional BlockReduce(mean)                      (oracle)
      -> interpolator values on grid_coordinates         (coordinates: Model.Coordinates.grid_coordinates; values: oracle)
      -> convex hull mask of the projected points        (Model.Hull)
      -> DataArray called like the input (or "scalars").                                   *)
From Coq Require Import QArith Qabs ZArith List Bool String Lia.
From Verde Require Import Lib.Verdict Lib.Dyadic Lib.QExtra Model.Coordinates Model.CoordCases Model.Hull.
Import ListNotations.
Open Scope Q_scope.

(** grid_to_table(grid).dropna(): cell (i, j) -> (east[j], north[i], v), C order, NaN cells dropped *)
Definition valid_table {A V} (east north : list A) (vals : list (list (option V))) : list (A * A * V) :=
  flat_map (fun yr =>
    flat_map (fun xv => match snd xv with Some v => [(fst xv, fst yr, v)] | None => [] end)
             (combine east (snd yr)))
    (combine north vals).

Definition out_name (name : option string) : string :=
  match name with Some s => s | None => "scalars"%string end.

(** region and spacing handed to the gridder.  [in_shape] = (n_north, n_east) of
    the input; spacing = one value or (s_north, s_east).  None = error. *)
Definition pg_region_spacing (pe pn : list Q) (in_shape : Z * Z)
    (region : option (list Q)) (shape : option (Z * Z)) (spacing : option (list Q))
  : option (list Q * list Q) :=
  match get_region pe pn with
  | None => None
  | Some (w, e, s, n) =>
      let reg := match region with Some r => r | None => [w; e; s; n] end in
      match reg with
      | [w'; e'; s'; n'] =>
          let shp := match shape with Some x => x | None => in_shape end in
          let spc := match spacing with
                     | Some x => x
                     | None => let '(a, b) := shape_to_spacing (w', e', s', n') shp false in [a; b]
                     end in
          if check_region reg then Some (reg, spc) else None
      | _ => None
      end
  end.

(** the coordinate vectors (easting, northing) of the output grid *)
Definition pg_coords (pe pn : list Q) (in_shape : Z * Z)
    (region : option (list Q)) (shape : option (Z * Z)) (spacing : option (list Q))
  : option (list Q * list Q) :=
  match pg_region_spacing pe pn in_shape region shape spacing with
  | None => None
  | Some (reg, spc) =>
      match grid_coordinates reg None (Some spc) 0 false None true with
      | Some g => Some (g_east1 g, g_north1 g)
      | None => None
      end
  end.

(** closed form of the same thing, as the property words it: a regular grid
    (both bounds hit) of the projected data region, or of the requested region,
    with the input's shape, or the requested shape, or the requested spacing
    adjusted to the region *)
Definition pg_coords_spec (pe pn : list Q) (in_shape : Z * Z)
    (region : option (list Q)) (shape : option (Z * Z)) (spacing : option (list Q))
  : option (list Q * list Q) :=
  match get_region pe pn with
  | None => None
  | Some (w0, e0, s0, n0) =>
      match (match region with Some r => r | None => [w0; e0; s0; n0] end) with
      | [w; e; s; n] =>
          let lines :=
            match spacing with
            | Some [sp] => Some (line_spec w e None (Some sp) 0 false, line_spec s n None (Some sp) 0 false)
            | Some [spn; spe] => Some (line_spec w e None (Some spe) 0 false, line_spec s n None (Some spn) 0 false)
            | Some _ => None
            | None => let '(sn, se) := match shape with Some x => x | None => in_shape end in
                      Some (line_spec w e (Some se) None 0 false, line_spec s n (Some sn) None 0 false)
            end in
          match lines with
          | Some (Some east, Some north) => Some (east, north)
          | _ => None
          end
      | _ => None
      end
  end.

Definition coords_close (sc : Q) (m : option (list Q * list Q)) (oe on : list Q) : bool :=
  match m with
  | Some (e, n) => close_list sc e oe && close_list sc n on
  | None => false
  end.

Definition OQ (o : option D) : option Q := option_map QD o.
Definition is_some {A} (o : option A) : bool := match o with Some _ => true | None => false end.

Definition tol30 : Q := 1 # (2 ^ 30).

(** a requested spacing whose exact quotient extent / spacing is within 2^-30 of a rounding tie,
    an EXACT tie included: unlike on C07's dyadic lattices, region and spacing are arbitrary doubles
    here and the code rounds the FLOAT quotient (stop - start) / spacing, whose two roundings can
    move an exact .5 to either side (observed: exact 6.5, float 6.500000000000001 -> 7 intervals).
    The node count along that axis is then one of two values. *)
Definition pg_line_tie (start stop sp : Q) : bool := Qltb (tie_margin ((stop - start) / sp)) tie30.
Definition pg_tie (region spacing : list Q) : bool :=
  match region, spacing with
  | [w; e; s; n], [sp] => pg_line_tie w e sp || pg_line_tie s n sp
  | [w; e; s; n], [spn; spe] => pg_line_tie w e spe || pg_line_tie s n spn
  | _, _ => false
  end.
Definition len_near {A B} (a : list A) (b : list B) : bool :=
  (Z.abs (Z.of_nat (List.length a) - Z.of_nat (List.length b)) <=? 1)%Z.

(** ** main case.
    method: 0 linear, 1 nearest, 2 cubic.  [rtol] = reproduction tolerance
    (relative to the largest input magnitude). *)
Definition finite_inside_required (antialias : bool) (method : Z) : bool :=
  negb antialias || (method =? 1)%Z.

(** NaN pattern: [mos] rows of the smallest orientation of each node over the
    supporting pairs of the projected points, [fin] rows of "is finite" *)
Definition nan_pattern_holds (need_inside : bool) (m : Z) (mos : list (list (option Z))) (fin : list (list bool)) : bool :=
  all2 (all2 (fun mo f => match mo_classify m mo with
                          | Some false => negb f
                          | Some true => if need_inside then f else true
                          | None => true
                          end)) mos fin.

Definition nan_pattern_agree (need_inside : bool) (m : Z) (mos : list (list (option Z))) (fin : list (list bool)) : bool :=
  all2 (all2 (fun mo f =>
      if mo_sin m mo || mo_sout m mo then
        (if mo_in mo then (if need_inside then f else true) else negb f)
      else true)) mos fin.

(** reproduction: every output node coinciding (within [ctol] lattice units) with
    a projected data point carries that point's value (within [vtol]); a NaN
    there is tolerated only when the node is not decisively inside the hull *)
Definition repro_holds (ctol : Z) (vtol : Q) (m : Z)
    (data : list (zpt * Q)) (nodes : list (list (zpt * option Z))) (ovals : list (list (option Q))) : bool :=
  all2 (all2 (fun qmo ov =>
    let q := fst qmo in
    all_sc (fun pv =>
      let p := fst pv in
      if (Z.abs (fst q - fst p) <=? ctol)%Z && (Z.abs (snd q - snd p) <=? ctol)%Z then
        match ov with
        | Some o => Qleb (Qabs (o - snd pv)) vtol
        | None => negb (mo_sin m (snd qmo))
        end
      else true) data)) nodes ovals.

(** how many (node, data point) coincidences there were: 0 makes the
    reproduction claim vacuous for the case *)
Definition repro_hits (ctol : Z) (data : list (zpt * Q)) (nodes : list (list zpt)) : nat :=
  List.length (filter (fun q => any_sc (fun pv => (Z.abs (fst q - fst (fst pv)) <=? ctol)%Z &&
                                              (Z.abs (snd q - snd (fst pv)) <=? ctol)%Z) data)
                 (List.concat nodes)).

(** [mode]: 0 = everything; 1 = everything except value reproduction; 2 = value reproduction only
    (the last two split one observation so that a known reproduction defect can be classified on its own) *)
Definition c16_pg_core (mode : Z) (name_in : option string) (east north : list D) (vals : list (list (option D)))
    (le ln pe pn : list D) (affine : option (D * D * D * D))
    (region : option (list D)) (spacing : option (list D)) (shape : option (Z * Z))
    (antialias : bool) (method : Z)
    (obs_name : string) (dims_ok : bool) (oe on : list D) (ovals : list (list (option D)))
    (rtol : Q) : verdict :=
  let in_shape := (Z.of_nat (List.length north), Z.of_nat (List.length east)) in
  let table := valid_table east north vals in
  (* 1. the projection was called once on the valid cells, in C order, easting first *)
  let table_ok := list_eqb deq le (map (fun t => fst (fst t)) table) &&
                  list_eqb deq ln (map (fun t => snd (fst t)) table) &&
                  (List.length pe =? List.length table)%nat && (List.length pn =? List.length table)%nat in
  let qpe := Qs pe in let qpn := Qs pn in
  let sc := Qmax 1 (Qmax (maxabs_list qpe) (maxabs_list qpn)) in
  (* 2. an affine projection did what its coefficients say (forward direction) *)
  let affine_ok := match affine with
                   | Some (sx, ox, sy, oy) =>
                       close_list sc (map (fun x => QD sx * QD x + QD ox) le) qpe &&
                       close_list sc (map (fun y => QD sy * QD y + QD oy) ln) qpn
                   | None => true
                   end in
  (* 3. coordinates of the output grid *)
  let reg := option_map Qs region in let spc := option_map Qs spacing in
  let qoe := Qs oe in let qon := Qs on in
  let scr := Qmax sc (match reg with Some r => maxabs_list r | None => 0 end) in
  let coords_model := coords_close scr (pg_coords qpe qpn in_shape reg shape spc) qoe qon in
  let coords_spec := coords_close scr (pg_coords_spec qpe qpn in_shape reg shape spc) qoe qon in
  let tie := match pg_region_spacing qpe qpn in_shape reg shape spc, spacing with
             | Some (r, s), Some _ => pg_tie r s
             | _, _ => false
             end in
  let tie_ok := match pg_coords qpe qpn in_shape reg shape spc with
                | Some (me, mn) => len_near me oe && len_near mn on
                | None => false
                end in
  (* 4. name, shape *)
  let name_ok := String.eqb obs_name (out_name name_in) in
  let rect := (List.length ovals =? List.length on)%nat && forallb (fun r => (List.length r =? List.length oe)%nat) ovals in
  let shape_ok := rect &&
                  match spacing with
                  | Some _ => true
                  | None => let '(sn, se) := match shape with Some x => x | None => in_shape end in
                            (Z.of_nat (List.length on) =? sn)%Z && (Z.of_nat (List.length oe) =? se)%Z
                  end in
  (* 5. NaN pattern against the hull of the projected valid points *)
  let e := emin_list (all_numbers [pe; pn; oe; on]) in
  let P := lat_pts e pe pn in
  if negb (non_degenerateb P) then Vboth else
  let E := edges P in
  let m := margin30 P in
  let ez := map (lat e) oe in let nz := map (lat e) on in
  let nodes := map (fun y => map (fun x => (x, y)) ez) nz in
  let fin := map (map is_some) ovals in
  let need_inside := finite_inside_required antialias method in
  let mos := map (map (min_orient E)) nodes in
  let nan_holds := nan_pattern_holds need_inside m mos fin in
  let nan_agree := nan_pattern_agree need_inside m mos fin in
  (* 6. reproduction of the original values (affine, no antialias) *)
  let vq := map (fun t => QD (snd t)) table in
  let vtol := rtol * Qmax 1 (maxabs_list vq) in
  let zabs := Z.max (Z.max (Z.abs (Zmax_list (map fst P))) (Z.abs (Zmin_list (map fst P))))
                    (Z.max (Z.abs (Zmax_list (map snd P))) (Z.abs (Zmin_list (map snd P)))) in
  let ctol := ((Z.max (Zmax_list (map fst P) - Zmin_list (map fst P))
                      (Zmax_list (map snd P) - Zmin_list (map snd P))) / 2 ^ 30 + zabs / 2 ^ 44)%Z in
  let repro := match affine with
               | Some _ => if antialias || (mode =? 1)%Z then true
                           else repro_holds ctol vtol m (combine P vq) (map (fun r => combine (fst r) (snd r)) (combine nodes mos)) (map (map OQ) ovals)
               | None => true
               end in
  let agree := table_ok && affine_ok && coords_model && name_ok && dims_ok && rect && nan_agree in
  let holds := name_ok && shape_ok && coords_spec && nan_holds && repro in
  (* a requested spacing within 2^-30 of a rounding tie (exact ties included, see [pg_line_tie]): the float
     quotient may round either way; name, rectangularity and node counts within one of the model's are kept *)
  if (mode =? 2)%Z then mk_verdict (table_ok && affine_ok) repro else
  if tie then (if name_ok && rect && tie_ok then Vskip else Vboth) else mk_verdict agree holds.

Definition c16_pg := c16_pg_core 0.
Definition c16_pg_norepro := c16_pg_core 1.
Definition c16_pg_repro := c16_pg_core 2.

(** ** finite strictly inside the hull, on its own (used for antialias=True with
    linear / cubic, where the blocked mean shrinks the interpolator's own hull) *)
Definition c16_pg_inside (pe pn oe on : list D) (ovals : list (list (option D))) : verdict :=
  let e := emin_list (all_numbers [pe; pn; oe; on]) in
  let P := lat_pts e pe pn in
  if negb (non_degenerateb P) then Vboth else
  let E := edges P in
  let m := margin30 P in
  let nodes := map (fun y => map (fun x => (x, y)) (map (lat e) oe)) (map (lat e) on) in
  let fin := map (map is_some) ovals in
  let mos := map (map (min_orient E)) nodes in
  mk_verdict (nan_pattern_agree true m mos fin) (nan_pattern_holds true m mos fin).

(** ** antialias: every finite output lies within the range of the valid input values *)
Definition range_holds (tol : Q) (vin : list Q) (out : list (option Q)) : bool :=
  match vin with
  | [] => false
  | _ => let lo := Qmin_list 0 vin in let hi := Qmax_list 0 vin in
         let t := tol * Qmax 1 (Qmax (Qabs lo) (Qabs hi)) in
         forallb (fun o => match o with Some x => Qleb (lo - t) x && Qleb x (hi + t) | None => true end) out
  end.

Definition c16_pg_range (vals ovals : list (list (option D))) : verdict :=
  let vin := flat_map (fun r => flat_map (fun o => match o with Some d => [QD d] | None => [] end) r) vals in
  let ok := range_holds tol30 vin (map OQ (List.concat ovals)) in
  mk_verdict ok ok.
