(** Model of verde.coordinates.block_split (with verde.utils.kdtree).

    Block centres are the raveled (C order) pixel-registered grid of the region
    (given, or the bounding region of the points); the nearest-centre k-d tree
    query is modelled by its executable specification: the FIRST arg-min of the
    squared Euclidean distance over the list of centres.  All theorems about
    labels are stated for ANY index that attains the minimum ([is_nearest]), so
    they do not depend on how the tree breaks ties.

    Also here: the closed-form block geometry and the decidable statement of
    C08 evaluated by the generated case files ([block_holds]), and [c08_case]. *)
From Coq Require Import QArith Qround Qabs ZArith List Bool Lia.
From Verde Require Import Lib.Verdict Lib.Dyadic Lib.QExtra Model.Coordinates Model.CoordCases.
Import ListNotations.
Open Scope Q_scope.

(** ** nearest-centre query *)
Definition dist2 (p c : Q * Q) : Q :=
  (fst p - fst c) * (fst p - fst c) + (snd p - snd c) * (snd p - snd c).

(** position and value of the first minimum of a non-empty list *)
Fixpoint argmin (l : list Q) : nat * Q :=
  match l with
  | [] => (O, 0)
  | v :: t =>
      match t with
      | [] => (O, v)
      | _ => let '(i, m) := argmin t in if Qleb v m then (O, v) else (S i, m)
      end
  end.

Definition nearest (cs : list (Q * Q)) (p : Q * Q) : nat := fst (argmin (map (dist2 p) cs)).

(** what a nearest-neighbour query may return: any index attaining the minimum *)
Definition is_nearest (cs : list (Q * Q)) (p : Q * Q) (k : nat) : Prop :=
  (k < length cs)%nat /\
  forall j, (j < length cs)%nat -> dist2 p (nth k cs (0, 0)) <= dist2 p (nth j cs (0, 0)).

(** ** block_split *)
Record blocks := { b_east : list Q; b_north : list Q; b_labels : list nat }.

(** the region the blocks divide: the one given, else get_region(coordinates) *)
Definition effective_region (east north : list Q) (region : option (list Q)) : option (list Q) :=
  match region with
  | Some r => Some r
  | None => match get_region east north with
            | Some (w, e, s, n) => Some [w; e; s; n]
            | None => None
            end
  end.

(** [east], [north]: the raveled (C order) first two coordinate arrays;
    adjust: 0 = "spacing", 1 = "region"; shape = (n_north, n_east);
    spacing = [s] or [s_north; s_east].  [None] = ValueError. *)
Definition block_split (east north : list Q) (spacing : option (list Q)) (adjust : Z)
    (region : option (list Q)) (shape : option (Z * Z)) : option blocks :=
  if negb (length east =? length north)%nat then None else
  match effective_region east north region with
  | None => None
  | Some r =>
      match grid_coordinates r shape spacing adjust true None true with
      | None => None
      | Some g =>
          let ce := map Qred (concat (g_east2 g)) in   (* Qred: same rational, smaller numbers *)
          let cn := map Qred (concat (g_north2 g)) in
          Some {| b_east := ce; b_north := cn;
                  b_labels := map (nearest (combine ce cn)) (combine east north) |}
      end
  end.

(** ** closed-form block geometry *)

(** one direction: (block size, number of blocks) *)
Definition axis_geom (start stop : Q) (size : option Z) (spacing : option Q) (adjust : Z) : option (Q * nat) :=
  match size, spacing with
  | Some n, None => Some ((stop - start) / inject_Z n, Z.to_nat n)
  | None, Some sp =>
      if negb ((adjust =? 0) || (adjust =? 1))%Z then None else
      let k := intervals start stop sp in
      Some (if (adjust =? 0)%Z then (stop - start) / inject_Z k else sp, Z.to_nat k)
  | _, _ => None
  end.

Record geom := { g_w : Q; g_dx : Q; g_nc : nat; g_s : Q; g_dy : Q; g_nr : nat }.

Definition block_geom (region : list Q) (shape : option (Z * Z)) (spacing : option (list Q)) (adjust : Z)
  : option geom :=
  match region with
  | [w; e; s; n] =>
      if negb (Qleb w e && Qleb s n) then None else
      let axes :=
        match shape, spacing with
        | Some (sn, se), None => Some (axis_geom w e (Some se) None adjust, axis_geom s n (Some sn) None adjust)
        | None, Some [sp] => Some (axis_geom w e None (Some sp) adjust, axis_geom s n None (Some sp) adjust)
        | None, Some [spn; spe] => Some (axis_geom w e None (Some spe) adjust, axis_geom s n None (Some spn) adjust)
        | _, _ => None
        end in
      match axes with
      | Some (Some (dx, nc), Some (dy, nr)) =>
          Some {| g_w := w; g_dx := dx; g_nc := nc; g_s := s; g_dy := dy; g_nr := nr |}
      | _ => None
      end
  | _ => None
  end.

(** centre of block number k (row-major from the south-west corner) *)
Definition centre1 (w h : Q) (i : nat) : Q := w + (inject_Z (Z.of_nat i) + (1 # 2)) * h.
Definition centre_e (G : geom) (k : nat) : Q := centre1 (g_w G) (g_dx G) (k mod g_nc G).
Definition centre_n (G : geom) (k : nat) : Q := centre1 (g_s G) (g_dy G) (k / g_nc G).

(** index of the block containing x along one direction, clamped to the border blocks *)
Definition clampZ (z lo hi : Z) : Z := Z.max lo (Z.min hi z).
Definition cell_of (w h : Q) (n : nat) (x : Q) : nat :=
  Z.to_nat (clampZ (Qfloor ((x - w) / h)) 0 (Z.of_nat n - 1)).

(** block [c] (closed, widened by the round-off allowance [t]; the two border
    blocks extend outwards without limit) contains [x] *)
Definition cell_ok (w h : Q) (n : nat) (t : Q) (x : Q) (c : nat) : bool :=
  (c <? n)%nat &&
  (Qeqb h 0 ||
   ((c =? 0)%nat || Qleb (w + inject_Z (Z.of_nat c) * h - t) x) &&
   ((S c =? n)%nat || Qleb x (w + inject_Z (Z.of_nat (S c)) * h + t))).

Definition label_ok (G : geom) (t : Q) (p : Q * Q) (l : nat) : bool :=
  (l <? g_nr G * g_nc G)%nat &&
  cell_ok (g_w G) (g_dx G) (g_nc G) t (fst p) (l mod g_nc G) &&
  cell_ok (g_s G) (g_dy G) (g_nr G) t (snd p) (l / g_nc G).

(** within [t] of an edge shared by two blocks *)
Definition near_edge1 (w h : Q) (n : nat) (t : Q) (x : Q) : bool :=
  Qeqb h 0 ||
  (let j := rhe ((x - w) / h) in
   (1 <=? j)%Z && (j <=? Z.of_nat n - 1)%Z && Qleb (Qabs (x - (w + inject_Z j * h))) t).
Definition near_edge (G : geom) (t : Q) (p : Q * Q) : bool :=
  near_edge1 (g_w G) (g_dx G) (g_nc G) t (fst p) || near_edge1 (g_s G) (g_dy G) (g_nr G) t (snd p).

(** ** the decidable statement of C08 on an observed output *)
Definition centres_ok (sc : Q) (G : geom) (ce cn : list Q) : bool :=
  let ks := seq 0 (g_nr G * g_nc G) in
  close_list sc (map (centre_e G) ks) ce && close_list sc (map (centre_n G) ks) cn.

Definition block_holds (sc t : Q) (G : geom) (pts : list (Q * Q)) (ce cn : list Q) (labels : list nat) : bool :=
  centres_ok sc G ce cn && all2 (label_ok G t) pts labels.

Definition pts_scale (region east north : list Q) : Q :=
  Qmax 1 (Qmax (maxabs_list region) (Qmax (maxabs_list east) (maxabs_list north))).

Definition labels_nat (l : list Z) : option (list nat) :=
  if forallb (fun z => (0 <=? z)%Z) l then Some (map Z.to_nat l) else None.

Definition edge30 : Q := 1 # (2 ^ 30).

(** [obs] = (centre eastings, centre northings, labels); [shape_ok]: the harness saw two
    1-D float arrays and a 1-D integer array with one label per point *)
Definition c08_case (east north : list D) (spacing : option (list D)) (adjust : Z)
    (region : option (list D)) (shape : option (Z * Z))
    (obs : option (list D * list D * list Z)) (shape_ok : bool) : verdict :=
  let E := Qs east in let N := Qs north in
  let sp := option_map Qs spacing in
  let reg := option_map Qs region in
  let model := block_split E N sp adjust reg shape in
  let geo := match effective_region E N reg with
             | Some r => if (length E =? length N)%nat then block_geom r shape sp adjust else None
             | None => None
             end in
  match obs with
  | None => mk_verdict (match model with None => true | Some _ => false end)
                       (match geo with None => true | Some _ => false end)
  | Some (oe, on, ol) =>
      match effective_region E N reg, geo, labels_nat ol with
      | Some r, Some G, Some labels =>
          if grid_tie r sp then Vskip else
          let sc := pts_scale r E N in
          let t := edge30 * sc in
          let pts := combine E N in
          let ce := Qs oe in let cn := Qs on in
          let holds := shape_ok && block_holds sc t G pts ce cn labels in
          let agree :=
            match model with
            | Some b =>
                close_list sc (b_east b) ce && close_list sc (b_north b) cn &&
                all2 (fun pl o => near_edge G t (fst pl) || (snd pl =? o)%nat)
                     (combine pts (b_labels b)) labels
            | None => false
            end in
          mk_verdict_tie (match pts with [] => false | _ => forallb (near_edge G t) pts end) agree holds
      | _, _, None => Vboth              (* a negative label *)
      | _, _, _ => mk_verdict false true (* the code accepted what the model rejects *)
      end
  end.
