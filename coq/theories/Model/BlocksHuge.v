(** C08 on block grids too large for the brute-force nearest-centre model (tens of
    thousands of blocks): the decidable statement [label_ok] restated over Z
    ([label_okZ], proved equal in Proofs/BlocksHugeProofs.v) and the label computed from
    the closed-form geometry ([geom_labelZ]: by [nearest_block] this is the label of the
    arg-min model for every point that is not on a shared edge).  Centres are compared on a
    sample of block numbers only; the harness checks every label's range itself. *)
From Coq Require Import QArith Qround Qabs ZArith List Bool Lia.
From Verde Require Import Lib.Verdict Lib.Dyadic Lib.QExtra Model.Coordinates Model.CoordCases Model.Blocks.
Import ListNotations.
Open Scope Q_scope.

Definition cell_okZ (w h : Q) (n : Z) (t x : Q) (c : Z) : bool :=
  ((0 <=? c)%Z && (c <? n)%Z) &&
  (Qeqb h 0 ||
   ((c =? 0)%Z || Qleb (w + inject_Z c * h - t) x) &&
   ((c + 1 =? n)%Z || Qleb x (w + inject_Z (c + 1) * h + t))).

Definition label_okZ (G : geom) (t : Q) (p : Q * Q) (l : Z) : bool :=
  let nc := Z.of_nat (g_nc G) in let nr := Z.of_nat (g_nr G) in
  ((0 <=? l)%Z && (l <? nr * nc)%Z) &&
  cell_okZ (g_w G) (g_dx G) nc t (fst p) (l mod nc) &&
  cell_okZ (g_s G) (g_dy G) nr t (snd p) (l / nc).

Definition cellZ (w h : Q) (n : Z) (x : Q) : Z := clampZ (Qfloor ((x - w) / h)) 0 (n - 1).
Definition geom_labelZ (G : geom) (p : Q * Q) : Z :=
  cellZ (g_s G) (g_dy G) (Z.of_nat (g_nr G)) (snd p) * Z.of_nat (g_nc G) +
  cellZ (g_w G) (g_dx G) (Z.of_nat (g_nc G)) (fst p).

Definition centre_okZ (sc : Q) (G : geom) (kc : Z * D * D) : bool :=
  let '(k, ce, cn) := kc in
  let nc := Z.of_nat (g_nc G) in
  close_by sc (g_w G + (inject_Z (k mod nc) + (1 # 2)) * g_dx G) (QD ce) &&
  close_by sc (g_s G + (inject_Z (k / nc) + (1 # 2)) * g_dy G) (QD cn).

(** [ncentres]: number of centres returned; [sample]: (block number, its centre) for some
    blocks; [labels]: one per point; [py_ok]: the harness saw 1-D outputs of the right
    lengths and dtypes, every label within [0, ncentres), identical results on a second call *)
Definition c08_huge (east north : list D) (spacing : option (list D)) (adjust : Z)
    (region : list D) (shape : option (Z * Z))
    (ncentres : Z) (sample : list (Z * D * D)) (labels : list Z) (py_ok : bool) : verdict :=
  let E := Qs east in let N := Qs north in
  let sp := option_map Qs spacing in
  let r := Qs region in
  match block_geom r shape sp adjust with
  | None => Vboth
  | Some G =>
      if grid_tie r sp then Vskip else
      let sc := pts_scale r E N in
      let t := edge30 * sc in
      let pts := combine E N in
      let shape_ok := (ncentres =? Z.of_nat (g_nr G) * Z.of_nat (g_nc G))%Z &&
                      (length E =? length N)%nat && (length labels =? length E)%nat in
      let centres := forallb (fun kc => let '(k, _, _) := kc in (0 <=? k)%Z && (k <? ncentres)%Z) sample &&
                     forallb (centre_okZ sc G) sample in
      let holds := py_ok && shape_ok && centres && all2 (label_okZ G t) pts labels in
      let agree := shape_ok && centres &&
                   all2 (fun p l => near_edge G t p || (geom_labelZ G p =? l)%Z) pts labels in
      mk_verdict agree holds
  end.
