(** Case functions for C02 (and the least-squares part of C01): the decidable
    statement [approx_normal_eq] of Model/LeastSquares.v evaluated exactly,
    division-free, on the dyadic values of the implementation's Jacobian,
    data, weights and fitted parameters.  Proofs/LSCertProofs.v shows that a
    [true] result implies the rational statement. *)
From Coq Require Import QArith ZArith List Bool Lia.
From Verde Require Import Lib.Verdict Lib.Dyadic Lib.QExtra Lib.LinAlgQ Lib.LinAlgD Model.LeastSquares Model.Interpolators.
Import ListNotations.
Open Scope Z_scope.

Definition dlen {T} (l : list T) : D := dZ (Z.of_nat (length l)).

(** N^2 * scale2_j computed without division:
    N * sum_i a_ij^2 - (sum_i a_ij)^2, or N^2 when that is 0 (constant column) *)
Definition dnvar (n : nat) (A : list (list D)) : list D :=
  let N := dlen A in
  let one := dones (length A) in
  let s1 := dtmv n A one in
  let s2 := dtmv n (map (fun r => dvmul r r) A) one in
  map (fun v => if deq v d0 then dmul N N else v) (dvsub (dvscale N s2) (dvmul s1 s1)).

(** N^2 * normal_residual and N^2 * residual_bound *)
Definition dresidual (n : nat) (A : list (list D)) (d w p : list D) (alpha : D) : list D :=
  let N2 := dmul (dlen A) (dlen A) in
  dvadd (dvscale N2 (dtmv n A (dvmul w (dvsub (dmv A p) d))))
        (dvscale alpha (dvmul (dnvar n A) p)).
Definition dbound (n : nat) (A : list (list D)) (d w p : list D) (alpha : D) : list D :=
  let N2 := dmul (dlen A) (dlen A) in
  let Aa := map dvabs A in
  dvadd (dvscale N2 (dtmv n Aa (dvmul w (dvadd (dmv Aa (dvabs p)) (dvabs d)))))
        (dvscale alpha (dvmul (dnvar n A) (dvabs p))).

Definition shapes_ok (n : nat) (A : list (list D)) (d w p : list D) : bool :=
  forallb (fun r => Nat.eqb (length r) n) A && Nat.eqb (length d) (length A) &&
  Nat.eqb (length w) (length A) && Nat.eqb (length p) n && negb (Nat.eqb (length A) 0).

(** |residual_j| <= 2^tolexp * bound_j for every parameter j *)
Definition ls_cert (tolexp : Z) (n : nat) (A : list (list D)) (d w p : list D) (alpha : D) : bool :=
  shapes_ok n A d w p &&
  all2 (fun g b => dle (dabs g) (dmul (dpow2 tolexp) b)) (dresidual n A d w p alpha) (dbound n A d w p alpha).

(** the implementation's predictions at the data points are A p (the model's
    predictions) within 2^-40 of the largest |A| |p| *)
Definition pred_agree (A : list (list D)) (p pred : list D) : bool :=
  let sc := dmaxabs (dmv (map dvabs A) (dvabs p)) in
  all2 (fun x y => dle (dabs (dsub x y)) (dmul (dpow2 (-40)) sc)) (dmv A p) pred.

Definition nonneg_all (l : list D) : bool := forallb (fun x => dle d0 x) l.

(** one fitted estimator: [agree] = predictions are those of the linear model
    with the fitted parameters on the implementation's own Jacobian;
    [holds] = the parameters are a numerical minimiser of Phi AND the
    predictions are those of that minimiser (the property speaks of both) *)
Definition c02_fit (n : nat) (A : list (list D)) (d w p : list D) (alpha : D) (pred : option (list D)) : verdict :=
  let pa := match pred with None => true | Some pr => pred_agree A p pr end in
  mk_verdict pa (pa && nonneg_all w && dle d0 alpha && ls_cert (-30) n A d w p alpha).

(** metamorphic cases: parameters fitted on a TRANSFORMED problem (weights
    times a constant; one weight -> 1e-12) must be a numerical minimiser of
    the ORIGINAL problem / of the problem without the datum *)
Definition c02_meta (n : nat) (A : list (list D)) (d w p : list D) : verdict :=
  let ok := nonneg_all w && ls_cert (-30) n A d w p d0 in mk_verdict ok ok.

(** ** C01 *)
Definition dclose (tol a b : D) : bool := dle (dabs (dsub a b)) tol.

(** exactness: |pred_i - truth_i| <= C * 2^-52 * kappa * max(scale, max|truth|) *)
Definition exact_within (C kappa scale : D) (truth pred : list D) : bool :=
  let tol := dmul (dmul C (dpow2 (-52))) (dmul kappa (dmax scale (dmaxabs truth))) in
  all2 (dclose tol) truth pred.
Definition c01_exact (C kappa scale : D) (truth pred : list D) : verdict :=
  let ok := exact_within C kappa scale truth pred in mk_verdict ok ok.

(** least-squares interpolators (Spline, VectorSpline2D with forces at the
    data; Trend fitted to polynomial values): [agree] = the fitted parameters
    satisfy the model's normal equations (unit weights, undamped) on the
    implementation's Jacobian - from which the theorems derive exactness;
    [holds] = the observed predictions reproduce the truth *)
Definition c01_ls_exact (n : nat) (A : list (list D)) (d p : list D) (C kappa scale : D) (truth pred : list D) : verdict :=
  mk_verdict (ls_cert (-30) n A d (dones (length A)) p d0) (exact_within C kappa scale truth pred).

(** pass-through interpolators (nearest neighbour, Linear, Cubic at their own
    nodes): equality within 2^-40 of max|data| *)
Definition c01_passthrough (data pred : list D) : verdict :=
  let tol := dmul (dpow2 (-40)) (dmaxabs data) in
  let ok := all2 (dclose tol) data pred in mk_verdict ok ok.

(** KNeighbors(k=1): the model's brute-force nearest neighbour predicts exactly
    the observed value (agree) and the observed value is the datum (holds) *)
Definition pts_of (e nn : list D) : list (Q * Q) := combine (map QD e) (map QD nn).
Definition c01_knn (e nn data pred : list D) : verdict :=
  let pts := pts_of e nn in
  let dq := map QD data in
  let model := map (knn1_predict pts dq) pts in
  mk_verdict
    (all2 (fun m o => match m with Some x => Qeqb x (QD o) | None => false end) model pred)
    (all2 (fun a b => deq a b) data pred).
