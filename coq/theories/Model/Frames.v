(** C20 (b): attribute-frame IR of estimator classes, its semantics and the
    frame analysis.

    harness/translate_frames.py regenerates, from verde's source on every
    run, one [cls] value per estimator class: the constructor as a list of
    [init_item]s and the methods as [cmd]s recording, in program order, every
    access to an attribute of [self].  Everything else a method does (numpy,
    scipy, local variables) is abstracted by an ORACLE: the value stored by a
    write, the direction of a branch and the number of loop iterations are
    arbitrary functions of the call's arguments and of the attribute values
    read so far in that call.  So a method can depend on the estimator's
    previous state only through the attribute reads that appear in the IR. *)
From Coq Require Import List Bool Arith String.
Import ListNotations.
Open Scope string_scope.
Open Scope list_scope.

Definition attr := string.
Definition V := nat.          (* abstract values; 0 is python's None *)

Definition mem (a : attr) (l : list attr) : bool := existsb (String.eqb a) l.
Definition subset (l1 l2 : list attr) : bool := forallb (fun a => mem a l2) l1.
Definition inter (l1 l2 : list attr) : list attr := filter (fun a => mem a l2) l1.

Inductive cmd :=
| Skip
| Seq (c1 c2 : cmd)
| Rd (a : attr)            (* self.a is read; AttributeError when missing *)
| Has (a : attr)           (* hasattr(self, "a") / getattr(self, "a", default) *)
| Wr (a : attr)            (* self.a = <computed> *)
| Dflt (a : attr)          (* if self.a is None: self.a = <computed> *)
| Ite (c1 c2 : cmd)
| Loop (c : cmd)
| Guard (g : list attr).   (* check_is_fitted(self, g) *)

Fixpoint seq (l : list cmd) : cmd :=
  match l with [] => Skip | [c] => c | c :: t => Seq c (seq t) end.

(** ------------------------------------------------------------------ *)
(** semantics *)
Definition state := attr -> option V.
Definition upd (s : state) (a : attr) (v : option V) : state :=
  fun b => if String.eqb b a then v else s b.

Record oracle := {
  val : attr -> nat -> list V -> V;      (* value written at decision point k after observing the log *)
  branch : nat -> list V -> bool;
  count : nat -> list V -> nat }.

Definition cfg := (state * list V * nat)%type.   (* attributes, log of observations (arguments first), decision counter *)

Fixpoint iter {A} (n : nat) (f : A -> option A) (x : A) : option A :=
  match n with
  | 0 => Some x
  | S m => match f x with Some y => iter m f y | None => None end
  end.

Definition defined (s : state) (a : attr) : bool := match s a with Some _ => true | None => false end.

Fixpoint exec (o : oracle) (c : cmd) (x : cfg) : option cfg :=
  let '(s, l, k) := x in
  match c with
  | Skip => Some x
  | Seq c1 c2 => match exec o c1 x with Some y => exec o c2 y | None => None end
  | Rd a => match s a with Some v => Some (s, v :: l, k) | None => None end
  | Has a => Some (s, (match s a with Some v => S v | None => 0 end) :: l, k)
  | Wr a => Some (upd s a (Some (val o a k l)), l, S k)
  | Dflt a => match s a with
              | Some 0 => Some (upd s a (Some (val o a k l)), l, S k)
              | Some _ => Some (s, l, S k)
              | None => None
              end
  | Ite c1 c2 => if branch o k l then exec o c1 (s, l, S k) else exec o c2 (s, l, S k)
  | Loop c1 => iter (count o k l) (exec o c1) (s, l, S k)
  | Guard g => if forallb (defined s) g then Some x else None
  end.

(** one method call: the log starts with the call's arguments *)
Definition call (o : oracle) (c : cmd) (s : state) (arg : V) : option cfg := exec o c (s, [arg], 0).
Definition call_state (o : oracle) (c : cmd) (s : state) (arg : V) : option state :=
  match call o c s arg with Some (s', _, _) => Some s' | None => None end.
(** what a method returns: a function of everything it observed *)
Definition call_result (o : oracle) (c : cmd) (s : state) (arg : V) : option V :=
  match call o c s arg with Some (_, l, k) => Some (val o "return" k l) | None => None end.

(** ------------------------------------------------------------------ *)
(** the analysis.  [P]: constructor-set attributes; [wo]: parameters the
    class documents as filled in by the first fit (VectorSpline2D.force_coords).
    [chk c D = Some (D', M)]: every attribute read by [c] is in [D] (definitely
    set: a parameter or written earlier in this call on every path); [D'] the
    definitely-set attributes afterwards; [M] the attributes possibly written *)
Section Chk.
  Variable P wo : list attr.

  Fixpoint chk (c : cmd) (D : list attr) : option (list attr * list attr) :=
    match c with
    | Skip => Some (D, [])
    | Seq c1 c2 =>
        match chk c1 D with
        | Some (D1, M1) => match chk c2 D1 with
                           | Some (D2, M2) => Some (D2, M1 ++ M2)
                           | None => None end
        | None => None
        end
    | Rd a => if mem a D then Some (D, []) else None
    | Has a => if mem a D then Some (D, []) else None
    | Wr a => if mem a P then None else Some (a :: D, [a])
    | Dflt a => if mem a wo && mem a P && mem a D then Some (D, []) else None
    | Ite c1 c2 =>
        match chk c1 D, chk c2 D with
        | Some (D1, M1), Some (D2, M2) => Some (inter D1 D2, M1 ++ M2)
        | _, _ => None
        end
    | Loop c1 => match chk c1 D with Some (_, M1) => Some (D, M1) | None => None end
    | Guard g => if subset g D then Some (D, []) else None
    end.
End Chk.

(** constructor *)
Inductive init_item :=
| IStore (a : attr)      (* self.a = a *)
| IDefault (a : attr)    (* if a is None: self.a = <constant, not None> else: self.a = a *)
| IConst (a : attr)      (* self.a = <constant> for an attribute that is not a constructor argument *)
| IBad (a : attr).       (* anything else: self.a = <computed> *)

Definition item_attr (i : init_item) : attr :=
  match i with IStore a | IDefault a | IConst a | IBad a => a end.

Record cls := {
  params : list attr;            (* constructor arguments = sklearn parameters *)
  memo : list attr;              (* documented write-once parameters *)
  init : list init_item;
  fit : option cmd;
  predict : option cmd;          (* must start with a Guard on fitted attributes *)
  readers : list cmd }.          (* other public methods (filter of BlockReduce, split, properties ...): read-only *)

Fixpoint nodupb (l : list attr) : bool :=
  match l with [] => true | a :: t => negb (mem a t) && nodupb t end.

Definition init_ok (C : cls) : bool :=
  nodupb (map item_attr (init C)) &&
  forallb (fun i => match i with
                    | IStore a | IDefault a => mem a (params C)
                    | IConst a => negb (mem a (params C))
                    | IBad _ => false
                    end) (init C) &&
  subset (params C) (map item_attr (init C)).

(** all attributes set by the constructor *)
Definition ctor_attrs (C : cls) : list attr := map item_attr (init C).

Definition fit_sets (C : cls) : option (list attr * list attr) :=
  match fit C with
  | Some c => chk (ctor_attrs C) (memo C) c (ctor_attrs C)
  | None => Some (ctor_attrs C, [])
  end.

Definition fit_ok (C : cls) : bool :=
  match fit_sets C with
  | Some (D, M) => subset M D && subset (memo C) (params C)
  | None => false
  end.

(** read-only method over constructor attributes and definitely-fitted ones *)
Definition reader_ok (C : cls) (c : cmd) : bool :=
  match fit_sets C with
  | Some (D, _) => match chk (ctor_attrs C) [] c D with
                   | Some (_, []) => true
                   | _ => false end
  | None => false
  end.

Definition guard_ok (C : cls) (M g : list attr) : bool :=
  match g with [] => false | _ => true end &&
  forallb (fun a => mem a M && negb (mem a (ctor_attrs C))) g.

(** a class with a fit: predict starts with check_is_fitted on attributes
    that only fit sets, then is read-only.  A class without fit (CheckerBoard):
    predict is a read-only function of the parameters *)
Definition predict_ok (C : cls) : bool :=
  match predict C with
  | None => true
  | Some p =>
      match fit C, fit_sets C with
      | None, _ => reader_ok C p
      | Some _, Some (D, M) =>
          match p with
          | Seq (Guard g) body => guard_ok C M g && reader_ok C body
          | Guard g => guard_ok C M g
          | _ => false
          end
      | _, _ => false
      end
  end.

Definition analyse (C : cls) : bool :=
  init_ok C && fit_ok C && predict_ok C && forallb (reader_ok C) (readers C).

(** ------------------------------------------------------------------ *)
(** constructor semantics: [args a] is the value passed for argument [a];
    [konst a] the constant of an IConst / IDefault item *)
Section Init.
  Variable konst : attr -> V.
  Variable compute : attr -> (attr -> V) -> V.

  Definition init_step (args : attr -> V) (s : state) (i : init_item) : state :=
    match i with
    | IStore a => upd s a (Some (args a))
    | IDefault a => upd s a (Some (match args a with 0 => konst a | v => v end))
    | IConst a => upd s a (Some (konst a))
    | IBad a => upd s a (Some (compute a args))
    end.

  Definition empty : state := fun _ => None.
  Definition init_state (items : list init_item) (args : attr -> V) : state :=
    fold_left (init_step args) items empty.

  (** sklearn's get_params: read the attribute named like each argument *)
  Definition get_params (s : state) : attr -> V := fun a => match s a with Some v => v | None => 0 end.
End Init.
