(** Model of verde.Chain, verde.Vector and BaseGridder.filter (C06).

    Arguments threaded through a chain are triples (coordinates, data,
    weights).  Coordinates are an abstract type [C]; data and weights are
    tuples of components, each a raveled list of rationals.  A step is either
    a gridder (anything with fit/predict: Trend, Spline, KNeighbors, nested
    Chain, Vector ...), modelled by a function from the arguments it is fitted
    on to its predictor, or a reduction (BlockReduce/BlockMean: filter only,
    no predict), modelled by a function on argument triples. *)
From Coq Require Import QArith List Bool.
From Verde Require Import Lib.QExtra.
Import ListNotations.
Open Scope Q_scope.

Definition comps := list (list Q).           (* tuple of components *)

Section Chain.
Variable C : Type.

Record args := { a_coords : C; a_data : comps; a_weights : option comps }.

(** a fitted gridder predicts a tuple of components at query coordinates *)
Definition predictor := C -> comps.

Inductive step :=
| Gridder (fit : args -> predictor)
| Reduction (filt : args -> args).

(** component-wise, point-wise operations on tuples *)
Definition vsub (a b : comps) : comps := map (fun p => map (fun q => fst q - snd q) (combine (fst p) (snd p))) (combine a b).
Definition vadd (a b : comps) : comps := map (fun p => map (fun q => fst q + snd q) (combine (fst p) (snd p))) (combine a b).

(** BaseGridder.filter: fit, then (coordinates, data - predict(coordinates), weights) *)
Definition base_filter (fit : args -> predictor) (a : args) : args :=
  {| a_coords := a_coords a;
     a_data := vsub (a_data a) (fit a (a_coords a));
     a_weights := a_weights a |}.

Definition sfilter (s : step) (a : args) : args :=
  match s with
  | Gridder fit => base_filter fit a
  | Reduction f => f a
  end.

(** Chain.fit: args = step.filter( *args ) for each step in order.
    [chain_inputs] lists the arguments every step was fitted on. *)
Fixpoint chain_inputs (steps : list step) (a : args) : list args :=
  match steps with
  | [] => []
  | s :: t => a :: chain_inputs t (sfilter s a)
  end.

Fixpoint chain_final (steps : list step) (a : args) : args :=
  match steps with
  | [] => a
  | s :: t => chain_final t (sfilter s a)
  end.

(** Chain.predict: the sum of the predictions of the steps that can predict;
    [None] when no step predicts (the code raises) *)
Definition acc_add (acc : option comps) (p : comps) : option comps :=
  match acc with
  | None => Some (vadd (map (map (fun _ => 0)) p) p)   (* result = [0, ...]; result[i] += pred *)
  | Some r => Some (vadd r p)
  end.

Fixpoint chain_predict_from (acc : option comps) (steps : list step) (a : args) (q : C) : option comps :=
  match steps with
  | [] => acc
  | Gridder fit :: t => chain_predict_from (acc_add acc (fit a q)) t (base_filter fit a) q
  | Reduction f :: t => chain_predict_from acc t (f a) q
  end.

Definition chain_predict (steps : list step) (a : args) (q : C) : option comps :=
  chain_predict_from None steps a q.

(** a Chain is itself a gridder *)
Definition chain_as_gridder (steps : list step) : args -> predictor :=
  fun a q => match chain_predict steps a q with Some r => r | None => [] end.

(** Vector: component i is fitted on data[i] with weights[i] only *)
Definition nth_weight (w : option comps) (i : nat) : option comps :=
  match w with None => None | Some ws => Some [nth i ws []] end.

Definition vector_fit (components : list (args -> predictor)) (a : args) : list predictor :=
  map (fun p => (snd p) {| a_coords := a_coords a;
                           a_data := [nth (fst p) (a_data a) []];
                           a_weights := nth_weight (a_weights a) (fst p) |})
      (combine (seq 0 (length components)) components).

(** each component predicts a 1-tuple; the Vector prediction is the tuple of them *)
Definition vector_predict (components : list (args -> predictor)) (a : args) (q : C) : comps :=
  map (fun f => hd [] (f q)) (vector_fit components a).

End Chain.

Arguments a_coords {C}. Arguments a_data {C}. Arguments a_weights {C}.
Arguments Gridder {C}. Arguments Reduction {C}.
Arguments base_filter {C}. Arguments sfilter {C}. Arguments chain_inputs {C}. Arguments chain_final {C}.
Arguments chain_predict {C}. Arguments chain_predict_from {C}. Arguments chain_as_gridder {C}.
Arguments vector_fit {C}. Arguments vector_predict {C}.
