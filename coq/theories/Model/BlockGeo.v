(** Block geometry for the BlockReduce / BlockMean correspondence (C09, C10).

    The BlockReduce / BlockMean models take the block labels and the block
    centres as inputs (observed by the harness from verde.block_split on the
    very arguments the filter uses).  Here those observations are themselves
    checked against the documented block grid, computed from region /
    spacing / shape / adjust by the coordinate models of C07 / C08
    ([Blocks.block_geom]: number of blocks per direction with Python's
    round-half-to-even, block size adjusted or region adjusted, centres at
    the pixel-registered nodes): the number of blocks and every centre
    coordinate must be the documented ones and every point must carry the
    label of a block that contains it (points within 2^-30 x scale of a
    shared edge may carry either neighbour; points outside the region belong
    to the nearest border block).  A failed geometry check makes [holds]
    false: the blocks the values were reduced over (and the centres returned
    with center_coordinates) are then not the blocks the arguments define. *)
From Coq Require Import ZArith QArith List Bool.
From Verde Require Import Lib.Verdict Lib.Dyadic Lib.QList Lib.QExtra.
From Verde Require Import Model.Coordinates Model.CoordCases Model.Blocks Model.BlockReduce Model.Weights.
Import ListNotations.

(** (spacing = [s] or [s_north; s_east], adjust 0 = "spacing" / 1 = "region",
    region or None = inferred from the points, shape = (n_north, n_east)) *)
Definition geo_args := (option (list D) * Z * option (list D) * option (Z * Z))%type.

Definition geometry_holds (geo : option geo_args) (coords : list (list D)) (centres : list D * list D)
    (labels : list Z) : bool :=
  match geo with
  | None => true
  | Some (sp, adj, reg, shape) =>
      match coords with
      | e :: n :: _ =>
          let E := Qs e in
          let N := Qs n in
          let spq := option_map Qs sp in
          match effective_region E N (option_map Qs reg) with
          | Some r =>
              if grid_tie r spq then true   (* extent/spacing within 2^-30 of a rounding tie without being one *)
              else
                match block_geom r shape spq adj, labels_nat labels with
                | Some G, Some ls =>
                    let sc := pts_scale r E N in
                    block_holds sc (edge30 * sc) G (combine E N) (Qs (fst centres)) (Qs (snd centres)) ls
                | _, _ => false
                end
          | None => false
          end
      | _ => false
      end
  end.

(** a verdict whose [holds] additionally requires [g] *)
Definition and_holds (g : bool) (v : verdict) : verdict :=
  if g then v else
  match v with
  | Vok | Vskip => Vviol
  | Vdis => Vboth
  | _ => v
  end.

Definition c09_case_geo (geo : option geo_args) (epsd epsc : Q) (r : redop) (labels : list Z)
    (coords data : list (list D)) (weights : option (list (list D))) (centres : list D * list D)
    (center drop params_ok : bool) (obs : option (list (list D) * list (list D))) : verdict :=
  let v := c09_case epsd epsc r labels coords data weights centres center drop params_ok obs in
  match obs with
  | Some _ => and_holds (geometry_holds geo coords centres labels) v
  | None => v
  end.

Definition c10_case_geo (geo : option geo_args) (epsd epsc : Q) (ddof : nat) (tol : D) (labels : list Z)
    (coords data : list (list D)) (weights : option (list (list D))) (centres : list D * list D)
    (center drop uncertainty unchanged : bool)
    (obs : option (list (list D) * list (list D) * list (list D))) : verdict :=
  let v := c10_case epsd epsc ddof tol labels coords data weights centres center drop uncertainty unchanged obs in
  match obs with
  | Some _ => and_holds (geometry_holds geo coords centres labels) v
  | None => v
  end.

(** a call with very many points (more than one k-d tree query batch): the
    model sees a fixed subsample of the positions (first, last, every 997th,
    a run around every multiple of 100000) with the labels observed there and
    checks them against the documented grid (the region is given explicitly);
    [oracle_ok] is the harness' floating-point oracle over ALL points (block
    populations, number of returned entries, reduced values) - numpy, not Coq *)
Definition c09_large_case (geo : option geo_args) (coords_sub : list (list D)) (centres : list D * list D)
    (labels_sub : list Z) (oracle_ok : bool) : verdict :=
  mk_verdict true (oracle_ok && geometry_holds geo coords_sub centres labels_sub).
