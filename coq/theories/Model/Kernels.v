(** C03 - the Green's functions ("kernels") of verde.Spline, verde.VectorSpline2D
    and verde.CheckerBoard as the code computes them, over the real numbers.

    verde/spline.py greens_func_numpy:

        distance = sqrt(east**2 + north**2);  distance += mindist
        small = distance < 1
        result[small] = distance * (log(distance ** distance) - distance)
        result[big]   = distance ** 2 * (log(distance) - 1)

    verde/vector.py greens_func_2d:

        distance = sqrt(east**2 + north**2);  distance += mindist
        ln_r = (3 - poisson) * log(distance)
        east_r = east / distance;  north_r = north / distance       (ratios, bounded by 1)
        green_ee = ln_r + (1 + poisson) * north_r**2
        green_nn = ln_r + (1 + poisson) * east_r**2
        green_ne = -(1 + poisson) * east_r * north_r

    [east], [north] are the coordinate DIFFERENCES (data point minus force).
    Floating-point rounding is not modelled: the correspondence check certifies
    each observed matrix entry against these real expressions with an explicit
    error bound proved by interval arithmetic. *)
From Coq Require Import Reals Lra List.
Import ListNotations.
Open Scope R_scope.

(** numpy's [x ** x] for a non-negative float: [0 ** 0 = 1], else [exp (x ln x)] *)
Definition pow_self (r : R) : R :=
  if Req_EM_T r 0 then 1 else exp (r * ln r).

Definition g_small (r : R) : R := r * (ln (pow_self r) - r).
Definition g_big (r : R) : R := r ^ 2 * (ln r - 1).

(** the two-branch expression of the code *)
Definition g_code (r : R) : R := if Rlt_dec r 1 then g_small r else g_big r.

(** the documented biharmonic Green's function *)
Definition g_doc (r : R) : R := r ^ 2 * (ln r - 1).

(** distance as the code computes it: Euclidean norm plus [mindist] *)
Definition dist (dx dy md : R) : R := sqrt (dx * dx + dy * dy) + md.

Definition spline_kernel (dx dy md : R) : R := g_code (dist dx dy md).

(** entry (i, j) of Spline.jacobian: data point (e, n), force at (fe, fn) *)
Definition spline_entry (e n fe fn md : R) : R := spline_kernel (e - fe) (n - fn) md.

(** ** elastic (coupled) Green's functions *)
Definition el_ln (d nu : R) : R := (3 - nu) * ln d.

Definition g_ee (dx dy md nu : R) : R :=
  el_ln (dist dx dy md) nu + (1 + nu) * (dy / dist dx dy md) ^ 2.
Definition g_nn (dx dy md nu : R) : R :=
  el_ln (dist dx dy md) nu + (1 + nu) * (dx / dist dx dy md) ^ 2.
Definition g_ne (dx dy md nu : R) : R :=
  - (1 + nu) * (dx / dist dx dy md) * (dy / dist dx dy md).

(** entry (i, j) of the (2 np) x (2 nf) matrix VectorSpline2D.jacobian:
    east rows / east columns first

        | J_ee  J_ne |
        | J_ne  J_nn |                                                       *)
Definition vec_entry (pts forces : list (R * R)) (md nu : R) (i j : nat) : R :=
  let np := length pts in
  let nf := length forces in
  let p := nth (if Nat.ltb i np then i else i - np) pts (0, 0) in
  let f := nth (if Nat.ltb j nf then j else j - nf) forces (0, 0) in
  let dx := fst p - fst f in
  let dy := snd p - snd f in
  match Nat.ltb i np, Nat.ltb j nf with
  | true, true => g_ee dx dy md nu
  | false, false => g_nn dx dy md nu
  | _, _ => g_ne dx dy md nu
  end.

(** ** CheckerBoard *)
Definition checker (amp we wn e n : R) : R :=
  amp * sin (2 * PI / we * e) * cos (2 * PI / wn * n).

(** default wavelengths: half of the region's extent *)
Definition checker_default (amp w e_ s n_ e n : R) : R :=
  checker amp ((e_ - w) / 2) ((n_ - s) / 2) e n.

(** the w_east / w_north options: each direction defaults INDEPENDENTLY of the other
    (properties w_east_ and w_north_) *)
Definition wavelength (given : option R) (lo hi : R) : R :=
  match given with Some x => x | None => (hi - lo) / 2 end.

Definition checker_opt (amp w e_ s n_ : R) (we wn : option R) (e n : R) : R :=
  checker amp (wavelength we w e_) (wavelength wn s n_) e n.

(** ** predictions as the code's accumulation over forces (real-valued) *)
Fixpoint spline_predict (e n md : R) (forces : list (R * R * R)) : R :=
  match forces with
  | [] => 0
  | (fe, fn, f) :: t => spline_entry e n fe fn md * f + spline_predict e n md t
  end.
