(** Case functions for C06.  The behaviour of each real estimator, run
    stand-alone on the arguments threaded to it, is given as oracle tables;
    the model composes them and the composite is compared with the real
    Chain / Vector. *)
From Coq Require Import QArith ZArith List Bool.
From Verde Require Import Lib.Verdict Lib.Dyadic Lib.QExtra Model.Chain.
Import ListNotations.
Open Scope Q_scope.

Definition Dcomps := list (list D).
Definition Qc (c : Dcomps) : comps := map (map QD) c.

Definition comps_scale (c : comps) : Q := Qmax 1 (maxabs_list (map maxabs_list c)).
Definition close_comps (sc : Q) (a b : comps) : bool := all2 (close_list sc) a b.
Definition exact_comps (a b : Dcomps) : bool := all2 (all2 deq) a b.

(** one step of a chain as observed: [is_gridder]; stand-alone prediction at the
    query and at its own (threaded) coordinates; data returned by its stand-alone
    filter; prediction at the query of the same step inside the real chain *)
Record step_obs := {
  so_gridder : bool;
  so_pq : Dcomps; so_pc : Dcomps; so_fdata : Dcomps; so_rq : Dcomps;
  so_same_cw : bool   (* a gridder's filter returned the coordinates and weights it was given, residuals in the data's shape *)
}.

(** coordinates are stage identifiers: the query is -1 *)
Definition table_step (s : step_obs) : step Z :=
  if so_gridder s
  then Gridder (fun _ q => if (q =? -1)%Z then Qc (so_pq s) else Qc (so_pc s))
  else Reduction (fun a => {| a_coords := (a_coords a + 1)%Z; a_data := Qc (so_fdata s); a_weights := a_weights a |}).

Fixpoint filters_agree (sc : Q) (steps : list step_obs) (a : args Z) : bool :=
  match steps with
  | [] => true
  | s :: t =>
      let a' := sfilter (table_step s) a in
      close_comps sc (a_data a') (Qc (so_fdata s)) && filters_agree sc t a'
  end.

Definition sum_rq (steps : list step_obs) : option comps :=
  fold_left acc_add (map (fun s => Qc (so_rq s)) (filter so_gridder steps)) None.

Definition opt_close (sc : Q) (a : option comps) (b : option comps) : bool :=
  match a, b with
  | None, None => true
  | Some x, Some y => close_comps sc x y
  | _, _ => false
  end.

(** [obs_q]: the real chain's prediction at the query (None: it raised);
    [obs_c]: its prediction at the data coordinates (only for all-gridder
    chains, else []) *)
Definition c06_chain (d : Dcomps) (steps : list step_obs) (obs_q : option Dcomps) (obs_c : Dcomps) : verdict :=
  let a0 := {| a_coords := 0%Z; a_data := Qc d; a_weights := None |} in
  let sc := comps_scale (Qc d ++ flat_map (fun s => Qc (so_pq s)) steps) in
  let tsteps := map table_step steps in
  let oq := option_map Qc obs_q in
  let threaded := forallb (fun s => negb (so_gridder s) || exact_comps (so_pq s) (so_rq s)) steps in
  let agree :=
    opt_close sc (chain_predict tsteps a0 (-1)%Z) oq && filters_agree sc steps a0 && threaded &&
    forallb (fun s => negb (so_gridder s) || so_same_cw s) steps in
  let all_gridders := forallb so_gridder steps && negb (match steps with [] => true | _ => false end) in
  let telescopes :=
    if all_gridders then
      match rev steps with
      | last :: _ => close_comps sc (vadd (Qc obs_c) (Qc (so_fdata last))) (Qc d)
      | [] => true
      end
    else true in
  (* the filter contract of every gridder step (data minus its own prediction at the
     coordinates it was given, same coordinates and weights) is part of the statement *)
  let contract := filters_agree sc steps a0 && forallb (fun s => negb (so_gridder s) || so_same_cw s) steps in
  let holds := opt_close sc (sum_rq steps) oq && threaded && telescopes && contract in
  mk_verdict agree holds.

(** BaseGridder.filter: (coordinates, data - prediction reshaped to the data's
    shape, weights); identity of the returned coordinates/weights and the
    shapes are observed in python and passed as booleans *)
Definition c06_filter (d pred resid : Dcomps) (same_coords same_weights same_shape : bool) : verdict :=
  let sc := comps_scale (Qc d ++ Qc pred) in
  let ok := close_comps sc (vsub (Qc d) (Qc pred)) (Qc resid) && same_coords && same_weights && same_shape in
  mk_verdict ok ok.

(** Vector: prediction tuple equals the separately fitted components'
    predictions (bit-exact: same computation), and component i is unchanged
    when the OTHER components' data and weights are replaced *)
Definition c06_vector (vec separate : Dcomps) (vec_other_changed : Dcomps) (keep : nat) : verdict :=
  let sep_model := vector_predict (map (fun p : list D => fun (_ : args Z) (_ : Z) => [map QD p]) separate)
                     {| a_coords := 0%Z; a_data := []; a_weights := None |} 0%Z in
  let agree := all2 (all2 Qeqb) sep_model (Qc vec) in
  let holds := exact_comps vec separate &&
               all2 deq (nth keep vec []) (nth keep vec_other_changed []) in
  mk_verdict agree holds.

(** a refitted chain behaves like a fresh one (bit-exact) *)
Definition c06_refit (refit fresh : Dcomps) : verdict :=
  let ok := exact_comps refit fresh in mk_verdict ok ok.
