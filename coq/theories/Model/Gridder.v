(** Model of BaseGridder.grid / profile / scatter (C05): where each prediction
    is placed.  [predict] is an arbitrary point-wise function [f] returning the
    tuple of components at a point; projections are arbitrary functions on
    points.  [None] models a raised ValueError. *)
From Coq Require Import QArith ZArith List Bool String Ascii.
From Verde Require Import Lib.Verdict Lib.Dyadic Lib.QExtra Model.Coordinates.
Import ListNotations.
Open Scope Q_scope.

Notation point := (Q * Q)%type.

Record dataset := {
  ds_dims : string * string;                      (* (dims[0], dims[1]) = (northing-like, easting-like) *)
  ds_east : list Q;                               (* coordinate vector of dims[1] *)
  ds_north : list Q;                              (* coordinate vector of dims[0] *)
  ds_vars : list (string * list (list Q));        (* name, rows (northing index) of columns (easting index) *)
  ds_extra : list (string * list (list Q))        (* non-index coordinates *)
}.

Definition default_data_names (n : nat) : option (list string) :=
  match n with
  | 1%nat => Some ["scalars"%string]
  | 2%nat => Some ["east_component"; "north_component"]%string
  | 3%nat => Some ["east_component"; "north_component"; "vertical_component"]%string
  | _ => None
  end.

Definition get_data_names (ncomp : nat) (given : option (list string)) : option (list string) :=
  match given with
  | None => default_data_names ncomp
  | Some l => if Nat.eqb (List.length l) ncomp then Some l else None
  end.

Definition digit (i : nat) : string :=
  String (ascii_of_nat (48 + i)) EmptyString.

(** extra_coords_name, extra_coords_name_1, ... (single digits suffice here) *)
Definition extra_names (base : string) (k : nat) : list string :=
  map (fun i => match i with O => base | _ => (base ++ "_" ++ digit i)%string end) (seq 0 k).

Inductive coords_arg :=
| Coords1 (east north : list Q)                       (* 1-D vectors *)
| Coords2 (east north : list (list Q)) (extra : list (list (list Q))).   (* 2-D arrays *)

(** exact meshgrid test (the code uses numpy.allclose; only exact meshgrids and
    gross violations are generated) *)
Definition is_meshgrid (east north : list (list Q)) : bool :=
  match east with
  | [] => true
  | r0 :: _ => forallb (fun r => all2 Qeqb r0 r) east
  end &&
  forallb (fun r => match r with [] => true | y :: _ => forallb (Qeqb y) r end) north.

Section Gridder.
Variable f : point -> list Q.        (* predict at a point: the tuple of components *)
Variable ncomp : nat.

Definition predict2 (proj : point -> point) (east2 north2 : list (list Q)) (k : nat) : list (list Q) :=
  map (fun rows => map (fun p => nth k (f (proj p)) 0) (combine (fst rows) (snd rows))) (combine east2 north2).

Definition grid (region_ region : option (list Q)) (shape : option (Z * Z)) (spacing : option (list Q))
    (adjust : Z) (pixel : bool) (extra : option (list Q)) (coordinates : option coords_arg)
    (proj : option (point -> point)) (dims : option (string * string)) (names : option (list string))
    (extra_name : string) : option dataset :=
  let sized := match shape, spacing with None, None => false | _, _ => true end in
  let coords :=
    match coordinates with
    | Some c =>
        if sized then None else
        match region with Some _ => None | None =>
          match c with
          | Coords1 e n => Some (meshgrid_e e n, meshgrid_n e n, [])
          | Coords2 e n x => if is_meshgrid e n then Some (e, n, x) else None
          end
        end
    | None =>
        match (match region with Some r => Some r | None => region_ end) with
        | None => None
        | Some r =>
            match grid_coordinates r shape spacing adjust pixel extra true with
            | Some g => Some (g_east2 g, g_north2 g, g_extra g)
            | None => None
            end
        end
    end in
  match coords with
  | None => None
  | Some (east2, north2, extras) =>
      match get_data_names ncomp names with
      | None => None
      | Some nms =>
          let p := match proj with Some p => p | None => fun x => x end in
          Some {| ds_dims := match dims with Some d => d | None => ("northing", "easting")%string end;
                  ds_east := hd [] east2;                 (* easting from row 0 *)
                  ds_north := map (hd 0) north2;          (* northing from column 0 *)
                  ds_vars := map (fun kn => (snd kn, predict2 p east2 north2 (fst kn)))
                                 (combine (seq 0 ncomp) nms);
                  ds_extra := combine (extra_names extra_name (List.length extras)) extras |}
      end
  end.

(** profile: rows of (northing, easting, distance^2, components) *)
Definition profile (p1 p2 : point) (size : nat) (proj inv : option (point -> point))
  : list (Q * Q * Q * list Q) :=
  let pr := match proj with Some p => p | None => fun x => x end in
  let iv := match inv with Some p => p | None => fun x => x end in
  let '(x1, y1) := pr p1 in
  let '(x2, y2) := pr p2 in
  map (fun pd => let c := iv (fst pd) in (snd c, fst c, snd pd, f (fst pd)))
      (combine (profile_points x1 y1 x2 y2 size) (profile_dist2 x1 y1 x2 y2 size)).

(** scatter: rows of (northing, easting, components) at the given (oracle) points *)
Definition scatter (pts : list point) (proj : option (point -> point)) : list (Q * Q * list Q) :=
  let pr := match proj with Some p => p | None => fun x => x end in
  map (fun p => (snd p, fst p, f (pr p))) pts.

End Gridder.
