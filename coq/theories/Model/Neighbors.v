(** Model of verde's nearest-neighbour based functions (C15):
    KNeighbors.predict (neighbors.py), median_distance (distances.py),
    distance_mask in its array and grid forms (mask.py).

    The k-d tree query (scipy.spatial.cKDTree.query) is modelled by its
    executable brute-force specification: the data indices sorted by
    (squared Euclidean distance to the query, index) with an insertion sort,
    of which the first k are taken.  Distances stay squared (no square root
    in Q): the squared distance is monotone in the distance. *)
From Coq Require Import QArith Qabs ZArith List Bool Arith Lia.
From Verde Require Import Lib.QExtra Lib.ISort.
Import ListNotations.
Open Scope Q_scope.

Definition pt := (Q * Q)%type.          (* (easting, northing) *)
Definition p0 : pt := (0, 0).
Definition sq (x : Q) : Q := x * x.
Definition d2 (p q : pt) : Q := sq (fst p - fst q) + sq (snd p - snd q).

(** squared distance from the query [q] to data point number [i] *)
Definition dist2 (pts : list pt) (q : pt) (i : nat) : Q := d2 (nth i pts p0) q.

(** ** the k-d tree query: sort (distance, index) keys *)
Definition key := (Q * nat)%type.

Definition key_leb (a b : key) : bool :=
  match Qcompare (fst a) (fst b) with
  | Lt => true
  | Gt => false
  | Eq => (snd a <=? snd b)%nat
  end.

Fixpoint keys_from (i : nat) (pts : list pt) (q : pt) : list key :=
  match pts with
  | [] => []
  | p :: t => (Qred (d2 p q), i) :: keys_from (S i) t q
  end.

Definition keys (pts : list pt) (q : pt) : list key := keys_from 0 pts q.

Definition sorted_keys (pts : list pt) (q : pt) : list key := isort key_leb (keys pts q).

(** indices of the [k] data points nearest to [q], nearest first *)
Definition k_nearest (k : nat) (pts : list pt) (q : pt) : list nat :=
  map snd (firstn k (sorted_keys pts q)).

(** ** reductions *)
Definition qsum (l : list Q) : Q := fold_right Qplus 0 l.
Definition mean (l : list Q) : Q := qsum l / inject_Z (Z.of_nat (length l)).
Definition qsort (l : list Q) : list Q := isort Qleb l.
Definition median (l : list Q) : Q :=
  let s := qsort l in
  let n := length l in
  if Nat.even n then (nth (n / 2 - 1) s 0 + nth (n / 2) s 0) / 2 else nth (n / 2) s 0.
Definition qmin_list (l : list Q) : Q :=
  match l with [] => 0 | x :: t => fold_right Qmin x t end.
Definition qmax_list (l : list Q) : Q :=
  match l with [] => 0 | x :: t => fold_right Qmax x t end.

Inductive reduction := RMean | RMedian | RMin | RMax.

Definition reduce (r : reduction) (l : list Q) : Q :=
  match r with
  | RMean => mean l
  | RMedian => median l
  | RMin => qmin_list l
  | RMax => qmax_list l
  end.

(** ** KNeighbors.predict: values of the k nearest data points, reduced *)
Definition neighbor_values (k : nat) (pts : list pt) (vals : list Q) (q : pt) : list Q :=
  map (fun i => nth i vals 0) (k_nearest k pts q).

Definition knn_predict (r : reduction) (k : nat) (pts : list pt) (vals : list Q) (q : pt) : Q :=
  reduce r (neighbor_values k pts vals q).

(** one prediction per query point, in the (raveled) order of the query arrays *)
Definition knn_predict_all (r : reduction) (k : nat) (pts : list pt) (vals : list Q) (qs : list pt) : list Q :=
  map (knn_predict r k pts vals) qs.

(** ** median_distance: query k+1 neighbours of data point [i], drop the first (itself) *)
Definition others_nearest (k : nat) (pts : list pt) (i : nat) : list nat :=
  tl (k_nearest (S k) pts (nth i pts p0)).

(** the squared distances to those points, ascending *)
Definition others_d2 (k : nat) (pts : list pt) (i : nat) : list Q :=
  tl (map fst (firstn (S k) (sorted_keys pts (nth i pts p0)))).

(** the two middle squared distances (equal when k is odd): the median distance is
    (sqrt a + sqrt b) / 2 *)
Definition median_d2 (k : nat) (pts : list pt) (i : nat) : Q * Q :=
  let l := others_d2 k pts i in
  (nth ((k - 1) / 2) l 0, nth (k / 2) l 0).

Definition median_d2_all (k : nat) (pts : list pt) : list (Q * Q) :=
  map (median_d2 k pts) (seq 0 (length pts)).

(** ** distance_mask *)
(** array form: True where the nearest data point is no farther than maxdist
    (distance <= maxdist  <->  maxdist >= 0 and distance^2 <= maxdist^2).
    A projection, when given, is applied to data and query points alike. *)
Definition distance_mask (maxdist : Q) (data : list pt) (q : pt) : bool :=
  Qleb 0 maxdist && existsb (fun p => Qleb (d2 p q) (maxdist * maxdist)) data.

Definition distance_mask_proj (proj : pt -> pt) (maxdist : Q) (data : list pt) (q : pt) : bool :=
  distance_mask maxdist (map proj data) (proj q).

Definition distance_mask_all (proj : pt -> pt) (maxdist : Q) (data : list pt) (qs : list pt) : list bool :=
  map (distance_mask_proj proj maxdist data) qs.

(** grid form: np.meshgrid(easting, northing) raveled in C order: the
    northing index varies slowest, shape (len northing, len easting) *)
Definition meshgrid (east north : list Q) : list pt :=
  flat_map (fun n => map (fun e => (e, n)) east) north.

(** the mask of the grid form, flat in C order *)
Definition mask_grid (proj : pt -> pt) (maxdist : Q) (data : list pt) (east north : list Q) : list bool :=
  distance_mask_all proj maxdist data (meshgrid east north).

(** Dataset.where(mask): values kept where the mask is True, NaN ([None]) elsewhere *)
Fixpoint where_mask {A} (mask : list bool) (vals : list A) : list (option A) :=
  match mask, vals with
  | b :: mt, v :: vt => (if b then Some v else None) :: where_mask mt vt
  | _, _ => []
  end.

Definition distance_mask_grid {A} (proj : pt -> pt) (maxdist : Q) (data : list pt)
    (east north : list Q) (vals : list A) : list (option A) :=
  where_mask (mask_grid proj maxdist data east north) vals.

(** ** decidable forms used by the case functions *)
Fixpoint nodupb (l : list nat) : bool :=
  match l with
  | [] => true
  | x :: t => negb (existsb (Nat.eqb x) t) && nodupb t
  end.

Definition memb (x : nat) (l : list nat) : bool := existsb (Nat.eqb x) l.

(** [sel] is a set of min(k, n) valid, distinct indices, none farther from [q]
    than any index left out *)
Definition closest_setb (k : nat) (pts : list pt) (q : pt) (sel : list nat) : bool :=
  nodupb sel && (length sel =? Nat.min k (length pts))%nat &&
  forallb (fun i => (i <? length pts)%nat) sel &&
  forallb (fun i => forallb (fun j => memb j sel || Qleb (dist2 pts q i) (dist2 pts q j))
                            (seq 0 (length pts))) sel.
