(** Model of verde.coordinates.longitude_continuity and its range checks.

    Angles are integers in units of [1/s] degree for an arbitrary scale
    [s > 0]; [h] is the half circle (180 degrees = [180*s] units) and
    [c = 2*h] the full circle.  Any finite set of doubles is a set of
    integers for a suitable power-of-two [s], and on such inputs the float
    operations the code performs ([%], [+], [-], comparisons) are exact, so
    this is the code's arithmetic, not an approximation of it.

    [lc_region] / [lc_lon] model the code in /repo (after the repair of F1);
    [lc_region_pinned] / [lc_lon_pinned] model the pinned code and are used
    only by Findings.v. *)
From Coq Require Import ZArith List Bool.
From Verde Require Import Lib.Verdict.
Import ListNotations.
Open Scope Z_scope.

Section Longitude.
Variable h : Z.               (* half circle, in scaled units *)
Let c := 2 * h.

(** _check_geographic_region: W,E in [-h, c], S,N in [-h/2, h/2] (latitudes
    are passed in the same units; q = quarter circle = 90 degrees) *)
Definition check_geo_region (q w e s n : Z) : bool :=
  negb ((w >? c) || (e >? c) || (w <? - h) || (e <? - h))
  && negb ((s >? q) || (n >? q) || (s <? - q) || (n <? - q))
  && negb (Z.abs (e - w) >? c).

Definition check_geo_coords (q : Z) (lons lats : list Z) : bool :=
  forallb (fun l => negb (l >? c) && negb (l <? - h)) lons
  && forallb (fun l => negb (l >? q) && negb (l <? - q)) lats.

(** the region part: returns (interval_360, W', E') *)
Definition lc_region (w e : Z) : bool * Z * Z :=
  let allg := Z.abs (e - w) =? c in
  let w1 := w mod c in
  let e1 := e mod c in
  (* repaired code: an east bound on the 0/360 seam closes the region at 360 *)
  let e1 := if (e1 =? 0) && (0 <? w1) && (w1 <? h) then c else e1 in
  let w2 := if allg then 0 else w1 in
  let e2 := if allg then c else e1 in
  if w2 >? e2 then
    let e3 := (e2 + h) mod c - h in
    let w3 := (w2 + h) mod c - h in
    (* repaired code: an east bound on the -180/180 seam closes it at 180 *)
    let e4 := if w3 >? e3 then e3 + c else e3 in
    (false, w3, e4)
  else (true, w2, e2).

(** the coordinate part, given the outcome of the region part *)
Definition lc_lon (i360 : bool) (W E lon : Z) : Z :=
  if i360 then
    let l := lon mod c in
    if (E =? c) && (0 <? W) && (l =? 0) then c else l
  else
    let l := (lon + h) mod c - h in
    if (E =? h) && (l =? - h) then h else l.

(** the pinned (unrepaired) code *)
Definition lc_region_pinned (w e : Z) : bool * Z * Z :=
  let allg := Z.abs (e - w) =? c in
  let w1 := w mod c in
  let e1 := e mod c in
  let w2 := if allg then 0 else w1 in
  let e2 := if allg then c else e1 in
  if w2 >? e2 then (false, (w2 + h) mod c - h, (e2 + h) mod c - h)
  else (true, w2, e2).

Definition lc_lon_pinned (i360 : bool) (lon : Z) : Z :=
  if i360 then lon mod c else (lon + h) mod c - h.

(** full function: [None] = ValueError *)
Definition longitude_continuity (q w e s n : Z) (coords : option (list Z * list Z))
  : option (option (list Z * list Z) * (Z * Z * Z * Z)) :=
  if check_geo_region q w e s n then
    let '(i360, W, E) := lc_region w e in
    match coords with
    | None => Some (None, (W, E, s, n))
    | Some (lons, lats) =>
        if check_geo_coords q lons lats
        then Some (Some (map (lc_lon i360 W E) lons, lats), (W, E, s, n))
        else None
    end
  else None.

(** specification vocabulary *)

(** the eastward angle from [a] to [b], in [0, c) *)
Definition east_angle (a b : Z) : Z := (b - a) mod c.

(** the arc from [w] eastwards to [e] is contiguous in the [0,c] or the
    [-h,h] convention: some translate of [w] by whole circles starts an
    interval of the arc's width inside one of the two windows *)
Definition representable (w e : Z) : Prop :=
  exists k : Z,
    let a := w + k * c in
    (0 <= a /\ a + east_angle w e <= c) \/ (- h <= a /\ a + east_angle w e <= h).

Definition full_globe (w e : Z) : Prop := Z.abs (e - w) = c.

Definition in_range (x : Z) : Prop := - h <= x <= c.

End Longitude.

(** ** Decidable form of the property's statement, evaluated by the generated
    case files on the *implementation's* observed output. *)
Section Decide.
Variable h : Z.
Let c := 2 * h.

Definition representable_b (w e : Z) : bool :=
  existsb (fun k => let a := w + k * c in
             ((0 <=? a) && (a + east_angle h w e <=? c)) ||
             ((- h <=? a) && (a + east_angle h w e <=? h)))
          [-1; 0; 1].

Definition lon_ok (w e W E lon l : Z) : bool :=
  ((l - lon) mod c =? 0) &&
  Bool.eqb ((W <=? l) && (l <=? E))
           ((Z.abs (e - w) =? c) || (east_angle h w lon <=? east_angle h w e)).

Definition lons_convention (ls : list Z) : bool :=
  forallb (fun l => (0 <=? l) && (l <=? c)) ls || forallb (fun l => (- h <=? l) && (l <=? h)) ls.

Definition lc_holds (q w e s n : Z) (coords : option (list Z * list Z))
    (obs : option (option (list Z * list Z) * (Z * Z * Z * Z))) : bool :=
  if check_geo_region h q w e s n then
    match obs with
    | None => match coords with
              | Some (lons, lats) => negb (check_geo_coords h q lons lats)
              | None => false
              end
    | Some (oc, (W, E, So, No)) =>
        (So =? s) && (No =? n) &&
        (if Z.abs (e - w) =? c then (W =? 0) && (E =? c)
         else if representable_b w e then
           (W <=? E) && ((W - w) mod c =? 0) && ((E - e) mod c =? 0) && (E - W =? east_angle h w e)
         else true) &&
        match coords, oc with
        | None, None => true
        | Some (lons, lats), Some (lons', lats') =>
            check_geo_coords h q lons lats &&
            list_eqb Z.eqb lats lats' &&
            (length lons =? length lons')%nat &&
            (if (Z.abs (e - w) =? c) || representable_b w e then
               forallb (fun p => lon_ok w e W E (fst p) (snd p)) (combine lons lons') &&
               lons_convention lons'
             else true)
        | _, _ => false
        end
    end
  else match obs with None => true | Some _ => false end.

Definition out_eqb (a b : option (option (list Z * list Z) * (Z * Z * Z * Z))) : bool :=
  option_eqb (fun x y =>
    option_eqb (fun p r => list_eqb Z.eqb (fst p) (fst r) && list_eqb Z.eqb (snd p) (snd r)) (fst x) (fst y) &&
    (let '(a1, a2, a3, a4) := snd x in let '(b1, b2, b3, b4) := snd y in
     (a1 =? b1) && (a2 =? b2) && (a3 =? b3) && (a4 =? b4))) a b.

Definition c17_case (q w e s n : Z) (coords : option (list Z * list Z))
    (obs : option (option (list Z * list Z) * (Z * Z * Z * Z))) : verdict :=
  mk_verdict (out_eqb (longitude_continuity h q w e s n coords) obs)
             (lc_holds q w e s n coords obs).

(** the pinned code, for Findings *)
Definition c17_case_pinned_region (w e : Z) : bool :=
  let '(_, W, E) := lc_region_pinned h w e in W <=? E.
End Decide.
