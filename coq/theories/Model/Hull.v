(** Model of convex-hull masking (verde.mask.convexhull_mask) and of the
    hull / range / reproduction part of verde.projections.project_grid.

    Geometry is stated over rational points (section "specification"): a point
    is in the hull of a finite cloud iff it is left-of-or-on every directed line
    a->b through two data points that has the whole cloud on its left
    (a supporting line).  Boundary points are those where [in_hull] holds but
    [strictly_in_hull] does not; the code (Delaunay + find_simplex with a
    round-off tolerance) may classify them either way.

    The executable model works on integer lattice coordinates: every finite set
    of doubles lies on a common dyadic lattice 2^e Z, and hull membership is
    invariant under the positive scaling onto that lattice
    (Proofs/HullProofs.v: [in_hull_affine], [lat_correct]).  *)
From Coq Require Import QArith Qabs ZArith List Bool Lia.
From Verde Require Import Lib.Verdict Lib.Dyadic Lib.QExtra.
Import ListNotations.

(** * specification (rational points) *)
Open Scope Q_scope.

Definition pt := (Q * Q)%type.

(** twice the signed area of the triangle p q r: > 0 iff r is strictly left of p->q *)
Definition orient (p q r : pt) : Q :=
  (fst q - fst p) * (snd r - snd p) - (snd q - snd p) * (fst r - fst p).

Definition pt_eq (a b : pt) : Prop := fst a == fst b /\ snd a == snd b.

(** the whole cloud is left of or on the directed line a->b *)
Definition supporting (P : list pt) (a b : pt) : Prop :=
  forall r, In r P -> 0 <= orient a b r.

Definition in_hull (P : list pt) (q : pt) : Prop :=
  forall a b, In a P -> In b P -> supporting P a b -> 0 <= orient a b q.

(** more than [m] (in orientation units: |b-a| x distance) inside every
    supporting line through two distinct data points *)
Definition strictly_in_hull (m : Q) (P : list pt) (q : pt) : Prop :=
  forall a b, In a P -> In b P -> ~ pt_eq a b -> supporting P a b -> m < orient a b q.

(** more than [m] outside some supporting line *)
Definition strictly_outside (m : Q) (P : list pt) (q : pt) : Prop :=
  exists a b, In a P /\ In b P /\ supporting P a b /\ orient a b q < - m.

(** the cloud is not contained in a line *)
Definition non_degenerate (P : list pt) : Prop :=
  exists a b c, In a P /\ In b P /\ In c P /\ ~ orient a b c == 0.

(** axis-aligned affine map x -> sx x + ox, y -> sy y + oy *)
Definition aff (sx ox sy oy : Q) (p : pt) : pt := (sx * fst p + ox, sy * snd p + oy).

(** convex combination sum_i w_i p_i *)
Fixpoint comb (ws : list Q) (ps : list pt) : pt :=
  match ws, ps with
  | w :: ws', p :: ps' => let c := comb ws' ps' in (w * fst p + fst c, w * snd p + snd c)
  | _, _ => (0, 0)
  end.

Fixpoint wsum (ws : list Q) (vs : list Q) : Q :=
  match ws, vs with
  | w :: ws', v :: vs' => w * v + wsum ws' vs'
  | _, _ => 0
  end.

Definition mean (vs : list Q) : Q := Qsum vs / inject_Z (Z.of_nat (length vs)).

Close Scope Q_scope.

(** * executable model on lattice points *)
Open Scope Z_scope.

Definition zpt := (Z * Z)%type.

Definition orientZ (p q r : zpt) : Z :=
  (fst q - fst p) * (snd r - snd p) - (snd q - snd p) * (fst r - fst p).

Definition zpt_eqb (a b : zpt) : bool := (fst a =? fst b) && (snd a =? snd b).

(** short-circuit forall / exists (vm_compute is call by value: [andb] would
    evaluate both arguments) *)
Fixpoint all_sc {A} (f : A -> bool) (l : list A) : bool :=
  match l with [] => true | x :: t => if f x then all_sc f t else false end.
Fixpoint any_sc {A} (f : A -> bool) (l : list A) : bool :=
  match l with [] => false | x :: t => if f x then true else any_sc f t end.

(** the four extreme points of the bounding box are tried first: a line through
    two data points that does not support the cloud is almost always refuted by
    one of them (pure speed-up: they are members of the cloud) *)
Definition pick (better : zpt -> zpt -> bool) (P : list zpt) : list zpt :=
  match P with
  | [] => []
  | d :: t => [fold_right (fun p best => if better p best then p else best) d t]
  end.
Definition probes (P : list zpt) : list zpt :=
  pick (fun p b => fst p <? fst b) P ++ pick (fun p b => fst b <? fst p) P ++
  pick (fun p b => snd p <? snd b) P ++ pick (fun p b => snd b <? snd p) P.

Definition supportingb (P : list zpt) (a b : zpt) : bool :=
  all_sc (fun r => 0 <=? orientZ a b r) (probes P ++ P).

(** all ordered pairs of distinct data points whose line supports the cloud *)
Definition edges (P : list zpt) : list (zpt * zpt) :=
  flat_map (fun a => flat_map (fun b =>
    if zpt_eqb a b then [] else if supportingb P a b then [(a, b)] else []) P) P.

(** the smallest orientation of [q] over the supporting pairs (one pass);
    None when there is no pair *)
Definition min_orient (E : list (zpt * zpt)) (q : zpt) : option Z :=
  match E with
  | [] => None
  | ab :: t => Some (fold_left (fun v cd => Z.min v (orientZ (fst cd) (snd cd) q)) t (orientZ (fst ab) (snd ab) q))
  end.
Definition mo_in (mo : option Z) : bool := match mo with None => true | Some v => 0 <=? v end.
Definition mo_sin (m : Z) (mo : option Z) : bool := match mo with None => true | Some v => m <? v end.
Definition mo_sout (m : Z) (mo : option Z) : bool := match mo with None => false | Some v => v <? - m end.

Definition in_hull_edges (E : list (zpt * zpt)) (q : zpt) : bool := mo_in (min_orient E q).
Definition in_hullb (P : list zpt) (q : zpt) : bool := in_hull_edges (edges P) q.
Definition strictly_in_edges (m : Z) (E : list (zpt * zpt)) (q : zpt) : bool := mo_sin m (min_orient E q).
Definition strictly_out_edges (m : Z) (E : list (zpt * zpt)) (q : zpt) : bool := mo_sout m (min_orient E q).

Definition non_degenerateb (P : list zpt) : bool :=
  any_sc (fun a => any_sc (fun b => any_sc (fun c => negb (orientZ a b c =? 0)) P) P) P.

(** array form: element-wise over raveled coordinates;
    grid form: cell (i, j) is the point (east[j], north[i]) *)
Definition mask_array (P : list zpt) (es ns : list Z) : list bool :=
  let E := edges P in map (in_hull_edges E) (combine es ns).
Definition mask_grid (P : list zpt) (east north : list Z) : list (list bool) :=
  let E := edges P in map (fun y => map (fun x => in_hull_edges E (x, y)) east) north.
Definition mesh_e {A} (east north : list A) : list (list A) := map (fun _ => east) north.
Definition mesh_n {A} (east north : list A) : list (list A) := map (fun y => map (fun _ => y) east) north.

(** ** dyadics onto a common lattice 2^e Z *)
Definition emin_list (l : list D) : Z := fold_right (fun d m => Z.min (snd d) m) 0 l.
Definition lat (e : Z) (d : D) : Z := fst d * 2 ^ (snd d - e).
Definition lat_pts (e : Z) (xs ys : list D) : list zpt := combine (map (lat e) xs) (map (lat e) ys).

Definition Zmin_list (l : list Z) : Z := match l with [] => 0 | x :: t => fold_left Z.min t x end.
Definition Zmax_list (l : list Z) : Z := match l with [] => 0 | x :: t => fold_left Z.max t x end.

(** decision margin: 2^-30 x (east extent) x (north extent) of the cloud, in
    orientation units (an orientation is |b-a| x distance from the line) *)
Definition margin30 (P : list zpt) : Z :=
  let xs := map fst P in let ys := map snd P in
  ((Zmax_list xs - Zmin_list xs) * (Zmax_list ys - Zmin_list ys)) / 2 ^ 30.

(** classification of a query: Some true = decisively inside, Some false =
    decisively outside, None = within the margin of the boundary *)
Definition mo_classify (m : Z) (mo : option Z) : option bool :=
  if mo_sout m mo then Some false else if mo_sin m mo then Some true else None.
Definition classify (m : Z) (E : list (zpt * zpt)) (q : zpt) : option bool :=
  mo_classify m (min_orient E q).

(** observed mask consistent with a classification: decisive points must match *)
Definition consistent (c : option bool) (obs : bool) : bool :=
  match c with Some b => Bool.eqb b obs | None => true end.

Definition decisive (c : option bool) : bool := match c with Some _ => true | None => false end.

(** ** case: array form of convexhull_mask.
    [dx dy]: data points; [qx qy]: query points (raveled); [obs]: observed mask. *)
Definition all_numbers (ls : list (list D)) : list D := concat ls.

Definition mask_case_core (P : list zpt) (qs : list zpt) (obs : list bool) : verdict :=
  if negb (non_degenerateb P) then Vboth else
  let E := edges P in
  let m := margin30 P in
  let mos := map (min_orient E) qs in
  let cls := map (mo_classify m) mos in
  (* agree: the model's in_hull equals the observed mask away from the boundary *)
  let agree := all2 (fun mo o => if mo_sin m mo || mo_sout m mo then Bool.eqb (mo_in mo) o else true) mos obs in
  (* holds: strictly inside -> True, strictly outside -> False *)
  let holds := all2 consistent cls obs in
  mk_verdict_tie (negb (existsb decisive cls)) agree holds.

Definition c16_mask (dx dy qx qy : list D) (obs : list bool) : verdict :=
  let e := emin_list (all_numbers [dx; dy; qx; qy]) in
  if negb ((length dx =? length dy)%nat && (length qx =? length qy)%nat) then Vboth else
  mask_case_core (lat_pts e dx dy) (lat_pts e qx qy) obs.

(** ** case: scale / offset independence.  The base cloud and queries
    (bx by bqx bqy) are mapped by x -> sx x + ox, y -> sy y + oy (exact in
    doubles by construction, re-checked here); verde ran on the mapped
    coordinates; the model is evaluated on the BASE coordinates. *)
Definition dyadic_affine_ok (s o : D) (base mapped : list D) : bool :=
  all2 (fun b m => deq (dadd (dmul s b) o) m) base mapped.

Definition c16_mask_scaled (bx by_ bqx bqy : list D) (sx ox sy oy : D)
    (dx dy qx qy : list D) (obs_base obs : list bool) : verdict :=
  if negb (dlt d0 sx && dlt d0 sy && dyadic_affine_ok sx ox bx dx && dyadic_affine_ok sy oy by_ dy &&
           dyadic_affine_ok sx ox bqx qx && dyadic_affine_ok sy oy bqy qy) then Vboth else
  let e := emin_list (all_numbers [bx; by_; bqx; bqy]) in
  let P := lat_pts e bx by_ in let qs := lat_pts e bqx bqy in
  if negb (non_degenerateb P) then Vboth else
  let E := edges P in
  let m := margin30 P in
  let cls := map (classify m E) qs in
  let agree := all2 consistent cls obs in
  (* the property: same mask as on the base coordinates away from the boundary, and correct *)
  let same := all2 (fun c ob => match c with Some _ => Bool.eqb (fst ob) (snd ob) | None => true end)
                   cls (combine obs_base obs) in
  let holds := all2 consistent cls obs && same && (length obs_base =? length obs)%nat in
  mk_verdict_tie (negb (existsb decisive cls)) agree holds.

(** ** case: array form vs grid form on the same (non-square) grid.
    [obs_arr]: rows of the mask returned for coordinates=meshgrid(east, north);
    [obs_grid]: rows of "value kept" (not NaN) of the masked Dataset;
    [dims_ok]: the Dataset kept its dims and coordinate vectors. *)
Definition rows_eqb (a b : list (list bool)) : bool := list_eqb (list_eqb Bool.eqb) a b.

Definition c16_mask_forms (dx dy east north : list D) (obs_arr obs_grid : list (list bool)) (dims_ok : bool) : verdict :=
  let e := emin_list (all_numbers [dx; dy; east; north]) in
  let P := lat_pts e dx dy in
  if negb (non_degenerateb P) then Vboth else
  let ez := map (lat e) east in let nz := map (lat e) north in
  let E := edges P in
  let m := margin30 P in
  let mos := map (fun y => map (fun x => min_orient E (x, y)) ez) nz in
  let cls := map (map (mo_classify m)) mos in
  let ok_rows (obs : list (list bool)) := all2 (all2 consistent) cls obs in
  let model := map (map mo_in) mos in
  let agree := all2 (all2 (fun cm o => match fst cm with Some _ => Bool.eqb (snd cm) o | None => true end))
                    (map (fun r => combine (fst r) (snd r)) (combine cls model)) obs_arr in
  let holds := ok_rows obs_arr && ok_rows obs_grid && rows_eqb obs_arr obs_grid && dims_ok in
  mk_verdict_tie (negb (existsb (existsb decisive) cls)) agree holds.

(** ** case: convexhull_mask with a projection.  The callable is an oracle: the
    harness logs what it was given ([ldx ldy] for the data call, [lqx lqy] for the
    query call) and what it returned ([pdx pdy], [pqx pqy]).  The code must hand
    it exactly the data and ALL the query coordinates (bit-exact, in order); the
    mask is then the hull test on the PROJECTED points.  For an integer-linear
    projection (a b / c d) the logged outputs are re-computed exactly. *)
Definition lin_ok (l : D * D * D * D) (xs ys pxs pys : list D) : bool :=
  let '(a, b, c, d) := l in
  all2 (fun xy p => deq (dadd (dmul a (fst xy)) (dmul b (snd xy))) p) (combine xs ys) pxs &&
  all2 (fun xy p => deq (dadd (dmul c (fst xy)) (dmul d (snd xy))) p) (combine xs ys) pys.

Definition c16_mask_proj (lin : option (D * D * D * D)) (dx dy qx qy ldx ldy lqx lqy pdx pdy pqx pqy : list D)
    (obs : list bool) : verdict :=
  let logged := list_eqb deq dx ldx && list_eqb deq dy ldy && list_eqb deq qx lqx && list_eqb deq qy lqy &&
                (length pdx =? length dx)%nat && (length pdy =? length dx)%nat &&
                (length pqx =? length qx)%nat && (length pqy =? length qx)%nat in
  let linear := match lin with
                | Some l => lin_ok l dx dy pdx pdy && lin_ok l qx qy pqx pqy
                | None => true
                end in
  if logged && linear then c16_mask pdx pdy pqx pqy obs else Vboth.
