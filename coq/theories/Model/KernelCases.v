(** C03 - case functions of the correspondence check (evaluated by vm_compute in
    the generated case files).  Floats arrive as exact dyadics; everything is
    computed exactly in Q.  [agree] compares the implementation's output with
    the executable model (the code's loops / generator + stable sort); [holds]
    evaluates the property's statement (jacobian x parameters, monomials in the
    documented order, ...) on the observed output. *)
From Coq Require Import QArith Qabs ZArith List Bool Arith Lia.
From Verde Require Import Lib.Verdict Lib.Dyadic Lib.QExtra Model.Trend.
Import ListNotations.
Open Scope Q_scope.

(** verdict of a check decided outside vm_compute (an interval-arithmetic
    certificate compiled by coqc, or a bit-for-bit comparison of two arrays) *)
Definition c03_flag (b : bool) : verdict := mk_verdict b b.

Definition Qm (J : list (list D)) : list (list Q) := map (map QD) J.

(** |a_i - b_i| <= 2^-40 * scale_i for all i, and equal lengths *)
Fixpoint close_each (scale a b : list Q) : bool :=
  match scale, a, b with
  | [], [], [] => true
  | s :: st, x :: at_, y :: bt => Qleb (Qabs (x - y)) (tol40 * s) && close_each st at_ bt
  | _, _, _ => false
  end.

Definition abs_dot (r p : list Q) : Q := dot (map Qabs r) (map Qabs p).

Definition columns (J : list (list Q)) (m : nat) : list (list Q) :=
  map (fun j => map (fun r => nth j r 0) J) (seq 0 m).

Definition rect (J : list (list D)) (m : nat) : bool := forallb (fun r => Nat.eqb (length r) m) J.

(** predict(coordinates) [y, raveled] against the observed jacobian [J] and the parameters [p] *)
Definition c03_predict (J : list (list D)) (p y : list D) (shape_ok : bool) : verdict :=
  let Jq := Qm J in
  let pq := map QD p in
  let yq := map QD y in
  let m := length p in
  let scale := map (fun r => abs_dot r pq) Jq in
  let model := predict_loop (columns Jq m) pq (zeros (length J)) in
  mk_verdict (close_each scale model yq)
             (shape_ok && rect J m && close_each scale (mv Jq pq) yq).

(** two components: [J] is the observed (2n) x (2m) matrix, [p] the stacked forces,
    [ye], [yn] the predicted components *)
Definition c03_predict2 (J : list (list D)) (p ye yn : list D) (shape_ok : bool) : verdict :=
  let Jq := Qm J in
  let pq := map QD p in
  let n := Nat.div2 (length J) in
  let m := Nat.div2 (length p) in
  let top := firstn n Jq in
  let bot := skipn n Jq in
  let cee := columns (map (firstn m) top) m in
  let cne := columns (map (skipn m) top) m in
  let cnn := columns (map (skipn m) bot) m in
  let r := predict2_loop cee cnn cne (firstn m pq) (skipn m pq) (zeros n) (zeros n) in
  let scale := map (fun r => abs_dot r pq) Jq in
  let y := map QD ye ++ map QD yn in
  (* the same J_ne in both off-diagonal blocks, bit for bit *)
  let sym := list_eqb (list_eqb Qeqb) (map (skipn m) top) (map (firstn m) bot) in
  mk_verdict (close_each scale (fst r ++ snd r) y)
             (shape_ok && rect J (2 * m) && Nat.eqb (length J) (2 * n) && Nat.eqb (length p) (2 * m)
              && sym && close_each scale (mv Jq pq) y).

(** ** Trend *)
Definition ncoef (N : nat) : nat := Nat.div2 ((N + 1) * (N + 2)).

Definition pair_eqb (a b : nat * nat) : bool := Nat.eqb (fst a) (fst b) && Nat.eqb (snd a) (snd b).

Definition c03_combos (N : nat) (obs : list (nat * nat)) : verdict :=
  mk_verdict (list_eqb pair_eqb obs (power_combinations N))
             (list_eqb pair_eqb obs (by_degree N) && Nat.eqb (length obs) (ncoef N)).

Definition close_rel (a b : Q) : bool := Qleb (Qabs (a - b)) (tol40 * Qabs a).

Definition c03_trend_jac (N : nat) (east north : list D) (J : list (list D)) : verdict :=
  let e := map QD east in
  let n := map QD north in
  let Jq := Qm J in
  let spec := map (fun p => map (monomial (fst p) (snd p)) (by_degree N)) (combine e n) in
  mk_verdict (all2 (all2 close_rel) (trend_jacobian N e n) Jq)
             (Nat.eqb (length e) (length n) && rect J (ncoef N) && all2 (all2 close_rel) spec Jq).

Definition c03_trend_predict (N : nat) (east north coef y : list D) (shape_ok : bool) : verdict :=
  let e := map QD east in
  let n := map QD north in
  let c := map QD coef in
  let yq := map QD y in
  let rows := map (fun p => map (monomial (fst p) (snd p)) (by_degree N)) (combine e n) in
  let scale := map (fun r => abs_dot r c) rows in
  mk_verdict (close_each scale (trend_predict N c e n) yq)
             (shape_ok && Nat.eqb (length coef) (ncoef N) && close_each scale (mv rows c) yq).

(** ** bit-for-bit equality of two matrices (translation invariance) *)
Definition c03_same (J1 J2 : list (list D)) (nonempty : bool) : verdict :=
  let b := nonempty && list_eqb (list_eqb deq) J1 J2 in mk_verdict b b.

(** ** all entries finite *)
Definition c03_finite (l : list (option D)) : verdict :=
  let b := forallb (fun o => match o with Some _ => true | None => false end) l in mk_verdict b b.

(** default wavelength: exactly half of the extent (dyadic regions) *)
Definition c03_half (lo hi w : D) : verdict :=
  let b := deq (dadd w w) (dsub hi lo) in mk_verdict b b.

(** ** reduced-precision output (dtype="float32"): every entry is the double-precision kernel
    value rounded to single precision - within 2^-22 of the reference entry's magnitude,
    never looser.  [Jref] is computed in double precision from the double-precision coordinates. *)
Definition tol22 : Q := 1 # (2 ^ 22).
Definition close22 (ref x : Q) : bool := Qleb (Qabs (x - ref)) (tol22 * Qabs ref).

Definition c03_close32 (J Jref : list (list D)) (flags : bool) : verdict :=
  let b := flags && all2 (all2 close22) (Qm Jref) (Qm J) in mk_verdict b b.
