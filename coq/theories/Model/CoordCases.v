(** Case functions for C07 / C13: compare the implementation's observed output
    with the model ([agree]) and evaluate the decidable, closed-form statement
    of the property on the observed output ([holds]).  Inputs and outputs are
    exact dyadics. *)
From Coq Require Import QArith Qround Qabs ZArith List Bool Lia.
From Verde Require Import Lib.Verdict Lib.Dyadic Lib.QExtra Model.Coordinates.
Import ListNotations.
Open Scope Q_scope.

Definition Qs (l : list D) : list Q := map QD l.
Definition tie30 : Q := 1 # (2 ^ 30).

Definition scale3 (a b c : Q) : Q := Qmax 1 (Qmax (Qabs a) (Qmax (Qabs b) (Qabs c))).

(** ** closed-form specification of line_coordinates (what the property says) *)
Definition intervals (start stop sp : Q) : Z := Z.max 1 (rhe ((stop - start) / sp)).

Definition nodes_from (start step : Q) (half : bool) (n : nat) : list Q :=
  map (fun i => start + (inject_Z (Z.of_nat i) + (if half then 1#2 else 0)) * step) (seq 0 n).

Definition line_spec (start stop : Q) (size : option Z) (spacing : option Q) (adjust : Z) (pixel : bool)
  : option (list Q) :=
  match size, spacing with
  | Some _, Some _ | None, None => None
  | None, Some sp =>
      if negb ((adjust =? 0) || (adjust =? 1))%Z then None else
      let k := intervals start stop sp in
      let step := if (adjust =? 0)%Z then (stop - start) / inject_Z k else sp in
      Some (nodes_from start step pixel (Z.to_nat (if pixel then k else k + 1)%Z))
  | Some n, None =>
      if pixel then Some (nodes_from start ((stop - start) / inject_Z n) true (Z.to_nat n))
      else if (n =? 1)%Z then Some [start]
      else Some (nodes_from start ((stop - start) / inject_Z (n - 1)) false (Z.to_nat n))
  end.

(** observed values close to the specification; for grid-line registration with
    adjust = "spacing" (or a size >= 2) both bounds must be hit EXACTLY *)
Definition ends_exact (start stop : Q) (v : list Q) : bool :=
  match v with
  | [] => false
  | x :: _ => Qeqb x start && Qeqb (last v 0) stop
  end.

Definition line_holds (start stop : Q) (size : option Z) (spacing : option Q) (adjust : Z) (pixel : bool)
    (obs : option (list Q)) : bool :=
  let sc := scale3 start stop (match spacing with Some s => s | None => 0 end) in
  match line_spec start stop size spacing adjust pixel, obs with
  | None, None => true
  | Some sp, Some v =>
      close_list sc sp v &&
      (if pixel then true
       else match size, spacing with
            | None, Some _ => if (adjust =? 0)%Z then ends_exact start stop v
                              else match v with x :: _ => Qeqb x start | [] => false end
            | Some n, None => if (2 <=? n)%Z then ends_exact start stop v
                              else match v with [x] => Qeqb x start | _ => false end
            | _, _ => true
            end)
  | _, _ => false
  end.

Definition line_agree (start stop : Q) (size : option Z) (spacing : option Q) (adjust : Z) (pixel : bool)
    (obs : option (list Q)) : bool :=
  let sc := scale3 start stop (match spacing with Some s => s | None => 0 end) in
  match line_coordinates start stop size spacing adjust pixel, obs with
  | None, None => true
  | Some m, Some v => close_list sc m v
  | _, _ => false
  end.

(** the exact quotient is within 2^-30 of a rounding tie without being one:
    the float quotient may legitimately round the other way.  Exact ties are
    NOT excluded: Python's half-to-even rule is compared exactly on them. *)
Definition line_tie (start stop : Q) (spacing : option Q) : bool :=
  match spacing with
  | Some sp => let m := tie_margin ((stop - start) / sp) in Qltb 0 m && Qltb m tie30
  | None => false
  end.

Definition near_len (m : option (list Q)) (obs : option (list Q)) : bool :=
  match m, obs with
  | Some a, Some b => (Z.abs (Z.of_nat (length a) - Z.of_nat (length b)) <=? 1)%Z
  | _, _ => false
  end.

Definition c07_line (start stop : D) (size : option Z) (spacing : option D) (adjust : Z) (pixel : bool)
    (obs : option (list D)) : verdict :=
  let st := QD start in let sp := QD stop in
  let spc := option_map QD spacing in
  let o := option_map Qs obs in
  if line_tie st sp spc then
    (if near_len (line_spec st sp size spc adjust pixel) o then Vskip else Vboth)
  else mk_verdict (line_agree st sp size spc adjust pixel o) (line_holds st sp size spc adjust pixel o).

(** ** grids: obs = list of arrays, each a list of rows; for meshgrid=False the
    two 1-D vectors are passed as single-row arrays *)
Definition close_rows (sc : Q) (a b : list (list Q)) : bool := all2 (close_list sc) a b.
Definition close_arrays (sc : Q) (a b : list (list (list Q))) : bool := all2 (close_rows sc) a b.
Definition exact_arrays (a b : list (list (list Q))) : bool := all2 (all2 (all2 Qeqb)) a b.

Definition grid_expected (g : grid) (meshgrid : bool) : list (list (list Q)) :=
  if meshgrid then [g_east2 g; g_north2 g] else [[g_east1 g]; [g_north1 g]].

Definition region_scale (r : list Q) : Q := Qmax 1 (maxabs_list r).

Definition grid_agree (region : list Q) shape spacing adjust pixel extra meshgrid
    (obs : option (list (list (list Q)))) : bool :=
  match grid_coordinates region shape spacing adjust pixel extra meshgrid, obs with
  | None, None => true
  | Some g, Some o =>
      close_arrays (region_scale region) (grid_expected g meshgrid) (firstn 2 o) &&
      exact_arrays (g_extra g) (skipn 2 o)
  | _, _ => false
  end.

(** closed-form statement: 1-D vectors per direction from [line_spec]; 2-D
    arrays have n_north rows of n_east entries with easting along columns and
    northing along rows; extra coordinates are constant arrays of that shape *)
Definition grid_spec (region : list Q) (shape : option (Z * Z)) (spacing : option (list Q))
    (adjust : Z) (pixel : bool) (extra : option (list Q)) (meshgrid : bool)
  : option (list (list (list Q))) :=
  match region with
  | [w; e; s; n] =>
    if negb (Qleb w e && Qleb s n) then None else
    let lines :=
      match shape, spacing with
      | Some (sn, se), None => Some (line_spec w e (Some se) None adjust pixel, line_spec s n (Some sn) None adjust pixel)
      | None, Some [sp] => Some (line_spec w e None (Some sp) adjust pixel, line_spec s n None (Some sp) adjust pixel)
      | None, Some [spn; spe] => Some (line_spec w e None (Some spe) adjust pixel, line_spec s n None (Some spn) adjust pixel)
      | _, _ => None
      end in
    match lines with
    | Some (Some east, Some north) =>
        match extra, meshgrid with
        | Some _, false => None
        | _, false => Some [[east]; [north]]
        | _, true =>
            Some ([map (fun _ => east) north; map (fun y => map (fun _ => y) east) north] ++
                  map (fun v => map (fun _ => map (fun _ => v) east) north)
                      (match extra with Some vs => vs | None => [] end))
        end
    | _ => None
    end
  | _ => None
  end.

Definition grid_holds region shape spacing adjust pixel extra meshgrid
    (obs : option (list (list (list Q)))) : bool :=
  match grid_spec region shape spacing adjust pixel extra meshgrid, obs with
  | None, None => true
  | Some sp, Some o =>
      close_arrays (region_scale region) (firstn 2 sp) (firstn 2 o) &&
      exact_arrays (skipn 2 sp) (skipn 2 o)
  | _, _ => false
  end.

Definition grid_tie (region : list Q) (spacing : option (list Q)) : bool :=
  match region, spacing with
  | [w; e; s; n], Some [sp] => line_tie w e (Some sp) || line_tie s n (Some sp)
  | [w; e; s; n], Some [spn; spe] => line_tie w e (Some spe) || line_tie s n (Some spn)
  | _, _ => false
  end.

Definition Qss (a : list (list D)) : list (list Q) := map Qs a.

Definition c07_grid (region : list D) (shape : option (Z * Z)) (spacing : option (list D))
    (adjust : Z) (pixel : bool) (extra : option (list D)) (meshgrid : bool)
    (obs : option (list (list (list D)))) : verdict :=
  let r := Qs region in let sp := option_map Qs spacing in let ex := option_map Qs extra in
  let o := option_map (map Qss) obs in
  if grid_tie r sp then (match o with Some _ => Vskip | None => Vboth end)
  else mk_verdict (grid_agree r shape sp adjust pixel ex meshgrid o)
                  (grid_holds r shape sp adjust pixel ex meshgrid o).

(** shape_to_spacing, and the shape of the grid made with the spacing it returns *)
Definition c07_shape_spacing (region : list D) (shape : Z * Z) (pixel : bool)
    (obs : D * D) (obs_shape : Z * Z) : verdict :=
  match Qs region with
  | [w; e; s; n] =>
      let '(spn, spe) := shape_to_spacing (w, e, s, n) shape pixel in
      let sc := Qmax 1 (Qmax (Qabs spn) (Qabs spe)) in
      let ok := close_by sc spn (QD (fst obs)) && close_by sc spe (QD (snd obs)) in
      mk_verdict ok (ok && (fst obs_shape =? fst shape)%Z && (snd obs_shape =? snd shape)%Z)
  | _ => Vboth
  end.

(** profiles: points compared directly, distances through their squares *)
Definition c07_profile (x1 y1 x2 y2 : D) (size : nat) (obs_e obs_n obs_d : list D) : verdict :=
  let a := QD x1 in let b := QD y1 in let c := QD x2 in let d := QD y2 in
  let pts := profile_points a b c d size in
  let d2 := profile_dist2 a b c d size in
  let sc := Qmax 1 (maxabs_list [a; b; c; d]) in
  let od := Qs obs_d in
  let ok :=
    close_list sc (map fst pts) (Qs obs_e) && close_list sc (map snd pts) (Qs obs_n) &&
    close_list (sc * sc) d2 (map (fun x => x * x) od) &&
    forallb (fun x => Qleb 0 x) od &&
    match od with x :: _ => Qeqb x 0 | [] => false end in
  mk_verdict ok ok.

(** ** C13 *)
Definition c13_inside (region : list D) (east north : list D) (obs : option (list bool)) : verdict :=
  let r := Qs region in
  let m := inside r (Qs east) (Qs north) in
  let agree := option_eqb (list_eqb Bool.eqb) m obs in
  let holds :=
    match r, obs with
    | [w; e; s; n], Some bs =>
        Qleb w e && Qleb s n &&
        all2 (fun p b => Bool.eqb b ((Qleb w (fst p) && Qleb (fst p) e) && (Qleb s (snd p) && Qleb (snd p) n)))
             (combine (Qs east) (Qs north)) bs
    | [w; e; s; n], None => negb (Qleb w e && Qleb s n)
    | _, None => true
    | _, Some _ => false
    end in
  mk_verdict agree holds.

Definition c13_get_region (east north : list D) (obs : D * D * D * D) (obs_inside_all : bool) : verdict :=
  let '(ow, oe, os, on) := obs in
  let E := Qs east in let N := Qs north in
  let agree :=
    match get_region E N with
    | Some (w, e, s, n) => Qeqb w (QD ow) && Qeqb e (QD oe) && Qeqb s (QD os) && Qeqb n (QD on)
    | None => false
    end in
  let w := QD ow in let e := QD oe in let s := QD os in let n := QD on in
  let holds :=
    forallb (fun x => Qleb w x && Qleb x e) E && forallb (fun y => Qleb s y && Qleb y n) N &&
    existsb (Qeqb w) E && existsb (Qeqb e) E && existsb (Qeqb s) N && existsb (Qeqb n) N &&
    obs_inside_all in
  mk_verdict agree holds.

(** pad_region and its inverse: [obs] = pad(region, pad), [obs_back] = pad(obs, -pad) *)
Definition c13_pad (region : list D) (pn pe : D) (obs obs_back : list D) : verdict :=
  match Qs region with
  | [w; e; s; n] =>
      let '(w', e', s', n') := pad_region (w, e, s, n) (QD pn) (QD pe) in
      let sc := Qmax (region_scale (Qs region)) (Qmax (Qabs (QD pn)) (Qabs (QD pe))) in
      let ok := close_list sc [w'; e'; s'; n'] (Qs obs) in
      mk_verdict ok (ok && close_list sc [w; e; s; n] (Qs obs_back))
  | _ => Vboth
  end.

(** nodes of a grid (or scatter) lie inside the requested region.  For grids
    ([exact = true]) the test is the exact closed-box predicate - the same one
    verde.inside applies: numpy.linspace pins the last node to the bound and
    the other nodes are at least half a step inside.  For scatter points the
    tolerance 2^-40 of the region's scale covers the one rounding of
    lower + (upper - lower) * u. *)
Definition c13_nodes_inside (region : list D) (east north : list D) (expect_count : Z) (exact : bool) : verdict :=
  match Qs region with
  | [w; e; s; n] =>
      let sc := region_scale (Qs region) in
      let t := if exact then 0 else tol40 * sc in
      let ok := forallb (fun x => Qleb (w - t) x && Qleb x (e + t)) (Qs east) &&
                forallb (fun y => Qleb (s - t) y && Qleb y (n + t)) (Qs north) &&
                (Z.of_nat (length east) =? expect_count)%Z && (Z.of_nat (length north) =? expect_count)%Z in
      mk_verdict ok ok
  | _ => Vboth
  end.

Definition c13_maxabs (arrays : list (list D)) (obs : D) : verdict :=
  let m := maxabs (map Qs arrays) in
  let o := QD obs in
  let all := flat_map Qs arrays in
  mk_verdict (Qeqb m o) (forallb (fun x => Qleb (Qabs x) o) all && existsb (fun x => Qeqb (Qabs x) o) all).

(** project_region: the harness logs what the projection was called with and
    what it returned; the result must be the tight bounding box of the returned
    values, and the nodes projected must be the 101-node grid lines of the region *)
Definition dmin_list (l : list D) : option D :=
  match l with [] => None | x :: t => Some (fold_left (fun m y => if dle m y then m else y) t x) end.
Definition dmax_list (l : list D) : option D :=
  match l with [] => None | x :: t => Some (fold_left (fun m y => if dle m y then y else m) t x) end.

(** project_region.  [agree]: the function projected the 101-node grid lines
    of the region (the harness logs the projection's inputs/outputs) and
    returned the tight box of what the projection returned.  [holds]: the
    result is the bounding box of the projected region, i.e. of the projection
    applied (independently, by the harness) to the 101 x 101 nodes of the
    region, within 2^-40 of the scale of the projected values (element-wise
    numpy functions may differ in the last place between call shapes). *)
Definition c13_project_region (region : list D) (in_east in_north : list D) (out_east out_north : list D)
    (oracle_box : list D) (obs : list D) : verdict :=
  match Qs region, obs with
  | [w; e; s; n], [ow; oe; os; on] =>
      let sc := region_scale (Qs region) in
      let nodes_ok := close_list sc (linspace w e 101) (Qs in_east) && close_list sc (linspace s n 101) (Qs in_north) in
      let box :=
        match dmin_list out_east, dmax_list out_east, dmin_list out_north, dmax_list out_north with
        | Some a, Some b, Some c, Some d => deq a ow && deq b oe && deq c os && deq d on
        | _, _, _, _ => false
        end in
      let psc := Qmax 1 (maxabs_list (Qs oracle_box)) in
      mk_verdict (nodes_ok && box) (close_list psc (Qs oracle_box) (Qs obs))
  | _, _ => Vboth
  end.

(** an invalid region must be refused (ValueError) by every function that takes one *)
Definition c13_region_check (region : list D) (raised : bool) : verdict :=
  let v := check_region (Qs region) in
  mk_verdict (Bool.eqb (negb v) raised) (Bool.eqb (negb v) raised).
