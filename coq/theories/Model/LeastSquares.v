(** Model of verde/base/least_squares.py (used by Trend, Spline, VectorSpline2D).

    The code: [scaler = StandardScaler(with_mean=False)]; the Jacobian's columns
    are divided by [scale_j] = population standard deviation of column j (1 for
    a constant column); [LinearRegression] (damping None) or [Ridge(alpha =
    damping)] is fitted without intercept with [sample_weight = weights] giving
    [c]; the function returns [c / scale].

    The solvers are external (LAPACK through scikit-learn): they are modelled
    by their specification "[c] satisfies the normal equations of the scaled
    problem" ([solves_scaled]).  What is proved (Proofs/LeastSquaresProofs.v):
    that specification plus the code's un-scaling gives a minimiser of the
    objective [Phi] named by the property, and the consequences the property
    lists.  What is checked against the implementation on every run: the
    fitted parameters satisfy the normal equations of [Phi] on the
    implementation's own Jacobian up to a backward-error bound ([ls_cert]). *)
From Coq Require Import QArith Qabs ZArith List Bool Lia.
From Verde Require Import Lib.Dyadic Lib.QExtra Lib.LinAlgQ.
Import ListNotations.
Open Scope Q_scope.

(** ** column scaling: sklearn StandardScaler(with_mean=False, with_std=True) *)
Definition col (j : nat) (A : list (list Q)) : list Q := map (fun r => nth j r 0) A.
Definition Qlen {T} (l : list T) : Q := inject_Z (Z.of_nat (length l)).
Definition mean (l : list Q) : Q := Qsum l / Qlen l.
(** population variance (ddof = 0) *)
Definition pvar (l : list Q) : Q := Qsum (map (fun x => (x - mean l) * (x - mean l)) l) / Qlen l.
(** squared scale: the variance, or 1 for an exactly constant column *)
Definition scale2_of (l : list Q) : Q := if Qeqb (pvar l) 0 then 1 else pvar l.
Definition scale2 (n : nat) (A : list (list Q)) : list Q :=
  map (fun j => scale2_of (col j A)) (seq 0 n).

(** ** the objective named by the property and its normal equations

    Phi(p) = sum_i w_i (A_i . p - d_i)^2 + alpha * sum_j s2_j p_j^2 *)
Definition Phi (A : list (list Q)) (d w : list Q) (alpha : Q) (s2 p : list Q) : Q :=
  dot w (vsq (vsub (mv A p) d)) + alpha * dot s2 (vsq p).

(** half the gradient of Phi:  A^T W (A p - d) + alpha S^2 p   ([n] columns) *)
Definition normal_residual (n : nat) (A : list (list Q)) (d w : list Q) (alpha : Q) (s2 p : list Q) : list Q :=
  vadd (tmv n A (vmul w (vsub (mv A p) d))) (vscale alpha (vmul s2 p)).

Definition normal_eq n A d w alpha s2 p : Prop := vzero (normal_residual n A d w alpha s2 p).

(** ** the code path *)
(** the scaled Jacobian  A S^-1  handed to the solver *)
Definition scaled_matrix (s : list Q) (A : list (list Q)) : list (list Q) := map (fun r => vdiv r s) A.
(** specification of LinearRegression / Ridge(alpha) without intercept, with
    sample weights: the returned coefficients satisfy the normal equations of
    the (scaled) problem with the plain penalty alpha |c|^2 *)
Definition solves_scaled n s A d w alpha c : Prop :=
  normal_eq n (scaled_matrix s A) d w alpha (ones n) c.
(** [params = regr.coef_ / scaler.scale_] *)
Definition unscale (s c : list Q) : list Q := vdiv c s.

(** shape conditions shared by the theorems *)
Definition ls_shapes (n : nat) (A : list (list Q)) (d w s2 p : list Q) : Prop :=
  wfm n A /\ length d = length A /\ length w = length A /\ length s2 = n /\ length p = n.

(** ** the decidable statement evaluated on the implementation's output

    [p] is a numerical minimiser: component-wise
      |normal_residual p|_j <= tol * (|A|^T W (|A| |p| + |d|) + alpha S^2 |p|)_j
    (a relative backward-error bound: the right-hand side is what the
    residual's own floating-point evaluation could lose). *)
Definition residual_bound (n : nat) (A : list (list Q)) (d w : list Q) (alpha : Q) (s2 p : list Q) : list Q :=
  let Aa := map vabs A in
  vadd (tmv n Aa (vmul w (vadd (mv Aa (vabs p)) (vabs d)))) (vscale alpha (vmul s2 (vabs p))).

Definition tol30 : Q := 1 # (2 ^ 30).

Definition approx_normal_eq (tol : Q) n A d w alpha s2 p : Prop :=
  Forall2 (fun g b => Qabs g <= tol * b) (normal_residual n A d w alpha s2 p) (residual_bound n A d w alpha s2 p).

Definition approx_normal_eqb (tol : Q) n A d w alpha s2 p : bool :=
  all2 (fun g b => Qleb (Qabs g) (tol * b)) (normal_residual n A d w alpha s2 p) (residual_bound n A d w alpha s2 p).

(** ** Trend: 2-D polynomial of total degree <= N in the code's column order
    [sorted(((i, j) for j in range(N+1) for i in range(N+1-j)), key=sum)]
    (stable sort by i+j: within one total degree, j ascending) *)
Definition powers_of_total (t : nat) : list (nat * nat) :=
  map (fun j => ((t - j)%nat, j)) (seq 0 (S t)).
Definition power_combinations (deg : nat) : list (nat * nat) :=
  flat_map powers_of_total (seq 0 (S deg)).
Definition Qpow (x : Q) (k : nat) : Q := Qpower x (Z.of_nat k).
Definition monomials (deg : nat) (pt : Q * Q) : list Q :=
  map (fun ij => Qpow (fst pt) (fst ij) * Qpow (snd pt) (snd ij)) (power_combinations deg).
Definition trend_jacobian (deg : nat) (pts : list (Q * Q)) : list (list Q) := map (monomials deg) pts.
Definition trend_predict (deg : nat) (coef : list Q) (pts : list (Q * Q)) : list Q :=
  mv (trend_jacobian deg pts) coef.
