(** Model of verde's scoring and model-selection plumbing (C12):
    [select], [score_estimator], [fit_score], [cross_val_score],
    [train_test_split], [SplineCV.fit], and the execution of the per-split
    tasks by a scheduler (serial loop or dask.delayed + compute).

    Arrays are raveled lists of rationals; a tuple of arrays is a list of
    lists.  The estimator is abstract: [fit] maps the arguments it is fitted
    on to a fitted state, [predict] maps a fitted state and coordinates to a
    tuple of predicted components.  The cross-validator is an oracle: the
    list of (train indices, test indices) its [split] yields. *)
From Coq Require Import QArith Qabs List Bool Arith Permutation.
From Verde Require Import Lib.QExtra.
Import ListNotations.
Open Scope Q_scope.

Definition tuple := list (list Q).

(** numpy fancy indexing of a raveled array: [np.ravel(a)[index]] *)
Definition select {A} (d : A) (idx : list nat) (xs : list A) : list A :=
  map (fun i => nth i xs d) idx.

(** (coordinates, data, weights) after check_fit_input(unpack=False): weights
    is a tuple of arrays, or a tuple of None (modelled by [None]) *)
Record dataset := { ds_coords : tuple; ds_data : tuple; ds_weights : option tuple }.

(** verde.model_selection.select applied to each of the three tuples with the
    same index ("if the tuple contains a None it is returned as is") *)
Definition select_ds (idx : list nat) (ds : dataset) : dataset :=
  {| ds_coords := map (select 0 idx) (ds_coords ds);
     ds_data := map (select 0 idx) (ds_data ds);
     ds_weights := option_map (map (select 0 idx)) (ds_weights ds) |}.

(** every array of a dataset, in a fixed order *)
Definition ds_arrays (ds : dataset) : tuple :=
  ds_coords ds ++ ds_data ds ++ match ds_weights ds with Some w => w | None => [] end.

(** ** metrics (scikit-learn, single output, optional sample weights) *)
(** [Qred] keeps the running sum in lowest terms (value unchanged: [Qred q == q]) *)
Fixpoint qsum (l : list Q) : Q := match l with [] => 0 | x :: t => Qred (x + qsum t) end.

Fixpoint map2 {A B C} (f : A -> B -> C) (l1 : list A) (l2 : list B) : list C :=
  match l1, l2 with
  | x :: t1, y :: t2 => f x y :: map2 f t1 t2
  | _, _ => []
  end.

Definition wsum (w x : list Q) : Q := qsum (map2 Qmult w x).
Definition qmean (l : list Q) : Q := qsum l / inject_Z (Z.of_nat (length l)).

(** sample_weight=None means unit weights *)
Definition wts (w : option (list Q)) (n : nat) : list Q :=
  match w with Some l => l | None => repeat 1 n end.

Definition sqerr (y yhat : list Q) : list Q := map2 (fun a b => (a - b) * (a - b)) y yhat.
Definition abserr (y yhat : list Q) : list Q := map2 (fun a b => Qabs (a - b)) y yhat.
Definition wmean (w y : list Q) : Q := Qred (wsum w y / qsum w).

Definition r2_num (w y yhat : list Q) : Q := wsum w (sqerr y yhat).
Definition r2_den (w y : list Q) : Q := wsum w (map (fun a => (a - wmean w y) * (a - wmean w y)) y).

(** sklearn.metrics.r2_score(force_finite=True): 1 - num/den; a constant
    y_true gives 1 for a perfect prediction and 0 otherwise.  (With fewer than
    two samples sklearn returns NaN: not modelled, the check keeps away.) *)
Definition r2w (w y yhat : list Q) : Q :=
  let num := r2_num w y yhat in
  let den := r2_den w y in
  if Qeqb den 0 then (if Qeqb num 0 then 1 else 0) else 1 - num / den.

Definition metric := option (list Q) -> list Q -> list Q -> Q.

Definition r2 : metric := fun w y yhat => r2w (wts w (length y)) y yhat.
Definition neg_mse : metric := fun w y yhat =>
  let ws := wts w (length y) in - (wsum ws (sqerr y yhat) / qsum ws).
Definition neg_mae : metric := fun w y yhat =>
  let ws := wts w (length y) in - (wsum ws (abserr y yhat) / qsum ws).
(** a user-supplied callable scorer used by the check: minus the largest weighted absolute error *)
Definition neg_wmax : metric := fun w y yhat =>
  let ws := wts w (length y) in - fold_right Qmax 0 (map2 Qmult ws (abserr y yhat)).

(** ** scoring *)
Definition comp_weights (w : option tuple) (n : nat) : list (option (list Q)) :=
  match w with Some ws => map Some ws | None => repeat None n end.

(** score_estimator's mean over components: component i of the prediction is
    scored against data[i] with weights[i] *)
Definition score_components (mt : metric) (pred data : tuple) (w : option tuple) : list Q :=
  map2 (fun p yw => mt (snd yw) (fst yw) p) pred (combine data (comp_weights w (length data))).

Definition score_tuple (mt : metric) (pred data : tuple) (w : option tuple) : Q :=
  qmean (score_components mt pred data w).

Section Estimator.
Variable M : Type.                               (* fitted state *)
Variable fit : dataset -> M.                     (* clone(estimator).fit( *train ) *)
Variable predict : M -> tuple -> tuple.          (* .predict(coordinates) -> tuple of components *)
Variable mt : metric.

(** verde.base.utils.score_estimator(scoring, estimator, *test) *)
Definition score_estimator (m : M) (test : dataset) : Q :=
  score_tuple mt (predict m (ds_coords test)) (ds_data test) (ds_weights test).

(** verde.model_selection.fit_score *)
Definition fit_score (train test : dataset) : Q := score_estimator (fit train) test.

(** the task of one split: a fresh clone, the rows selected by the split *)
Definition split_task (ds : dataset) (s : list nat * list nat) : unit -> Q :=
  fun _ => fit_score (select_ds (fst s) ds) (select_ds (snd s) ds).

(** verde.cross_val_score, serial *)
Definition cross_val_score (splits : list (list nat * list nat)) (ds : dataset) : list Q :=
  map (fun s => split_task ds s tt) splits.
End Estimator.

(** ** task execution: dask.delayed objects computed in any order, results
    collected by task id *)
Fixpoint lookup {R} (k : nat) (l : list (nat * R)) : option R :=
  match l with
  | [] => None
  | (j, r) :: t => if Nat.eqb j k then Some r else lookup k t
  end.

Definition exec_order {R} (order : list nat) (tasks : list (unit -> R)) : list (nat * R) :=
  fold_left (fun acc k => match nth_error tasks k with
                          | Some t => acc ++ [(k, t tt)]
                          | None => acc
                          end) order [].

Definition run_tasks {R} (order : list nat) (tasks : list (unit -> R)) : list (option R) :=
  map (fun k => lookup k (exec_order order tasks)) (seq 0 (length tasks)).

Definition cross_val_score_delayed M fit predict mt (order : list nat)
    (splits : list (list nat * list nat)) (ds : dataset) : list (option Q) :=
  run_tasks order (map (split_task M fit predict mt ds) splits).

(** ** estimator objects: parameters and an optional fitted state, stored in a
    heap; [clone] allocates a new unfitted object with the same parameters,
    [fit] mutates the object at an address.  A fit_score task runs in two
    steps (fit, then score) that a parallel scheduler may interleave with the
    steps of other tasks. *)
Section Heap.
Variable P M : Type.
Record obj := { o_params : P; o_state : option M }.
Definition heap := list obj.

Variable fitp : P -> dataset -> M.
Variable predict : M -> tuple -> tuple.
Variable mt : metric.

Definition clone_at (h : heap) (a : nat) (dflt : P) : heap * nat :=
  (h ++ [{| o_params := o_params (nth a h {| o_params := dflt; o_state := None |}); o_state := None |}], length h).

Fixpoint set_nth {A} (n : nat) (x : A) (l : list A) : list A :=
  match n, l with
  | O, _ :: t => x :: t
  | S n', y :: t => y :: set_nth n' x t
  | _, [] => []
  end.

Inductive event := EFit (k : nat) | EScore (k : nat).

(** task k works on the object at [addr k] with the rows of split k *)
Definition step (addr : nat -> nat) (ds : dataset) (splits : list (list nat * list nat))
    (st : heap * list (nat * option Q)) (e : event) : heap * list (nat * option Q) :=
  let (h, res) := st in
  match e with
  | EFit k =>
      match nth_error splits k, nth_error h (addr k) with
      | Some s, Some o =>
          (set_nth (addr k) {| o_params := o_params o;
                               o_state := Some (fitp (o_params o) (select_ds (fst s) ds)) |} h, res)
      | _, _ => st
      end
  | EScore k =>
      match nth_error splits k, nth_error h (addr k) with
      | Some s, Some o =>
          (h, res ++ [(k, option_map (fun m => score_estimator M predict mt m (select_ds (snd s) ds)) (o_state o))])
      | _, _ => st
      end
  end.

Definition run_events addr ds splits (st : heap * list (nat * option Q)) (evs : list event) :=
  fold_left (step addr ds splits) evs st.

(** cross_val_score on heap objects: clone once per split (serially, as the
    code does when it builds the task list), then run the events *)
Fixpoint alloc_clones (h : heap) (a : nat) (dflt : P) (n : nat) : heap :=
  match n with O => h | S n' => alloc_clones (fst (clone_at h a dflt)) a dflt n' end.

Definition cvs_heap (h : heap) (a : nat) (dflt : P) (ds : dataset) (splits : list (list nat * list nat))
    (evs : list event) : heap * list (option (option Q)) :=
  let n := length splits in
  let h1 := alloc_clones h a dflt n in
  let addr := fun k => (length h + k)%nat in
  let (h2, res) := run_events addr ds splits (h1, []) evs in
  (h2, map (fun k => lookup k res) (seq 0 n)).

(** the same without cloning: every task fits the object that was passed in *)
Definition cvs_heap_inplace (h : heap) (a : nat) (ds : dataset) (splits : list (list nat * list nat))
    (evs : list event) : heap * list (option (option Q)) :=
  let n := length splits in
  let (h2, res) := run_events (fun _ => a) ds splits (h, []) evs in
  (h2, map (fun k => lookup k res) (seq 0 n)).

Definition serial_events (n : nat) : list event := flat_map (fun k => [EFit k; EScore k]) (seq 0 n).
End Heap.

(** a schedule respects the only dependency inside a task: split k is scored after it was fitted *)
Fixpoint fit_before_score (fitted : list nat) (evs : list event) : Prop :=
  match evs with
  | [] => True
  | EFit k :: t => fit_before_score (k :: fitted) t
  | EScore k :: t => In k fitted /\ fit_before_score fitted t
  end.

(** ** train_test_split: ONE split applied with [select] to coordinates, data and weights *)
Definition train_test_split (split : list nat * list nat) (ds : dataset) : dataset * dataset :=
  (select_ds (fst split) ds, select_ds (snd split) ds).

(** ** SplineCV.fit *)
(** numpy.argmax: index of the first maximum (0 for an empty list) *)
Fixpoint argmax_from (best : nat) (bv : Q) (i : nat) (l : list Q) : nat :=
  match l with
  | [] => best
  | x :: t => if Qltb bv x then argmax_from i x (S i) t else argmax_from best bv (S i) t
  end.
Definition argmax_first (l : list Q) : nat :=
  match l with [] => O | x :: t => argmax_from O x 1%nat t end.

Section SplineCV.
Variable M : Type.
Variable fitp : Q * Q -> dataset -> M.           (* Spline(mindist, damping).fit *)
Variable predict : M -> tuple -> tuple.
Variable mt : metric.

(** itertools.product(mindists, dampings) *)
Definition param_grid (mindists dampings : list Q) : list (Q * Q) := list_prod mindists dampings.

Definition cv_means (grid : list (Q * Q)) splits ds : list Q :=
  map (fun p => qmean (cross_val_score M (fitp p) predict mt splits ds)) grid.

(** returns (chosen parameters, final fitted state, mean scores) *)
Definition spline_cv (mindists dampings : list Q) splits (ds : dataset) : (Q * Q) * M * list Q :=
  let grid := param_grid mindists dampings in
  let scores := cv_means grid splits ds in
  let best := nth (argmax_first scores) grid (0, 0) in
  (best, fitp best ds, scores).
End SplineCV.
