(** Models of the exact interpolators of C01 other than the least-squares
    ones (which are in Model/LeastSquares.v): KNeighbors with k = 1, Chain,
    Vector. *)
From Coq Require Import QArith Qabs ZArith List Bool Lia.
From Verde Require Import Lib.Dyadic Lib.QExtra Lib.LinAlgQ.
Import ListNotations.
Open Scope Q_scope.

(** ** nearest neighbour with k = 1 (C01): brute-force arg-min of the squared
    distance; ties go to the first minimiser (any tie-break gives the same
    theorem: at a data point of a pairwise-distinct cloud there is no tie) *)
Definition sqdist (a b : Q * Q) : Q :=
  (fst a - fst b) * (fst a - fst b) + (snd a - snd b) * (snd a - snd b).

(** index (into [pts]) of the point nearest to [q]; [best] is the current
    candidate (index, squared distance), [i] the index of the head of [pts] *)
Fixpoint argmin_from (q : Q * Q) (pts : list (Q * Q)) (i : nat) (best : nat * Q) : nat * Q :=
  match pts with
  | [] => best
  | x :: t => let dx := sqdist q x in
              argmin_from q t (S i) (if Qltb dx (snd best) then (i, dx) else best)
  end.
Definition nearest (q : Q * Q) (pts : list (Q * Q)) : option nat :=
  match pts with
  | [] => None
  | x :: t => Some (fst (argmin_from q t 1 (0%nat, sqdist q x)))
  end.
(** KNeighbors(k=1).predict at q: the datum of the nearest data point *)
Definition knn1_predict (pts : list (Q * Q)) (data : list Q) (q : Q * Q) : option Q :=
  match nearest q pts with
  | Some i => Some (nth i data 0)
  | None => None
  end.


Definition pt_eq (a b : Q * Q) : Prop := fst a == fst b /\ snd a == snd b.
Definition pairwise_distinct (pts : list (Q * Q)) : Prop :=
  forall i j, (i < length pts)%nat -> (j < length pts)%nat -> i <> j ->
    ~ pt_eq (nth i pts (0, 0)) (nth j pts (0, 0)).

(** ** Chain (verde/chain.py): each step is fitted to the residual left by the
    previous ones ([step.filter] returns data - step.predict(coordinates)) and
    the chain predicts the sum of the steps' predictions.  A step is modelled
    by what it predicts AT THE DATA POINTS after being fitted to given data
    values there: a function [list Q -> list Q]. *)
Fixpoint chain_run (steps : list (list Q -> list Q)) (r : list Q) : list Q :=
  match steps with
  | [] => zeros (length r)
  | f :: t => let pr := f r in vadd pr (chain_run t (vsub r pr))
  end.
(** a step that reproduces the values it was fitted to *)
Definition exact_step (f : list Q -> list Q) : Prop := forall r, veq (f r) r.
Definition shape_preserving (f : list Q -> list Q) : Prop := forall r, length (f r) = length r.

(** ** Vector (verde/vector.py): one estimator per component, fitted and
    evaluated independently *)
Definition vector_run (comps : list (list Q -> list Q)) (data : list (list Q)) : list (list Q) :=
  map (fun fd => fst fd (snd fd)) (combine comps data).
