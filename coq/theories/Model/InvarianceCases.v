(** Case functions of the C04 correspondence check (harness/c04.py):
    metamorphic PAIRS of executions of the implementation.  Both outputs
    arrive as exact dyadics; Coq compares them against a tolerance standing
    for solver round-off, checks the output shape against the broadcasting
    model, and - where the base configuration has an independent model
    (KNeighbors: Model/Neighbors; Trend: exact monomials + the C02
    certificate) - compares the base output with the model. *)
From Coq Require Import QArith Qabs ZArith List Bool Arith Lia.
From Verde Require Import Lib.Verdict Lib.Dyadic Lib.QExtra Lib.LinAlgQ Lib.LinAlgD
  Model.LeastSquares Model.LSCases Model.Neighbors Model.NeighborCases Model.Invariance.
Import ListNotations.

(** ** shapes *)
(** every component of the output has [np.broadcast(easting, northing).shape]
    and the flat output has [ncomp] x that many elements *)
Definition shape_okb (ncomp : nat) (she shn shout : list nat) (out : list D) : bool :=
  match broadcast_shape she shn with
  | Some s => list_eqb Nat.eqb s shout && (length out =? ncomp * shape_size shout)%nat
  | None => false
  end.

(** ** tolerances *)
(** least squares: C * 2^-52 * kappa * max(scale, max|base|);
    pass-through / local interpolators: 2^-40 * max(scale, max|base|) *)
Inductive tolk := TolLS (C kappa : D) | TolExact.
Definition tol_of (t : tolk) (scale : D) (base : list D) : D :=
  let sc := dmax scale (dmaxabs base) in
  match t with
  | TolLS C kappa => dmul (dmul C (dpow2 (-52))) (dmul kappa sc)
  | TolExact => dmul (dpow2 (-40)) sc
  end.

Definition close_lists (tol : D) (a b : list D) : bool := all2 (dclose tol) a b.

(** ** a generic pair: [base] and [var] are the predictions of the base and of
    the transformed execution at the same query points.
    agree = the output shape is the model's broadcast shape;
    holds = that, and the variant's predictions equal the base's *)
Definition c04_pair (t : tolk) (scale : D) (ncomp : nat) (base var : list D) (she shn shout : list nat) : verdict :=
  let sh := shape_okb ncomp she shn shout var in
  mk_verdict sh (sh && close_lists (tol_of t scale base) base var).

(** ** Trend: the base execution against the model *)
Fixpoint dpow (x : D) (k : nat) : D := match k with O => d1 | S k' => dmul x (dpow x k') end.
Definition dmonomials (deg : nat) (e n : D) : list D :=
  map (fun ij => dmul (dpow e (fst ij)) (dpow n (snd ij))) (power_combinations deg).
Definition dtrend_jacobian (deg : nat) (es ns : list D) : list (list D) :=
  map (fun p => dmonomials deg (fst p) (snd p)) (combine es ns).

(** agree = the base coefficients pass the C02 certificate on the MODEL's
    Jacobian (exact monomials of the raveled coordinates) and the base
    predictions are the model polynomial with those coefficients, shape as
    broadcast; holds = the variant's predictions equal the base's *)
Definition c04_trend (deg : nat) (e n d w coef qe qn : list D) (t : tolk) (scale : D)
    (base var : list D) (she shn shout : list nat) : verdict :=
  let A := dtrend_jacobian deg e n in
  let ncoef := length (power_combinations deg) in
  let cert := ls_cert (-30) ncoef A d w coef d0 in
  let predm := pred_agree (dtrend_jacobian deg qe qn) coef base in
  let sh := shape_okb 1 she shn shout var in
  mk_verdict (sh && cert && predm) (sh && close_lists (tol_of t scale base) base var).

(** ** KNeighbors: the base execution against the brute-force model; queries
    whose k-th and (k+1)-th distances tie (2^-30 relative) are excluded - the
    property speaks of points in general position *)
Definition c04_knn (r : reduction) (k : nat) (de dn dv qe qn : list D)
    (base var : list D) (she shn shout : list nat) : verdict :=
  let pts := mkpts de dn in
  let vals := QsN dv in
  let qs := mkpts qe qn in
  let sc := maxabs_list vals in
  let sh := shape_okb 1 she shn shout var && (length base =? length qs)%nat && (length var =? length qs)%nat
            && (length vals =? length pts)%nat && (1 <=? k)%nat && (k <=? length pts)%nat in
  let rows := combine (map (sorted_keys pts) qs) (combine (QsN base) (QsN var)) in
  let live := filter (fun x => negb (knn_tie k (fst x))) rows in
  match live with
  | [] => if sh then Vskip else Vboth
  | _ =>
    let agree := forallb (fun x => close_by sc (predict_from_sorted r k vals (fst x)) (fst (snd x))) live in
    let inv := forallb (fun x => close_by sc (fst (snd x)) (snd (snd x))) live in
    mk_verdict (sh && agree) (sh && inv)
  end.

(** ** linearity: fit(a d1 + b d2) against a fit(d1) + b fit(d2) at the query points *)
Definition dlin (a : D) (x : list D) (b : D) (y : list D) : list D := dvadd (dvscale a x) (dvscale b y).

Definition same_len3 (p1 p2 p12 : list D) : bool :=
  (length p1 =? length p12)%nat && (length p2 =? length p12)%nat.

Definition c04_linear (t : tolk) (scale a b : D) (p1 p2 p12 : list D) : verdict :=
  let sc := dmax scale (dadd (dmul (dabs a) (dmaxabs p1)) (dmul (dabs b) (dmaxabs p2))) in
  let ok := same_len3 p1 p2 p12 && close_lists (tol_of t sc p12) (dlin a p1 b p2) p12 in
  mk_verdict ok ok.

(** negative control: an estimator that is NOT linear (median of neighbours,
    Cubic): the same test at a loose tolerance 2^-20 x scale must FAIL,
    otherwise the harness could not see non-linearity *)
Definition c04_nonlinear_control (scale a b : D) (p1 p2 p12 : list D) : verdict :=
  if same_len3 p1 p2 p12 && negb (close_lists (dmul (dpow2 (-20)) scale) (dlin a p1 b p2) p12)
  then Vok else Vdis.

(** a variant that raised although the property requires it to work *)
Definition c04_raised : verdict := Vviol.
