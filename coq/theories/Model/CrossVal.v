(** Model of verde's blocked cross-validators (property C11):

      verde.utils.partition_by_sum
      verde.BlockKFold._iter_test_indices     (verde/model_selection.py)
      verde.BlockShuffleSplit._iter_test_indices
      sklearn BaseCrossValidator.split (test mask, train = complement),
      sklearn KFold._iter_test_indices without shuffling,
      sklearn ShuffleSplit._iter_indices and _validate_shuffle_split.

    Samples are the positions [0 .. n-1] of the list [labels], whose entry
    [j] is the block label verde.block_split assigned to sample [j] (an
    input, observed by the harness on the same coordinates).  Random draws are
    ORACLE inputs: the permutation numpy's RandomState.shuffle applies to the
    block ids (BlockKFold, shuffle=True) and the sequence of permutations
    RandomState.permutation returns inside ShuffleSplit (BlockShuffleSplit).
    Python's ValueError is [None]. *)
From Coq Require Import Arith List Bool ZArith QArith Qround Qabs.
From Verde Require Import Lib.Verdict Lib.Dyadic.
Import ListNotations.
Close Scope Q_scope.
Open Scope nat_scope.

(** ** numpy / python primitives *)

Definition memb (x : nat) (l : list nat) : bool := existsb (Nat.eqb x) l.

Fixpoint nodupb (l : list nat) : bool :=
  match l with [] => true | x :: t => negb (memb x t) && nodupb t end.

(** array.cumsum() *)
Fixpoint cumsum_from (acc : nat) (l : list nat) : list nat :=
  match l with [] => [] | x :: t => (acc + x) :: cumsum_from (acc + x) t end.
Definition cumsum := cumsum_from 0.

(** np.searchsorted(a, v, side="right") on a non-decreasing [a]: the first
    position whose entry exceeds [v] (= the number of entries <= v) *)
Fixpoint searchsorted_right (a : list nat) (v : nat) : nat :=
  match a with
  | [] => 0
  | x :: t => if x <=? v then S (searchsorted_right t v) else 0
  end.

(** np.split(l, idx): l[0:i1], l[i1:i2], ..., l[ik:] *)
Fixpoint slices {A} (l : list A) (a : nat) (idx : list nat) : list (list A) :=
  match idx with
  | [] => [skipn a l]
  | b :: t => firstn (b - a) (skipn a l) :: slices l b t
  end.
Definition np_split {A} (l : list A) (idx : list nat) := slices l 0 idx.

(** np.unique on labels: ascending, without repetition *)
Fixpoint insert_u (x : nat) (l : list nat) : list nat :=
  match l with
  | [] => [x]
  | y :: t => if x <? y then x :: l else if x =? y then l else y :: insert_u x t
  end.
Definition usort (l : list nat) : list nat := fold_right insert_u [] l.

(** ** verde.utils.partition_by_sum (array of naturals, parts >= 1)
    the code in /repo (after the repair 18a2287): split point j is where the
    cumulative sum crosses (j * total) // parts *)
Definition partition_by_sum (array : list nat) (parts : nat) : option (list nat) :=
  let size := length array in
  if size <? parts then None else
  let cs := cumsum array in
  let ideal_cumsum := map (fun j => (j * last cs 0) / parts) (seq 1 (parts - 1)) in
  let indices := map (searchsorted_right cs) ideal_cumsum in
  if negb (nodupb indices) || existsb (Nat.eqb 0) indices || existsb (Nat.eqb size) indices
  then None else Some indices.

(** the pinned (unrepaired) code: multiples of total // parts, so that the
    remainder total mod parts piles up in the last part; used only to refute it *)
Definition partition_by_sum_pinned (array : list nat) (parts : nat) : option (list nat) :=
  let size := length array in
  if size <? parts then None else
  let cs := cumsum array in
  let ideal_sum := last cs 0 / parts in
  let ideal_cumsum := map (fun j => j * ideal_sum) (seq 1 (parts - 1)) in
  let indices := map (searchsorted_right cs) ideal_cumsum in
  if negb (nodupb indices) || existsb (Nat.eqb 0) indices || existsb (Nat.eqb size) indices
  then None else Some indices.

(** ** sklearn KFold(n_splits=k).split(range(n)), shuffle=False: test folds *)
Definition fold_sizes (n k : nat) : list nat :=
  map (fun j => n / k + (if j <? n mod k then 1 else 0)) (seq 0 k).
Fixpoint consec (start : nat) (sizes : list nat) : list (list nat) :=
  match sizes with [] => [] | s :: t => seq start s :: consec (start + s) t end.
Definition kfold (n k : nat) : list (list nat) := consec 0 (fold_sizes n k).

(** ** from blocks to points and to (train, test) *)
Definition lab (labels : list nat) (j : nat) : nat := nth j labels 0.

(** np.where(np.isin(labels, blocks))[0] *)
Definition where_isin (labels blocks : list nat) : list nat :=
  filter (fun j => memb (lab labels j) blocks) (seq 0 (length labels)).

(** block_ids[positions] *)
Definition take (ids positions : list nat) : list nat := map (fun b => nth b ids 0) positions.

(** BaseCrossValidator.split: boolean test mask, train = ~mask *)
Definition sk_split (n : nat) (test_index : list nat) : list nat * list nat :=
  (filter (fun j => negb (memb j test_index)) (seq 0 n),
   filter (fun j => memb j test_index) (seq 0 n)).

Definition count (labels : list nat) (b : nat) : nat := count_occ Nat.eq_dec labels b.

(** ** verde.BlockKFold(...).split(X)
    [shuffle]: None = shuffle=False; Some p = shuffle=True where p is the
    permutation RandomState(random_state).shuffle applies (new[i] = old[p[i]]).
    Result: None = ValueError; Some (warned, [(train, test); ...]). *)
Definition block_ids (labels : list nat) (shuffle : option (list nat)) : list nat :=
  match shuffle with None => usort labels | Some p => take (usort labels) p end.

Definition block_kfold (labels : list nat) (n_splits : nat) (shuffle : option (list nat))
    (balance : bool) : option (bool * list (list nat * list nat)) :=
  let nb := length (usort labels) in
  if (n_splits <? 2) || (nb <? n_splits) then None else
  let ids := block_ids labels shuffle in
  let kf := kfold nb n_splits in
  let wf :=
    if balance then
      match partition_by_sum (map (count labels) ids) n_splits with
      | Some sp => (false, np_split (seq 0 nb) sp)
      | None => (true, kf)
      end
    else (false, kf) in
  Some (fst wf, map (fun f => sk_split (length labels) (where_isin labels (take ids f))) (snd wf)).

(** ** sklearn _validate_shuffle_split(n_samples, test_size, train_size, 0.1)
    sizes are absent, python ints, or floats (given exactly as dyadics) *)
Inductive size_arg := SNone | SInt (z : Z) | SFloat (d : D).

Definition default_test_size : D := (3602879701896397, -55)%Z.  (* the double 0.1 *)

Definition size_bad (nz : Z) (s : size_arg) : bool :=
  match s with
  | SNone => false
  | SInt z => ((nz <=? z) || (z <=? 0))%Z
  | SFloat d => Qle_bool (D2Q d) 0 || Qle_bool 1 (D2Q d)
  end.

Definition validate_shuffle_split (n : nat) (test_size train_size : size_arg) : option (nat * nat) :=
  let nz := Z.of_nat n in
  let test_size := match test_size, train_size with SNone, SNone => SFloat default_test_size | _, _ => test_size end in
  if size_bad nz test_size || size_bad nz train_size then None else
  if match test_size, train_size with
     | SFloat t, SFloat r => negb (Qle_bool (D2Q t + D2Q r) 1)
     | _, _ => false
     end then None else
  let n_test := match test_size with
                | SFloat d => Some (Qceiling (D2Q d * inject_Z nz))
                | SInt z => Some z
                | SNone => None
                end in
  let n_train := match train_size with
                 | SFloat d => Some (Qfloor (D2Q d * inject_Z nz))
                 | SInt z => Some z
                 | SNone => None
                 end in
  let tt := match n_train, n_test with
            | None, Some t => (nz - t, t)
            | Some r, None => (r, nz - r)
            | Some r, Some t => (r, t)
            | None, None => (0, 0)
            end%Z in
  if (nz <? fst tt + snd tt)%Z then None else
  if (fst tt =? 0)%Z then None else
  Some (Z.to_nat (fst tt), Z.to_nat (snd tt)).

(** ShuffleSplit._iter_indices: one rng.permutation(n) per split *)
Definition shuffle_draw (n_train n_test : nat) (perm : list nat) : list nat * list nat :=
  (firstn n_train (skipn n_test perm), firstn n_test perm).

(** ** verde.BlockShuffleSplit *)
Definition imbalance (train_points test_points train_blocks test_blocks : nat) : Q :=
  Qabs ((Z.of_nat train_points # Pos.of_nat test_points)
        - (Z.of_nat train_blocks # Pos.of_nat test_blocks))%Q.

(** np.argmin: the first position holding the minimum *)
Fixpoint argmin (l : list Q) : nat :=
  match l with
  | [] => 0
  | x :: t =>
      match t with
      | [] => 0
      | _ => let j := argmin t in if Qle_bool x (nth j t 0%Q) then 0 else S j
      end
  end.

(** one candidate of the balancing loop: (imbalance, test points) *)
Definition candidate (labels ids : list nat) (draw : list nat * list nat) : Q * list nat :=
  let train_points := where_isin labels (take ids (fst draw)) in
  let test_points := where_isin labels (take ids (snd draw)) in
  (imbalance (length train_points) (length test_points) (length (fst draw)) (length (snd draw)),
   test_points).

(** the next [b] items, [k] times *)
Fixpoint groups {A} (k b : nat) (l : list A) : list (list A) :=
  match k with 0 => [] | S k' => firstn b l :: groups k' b (skipn b l) end.

Definition best_candidate (cs : list (Q * list nat)) : list nat :=
  snd (nth (argmin (map fst cs)) cs (0%Q, [])).

(** [perms]: the n_splits*balancing permutations of range(number of blocks)
    drawn by ShuffleSplit's random state, in order *)
Definition block_shuffle_split (labels : list nat) (n_splits balancing : nat)
    (test_size train_size : size_arg) (perms : list (list nat))
    : option (list (list nat * list nat)) :=
  if balancing <? 1 then None else
  if n_splits =? 0 then Some [] else
  let ids := usort labels in
  match validate_shuffle_split (length ids) test_size train_size with
  | None => None
  | Some (n_train, n_test) =>
      Some (map (fun g => sk_split (length labels)
                            (best_candidate (map (fun p => candidate labels ids (shuffle_draw n_train n_test p)) g)))
                (groups n_splits balancing perms))
  end.

(** ** Decidable form of the statement of C11, evaluated on the observed
    output of the implementation *)

(** l is a rearrangement of 0..n-1 *)
Definition is_perm_seq (l : list nat) (n : nat) : bool :=
  nodupb l && (length l =? n) && forallb (fun j => j <? n) l.

(** (train, test) partitions the samples and no block is on both sides *)
Definition split_ok (labels : list nat) (s : list nat * list nat) : bool :=
  is_perm_seq (fst s ++ snd s) (length labels) &&
  (let test_blocks := usort (map (lab labels) (snd s)) in
   forallb (fun b => negb (memb b test_blocks)) (usort (map (lab labels) (fst s)))).

Definition n_blocks_of (labels : list nat) (points : list nat) : nat :=
  length (usort (map (lab labels) points)).

(** every p differs from total/k (the rational) by less than M, one block's
    population (the largest):  | p - total/k | < M,  cross-multiplied by k *)
Definition balance_ok (total k M : nat) (ps : list nat) : bool :=
  forallb (fun p => (k * p <? total + k * M) && (total <? k * p + k * M)) ps.

Definition spread_le_1 (l : list nat) : bool :=
  forallb (fun a => forallb (fun b => a <=? S b) l) l.

(** [shuffle] (the oracle) fixes the order of the block ids; "balancing is
    achievable" means that partition_by_sum finds split points for the block
    populations in that order - a warning (and the fallback to equal block
    counts) is legitimate only when balancing was requested and it does not *)
Definition kfold_holds (labels : list nat) (n_splits : nat) (shuffle : option (list nat)) (balance : bool)
    (obs : option (bool * list (list nat * list nat))) : bool :=
  let ids := usort labels in
  let nb := length ids in
  let n := length labels in
  let must_fail := (n_splits <? 2) || (nb <? n_splits) in
  match obs with
  | None => must_fail
  | Some (warned, splits) =>
      negb must_fail &&
      (length splits =? n_splits) &&
      forallb (split_ok labels) splits &&
      forallb (fun s => negb (length (snd s) =? 0)) splits &&
      is_perm_seq (concat (map snd splits)) n &&
      (if warned
       then balance &&
            match partition_by_sum (map (count labels) (block_ids labels shuffle)) n_splits with
            | None => true | Some _ => false end
       else true) &&
      (if balance && negb warned
       then balance_ok n n_splits (list_max (map (count labels) ids))
                       (map (fun s => length (snd s)) splits)
       else spread_le_1 (map (fun s => n_blocks_of labels (snd s)) splits))
  end.

Definition splits_eqb (a b : list (list nat * list nat)) : bool :=
  list_eqb (fun x y => list_eqb Nat.eqb (fst x) (fst y) && list_eqb Nat.eqb (snd x) (snd y)) a b.

Definition kfold_out_eqb (a b : option (bool * list (list nat * list nat))) : bool :=
  option_eqb (fun x y => Bool.eqb (fst x) (fst y) && splits_eqb (snd x) (snd y)) a b.

(** [repro] = a second run with the same random_state gave identical folds *)
Definition c11_kfold_case (labels : list nat) (n_splits : nat) (shuffle : option (list nat))
    (balance repro : bool) (obs : option (bool * list (list nat * list nat))) : verdict :=
  mk_verdict (kfold_out_eqb (block_kfold labels n_splits shuffle balance) obs)
             (repro && kfold_holds labels n_splits shuffle balance obs).

(** partition_by_sum called directly *)
Definition strictly_inside (len : nat) (idx : list nat) : bool :=
  (fix go (prev : nat) (l : list nat) : bool :=
     match l with [] => prev <? len | b :: t => (prev <? b) && go b t end) 0 idx.

Definition pbs_holds (array : list nat) (parts : nat) (obs : option (list nat)) : bool :=
  match obs with
  | None => true
  | Some idx =>
      (parts <=? length array) && (S (length idx) =? parts) &&
      strictly_inside (length array) idx &&
      (if 2 <=? parts
       then balance_ok (list_sum array) parts (list_max array)
                       (map (@list_sum) (np_split array idx))
       else true)
  end.

Definition c11_pbs_case (array : list nat) (parts : nat) (obs : option (list nat)) : verdict :=
  mk_verdict (option_eqb (list_eqb Nat.eqb) (partition_by_sum array parts) obs)
             (implb (length array <? parts) (match obs with None => true | _ => false end)
              && pbs_holds array parts obs).

(** BlockShuffleSplit *)
Definition group_candidates (labels : list nat) (n_train n_test : nat) (g : list (list nat)) :=
  map (fun p => candidate labels (usort labels) (shuffle_draw n_train n_test p)) g.

(** the observed test set is the test set of a candidate of its group whose
    imbalance no other candidate of the group beats *)
Definition chosen_is_best (cs : list (Q * list nat)) (test : list nat) : bool :=
  existsb (fun c => list_eqb Nat.eqb (snd c) test &&
                    forallb (fun c' => Qle_bool (fst c) (fst c')) cs) cs.

(** train points / test points of a draw *)
Definition point_ratio (labels ids : list nat) (draw : list nat * list nat) : Q :=
  (Z.of_nat (length (where_isin labels (take ids (fst draw))))
   # Pos.of_nat (length (where_isin labels (take ids (snd draw))))).

(** two candidates reach the minimal imbalance with different point ratios
    (one above, one below the block ratio): the order of their float
    imbalances is decided by rounding *)
Definition imbalance_tie (labels : list nat) (n_train n_test : nat) (g : list (list nat)) : bool :=
  let cs := group_candidates labels n_train n_test g in
  let rs := map (fun p => point_ratio labels (usort labels) (shuffle_draw n_train n_test p)) g in
  let i := argmin (map fst cs) in
  existsb (fun cr => Qeq_bool (fst (fst cr)) (fst (nth i cs (0%Q, []))) &&
                     negb (Qeq_bool (snd cr) (nth i rs 0%Q)))
          (combine cs rs).

Definition bss_holds (labels : list nat) (n_splits balancing : nat)
    (test_size train_size : size_arg) (perms : list (list nat))
    (obs : option (list (list nat * list nat))) : bool :=
  let ids := usort labels in
  let v := validate_shuffle_split (length ids) test_size train_size in
  let must_fail := (balancing <? 1) || (negb (n_splits =? 0) && match v with None => true | _ => false end) in
  match obs with
  | None => must_fail
  | Some splits =>
      negb must_fail &&
      (length splits =? n_splits) &&
      forallb (split_ok labels) splits &&
      match v with
      | None => true
      | Some (n_train, n_test) =>
          forallb (fun s => n_blocks_of labels (snd s) =? n_test) splits &&
          forallb (fun sg => chosen_is_best (group_candidates labels n_train n_test (snd sg)) (snd (fst sg)))
                  (combine splits (groups n_splits balancing perms))
      end
  end.

Definition bss_tie (labels : list nat) (n_splits balancing : nat)
    (test_size train_size : size_arg) (perms : list (list nat)) : bool :=
  match validate_shuffle_split (length (usort labels)) test_size train_size with
  | None => false
  | Some (n_train, n_test) =>
      existsb (imbalance_tie labels n_train n_test)
              (groups n_splits balancing perms)
  end.

Definition c11_bss_case (labels : list nat) (n_splits balancing : nat)
    (test_size train_size : size_arg) (perms : list (list nat)) (repro : bool)
    (obs : option (list (list nat * list nat))) : verdict :=
  mk_verdict_tie (bss_tie labels n_splits balancing test_size train_size perms)
    (option_eqb splits_eqb (block_shuffle_split labels n_splits balancing test_size train_size perms) obs)
    (repro && bss_holds labels n_splits balancing test_size train_size perms obs).
