(** Model of verde.projections.project_region:

      east, north = grid_coordinates(region, shape=(101, 101))
      east, north = projection(east.ravel(), north.ravel())
      return (east.min(), east.max(), north.min(), north.max())

    The projection is an arbitrary pair of functions of a point (element-wise
    projections; what verde documents).  [nodes] is the raveled 101 x 101
    meshgrid (row-major: northing outer, easting inner). *)
From Coq Require Import QArith List Bool.
From Verde Require Import Lib.QExtra Model.Coordinates.
Import ListNotations.
Open Scope Q_scope.

Definition region_nodes (w e s n : Q) (k : nat) : list (Q * Q) :=
  flat_map (fun y => map (fun x => (x, y)) (linspace w e k)) (linspace s n k).

Definition project_region_k (k : nat) (f g : Q -> Q -> Q) (region : list Q) : option (Q * Q * Q * Q) :=
  match region with
  | [w; e; s; n] =>
      if check_region region then
        let pts := region_nodes w e s n k in
        get_region (map (fun p => f (fst p) (snd p)) pts) (map (fun p => g (fst p) (snd p)) pts)
      else None
  | _ => None
  end.

Definition project_region := project_region_k 101.
