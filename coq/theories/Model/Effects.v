(** C20 (a): effect IR of functions, heap semantics, may-alias analysis.

    harness/translate_effects.py regenerates one [prog] per public callable
    (and per helper it calls) from verde's source.  Variables are numbers;
    the first [np] variables are the parameters.  A value is the list of
    array buffers it references (containers - tuples, lists, dicts, objects -
    are values holding references; arrays are buffers in the heap). *)
From Coq Require Import List Bool Arith Lia.
Import ListNotations.

Definition var := nat.
Definition buf := nat.

Inductive instr :=
| Fresh (x : var)                   (* x := a newly allocated array / scalar / copy *)
| Alias (x : var) (ys : list var)   (* x := something built from ys: a view, a container of them, or a copy *)
| Inplace (x : var).                (* the arrays x references are written in place *)

Record prog := { nparams : nat; body : list instr }.

(** ------------------------------------------------------------------ *)
(** semantics: control flow is abstracted away completely - an execution is
    ANY finite sequence of instructions of the program, in any order, with
    any repetition (this covers every path through branches and loops). *)
Definition env := var -> list buf.
Definition heap := buf -> nat.
Definition cfg := (env * heap * nat)%type.      (* nat: allocation pointer, buffers >= it are unallocated *)

Definition upd (e : env) (x : var) (v : list buf) : env := fun y => if Nat.eqb y x then v else e y.

Inductive step : instr -> cfg -> cfg -> Prop :=
| SFresh : forall x e h n h',
    (forall b, b < n -> h' b = h b) ->
    step (Fresh x) (e, h, n) (upd e x [n], h', S n)
| SAlias : forall x ys e h n refs m h',
    (* a view or a copy, non-deterministically: every referenced buffer is one
       referenced by some y, or one of m newly allocated buffers *)
    (forall b, In b refs -> (exists y, In y ys /\ In b (e y)) \/ (n <= b < n + m)) ->
    (forall b, b < n -> h' b = h b) ->
    step (Alias x ys) (e, h, n) (upd e x refs, h', n + m)
| SInplace : forall x e h n h',
    (forall b, ~ In b (e x) -> h' b = h b) ->
    step (Inplace x) (e, h, n) (e, h', n).

Inductive run (p : prog) : cfg -> cfg -> Prop :=
| RunNil : forall c, run p c c
| RunStep : forall i c1 c2 c3, In i (body p) -> step i c1 c2 -> run p c2 c3 -> run p c1 c3.

(** ------------------------------------------------------------------ *)
(** analysis: S is a set of pairs (variable, parameter) "variable may
    reference a buffer that parameter referenced at entry" *)
Definition pairs := list (var * nat).

Definition pmem (x k : nat) (S : pairs) : bool :=
  existsb (fun p => Nat.eqb (fst p) x && Nat.eqb (snd p) k) S.

Definition pts (S : pairs) (x : var) : list nat :=
  map snd (filter (fun p => Nat.eqb (fst p) x) S).

Definition add (x k : nat) (S : pairs) : pairs := if pmem x k S then S else (x, k) :: S.

Definition transfer (S : pairs) (i : instr) : pairs :=
  match i with
  | Alias x ys => fold_left (fun acc y => fold_left (fun acc2 k => add x k acc2) (pts S y) acc) ys S
  | _ => S
  end.

Definition pass (S : pairs) (l : list instr) : pairs := fold_left transfer l S.

Fixpoint iterate (fuel : nat) (S : pairs) (l : list instr) : pairs :=
  match fuel with
  | 0 => S
  | S f => let S' := pass S l in if Nat.eqb (length S') (length S) then S else iterate f S' l
  end.

Definition init_pairs (np : nat) : pairs := map (fun k => (k, k)) (seq 0 np).

(** post-fixpoint test (this, not the iteration, is what soundness needs) *)
Definition closed_instr (S : pairs) (i : instr) : bool :=
  match i with
  | Alias x ys => forallb (fun y => forallb (fun k => pmem x k S) (pts S y)) ys
  | _ => true
  end.

Definition closedb (p : prog) (S : pairs) : bool :=
  forallb (fun k => pmem k k S) (seq 0 (nparams p)) && forallb (closed_instr S) (body p).

Definition solve (p : prog) : pairs :=
  iterate (S (length (body p)) * S (nparams p) * S (length (body p))) (init_pairs (nparams p)) (body p).

Fixpoint dedup (l : list nat) : list nat :=
  match l with
  | [] => []
  | a :: t => if existsb (Nat.eqb a) t then dedup t else a :: dedup t
  end.

Definition mutated_of (p : prog) (S : pairs) : list nat :=
  concat (map (fun i => match i with Inplace x => pts S x | _ => [] end) (body p)).

Fixpoint insert (a : nat) (l : list nat) : list nat :=
  match l with [] => [a] | b :: t => if Nat.leb a b then a :: l else b :: insert a t end.
Definition sort (l : list nat) : list nat := fold_right insert [] l.

(** parameters whose buffers may be written; when the iteration did not reach
    a post-fixpoint: all of them and the out-of-range marker [nparams p] *)
Definition mutated_params (p : prog) : list nat :=
  let R := solve p in
  if closedb p R then sort (dedup (mutated_of p R)) else seq 0 (S (nparams p)).

(** parameters the value of variable [x] (the return value) may alias *)
Definition aliases_of (p : prog) (x : var) : list nat :=
  let R := solve p in
  if closedb p R then sort (dedup (pts R x)) else seq 0 (S (nparams p)).
