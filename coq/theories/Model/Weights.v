(** Model of verde.utils.variance_to_weights and verde.BlockMean.filter (C10).

    variance_to_weights (verde/utils.py), per component:
        var = nan_to_num(atleast_1d(var), copy=True)       -- NaN -> 0
        w = ones_like(var); nonzero = var > tol
        if any(nonzero): w[nonzero] = var[nonzero].min() / var[nonzero]
    A variance is an [option Q] with [None] for NaN.

    BlockMean.filter (verde/blockreduce.py): the same groupby as BlockReduce
    (Model/BlockReduce.v) with three aggregation paths
      no weights             mean,           np.var (ddof is a model parameter,
                                             probed by the harness once per run)
      weights, uncertainty   weighted mean,  1 / sum(w)
      weights, otherwise     weighted mean,  sum w (x - m)^2 / sum w
    followed by variance_to_weights of each component's block variances;
    coordinates as in BlockReduce with the (unweighted) mean; uncertainty
    without weights is a ValueError ([None]). *)
From Coq Require Import ZArith QArith Qabs Qminmax List Bool.
From Verde Require Import Lib.Verdict Lib.Dyadic Lib.QList Model.BlockReduce.
Import ListNotations.

(** ** variance_to_weights *)
Definition nan_to_num (v : option Q) : Q := match v with None => 0 | Some q => q end.

Definition above (tol v : Q) : bool := negb (Qle_bool v tol).   (* v > tol *)

(** var[nonzero].min() when any(nonzero) *)
Definition minpos (tol : Q) (var : list Q) : option Q :=
  match filter (above tol) var with
  | [] => None
  | l => Some (qmin l)
  end.

Definition v2w1 (tol : Q) (vs : list (option Q)) : list Q :=
  let var := map nan_to_num vs in
  match minpos tol var with
  | None => map (fun _ => 1) var
  | Some m => map (fun v => if above tol v then Qred (m / v) else 1) var
  end.

Definition variance_to_weights (tol : Q) (comps : list (list (option Q))) : list (list Q) :=
  map (v2w1 tol) comps.

(** specification vocabulary: [m] is the least variance above the tolerance *)
Definition is_minpos (tol : Q) (vs : list (option Q)) (m : Q) : Prop :=
  (exists q, In (Some q) vs /\ tol < q /\ q == m) /\
  (forall q, In (Some q) vs -> tol < q -> m <= q).

(** ** BlockMean.filter *)
Definition bm_unweighted (ddof : nat) (labels : list Z) (col : list Q) : list Q * list (option Q) :=
  let g := groupby (combine labels col) in
  (map (fun e => qmean (snd e)) g, map (fun e => qvar ddof (snd e)) g).

Definition bm_uncertainty (labels : list Z) (col w : list Q) : list Q * list (option Q) :=
  let g := groupby (combine labels (combine col w)) in
  (map (fun e => qavg (map fst (snd e)) (map snd (snd e))) g,
   map (fun e => Some (Qred (/ qsum (map snd (snd e))))) g).

Definition bm_wvariance (labels : list Z) (col w : list Q) : list Q * list (option Q) :=
  let g := groupby (combine labels (combine col w)) in
  (map (fun e => qavg (map fst (snd e)) (map snd (snd e))) g,
   map (fun e => Some (qwvar (map fst (snd e)) (map snd (snd e)))) g).

Definition bm_result := (list (list Q) * list (list Q) * list (list Q))%type.  (* coordinates, means, weights *)

Definition block_mean (ddof : nat) (tol : Q) (labels : list Z) (coords data : list (list Q))
    (weights : option (list (list Q))) (centres : list Q * list Q) (center drop uncertainty : bool)
  : option bm_result :=
  if negb (br_valid labels coords data weights) then None else
  let bc := block_coords qmean labels coords centres center drop in
  match weights with
  | None =>
      if uncertainty then None
      else let r := map (bm_unweighted ddof labels) data in
           Some (bc, map fst r, map (fun p => v2w1 tol (snd p)) r)
  | Some ws =>
      let r := map2 (if uncertainty then bm_uncertainty labels else bm_wvariance labels) data ws in
      Some (bc, map fst r, map (fun p => v2w1 tol (snd p)) r)
  end.

(** *** the same in specification vocabulary (per distinct label, over the
    selected members) *)
Definition spec_var (ddof : nat) (labels : list Z) (col : list Q) : list (option Q) :=
  map (fun k => qvar ddof (select k (combine labels col))) (ukeys labels).
Definition spec_uvar (labels : list Z) (w : list Q) : list (option Q) :=
  map (fun k => Some (Qred (/ qsum (select k (combine labels w))))) (ukeys labels).
Definition spec_wvar (labels : list Z) (col w : list Q) : list (option Q) :=
  map (fun k => Some (qwvar (select k (combine labels col)) (select k (combine labels w)))) (ukeys labels).

(** ** decidable statements *)

(** weights [ws] obey the documented rule for variances [vs]: same length, all
    in (0,1], one of them 1, weight 1 at or below the tolerance and for NaN,
    and otherwise  w * v  is the least variance above the tolerance
    (within relative [eps]) *)
Definition is_nil {B} (l : list B) : bool := match l with [] => true | _ => false end.

Definition v2w_holds (eps tol : Q) (vs : list (option Q)) (ws : list Q) : bool :=
  Nat.eqb (length ws) (length vs) &&
  forallb (fun w => negb (Qle_bool w 0) && Qle_bool w 1) ws &&
  (is_nil vs || existsb (fun w => Qeq_bool w 1) ws) &&
  forallb (fun p =>
    let w := snd p in
    match fst p with
    | None => Qeq_bool w 1
    | Some q =>
        if Qle_bool q tol then Qeq_bool w 1
        else
          forallb (fun v' => match v' with
                             | Some q' => Qle_bool q' tol || Qle_bool (w * q) (q' * (1 + eps))
                             | None => true
                             end) vs &&
          existsb (fun v' => match v' with
                             | Some q' => above tol q' && Qle_bool (Qabs (w * q - q')) (q' * eps)
                             | None => false
                             end) vs
    end) (combine vs ws).

(** a block variance within round-off of the tolerance: the weight rule is
    discontinuous there, such cases are excluded from the comparison *)
(** the part of the rule that is insensitive to round-off *)
Definition v2w_range_holds (vs : list (option Q)) (ws : list Q) : bool :=
  Nat.eqb (length ws) (length vs) &&
  forallb (fun w => negb (Qle_bool w 0) && Qle_bool w 1) ws &&
  (is_nil vs || existsb (fun w => Qeq_bool w 1) ws).

Definition near_tol (tol : Q) (vs : list (option Q)) : bool :=
  existsb (fun v => match v with
                    | Some q => Qle_bool (Qabs (q - tol)) (Qabs tol * (1 # 2 ^ 20))
                    | None => false
                    end) vs.

Definition weights_close (eps : Q) (expect obs : list Q) : bool :=
  Nat.eqb (length expect) (length obs) &&
  forallb (fun p => close eps 1 (fst p) (snd p)) (combine expect obs).

Fixpoint forallb2 {X Y} (f : X -> Y -> bool) (lx : list X) (ly : list Y) : bool :=
  match lx, ly with
  | [], [] => true
  | x :: tx, y :: ty => f x y && forallb2 f tx ty
  | _, _ => false
  end.

(** coordinates: as for BlockReduce with the mean *)
Definition bm_coords_holds (epsc : Q) (labels : list Z) (coords : list (list Q)) (centres : list Q * list Q)
    (center drop : bool) (obs_coords : list (list Q)) : bool :=
  let cs := if drop then firstn 2 coords else coords in
  coords_close epsc center cs
    (let reduced := map (spec_col qmean labels) cs in
     if center
     then centre_col (fst centres) labels :: centre_col (snd centres) labels :: skipn 2 reduced
     else reduced)
    obs_coords.

(** the block variances the rule refers to, per component *)
Definition spec_variances (ddof : nat) (labels : list Z) (data : list (list Q))
    (weights : option (list (list Q))) (uncertainty : bool) : list (list (option Q)) :=
  match weights with
  | None => map (spec_var ddof labels) data
  | Some ws => if uncertainty then map (spec_uvar labels) ws
               else map2 (spec_wvar labels) data ws
  end.

Definition spec_means (labels : list Z) (data : list (list Q)) (weights : option (list (list Q)))
  : list (list Q) :=
  match weights with
  | None => map (spec_col qmean labels) data
  | Some ws => map2 (spec_wcol qavg labels) data ws
  end.

Definition c10_holds (epsd epsc : Q) (strict : bool) (ddof : nat) (tol : Q) (labels : list Z) (coords data : list (list Q))
    (weights : option (list (list Q))) (centres : list Q * list Q) (center drop uncertainty : bool)
    (oc om ow : list (list Q)) : bool :=
  cols_close epsd data (spec_means labels data weights) om &&
  forallb2 (if strict then v2w_holds epsd tol else v2w_range_holds)
           (spec_variances ddof labels data weights uncertainty) ow &&
  bm_coords_holds epsc labels coords centres center drop oc.

Definition OQofD (d : option D) : option Q := match d with None => None | Some x => Some (QofD x) end.

(** one BlockMean.filter case; [obs = None]: ValueError; [unchanged]: the
    caller's arrays are byte-identical after the call and the instance's
    constructor parameters (get_params()) are what they were *)
Definition c10_case (epsd epsc : Q) (ddof : nat) (tol : D) (labels : list Z) (coords data : list (list D))
    (weights : option (list (list D))) (centres : list D * list D) (center drop uncertainty unchanged : bool)
    (obs : option (list (list D) * list (list D) * list (list D))) : verdict :=
  let tolq := QofD tol in
  let coordsq := QssofD coords in
  let dataq := QssofD data in
  let weightsq := match weights with None => None | Some ws => Some (QssofD ws) end in
  let centresq := (QsofD (fst centres), QsofD (snd centres)) in
  let model := block_mean ddof tolq labels coordsq dataq weightsq centresq center drop uncertainty in
  let must_reject := br_valid labels coordsq dataq weightsq && uncertainty &&
                     match weights with None => true | Some _ => false end in
  match model, obs with
  | None, None => mk_verdict true unchanged
  | None, Some _ => if must_reject then Vboth else Vdis
  | Some _, None => Vboth
  | Some (mc, mm, mw), Some (oc, om, ow) =>
      let ocq := QssofD oc in
      let omq := QssofD om in
      let owq := QssofD ow in
      let tie := existsb (near_tol tolq) (spec_variances ddof labels dataq weightsq uncertainty) in
      mk_verdict_tie tie
        (cols_close epsd dataq mm omq && forallb2 (weights_close epsd) mw owq &&
         coords_close epsc center (if drop then firstn 2 coordsq else coordsq) mc ocq)
        (unchanged && c10_holds epsd epsc (negb tie) ddof tolq labels coordsq dataq weightsq centresq center drop uncertainty ocq omq owq)
  end.

Definition eps50 : Q := 1 # (2 ^ 50).

(** one variance_to_weights case ([epsa]: absolute tolerance of the weights
    against the model, [epsh]: relative tolerance of the rule): [comps] the raveled variance arrays,
    [shapes_in]/[shapes_out] the array shapes, [tuple_ok]: a tuple is returned
    iff more than one component was given *)
Definition shapes_eqb (a b : list (list nat)) : bool := list_eqb (list_eqb Nat.eqb) a b.

Definition c10_v2w_case (epsa epsh : Q) (tol : D) (comps : list (list (option D))) (shapes_in shapes_out : list (list nat))
    (tuple_ok unchanged : bool) (obs : list (list D)) : verdict :=
  let tolq := QofD tol in
  let compsq := map (map OQofD) comps in
  let obsq := QssofD obs in
  mk_verdict
    (tuple_ok && shapes_eqb shapes_in shapes_out &&
     forallb2 (weights_close epsa) (variance_to_weights tolq compsq) obsq)
    (unchanged && shapes_eqb shapes_in shapes_out &&
     forallb2 (v2w_holds epsh tolq) compsq obsq).
