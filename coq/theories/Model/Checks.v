(** C20 (d): argument validation of verde, on abstract arguments.

    An array is represented by its shape ([list nat]); a tuple of arrays by a
    list of shapes; [None] weights by [None].  The functions below are the
    code that exists in verde/base/utils.py, verde/coordinates.py,
    verde/vector.py (read line by line); [true] = returns normally,
    [false] = raises.  *)
From Coq Require Import List Bool Arith ZArith QArith Lia.
From Verde Require Import Lib.Verdict Lib.Dyadic.
Close Scope Q_scope.
Import ListNotations.

Definition shape := list nat.

Definition shape_eqb (a b : shape) : bool := list_eqb Nat.eqb a b.

Fixpoint size (s : shape) : nat :=
  match s with [] => 1 | d :: t => d * size t end.

(** [all(shape == shapes[0] for shape in shapes)] - never evaluates
    [shapes[0]] when the tuple is empty *)
Definition check_coordinates (coords : list shape) : bool :=
  match coords with
  | [] => true
  | s0 :: _ => forallb (fun s => shape_eqb s s0) coords
  end.

(** [any(i.shape != coordinates[0].shape for i in data)]: with empty
    coordinates and non-empty data the index raises *)
Definition data_ok (coords data : list shape) : bool :=
  match data with
  | [] => true
  | _ => match coords with
         | [] => false
         | s0 :: _ => forallb (fun d => shape_eqb d s0) data
         end
  end.

Definition is_some {A} (o : option A) : bool := match o with Some _ => true | None => false end.

(** the weights branch of check_fit_input as written (after commit 41aa6b9):
    [np.shape(w) != np.shape(d) and np.shape(w) != (np.size(d),)] raises;
    np.shape(None) is () *)
Definition wshape (w : option shape) : shape := match w with Some s => s | None => [] end.

Definition fitsb (ws d : shape) : bool := shape_eqb ws d || shape_eqb ws [size d].

Definition weights_ok (data : list shape) (weights : list (option shape)) : bool :=
  if existsb is_some weights then
    Nat.eqb (length weights) (length data) &&
    forallb (fun w => forallb (fun d => fitsb (wshape w) d) data) weights
  else true.

Definition check_fit_input (coords data : list shape) (weights : list (option shape)) : bool :=
  check_coordinates coords && data_ok coords data && weights_ok data weights.

(** what the property text asks for: every weight an array aligned with the
    data (a None among arrays is inconsistent) *)
Definition weights_strict (data : list shape) (weights : list (option shape)) : bool :=
  if existsb is_some weights then
    Nat.eqb (length weights) (length data) &&
    forallb (fun w => match w with
                      | None => false
                      | Some ws => forallb (fun d => fitsb ws d) data
                      end) weights
  else true.

Definition fit_input_strict (coords data : list shape) (weights : list (option shape)) : bool :=
  check_coordinates coords && data_ok coords data && weights_strict data weights.

(** names: [None] = the python None; [Some n] = a sequence of n names (a
    single string is converted to a 1-tuple first) *)
Definition check_data_names (ndata : nat) (names : option nat) : bool :=
  match names with None => false | Some n => Nat.eqb ndata n end.

Definition check_extra_coords_names (ncoords : nat) (names : option nat) : bool :=
  match names with None => false | Some n => Nat.eqb (ncoords - 2) n end.

Definition check_region (r : list Z) : bool :=
  match r with
  | [w; e; s; n] => Z.leb w e && Z.leb s n
  | _ => false
  end.

(** the same check on exact doubles (dyadics m*2^e): the comparisons of the
    code are exact, there is no tolerance *)
Definition check_region_d (r : list D) : bool :=
  match r with
  | [w; e; s; n] => dle w e && dle s n
  | _ => false
  end.

(** both / neither of shape and spacing *)
Definition one_of (shape_given spacing_given : bool) : bool := xorb shape_given spacing_given.

(** grid_coordinates: region, then both/neither, then at most two spacing values *)
Definition grid_args (r : list Z) (shape_given : bool) (spacing_len : option nat) : bool :=
  check_region r && one_of shape_given (is_some spacing_len) &&
  match spacing_len with Some n => if shape_given then true else Nat.leb n 2 | None => true end.

(** Vector.fit: check_fit_input, data a tuple; VectorSpline2D: exactly two components *)
Definition vectorspline_fit (coords data : list shape) (weights : list (option shape)) : bool :=
  check_fit_input coords data weights && Nat.eqb (length data) 2.

(** Vector.fit (after commit c7fb303): check_fit_input, then one data component per estimator *)
Definition vector_fit (ncomp : nat) (coords data : list shape) (weights : list (option shape)) : bool :=
  check_fit_input coords data weights && Nat.eqb (length data) ncomp.

(** ------------------------------------------------------------------ *)
(** consistency predicates (the specification) *)

Definition same_shapes (l : list shape) : Prop := forall a b, In a l -> In b l -> a = b.

Definition data_matches (coords data : list shape) : Prop :=
  data = [] \/ exists s0 t, coords = s0 :: t /\ forall d, In d data -> d = s0.

(** a weight array is aligned with a data array: same shape, or the raveled
    1-D form of it (what check_fit_input itself returns and passes on) *)
Definition weight_fits (ws d : shape) : Prop := ws = d \/ ws = [size d].

(** the code: a None among arrays counts as a 0-d array *)
Definition weights_match (data : list shape) (weights : list (option shape)) : Prop :=
  (forall w, In w weights -> w = None) \/
  (length weights = length data /\ forall w d, In w weights -> In d data -> weight_fits (wshape w) d).

(** the specification: all None, or one ARRAY per component, each aligned *)
Definition weights_match_strict (data : list shape) (weights : list (option shape)) : Prop :=
  (forall w, In w weights -> w = None) \/
  (length weights = length data /\
   forall w, In w weights -> exists ws, w = Some ws /\ forall d, In d data -> weight_fits ws d).

Definition fit_input_consistent coords data weights : Prop :=
  same_shapes coords /\ data_matches coords data /\ weights_match data weights.

Definition fit_input_consistent_strict coords data weights : Prop :=
  same_shapes coords /\ data_matches coords data /\ weights_match_strict data weights.

Definition region_valid (r : list Z) : Prop :=
  exists w e s n, r = [w; e; s; n] /\ (w <= e)%Z /\ (s <= n)%Z.

Definition region_valid_d (r : list D) : Prop :=
  exists w e s n, r = [w; e; s; n] /\ (D2Q w <= D2Q e)%Q /\ (D2Q s <= D2Q n)%Q.

(** ------------------------------------------------------------------ *)
(** the call forms of the malformed stream *)
Inductive call :=
| CFitInput (coords data : list shape) (weights : list (option shape))
| CCoords (coords : list shape)
| CDataNames (ndata : nat) (names : option nat)
| CExtraNames (ncoords : nat) (names : option nat)
| CRegion (r : list Z)
| CRegionD (r : list D)
| CGrid (r : list Z) (shape_given : bool) (spacing_len : option nat)
| COneOf (shape_given spacing_given : bool)
| CVecSpline (coords data : list shape) (weights : list (option shape))
| CVector (ncomp : nat) (coords data : list shape) (weights : list (option shape)).

(** the code as written *)
Definition run (c : call) : bool :=
  match c with
  | CFitInput co d w => check_fit_input co d w
  | CCoords co => check_coordinates co
  | CDataNames n nm => check_data_names n nm
  | CExtraNames n nm => check_extra_coords_names n nm
  | CRegion r => check_region r
  | CRegionD r => check_region_d r
  | CGrid r sh sp => grid_args r sh sp
  | COneOf sh sp => one_of sh sp
  | CVecSpline co d w => vectorspline_fit co d w
  | CVector n co d w => vector_fit n co d w
  end.

(** what the property demands be accepted at most (strict: every weight an aligned array) *)
Definition consistentb (c : call) : bool :=
  match c with
  | CFitInput co d w => fit_input_strict co d w
  | CVecSpline co d w => fit_input_strict co d w && Nat.eqb (length d) 2
  | CVector n co d w => fit_input_strict co d w && Nat.eqb (length d) n
  | _ => run c
  end.

(** case function.  [obs_ok]: the implementation returned normally.
    agree: the model of the code predicts error / no error;
    holds: an inconsistent call was rejected. *)
Definition c20_check_case (c : call) (obs_ok : bool) : verdict :=
  mk_verdict (Bool.eqb (run c) obs_ok) (consistentb c || negb obs_ok).
