(** Model of verde.coordinates.rolling_window / expanding_window.

    cKDTree.query_ball_point(centre, r, p=inf) is modelled by its executable
    specification [ball_inf]: the ascending positions (in the raveled
    coordinate arrays) of the points with |easting - ce| <= r and
    |northing - cn| <= r.  numpy.unravel_index(positions, shape) is [unravel_index]
    (row-major); window centres come from the unchanged coordinate model
    [grid_coordinates] on the region shrunk by size/2 on every side.

    Also here: the decidable statement of C14 evaluated on observed outputs and
    the case functions [c14_rolling], [c14_expanding]. *)
From Coq Require Import QArith Qround Qabs ZArith List Bool Lia.
From Verde Require Import Lib.Verdict Lib.Dyadic Lib.QExtra Model.Coordinates Model.CoordCases Model.Blocks.
Import ListNotations.
Open Scope Q_scope.

(** ** the ball query with the infinity norm: a closed square *)
Definition in_window (c : Q * Q) (r : Q) (p : Q * Q) : bool :=
  Qleb (Qabs (fst p - fst c)) r && Qleb (Qabs (snd p - snd c)) r.

Fixpoint positions_from {A} (f : A -> bool) (l : list A) (i : nat) : list nat :=
  match l with
  | [] => []
  | x :: t => if f x then i :: positions_from f t (S i) else positions_from f t (S i)
  end.

Definition ball_inf (pts : list (Q * Q)) (c : Q * Q) (r : Q) : list nat :=
  positions_from (in_window c r) pts 0.

(** ** numpy.unravel_index / ravel_multi_index, C order *)
Definition prod (shape : list nat) : nat := fold_right Nat.mul 1%nat shape.

Fixpoint unravel (shape : list nat) (i : nat) : list nat :=
  match shape with
  | [] => []
  | _ :: rest => (i / prod rest)%nat :: unravel rest (i mod prod rest)
  end.

Fixpoint ravel (shape : list nat) (m : list nat) : nat :=
  match shape, m with
  | _ :: rest, k :: ks => (k * prod rest + ravel rest ks)%nat
  | _, _ => O
  end.

(** a tuple of index arrays, one per dimension of the input *)
Definition unravel_index (shape : list nat) (idx : list nat) : list (list nat) :=
  map (fun d => map (fun i => nth d (unravel shape i) O) idx) (seq 0 (length shape)).

(** ** rolling_window *)
Record rolling := {
  r_east : list (list Q); r_north : list (list Q);        (* window centres (2-D arrays, rows) *)
  r_index : list (list (list (list nat)))                 (* per centre: a tuple of index arrays *)
}.

Definition window_region (w e s n size : Q) : list Q :=
  [w + size / 2; e - size / 2; s + size / 2; n - size / 2].

(** [east], [north]: raveled coordinates; [dshape]: their common shape.
    [None] = ValueError.  Regions are lists of four numbers. *)
Definition rolling_window (east north : list Q) (dshape : list nat) (size : Q)
    (spacing : option (list Q)) (shape : option (Z * Z)) (region : option (list Q)) (adjust : Z)
  : option rolling :=
  match shape, spacing with
  | None, None => None
  | _, _ =>
    if negb (length east =? length north)%nat then None else
    match effective_region east north region with
    | Some [w; e; s; n] =>
        if Qltb (Qmin (e - w) (n - s)) size then None else
        match grid_coordinates (window_region w e s n size) shape spacing adjust false None true with
        | None => None
        | Some g =>
            let pts := combine east north in
            (* Qred: the same rationals, smaller numbers; meshgrid of the reduced vectors *)
            let ce := map Qred (g_east1 g) in
            let cn := map Qred (g_north1 g) in
            Some {| r_east := meshgrid_e ce cn; r_north := meshgrid_n ce cn;
                    r_index := map (fun cy => map (fun cx => unravel_index dshape (ball_inf pts (cx, cy) (size / 2))) ce) cn |}
        end
    | _ => None
    end
  end.

(** ** expanding_window: one ball query per size, in the order given *)
Definition expanding_window (east north : list Q) (dshape : list nat) (centre : Q * Q) (sizes : list Q)
  : option (list (list (list nat))) :=
  if negb (length east =? length north)%nat then None else
  Some (map (fun sz => unravel_index dshape (ball_inf (combine east north) centre (sz / 2))) sizes).

(** ** decidable statement on observed outputs *)

(** an observed index tuple, read back as raveled positions; [None] if it is not a
    well-formed tuple for arrays of shape [dshape] (wrong number of arrays, unequal
    lengths, an index out of range) *)
Fixpoint transpose_n {A} (n : nat) (cols : list (list A)) : list (list A) :=
  match n with
  | O => []
  | S k => concat (map (fun c => match c with x :: _ => [x] | [] => [] end) cols)
           :: transpose_n k (map (@tl A) cols)
  end.

Definition tuple_positions (dshape : list nat) (tup : list (list nat)) : option (list nat) :=
  match tup with
  | [] => None
  | first :: _ =>
      let n := length first in
      if negb (length tup =? length dshape)%nat then None else
      if negb (forallb (fun a => (length a =? n)%nat) tup) then None else
      let ms := transpose_n n tup in
      if forallb (fun m => all2 Nat.ltb m dshape) ms then Some (map (ravel dshape) ms) else None
  end.

Fixpoint nodupb (l : list nat) : bool :=
  match l with
  | [] => true
  | x :: t => negb (existsb (Nat.eqb x) t) && nodupb t
  end.

Definition memb (i : nat) (l : list nat) : bool := existsb (Nat.eqb i) l.

(** distance of a point from the window's edge lines; "near" = within t without being on them *)
Definition edge_margin (c : Q * Q) (r : Q) (p : Q * Q) : Q :=
  Qmin (Qabs (Qabs (fst p - fst c) - r)) (Qabs (Qabs (snd p - snd c) - r)).
Definition near_window_edge (t : Q) (c : Q * Q) (r : Q) (p : Q * Q) : bool :=
  let m := edge_margin c r p in Qltb 0 m && Qleb m t.

(** the positions select exactly the points of the closed square (points within
    round-off of its edge, but not on it, may go either way); no position twice *)
Definition window_exact (t : Q) (pts : list (Q * Q)) (c : Q * Q) (r : Q) (pos : list nat) : bool :=
  nodupb pos &&
  forallb (fun i => (i <? length pts)%nat) pos &&
  forallb (fun ip => let '(i, p) := ip in
             near_window_edge t c r p || Bool.eqb (memb i pos) (in_window c r p))
          (combine (seq 0 (length pts)) pts).

Definition window_holds_pos (t : Q) (pts : list (Q * Q)) (c : Q * Q) (r : Q) (pos : option (list nat)) : bool :=
  match pos with
  | Some pos => window_exact t pts c r pos
  | None => false
  end.

Definition window_holds (t : Q) (pts : list (Q * Q)) (dshape : list nat) (c : Q * Q) (r : Q)
    (tup : list (list nat)) : bool :=
  window_holds_pos t pts c r (tuple_positions dshape tup).

Definition Zss (a : list (list Z)) : list (list nat) := map (map Z.to_nat) a.
Definition nonneg_tuple (a : list (list Z)) : bool := forallb (forallb (fun z => (0 <=? z)%Z)) a.

Fixpoint max_step (v : list Q) : Q :=
  match v with
  | a :: ((b :: _) as t) => Qmax (b - a) (max_step t)
  | _ => 0
  end.

Definition same_shape {A B} (a : list (list A)) (b : list (list B)) : bool :=
  all2 (fun x y => (length x =? length y)%nat) a b.

Definition win_scale (region east north : list Q) (size : Q) : Q :=
  Qmax (pts_scale region east north) (Qabs size).

(** rolling windows: [oe], [on] observed centre arrays (rows), [oi] observed index tuples *)
Definition rolling_holds (t : Q) (east north : list Q) (dshape : list nat) (size : Q)
    (spacing : option (list Q)) (shape : option (Z * Z)) (r : list Q) (adjust : Z)
    (oe on : list (list Q)) (oi : list (list (list (list nat)))) : bool :=
  match r with
  | [w; e; s; n] =>
    let pts := combine east north in
    let wr := window_region w e s n size in
    let half := size / 2 in
    let cs := map (fun rows => combine (fst rows) (snd rows)) (combine oe on) in   (* centres per row *)
    (* centres: the regular grid of the shrunk region *)
    grid_holds wr shape spacing adjust false None true (Some [oe; on]) &&
    (* one index tuple per centre, in the centres' shape *)
    same_shape oe oi && same_shape on oi &&
    (* each tuple selects exactly the points of its closed square *)
    let ps := map (map (tuple_positions dshape)) oi in   (* raveled positions per window *)
    all2 (all2 (fun c pos => window_holds_pos t pts c half pos)) cs ps &&
    (* shape, or spacing adjusted to the region: every window inside the region *)
    (if (match shape with Some _ => true | None => (adjust =? 0)%Z end) then
       forallb (forallb (fun c => Qleb (w - t) (fst c - half) && Qleb (fst c + half) (e + t) &&
                                  Qleb (s - t) (snd c - half) && Qleb (snd c + half) (n + t))) cs &&
       (* steps not larger than the window: every point of the region is selected at least once *)
       (let se := match oe with v :: _ => max_step v | [] => 0 end in
        let sn := max_step (map (fun row => match row with y :: _ => y | [] => 0 end) on) in
        if Qleb se size && Qleb sn size then
          forallb (fun ip => let '(i, p) := ip in
                     negb (inside1 (w, e, s, n) (fst p) (snd p)) ||
                     existsb (fun ct => let '(c, pos) := ct in
                                near_window_edge t c half p ||
                                match pos with Some pos => memb i pos | None => false end)
                             (combine (concat cs) (concat ps)))
                  (combine (seq 0 (length pts)) pts)
        else true)
     else true)
  | _ => false
  end.

(** comparison of an observed tuple with the model's positions, excluding near-edge points;
    [exact_c]: the observed centre equals the model's exactly (then points ON the edge are compared) *)
Definition positions_agree (t : Q) (pts : list (Q * Q)) (c : Q * Q) (r : Q) (exact_c : bool)
    (model_pos obs_pos : list nat) : bool :=
  forallb (fun ip => let '(i, p) := ip in
             let m := edge_margin c r p in
             (Qleb m t && (negb (Qeqb m 0) || negb exact_c)) ||
             Bool.eqb (memb i model_pos) (memb i obs_pos))
          (combine (seq 0 (length pts)) pts).

Definition tuple_agree (t : Q) (pts : list (Q * Q)) (dshape : list nat) (c : Q * Q) (r : Q) (exact_c : bool)
    (model_tup obs_tup : list (list nat)) : bool :=
  match tuple_positions dshape model_tup, tuple_positions dshape obs_tup with
  | Some mp, Some op => positions_agree t pts c r exact_c mp op
  | _, _ => false
  end.

Definition dims_ok (dshape : list nat) (npts : nat) : bool :=
  (prod dshape =? npts)%nat && negb (length dshape =? 0)%nat.

Definition c14_rolling (east north : list D) (dshape : list nat) (size : D)
    (spacing : option (list D)) (shape : option (Z * Z)) (region : option (list D)) (adjust : Z)
    (obs : option (list (list D) * list (list D) * list (list (list (list Z))))) : verdict :=
  let E := Qs east in let N := Qs north in
  let sz := QD size in
  let sp := option_map Qs spacing in
  let reg := option_map Qs region in
  let model := rolling_window E N dshape sz sp shape reg adjust in
  if negb (dims_ok dshape (length E)) then Vboth else
  match obs with
  | None => let ok := match model with None => true | Some _ => false end in mk_verdict ok ok
  | Some (oe, on, oi) =>
      match effective_region E N reg with
      | Some ([w; e; s; n] as r) =>
          if grid_tie (window_region w e s n sz) sp then Vskip else
          if negb (forallb (forallb nonneg_tuple) oi) then Vboth else
          let sc := win_scale r E N sz in
          let t := edge30 * sc in
          let pts := combine E N in
          let oe' := Qss oe in let on' := Qss on in
          let oi' := map (map Zss) oi in
          let holds := rolling_holds t E N dshape sz sp shape r adjust oe' on' oi' in
          let agree :=
            match model with
            | Some R =>
                close_rows sc (r_east R) oe' && close_rows sc (r_north R) on' &&
                same_shape (r_index R) oi' &&
                all2 (fun mrow orow =>
                        all2 (fun mc oc =>
                                let '(cx, cy, mt) := mc in let '(ox, oy, ot) := oc in
                                tuple_agree t pts dshape (cx, cy) (sz / 2) (Qeqb cx ox && Qeqb cy oy) mt ot)
                             mrow orow)
                     (map (fun rw => combine (combine (fst (fst rw)) (snd (fst rw))) (snd rw))
                          (combine (combine (r_east R) (r_north R)) (r_index R)))
                     (map (fun rw => combine (combine (fst (fst rw)) (snd (fst rw))) (snd rw))
                          (combine (combine oe' on') oi'))
            | None => false
            end in
          mk_verdict agree holds
      | _ => mk_verdict false true
      end
  end.

(** expanding windows: [oi] = one observed index tuple per size *)
Definition expanding_holds (t : Q) (pts : list (Q * Q)) (dshape : list nat) (c : Q * Q) (sizes : list Q)
    (oi : list (list (list nat))) : bool :=
  (* one tuple per size, in the order of the sizes, each selecting exactly its closed square *)
  all2 (fun sz tup => window_holds t pts dshape c (sz / 2) tup) sizes oi &&
  (* nested by size *)
  forallb (fun a => let '(s1, t1) := a in
     forallb (fun b => let '(s2, t2) := b in
        negb (Qleb s1 s2) ||
        match tuple_positions dshape t1, tuple_positions dshape t2 with
        | Some p1, Some p2 =>
            forallb (fun i => memb i p2 ||
                              near_window_edge t c (s2 / 2) (nth i pts (0, 0)) ||
                              near_window_edge t c (s1 / 2) (nth i pts (0, 0))) p1
        | _, _ => false
        end) (combine sizes oi)) (combine sizes oi).

Definition c14_expanding (east north : list D) (dshape : list nat) (ce cn : D) (sizes : list D)
    (obs : option (list (list (list Z)))) : verdict :=
  let E := Qs east in let N := Qs north in
  let c := (QD ce, QD cn) in
  let szs := Qs sizes in
  let model := expanding_window E N dshape c szs in
  if negb (dims_ok dshape (length E)) then Vboth else
  match obs with
  | None => let ok := match model with None => true | Some _ => false end in mk_verdict ok ok
  | Some oi =>
      if negb (forallb nonneg_tuple oi) then Vboth else
      let sc := Qmax (win_scale [fst c; snd c] E N 0) (maxabs_list szs) in
      let t := edge30 * sc in
      let pts := combine E N in
      let oi' := map Zss oi in
      let holds := expanding_holds t pts dshape c szs oi' in
      let agree :=
        match model with
        | Some M => all2 (fun a ot => let '(sz, mt) := a in tuple_agree t pts dshape c (sz / 2) true mt ot)
                         (combine szs M) oi' && (length M =? length oi')%nat
        | None => false
        end in
      mk_verdict agree holds
  end.
