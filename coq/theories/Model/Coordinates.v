(** Model of verde.coordinates: check_region, get_region, pad_region, inside,
    spacing_to_size, line_coordinates, grid_coordinates, shape_to_spacing,
    profile_coordinates (algebraic form), and verde.utils.maxabs.

    Numbers are rationals: the model computes what the code computes when
    float arithmetic is exact.  [None] models a raised ValueError. *)
From Coq Require Import QArith Qround Qabs ZArith List Bool Lia.
From Verde Require Import Lib.Verdict Lib.Dyadic Lib.QExtra.
Import ListNotations.
Open Scope Q_scope.

(** ** regions *)
Definition check_region (r : list Q) : bool :=
  match r with
  | [w; e; s; n] => Qleb w e && Qleb s n
  | _ => false
  end.

Definition Qmin_list (d : Q) (l : list Q) : Q :=
  match l with [] => d | x :: t => fold_left Qmin t x end.
Definition Qmax_list (d : Q) (l : list Q) : Q :=
  match l with [] => d | x :: t => fold_left Qmax t x end.

(** get_region of the (raveled) first two coordinates; numpy raises on empty input *)
Definition get_region (east north : list Q) : option (Q * Q * Q * Q) :=
  match east, north with
  | _ :: _, _ :: _ => Some (Qmin_list 0 east, Qmax_list 0 east, Qmin_list 0 north, Qmax_list 0 north)
  | _, _ => None
  end.

(** pad = (pad_north, pad_east); a scalar pad is duplicated by the caller *)
Definition pad_region (r : Q * Q * Q * Q) (pn pe : Q) : Q * Q * Q * Q :=
  let '(w, e, s, n) := r in (w - pe, e + pe, s - pn, n + pn).

Definition inside1 (r : Q * Q * Q * Q) (x y : Q) : bool :=
  let '(w, e, s, n) := r in (Qleb w x && Qleb x e) && (Qleb s y && Qleb y n).

(** element-wise over raveled coordinates (the output has the input's shape) *)
Definition inside (r : list Q) (east north : list Q) : option (list bool) :=
  match r with
  | [w; e; s; n] =>
      if check_region r then Some (map (fun p => inside1 (w, e, s, n) (fst p) (snd p)) (combine east north))
      else None
  | _ => None
  end.

Definition maxabs (arrays : list (list Q)) : Q :=
  maxabs_list (map maxabs_list arrays).

(** ** one-dimensional coordinates *)

(** adjust: 0 = "spacing", 1 = "region", anything else is rejected *)
Definition spacing_to_size (start stop spacing : Q) (adjust : Z) : option (Z * Q) :=
  if ((adjust =? 0) || (adjust =? 1))%Z then
    let size := (rhe ((stop - start) / spacing) + 1)%Z in
    let size := if (size =? 1)%Z then (size + 1)%Z else size in
    Some (size, if (adjust =? 1)%Z then start + inject_Z (size - 1) * spacing else stop)
  else None.

(** numpy.linspace(a, b, n): a + i*(b-a)/(n-1); [a] for n = 1 *)
Definition linspace (a b : Q) (n : nat) : list Q :=
  match n with
  | O => []
  | S O => [a]
  | S m => map (fun i => a + inject_Z (Z.of_nat i) * ((b - a) / inject_Z (Z.of_nat m))) (seq 0 n)
  end.

(** values[:-1] + (values[1] - values[0]) / 2 *)
Definition pixel_shift (v : list Q) : option (list Q) :=
  match v with
  | v0 :: v1 :: _ => Some (map (fun x => x + (v1 - v0) / 2) (removelast v))
  | _ => None   (* IndexError in the code; needs at least two nodes *)
  end.

Definition line_coordinates (start stop : Q) (size : option Z) (spacing : option Q)
    (adjust : Z) (pixel : bool) : option (list Q) :=
  match size, spacing with
  | Some _, Some _ => None
  | None, None => None
  | _, Some sp =>
      match spacing_to_size start stop sp adjust with
      | None => None
      | Some (n, stop') =>
          let v := linspace start stop' (Z.to_nat n) in
          if pixel then pixel_shift v else Some v
      end
  | Some n, None =>
      if pixel then pixel_shift (linspace start stop (Z.to_nat (n + 1)))
      else Some (linspace start stop (Z.to_nat n))
  end.

(** ** grids *)
Definition meshgrid_e (east north : list Q) : list (list Q) := map (fun _ => east) north.
Definition meshgrid_n (east north : list Q) : list (list Q) := map (fun y => map (fun _ => y) east) north.

Record grid := {
  g_east1 : list Q; g_north1 : list Q;        (* the 1-D vectors *)
  g_east2 : list (list Q); g_north2 : list (list Q);   (* meshgrid=True arrays (rows) *)
  g_extra : list (list (list Q))              (* constant arrays *)
}.

(** shape = (n_north, n_east); spacing = 1 value, or (s_north, s_east) *)
Definition grid_coordinates (region : list Q) (shape : option (Z * Z)) (spacing : option (list Q))
    (adjust : Z) (pixel : bool) (extra : option (list Q)) (meshgrid : bool) : option grid :=
  if negb (check_region region) then None else
  match region with
  | [w; e; s; n] =>
    let dims :=
      match shape, spacing with
      | Some _, Some _ => None
      | None, None => None
      | Some (sn, se), None => Some (Some se, Some sn, None, None)
      | None, Some [sp] => Some (None, None, Some sp, Some sp)
      | None, Some [spn; spe] => Some (None, None, Some spe, Some spn)
      | None, Some _ => None
      end in
    match dims with
    | None => None
    | Some (size_e, size_n, sp_e, sp_n) =>
      match line_coordinates w e size_e sp_e adjust pixel,
            line_coordinates s n size_n sp_n adjust pixel with
      | Some east, Some north =>
          match extra, meshgrid with
          | Some _, false => None
          | _, _ =>
            Some {| g_east1 := east; g_north1 := north;
                    g_east2 := meshgrid_e east north; g_north2 := meshgrid_n east north;
                    g_extra := match extra with
                               | None => []
                               | Some vs => map (fun v => map (fun _ => map (fun _ => v) east) north) vs
                               end |}
          end
      | _, _ => None
      end
    end
  | _ => None
  end.

(** shape_to_spacing(region, shape=(n_north, n_east)) = (s_north, s_east) *)
Definition shape_to_spacing (r : Q * Q * Q * Q) (shape : Z * Z) (pixel : bool) : Q * Q :=
  let '(w, e, s, n) := r in
  let '(sn, se) := shape in
  let k (m : Z) := inject_Z (if pixel then m else (m - 1)%Z) in
  ((n - s) / k sn, (e - w) / k se).

(** profile_coordinates in algebraic form: p1 + t_i (p2 - p1), t_i = i/(size-1);
    the distance of node i is t_i |p2 - p1| (compared through its square) *)
Definition profile_t (size : nat) : list Q := linspace 0 1 size.
Definition profile_points (x1 y1 x2 y2 : Q) (size : nat) : list (Q * Q) :=
  map (fun t => (x1 + t * (x2 - x1), y1 + t * (y2 - y1))) (profile_t size).
Definition profile_dist2 (x1 y1 x2 y2 : Q) (size : nat) : list Q :=
  map (fun t => t * t * ((x2 - x1) * (x2 - x1) + (y2 - y1) * (y2 - y1))) (profile_t size).
