(** Case functions for C12.  The estimators are oracles: the harness fits an
    independent clone on the training rows of every split and predicts at the
    test rows; these predictions are passed as tables.  The model composes
    selection, per-component weighted metric, mean over components, task
    execution, arg-max; the composite is compared with what verde returned. *)
From Coq Require Import QArith Qabs ZArith List Bool Arith.
From Verde Require Import Lib.Verdict Lib.Dyadic Lib.QExtra Model.Scoring.
Import ListNotations.
Open Scope Q_scope.

Definition Dtuple := list (list D).
Definition Qc (c : Dtuple) : tuple := map (map QD) c.
Definition exact_list (a b : list D) : bool := all2 deq a b.
Definition exact_tuple (a b : Dtuple) : bool := all2 exact_list a b.

Definition metric_of (id : nat) : metric :=
  match id with
  | O => r2 | 1%nat => neg_mse | 2%nat => neg_mae | _ => neg_wmax
  end.

(** score tolerance: 2^-40 relative to 1 + |score| *)
Definition close_score (a b : Q) : bool := close_by (1 + Qabs a) a b.
Definition close_scores (a b : list Q) : bool := all2 close_score a b.

Definition ids (n : nat) : list Q := map (fun i => inject_Z (Z.of_nat i)) (seq 0 n).
Definition ids_eqb (a : list nat) (b : list Q) : bool :=
  all2 (fun i q => Qeqb (inject_Z (Z.of_nat i)) q) a b.

(** ** cross_val_score *)
(** one split as observed by the harness: the indices yielded by cv.split and
    the prediction at the test rows of an independent clone fitted on the
    training rows only *)
Record split_obs := { sp_train : list nat; sp_test : list nat; sp_pred : Dtuple }.

(** the oracle estimator: a fitted state is the list of row ids it was fitted
    on (the first coordinate array carries the row ids) *)
Definition table_fit (train : dataset) : list Q := hd [] (ds_coords train).
Definition table_predict (tab : list split_obs) (m : list Q) (c : tuple) : tuple :=
  match find (fun e => ids_eqb (sp_train e) m && ids_eqb (sp_test e) (hd [] c)) tab with
  | Some e => Qc (sp_pred e)
  | None => []
  end.

(** the property's statement for one split, written out directly: mean over
    components of the metric of (test weights, test data, clone's prediction) *)
Fixpoint spec_components (mt : metric) (pred data : tuple) (w : option tuple) (test : list nat) : list Q :=
  match pred, data with
  | p :: pt, y :: yt =>
      mt (match w with Some (wi :: _) => Some (select 0 test wi) | _ => None end) (select 0 test y) p
      :: spec_components mt pt yt (match w with Some (_ :: wt) => Some wt | _ => None end) test
  | _, _ => []
  end.
Definition spec_score (mt : metric) (data : tuple) (w : option tuple) (s : split_obs) : Q :=
  qmean (spec_components mt (Qc (sp_pred s)) data w (sp_test s)).

Definition opt_exact (a : list (option Q)) (b : list Q) : bool :=
  all2 (fun x y => match x with Some v => Qeqb v y | None => false end) a b.

(** [obs]: scores returned by the serial call; [reruns]: score lists that must be
    bit-identical to [obs] (delayed=True under several schedulers, leakage
    probes with rows outside train+test perturbed); [order]/[shuffled]: the
    delayed objects computed one by one in this order, results filed by id;
    [untouched]: the estimator passed in has the same parameters and no fitted
    attributes after the call *)
Definition c12_cvs (n : nat) (data : Dtuple) (weights : option Dtuple) (mid : nat)
    (splits : list split_obs) (obs : list D) (reruns : list (list D))
    (order : list nat) (shuffled : list D) (untouched : bool) : verdict :=
  let mt := metric_of mid in
  let ds := {| ds_coords := [ids n]; ds_data := Qc data; ds_weights := option_map Qc weights |} in
  let sp := map (fun s => (sp_train s, sp_test s)) splits in
  let model := cross_val_score (list Q) table_fit (table_predict splits) mt sp ds in
  let modeld := cross_val_score_delayed (list Q) table_fit (table_predict splits) mt order sp ds in
  let o := map QD obs in
  let agree := close_scores model o && opt_exact modeld model in
  let holds :=
    close_scores (map (spec_score mt (Qc data) (option_map Qc weights)) splits) o &&
    forallb (exact_list obs) reruns && exact_list obs shuffled && untouched in
  mk_verdict agree holds.

(** ** BaseGridder.score / score_estimator on given rows *)
Definition c12_score (data : Dtuple) (weights : option Dtuple) (pred : Dtuple) (mid : nat) (obs : D) : verdict :=
  let mt := metric_of mid in
  let n := length (hd [] data) in
  let agree := close_score (score_tuple mt (Qc pred) (Qc data) (option_map Qc weights)) (QD obs) in
  let holds := close_score (qmean (spec_components mt (Qc pred) (Qc data) (option_map Qc weights) (seq 0 n))) (QD obs) in
  mk_verdict agree holds.

(** ** train_test_split *)
Definition Dds := (Dtuple * Dtuple * option Dtuple)%type.
Definition Qds (d : Dds) : dataset :=
  let '(c, y, w) := d in {| ds_coords := Qc c; ds_data := Qc y; ds_weights := option_map Qc w |}.

Definition tuple_eqb (a b : tuple) : bool := all2 (all2 Qeqb) a b.
Definition ds_eqb (a b : dataset) : bool :=
  tuple_eqb (ds_coords a) (ds_coords b) && tuple_eqb (ds_data a) (ds_data b) &&
  match ds_weights a, ds_weights b with
  | None, None => true
  | Some x, Some y => tuple_eqb x y
  | _, _ => false
  end.

(** position of a value in an array of distinct values *)
Fixpoint index_of (x : Q) (l : list Q) : option nat :=
  match l with
  | [] => None
  | y :: t => if Qeqb x y then Some O else option_map S (index_of x t)
  end.
Fixpoint decode (orig : list Q) (obs : list Q) : option (list nat) :=
  match obs with
  | [] => Some []
  | x :: t => match index_of x orig, decode orig t with
              | Some i, Some r => Some (i :: r)
              | _, _ => None
              end
  end.

Fixpoint insert_nat (x : nat) (l : list nat) : list nat :=
  match l with [] => [x] | y :: t => if (x <=? y)%nat then x :: l else y :: insert_nat x t end.
Definition sort_nat (l : list nat) : list nat := fold_right insert_nat [] l.
Definition nat_list_eqb (a b : list nat) : bool := all2 Nat.eqb a b.

(** [labels]: block label of every original row when a spacing/shape was given *)
Definition c12_tts (orig : Dds) (split : list nat * list nat) (labels : option (list nat))
    (obs_train obs_test : Dds) : verdict :=
  let ds := Qds orig in
  let n := length (hd [] (ds_coords ds)) in
  let ot := Qds obs_train in
  let oe := Qds obs_test in
  let '(mt, me) := train_test_split split ds in
  let agree := ds_eqb mt ot && ds_eqb me oe in
  let c0 := hd [] (ds_coords ds) in
  let holds :=
    match decode c0 (hd [] (ds_coords ot)), decode c0 (hd [] (ds_coords oe)) with
    | Some itr, Some ite =>
        (* complementary: together the rows are exactly 0..n-1, each once *)
        nat_list_eqb (sort_nat (itr ++ ite)) (seq 0 n) &&
        (* aligned: every returned array is the original one indexed by the same rows *)
        ds_eqb (select_ds itr ds) ot && ds_eqb (select_ds ite ds) oe &&
        (* whole blocks *)
        match labels with
        | None => true
        | Some lb =>
            let ltr := select O itr lb in
            forallb (fun i => negb (existsb (Nat.eqb (nth i lb O)) ltr)) ite
        end
    | _, _ => false
    end in
  mk_verdict agree holds.

(** ** SplineCV *)
(** [table]: per candidate (in the order SplineCV evaluates them) the split
    scores of an independent cross_val_score of Spline(mindist, damping);
    [scores]: the observed scores_; [chosen]: observed (mindist_, damping_);
    [pred_cv], [pred_ref]: predictions of the fitted SplineCV and of
    Spline(mindist_, damping_) fitted to all the data; [others]: parameters
    chosen by variants that must agree (delayed=True) *)
Definition pair_eqb (a b : Q * Q) : bool := Qeqb (fst a) (fst b) && Qeqb (snd a) (snd b).

Definition c12_splinecv (n : nat) (mindists dampings : list D) (table : list (list D)) (scores : list D)
    (chosen : D * D) (pred_cv pred_ref : list D) (others : list (D * D)) : verdict :=
  let ms := map QD mindists in
  let dm := map QD dampings in
  let grid := param_grid ms dm in
  let nsplit := length (hd [] table) in
  let tab := combine grid table in
  (* oracle estimator: state = (parameters, row ids fitted on); the prediction at
     the single test row k is the tabulated score of split k *)
  let fitp := fun (p : Q * Q) (d : dataset) => (p, hd [] (ds_coords d)) in
  let predict := fun (m : (Q * Q) * list Q) (c : tuple) =>
    match find (fun e => pair_eqb (fst e) (fst m)) tab, hd [] c with
    | Some e, k :: _ => [[QD (nth (Z.to_nat (Qnum k)) (snd e) (0, 0)%Z)]]
    | _, _ => []
    end in
  let mt : metric := fun _ _ yhat => hd 0 yhat in
  let ds := {| ds_coords := [ids n]; ds_data := [ids n]; ds_weights := None |} in
  let sp := map (fun k => ([k], [k])) (seq 0 nsplit) in
  let '(best, final, means) := spline_cv _ fitp predict mt ms dm sp ds in
  let ch := (QD (fst chosen), QD (snd chosen)) in
  let so := map QD scores in
  let agree := close_scores means so && pair_eqb best ch && all2 Qeqb (snd final) (ids n) in
  let holds :=
    (* the chosen parameters are those of the first maximum of the observed mean scores *)
    pair_eqb (nth (argmax_first so) grid (0, 0)) ch &&
    forallb (fun s => Qleb s (nth (argmax_first so) so 0)) so &&
    (* the observed scores are the means of the cross-validation scores *)
    close_scores (map (fun t => qmean (map QD t)) table) so &&
    (length so =? length grid)%nat &&
    exact_list pred_cv pred_ref &&
    forallb (fun o => pair_eqb (QD (fst o), QD (snd o)) ch) others in
  mk_verdict agree holds.

(** SplineCV constructed with options that must reach both the candidates and
    the final model (force_coords, engine): [nforce] is the number of forces
    the final model must have (the size of force_coords, or of the data when
    none is given), [nforce_obs] the observed sizes of force_ and of each
    array of force_coords_, [params_ok] whether the parameters of the final
    Spline object are the requested ones (observed in python); the prediction
    lists also carry force_ and the delayed variant's prediction *)
Definition c12_splinecv_full (n : nat) (mindists dampings : list D) (table : list (list D)) (scores : list D)
    (chosen : D * D) (pred_cv pred_ref : list D) (others : list (D * D))
    (nforce : nat) (nforce_obs : list nat) (params_ok : bool) : verdict :=
  let v := c12_splinecv n mindists dampings table scores chosen pred_cv pred_ref others in
  if forallb (Nat.eqb nforce) nforce_obs && params_ok then v
  else match v with Vok | Vskip | Vviol => Vviol | _ => Vboth end.
