(** Model of verde.BlockReduce.filter (C09).

    What is modelled (verde/blockreduce.py):

      blocks, labels = block_split(coordinates, ...)          -- observed, passed in
      columns = {data_i: ravel(comp_i)}; columns["block"] = labels
      blocked = DataFrame(columns).groupby("block").aggregate(reduction)
         reduction = self.reduction                              when no weights
                   = {data_i: lambda v: reduction(v, weights=w_i[v.index])}  otherwise
      coordinates: the first two (drop_coords) or all coordinate arrays go
         through the same groupby with the *unweighted* reduction; with
         center_coordinates the first two columns are then replaced by
         block_centres[np.unique(labels)].

    pandas' groupby is modelled by [groupby]: one pass over the rows that
    files every row under its label in a list of groups kept sorted by label
    (rows keep their input order inside a group).  [np.unique] is modelled
    by [ukeys].  The labels and the block centres are *inputs* of the model:
    the harness observes them from verde.block_split on the same arguments,
    so the grouping is checked independently of the block geometry (which is
    the business of another property).

    Floats are read as the rationals they denote; the reductions are computed
    exactly in Q and compared with the floating-point result within a
    relative 2^-40 of the largest magnitude in the column. *)
From Coq Require Import ZArith QArith Qabs Qminmax List Bool.
From Verde Require Import Lib.Verdict Lib.Dyadic Lib.QList.
Import ListNotations.

(** ** groupby *)
Section Groupby.
Context {A : Type}.

(** file row [x] under label [k] in the sorted list of groups *)
Fixpoint ginsert (k : Z) (x : A) (g : list (Z * list A)) : list (Z * list A) :=
  match g with
  | [] => [(k, [x])]
  | (k', xs) :: t =>
      if (k <? k')%Z then (k, [x]) :: g
      else if (k =? k')%Z then (k', x :: xs) :: t
      else (k', xs) :: ginsert k x t
  end.

(** rows are (label, payload); the result lists (label, payloads) *)
Definition groupby (ps : list (Z * A)) : list (Z * list A) :=
  fold_right (fun p g => ginsert (fst p) (snd p) g) [] ps.

(** specification vocabulary: the payloads of the rows labelled [k], in input order *)
Definition select (k : Z) (ps : list (Z * A)) : list A :=
  map snd (filter (fun p => (fst p =? k)%Z) ps).
End Groupby.

(** np.unique: sorted distinct labels *)
Fixpoint uinsert (k : Z) (l : list Z) : list Z :=
  match l with
  | [] => [k]
  | k' :: t => if (k <? k')%Z then k :: l else if (k =? k')%Z then l else k' :: uinsert k t
  end.
Definition ukeys (l : list Z) : list Z := fold_right uinsert [] l.

(** ** BlockReduce.filter *)
Section BlockReduce.
Variable red : list Q -> Q.              (* reduction(values) *)
Variable wred : list Q -> list Q -> Q.   (* reduction(values, weights=w) *)

Definition reduce_col (labels : list Z) (col : list Q) : list Q :=
  map (fun g => red (snd g)) (groupby (combine labels col)).

(** the weighted closure receives the values of the group and the weights
    found at the same row positions *)
Definition wreduce_col (labels : list Z) (col w : list Q) : list Q :=
  map (fun g => wred (map fst (snd g)) (map snd (snd g)))
      (groupby (combine labels (combine col w))).

Definition block_data (labels : list Z) (data : list (list Q)) (weights : option (list (list Q)))
  : list (list Q) :=
  match weights with
  | None => map (reduce_col labels) data
  | Some ws => map2 (wreduce_col labels) data ws
  end.

(** block_coordinates[unique labels] *)
Definition centre_col (centres : list Q) (labels : list Z) : list Q :=
  map (fun k => nth (Z.to_nat k) centres 0) (ukeys labels).

Definition block_coords (labels : list Z) (coords : list (list Q)) (centres : list Q * list Q)
    (center drop : bool) : list (list Q) :=
  let cs := if drop then firstn 2 coords else coords in
  let reduced := map (reduce_col labels) cs in
  if center
  then centre_col (fst centres) labels :: centre_col (snd centres) labels :: skipn 2 reduced
  else reduced.

(** check_fit_input: every array has as many elements as there are points,
    one weight array per data component ([None] = ValueError) *)
Definition all_len {B} (n : nat) (ls : list (list B)) : bool :=
  forallb (fun l => Nat.eqb (length l) n) ls.

Definition br_valid (labels : list Z) (coords data : list (list Q)) (weights : option (list (list Q))) : bool :=
  let n := length labels in
  Nat.leb 2 (length coords) && all_len n coords &&
  negb (Nat.eqb (length data) 0) && all_len n data &&
  match weights with
  | None => true
  | Some ws => Nat.eqb (length ws) (length data) && all_len n ws
  end.

Definition block_reduce (labels : list Z) (coords data : list (list Q)) (weights : option (list (list Q)))
    (centres : list Q * list Q) (center drop : bool) : option (list (list Q) * list (list Q)) :=
  if br_valid labels coords data weights
  then Some (block_coords labels coords centres center drop, block_data labels data weights)
  else None.

(** *** the statement, in specification vocabulary: entry [i] of every output
    column is the reduction of the rows labelled with the i-th smallest
    distinct label *)
Definition spec_col (labels : list Z) (col : list Q) : list Q :=
  map (fun k => red (select k (combine labels col))) (ukeys labels).
Definition spec_wcol (labels : list Z) (col w : list Q) : list Q :=
  map (fun k => wred (select k (combine labels col)) (select k (combine labels w))) (ukeys labels).
End BlockReduce.

(** ** executable instances *)
Inductive redop := RMean | RMedian | RSum | RMin | RAverage | RMax.

Definition red_of (r : redop) : list Q -> Q :=
  match r with
  | RMean | RAverage => qmean
  | RMedian => qmedian
  | RSum => qsum
  | RMin => qmin
  | RMax => qmax
  end.

(** only numpy.average takes weights; the harness gives weights with it only *)
Definition wred_of (r : redop) : list Q -> list Q -> Q := qavg.

Definition is_sum (r : redop) : bool := match r with RSum => true | _ => false end.

(** ** comparison with floating-point results *)
Definition eps40 : Q := 1 # (2 ^ 40).
(** results computed or stored in single precision (float32 inputs) *)
Definition eps20 : Q := 1 # (2 ^ 20).

Definition close (eps M a b : Q) : bool := Qle_bool (Qabs (a - b)) (M * eps).

Definition mag3 (a b c : list Q) : Q := Qmax (qmaxabs a) (Qmax (qmaxabs b) (qmaxabs c)).

(** [inp]: the input column, [expect]: exact result, [obs]: float result *)
Definition col_close (eps : Q) (inp expect obs : list Q) : bool :=
  let M := mag3 inp expect obs in
  Nat.eqb (length expect) (length obs) &&
  forallb (fun p => close eps M (fst p) (snd p)) (combine expect obs).

Definition col_exact (expect obs : list Q) : bool := list_eqb Qeq_bool expect obs.

Fixpoint cols_close (eps : Q) (inps expects obss : list (list Q)) : bool :=
  match inps, expects, obss with
  | [], [], [] => true
  | i :: ti, e :: te, o :: to => col_close eps i e o && cols_close eps ti te to
  | _, _, _ => false
  end.

(** coordinate columns: the first two are block centres (passed through
    unchanged by the code, so compared exactly) when [center] *)
Definition coords_close (eps : Q) (center : bool) (inps expects obss : list (list Q)) : bool :=
  if center then
    match expects, obss with
    | e0 :: e1 :: te, o0 :: o1 :: to =>
        col_exact e0 o0 && col_exact e1 o1 && cols_close eps (skipn 2 inps) te to
    | _, _ => false
    end
  else cols_close eps inps expects obss.

(** ** decidable form of the statement of C09, on the observed output *)
Definition c09_holds (epsd epsc : Q) (r : redop) (labels : list Z) (coords data : list (list Q))
    (weights : option (list (list Q))) (centres : list Q * list Q) (center drop : bool)
    (obs_coords obs_data : list (list Q)) : bool :=
  let red := red_of r in
  let wred := wred_of r in
  let cs := if drop then firstn 2 coords else coords in
  let nout := Qlen (ukeys labels) in
  (* one entry per non-empty block, in ascending block order, reduced over the members *)
  match weights with
  | None => cols_close epsd data (map (spec_col red labels) data) obs_data
  | Some ws => cols_close epsd data (map2 (spec_wcol wred labels) data ws) obs_data
  end &&
  (* a sum reduction conserves the total *)
  (if is_sum r && match weights with None => true | Some _ => false end
   then Nat.eqb (length data) (length obs_data) &&
        forallb (fun p => close epsd ((nout + 1) * mag3 (fst p) [qsum (fst p)] (snd p))
                                (qsum (snd p)) (qsum (fst p)))
                (combine data obs_data)
   else true) &&
  (* coordinates: same reduction of the members' coordinates, or the centre of that block *)
  coords_close epsc center cs
    (let reduced := map (spec_col red labels) cs in
     if center
     then centre_col (fst centres) labels :: centre_col (snd centres) labels :: skipn 2 reduced
     else reduced)
    obs_coords.

Definition QofD (d : D) : Q := Qred (D2Q d).
Definition QsofD (l : list D) : list Q := map QofD l.
Definition QssofD (l : list (list D)) : list (list Q) := map QsofD l.

(** one correspondence case: [obs = None] means the call raised ValueError;
    [epsd]/[epsc]: relative tolerance for the data / coordinate columns
    ([eps40] for double precision, [eps20] when the arrays are float32);
    [params_ok]: filter() left the instance's constructor parameters
    (get_params()) as they were - an object is reused for other data *)
Definition c09_case (epsd epsc : Q) (r : redop) (labels : list Z) (coords data : list (list D))
    (weights : option (list (list D))) (centres : list D * list D) (center drop : bool)
    (params_ok : bool)
    (obs : option (list (list D) * list (list D))) : verdict :=
  let coordsq := QssofD coords in
  let dataq := QssofD data in
  let weightsq := match weights with None => None | Some ws => Some (QssofD ws) end in
  let centresq := (QsofD (fst centres), QsofD (snd centres)) in
  let model := block_reduce (red_of r) (wred_of r) labels coordsq dataq weightsq centresq center drop in
  match model, obs with
  | None, None => mk_verdict true params_ok
  | Some (mc, md), Some (oc, od) =>
      let ocq := QssofD oc in
      let odq := QssofD od in
      mk_verdict
        (cols_close epsd dataq md odq &&
         coords_close epsc center (if drop then firstn 2 coordsq else coordsq) mc ocq)
        (params_ok && c09_holds epsd epsc r labels coordsq dataq weightsq centresq center drop ocq odq)
  | None, Some _ => Vdis     (* the code accepted an input the model rejects *)
  | Some _, None => Vboth    (* a well-formed input must be reduced, not rejected *)
  end.
