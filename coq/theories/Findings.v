(** Witnesses for defects of the pinned tree (models of the *pinned* code).
    Each [..._refuted] lemma exhibits an input on which the pinned variant of
    the model - validated against the pinned implementation when the finding
    was made - falsifies the property's statement. *)
From Coq Require Import ZArith List Bool Lia.
From Verde Require Import Model.Longitude.
Import ListNotations.
Open Scope Z_scope.

(** F1 (C17): an east bound on a seam gave W > E *)
Lemma lc_pinned_refuted :
  exists w e, in_range 180 w /\ in_range 180 e /\ representable 180 w e /\
    let '(_, W, E) := lc_region_pinned 180 w e in W > E.
Proof.
  exists 10, 360. repeat split; try (unfold in_range; lia).
  exists 0. cbv. left. split; discriminate.
Qed.

Lemma lc_pinned_refuted_180 :
  exists w e, in_range 180 w /\ in_range 180 e /\ representable 180 w e /\
    let '(_, W, E) := lc_region_pinned 180 w e in W > E.
Proof.
  exists (-10), 180. repeat split; try (unfold in_range; lia).
  exists 0. cbv. right. split; discriminate.
Qed.
