(** Proofs about the weighted, damped least-squares model (C02, and the
    least-squares part of C01).  All sizes; by structural induction. *)
From Coq Require Import QArith Qabs ZArith List Bool Lia Lqa Morphisms Setoid.
From Verde Require Import Lib.Dyadic Lib.QExtra Lib.LinAlgQ Model.LeastSquares.
Import ListNotations.
Open Scope Q_scope.

(** ** small vector facts *)
Lemma vadd_vsub_cancel p q : length q = length p -> veq (vadd p (vsub q p)) q.
Proof.
  revert q; induction p as [|x p IH]; intros [|y q] H; simpl in *; try discriminate; constructor.
  - ring.
  - apply IH. congruence.
Qed.
Lemma vsub_vadd_l a t d : length t = length a -> length d = length a ->
  veq (vsub (vadd a t) d) (vadd (vsub a d) t).
Proof.
  revert t d; induction a as [|x a IH]; intros [|y t] [|z d] Ht Hd; simpl in *; try discriminate; constructor.
  - ring.
  - apply IH; congruence.
Qed.
Lemma vzero_vsub_veq a b : length a = length b -> vzero (vsub a b) -> veq a b.
Proof.
  revert b; induction a as [|x a IH]; intros [|y b] Hl H; simpl in *; try discriminate; constructor.
  - inversion H; subst. lra.
  - inversion H; subst. apply IH; [congruence|assumption].
Qed.
Lemma veq_vzero_vsub a b : veq a b -> vzero (vsub a b).
Proof. intros H; induction H; simpl; constructor; auto. lra. Qed.
Lemma vzero_vadd_inv a b : length a = length b -> vzero (vadd a b) -> vzero b -> vzero a.
Proof.
  revert b; induction a as [|x a IH]; intros [|y b] Hl H Hb; simpl in *; try discriminate; constructor.
  - inversion H; inversion Hb; subst. lra.
  - inversion H; inversion Hb; subst. apply (IH b); [congruence|assumption|assumption].
Qed.
Lemma vadd_vzero_l a b : vzero a -> length a = length b -> veq (vadd a b) b.
Proof.
  intros Ha; revert b; induction Ha as [|x a Hx Ha IH]; intros [|y b] Hl; simpl in *; try discriminate; constructor.
  - lra.
  - apply IH; congruence.
Qed.
Lemma vzero_vscale0 a : vzero (vscale 0 a).
Proof. induction a; simpl; constructor; auto. ring. Qed.
Lemma dot_self_w r w : dot r (vmul w r) == dot w (vsq r).
Proof. revert w; induction r as [|x r IH]; intros [|y w]; simpl; try ring. rewrite IH. ring. Qed.

(** ** expansion of the objective around a point *)
Lemma wsq_expand w r t : length r = length w -> length t = length w ->
  dot w (vsq (vadd r t)) == dot w (vsq r) + 2 * dot t (vmul w r) + dot w (vsq t).
Proof.
  revert r t; induction w as [|x w IH]; intros [|y r] [|z t] Hr Ht; simpl in *; try discriminate; try ring.
  rewrite IH by congruence. ring.
Qed.

(** the quadratic form gained by moving away from [p] by [h] *)
Definition Qform A w alpha s2 h : Q := dot w (vsq (mv A h)) + alpha * dot s2 (vsq h).

Lemma Qform_nonneg A w alpha s2 h :
  Forall (fun x => 0 <= x) w -> Forall (fun x => 0 <= x) s2 -> 0 <= alpha -> 0 <= Qform A w alpha s2 h.
Proof.
  intros Hw Hs Ha. unfold Qform.
  pose proof (wsq_nonneg w (mv A h) Hw). pose proof (wsq_nonneg s2 h Hs). nra.
Qed.

Global Instance Phi_proper A d w alpha s2 : Proper (veq ==> Qeq) (Phi A d w alpha s2).
Proof. intros p q H. unfold Phi. rewrite H. reflexivity. Qed.

Global Instance normal_residual_proper n A d w alpha s2 : Proper (veq ==> veq) (normal_residual n A d w alpha s2).
Proof. intros p q H. unfold normal_residual. rewrite H. reflexivity. Qed.

Lemma length_normal_residual n A d w alpha s2 p :
  ls_shapes n A d w s2 p -> length (normal_residual n A d w alpha s2 p) = n.
Proof.
  intros (HA & Hd & Hw & Hs & Hp). unfold normal_residual.
  rewrite length_vadd; rewrite length_tmv by assumption; [reflexivity|].
  rewrite length_vscale, length_vmul; congruence.
Qed.

Theorem Phi_expand n A d w alpha s2 p h :
  ls_shapes n A d w s2 p -> length h = n ->
  Phi A d w alpha s2 (vadd p h) ==
  Phi A d w alpha s2 p + 2 * dot h (normal_residual n A d w alpha s2 p) + Qform A w alpha s2 h.
Proof.
  intros (HA & Hd & Hw & Hs & Hp) Hh. unfold Phi, Qform, normal_residual.
  assert (HA': wfm (length p) A) by (rewrite Hp; exact HA).
  rewrite (mv_vadd A p h HA') by congruence.
  rewrite (vsub_vadd_l (mv A p) (mv A h) d) by (rewrite !length_mv; congruence).
  rewrite wsq_expand by (try rewrite length_vsub; rewrite ?length_mv; congruence).
  rewrite (wsq_expand s2 p h) by congruence.
  rewrite (swap n A h) by
    (try assumption; rewrite length_vmul; rewrite ?length_vsub; rewrite ?length_mv; congruence).
  rewrite dot_vadd_r.
  - rewrite dot_vscale_r. ring.
  - rewrite length_tmv by assumption. congruence.
  - rewrite length_vscale, length_vmul; congruence.
Qed.

(** ** normal equations => global minimiser *)
Theorem normal_eq_optimal n A d w alpha s2 p :
  ls_shapes n A d w s2 p ->
  Forall (fun x => 0 <= x) w -> Forall (fun x => 0 <= x) s2 -> 0 <= alpha ->
  normal_eq n A d w alpha s2 p ->
  forall p', length p' = n -> Phi A d w alpha s2 p <= Phi A d w alpha s2 p'.
Proof.
  intros Hsh Hw Hs Ha Hne p' Hp'.
  assert (Hp: length p = n) by (destruct Hsh as (_ & _ & _ & _ & H); exact H).
  rewrite <- (vadd_vsub_cancel p p') by congruence.
  rewrite (Phi_expand n) by (try assumption; rewrite length_vsub; congruence).
  rewrite (dot_vzero_r _ _ Hne).
  pose proof (Qform_nonneg A w alpha s2 (vsub p' p) Hw Hs Ha). lra.
Qed.

(** conversely a minimiser satisfies the normal equations: moving by t*h
    cannot decrease Phi for any t, so the linear term must vanish *)
Theorem optimal_normal_eq n A d w alpha s2 p :
  ls_shapes n A d w s2 p ->
  (forall p', length p' = n -> Phi A d w alpha s2 p <= Phi A d w alpha s2 p') ->
  normal_eq n A d w alpha s2 p.
Proof.
  intros Hsh Hopt. unfold normal_eq.
  set (g := normal_residual n A d w alpha s2 p).
  assert (Hg: length g = n) by (apply length_normal_residual; assumption).
  assert (Hp: length p = n) by (destruct Hsh as (_ & _ & _ & _ & H); exact H).
  (* take h = -t g: Phi(p + h) - Phi(p) = -2 t |g|^2 + t^2 Qform(g) *)
  apply dot_all_zero. intros h Hh. fold g. rewrite Hg in Hh.
  assert (Hlin: forall t, 0 <= 2 * t * dot h g + t * t * Qform A w alpha s2 h).
  { intros t. specialize (Hopt (vadd p (vscale t h))).
    rewrite (Phi_expand n) in Hopt by (try assumption; rewrite length_vscale; assumption).
    fold g in Hopt. rewrite length_vadd in Hopt by (rewrite length_vscale; congruence).
    specialize (Hopt Hp).
    assert (E1: dot (vscale t h) g == t * dot h g).
    { rewrite dot_comm, dot_vscale_r, dot_comm. reflexivity. }
    assert (E2: Qform A w alpha s2 (vscale t h) == t * t * Qform A w alpha s2 h).
    { unfold Qform.
      assert (M: veq (mv A (vscale t h)) (vscale t (mv A h))).
      { unfold mv. clear. induction A as [|r A IH]; simpl; constructor; auto. apply dot_vscale_r. }
      rewrite M.
      assert (S: forall v, veq (vsq (vscale t v)) (vscale (t * t) (vsq v))).
      { clear. induction v; simpl; constructor; auto. ring. }
      rewrite !S, !dot_vscale_r. ring. }
    rewrite E1, E2 in Hopt. lra. }
  set (a := dot h g) in *. set (q := Qform A w alpha s2 h) in *. clearbody a q.
  destruct (Qeq_dec a 0) as [E|E]; [exact E|exfalso].
  (* choose t with 2 t a + t^2 q < 0 *)
  destruct (Qlt_le_dec q 0) as [Hq|Hq].
  - (* q < 0: large t *)
    pose proof (Hlin ((2 * Qabs a + 1) / - q)) as H1.
    assert (Hnq: 0 < - q) by lra.
    set (t := (2 * Qabs a + 1) / - q) in *.
    assert (Ht: t * - q == 2 * Qabs a + 1) by (unfold t; field; lra).
    assert (Hpos: 0 < t). { assert (0 <= Qabs a) by apply Qabs_nonneg. nra. }
    assert (Ha: a <= Qabs a) by apply Qle_Qabs.
    nra.
  - destruct (Qlt_le_dec 0 q) as [Hq'|Hq'].
    + pose proof (Hlin (- a / q)) as H1.
      set (t := - a / q) in *.
      assert (Ht: t * q == - a) by (unfold t; field; lra).
      assert (0 < a * a) by nra.
      nra.
    + assert (q == 0) by lra.
      pose proof (Hlin (- a)) as H1. assert (0 < a * a) by nra. nra.
Qed.

(** ** approximate normal equations => nearly optimal (what the run-time
    certificate buys) *)
Lemma dot_bound_abs h g b tol :
  Forall2 (fun g b => Qabs g <= tol * b) g b -> length h = length g ->
  - (tol * dot (vabs h) b) <= dot h g.
Proof.
  intros H; revert h; induction H as [|x y g b Hxy H IH]; intros [|z h] Hl; simpl in *; try discriminate; try lra.
  specialize (IH h ltac:(congruence)).
  assert (- (Qabs z * Qabs x) <= z * x).
  { rewrite <- Qabs_Qmult. pose proof (Qle_Qabs (- (z * x))) as Hq. rewrite Qabs_opp in Hq. lra. }
  assert (0 <= Qabs z) by apply Qabs_nonneg.
  assert (Qabs z * Qabs x <= Qabs z * (tol * y)) by nra.
  nra.
Qed.

Theorem approx_normal_eq_near_optimal tol n A d w alpha s2 p :
  ls_shapes n A d w s2 p ->
  Forall (fun x => 0 <= x) w -> Forall (fun x => 0 <= x) s2 -> 0 <= alpha ->
  approx_normal_eq tol n A d w alpha s2 p ->
  forall p', length p' = n ->
    Phi A d w alpha s2 p <=
    Phi A d w alpha s2 p' + 2 * tol * dot (vabs (vsub p' p)) (residual_bound n A d w alpha s2 p).
Proof.
  intros Hsh Hw Hs Ha Hne p' Hp'.
  assert (Hp: length p = n) by (destruct Hsh as (_ & _ & _ & _ & H); exact H).
  rewrite <- (vadd_vsub_cancel p p') at 1 by congruence.
  rewrite (Phi_expand n) by (try assumption; rewrite length_vsub; congruence).
  pose proof (Qform_nonneg A w alpha s2 (vsub p' p) Hw Hs Ha).
  pose proof (dot_bound_abs (vsub p' p) _ _ tol Hne) as Hb.
  rewrite length_normal_residual, length_vsub in Hb by (try assumption; congruence).
  specialize (Hb Hp'). lra.
Qed.

Lemma approx_normal_eqb_spec tol n A d w alpha s2 p :
  approx_normal_eqb tol n A d w alpha s2 p = true <-> approx_normal_eq tol n A d w alpha s2 p.
Proof.
  unfold approx_normal_eqb, approx_normal_eq.
  generalize (normal_residual n A d w alpha s2 p) (residual_bound n A d w alpha s2 p).
  induction l as [|x l IH]; intros [|y l']; simpl; split; intros H; try discriminate; try constructor;
    try (inversion H; fail).
  - apply andb_true_iff in H as [H1 _]. apply Qleb_spec; assumption.
  - apply andb_true_iff in H as [_ H2]. apply IH; assumption.
  - inversion H; subst. apply andb_true_iff; split; [apply Qleb_spec; assumption|apply IH; assumption].
Qed.

(** ** the code's division by the scale is the right undo *)
Definition nonzero_vec (s : list Q) : Prop := Forall (fun x => ~ x == 0) s.

Lemma dot_vdiv r s c : nonzero_vec s -> length r = length s -> length c = length s ->
  dot (vdiv r s) c == dot r (vdiv c s).
Proof.
  intros Hs; revert r c; induction Hs as [|x s Hx Hs IH]; intros [|y r] [|z c] Hr Hc; simpl in *;
    try discriminate; try reflexivity.
  rewrite IH by congruence. field. assumption.
Qed.

Global Instance vdiv_proper : Proper (veq ==> eq ==> veq) vdiv.
Proof.
  intros a a' Ha s s' <-. revert s. induction Ha as [|x x' a a' Hx Ha IH]; intros [|y s]; simpl; constructor.
  - rewrite Hx; reflexivity.
  - apply IH.
Qed.

Lemma mv_scaled n s A c : nonzero_vec s -> wfm n A -> length s = n -> length c = n ->
  veq (mv (scaled_matrix s A) c) (mv A (vdiv c s)).
Proof.
  intros Hs HA Hl Hc. unfold scaled_matrix, mv. induction HA as [|r A Hr HA IH]; simpl; constructor; auto.
  apply dot_vdiv; congruence.
Qed.

Lemma vdiv_vadd a b s : length a = length s -> length b = length s ->
  veq (vdiv (vadd a b) s) (vadd (vdiv a s) (vdiv b s)).
Proof.
  revert a b; induction s as [|x s IH]; intros [|y a] [|z b] Ha Hb; simpl in *; try discriminate; constructor.
  - unfold Qdiv; ring.
  - apply IH; congruence.
Qed.
Lemma vscale_vdiv x r s : veq (vscale x (vdiv r s)) (vdiv (vscale x r) s).
Proof.
  revert s; induction r as [|y r IH]; intros [|z s]; simpl; constructor.
  - unfold Qdiv; ring.
  - apply IH.
Qed.
Lemma vdiv_zeros s : veq (vdiv (zeros (length s)) s) (zeros (length s)).
Proof. induction s; simpl; constructor; auto. unfold Qdiv; ring. Qed.

Lemma tmv_scaled n s A v : wfm n A -> length s = n ->
  veq (tmv n (scaled_matrix s A) v) (vdiv (tmv n A v) s).
Proof.
  intros HA Hl. revert v. induction HA as [|r A Hr HA IH]; intros [|x v]; simpl;
    try (rewrite <- Hl; symmetry; apply vdiv_zeros).
  rewrite vdiv_vadd by (rewrite ?length_vscale; rewrite ?length_tmv by assumption; congruence).
  rewrite IH, vscale_vdiv. reflexivity.
Qed.

Lemma penalty_scaled alpha s c : nonzero_vec s -> length c = length s ->
  veq (vdiv (vscale alpha (vmul (vmul s s) (vdiv c s))) s) (vscale alpha (vmul (ones (length s)) c)).
Proof.
  intros Hs; revert c; induction Hs as [|x s Hx Hs IH]; intros [|z c] Hc; simpl in *; try discriminate; constructor.
  - field; assumption.
  - apply IH; congruence.
Qed.

Lemma vzero_vdiv x s : nonzero_vec s -> length x = length s -> (vzero (vdiv x s) <-> vzero x).
Proof.
  intros Hs; revert x; induction Hs as [|y s Hy Hs IH]; intros [|z x] Hl; simpl in *; try discriminate.
  - split; constructor.
  - split; intros H; inversion H; subst; constructor.
    + assert (E: z == (z / y) * y) by (field; assumption). rewrite E, H2. ring.
    + apply IH; [congruence|assumption].
    + rewrite H2. unfold Qdiv; ring.
    + apply IH; [congruence|assumption].
Qed.

Lemma length_vdiv' a b : length a = length b -> length (vdiv a b) = length b.
Proof. intros H. rewrite length_vdiv; assumption. Qed.

Theorem residual_scaled n s A d w alpha c :
  nonzero_vec s -> wfm n A -> length s = n -> length c = n -> length d = length A -> length w = length A ->
  veq (normal_residual n (scaled_matrix s A) d w alpha (ones n) c)
      (vdiv (normal_residual n A d w alpha (vmul s s) (unscale s c)) s).
Proof.
  intros Hs HA Hl Hc Hd Hw. unfold normal_residual, unscale.
  rewrite vdiv_vadd.
  - rewrite (mv_scaled n s A c Hs HA Hl Hc), tmv_scaled by assumption.
    rewrite <- Hl. rewrite penalty_scaled by (try assumption; congruence). reflexivity.
  - rewrite length_tmv by assumption; congruence.
  - rewrite length_vscale, !length_vmul; rewrite ?length_vdiv; rewrite ?length_vmul; congruence.
Qed.

Theorem scaling_undone n s A d w alpha c :
  nonzero_vec s -> wfm n A -> length s = n -> length c = n -> length d = length A -> length w = length A ->
  (solves_scaled n s A d w alpha c <-> normal_eq n A d w alpha (vmul s s) (unscale s c)).
Proof.
  intros Hs HA Hl Hc Hd Hw. unfold solves_scaled, normal_eq.
  rewrite (residual_scaled n s A d w alpha c) by assumption.
  apply vzero_vdiv; [assumption|].
  rewrite length_normal_residual; [congruence|].
  repeat split; try assumption.
  - rewrite length_vmul; congruence.
  - unfold unscale. rewrite length_vdiv; congruence.
Qed.

(** ** weights times a positive constant *)
Lemma vmul_vscale_l k w r : veq (vmul (vscale k w) r) (vscale k (vmul w r)).
Proof. revert r; induction w as [|x w IH]; intros [|y r]; simpl; constructor; [ring|apply IH]. Qed.
Lemma vscale_vadd k a b : veq (vscale k (vadd a b)) (vadd (vscale k a) (vscale k b)).
Proof. revert b; induction a as [|x a IH]; intros [|y b]; simpl; constructor; [ring|apply IH]. Qed.
Lemma vscale_vscale k c a : veq (vscale k (vscale c a)) (vscale (k * c) a).
Proof. induction a; simpl; constructor; [ring|assumption]. Qed.
Lemma vscale_zeros k n : veq (vscale k (zeros n)) (zeros n).
Proof. induction n; simpl; constructor; [ring|assumption]. Qed.
Lemma tmv_vscale n A k v : veq (tmv n A (vscale k v)) (vscale k (tmv n A v)).
Proof.
  revert v; induction A as [|r A IH]; intros [|x v]; simpl; try (symmetry; apply vscale_zeros).
  rewrite IH, vscale_vadd, !vscale_vscale.
  apply vadd_proper; [|reflexivity]. apply vscale_proper; [ring|reflexivity].
Qed.
Lemma vzero_vscale_iff k a : ~ k == 0 -> (vzero (vscale k a) <-> vzero a).
Proof.
  intros Hk. induction a as [|x a IH]; simpl; split; intros H; try constructor; inversion H; subst.
  - destruct (Qeq_dec x 0) as [E|E]; [exact E|]. exfalso. apply E.
    assert (E2: x == (k * x) / k) by (field; assumption). rewrite E2, H2. unfold Qdiv; ring.
  - apply IH; assumption.
  - rewrite H2; ring.
  - apply IH; assumption.
Qed.

Theorem residual_weights_scaled n A d w alpha s2 p k :
  veq (normal_residual n A d (vscale k w) (k * alpha) s2 p) (vscale k (normal_residual n A d w alpha s2 p)).
Proof.
  unfold normal_residual.
  rewrite vmul_vscale_l, tmv_vscale, vscale_vadd, vscale_vscale. reflexivity.
Qed.

(** multiplying all weights by k > 0 is the same as dividing the damping by k;
    in particular an undamped fit does not change *)
Theorem weights_scale_general n A d w alpha s2 p k : ~ k == 0 ->
  (normal_eq n A d (vscale k w) (k * alpha) s2 p <-> normal_eq n A d w alpha s2 p).
Proof.
  intros Hk. unfold normal_eq. rewrite residual_weights_scaled. apply vzero_vscale_iff; assumption.
Qed.

Theorem weights_scale_invariant n A d w s2 p k : 0 < k ->
  (normal_eq n A d (vscale k w) 0 s2 p <-> normal_eq n A d w 0 s2 p).
Proof.
  intros Hk. rewrite <- (weights_scale_general n A d w 0 s2 p k) by lra.
  unfold normal_eq, normal_residual.
  assert (E: veq (vscale (k * 0) (vmul s2 p)) (vscale 0 (vmul s2 p))).
  { apply vscale_proper; [ring|reflexivity]. }
  rewrite E. reflexivity.
Qed.

(** ** a datum with zero weight does not influence the fit *)
Lemma vsub_app a1 a2 b1 b2 : length a1 = length b1 ->
  vsub (a1 ++ a2) (b1 ++ b2) = vsub a1 b1 ++ vsub a2 b2.
Proof. revert b1; induction a1 as [|x a1 IH]; intros [|y b1] H; simpl in *; try discriminate; auto. rewrite IH; congruence. Qed.
Lemma vmul_app a1 a2 b1 b2 : length a1 = length b1 ->
  vmul (a1 ++ a2) (b1 ++ b2) = vmul a1 b1 ++ vmul a2 b2.
Proof. revert b1; induction a1 as [|x a1 IH]; intros [|y b1] H; simpl in *; try discriminate; auto. rewrite IH; congruence. Qed.

Lemma tmv_drop n A1 r A2 v1 x v2 :
  length A1 = length v1 -> x == 0 -> wfm n (A1 ++ r :: A2) ->
  veq (tmv n (A1 ++ r :: A2) (v1 ++ x :: v2)) (tmv n (A1 ++ A2) (v1 ++ v2)).
Proof.
  revert v1; induction A1 as [|r1 A1 IH]; intros [|y v1] Hl Hx HA; simpl in *; try discriminate.
  - inversion HA; subst. apply vadd_vzero_l.
    + assert (E: veq (vscale x r) (vscale 0 r)) by (apply vscale_proper; [assumption|reflexivity]).
      rewrite E. apply vzero_vscale0.
    + rewrite length_vscale, length_tmv; auto.
  - inversion HA; subst. apply vadd_proper; [reflexivity|]. apply IH; auto.
Qed.

Theorem zero_weight_drops_datum n A1 r A2 d1 x d2 w1 wi w2 alpha s2 p :
  wfm n (A1 ++ r :: A2) -> length d1 = length A1 -> length w1 = length A1 -> wi == 0 ->
  veq (normal_residual n (A1 ++ r :: A2) (d1 ++ x :: d2) (w1 ++ wi :: w2) alpha s2 p)
      (normal_residual n (A1 ++ A2) (d1 ++ d2) (w1 ++ w2) alpha s2 p).
Proof.
  intros HA Hd Hw Hwi. unfold normal_residual. apply vadd_proper; [|reflexivity].
  unfold mv. rewrite !map_app. simpl map.
  change (dot r p :: map (fun r0 => dot r0 p) A2) with ([dot r p] ++ map (fun r0 => dot r0 p) A2).
  change (x :: d2) with ([x] ++ d2). change (wi :: w2) with ([wi] ++ w2).
  rewrite (vsub_app (map (fun r0 => dot r0 p) A1)) by (rewrite map_length; congruence).
  rewrite (vsub_app [dot r p] _ [x]) by reflexivity.
  rewrite (vmul_app w1) by (rewrite length_vsub; rewrite map_length; congruence).
  rewrite (vmul_app [wi] _ (vsub [dot r p] [x])) by reflexivity.
  rewrite (vsub_app (map (fun r0 => dot r0 p) A1) _ d1 d2) by (rewrite map_length; congruence).
  rewrite (vmul_app w1 w2) by (rewrite length_vsub; rewrite map_length; congruence).
  simpl. apply tmv_drop.
  - rewrite length_vmul; rewrite ?length_vsub; rewrite ?map_length; congruence.
  - rewrite Hwi; ring.
  - assumption.
Qed.

Corollary zero_weight_drops_datum_eq n A1 r A2 d1 x d2 w1 wi w2 alpha s2 p :
  wfm n (A1 ++ r :: A2) -> length d1 = length A1 -> length w1 = length A1 -> wi == 0 ->
  (normal_eq n (A1 ++ r :: A2) (d1 ++ x :: d2) (w1 ++ wi :: w2) alpha s2 p <->
   normal_eq n (A1 ++ A2) (d1 ++ d2) (w1 ++ w2) alpha s2 p).
Proof.
  intros. unfold normal_eq. rewrite zero_weight_drops_datum by assumption. reflexivity.
Qed.

(** for an undamped fit the penalty scale is irrelevant, so the fit is the
    fit of the system without the datum whatever its column variances are *)
Lemma normal_eq_undamped_any_scale n A d w s2 s2' p : length s2 = n -> length s2' = n -> length p = n ->
  wfm n A ->
  (normal_eq n A d w 0 s2 p <-> normal_eq n A d w 0 s2' p).
Proof.
  intros H1 H2 H3 HA. unfold normal_eq, normal_residual.
  assert (Z: forall t, length t = n -> veq (vadd (tmv n A (vmul w (vsub (mv A p) d))) (vscale 0 (vmul t p)))
                       (tmv n A (vmul w (vsub (mv A p) d)))).
  { intros t Ht. set (u := tmv n A _). assert (Hu: length u = n) by (apply length_tmv; assumption).
    assert (Hv: length (vmul t p) = n) by (rewrite length_vmul; congruence).
    revert Hu Hv. generalize (vmul t p) u. clear. intros v; revert n. induction v as [|y v IH]; intros n [|x u] Hu Hv;
      simpl in *; subst; try discriminate; constructor; [ring|]. eapply IH; eauto. }
  rewrite (Z s2 H1), (Z s2' H2). reflexivity.
Qed.

(** ** consistent data are reproduced (C01: exact interpolation) *)
Theorem consistent_ls_reproduces n A d w s2 p p0 :
  ls_shapes n A d w s2 p -> length p0 = n ->
  Forall (fun x => 0 < x) w ->
  veq d (mv A p0) ->
  normal_eq n A d w 0 s2 p ->
  veq (mv A p) d.
Proof.
  intros (HA & Hd & Hw & Hs & Hp) Hp0 Hpos Hcons Hne.
  set (r := vsub (mv A p) d).
  assert (Hr: length r = length A) by (unfold r; rewrite length_vsub; rewrite length_mv; congruence).
  assert (Ht: vzero (tmv n A (vmul w r))).
  { unfold normal_eq, normal_residual in Hne. fold r in Hne.
    eapply vzero_vadd_inv; [|exact Hne|apply vzero_vscale0].
    rewrite length_tmv, length_vscale, length_vmul; congruence. }
  assert (Hrh: veq r (mv A (vsub p p0))).
  { unfold r. rewrite Hcons. symmetry. apply mv_vsub; [rewrite Hp; exact HA|congruence]. }
  assert (H0: dot w (vsq r) == 0).
  { rewrite <- dot_self_w.
    assert (E: dot r (vmul w r) == dot (mv A (vsub p p0)) (vmul w r))
      by (apply dot_proper; [exact Hrh|reflexivity]).
    rewrite E.
    rewrite (swap n A (vsub p p0) (vmul w r) HA) by (try rewrite length_vsub; try rewrite length_vmul; congruence).
    apply dot_vzero_r; assumption. }
  apply vzero_vsub_veq; [rewrite length_mv; congruence|].
  apply (wsq_zero w); [assumption|fold r; congruence|assumption].
Qed.

(** with an injective design matrix the parameters themselves are recovered *)
Definition injective_on (n : nat) (A : list (list Q)) : Prop :=
  forall h, length h = n -> vzero (mv A h) -> vzero h.

Theorem consistent_ls_recovers_params n A d w s2 p p0 :
  ls_shapes n A d w s2 p -> length p0 = n ->
  Forall (fun x => 0 < x) w ->
  injective_on n A ->
  veq d (mv A p0) ->
  normal_eq n A d w 0 s2 p ->
  veq p p0.
Proof.
  intros Hsh Hp0 Hpos Hinj Hcons Hne.
  pose proof (consistent_ls_reproduces n A d w s2 p p0 Hsh Hp0 Hpos Hcons Hne) as Hrep.
  destruct Hsh as (HA & Hd & Hw & Hs & Hp).
  apply vzero_vsub_veq; [congruence|].
  apply Hinj; [rewrite length_vsub; congruence|].
  rewrite mv_vsub by (try (rewrite Hp; exact HA); congruence).
  apply veq_vzero_vsub. rewrite Hrep, Hcons. reflexivity.
Qed.

(** Trend: fitted to values of a polynomial of total degree <= deg, the fitted
    trend is that polynomial at EVERY location *)
Theorem trend_reproduces_polynomial deg pts w s2 coef coef0 :
  let n := length (power_combinations deg) in
  let A := trend_jacobian deg pts in
  let d := trend_predict deg coef0 pts in
  length w = length pts -> length s2 = n -> length coef = n -> length coef0 = n ->
  Forall (fun x => 0 < x) w ->
  injective_on n A ->
  normal_eq n A d w 0 s2 coef ->
  forall query, veq (trend_predict deg coef query) (trend_predict deg coef0 query).
Proof.
  intros n A d Hw Hs Hc Hc0 Hpos Hinj Hne query.
  assert (HA: wfm n A).
  { unfold A, trend_jacobian, wfm. apply Forall_forall. intros r Hr. apply in_map_iff in Hr as (pt & <- & _).
    unfold monomials. rewrite map_length. reflexivity. }
  assert (HlA: length A = length pts) by (unfold A, trend_jacobian; apply map_length).
  assert (E: veq coef coef0).
  { apply (consistent_ls_recovers_params n A d w s2); try assumption.
    - repeat split; try assumption. unfold d, trend_predict. rewrite length_mv. reflexivity. congruence.
    - reflexivity. }
  unfold trend_predict. rewrite E. reflexivity.
Qed.

(** ** uniqueness of the minimiser *)
Theorem optimal_unique_damped n A d w alpha s2 p q :
  ls_shapes n A d w s2 p -> length q = n ->
  Forall (fun x => 0 <= x) w -> Forall (fun x => 0 < x) s2 -> 0 < alpha ->
  normal_eq n A d w alpha s2 p -> normal_eq n A d w alpha s2 q -> veq q p.
Proof.
  intros Hsh Hq Hw Hs Ha Hp Hqn.
  assert (Hs': Forall (fun x => 0 <= x) s2) by (eapply Forall_impl; [|exact Hs]; intros a H; simpl in H; lra).
  assert (Hlp: length p = n) by (destruct Hsh as (_ & _ & _ & _ & H); exact H).
  assert (Hshq: ls_shapes n A d w s2 q) by (destruct Hsh as (H1 & H2 & H3 & H4 & H5); repeat split; assumption).
  pose proof (Phi_expand n A d w alpha s2 p (vsub q p) Hsh ltac:(rewrite length_vsub; congruence)) as E1.
  rewrite (vadd_vsub_cancel p q) in E1 by congruence.
  rewrite (dot_vzero_r _ _ Hp) in E1.
  pose proof (normal_eq_optimal n A d w alpha s2 q Hshq Hw Hs' ltac:(lra) Hqn p Hlp) as O.
  unfold Qform in E1.
  pose proof (wsq_nonneg w (mv A (vsub q p)) Hw) as N1.
  pose proof (wsq_nonneg s2 (vsub q p) Hs') as N2.
  assert (Z: dot s2 (vsq (vsub q p)) == 0) by nra.
  apply vzero_vsub_veq; [congruence|].
  destruct Hsh as (_ & _ & _ & Hls & _).
  apply (wsq_zero s2); [assumption|rewrite length_vsub; congruence|assumption].
Qed.

Theorem optimal_unique_injective n A d w s2 p q :
  ls_shapes n A d w s2 p -> length q = n ->
  Forall (fun x => 0 < x) w -> Forall (fun x => 0 <= x) s2 -> injective_on n A ->
  normal_eq n A d w 0 s2 p -> normal_eq n A d w 0 s2 q -> veq q p.
Proof.
  intros Hsh Hq Hw Hs Hinj Hp Hqn.
  assert (Hw': Forall (fun x => 0 <= x) w) by (eapply Forall_impl; [|exact Hw]; intros a H; simpl in H; lra).
  assert (Hlp: length p = n) by (destruct Hsh as (_ & _ & _ & _ & H); exact H).
  assert (Hshq: ls_shapes n A d w s2 q) by (destruct Hsh as (H1 & H2 & H3 & H4 & H5); repeat split; assumption).
  pose proof (Phi_expand n A d w 0 s2 p (vsub q p) Hsh ltac:(rewrite length_vsub; congruence)) as E1.
  rewrite (vadd_vsub_cancel p q) in E1 by congruence.
  rewrite (dot_vzero_r _ _ Hp) in E1.
  pose proof (normal_eq_optimal n A d w 0 s2 q Hshq Hw' Hs ltac:(lra) Hqn p Hlp) as O.
  unfold Qform in E1.
  pose proof (wsq_nonneg w (mv A (vsub q p)) Hw') as N1.
  assert (Z: dot w (vsq (mv A (vsub q p))) == 0) by nra.
  apply vzero_vsub_veq; [congruence|].
  apply Hinj; [rewrite length_vsub; congruence|].
  destruct Hsh as (HA & Hd & Hlw & _ & _).
  apply (wsq_zero w); [assumption|rewrite length_mv; congruence|assumption].
Qed.

(** ** the code path as a whole: a solver result for the scaled problem,
    divided by the scale, minimises the objective of the property *)
Theorem code_path_minimises n s A d w alpha c :
  Forall (fun x => 0 < x) s -> wfm n A -> length s = n -> length c = n ->
  length d = length A -> length w = length A ->
  Forall (fun x => 0 <= x) w -> 0 <= alpha ->
  solves_scaled n s A d w alpha c ->
  forall p', length p' = n ->
    Phi A d w alpha (vmul s s) (unscale s c) <= Phi A d w alpha (vmul s s) p'.
Proof.
  intros Hs HA Hl Hc Hd Hw Hwn Ha Hsol.
  assert (Hnz: nonzero_vec s).
  { eapply Forall_impl; [|exact Hs]. intros a H E; simpl in H. rewrite E in H. lra. }
  apply (normal_eq_optimal n).
  - repeat split; try assumption.
    + rewrite length_vmul; congruence.
    + unfold unscale. rewrite length_vdiv; congruence.
  - assumption.
  - clear -Hs. induction Hs; simpl; constructor; auto. nra.
  - assumption.
  - apply scaling_undone; assumption.
Qed.

(** any two minimisers predict the same values at the data points (strictly
    positive weights), whether or not the parameters are unique *)
Theorem optimal_predictions_unique n A d w alpha s2 p q :
  ls_shapes n A d w s2 p -> length q = n ->
  Forall (fun x => 0 < x) w -> Forall (fun x => 0 <= x) s2 -> 0 <= alpha ->
  normal_eq n A d w alpha s2 p -> normal_eq n A d w alpha s2 q ->
  veq (mv A q) (mv A p).
Proof.
  intros Hsh Hq Hw Hs Ha Hp Hqn.
  assert (Hw': Forall (fun x => 0 <= x) w) by (eapply Forall_impl; [|exact Hw]; intros a H; simpl in H; lra).
  assert (Hlp: length p = n) by (destruct Hsh as (_ & _ & _ & _ & H); exact H).
  assert (Hshq: ls_shapes n A d w s2 q) by (destruct Hsh as (H1 & H2 & H3 & H4 & H5); repeat split; assumption).
  pose proof (Phi_expand n A d w alpha s2 p (vsub q p) Hsh ltac:(rewrite length_vsub; congruence)) as E1.
  rewrite (vadd_vsub_cancel p q) in E1 by congruence.
  rewrite (dot_vzero_r _ _ Hp) in E1.
  pose proof (normal_eq_optimal n A d w alpha s2 q Hshq Hw' Hs Ha Hqn p Hlp) as O.
  unfold Qform in E1.
  pose proof (wsq_nonneg w (mv A (vsub q p)) Hw') as N1.
  pose proof (wsq_nonneg s2 (vsub q p) Hs) as N2.
  assert (N3: 0 <= alpha * dot s2 (vsq (vsub q p))) by nra.
  assert (Z: dot w (vsq (mv A (vsub q p))) == 0) by lra.
  destruct Hsh as (HA & Hd & Hlw & _ & _).
  apply vzero_vsub_veq; [rewrite !length_mv; reflexivity|].
  rewrite <- mv_vsub by (try (rewrite Hq; exact HA); congruence).
  apply (wsq_zero w); [assumption|rewrite length_mv; congruence|assumption].
Qed.
