(** Proofs about the rolling_window / expanding_window model (C14). *)
From Coq Require Import QArith Qround Qabs ZArith List Bool Lia Lqa Morphisms Sorted.
From Verde Require Import Lib.Dyadic Lib.QExtra Model.Coordinates Model.CoordCases Model.Blocks Model.Windows
  Proofs.CoordinatesProofs Proofs.RegionProofs Proofs.BlocksProofs.
Import ListNotations.
Open Scope Q_scope.

(** ** the ball query *)
Lemma positions_from_In {A} (f : A -> bool) l k i d :
  In i (positions_from f l k) <-> (k <= i < k + length l)%nat /\ f (nth (i - k) l d) = true.
Proof.
  revert k. induction l as [|x t IH]; intros k; cbn [positions_from length].
  - split; [intros []|intros [H _]; lia].
  - destruct (f x) eqn:Fx.
    + cbn [In]. rewrite IH. split.
      * intros [<-|[H1 H2]].
        -- split; [lia|]. rewrite Nat.sub_diag. exact Fx.
        -- split; [lia|]. replace (i - k)%nat with (S (i - S k)) by lia. exact H2.
      * intros [H1 H2]. destruct (Nat.eq_dec i k) as [->|NE]; [left; reflexivity|right].
        split; [lia|]. replace (i - k)%nat with (S (i - S k)) in H2 by lia. exact H2.
    + rewrite IH. split.
      * intros [H1 H2]. split; [lia|]. replace (i - k)%nat with (S (i - S k)) by lia. exact H2.
      * intros [H1 H2]. destruct (Nat.eq_dec i k) as [->|NE].
        -- rewrite Nat.sub_diag in H2. cbn [nth] in H2. congruence.
        -- split; [lia|]. replace (i - k)%nat with (S (i - S k)) in H2 by lia. exact H2.
Qed.

Lemma positions_from_sorted {A} (f : A -> bool) l k :
  StronglySorted lt (positions_from f l k) /\ Forall (fun i => (k <= i)%nat) (positions_from f l k).
Proof.
  revert k. induction l as [|x t IH]; intros k; cbn [positions_from].
  - split; constructor.
  - destruct (IH (S k)) as [S1 S2]. destruct (f x).
    + split.
      * constructor; [exact S1|]. eapply Forall_impl; [|exact S2]. cbn. intros; lia.
      * constructor; [lia|]. eapply Forall_impl; [|exact S2]. cbn. intros; lia.
    + split; [exact S1|]. eapply Forall_impl; [|exact S2]. cbn. intros; lia.
Qed.

Lemma in_window_iff c r p :
  in_window c r p = true <-> Qabs (fst p - fst c) <= r /\ Qabs (snd p - snd c) <= r.
Proof. unfold in_window. rewrite andb_true_iff, !Qleb_spec. tauto. Qed.

(** window_membership: position i is returned iff point i lies in the closed square;
    positions are ascending (so no position twice) *)
Theorem window_membership pts c r :
  StronglySorted lt (ball_inf pts c r) /\
  forall i, In i (ball_inf pts c r) <->
    (i < length pts)%nat /\
    Qabs (fst (nth i pts (0, 0)) - fst c) <= r /\ Qabs (snd (nth i pts (0, 0)) - snd c) <= r.
Proof.
  unfold ball_inf. split; [apply positions_from_sorted|].
  intros i. rewrite (positions_from_In _ _ _ _ (0, 0)). rewrite Nat.sub_0_r, in_window_iff.
  split; intros [H1 H2]; (split; [lia|exact H2]).
Qed.

Lemma sorted_lt_NoDup l : StronglySorted lt l -> NoDup l.
Proof.
  induction 1 as [|x l S IH F]; constructor; [|exact IH].
  intros Hin. rewrite Forall_forall in F. specialize (F x Hin). lia.
Qed.

(** a window without points gives the empty position list *)
Theorem empty_window pts c r :
  (forall i, (i < length pts)%nat ->
     ~ (Qabs (fst (nth i pts (0, 0)) - fst c) <= r /\ Qabs (snd (nth i pts (0, 0)) - snd c) <= r)) ->
  ball_inf pts c r = [].
Proof.
  intros H. destruct (ball_inf pts c r) as [|i t] eqn:E; [reflexivity|exfalso].
  assert (Hi: In i (ball_inf pts c r)) by (rewrite E; left; reflexivity).
  apply (proj2 (window_membership pts c r)) in Hi. destruct Hi as [H1 H2]. exact (H i H1 H2).
Qed.

(** the same square whatever representative of the centre is used *)
Lemma ball_inf_In_eq pts a b a' b' r i : a == a' -> b == b' ->
  (In i (ball_inf pts (a, b) r) <->
   (i < length pts)%nat /\
   Qabs (fst (nth i pts (0, 0)) - a') <= r /\ Qabs (snd (nth i pts (0, 0)) - b') <= r).
Proof.
  intros Ha Hb. rewrite (proj2 (window_membership pts (a, b) r)). cbn [fst snd]. rewrite Ha, Hb. reflexivity.
Qed.

(** nested squares *)
Theorem ball_inf_nested pts c r1 r2 i : r1 <= r2 -> In i (ball_inf pts c r1) -> In i (ball_inf pts c r2).
Proof.
  intros Hr. rewrite !(proj2 (window_membership pts c _)). intros [H1 [H2 H3]]. repeat split; [exact H1|lra|lra].
Qed.

(** ** unravel_index *)
Lemma prod_cons d rest : prod (d :: rest) = (d * prod rest)%nat.
Proof. reflexivity. Qed.

Theorem unravel_correct shape : forall i, (i < prod shape)%nat ->
  length (unravel shape i) = length shape /\
  Forall2 lt (unravel shape i) shape /\
  ravel shape (unravel shape i) = i.
Proof.
  induction shape as [|d rest IH]; intros i Hi.
  - cbn in *. repeat split; [constructor|lia].
  - rewrite prod_cons in Hi. cbn [unravel ravel length].
    assert (HP: (0 < prod rest)%nat) by nia.
    assert (Hm: (i mod prod rest < prod rest)%nat) by (apply Nat.mod_upper_bound; lia).
    destruct (IH _ Hm) as [I1 [I2 I3]]. split; [lia|]. split.
    + constructor; [|exact I2]. apply Nat.div_lt_upper_bound; [lia|]. rewrite Nat.mul_comm. exact Hi.
    + rewrite I3. rewrite (Nat.div_mod i (prod rest)) at 3 by lia. lia.
Qed.

(** conversely every valid multi-index is the unravelling of its raveled position *)
Theorem ravel_unravel shape : forall m, Forall2 lt m shape ->
  (ravel shape m < prod shape)%nat /\ unravel shape (ravel shape m) = m.
Proof.
  induction shape as [|d rest IH]; intros m Hm; inversion Hm as [|k d' ks rest' Hk Hks]; subst.
  - cbn. split; [lia|reflexivity].
  - destruct (IH ks Hks) as [I1 I2]. cbn [ravel unravel]. rewrite prod_cons. split; [nia|].
    assert (HP: (0 < prod rest)%nat) by lia.
    rewrite Nat.div_add_l by lia. rewrite Nat.div_small by exact I1.
    rewrite (Nat.add_comm (k * prod rest)), Nat.mod_add by lia. rewrite Nat.mod_small by exact I1.
    rewrite I2. f_equal. lia.
Qed.

(** indexing a C-ordered array of shape [shape] (given by its raveled values) with a multi-index *)
Definition index_nd {A} (shape : list nat) (flat : list A) (m : list nat) (d : A) : A :=
  nth (ravel shape m) flat d.

(** the tuple of index arrays: one array per dimension, one entry per position, and
    indexing with the k-th multi-index selects exactly the element at the k-th position *)
Theorem unravel_index_selects {A} shape idx (flat : list A) d :
  Forall (fun i => (i < prod shape)%nat) idx ->
  length (unravel_index shape idx) = length shape /\
  (forall a, In a (unravel_index shape idx) -> length a = length idx) /\
  forall k, (k < length idx)%nat ->
    let m := map (fun a => nth k a O) (unravel_index shape idx) in
    Forall2 lt m shape /\ index_nd shape flat m d = nth (nth k idx O) flat d.
Proof.
  intros Hidx. unfold unravel_index. split; [rewrite map_length, seq_length; reflexivity|]. split.
  - intros a Ha. apply in_map_iff in Ha as [dd [<- _]]. apply map_length.
  - intros k Hk. cbv zeta. rewrite map_map.
    assert (Hi: (nth k idx O < prod shape)%nat).
    { rewrite Forall_forall in Hidx. apply Hidx. apply nth_In. exact Hk. }
    destruct (unravel_correct shape _ Hi) as [U1 [U2 U3]].
    assert (Em: map (fun dd => nth k (map (fun i => nth dd (unravel shape i) O) idx) O) (seq 0 (length shape))
                = unravel shape (nth k idx O)).
    { apply (nth_ext _ _ O O).
      - rewrite map_length, seq_length. lia.
      - intros j Hj. rewrite map_length, seq_length in Hj.
        rewrite (nth_map_const _ _ _ _ O) by (rewrite seq_length; exact Hj).
        rewrite seq_nth by exact Hj. cbn [plus].
        rewrite (nth_map_const _ _ _ _ O) by exact Hk. reflexivity. }
    rewrite Em. split; [exact U2|]. unfold index_nd. rewrite U3. reflexivity.
Qed.

(** 1-D inputs give 1-tuples holding the positions themselves *)
Theorem unravel_index_1d n idx : unravel_index [n] idx = [idx].
Proof.
  unfold unravel_index. cbn [length seq map unravel prod fold_right nth]. f_equal.
  rewrite <- (map_id idx) at 2. apply map_ext. intros i. apply Nat.div_1_r.
Qed.

(** an empty window gives a tuple of empty index arrays *)
Theorem unravel_index_empty shape :
  length (unravel_index shape []) = length shape /\ forall a, In a (unravel_index shape []) -> a = [].
Proof.
  unfold unravel_index. split; [rewrite map_length, seq_length; reflexivity|].
  intros a Ha. apply in_map_iff in Ha as [d [<- _]]. reflexivity.
Qed.

(** ** covering: consecutive centres no farther apart than the window size *)
Lemma cover_list r : 0 <= r -> forall v, v <> [] ->
  (forall j, (S j < length v)%nat -> nth (S j) v 0 - nth j v 0 <= 2 * r) ->
  forall x, nth 0 v 0 - r <= x -> x <= last v 0 + r ->
  exists j, (j < length v)%nat /\ Qabs (x - nth j v 0) <= r.
Proof.
  intros Hr. induction v as [|a t IH]; [congruence|intros _ Hstep x Hlo Hhi].
  destruct t as [|b t'].
  - exists 0%nat. split; [cbn; lia|]. cbn [nth last] in *. apply Qabs_case; intros; lra.
  - destruct (Qlt_le_dec (a + r) x) as [Hx|Hx].
    + assert (Hne: b :: t' <> []) by congruence.
      pose proof (Hstep 0%nat ltac:(cbn [length]; lia)) as H0. cbn [nth] in H0.
      destruct (IH Hne) with (x := x) as [j [Hj Hjx]].
      * intros j Hj. apply (Hstep (S j)). cbn [length] in *. lia.
      * cbn [nth]. lra.
      * exact Hhi.
      * exists (S j). split; [cbn [length] in *; lia|]. exact Hjx.
    + exists 0%nat. split; [cbn [length]; lia|]. cbn [nth] in *. apply Qabs_case; intros; lra.
Qed.

Lemma last_nth {A} (l : list A) d : last l d = nth (length l - 1) l d.
Proof.
  induction l as [|x [|y t] IH]; try reflexivity.
  change (last (x :: y :: t) d) with (last (y :: t) d). rewrite IH. cbn [length].
  replace (S (S (length t)) - 1)%nat with (S (S (length t) - 1)) by lia. reflexivity.
Qed.

(** grid lines that start and end on the bounds: a size >= 2, or a spacing adjusted to the region *)
Lemma line_ends start stop size spacing v :
  start <= stop -> (forall sp, spacing = Some sp -> 0 < sp) -> (forall n, size = Some n -> (2 <= n)%Z) ->
  line_coordinates start stop size spacing 0 false = Some v ->
  v <> [] /\ nth 0 v 0 == start /\ last v 0 == stop.
Proof.
  intros Hle Hsp Hsz Hv. destruct size as [n|], spacing as [sp|]; try discriminate.
  - destruct (line_size _ _ _ _ (Hsz n eq_refl) Hv) as [L [F [La _]]].
    specialize (Hsz n eq_refl). split; [intros ->; cbn in L; lia|]. split; [exact F|].
    rewrite last_nth, L. exact La.
  - destruct (line_adjust_spacing _ _ _ _ Hle (Hsp sp eq_refl) Hv) as [L [F [La _]]]. cbv zeta in *.
    set (k := Z.max 1 (rhe ((stop - start) / sp))) in *.
    split; [intros ->; cbn in L; lia|]. split; [exact F|].
    rewrite last_nth, L. replace (Z.to_nat (k + 1) - 1)%nat with (Z.to_nat k) by lia. exact La.
Qed.

(** ** rolling_window *)
Definition spacing_pos' := spacing_pos.

Lemma nth_Qred l k : nth k (map Qred l) 0 == nth k l 0.
Proof. apply nth_map_Qred. Qed.

(** the structure of the result: centres = the grid of the shrunk region, one index tuple
    per centre in the centres' shape, each the unravelled ball query around its centre *)
Theorem rolling_window_spec east north dshape size spacing shape region adjust R :
  rolling_window east north dshape size spacing shape region adjust = Some R ->
  exists w e s n g,
    effective_region east north region = Some [w; e; s; n] /\
    size <= e - w /\ size <= n - s /\ length east = length north /\
    grid_coordinates (window_region w e s n size) shape spacing adjust false None true = Some g /\
    let ne := length (g_east1 g) in let nn := length (g_north1 g) in
    length (r_east R) = nn /\ length (r_north R) = nn /\ length (r_index R) = nn /\
    forall i, (i < nn)%nat ->
      length (nth i (r_east R) []) = ne /\ length (nth i (r_north R) []) = ne /\
      length (nth i (r_index R) []) = ne /\
      forall j, (j < ne)%nat ->
        nth j (nth i (r_east R) []) 0 == nth j (g_east1 g) 0 /\
        nth j (nth i (r_north R) []) 0 == nth i (g_north1 g) 0 /\
        exists idx,
          nth j (nth i (r_index R) []) [] = unravel_index dshape idx /\
          StronglySorted lt idx /\
          forall k, In k idx <->
            (k < length east)%nat /\
            Qabs (nth k east 0 - nth j (g_east1 g) 0) <= size / 2 /\
            Qabs (nth k north 0 - nth i (g_north1 g) 0) <= size / 2.
Proof.
  unfold rolling_window. intros H.
  assert (H': (if negb (length east =? length north)%nat then None else
    match effective_region east north region with
    | Some [w; e; s; n] =>
        if Qltb (Qmin (e - w) (n - s)) size then None else
        match grid_coordinates (window_region w e s n size) shape spacing adjust false None true with
        | None => None
        | Some g =>
            let pts := combine east north in
            let ce := map Qred (g_east1 g) in
            let cn := map Qred (g_north1 g) in
            Some {| r_east := meshgrid_e ce cn; r_north := meshgrid_n ce cn;
                    r_index := map (fun cy => map (fun cx => unravel_index dshape (ball_inf pts (cx, cy) (size / 2))) ce) cn |}
        end
    | _ => None
    end) = Some R).
  { destruct shape, spacing; try exact H. discriminate. }
  clear H. rename H' into H.
  destruct (length east =? length north)%nat eqn:Hlen; [|discriminate]. cbn [negb] in H.
  apply Nat.eqb_eq in Hlen.
  destruct (effective_region east north region) as [[|w [|e [|s [|n [|? ?]]]]]|]; try discriminate.
  destruct (Qltb (Qmin (e - w) (n - s)) size) eqn:Hmin; [discriminate|].
  destruct (grid_coordinates (window_region w e s n size) shape spacing adjust false None true) as [g|] eqn:Hg; [|discriminate].
  cbv zeta in H. injection H as <-. cbn [r_east r_north r_index].
  exists w, e, s, n, g. split; [reflexivity|].
  assert (Hm: size <= Qmin (e - w) (n - s)).
  { assert (~ Qmin (e - w) (n - s) < size) by (rewrite <- Qltb_spec; congruence). lra. }
  pose proof (Qmin_le_l (e - w) (n - s)). pose proof (Qmin_le_r (e - w) (n - s)).
  split; [lra|]. split; [lra|]. split; [exact Hlen|]. split; [exact Hg|].
  cbv zeta. unfold meshgrid_e, meshgrid_n. rewrite !map_length.
  split; [reflexivity|]. split; [reflexivity|]. split; [reflexivity|].
  intros i Hi.
  assert (Hi': (i < length (map Qred (g_north1 g)))%nat) by (rewrite map_length; exact Hi).
  rewrite !(nth_map_const _ _ _ _ 0) by exact Hi'.
  rewrite (nth_map_const (fun cy => map _ _) _ _ _ 0) by exact Hi'. rewrite !map_length.
  split; [reflexivity|]. split; [reflexivity|]. split; [reflexivity|].
  intros j Hj.
  assert (Hj': (j < length (map Qred (g_east1 g)))%nat) by (rewrite map_length; exact Hj).
  rewrite (nth_map_const (fun _ : Q => nth i _ 0) _ _ _ 0) by exact Hj'.
  rewrite (nth_map_const (fun cx => unravel_index _ _) _ _ _ 0) by exact Hj'.
  split; [apply nth_Qred|]. split; [apply nth_Qred|].
  eexists. split; [reflexivity|]. split; [apply window_membership|].
  intros k. rewrite (ball_inf_In_eq _ _ _ _ _ _ _ (nth_Qred _ j) (nth_Qred _ i)).
  rewrite combine_length, <- Hlen, Nat.min_id.
  split; intros [K1 K2]; (split; [exact K1|]); rewrite combine_nth in * by exact Hlen; exact K2.
Qed.

Theorem rolling_window_rejects east north dshape size shape spacing region adjust w e s n :
  rolling_window east north dshape size None None region adjust = None /\
  (effective_region east north region = Some [w; e; s; n] -> (e - w < size \/ n - s < size) ->
   rolling_window east north dshape size spacing shape region adjust = None).
Proof.
  split; [reflexivity|]. intros Heff Hs. unfold rolling_window. rewrite Heff.
  assert (Hq: Qltb (Qmin (e - w) (n - s)) size = true).
  { apply Qltb_spec. pose proof (Qmin_le_l (e - w) (n - s)). pose proof (Qmin_le_r (e - w) (n - s)).
    destruct Hs; lra. }
  rewrite Hq. destruct shape, spacing; try reflexivity; destruct (negb _); reflexivity.
Qed.

(** for a shape, or a spacing adjusted to the region: every window lies inside the region *)
Definition fits_region (shape : option (Z * Z)) (adjust : Z) : Prop :=
  (exists sh, shape = Some sh) \/ adjust = 0%Z.

Lemma grid_shape_adjust_irrelevant r sh adj pix extra mesh :
  grid_coordinates r (Some sh) None adj pix extra mesh = grid_coordinates r (Some sh) None 0 pix extra mesh.
Proof.
  unfold grid_coordinates. destruct (negb (check_region r)); [reflexivity|].
  destruct r as [|w [|e [|s [|n [|? ?]]]]]; try reflexivity. destruct sh as [sn se]. reflexivity.
Qed.

Theorem windows_inside_region w e s n size shape spacing adjust g :
  spacing_pos spacing -> fits_region shape adjust ->
  grid_coordinates (window_region w e s n size) shape spacing adjust false None true = Some g ->
  (forall cx, In cx (g_east1 g) -> w <= cx - size / 2 /\ cx + size / 2 <= e) /\
  (forall cy, In cy (g_north1 g) -> s <= cy - size / 2 /\ cy + size / 2 <= n).
Proof.
  intros Hsp Hfit Hg.
  assert (Hg0: grid_coordinates (window_region w e s n size) shape spacing 0 false None true = Some g).
  { destruct Hfit as [[sh ->]| ->]; [|exact Hg].
    destruct spacing as [sp|].
    - exfalso. revert Hg. unfold grid_coordinates. destruct (negb _); [discriminate|]. cbn. destruct sh. discriminate.
    - rewrite grid_shape_adjust_irrelevant in Hg. exact Hg. }
  destruct (grid_nodes_inside _ _ _ _ _ _ _ _ _ _ Hsp Hg0) as [He Hn].
  split; [intros cx Hc; specialize (He cx Hc)|intros cy Hc; specialize (Hn cy Hc)]; lra.
Qed.

(** rolling_cover: if consecutive centres are no farther apart than the window size in both
    directions, every point of the region lies in at least one (closed) window *)
Definition steps_within (v : list Q) (size : Q) : Prop :=
  forall j, (S j < length v)%nat -> nth (S j) v 0 - nth j v 0 <= size.

Theorem rolling_cover w e s n size shape spacing adjust g :
  0 <= size -> size <= e - w -> size <= n - s ->
  spacing_pos spacing -> (forall sn se, shape = Some (sn, se) -> (2 <= sn)%Z /\ (2 <= se)%Z) ->
  fits_region shape adjust ->
  grid_coordinates (window_region w e s n size) shape spacing adjust false None true = Some g ->
  steps_within (g_east1 g) size -> steps_within (g_north1 g) size ->
  forall x y, w <= x <= e -> s <= y <= n ->
  exists i j, (i < length (g_north1 g))%nat /\ (j < length (g_east1 g))%nat /\
    Qabs (x - nth j (g_east1 g) 0) <= size / 2 /\ Qabs (y - nth i (g_north1 g) 0) <= size / 2.
Proof.
  intros Hs0 Hse Hsn Hsp Hsh Hfit Hg Ste Stn x y Hx Hy.
  assert (Hg0: grid_coordinates (window_region w e s n size) shape spacing 0 false None true = Some g).
  { destruct Hfit as [[sh ->]| ->]; [|exact Hg].
    destruct spacing as [sp|].
    - exfalso. revert Hg. unfold grid_coordinates. destruct (negb _); [discriminate|]. cbn. destruct sh. discriminate.
    - rewrite grid_shape_adjust_irrelevant in Hg. exact Hg. }
  clear Hg. unfold window_region in Hg0.
  assert (Lines: exists size_e size_n sp_e sp_n,
    line_coordinates (w + size / 2) (e - size / 2) size_e sp_e 0 false = Some (g_east1 g) /\
    line_coordinates (s + size / 2) (n - size / 2) size_n sp_n 0 false = Some (g_north1 g) /\
    (forall sp, sp_e = Some sp \/ sp_n = Some sp -> 0 < sp) /\
    (forall z, size_e = Some z \/ size_n = Some z -> (2 <= z)%Z)).
  { destruct shape as [[sn se]|], spacing as [[|sp1 [|sp2 [|sp3 l]]]|].
    all: try (exfalso; revert Hg0; unfold grid_coordinates; destruct (negb _); discriminate).
    - destruct (grid_lines_shape _ _ _ _ _ _ _ _ _ _ _ Hg0) as [L1 L2].
      destruct (Hsh sn se eq_refl) as [Z1 Z2].
      exists (Some se), (Some sn), None, None. split; [exact L1|]. split; [exact L2|]. split.
      + intros sp [H|H]; discriminate.
      + intros z [H|H]; injection H as <-; assumption.
    - rewrite grid_scalar_spacing in Hg0.
      destruct (grid_lines_spacing _ _ _ _ _ _ _ _ _ _ _ Hg0) as [L1 L2].
      specialize (Hsp _ eq_refl). inversion Hsp as [|? ? P1 _]. subst.
      exists None, None, (Some sp1), (Some sp1). split; [exact L1|]. split; [exact L2|]. split.
      + intros sp [H|H]; injection H as <-; exact P1.
      + intros z [H|H]; discriminate.
    - destruct (grid_lines_spacing _ _ _ _ _ _ _ _ _ _ _ Hg0) as [L1 L2].
      specialize (Hsp _ eq_refl). inversion Hsp as [|? ? P1 P']. subst. inversion P' as [|? ? P2 _]. subst.
      exists None, None, (Some sp2), (Some sp1). split; [exact L1|]. split; [exact L2|]. split.
      + intros sp [H|H]; injection H as <-; assumption.
      + intros z [H|H]; discriminate. }
  destruct Lines as [size_e [size_n [sp_e [sp_n [L1 [L2 [Psp Psz]]]]]]].
  assert (Hhalf: size / 2 == size * (1 # 2)) by (unfold Qdiv; reflexivity).
  set (h := size / 2) in *. clearbody h.
  assert (We: w + h <= e - h) by lra.
  assert (Wn: s + h <= n - h) by lra.
  assert (H0h: 0 <= h) by lra.
  destruct (line_ends _ _ _ _ _ We (fun sp H => Psp sp (or_introl H)) (fun z H => Psz z (or_introl H)) L1)
    as [Ne [Fe Le]].
  destruct (line_ends _ _ _ _ _ Wn (fun sp H => Psp sp (or_intror H)) (fun z H => Psz z (or_intror H)) L2)
    as [Nn [Fn Ln]].
  destruct (cover_list h H0h (g_east1 g) Ne) with (x := x) as [j [Hj Hjx]].
  { intros j Hj. specialize (Ste j Hj). lra. }
  { rewrite Fe. lra. }
  { rewrite Le. lra. }
  destruct (cover_list h H0h (g_north1 g) Nn) with (x := y) as [i [Hi Hiy]].
  { intros i Hi. specialize (Stn i Hi). lra. }
  { rewrite Fn. lra. }
  { rewrite Ln. lra. }
  exists i, j. auto.
Qed.

(** ** expanding_window *)
Theorem expanding_window_spec east north dshape c sizes M :
  expanding_window east north dshape c sizes = Some M ->
  length east = length north /\ length M = length sizes /\
  forall j, (j < length sizes)%nat ->
    exists idx, nth j M [] = unravel_index dshape idx /\ StronglySorted lt idx /\
      forall k, In k idx <->
        (k < length east)%nat /\
        Qabs (nth k east 0 - fst c) <= nth j sizes 0 / 2 /\ Qabs (nth k north 0 - snd c) <= nth j sizes 0 / 2.
Proof.
  unfold expanding_window. destruct (length east =? length north)%nat eqn:Hlen; [|discriminate].
  apply Nat.eqb_eq in Hlen. cbn [negb]. intros H. injection H as <-.
  split; [exact Hlen|]. split; [apply map_length|].
  intros j Hj. rewrite (nth_map_const _ _ _ _ 0) by exact Hj.
  eexists. split; [reflexivity|]. split; [apply window_membership|].
  intros k. rewrite (proj2 (window_membership _ _ _)).
  rewrite combine_length, <- Hlen, Nat.min_id.
  split; intros [K1 K2]; (split; [exact K1|]); rewrite combine_nth in * by exact Hlen; exact K2.
Qed.

(** nested by size: every position selected for a size is selected for every larger size *)
Theorem expanding_nested east north c s1 s2 k : s1 <= s2 ->
  In k (ball_inf (combine east north) c (s1 / 2)) -> In k (ball_inf (combine east north) c (s2 / 2)).
Proof.
  intros Hs. apply ball_inf_nested. unfold Qdiv. change (/ 2) with (1 # 2). lra.
Qed.

(** ** reading an index tuple back (what the check does with observed tuples) inverts unravel_index *)
Lemma transpose_n_map {A B C} (h : A -> B -> C) (dims : list A) (idx : list B) :
  transpose_n (length idx) (map (fun d => map (h d) idx) dims) = map (fun i => map (fun d => h d i) dims) idx.
Proof.
  induction idx as [|i idx' IH]; [reflexivity|].
  cbn [length transpose_n map]. f_equal.
  - clear IH. induction dims as [|d ds IHd]; [reflexivity|]. cbn [map concat app]. f_equal. exact IHd.
  - rewrite map_map. cbn [tl]. exact IH.
Qed.

Lemma unravel_as_map shape i : (i < prod shape)%nat ->
  map (fun d => nth d (unravel shape i) O) (seq 0 (length shape)) = unravel shape i.
Proof.
  intros Hi. destruct (unravel_correct shape i Hi) as [U1 _].
  apply (nth_ext _ _ O O).
  - rewrite map_length, seq_length. lia.
  - intros j Hj. rewrite map_length, seq_length in Hj.
    rewrite (nth_map_const _ _ _ _ O) by (rewrite seq_length; exact Hj).
    rewrite seq_nth by exact Hj. reflexivity.
Qed.

Lemma all2_ltb_Forall2 m shape : Forall2 lt m shape -> all2 Nat.ltb m shape = true.
Proof.
  induction 1 as [|a b l1 l2 Hab _ IH]; [reflexivity|]. cbn [all2]. rewrite IH, andb_true_r. apply Nat.ltb_lt. exact Hab.
Qed.

Theorem tuple_positions_unravel shape idx : shape <> [] ->
  Forall (fun i => (i < prod shape)%nat) idx ->
  tuple_positions shape (unravel_index shape idx) = Some idx.
Proof.
  intros Hne Hidx. unfold tuple_positions, unravel_index.
  destruct shape as [|d0 rest]; [congruence|]. set (shape := d0 :: rest) in *.
  change (seq 0 (length shape)) with (0%nat :: seq 1 (length rest)). cbn [map].
  change (map (fun i => nth 0 (unravel shape i) O) idx :: map (fun d => map (fun i => nth d (unravel shape i) O) idx) (seq 1 (length rest)))
    with (map (fun d => map (fun i => nth d (unravel shape i) O) idx) (seq 0 (length shape))).
  rewrite !map_length, seq_length, Nat.eqb_refl. cbn [negb].
  assert (Hl: forallb (fun a : list nat => (length a =? length idx)%nat)
            (map (fun d => map (fun i => nth d (unravel shape i) O) idx) (seq 0 (length shape))) = true).
  { apply forallb_forall. intros a Ha. apply in_map_iff in Ha as [dd [<- _]]. rewrite map_length. apply Nat.eqb_refl. }
  rewrite Hl. cbn [negb].
  rewrite (transpose_n_map (fun d i => nth d (unravel shape i) O)).
  assert (Em: map (fun i => map (fun d => nth d (unravel shape i) O) (seq 0 (length shape))) idx = map (unravel shape) idx).
  { apply map_ext_in. intros i Hi. apply unravel_as_map. rewrite Forall_forall in Hidx. apply Hidx. exact Hi. }
  rewrite Em.
  assert (Hv: forallb (fun m => all2 Nat.ltb m shape) (map (unravel shape) idx) = true).
  { apply forallb_forall. intros m Hm. apply in_map_iff in Hm as [i [<- Hi]].
    rewrite Forall_forall in Hidx. apply all2_ltb_Forall2. apply (unravel_correct shape i (Hidx i Hi)). }
  rewrite Hv. f_equal. rewrite map_map. rewrite <- (map_id idx) at 2. apply map_ext_in.
  intros i Hi. rewrite Forall_forall in Hidx. apply (unravel_correct shape i (Hidx i Hi)).
Qed.
