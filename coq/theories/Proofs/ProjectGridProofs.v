(** Proofs about the project_grid composition (Model/ProjectGrid.v). *)
From Coq Require Import QArith Qabs ZArith List Bool String Lia Lqa.
From Verde Require Import Lib.Verdict Lib.Dyadic Lib.QExtra Model.Coordinates Model.CoordCases
  Model.Hull Model.ProjectGrid Proofs.CoordinatesProofs Proofs.HullProofs.
Import ListNotations.
Open Scope Q_scope.

(** * the table handed to the projection *)
Lemma in_combine_nth_error {A B} (l1 : list A) : forall (l2 : list B) x y,
  In (x, y) (combine l1 l2) <-> exists j, nth_error l1 j = Some x /\ nth_error l2 j = Some y.
Proof.
  induction l1 as [|a t IH]; intros [|b t2] x y; cbn [combine].
  - split; [intros []|intros [[|j] [H _]]; discriminate].
  - split; [intros []|intros [[|j] [H _]]; discriminate].
  - split; [intros []|intros [[|j] [_ H]]; discriminate].
  - split.
    + intros [E|H]; [injection E as <- <-; exists O; split; reflexivity|].
      apply IH in H as [j [H1 H2]]. exists (S j). split; assumption.
    + intros [[|j] [H1 H2]]; cbn in H1, H2.
      * left. congruence.
      * right. apply IH. exists j. split; assumption.
Qed.

(** the table contains exactly the non-NaN cells, cell (i, j) carrying
    (east[j], north[i], value) *)
Theorem valid_table_in {A V} (east north : list A) (vals : list (list (option V))) x y v :
  In (x, y, v) (valid_table east north vals) <->
  exists i j row, nth_error north i = Some y /\ nth_error vals i = Some row /\
                  nth_error east j = Some x /\ nth_error row j = Some (Some v).
Proof.
  unfold valid_table. rewrite in_flat_map. split.
  - intros [[y' row] [Hyr H]]. cbn [fst snd] in H. apply in_flat_map in H as [[x' ov] [Hxv H]].
    cbn [fst snd] in H. destruct ov as [v'|]; [|destruct H]. destruct H as [H|[]]. injection H as <- <- <-.
    apply in_combine_nth_error in Hyr as [i [H1 H2]]. apply in_combine_nth_error in Hxv as [j [H3 H4]].
    exists i, j, row. repeat split; assumption.
  - intros [i [j [row [H1 [H2 [H3 H4]]]]]]. exists (y, row). split.
    + apply in_combine_nth_error. exists i. split; assumption.
    + cbn [fst snd]. apply in_flat_map. exists (x, Some v). split.
      * apply in_combine_nth_error. exists j. split; assumption.
      * cbn [fst snd]. left. reflexivity.
Qed.

(** rows are listed south to north, each west to east (C order) *)
Theorem valid_table_rows {A V} (east : list A) y (north : list A) row (vals : list (list (option V))) :
  valid_table east (y :: north) (row :: vals) =
  flat_map (fun xv => match snd xv with Some v => [(fst xv, y, v)] | None => [] end) (combine east row)
  ++ valid_table east north vals.
Proof. reflexivity. Qed.

(** * the output is called like the input, "scalars" when the input has no name *)
Theorem out_name_spec name : out_name name = match name with Some s => s | None => "scalars"%string end.
Proof. reflexivity. Qed.

(** * default arguments: the output grid has the input's shape and spans the
    projected data region *)
Lemma check_region_lt w e s n : w < e -> s < n -> check_region [w; e; s; n] = true.
Proof.
  intros H1 H2. unfold check_region. apply andb_true_iff. split; apply Qleb_spec; lra.
Qed.

Lemma rhe_quot (w e : Q) (m : Z) : w < e -> (1 <= m)%Z -> rhe ((e - w) / ((e - w) / inject_Z m)) = m.
Proof.
  intros Hwe Hm.
  assert (P: 0 < inject_Z m). { change 0 with (inject_Z 0). rewrite <- Zlt_Qlt. lia. }
  assert (Hq: (e - w) / ((e - w) / inject_Z m) == inject_Z m).
  { set (k := inject_Z m) in *. clearbody k. field. split; lra. }
  rewrite Hq. apply rhe_Z.
Qed.

Lemma regular_line w e (m : Z) v : w < e -> (1 <= m)%Z ->
  line_coordinates w e None (Some ((e - w) / inject_Z m)) 0 false = Some v ->
  List.length v = Z.to_nat (m + 1) /\
  forall i, (i <= Z.to_nat m)%nat -> nth i v 0 == w + inject_Z (Z.of_nat i) * ((e - w) / inject_Z m).
Proof.
  intros Hwe Hm H.
  assert (P: 0 < inject_Z m). { change 0 with (inject_Z 0). rewrite <- Zlt_Qlt. lia. }
  assert (Hsp: 0 < (e - w) / inject_Z m).
  { apply Qlt_shift_div_l; [exact P|lra]. }
  pose proof (line_adjust_spacing w e _ v ltac:(lra) Hsp H) as L. cbv zeta in L.
  rewrite (rhe_quot w e m Hwe Hm) in L. replace (Z.max 1 m) with m in L by lia.
  destruct L as [L1 [_ [_ L2]]]. split; assumption.
Qed.

Lemma line_some w e sp : exists v, line_coordinates w e None (Some sp) 0 false = Some v.
Proof.
  unfold line_coordinates, spacing_to_size. cbn [Z.eqb orb].
  destruct (rhe ((e - w) / sp) + 1 =? 1)%Z; eexists; reflexivity.
Qed.

Theorem pg_default_grid pe pn sn se w e s n :
  get_region pe pn = Some (w, e, s, n) -> w < e -> s < n -> (2 <= sn)%Z -> (2 <= se)%Z ->
  exists oe on, pg_coords pe pn (sn, se) None None None = Some (oe, on) /\
    List.length on = Z.to_nat sn /\ List.length oe = Z.to_nat se /\
    (forall j, (j < Z.to_nat se)%nat ->
       nth j oe 0 == w + inject_Z (Z.of_nat j) * ((e - w) / inject_Z (se - 1))) /\
    (forall i, (i < Z.to_nat sn)%nat ->
       nth i on 0 == s + inject_Z (Z.of_nat i) * ((n - s) / inject_Z (sn - 1))).
Proof.
  intros Hr Hwe Hsn Hn He.
  unfold pg_coords, pg_region_spacing. rewrite Hr. cbn [shape_to_spacing].
  rewrite (check_region_lt w e s n Hwe Hsn).
  unfold grid_coordinates. rewrite (check_region_lt w e s n Hwe Hsn). cbn [negb].
  destruct (line_some w e ((e - w) / inject_Z (se - 1))) as [ve Eve].
  destruct (line_some s n ((n - s) / inject_Z (sn - 1))) as [vn Evn].
  rewrite Eve, Evn. cbn [g_east1 g_north1].
  exists ve, vn. split; [reflexivity|].
  destruct (regular_line w e (se - 1) ve Hwe ltac:(lia) Eve) as [Le Ne].
  destruct (regular_line s n (sn - 1) vn Hsn ltac:(lia) Evn) as [Ln Nn].
  replace (se - 1 + 1)%Z with se in Le by lia. replace (sn - 1 + 1)%Z with sn in Ln by lia.
  split; [exact Ln|]. split; [exact Le|]. split.
  - intros j Hj. apply Ne. lia.
  - intros i Hi. apply Nn. lia.
Qed.

(** * affine projections: the output nodes are the images of the input nodes.

    PARTIAL: proved for positive scales, regular input vectors, default
    region / shape, and under the explicit premise that the first and last
    row and column of the input carry data (so that the projected data region
    is the image of the input's region); negative scales (which reverse the
    node order), requested regions and grids whose outer rows are all NaN are
    covered by the per-run check only. *)
Theorem pg_affine_nodes_partial pe pn sn se w e s n sx ox sy oy x0 dx y0 dy :
  get_region pe pn = Some (w, e, s, n) -> (2 <= sn)%Z -> (2 <= se)%Z ->
  0 < sx -> 0 < sy -> 0 < dx -> 0 < dy ->
  w == sx * x0 + ox -> e == sx * (x0 + inject_Z (se - 1) * dx) + ox ->
  s == sy * y0 + oy -> n == sy * (y0 + inject_Z (sn - 1) * dy) + oy ->
  exists oe on, pg_coords pe pn (sn, se) None None None = Some (oe, on) /\
    List.length on = Z.to_nat sn /\ List.length oe = Z.to_nat se /\
    (forall j, (j < Z.to_nat se)%nat -> nth j oe 0 == sx * (x0 + inject_Z (Z.of_nat j) * dx) + ox) /\
    (forall i, (i < Z.to_nat sn)%nat -> nth i on 0 == sy * (y0 + inject_Z (Z.of_nat i) * dy) + oy).
Proof.
  intros Hr Hn He Hsx Hsy Hdx Hdy Hw Hee Hs Hnn.
  assert (Pe: 0 < inject_Z (se - 1)). { change 0 with (inject_Z 0). rewrite <- Zlt_Qlt. lia. }
  assert (Pn: 0 < inject_Z (sn - 1)). { change 0 with (inject_Z 0). rewrite <- Zlt_Qlt. lia. }
  assert (Hwe: w < e).
  { rewrite Hw, Hee. set (k := inject_Z (se - 1)) in *. clearbody k.
    assert (0 < k * dx) by nra. assert (0 < sx * (k * dx)) by nra. lra. }
  assert (Hsn: s < n).
  { rewrite Hs, Hnn. set (k := inject_Z (sn - 1)) in *. clearbody k.
    assert (0 < k * dy) by nra. assert (0 < sy * (k * dy)) by nra. lra. }
  destruct (pg_default_grid pe pn sn se w e s n Hr Hwe Hsn Hn He) as [oe [on [E [L1 [L2 [N1 N2]]]]]].
  exists oe, on. split; [exact E|]. split; [exact L1|]. split; [exact L2|]. split.
  - intros j Hj. rewrite (N1 j Hj), Hw, Hee.
    set (k := inject_Z (se - 1)) in *. clearbody k. set (jj := inject_Z (Z.of_nat j)). clearbody jj.
    field. lra.
  - intros i Hi. rewrite (N2 i Hi), Hs, Hnn.
    set (k := inject_Z (sn - 1)) in *. clearbody k. set (ii := inject_Z (Z.of_nat i)). clearbody ii.
    field. lra.
Qed.

(** with an interpolant that honours its data (linear, cubic and nearest
    neighbour all do, at distinct data points) the value at the image of an
    input node is the input value there *)
Section Reproduction.
  Variable interp : list (pt * Q) -> pt -> Q.
  Hypothesis interp_exact : forall data p v,
    In (p, v) data -> (forall p' v', In (p', v') data -> pt_eq p' p -> v' == v) -> interp data p == v.
  Hypothesis interp_proper : forall data p p', pt_eq p p' -> interp data p == interp data p'.

  Theorem affine_reproduction_partial data p v node :
    In (p, v) data -> (forall p' v', In (p', v') data -> pt_eq p' p -> v' == v) ->
    pt_eq node p -> interp data node == v.
  Proof.
    intros Hin Hu He. rewrite (interp_proper data node p He). apply interp_exact; assumption.
  Qed.
End Reproduction.

(** * the NaN pattern demanded by the property follows from hull membership of the nodes *)
Theorem nan_pattern_sound need m mos fin :
  nan_pattern_holds need m mos fin = true ->
  forall i j, (i < List.length mos)%nat -> (j < List.length (nth i mos []))%nat ->
    let mo := nth j (nth i mos []) None in
    let f := nth j (nth i fin []) false in
    (mo_sout m mo = true -> f = false) /\
    (need = true -> mo_sout m mo = false -> mo_sin m mo = true -> f = true).
Proof.
  unfold nan_pattern_holds. revert fin.
  induction mos as [|r t IH]; intros [|fr ft] H i j Hi Hj; cbn [all2] in H; try discriminate; [cbn in Hi; lia|].
  apply andb_true_iff in H as [Hr Ht].
  destruct i as [|i].
  - cbn [nth] in *. clear IH Ht Hi. revert fr Hr j Hj.
    induction r as [|mo r IHr]; intros [|f fr] Hr j Hj; cbn [all2] in Hr; try discriminate; [cbn in Hj; lia|].
    apply andb_true_iff in Hr as [H0 Hr]. destruct j as [|j].
    + cbn [nth]. unfold mo_classify in H0. destruct (mo_sout m mo).
      * split; [intros _; destruct f; [discriminate|reflexivity]|discriminate].
      * split; [discriminate|]. intros -> _ Hs. rewrite Hs in H0. exact H0.
    + cbn [nth]. apply IHr; [exact Hr|cbn in Hj; lia].
  - cbn [nth]. apply IH; [exact Ht|cbn in Hi; lia|exact Hj].
Qed.

(** * range: the decidable check used on the observed output is the range statement *)
Theorem range_holds_sound tol vin out : range_holds tol vin out = true ->
  vin <> [] /\
  forall x, In (Some x) out ->
    let lo := Qmin_list 0 vin in let hi := Qmax_list 0 vin in
    let t := tol * Qmax 1 (Qmax (Qabs lo) (Qabs hi)) in
    lo - t <= x /\ x <= hi + t.
Proof.
  unfold range_holds. destruct vin as [|v0 vt]; [discriminate|]. intros H. split; [discriminate|].
  intros x Hx. cbv zeta. rewrite forallb_forall in H. specialize (H (Some x) Hx). cbn beta iota in H.
  apply andb_true_iff in H as [H1 H2]. apply Qleb_spec in H1. apply Qleb_spec in H2. split; assumption.
Qed.
