(** Proofs about the coordinate model (C07, C13). *)
From Coq Require Import QArith Qround Qabs ZArith List Bool Lia Lqa Morphisms.
From Verde Require Import Lib.Dyadic Lib.QExtra Model.Coordinates.
Import ListNotations.
Open Scope Q_scope.

(** ** linspace *)
Lemma nth_map_const {A B} (f : A -> B) (l : list A) i d d' :
  (i < length l)%nat -> nth i (map f l) d = f (nth i l d').
Proof. intros H. rewrite (nth_indep _ d (f d')) by (rewrite map_length; exact H). apply map_nth. Qed.

Lemma linspace_length a b n : length (linspace a b n) = n.
Proof.
  destruct n as [|[|m]]; cbn [linspace]; try reflexivity.
  rewrite map_length, seq_length. reflexivity.
Qed.

Lemma inject_nat_pos m : (0 < m)%nat -> 0 < inject_Z (Z.of_nat m).
Proof. intros H. change 0 with (inject_Z 0). rewrite <- Zlt_Qlt. lia. Qed.

Lemma linspace_nth a b n i : (2 <= n)%nat -> (i < n)%nat ->
  nth i (linspace a b n) 0 ==
  a + inject_Z (Z.of_nat i) * ((b - a) / inject_Z (Z.of_nat (n - 1))).
Proof.
  intros Hn Hi. destruct n as [|[|m]]; try lia.
  unfold linspace.
  rewrite (nth_map_const _ _ _ _ 0%nat) by (rewrite seq_length; lia).
  rewrite seq_nth by lia.
  replace (S (S m) - 1)%nat with (S m) by lia. cbn [Nat.add]. reflexivity.
Qed.

Lemma linspace_first a b n : (1 <= n)%nat -> nth 0 (linspace a b n) 0 == a.
Proof.
  intros Hn. destruct n as [|[|m]]; try lia; [reflexivity|].
  rewrite linspace_nth by lia. cbn. ring.
Qed.

Lemma linspace_last a b n : (2 <= n)%nat -> nth (n - 1) (linspace a b n) 0 == b.
Proof.
  intros Hn. rewrite linspace_nth by lia.
  pose proof (inject_nat_pos (n - 1) ltac:(lia)) as P.
  set (k := inject_Z (Z.of_nat (n - 1))) in *. clearbody k. field. lra.
Qed.

(** consecutive nodes differ by the same step *)
Lemma linspace_step a b n i : (2 <= n)%nat -> (S i < n)%nat ->
  nth (S i) (linspace a b n) 0 - nth i (linspace a b n) 0 == (b - a) / inject_Z (Z.of_nat (n - 1)).
Proof.
  intros Hn Hi. rewrite !linspace_nth by lia.
  rewrite Nat2Z.inj_succ. unfold Z.succ. rewrite inject_Z_plus. change (inject_Z 1) with 1. ring.
Qed.

(** ** spacing_to_size: the number of intervals is the nearest integer to
    extent/spacing, at least one *)
Lemma sts_spec start stop sp adj n stop' :
  start <= stop -> 0 < sp ->
  spacing_to_size start stop sp adj = Some (n, stop') ->
  (n - 1 = Z.max 1 (rhe ((stop - start) / sp)))%Z /\
  (adj = 0%Z -> stop' = stop) /\
  (adj = 1%Z -> stop' = start + inject_Z (n - 1) * sp).
Proof.
  intros Hle Hsp. unfold spacing_to_size.
  destruct ((adj =? 0)%Z || (adj =? 1)%Z) eqn:Ea; [|discriminate].
  assert (Hq: 0 <= (stop - start) / sp).
  { apply Qle_shift_div_l; [exact Hsp|]. lra. }
  pose proof (rhe_nonneg _ Hq) as Hr.
  intros H. injection H as Hn Hs.
  split; [|split].
  - destruct (rhe ((stop - start) / sp) + 1 =? 1)%Z eqn:E; lia.
  - intros ->. cbn in Hs. symmetry. exact Hs.
  - intros ->. cbn in Hs. rewrite <- Hs, <- Hn. reflexivity.
Qed.

Lemma sts_rejects start stop sp adj : adj <> 0%Z -> adj <> 1%Z ->
  spacing_to_size start stop sp adj = None.
Proof.
  intros H0 H1. unfold spacing_to_size.
  destruct (adj =? 0)%Z eqn:E0; [lia|]. destruct (adj =? 1)%Z eqn:E1; [lia|]. reflexivity.
Qed.

(** |extent/spacing - intervals| <= 1/2 whenever extent/spacing >= 1/2 *)
Lemma sts_nearest start stop sp adj n stop' :
  start <= stop -> 0 < sp -> 1#2 <= (stop - start) / sp ->
  spacing_to_size start stop sp adj = Some (n, stop') ->
  Qabs ((stop - start) / sp - inject_Z (n - 1)) <= 1#2.
Proof.
  intros Hle Hsp Hh H. destruct (sts_spec _ _ _ _ _ _ Hle Hsp H) as [Hn _].
  rewrite Hn. pose proof (rhe_near ((stop - start) / sp)) as N.
  destruct (Z.max_spec 1 (rhe ((stop - start) / sp))) as [[L ->]|[L ->]]; [exact N|].
  (* rhe x <= 1 and x >= 1/2: rhe x is 0 or 1 *)
  assert (R: (rhe ((stop - start) / sp) = 1)%Z \/ (rhe ((stop - start) / sp) <= 0)%Z) by lia.
  destruct R as [R|R]; [rewrite R in N; exact N|].
  assert (Rq: inject_Z (rhe ((stop - start) / sp)) <= 0).
  { change 0 with (inject_Z 0). rewrite <- Zle_Qle. exact R. }
  change (inject_Z 1) with 1.
  revert N. apply Qabs_case; intros; apply Qabs_case; intros; lra.
Qed.

(** ** line_coordinates *)

(** adjust = "spacing", grid-line registration *)
Theorem line_adjust_spacing start stop sp v :
  start <= stop -> 0 < sp ->
  line_coordinates start stop None (Some sp) 0 false = Some v ->
  let k := Z.max 1 (rhe ((stop - start) / sp)) in
  length v = Z.to_nat (k + 1) /\
  nth 0 v 0 == start /\ nth (Z.to_nat k) v 0 == stop /\
  forall i, (i <= Z.to_nat k)%nat ->
    nth i v 0 == start + inject_Z (Z.of_nat i) * ((stop - start) / inject_Z k).
Proof.
  intros Hle Hsp. unfold line_coordinates.
  destruct (spacing_to_size start stop sp 0) as [[n stop']|] eqn:Es; [|discriminate].
  destruct (sts_spec _ _ _ _ _ _ Hle Hsp Es) as [Hn [Hs _]]. specialize (Hs eq_refl). subst stop'.
  intros H. injection H as <-. cbv zeta.
  set (k := Z.max 1 (rhe ((stop - start) / sp))) in *.
  assert (Hk: (1 <= k)%Z) by (unfold k; lia).
  replace n with (k + 1)%Z by lia.
  assert (E1: (Z.to_nat (k + 1) - 1)%nat = Z.to_nat k) by lia.
  split; [apply linspace_length|]. split; [apply linspace_first; lia|]. split.
  - rewrite <- E1. apply linspace_last. lia.
  - intros i Hi. rewrite linspace_nth by lia. rewrite E1, Z2Nat.id by lia. reflexivity.
Qed.

(** adjust = "region": the step equals the requested spacing, the first node
    is [start], only the far bound moves *)
Theorem line_adjust_region start stop sp v :
  start <= stop -> 0 < sp ->
  line_coordinates start stop None (Some sp) 1 false = Some v ->
  let k := Z.max 1 (rhe ((stop - start) / sp)) in
  length v = Z.to_nat (k + 1) /\
  forall i, (i <= Z.to_nat k)%nat -> nth i v 0 == start + inject_Z (Z.of_nat i) * sp.
Proof.
  intros Hle Hsp. unfold line_coordinates.
  destruct (spacing_to_size start stop sp 1) as [[n stop']|] eqn:Es; [|discriminate].
  destruct (sts_spec _ _ _ _ _ _ Hle Hsp Es) as [Hn [_ Hs]]. specialize (Hs eq_refl). subst stop'.
  intros H. injection H as <-. cbv zeta.
  set (k := Z.max 1 (rhe ((stop - start) / sp))) in *.
  assert (Hk: (1 <= k)%Z) by (unfold k; lia).
  replace n with (k + 1)%Z by lia. replace (k + 1 - 1)%Z with k by lia.
  assert (E1: (Z.to_nat (k + 1) - 1)%nat = Z.to_nat k) by lia.
  split; [apply linspace_length|].
  intros i Hi. rewrite linspace_nth by lia. rewrite E1, Z2Nat.id by lia.
  assert (P: 0 < inject_Z k). { change 0 with (inject_Z 0). rewrite <- Zlt_Qlt. lia. }
  set (kk := inject_Z k) in *. clearbody kk. field. lra.
Qed.

(** a size: exactly [n] nodes from [start] to [stop] *)
Theorem line_size start stop n v : (2 <= n)%Z ->
  line_coordinates start stop (Some n) None 0 false = Some v ->
  length v = Z.to_nat n /\ nth 0 v 0 == start /\ nth (Z.to_nat n - 1) v 0 == stop /\
  forall i, (i < Z.to_nat n)%nat ->
    nth i v 0 == start + inject_Z (Z.of_nat i) * ((stop - start) / inject_Z (n - 1)).
Proof.
  intros Hn H. cbn in H. injection H as <-.
  split; [apply linspace_length|]. split; [apply linspace_first; lia|]. split; [apply linspace_last; lia|].
  intros i Hi. rewrite linspace_nth by lia.
  replace (Z.of_nat (Z.to_nat n - 1)) with (n - 1)%Z by lia. reflexivity.
Qed.

Lemma removelast_len {A} (l : list A) : length (removelast l) = (length l - 1)%nat.
Proof.
  induction l as [|x [|y t] IH]; try reflexivity.
  change (removelast (x :: y :: t)) with (x :: removelast (y :: t)).
  cbn [length] in *. lia.
Qed.

Lemma removelast_nth {A} (l : list A) i d : (i < length l - 1)%nat ->
  nth i (removelast l) d = nth i l d.
Proof.
  revert i. induction l as [|x [|y t] IH]; intros i Hi; cbn [length] in Hi; try lia.
  change (removelast (x :: y :: t)) with (x :: removelast (y :: t)).
  destruct i as [|i]; [reflexivity|]. cbn [nth]. apply IH. cbn [length]. lia.
Qed.

(** pixel shift: one node fewer, each moved by half the first step *)
Lemma pixel_shift_spec v p : pixel_shift v = Some p ->
  length p = (length v - 1)%nat /\
  forall i, (i < length v - 1)%nat -> nth i p 0 == nth i v 0 + (nth 1 v 0 - nth 0 v 0) / 2.
Proof.
  destruct v as [|v0 [|v1 t]]; try discriminate.
  intros H.
  change (pixel_shift (v0 :: v1 :: t))
    with (Some (map (fun x => x + (v1 - v0) / 2) (removelast (v0 :: v1 :: t)))) in H.
  set (l := v0 :: v1 :: t) in *.
  remember (removelast l) as rl eqn:Erl. injection H as <-. subst rl. split.
  - rewrite map_length. apply removelast_len.
  - intros i Hi.
    rewrite (nth_map_const _ _ _ _ 0) by (rewrite removelast_len; exact Hi).
    rewrite removelast_nth by exact Hi. reflexivity.
Qed.

(** pixel registration with a spacing: the midpoints of the intervals, one fewer node *)
Theorem line_pixel_spacing start stop sp adj p :
  start <= stop -> 0 < sp -> (adj = 0 \/ adj = 1)%Z ->
  line_coordinates start stop None (Some sp) adj true = Some p ->
  exists v, line_coordinates start stop None (Some sp) adj false = Some v /\
    length p = (length v - 1)%nat /\
    forall i, (i < length v - 1)%nat -> nth i p 0 == (nth i v 0 + nth (S i) v 0) / 2.
Proof.
  intros Hle Hsp Hadj. unfold line_coordinates.
  destruct (spacing_to_size start stop sp adj) as [[n stop']|] eqn:Es; [|discriminate].
  destruct (sts_spec _ _ _ _ _ _ Hle Hsp Es) as [Hn _].
  intros H. exists (linspace start stop' (Z.to_nat n)). split; [reflexivity|].
  destruct (pixel_shift_spec _ _ H) as [Hl Hi]. split; [exact Hl|].
  rewrite linspace_length in *. intros i Hlt. rewrite Hi by exact Hlt.
  assert (Hn2: (2 <= Z.to_nat n)%nat) by lia.
  pose proof (linspace_step start stop' (Z.to_nat n) 0 Hn2 ltac:(lia)) as S0.
  pose proof (linspace_step start stop' (Z.to_nat n) i Hn2 ltac:(lia)) as Si.
  set (st := (stop' - start) / inject_Z (Z.of_nat (Z.to_nat n - 1))) in *. clearbody st.
  set (a0 := nth 0 (linspace start stop' (Z.to_nat n)) 0) in *.
  set (a1 := nth 1 (linspace start stop' (Z.to_nat n)) 0) in *.
  set (ai := nth i (linspace start stop' (Z.to_nat n)) 0) in *.
  set (aj := nth (S i) (linspace start stop' (Z.to_nat n)) 0) in *.
  clearbody a0 a1 ai aj. unfold Qdiv. change (/ 2) with (1#2). lra.
Qed.

(** pixel registration with a size: exactly [n] nodes, the midpoints of the
    [n] equal intervals of [start, stop] *)
Theorem line_pixel_size start stop n p : (1 <= n)%Z ->
  line_coordinates start stop (Some n) None 0 true = Some p ->
  length p = Z.to_nat n /\
  forall i, (i < Z.to_nat n)%nat ->
    nth i p 0 == start + (inject_Z (Z.of_nat i) + (1#2)) * ((stop - start) / inject_Z n).
Proof.
  intros Hn H. cbn in H.
  destruct (pixel_shift_spec _ _ H) as [Hl Hi]. rewrite linspace_length in *.
  split; [lia|]. intros i Hlt. rewrite Hi by lia.
  rewrite !linspace_nth by lia.
  replace (Z.of_nat (Z.to_nat (n + 1) - 1)) with n by lia.
  set (st := (stop - start) / inject_Z n). clearbody st.
  change (inject_Z (Z.of_nat 1)) with 1. change (inject_Z (Z.of_nat 0)) with 0. field.
Qed.

(** both or neither of size and spacing are rejected *)
Theorem line_rejects start stop adj pix :
  (forall n sp, line_coordinates start stop (Some n) (Some sp) adj pix = None) /\
  line_coordinates start stop None None adj pix = None.
Proof. split; reflexivity. Qed.

(** ** grids *)

(** shape (n_north rows, n_east columns); easting varies along columns,
    northing along rows; extra coordinates are constant arrays of that shape *)
Theorem grid_shape_orientation region shape spacing adj pix extra mesh g :
  grid_coordinates region shape spacing adj pix extra mesh = Some g ->
  let ne := length (g_east1 g) in let nn := length (g_north1 g) in
  length (g_east2 g) = nn /\ length (g_north2 g) = nn /\
  (forall i, (i < nn)%nat -> nth i (g_east2 g) [] = g_east1 g) /\
  (forall i, (i < nn)%nat -> length (nth i (g_north2 g) []) = ne) /\
  (forall i j, (i < nn)%nat -> (j < ne)%nat ->
     nth j (nth i (g_east2 g) []) 0 = nth j (g_east1 g) 0 /\
     nth j (nth i (g_north2 g) []) 0 = nth i (g_north1 g) 0) /\
  (forall x, In x (g_extra g) -> length x = nn /\
     forall row, In row x -> length row = ne /\ exists c, forall y, In y row -> y = c).
Proof.
  unfold grid_coordinates. destruct (negb (check_region region)); [discriminate|].
  destruct region as [|w [|e [|s [|n [|? ?]]]]]; try discriminate.
  match goal with |- match ?d with _ => _ end = _ -> _ => destruct d as [[[[se sn] spe] spn]|]; [|discriminate] end.
  destruct (line_coordinates w e se spe adj pix) as [east|]; [|discriminate].
  destruct (line_coordinates s n sn spn adj pix) as [north|]; [|discriminate].
  intros H.
  assert (Hg: g_east1 g = east /\ g_north1 g = north /\ g_east2 g = meshgrid_e east north /\
              g_north2 g = meshgrid_n east north /\
              g_extra g = match extra with None => [] | Some vs => map (fun v => map (fun _ => map (fun _ => v) east) north) vs end).
  { destruct extra, mesh; try discriminate; injection H as <-; cbn; auto. }
  destruct Hg as [-> [-> [-> [-> Hx]]]]. cbv zeta. unfold meshgrid_e, meshgrid_n.
  rewrite !map_length. repeat split.
  - intros i Hi. rewrite (nth_map_const _ _ _ _ 0) by exact Hi. reflexivity.
  - intros i Hi. rewrite (nth_map_const _ _ _ _ 0) by exact Hi. apply map_length.
  - rewrite (nth_map_const _ _ _ _ 0) by assumption. reflexivity.
  - rewrite (nth_map_const _ _ _ _ 0) by assumption.
    rewrite (nth_map_const _ _ _ _ 0) by assumption. reflexivity.
  - rewrite Hx in H0. destruct extra as [vs|]; [|destruct H0].
    apply in_map_iff in H0 as [v [<- _]]. apply map_length.
  - rewrite Hx in H0. destruct extra as [vs|]; [|destruct H0].
    apply in_map_iff in H0 as [v [<- _]]. apply in_map_iff in H1 as [y [<- _]]. apply map_length.
  - rewrite Hx in H0. destruct extra as [vs|]; [|destruct H0].
    apply in_map_iff in H0 as [v [<- _]]. apply in_map_iff in H1 as [y [<- _]].
    exists v. intros z Hz. apply in_map_iff in Hz as [? [<- _]]. reflexivity.
Qed.

(** the 1-D vectors are the line coordinates of each direction: east from
    region[0:2] / shape[1] / spacing[1], north from region[2:4] / shape[0] / spacing[0] *)
Theorem grid_lines_shape w e s n sn se adj pix extra mesh g :
  grid_coordinates [w; e; s; n] (Some (sn, se)) None adj pix extra mesh = Some g ->
  line_coordinates w e (Some se) None adj pix = Some (g_east1 g) /\
  line_coordinates s n (Some sn) None adj pix = Some (g_north1 g).
Proof.
  unfold grid_coordinates. destruct (negb (check_region [w; e; s; n])); [discriminate|].
  destruct (line_coordinates w e (Some se) None adj pix) as [east|]; [|discriminate].
  destruct (line_coordinates s n (Some sn) None adj pix) as [north|]; [|discriminate].
  destruct extra, mesh; try discriminate; intros H; injection H as <-; cbn; auto.
Qed.

Theorem grid_lines_spacing w e s n spn spe adj pix extra mesh g :
  grid_coordinates [w; e; s; n] None (Some [spn; spe]) adj pix extra mesh = Some g ->
  line_coordinates w e None (Some spe) adj pix = Some (g_east1 g) /\
  line_coordinates s n None (Some spn) adj pix = Some (g_north1 g).
Proof.
  unfold grid_coordinates. destruct (negb (check_region [w; e; s; n])); [discriminate|].
  destruct (line_coordinates w e None (Some spe) adj pix) as [east|]; [|discriminate].
  destruct (line_coordinates s n None (Some spn) adj pix) as [north|]; [|discriminate].
  destruct extra, mesh; try discriminate; intros H; injection H as <-; cbn; auto.
Qed.

Theorem grid_scalar_spacing region sp adj pix extra mesh :
  grid_coordinates region None (Some [sp]) adj pix extra mesh =
  grid_coordinates region None (Some [sp; sp]) adj pix extra mesh.
Proof. reflexivity. Qed.

(** meshgrid=False returns exactly the 1-D vectors (the record's 1-D fields) and
    refuses extra coordinates; invalid argument combinations are rejected *)
Theorem grid_args_rejected region shape (sh : Z * Z) (sp : list Q) sps adj pix extra mesh (x : list Q) :
  (check_region region = false -> grid_coordinates region shape sps adj pix extra mesh = None) /\
  grid_coordinates region (Some sh) (Some sp) adj pix extra mesh = None /\
  grid_coordinates region None None adj pix extra mesh = None /\
  (forall a b c l, grid_coordinates region None (Some (a :: b :: c :: l)) adj pix extra mesh = None) /\
  grid_coordinates region None (Some []) adj pix extra mesh = None /\
  grid_coordinates region shape sps adj pix (Some x) false = None.
Proof.
  unfold grid_coordinates. repeat split.
  - intros ->. reflexivity.
  - destruct (negb (check_region region)); [reflexivity|].
    destruct region as [|w [|e [|s [|n [|? ?]]]]]; try reflexivity. destruct sh; reflexivity.
  - destruct (negb (check_region region)); [reflexivity|].
    destruct region as [|w [|e [|s [|n [|? ?]]]]]; reflexivity.
  - intros a b c l. destruct (negb (check_region region)); [reflexivity|].
    destruct region as [|w [|e [|s [|n [|? ?]]]]]; reflexivity.
  - destruct (negb (check_region region)); [reflexivity|].
    destruct region as [|w [|e [|s [|n [|? ?]]]]]; reflexivity.
  - destruct (negb (check_region region)); [reflexivity|].
    destruct region as [|w [|e [|s [|n [|? ?]]]]]; try reflexivity.
    match goal with |- match ?d with _ => _ end = _ => destruct d as [[[[se sn] spe] spn]|]; [|reflexivity] end.
    destruct (line_coordinates w e se spe adj pix); [|reflexivity].
    destruct (line_coordinates s n sn spn adj pix); reflexivity.
Qed.

(** ** shape_to_spacing inverts the shape *)
Lemma sts_inverts_1d (w e : Q) (m : Z) adj : w < e -> (1 <= m)%Z -> (adj = 0 \/ adj = 1)%Z ->
  exists stop', spacing_to_size w e ((e - w) / inject_Z m) adj = Some ((m + 1)%Z, stop') /\ stop' == e.
Proof.
  intros Hwe Hm Hadj. unfold spacing_to_size.
  assert (P: 0 < inject_Z m). { change 0 with (inject_Z 0). rewrite <- Zlt_Qlt. lia. }
  assert (Hq: (e - w) / ((e - w) / inject_Z m) == inject_Z m).
  { set (k := inject_Z m) in *. clearbody k. field. split; lra. }
  assert (Hr: rhe ((e - w) / ((e - w) / inject_Z m)) = m) by (rewrite Hq; apply rhe_Z).
  rewrite Hr.
  replace ((adj =? 0)%Z || (adj =? 1)%Z) with true by (destruct Hadj as [-> | ->]; reflexivity).
  destruct (m + 1 =? 1)%Z eqn:E; [lia|].
  eexists. split; [reflexivity|].
  destruct Hadj as [-> | ->]; [reflexivity|].
  change (1 =? 1)%Z with true. cbv iota.
  replace (m + 1 - 1)%Z with m by lia.
  set (k := inject_Z m) in *. clearbody k. field. lra.
Qed.

Theorem shape_to_spacing_inverts w e s n sn se adj g :
  w < e -> s < n -> (2 <= sn)%Z -> (2 <= se)%Z -> (adj = 0 \/ adj = 1)%Z ->
  let '(spn, spe) := shape_to_spacing (w, e, s, n) (sn, se) false in
  grid_coordinates [w; e; s; n] None (Some [spn; spe]) adj false None true = Some g ->
  length (g_north1 g) = Z.to_nat sn /\ length (g_east1 g) = Z.to_nat se.
Proof.
  intros Hwe Hsn Hn Hse Hadj. cbn [shape_to_spacing].
  intros H. apply grid_lines_spacing in H as [He Hno].
  unfold line_coordinates in He, Hno.
  destruct (sts_inverts_1d w e (se - 1) adj Hwe ltac:(lia) Hadj) as [st1 [E1 _]].
  destruct (sts_inverts_1d s n (sn - 1) adj Hsn ltac:(lia) Hadj) as [st2 [E2 _]].
  rewrite E1 in He. rewrite E2 in Hno.
  injection He as <-. injection Hno as <-. rewrite !linspace_length. split; f_equal; lia.
Qed.

Theorem shape_to_spacing_inverts_pixel w e s n sn se adj g :
  w < e -> s < n -> (1 <= sn)%Z -> (1 <= se)%Z -> (adj = 0 \/ adj = 1)%Z ->
  let '(spn, spe) := shape_to_spacing (w, e, s, n) (sn, se) true in
  grid_coordinates [w; e; s; n] None (Some [spn; spe]) adj true None true = Some g ->
  length (g_north1 g) = Z.to_nat sn /\ length (g_east1 g) = Z.to_nat se.
Proof.
  intros Hwe Hsn Hn Hse Hadj. cbn [shape_to_spacing].
  intros H. apply grid_lines_spacing in H as [He Hno].
  unfold line_coordinates in He, Hno.
  destruct (sts_inverts_1d w e se adj Hwe ltac:(lia) Hadj) as [st1 [E1 _]].
  destruct (sts_inverts_1d s n sn adj Hsn ltac:(lia) Hadj) as [st2 [E2 _]].
  rewrite E1 in He. rewrite E2 in Hno.
  apply pixel_shift_spec in He as [He _]. apply pixel_shift_spec in Hno as [Hno _].
  rewrite linspace_length in *. split; lia.
Qed.

(** ** profiles: evenly spaced on the segment, distances from the first point *)
Theorem profile_even x1 y1 x2 y2 size : (2 <= size)%nat ->
  let pts := profile_points x1 y1 x2 y2 size in
  let d2 := profile_dist2 x1 y1 x2 y2 size in
  length pts = size /\ length d2 = size /\
  (fst (nth 0 pts (0, 0)) == x1 /\ snd (nth 0 pts (0, 0)) == y1) /\
  (fst (nth (size - 1) pts (0, 0)) == x2 /\ snd (nth (size - 1) pts (0, 0)) == y2) /\
  nth 0 d2 0 == 0 /\
  forall i, (i < size)%nat ->
    let t := inject_Z (Z.of_nat i) / inject_Z (Z.of_nat (size - 1)) in
    fst (nth i pts (0, 0)) == x1 + t * (x2 - x1) /\
    snd (nth i pts (0, 0)) == y1 + t * (y2 - y1) /\
    nth i d2 0 == t * t * ((x2 - x1) * (x2 - x1) + (y2 - y1) * (y2 - y1)).
Proof.
  intros Hs. cbv zeta. unfold profile_points, profile_dist2, profile_t.
  rewrite !map_length, linspace_length.
  pose proof (inject_nat_pos (size - 1) ltac:(lia)) as P.
  assert (T: forall i, (i < size)%nat -> nth i (linspace 0 1 size) 0 ==
             inject_Z (Z.of_nat i) / inject_Z (Z.of_nat (size - 1))).
  { intros i Hi. rewrite linspace_nth by lia.
    set (k := inject_Z (Z.of_nat (size - 1))) in *. clearbody k. field. lra. }
  assert (N: forall i, (i < size)%nat ->
    nth i (map (fun t => (x1 + t * (x2 - x1), y1 + t * (y2 - y1))) (linspace 0 1 size)) (0, 0) =
    (x1 + nth i (linspace 0 1 size) 0 * (x2 - x1), y1 + nth i (linspace 0 1 size) 0 * (y2 - y1))).
  { intros i Hi. rewrite (nth_map_const _ _ _ _ 0) by (rewrite linspace_length; exact Hi). reflexivity. }
  assert (M: forall i, (i < size)%nat ->
    nth i (map (fun t => t * t * ((x2 - x1) * (x2 - x1) + (y2 - y1) * (y2 - y1))) (linspace 0 1 size)) 0 =
    nth i (linspace 0 1 size) 0 * nth i (linspace 0 1 size) 0 * ((x2 - x1) * (x2 - x1) + (y2 - y1) * (y2 - y1))).
  { intros i Hi. rewrite (nth_map_const _ _ _ _ 0) by (rewrite linspace_length; exact Hi). reflexivity. }
  repeat split; try reflexivity.
  - rewrite N by lia. cbn [fst]. rewrite linspace_first by lia. ring.
  - rewrite N by lia. cbn [snd]. rewrite linspace_first by lia. ring.
  - rewrite N by lia. cbn [fst]. rewrite linspace_last by lia. ring.
  - rewrite N by lia. cbn [snd]. rewrite linspace_last by lia. ring.
  - rewrite M by lia. rewrite linspace_first by lia. ring.
  - rewrite N by lia. cbn [fst]. rewrite T by assumption. reflexivity.
  - rewrite N by lia. cbn [snd]. rewrite T by assumption. reflexivity.
  - rewrite M by lia. rewrite T by assumption. reflexivity.
Qed.
