(** What the C04 case functions decide: the dyadic comparisons are the
    rational statements, the dyadic monomials are the model's monomials. *)
From Coq Require Import QArith Qabs Qpower ZArith List Bool Arith Lia Lqa.
From Verde Require Import Lib.Verdict Lib.Dyadic Lib.QExtra Lib.LinAlgQ Lib.LinAlgD
  Model.LeastSquares Model.LSCases Model.Invariance Model.InvarianceCases Proofs.LSCertProofs.
Import ListNotations.
Open Scope Q_scope.

Lemma dclose_spec tol a b : dclose tol a b = true <-> Qabs (D2Q a - D2Q b) <= D2Q tol.
Proof. unfold dclose. rewrite dle_spec, D2Q_abs, D2Q_sub. reflexivity. Qed.

(** the pair comparison: same length and component-wise within the tolerance *)
Theorem close_lists_sound tol a b : close_lists tol a b = true ->
  Forall2 (fun x y => Qabs (D2Q x - D2Q y) <= D2Q tol) a b.
Proof.
  unfold close_lists. revert b. induction a as [|x a IH]; intros [|y b] H; cbn in H; try discriminate; constructor.
  - apply andb_true_iff in H as [H _]. apply dclose_spec, H.
  - apply andb_true_iff in H as [_ H]. apply IH, H.
Qed.

(** the shape check: the observed shape is the model's broadcast shape and the size fits *)
Theorem shape_okb_sound ncomp she shn shout out : shape_okb ncomp she shn shout out = true ->
  broadcast_shape she shn = Some shout /\ length out = (ncomp * shape_size shout)%nat.
Proof.
  unfold shape_okb. destruct (broadcast_shape she shn) as [s|]; [|discriminate].
  intros H. apply andb_true_iff in H as [H1 H2]. apply Nat.eqb_eq in H2.
  apply (list_eqb_spec Nat.eqb) in H1; [subst; split; [reflexivity|exact H2]|].
  intros x y. apply Nat.eqb_eq.
Qed.

(** dyadic powers and monomials are the rational ones *)
Lemma Qpow_succ x k : Qpow x (S k) == x * Qpow x k.
Proof.
  unfold Qpow. rewrite Nat2Z.inj_succ. unfold Z.succ.
  rewrite Qpower_plus' by lia. change (Qpower x 1) with x. ring.
Qed.
Lemma D2Q_dpow x k : D2Q (dpow x k) == Qpow (D2Q x) k.
Proof.
  induction k as [|k IH]; cbn [dpow].
  - rewrite D2Q_d1. reflexivity.
  - rewrite D2Q_mul, IH, Qpow_succ. reflexivity.
Qed.
Theorem dmonomials_sound deg e n : veq (Dv (dmonomials deg e n)) (monomials deg (D2Q e, D2Q n)).
Proof.
  unfold dmonomials, monomials, Dv. rewrite map_map. cbn [fst snd].
  induction (power_combinations deg) as [|ij t IH]; cbn; constructor; [|exact IH].
  rewrite D2Q_mul, !D2Q_dpow. reflexivity.
Qed.
Theorem dtrend_jacobian_sound deg es ns :
  Forall2 veq (DM (dtrend_jacobian deg es ns)) (trend_jacobian deg (combine (map D2Q es) (map D2Q ns))).
Proof.
  unfold dtrend_jacobian, trend_jacobian, DM. revert ns. induction es as [|e es IH]; intros [|n ns]; cbn; constructor.
  - apply dmonomials_sound.
  - apply IH.
Qed.
