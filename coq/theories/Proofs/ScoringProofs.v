(** Proofs for C12 (model in Model/Scoring.v). *)
From Coq Require Import QArith Qabs List Bool Arith Lia Lqa Permutation.
From Verde Require Import Lib.QExtra Model.Scoring.
Import ListNotations.
Open Scope Q_scope.

(** * select depends only on the selected rows *)
Lemma select_local {A} (d : A) idx xs xs' :
  (forall i, In i idx -> nth i xs d = nth i xs' d) -> select d idx xs = select d idx xs'.
Proof. intros H. unfold select. apply map_ext_in. exact H. Qed.

Lemma select_length {A} (d : A) idx xs : length (select d idx xs) = length idx.
Proof. unfold select. apply map_length. Qed.

Lemma select_nth {A} (d : A) idx xs r : (r < length idx)%nat ->
  nth r (select d idx xs) d = nth (nth r idx O) xs d.
Proof.
  intros H. unfold select.
  rewrite (nth_indep _ d (nth (nth (length idx) idx O) xs d)) by (rewrite map_length; exact H).
  rewrite nth_overflow with (n := length idx) by lia.
  change (nth 0 xs d) with ((fun i => nth i xs d) O). apply map_nth.
Qed.

(** two tuples of arrays agree on the rows [idx] *)
Definition tuple_agree (idx : list nat) (a b : tuple) : Prop :=
  length a = length b /\
  forall j i, In i idx -> nth i (nth j a []) 0 = nth i (nth j b []) 0.

Definition rows_agree (idx : list nat) (ds ds' : dataset) : Prop :=
  tuple_agree idx (ds_coords ds) (ds_coords ds') /\
  tuple_agree idx (ds_data ds) (ds_data ds') /\
  match ds_weights ds, ds_weights ds' with
  | None, None => True
  | Some w, Some w' => tuple_agree idx w w'
  | _, _ => False
  end.

Lemma select_tuple_local idx a b :
  tuple_agree idx a b -> map (select 0 idx) a = map (select 0 idx) b.
Proof.
  intros [Hl H]. apply nth_ext with (d := select 0 idx []) (d' := select 0 idx []).
  - rewrite !map_length. exact Hl.
  - intros j Hj. rewrite !map_nth. apply select_local. intros i Hi. apply H. exact Hi.
Qed.

Lemma select_ds_local idx ds ds' : rows_agree idx ds ds' -> select_ds idx ds = select_ds idx ds'.
Proof.
  intros (Hc & Hd & Hw). unfold select_ds.
  rewrite (select_tuple_local _ _ _ Hc), (select_tuple_local _ _ _ Hd).
  destruct (ds_weights ds) as [w|], (ds_weights ds') as [w'|]; cbn; try contradiction; try reflexivity.
  rewrite (select_tuple_local _ _ _ Hw). reflexivity.
Qed.

Lemma ds_arrays_select idx ds :
  ds_arrays (select_ds idx ds) = map (select 0 idx) (ds_arrays ds).
Proof.
  unfold ds_arrays, select_ds. cbn. rewrite !map_app.
  destruct (ds_weights ds); reflexivity.
Qed.

(** * cross_val_score *)
Section CVS.
Variable M : Type.
Variable fit : dataset -> M.
Variable predict : M -> tuple -> tuple.
Variable mt : metric.

(** what score k is: the metric of the clone fitted on the training rows,
    evaluated on the test rows with the test weights, averaged over components *)
Theorem cvs_metric splits ds k tr te :
  nth_error splits k = Some (tr, te) ->
  nth_error (cross_val_score M fit predict mt splits ds) k =
  Some (qmean (score_components mt
                 (predict (fit (select_ds tr ds)) (map (select 0 te) (ds_coords ds)))
                 (map (select 0 te) (ds_data ds))
                 (option_map (map (select 0 te)) (ds_weights ds)))).
Proof.
  intros H. unfold cross_val_score. rewrite (map_nth_error _ _ _ H). reflexivity.
Qed.

Theorem cvs_length splits ds : length (cross_val_score M fit predict mt splits ds) = length splits.
Proof. unfold cross_val_score. apply map_length. Qed.

(** no leakage in either direction: score k is unchanged by any change of the
    dataset outside the training rows (for the fit) and outside the test rows
    (for the evaluation) of split k *)
Theorem cvs_noninterference splits ds ds' k tr te :
  nth_error splits k = Some (tr, te) ->
  rows_agree tr ds ds' -> rows_agree te ds ds' ->
  nth_error (cross_val_score M fit predict mt splits ds) k =
  nth_error (cross_val_score M fit predict mt splits ds') k.
Proof.
  intros H Htr Hte. unfold cross_val_score.
  rewrite !(map_nth_error _ _ _ H). unfold split_task, fit_score. cbn [fst snd].
  rewrite (select_ds_local _ _ _ Htr), (select_ds_local _ _ _ Hte). reflexivity.
Qed.

(** the fitted clone depends on the training rows only *)
Theorem fit_sees_train_only tr ds ds' :
  rows_agree tr ds ds' -> fit (select_ds tr ds) = fit (select_ds tr ds').
Proof. intros H. rewrite (select_ds_local _ _ _ H). reflexivity. Qed.
End CVS.

(** component i of the mean is the metric of (weights[i], data[i], prediction[i]) *)
Lemma comp_weights_length w n :
  match w with Some ws => length ws = n | None => True end -> length (comp_weights w n) = n.
Proof. destruct w; cbn; intros H; [rewrite map_length; exact H|apply repeat_length]. Qed.

Lemma map2_length {A B C} (f : A -> B -> C) l1 l2 : length (map2 f l1 l2) = Nat.min (length l1) (length l2).
Proof. revert l2. induction l1 as [|x t IH]; intros [|y t2]; cbn; auto. Qed.

Lemma map2_nth {A B C} (f : A -> B -> C) l1 l2 i da db dc :
  (i < length l1)%nat -> (i < length l2)%nat -> nth i (map2 f l1 l2) dc = f (nth i l1 da) (nth i l2 db).
Proof.
  revert l2 i. induction l1 as [|x t IH]; intros [|y t2] i H1 H2; cbn in *; try lia.
  destruct i; [reflexivity|]. apply IH; lia.
Qed.

Definition weight_of (w : option tuple) (i : nat) : option (list Q) :=
  match w with Some ws => Some (nth i ws []) | None => None end.

Theorem score_components_nth mt pred data w i :
  (i < length pred)%nat -> (i < length data)%nat ->
  match w with Some ws => length ws = length data | None => True end ->
  nth i (score_components mt pred data w) 0 = mt (weight_of w i) (nth i data []) (nth i pred []).
Proof.
  intros Hp Hd Hw. unfold score_components.
  pose proof (comp_weights_length w (length data) Hw) as Hl.
  rewrite map2_nth with (da := []) (db := ([], None)).
  2: exact Hp. 2: rewrite combine_length, Hl; lia.
  rewrite combine_nth by (symmetry; exact Hl). cbn [fst snd]. f_equal.
  unfold weight_of, comp_weights. destruct w as [ws|].
  - rewrite nth_indep with (d' := Some []) by (rewrite map_length; lia).
    apply (map_nth (@Some (list Q))).
  - apply nth_repeat.
Qed.

Theorem score_components_length mt pred data w :
  match w with Some ws => length ws = length data | None => True end ->
  length (score_components mt pred data w) = Nat.min (length pred) (length data).
Proof.
  intros Hw. unfold score_components. rewrite map2_length, combine_length.
  rewrite (comp_weights_length w (length data) Hw). lia.
Qed.

(** * task execution: serial = delayed under any order *)
Section Tasks.
Variable R : Type.
Variable tasks : list (unit -> R).

Definition ran (k : nat) : list (nat * R) :=
  match nth_error tasks k with Some t => [(k, t tt)] | None => [] end.

Lemma exec_order_acc order acc :
  fold_left (fun acc k => match nth_error tasks k with
                          | Some t => acc ++ [(k, t tt)]
                          | None => acc
                          end) order acc = acc ++ flat_map ran order.
Proof.
  revert acc. induction order as [|k t IH]; intros acc; cbn.
  - rewrite app_nil_r. reflexivity.
  - rewrite IH. unfold ran at 2. destruct (nth_error tasks k); cbn.
    + rewrite <- app_assoc. reflexivity.
    + reflexivity.
Qed.

Lemma lookup_ran order k t :
  In k order -> nth_error tasks k = Some t -> lookup k (flat_map ran order) = Some (t tt).
Proof.
  intros Hin Hk. induction order as [|j rest IH]; [contradiction|].
  cbn [flat_map]. destruct (Nat.eq_dec j k) as [->|Hne].
  - unfold ran at 1. rewrite Hk. cbn. rewrite Nat.eqb_refl. reflexivity.
  - destruct Hin as [E|Hin]; [contradiction|].
    unfold ran at 1. destruct (nth_error tasks j); cbn.
    + apply Nat.eqb_neq in Hne. rewrite Hne. apply IH. exact Hin.
    + apply IH. exact Hin.
Qed.

Theorem run_tasks_covering order :
  (forall k, (k < length tasks)%nat -> In k order) ->
  run_tasks order tasks = map (fun t => Some (t tt)) tasks.
Proof.
  intros Hc. unfold run_tasks, exec_order. rewrite exec_order_acc. cbn [app].
  apply nth_ext with (d := lookup O (flat_map ran order)) (d' := None).
  - rewrite !map_length, seq_length. reflexivity.
  - intros i Hi. rewrite map_length, seq_length in Hi.
    rewrite (map_nth (fun k => lookup k (flat_map ran order))), seq_nth by exact Hi. cbn [plus].
    destruct (nth_error tasks i) as [t|] eqn:E.
    2: { apply nth_error_None in E. lia. }
    rewrite (lookup_ran _ _ _ (Hc i Hi) E).
    rewrite nth_indep with (d' := (fun t => Some (t tt)) t) by (rewrite map_length; exact Hi).
    rewrite (map_nth (fun t => Some (t tt))). f_equal.
    apply nth_error_nth with (d := t) in E. rewrite E. reflexivity.
Qed.

Theorem schedule_independent order :
  Permutation order (seq 0 (length tasks)) ->
  run_tasks order tasks = run_tasks (seq 0 (length tasks)) tasks.
Proof.
  intros P. rewrite !run_tasks_covering; [reflexivity| |].
  - intros k Hk. apply in_seq. lia.
  - intros k Hk. apply (Permutation_in _ (Permutation_sym P)). apply in_seq. lia.
Qed.
End Tasks.

Theorem cvs_delayed_eq_serial M fit predict mt order splits ds :
  Permutation order (seq 0 (length splits)) ->
  cross_val_score_delayed M fit predict mt order splits ds =
  map Some (cross_val_score M fit predict mt splits ds).
Proof.
  intros P. unfold cross_val_score_delayed, cross_val_score.
  rewrite run_tasks_covering.
  - rewrite !map_map. reflexivity.
  - intros k Hk. rewrite map_length in Hk.
    apply (Permutation_in _ (Permutation_sym P)). apply in_seq. lia.
Qed.

(** * train_test_split *)
(** every array of the two returned sets is the original array indexed by the
    same index list *)
Theorem tts_same_rows split ds :
  let (tr, te) := train_test_split split ds in
  ds_arrays tr = map (select 0 (fst split)) (ds_arrays ds) /\
  ds_arrays te = map (select 0 (snd split)) (ds_arrays ds) /\
  length (ds_coords tr) = length (ds_coords ds) /\ length (ds_data tr) = length (ds_data ds) /\
  length (ds_coords te) = length (ds_coords ds) /\ length (ds_data te) = length (ds_data ds).
Proof.
  unfold train_test_split. rewrite !ds_arrays_select. cbn. rewrite !map_length. repeat split; reflexivity.
Qed.

(** row r of array j of the training set is row train[r] of the original array j, for every j *)
Theorem tts_aligned split ds j r :
  (j < length (ds_arrays ds))%nat ->
  let (tr, te) := train_test_split split ds in
  ((r < length (fst split))%nat ->
     nth r (nth j (ds_arrays tr) []) 0 = nth (nth r (fst split) O) (nth j (ds_arrays ds) []) 0) /\
  ((r < length (snd split))%nat ->
     nth r (nth j (ds_arrays te) []) 0 = nth (nth r (snd split) O) (nth j (ds_arrays ds) []) 0).
Proof.
  intros Hj. unfold train_test_split. rewrite !ds_arrays_select.
  split; intros Hr.
  - rewrite nth_indep with (d' := select 0 (fst split) []) by (rewrite map_length; exact Hj).
    rewrite (map_nth (select 0 (fst split))). apply select_nth. exact Hr.
  - rewrite nth_indep with (d' := select 0 (snd split) []) by (rewrite map_length; exact Hj).
    rewrite (map_nth (select 0 (snd split))). apply select_nth. exact Hr.
Qed.

Lemma NoDup_app_parts (a b : list nat) :
  NoDup (a ++ b) -> NoDup a /\ NoDup b /\ (forall i, In i a -> ~ In i b).
Proof.
  induction a as [|x t IH]; cbn; intros ND.
  - repeat split; [constructor|exact ND|intros i []].
  - inversion ND as [|? ? Hx ND']; subst. destruct (IH ND') as (N1 & N2 & N3).
    repeat split.
    + constructor; [|exact N1]. intros H. apply Hx. apply in_or_app. left. exact H.
    + exact N2.
    + intros i [->|Hi] Hb; [apply Hx; apply in_or_app; right; exact Hb|exact (N3 i Hi Hb)].
Qed.

(** complementary: when the splitter's two index lists together are a
    permutation of the rows, every original row is in exactly one of the sets, once *)
Theorem tts_complementary (split : list nat * list nat) n :
  Permutation (fst split ++ snd split) (seq 0 n) ->
  NoDup (fst split) /\ NoDup (snd split) /\
  (forall i, In i (fst split) -> ~ In i (snd split)) /\
  (forall i, (i < n)%nat <-> In i (fst split) \/ In i (snd split)) /\
  (length (fst split) + length (snd split) = n)%nat.
Proof.
  intros P. destruct split as [tr te]. cbn [fst snd] in *.
  assert (ND: NoDup (tr ++ te)).
  { apply (Permutation_NoDup (Permutation_sym P)). apply seq_NoDup. }
  destruct (NoDup_app_parts _ _ ND) as (N1 & N2 & N3).
  split; [exact N1|]. split; [exact N2|]. split; [exact N3|]. split.
  - intros i. rewrite <- in_app_iff. split; intros H.
    + apply (Permutation_in _ (Permutation_sym P)). apply in_seq. lia.
    + apply (Permutation_in _ P) in H. apply in_seq in H. lia.
  - rewrite <- app_length. rewrite (Permutation_length P). apply seq_length.
Qed.

(** * numpy.argmax = first maximum *)
Lemma argmax_from_spec l : forall pre best bv,
  (best < length pre)%nat -> bv = nth best pre 0 ->
  (forall j, (j < length pre)%nat -> nth j pre 0 <= bv) ->
  (forall j, (j < best)%nat -> nth j pre 0 < bv) ->
  let r := argmax_from best bv (length pre) l in
  (r < length (pre ++ l))%nat /\
  (forall j, (j < length (pre ++ l))%nat -> nth j (pre ++ l) 0 <= nth r (pre ++ l) 0) /\
  (forall j, (j < r)%nat -> nth j (pre ++ l) 0 < nth r (pre ++ l) 0).
Proof.
  induction l as [|x t IH]; intros pre best bv Hb Hbv Hle Hlt; cbn [argmax_from].
  - rewrite app_nil_r. subst bv. repeat split; auto.
  - assert (E: pre ++ x :: t = (pre ++ [x]) ++ t) by (rewrite <- app_assoc; reflexivity).
    assert (L: S (length pre) = length (pre ++ [x])) by (rewrite app_length; cbn; lia).
    assert (Nx: nth (length pre) (pre ++ [x]) 0 = x).
    { rewrite app_nth2 by lia. rewrite Nat.sub_diag. reflexivity. }
    destruct (Qltb bv x) eqn:C.
    + apply Qltb_spec in C. rewrite E, L. apply IH.
      * rewrite app_length. cbn. lia.
      * symmetry. exact Nx.
      * intros j Hj. rewrite app_length in Hj. cbn in Hj.
        destruct (Nat.eq_dec j (length pre)) as [->|Hne].
        -- rewrite Nx. lra.
        -- rewrite app_nth1 by lia. specialize (Hle j ltac:(lia)). lra.
      * intros j Hj. rewrite app_nth1 by lia. specialize (Hle j Hj). lra.
    + assert (C': x <= bv).
      { destruct (Qlt_le_dec bv x) as [H|H]; [apply Qltb_spec in H; congruence|exact H]. }
      rewrite E, L. apply IH.
      * rewrite app_length. cbn. lia.
      * rewrite app_nth1 by lia. exact Hbv.
      * intros j Hj. rewrite app_length in Hj. cbn in Hj.
        destruct (Nat.eq_dec j (length pre)) as [->|Hne].
        -- rewrite Nx. exact C'.
        -- rewrite app_nth1 by lia. apply Hle. lia.
      * intros j Hj. rewrite app_nth1 by lia. apply Hlt. exact Hj.
Qed.

Theorem argmax_first_spec l : l <> [] ->
  let r := argmax_first l in
  (r < length l)%nat /\
  (forall j, (j < length l)%nat -> nth j l 0 <= nth r l 0) /\
  (forall j, (j < r)%nat -> nth j l 0 < nth r l 0).
Proof.
  destruct l as [|x t]; [congruence|]. intros _. unfold argmax_first.
  change (x :: t) with ([x] ++ t). change 1%nat with (length [x]).
  apply argmax_from_spec; cbn.
  - lia.
  - reflexivity.
  - intros j Hj. assert (j = O) by lia. subst. lra.
  - intros j Hj. lia.
Qed.

(** * SplineCV *)
Lemma list_prod_nth {A B} (l1 : list A) (l2 : list B) a b da db :
  (a < length l1)%nat -> (b < length l2)%nat ->
  nth (a * length l2 + b) (list_prod l1 l2) (da, db) = (nth a l1 da, nth b l2 db).
Proof.
  revert a. induction l1 as [|x t IH]; intros a Ha Hb; cbn in Ha; [lia|].
  cbn [list_prod]. destruct a as [|a'].
  - cbn [Nat.mul plus]. rewrite app_nth1 by (rewrite map_length; exact Hb).
    rewrite nth_indep with (d' := (fun y => (x, y)) db) by (rewrite map_length; exact Hb).
    rewrite (map_nth (fun y => (x, y))). reflexivity.
  - rewrite app_nth2 by (rewrite map_length; cbn; lia).
    rewrite map_length. replace (S a' * length l2 + b - length l2)%nat with (a' * length l2 + b)%nat by (cbn; lia).
    cbn [nth]. apply IH; [lia|exact Hb].
Qed.

Section SplineCVProofs.
Variable M : Type.
Variable fitp : Q * Q -> dataset -> M.
Variable predict : M -> tuple -> tuple.
Variable mt : metric.

(** the candidates are tried in itertools.product(mindists, dampings) order *)
Theorem param_grid_order ms dm a b :
  (a < length ms)%nat -> (b < length dm)%nat ->
  nth (a * length dm + b) (param_grid ms dm) (0, 0) = (nth a ms 0, nth b dm 0).
Proof. apply list_prod_nth. Qed.

Theorem param_grid_length ms dm : length (param_grid ms dm) = (length ms * length dm)%nat.
Proof. apply prod_length. Qed.

(** the chosen parameters maximise the mean cross-validation score, earliest
    candidate on ties, and the final model is fitted to ALL the data with them *)
Theorem splinecv_selects_best ms dm splits ds :
  ms <> [] -> dm <> [] ->
  let grid := param_grid ms dm in
  let '(best, final, scores) := spline_cv M fitp predict mt ms dm splits ds in
  scores = map (fun p => qmean (cross_val_score M (fitp p) predict mt splits ds)) grid /\
  final = fitp best ds /\
  exists i, (i < length grid)%nat /\ best = nth i grid (0, 0) /\
    (forall j, (j < length grid)%nat -> nth j scores 0 <= nth i scores 0) /\
    (forall j, (j < i)%nat -> nth j scores 0 < nth i scores 0).
Proof.
  intros Hm Hd grid. unfold spline_cv. fold grid.
  split; [reflexivity|]. split; [reflexivity|].
  set (scores := cv_means M fitp predict mt grid splits ds).
  assert (Ls: length scores = length grid) by (unfold scores, cv_means; apply map_length).
  assert (Hne: scores <> []).
  { intros E. rewrite E in Ls. cbn in Ls. unfold grid in Ls. rewrite param_grid_length in Ls.
    destruct ms; [congruence|]. destruct dm; [congruence|]. cbn in Ls. lia. }
  destruct (argmax_first_spec scores Hne) as (H1 & H2 & H3).
  exists (argmax_first scores). rewrite <- Ls. repeat split; auto.
Qed.
End SplineCVProofs.

(** * facts about the weighted R2 *)
Lemma qsum_cons x t : qsum (x :: t) == x + qsum t.
Proof. cbn [qsum]. apply Qred_correct. Qed.

Lemma wsum_cons a w b x : wsum (a :: w) (b :: x) == a * b + wsum w x.
Proof. unfold wsum. cbn [map2]. apply qsum_cons. Qed.

Lemma wsum_nil_l x : wsum [] x = 0. Proof. reflexivity. Qed.
Lemma wsum_nil_r w : wsum w [] = 0. Proof. destruct w; reflexivity. Qed.

Lemma qsum_scale c w : qsum (map (Qmult c) w) == c * qsum w.
Proof.
  induction w as [|a t IH]; cbn [map].
  - cbn. ring.
  - rewrite !qsum_cons, IH. ring.
Qed.

Lemma wsum_scale c w x : wsum (map (Qmult c) w) x == c * wsum w x.
Proof.
  revert x. induction w as [|a t IH]; intros [|b x]; cbn [map]; try (cbn; ring).
  rewrite !wsum_cons, IH. ring.
Qed.

Lemma wsum_ext_r w x x' : Forall2 Qeq x x' -> wsum w x == wsum w x'.
Proof.
  intros H. revert w. induction H as [|b b' x x' Hb Hx IH]; intros [|a w]; try reflexivity.
  rewrite !wsum_cons, Hb, IH. reflexivity.
Qed.

Lemma wsum_zero w x : Forall (fun v => v == 0) x -> wsum w x == 0.
Proof.
  intros H. revert w. induction H as [|b x Hb Hx IH]; intros [|a w]; try reflexivity.
  rewrite wsum_cons, Hb, IH. ring.
Qed.

Lemma Qeqb_proper a a' b : a == a' -> Qeqb a b = Qeqb a' b.
Proof.
  intros H. destruct (Qeqb a b) eqn:E1, (Qeqb a' b) eqn:E2; try reflexivity.
  - apply Qeqb_spec in E1. assert (E: a' == b) by (rewrite <- H; exact E1).
    apply Qeqb_spec in E. congruence.
  - apply Qeqb_spec in E2. assert (E: a == b) by (rewrite H; exact E2).
    apply Qeqb_spec in E. congruence.
Qed.

Lemma Qeqb_scale0 c a : ~ c == 0 -> Qeqb (c * a) 0 = Qeqb a 0.
Proof.
  intros Hc. destruct (Qeqb a 0) eqn:E.
  - apply Qeqb_spec in E. apply Qeqb_spec. rewrite E. ring.
  - destruct (Qeqb (c * a) 0) eqn:E2; [|reflexivity].
    apply Qeqb_spec in E2. apply Qmult_integral in E2. destruct E2 as [E2|E2]; [contradiction|].
    apply Qeqb_spec in E2. congruence.
Qed.

Lemma Qdiv_scale c a b : ~ c == 0 -> (c * a) / (c * b) == a / b.
Proof.
  intros Hc. destruct (Qeq_dec b 0) as [Hb|Hb].
  - unfold Qdiv. assert (E: c * b == 0) by (rewrite Hb; ring).
    rewrite E, Hb. cbn. ring.
  - field. split; assumption.
Qed.

Lemma wmean_scale c w y : ~ c == 0 -> wmean (map (Qmult c) w) y == wmean w y.
Proof.
  intros Hc. unfold wmean. rewrite !Qred_correct, wsum_scale, qsum_scale. apply Qdiv_scale. exact Hc.
Qed.

Lemma dev_ext mu mu' y : mu == mu' ->
  Forall2 Qeq (map (fun a => (a - mu) * (a - mu)) y) (map (fun a => (a - mu') * (a - mu')) y).
Proof.
  intros H. induction y as [|a t IH]; cbn; constructor; [rewrite H; reflexivity|exact IH].
Qed.

Lemma r2_den_scale c w y : ~ c == 0 -> r2_den (map (Qmult c) w) y == c * r2_den w y.
Proof.
  intros Hc. unfold r2_den.
  rewrite (wsum_ext_r _ _ _ (dev_ext _ _ y (wmean_scale c w y Hc))). apply wsum_scale.
Qed.

(** R2 is invariant under rescaling of the weights *)
Theorem r2w_weight_scale c w y yhat : ~ c == 0 -> r2w (map (Qmult c) w) y yhat == r2w w y yhat.
Proof.
  intros Hc. unfold r2w.
  assert (En: r2_num (map (Qmult c) w) y yhat == c * r2_num w y yhat) by apply wsum_scale.
  pose proof (r2_den_scale c w y Hc) as Ed.
  rewrite (Qeqb_proper _ _ 0 Ed), (Qeqb_proper _ _ 0 En), !Qeqb_scale0 by exact Hc.
  destruct (Qeqb (r2_den w y) 0); [reflexivity|].
  rewrite En, Ed, Qdiv_scale by exact Hc. reflexivity.
Qed.

Theorem r2_weight_scale c w y yhat : ~ c == 0 ->
  r2 (Some (map (Qmult c) w)) y yhat == r2 (Some w) y yhat.
Proof. intros Hc. unfold r2. cbn [wts]. apply r2w_weight_scale. exact Hc. Qed.

Lemma sqerr_self y : Forall (fun v => v == 0) (sqerr y y).
Proof. induction y as [|a t IH]; cbn; constructor; [ring|exact IH]. Qed.

(** a perfect prediction scores exactly 1 (also for constant data, as scikit-learn's force_finite) *)
Theorem r2w_perfect w y : r2w w y y == 1.
Proof.
  unfold r2w. assert (En: r2_num w y y == 0) by (apply wsum_zero, sqerr_self).
  rewrite (Qeqb_proper _ _ 0 En). change (Qeqb 0 0) with true.
  destruct (Qeqb (r2_den w y) 0); [reflexivity|]. rewrite En. unfold Qdiv. ring.
Qed.

Theorem r2_perfect w y : r2 w y y == 1.
Proof. unfold r2. apply r2w_perfect. Qed.

(** with positive weights and non-constant data R2 is 1 - (weighted squared error)/(weighted variance) *)
Theorem r2w_formula w y yhat : ~ r2_den w y == 0 ->
  r2w w y yhat == 1 - wsum w (sqerr y yhat) / wsum w (map (fun a => (a - wmean w y) * (a - wmean w y)) y).
Proof.
  intros H. unfold r2w. destruct (Qeqb (r2_den w y) 0) eqn:E; [apply Qeqb_spec in E; contradiction|reflexivity].
Qed.

(** * combined statements used by Props/C12.v *)
Theorem score_components_spec (mt : metric) pred data w i :
  (i < length pred)%nat -> (i < length data)%nat ->
  match w with Some ws => length ws = length data | None => True end ->
  nth i (score_components mt pred data w) 0 = mt (weight_of w i) (nth i data []) (nth i pred []) /\
  length (score_components mt pred data w) = Nat.min (length pred) (length data).
Proof.
  intros. split; [apply score_components_nth; assumption|apply score_components_length; assumption].
Qed.

Theorem schedule_independent_full (R : Type) (tasks : list (unit -> R)) order :
  Permutation order (seq 0 (length tasks)) ->
  run_tasks order tasks = run_tasks (seq 0 (length tasks)) tasks /\
  run_tasks order tasks = map (fun t => Some (t tt)) tasks.
Proof.
  intros P. split; [apply schedule_independent; exact P|].
  apply run_tasks_covering. intros k Hk.
  apply (Permutation_in _ (Permutation_sym P)). apply in_seq. lia.
Qed.

Theorem param_grid_spec ms dm a b :
  (a < length ms)%nat -> (b < length dm)%nat ->
  nth (a * length dm + b) (param_grid ms dm) (0, 0) = (nth a ms 0, nth b dm 0) /\
  length (param_grid ms dm) = (length ms * length dm)%nat.
Proof. intros. split; [apply param_grid_order; assumption|apply param_grid_length]. Qed.

Theorem r2_formula w y yhat : ~ r2_den w y == 0 ->
  r2 (Some w) y yhat ==
  1 - wsum w (sqerr y yhat) / wsum w (map (fun a => (a - wsum w y / qsum w) * (a - wsum w y / qsum w)) y).
Proof.
  intros H. unfold r2. cbn [wts]. rewrite r2w_formula by exact H.
  assert (E: wmean w y == wsum w y / qsum w) by (unfold wmean; apply Qred_correct).
  rewrite (wsum_ext_r w _ _ (dev_ext _ _ y E)). reflexivity.
Qed.
