(** The case functions of the C15 check evaluate the model through shared
    intermediate results (keys sorted once per query, nearest squared distance
    computed once per query point): these are the model's functions. *)
From Coq Require Import QArith Qabs ZArith List Bool Arith Lia Lqa.
From Verde Require Import Lib.QExtra Lib.ISort Model.Neighbors Model.NeighborCases Proofs.NeighborsProofs.
Import ListNotations.
Open Scope Q_scope.

Lemma predict_from_sorted_ok r k pts vals q :
  predict_from_sorted r k vals (sorted_keys pts q) = knn_predict r k pts vals q.
Proof. reflexivity. Qed.

Lemma median_from_sorted_ok k pts i :
  median_from_sorted k (sorted_keys pts (nth i pts p0)) = median_d2 k pts i.
Proof. reflexivity. Qed.

(** "the nearest squared distance is at most maxdist^2" is the mask *)
Lemma min_d2_mask md ppts pq :
  ppts <> [] ->
  Qleb 0 md && Qleb (min_d2 ppts pq) (md * md) = distance_mask md ppts pq.
Proof.
  intros NE. unfold distance_mask. f_equal. unfold min_d2.
  set (l := map (fun p => Qred (d2 p pq)) ppts).
  assert (NEl: l <> []) by (unfold l; destruct ppts; [congruence|discriminate]).
  destruct (qmin_list_spec l NEl) as [I B].
  apply eq_true_iff_eq. rewrite Qleb_spec, existsb_exists. split.
  - intros L. unfold l in I, L. apply in_map_iff in I as [p [E Hp]].
    exists p. split; [exact Hp|]. apply Qleb_spec. rewrite <- E in L. rewrite Qred_correct in L. exact L.
  - intros [p [Hp L]]. apply Qleb_spec in L.
    assert (Hin: In (Qred (d2 p pq)) l) by (unfold l; apply in_map_iff; exists p; split; [reflexivity|exact Hp]).
    specialize (B _ Hin). rewrite Qred_correct in B. lra.
Qed.

(** the literal "other points" list used for [holds] in the median_distance cases
    has the n-1 squared distances to the other points, ascending *)
Lemma brute_others_d2_sorted pts i : Sorted.StronglySorted Qle (brute_others_d2 pts i).
Proof. apply qsort_sorted. Qed.

Lemma brute_others_d2_perm pts i :
  Permutation.Permutation (brute_others_d2 pts i)
    (map (fun j => Qred (dist2 pts (nth i pts p0) j))
         (filter (fun j => negb (j =? i)%nat) (seq 0 (length pts)))).
Proof. apply qsort_perm. Qed.
