(** Proofs for C04, part 3: KNeighbors - reordering the data points (C15 left
    this open) and linearity of the mean prediction. *)
From Coq Require Import QArith Qabs ZArith List Bool Arith Lia Lqa Permutation.
From Verde Require Import Lib.QExtra Lib.ISort Model.Neighbors Model.Invariance
  Proofs.NeighborsProofs Proofs.NeighborsInvariance Proofs.InvarianceProofs.
Import ListNotations.
Open Scope Q_scope.

Lemma dist2_permute s pts q j : (j < length s)%nat ->
  dist2 (permute p0 s pts) q j = dist2 pts q (nth j s 0%nat).
Proof. intros H. unfold dist2. rewrite nth_permute by exact H. reflexivity. Qed.

Lemma NoDup_map_inj_on {A B} (f : A -> B) l :
  NoDup l -> (forall a b, In a l -> In b l -> f a = f b -> a = b) -> NoDup (map f l).
Proof.
  induction 1 as [|x t Hx Ht IH]; intros Hf; cbn; constructor.
  - intros Hin. apply in_map_iff in Hin as [y [E Hy]].
    assert (y = x) by (apply Hf; [right; exact Hy|left; reflexivity|exact E]). subst. contradiction.
  - apply IH. intros a b Ha Hb. apply Hf; right; assumption.
Qed.

(** the k nearest of the reordered cloud, mapped back through the
    permutation, are a set of k closest points of the original cloud *)
Lemma closest_set_permute k s pts q : is_perm (length pts) s ->
  closest_set k pts q (map (fun j => nth j s 0%nat) (k_nearest k (permute p0 s pts) q)).
Proof.
  intros H. pose proof (is_perm_length _ _ H) as Ls.
  destruct (k_nearest_spec k (permute p0 s pts) q) as (N & L & V & C).
  rewrite permute_length in L, V, C.
  set (sel' := k_nearest k (permute p0 s pts) q) in *.
  repeat split.
  - apply NoDup_map_inj_on; [exact N|]. intros a b Ha Hb E.
    apply (is_perm_inj _ _ a b H); [rewrite <- Ls; apply V, Ha|rewrite <- Ls; apply V, Hb|exact E].
  - rewrite map_length, L, Ls. reflexivity.
  - intros i Hi. apply in_map_iff in Hi as [a [<- Ha]]. apply (is_perm_nth_lt _ _ _ H). rewrite <- Ls. apply V, Ha.
  - intros i j Hi Hj Hnj. apply in_map_iff in Hi as [a [<- Ha]].
    destruct (is_perm_surj _ _ j H Hj) as [b [Hb <-]].
    assert (Hnb: ~ In b sel') by (intros Hin; apply Hnj; apply in_map_iff; exists b; split; [reflexivity|exact Hin]).
    pose proof (C a b Ha ltac:(lia) Hnb) as D.
    rewrite (dist2_permute s pts q a) in D by (apply V, Ha).
    rewrite (dist2_permute s pts q b) in D by lia. exact D.
Qed.

(** KNeighbors: with pairwise distinct distances from the query, reordering
    the data points (coordinates and values together) leaves the prediction
    unchanged, for each of the reductions *)
Theorem knn_perm r k s pts vals q : is_perm (length pts) s -> general_position pts q ->
  knn_predict r k (permute p0 s pts) (permute 0 s vals) q == knn_predict r k pts vals q.
Proof.
  intros H G. pose proof (closest_set_permute k s pts q H) as CS.
  rewrite (knn_predict_unique_all r k pts vals q _ G CS).
  unfold knn_predict, neighbor_values. rewrite map_map.
  assert (E: map (fun i => nth i (permute 0 s vals) 0) (k_nearest k (permute p0 s pts) q) =
             map (fun x => nth (nth x s 0%nat) vals 0) (k_nearest k (permute p0 s pts) q)).
  { apply map_ext_in. intros j Hj. apply nth_permute.
    destruct (k_nearest_spec k (permute p0 s pts) q) as (_ & _ & V & _).
    rewrite permute_length in V. apply V, Hj. }
  rewrite E. reflexivity.
Qed.

(** ... for every query point *)
Theorem knn_perm_all r k s pts vals qs : is_perm (length pts) s ->
  (forall q, In q qs -> general_position pts q) ->
  Forall2 Qeq (knn_predict_all r k (permute p0 s pts) (permute 0 s vals) qs) (knn_predict_all r k pts vals qs).
Proof.
  intros H G. unfold knn_predict_all. induction qs as [|q t IH]; cbn; constructor.
  - apply knn_perm; [exact H|apply G; left; reflexivity].
  - apply IH. intros x Hx. apply G. right; exact Hx.
Qed.

(** the neighbour selection never reads the data values *)
Theorem k_nearest_ignores_values k pts vals q :
  neighbor_values k pts vals q = map (fun i => nth i vals 0) (k_nearest k pts q).
Proof. reflexivity. Qed.

Lemma qsum_map_lin {T} (f g h : T -> Q) a b l : (forall x, f x == a * g x + b * h x) ->
  Neighbors.qsum (map f l) == a * Neighbors.qsum (map g l) + b * Neighbors.qsum (map h l).
Proof.
  intros E. induction l as [|x t IH]; cbn; [ring|]. unfold Neighbors.qsum in IH. rewrite IH, E. ring.
Qed.

(** the mean prediction is linear in the data *)
Theorem knn_mean_linear k pts v1 v2 a b q : length v1 = length v2 ->
  knn_predict RMean k pts (lin a v1 b v2) q ==
  a * knn_predict RMean k pts v1 q + b * knn_predict RMean k pts v2 q.
Proof.
  intros Hl. unfold knn_predict, neighbor_values. cbn [reduce]. unfold Neighbors.mean.
  rewrite !map_length.
  rewrite (qsum_map_lin (fun i => nth i (lin a v1 b v2) 0) (fun i => nth i v1 0) (fun i => nth i v2 0) a b).
  - unfold Qdiv. ring.
  - intros i. apply nth_lin. exact Hl.
Qed.
