(** Proofs about the block_split model (C08). *)
From Coq Require Import QArith Qround Qabs ZArith List Bool Lia Lqa Morphisms.
From Verde Require Import Lib.Dyadic Lib.QExtra Model.Coordinates Model.CoordCases Model.Blocks
  Proofs.CoordinatesProofs Proofs.CoordSpecProofs Proofs.RegionProofs.
Import ListNotations.
Open Scope Q_scope.

(** ** the first arg-min *)
Lemma nth_S_cons {A} (x : A) l j d : nth (S j) (x :: l) d = nth j l d.
Proof. reflexivity. Qed.

Lemma argmin_spec l : l <> [] ->
  (fst (argmin l) < length l)%nat /\ nth (fst (argmin l)) l 0 = snd (argmin l) /\
  (forall j, (j < length l)%nat -> snd (argmin l) <= nth j l 0) /\
  (forall j, (j < fst (argmin l))%nat -> snd (argmin l) < nth j l 0).
Proof.
  induction l as [|v t IH]; [congruence|intros _].
  destruct t as [|u t'].
  - cbn. repeat split; try lia.
    + intros j Hj. assert (j = 0)%nat by lia. subst j. cbn [nth]. lra.
  - assert (Hne: u :: t' <> []) by congruence. specialize (IH Hne).
    destruct IH as [I1 [I2 [I3 I4]]].
    change (argmin (v :: u :: t')) with
      (let '(i, m) := argmin (u :: t') in if Qleb v m then (O, v) else (S i, m)).
    destruct (argmin (u :: t')) as [i m] eqn:Ea. cbn [fst snd] in *.
    destruct (Qleb v m) eqn:El; cbn [fst snd].
    + apply Qleb_spec in El. repeat split.
      * cbn [length]. lia.
      * intros j Hj. destruct j as [|j]; [cbn [nth]; lra|].
        rewrite nth_S_cons. specialize (I3 j ltac:(cbn [length] in *; lia)). lra.
      * intros j Hj. lia.
    + assert (Hlt: m < v). { assert (~ v <= m) by (rewrite <- Qleb_spec; congruence). lra. }
      repeat split.
      * cbn [length] in *. lia.
      * exact I2.
      * intros j Hj. destruct j as [|j]; [cbn [nth]; lra|]. rewrite nth_S_cons. apply I3. cbn [length] in *. lia.
      * intros j Hj. destruct j as [|j]; [cbn [nth]; exact Hlt|]. rewrite nth_S_cons. apply I4. lia.
Qed.

Lemma nth_map_dist p cs j : (j < length cs)%nat ->
  nth j (map (dist2 p) cs) 0 = dist2 p (nth j cs (0, 0)).
Proof. intros H. apply nth_map_const. exact H. Qed.

(** the model's label attains the minimum distance, and is the first to do so *)
Theorem nearest_is_nearest cs p : cs <> [] -> is_nearest cs p (nearest cs p).
Proof.
  intros Hne. unfold is_nearest, nearest.
  assert (Hm: map (dist2 p) cs <> []) by (destruct cs; [congruence|discriminate]).
  destruct (argmin_spec _ Hm) as [H1 [H2 [H3 _]]]. rewrite map_length in *.
  split; [exact H1|]. intros j Hj.
  rewrite <- (nth_map_dist p cs _ H1), <- (nth_map_dist p cs j Hj), H2. apply H3. exact Hj.
Qed.

Theorem nearest_first cs p j : (j < nearest cs p)%nat ->
  dist2 p (nth (nearest cs p) cs (0, 0)) < dist2 p (nth j cs (0, 0)).
Proof.
  intros Hj. unfold nearest in *.
  destruct cs as [|c0 cs']; [cbn [map argmin fst] in Hj; lia|].
  assert (Hm: map (dist2 p) (c0 :: cs') <> []) by discriminate.
  destruct (argmin_spec _ Hm) as [H1 [H2 [_ H4]]]. rewrite map_length in *.
  assert (Hjl: (j < length (c0 :: cs'))%nat) by lia.
  rewrite <- (nth_map_dist p _ _ H1), <- (nth_map_dist p _ j Hjl), H2. apply H4. exact Hj.
Qed.

(** ** one direction: the nearest centre is the one of the containing (clamped) block *)
Lemma core_up (a h d : Q) : 0 < h -> 2 * a < h -> 1 <= d ->
  a * a < (a - d * h) * (a - d * h).
Proof.
  intros Hh H2 Hd.
  assert (E: (a - d*h)*(a - d*h) - a*a == (d*h) * (d*h - 2*a)) by ring.
  assert (P1: h <= d*h) by nra.
  assert (P: 0 < (d*h) * (d*h - 2*a)) by nra. lra.
Qed.

Lemma core_down (a h d : Q) : 0 < h -> - h <= 2 * a -> d <= -1 -> (d <= -2 \/ - h < 2 * a) ->
  a * a < (a - d * h) * (a - d * h).
Proof.
  intros Hh H1 Hd Hs.
  assert (E: (a - d*h)*(a - d*h) - a*a == (d*h) * (d*h - 2*a)) by ring.
  assert (P1: d*h <= - h) by nra.
  assert (P2: d*h - 2*a < 0).
  { destruct Hs as [Hs|Hs]; [|lra]. assert (d*h <= -2*h) by nra. lra. }
  assert (P: 0 < (d*h) * (d*h - 2*a)) by nra. lra.
Qed.

Definition centreZ (w h : Q) (k : Z) : Q := w + (inject_Z k + (1#2)) * h.

Lemma inject_Z_sub a b : inject_Z (a - b) == inject_Z a - inject_Z b.
Proof. unfold Z.sub. rewrite inject_Z_plus, inject_Z_opp. ring. Qed.

Lemma quot_bounds (w h x : Q) : 0 < h ->
  let q := (x - w) / h in
  x == w + q * h /\ inject_Z (Qfloor q) <= q /\ q < inject_Z (Qfloor q) + 1.
Proof.
  intros Hh q. split; [unfold q; field; lra|]. split; [apply Qfloor_le|].
  pose proof (Qlt_floor q) as H. rewrite inject_Z_plus in H. exact H.
Qed.

Lemma nearest_1d_clamped (w h x : Q) (n k : Z) : 0 < h -> (0 < n)%Z -> (0 <= k < n)%Z ->
  let c := clampZ (Qfloor ((x - w) / h)) 0 (n - 1) in
  k <> c -> ~ (k = (c - 1)%Z /\ x == w + inject_Z c * h) ->
  (x - centreZ w h c) * (x - centreZ w h c) < (x - centreZ w h k) * (x - centreZ w h k).
Proof.
  intros Hh Hn Hk c Hkc Hedge.
  destruct (quot_bounds w h x Hh) as [Ex [F1 F2]].
  set (q := (x - w) / h) in *. set (f := Qfloor q) in *.
  assert (Ed: inject_Z k == inject_Z c + inject_Z (k - c)).
  { rewrite inject_Z_sub. ring. }
  assert (Eq: x - centreZ w h k == (x - centreZ w h c) - inject_Z (k - c) * h).
  { unfold centreZ. rewrite Ed. ring. }
  rewrite Eq.
  assert (Ea: x - centreZ w h c == (q - inject_Z c - (1#2)) * h).
  { unfold centreZ. rewrite Ex at 1. ring. }
  set (a := x - centreZ w h c) in *.
  assert (Hd: (k - c <= -1)%Z \/ (1 <= k - c)%Z) by lia.
  unfold clampZ in c.
  destruct (Z_lt_le_dec f 0) as [Hf0|Hf0].
  - (* west of the region: c = 0 *)
    assert (Hc: c = 0%Z) by (unfold c; lia).
    assert (Hq: q < 0).
    { assert (inject_Z f + 1 <= 0).
      { change 1 with (inject_Z 1). rewrite <- inject_Z_plus. change 0 with (inject_Z 0).
        rewrite <- Zle_Qle. lia. }
      lra. }
    assert (Hd1: 1 <= inject_Z (k - c)).
    { change 1 with (inject_Z 1). rewrite <- Zle_Qle. lia. }
    apply core_up; try assumption.
    rewrite Ea, Hc. change (inject_Z 0) with 0. nra.
  - destruct (Z_lt_le_dec (n - 1) f) as [Hfn|Hfn].
    + (* east of the region: c = n - 1 *)
      assert (Hc: c = (n - 1)%Z) by (unfold c; lia).
      assert (Hq: inject_Z c + 1 <= q).
      { assert (inject_Z c + 1 <= inject_Z f).
        { change 1 with (inject_Z 1). rewrite <- inject_Z_plus. rewrite <- Zle_Qle. lia. }
        lra. }
      assert (Hd1: inject_Z (k - c) <= -1).
      { change (-1) with (inject_Z (-1)). rewrite <- Zle_Qle. lia. }
      apply core_down; try assumption.
      * rewrite Ea. nra.
      * right. rewrite Ea. nra.
    + (* inside: c = floor *)
      assert (Hc: c = f) by (unfold c; lia).
      rewrite Hc in *.
      destruct Hd as [Hd|Hd].
      * assert (Hd1: inject_Z (k - f) <= -1).
        { change (-1) with (inject_Z (-1)). rewrite <- Zle_Qle. lia. }
        apply core_down; try assumption.
        -- rewrite Ea. nra.
        -- destruct (Z.eq_dec (k - f) (-1)) as [E1|N1].
           ++ right. rewrite Ea.
              assert (Hne: ~ q == inject_Z f).
              { intros Hq. apply Hedge. split; [lia|]. rewrite Ex, Hq. ring. }
              assert (inject_Z f < q) by lra. nra.
           ++ left. change (-2) with (inject_Z (-2)). rewrite <- Zle_Qle. lia.
      * assert (Hd1: 1 <= inject_Z (k - f)).
        { change 1 with (inject_Z 1). rewrite <- Zle_Qle. lia. }
        apply core_up; try assumption. rewrite Ea. nra.
Qed.

(** the block index along one direction *)
Lemma cell_of_lt w h n x : (0 < n)%nat -> (cell_of w h n x < n)%nat.
Proof. intros Hn. unfold cell_of, clampZ. lia. Qed.

Lemma cell_of_Z w h n x : (0 < n)%nat ->
  Z.of_nat (cell_of w h n x) = clampZ (Qfloor ((x - w) / h)) 0 (Z.of_nat n - 1).
Proof. intros Hn. unfold cell_of, clampZ. lia. Qed.

Lemma Qfloor_unique q z : inject_Z z <= q -> q < inject_Z z + 1 -> Qfloor q = z.
Proof.
  intros H1 H2. pose proof (Qfloor_le q) as F1. pose proof (Qlt_floor q) as F2.
  rewrite inject_Z_plus in F2. change (inject_Z 1) with 1 in F2.
  assert (A: (Qfloor q < z + 1)%Z).
  { rewrite Zlt_Qlt, inject_Z_plus. change (inject_Z 1) with 1. lra. }
  assert (B: (z < Qfloor q + 1)%Z).
  { rewrite Zlt_Qlt, inject_Z_plus. change (inject_Z 1) with 1. lra. }
  lia.
Qed.

(** a point of the half-open block [c] has index [c] *)
Lemma cell_of_inside w h n x c : 0 < h -> (c < n)%nat ->
  w + inject_Z (Z.of_nat c) * h <= x -> x < w + (inject_Z (Z.of_nat c) + 1) * h ->
  cell_of w h n x = c.
Proof.
  intros Hh Hc H1 H2. destruct (quot_bounds w h x Hh) as [Ex _].
  set (q := (x - w) / h) in *.
  assert (Hf: Qfloor q = Z.of_nat c).
  { apply Qfloor_unique.
    - set (cc := inject_Z (Z.of_nat c)) in *. clearbody cc q. nra.
    - set (cc := inject_Z (Z.of_nat c)) in *. clearbody cc q. nra. }
  unfold cell_of. fold q. rewrite Hf. unfold clampZ. lia.
Qed.

(** outside the blocks the index is clamped to the border block *)
Lemma cell_of_below w h n x : 0 < h -> (0 < n)%nat -> x < w -> cell_of w h n x = 0%nat.
Proof.
  intros Hh Hn Hx. destruct (quot_bounds w h x Hh) as [Ex [F1 _]].
  set (q := (x - w) / h) in *.
  assert (Hq: q < 0) by (clearbody q; nra).
  assert (Hf: (Qfloor q < 0)%Z). { rewrite Zlt_Qlt. change (inject_Z 0) with 0. lra. }
  unfold cell_of. fold q. unfold clampZ. lia.
Qed.

Lemma cell_of_above w h n x : 0 < h -> (0 < n)%nat -> w + inject_Z (Z.of_nat n) * h <= x ->
  cell_of w h n x = (n - 1)%nat.
Proof.
  intros Hh Hn Hx. destruct (quot_bounds w h x Hh) as [Ex [_ F2]].
  set (q := (x - w) / h) in *.
  assert (Hq: inject_Z (Z.of_nat n) <= q).
  { set (nn := inject_Z (Z.of_nat n)) in *. clearbody nn q. nra. }
  assert (Hf: (Z.of_nat n < Qfloor q + 1)%Z).
  { rewrite Zlt_Qlt, inject_Z_plus. change (inject_Z 1) with 1. lra. }
  unfold cell_of. fold q. unfold clampZ. lia.
Qed.

(** ** two directions: a regular row-major layout of centres *)
Lemma dist2_eq p c a b : fst c == a -> snd c == b ->
  dist2 p c == (fst p - a) * (fst p - a) + (snd p - b) * (snd p - b).
Proof. intros Ha Hb. unfold dist2. rewrite Ha, Hb. reflexivity. Qed.

Definition layout (G : geom) (cs : list (Q * Q)) : Prop :=
  0 < g_dx G /\ 0 < g_dy G /\ (0 < g_nc G)%nat /\ (0 < g_nr G)%nat /\
  length cs = (g_nr G * g_nc G)%nat /\
  forall k, (k < g_nr G * g_nc G)%nat ->
    fst (nth k cs (0, 0)) == centre_e G k /\ snd (nth k cs (0, 0)) == centre_n G k.

Lemma rowcol nc r c : (c < nc)%nat -> ((r * nc + c) mod nc = c /\ (r * nc + c) / nc = r)%nat.
Proof.
  intros Hc. split.
  - rewrite Nat.add_comm, Nat.mod_add by lia. apply Nat.mod_small. exact Hc.
  - rewrite Nat.div_add_l by lia. rewrite Nat.div_small by exact Hc. lia.
Qed.

Lemma rowcol_lt nr nc k : (0 < nc)%nat -> (k < nr * nc)%nat -> (k mod nc < nc /\ k / nc < nr)%nat.
Proof.
  intros Hnc Hk. split; [apply Nat.mod_upper_bound; lia|].
  apply Nat.div_lt_upper_bound; [lia|]. rewrite Nat.mul_comm. exact Hk.
Qed.

Lemma rowcol_bound nr nc r c : (r < nr)%nat -> (c < nc)%nat -> (r * nc + c < nr * nc)%nat.
Proof. intros Hr Hc. nia. Qed.

Section Layout.
  Variables (G : geom) (cs : list (Q * Q)).
  Hypothesis HL : layout G cs.

  Let W := g_w G. Let dx := g_dx G. Let nc := g_nc G.
  Let S0 := g_s G. Let dy := g_dy G. Let nr := g_nr G.

  (** the column of any nearest centre is the (clamped) column of the point, or -
      only when the point lies exactly on the shared edge - its western neighbour;
      same for rows *)
  Theorem nearest_block p k : is_nearest cs p k ->
    let c := cell_of W dx nc (fst p) in
    let r := cell_of S0 dy nr (snd p) in
    (k < nr * nc)%nat /\
    ((k mod nc)%nat = c \/ (S (k mod nc) = c /\ fst p == W + inject_Z (Z.of_nat c) * dx)) /\
    ((k / nc)%nat = r \/ (S (k / nc) = r /\ snd p == S0 + inject_Z (Z.of_nat r) * dy)).
  Proof.
    destruct HL as [Hdx [Hdy [Hnc [Hnr [Hlen Hcs]]]]].
    fold dx in Hdx. fold dy in Hdy. fold nc in Hnc, Hlen, Hcs. fold nr in Hnr, Hlen, Hcs.
    intros [Hk Hmin] c r. rewrite Hlen in Hk, Hmin.
    destruct (rowcol_lt nr nc k Hnc Hk) as [Hkc Hkr].
    set (kc := (k mod nc)%nat) in *. set (kr := (k / nc)%nat) in *.
    assert (Hc: (c < nc)%nat) by (apply cell_of_lt; exact Hnc).
    assert (Hr: (r < nr)%nat) by (apply cell_of_lt; exact Hnr).
    destruct (Hcs k Hk) as [Ek1 Ek2].
    unfold centre_e, centre_n in Ek1, Ek2. fold nc kc kr W dx S0 dy in Ek1, Ek2.
    split; [exact Hk|]. split.
    - (* columns: compare with the centre of the same row in column c *)
      destruct (Nat.eq_dec kc c) as [E|NE]; [left; exact E|right].
      destruct (Nat.eq_dec (S kc) c) as [E1|NE1].
      + destruct (Qeq_dec (fst p) (W + inject_Z (Z.of_nat c) * dx)) as [Eq|NEq]; [split; assumption|exfalso].
        pose (j := (kr * nc + c)%nat).
        destruct (rowcol nc kr c Hc) as [Jm Jd].
        assert (Hj: (j < nr * nc)%nat) by (apply rowcol_bound; assumption).
        specialize (Hmin j Hj). destruct (Hcs j Hj) as [Ej1 Ej2].
        unfold centre_e, centre_n in Ej1, Ej2. fold nc W dx S0 dy in Ej1, Ej2.
        unfold j in Ej1, Ej2. rewrite Jm in Ej1. rewrite Jd in Ej2. fold j in Ej1, Ej2.
        rewrite (dist2_eq _ _ _ _ Ek1 Ek2), (dist2_eq _ _ _ _ Ej1 Ej2) in Hmin.
        pose proof (nearest_1d_clamped W dx (fst p) (Z.of_nat nc) (Z.of_nat kc) Hdx ltac:(lia) ltac:(lia)) as L.
        cbv zeta in L. rewrite <- (cell_of_Z W dx nc (fst p) Hnc) in L. fold c in L.
        specialize (L ltac:(lia)).
        assert (L': ~ (Z.of_nat kc = (Z.of_nat c - 1)%Z /\ fst p == W + inject_Z (Z.of_nat c) * dx)) by tauto.
        specialize (L L'). unfold centreZ in L. unfold centre1 in Hmin. lra.
      + exfalso.
        pose (j := (kr * nc + c)%nat).
        destruct (rowcol nc kr c Hc) as [Jm Jd].
        assert (Hj: (j < nr * nc)%nat) by (apply rowcol_bound; assumption).
        specialize (Hmin j Hj). destruct (Hcs j Hj) as [Ej1 Ej2].
        unfold centre_e, centre_n in Ej1, Ej2. fold nc W dx S0 dy in Ej1, Ej2.
        unfold j in Ej1, Ej2. rewrite Jm in Ej1. rewrite Jd in Ej2. fold j in Ej1, Ej2.
        rewrite (dist2_eq _ _ _ _ Ek1 Ek2), (dist2_eq _ _ _ _ Ej1 Ej2) in Hmin.
        pose proof (nearest_1d_clamped W dx (fst p) (Z.of_nat nc) (Z.of_nat kc) Hdx ltac:(lia) ltac:(lia)) as L.
        cbv zeta in L. rewrite <- (cell_of_Z W dx nc (fst p) Hnc) in L. fold c in L.
        specialize (L ltac:(lia)).
        assert (L': ~ (Z.of_nat kc = (Z.of_nat c - 1)%Z /\ fst p == W + inject_Z (Z.of_nat c) * dx)) by lia.
        specialize (L L'). unfold centreZ in L. unfold centre1 in Hmin. lra.
    - (* rows: compare with the centre of the same column in row r *)
      destruct (Nat.eq_dec kr r) as [E|NE]; [left; exact E|right].
      destruct (Nat.eq_dec (S kr) r) as [E1|NE1].
      + destruct (Qeq_dec (snd p) (S0 + inject_Z (Z.of_nat r) * dy)) as [Eq|NEq]; [split; assumption|exfalso].
        pose (j := (r * nc + kc)%nat).
        destruct (rowcol nc r kc Hkc) as [Jm Jd].
        assert (Hj: (j < nr * nc)%nat) by (apply rowcol_bound; assumption).
        specialize (Hmin j Hj). destruct (Hcs j Hj) as [Ej1 Ej2].
        unfold centre_e, centre_n in Ej1, Ej2. fold nc W dx S0 dy in Ej1, Ej2.
        unfold j in Ej1, Ej2. rewrite Jm in Ej1. rewrite Jd in Ej2. fold j in Ej1, Ej2.
        rewrite (dist2_eq _ _ _ _ Ek1 Ek2), (dist2_eq _ _ _ _ Ej1 Ej2) in Hmin.
        pose proof (nearest_1d_clamped S0 dy (snd p) (Z.of_nat nr) (Z.of_nat kr) Hdy ltac:(lia) ltac:(lia)) as L.
        cbv zeta in L. rewrite <- (cell_of_Z S0 dy nr (snd p) Hnr) in L. fold r in L.
        specialize (L ltac:(lia)).
        assert (L': ~ (Z.of_nat kr = (Z.of_nat r - 1)%Z /\ snd p == S0 + inject_Z (Z.of_nat r) * dy)) by tauto.
        specialize (L L'). unfold centreZ in L. unfold centre1 in Hmin. lra.
      + exfalso.
        pose (j := (r * nc + kc)%nat).
        destruct (rowcol nc r kc Hkc) as [Jm Jd].
        assert (Hj: (j < nr * nc)%nat) by (apply rowcol_bound; assumption).
        specialize (Hmin j Hj). destruct (Hcs j Hj) as [Ej1 Ej2].
        unfold centre_e, centre_n in Ej1, Ej2. fold nc W dx S0 dy in Ej1, Ej2.
        unfold j in Ej1, Ej2. rewrite Jm in Ej1. rewrite Jd in Ej2. fold j in Ej1, Ej2.
        rewrite (dist2_eq _ _ _ _ Ek1 Ek2), (dist2_eq _ _ _ _ Ej1 Ej2) in Hmin.
        pose proof (nearest_1d_clamped S0 dy (snd p) (Z.of_nat nr) (Z.of_nat kr) Hdy ltac:(lia) ltac:(lia)) as L.
        cbv zeta in L. rewrite <- (cell_of_Z S0 dy nr (snd p) Hnr) in L. fold r in L.
        specialize (L ltac:(lia)).
        assert (L': ~ (Z.of_nat kr = (Z.of_nat r - 1)%Z /\ snd p == S0 + inject_Z (Z.of_nat r) * dy)) by lia.
        specialize (L L'). unfold centreZ in L. unfold centre1 in Hmin. lra.
  Qed.
End Layout.

(** ** consequences of [nearest_block] *)
Lemma cell_of_bounds w h n x : 0 < h -> (0 < n)%nat ->
  let c := cell_of w h n x in
  (c = 0%nat \/ w + inject_Z (Z.of_nat c) * h <= x) /\
  (S c = n \/ x < w + (inject_Z (Z.of_nat c) + 1) * h).
Proof.
  intros Hh Hn c. destruct (quot_bounds w h x Hh) as [Ex [F1 F2]].
  pose proof (cell_of_Z w h n x Hn) as Hc. fold c in Hc.
  set (q := (x - w) / h) in *. set (f := Qfloor q) in *. unfold clampZ in Hc.
  destruct (Z_lt_le_dec f 0) as [Hf0|Hf0].
  - assert (c = 0)%nat by lia. split; [left; assumption|right]. subst c. rewrite H. change (inject_Z (Z.of_nat 0)) with 0.
    assert (inject_Z f + 1 <= 0).
    { change 1 with (inject_Z 1). rewrite <- inject_Z_plus. change 0 with (inject_Z 0). rewrite <- Zle_Qle. lia. }
    clearbody q. nra.
  - destruct (Z_lt_le_dec (Z.of_nat n - 1) f) as [Hfn|Hfn].
    + assert (Hcn: (Z.of_nat c = Z.of_nat n - 1)%Z) by lia. split; [right|left; lia].
      assert (inject_Z (Z.of_nat c) <= inject_Z f) by (rewrite <- Zle_Qle; lia).
      set (cc := inject_Z (Z.of_nat c)) in *. clearbody cc q. nra.
    + assert (Hcf: Z.of_nat c = f) by lia. rewrite Hcf. split; right; clearbody q; nra.
Qed.

Lemma cell_ok_of w h n t x c' : 0 < h -> (0 < n)%nat -> 0 <= t ->
  (c' = cell_of w h n x \/ (S c' = cell_of w h n x /\ x == w + inject_Z (Z.of_nat (cell_of w h n x)) * h)) ->
  cell_ok w h n t x c' = true.
Proof.
  intros Hh Hn Ht Hc. destruct (cell_of_bounds w h n x Hh Hn) as [B1 B2]. cbv zeta in B1, B2.
  pose proof (cell_of_lt w h n x Hn) as Hlt.
  set (c := cell_of w h n x) in *. unfold cell_ok.
  apply andb_true_iff. split; [apply Nat.ltb_lt; lia|].
  apply orb_true_iff. right. apply andb_true_iff.
  destruct Hc as [->|[Hs Hx]].
  - split; apply orb_true_iff.
    + destruct B1 as [B1|B1]; [left; apply Nat.eqb_eq; exact B1|right; apply Qleb_spec; lra].
    + destruct B2 as [B2|B2]; [left; apply Nat.eqb_eq; exact B2|right; apply Qleb_spec].
      replace (Z.of_nat (S c)) with (Z.of_nat c + 1)%Z by lia. rewrite inject_Z_plus.
      change (inject_Z 1) with 1. lra.
  - split; apply orb_true_iff; right; apply Qleb_spec.
    + assert (inject_Z (Z.of_nat c') <= inject_Z (Z.of_nat c)) by (rewrite <- Zle_Qle; lia).
      set (a := inject_Z (Z.of_nat c')) in *. set (b := inject_Z (Z.of_nat c)) in *. clearbody a b. nra.
    + rewrite Hs. lra.
Qed.

Section Layout2.
  Variables (G : geom) (cs : list (Q * Q)).
  Hypothesis HL : layout G cs.

  (** every label a nearest-neighbour query can return is a valid block index, and the
      closed block it names (border blocks extended outwards) contains the point *)
  Theorem label_closed_block p k t : 0 <= t -> is_nearest cs p k -> label_ok G t p k = true.
  Proof.
    intros Ht Hk. destruct (nearest_block G cs HL p k Hk) as [Hlt [Hc Hr]].
    destruct HL as [Hdx [Hdy [Hnc [Hnr _]]]].
    unfold label_ok. rewrite !andb_true_iff. split; [split|].
    - apply Nat.ltb_lt. exact Hlt.
    - apply cell_ok_of; assumption.
    - apply cell_ok_of; assumption.
  Qed.

  (** a point strictly inside block (r, c) gets exactly the label r * nc + c *)
  Theorem label_interior p k r c : is_nearest cs p k ->
    (c < g_nc G)%nat -> (r < g_nr G)%nat ->
    g_w G + inject_Z (Z.of_nat c) * g_dx G < fst p -> fst p < g_w G + (inject_Z (Z.of_nat c) + 1) * g_dx G ->
    g_s G + inject_Z (Z.of_nat r) * g_dy G < snd p -> snd p < g_s G + (inject_Z (Z.of_nat r) + 1) * g_dy G ->
    k = (r * g_nc G + c)%nat.
  Proof.
    intros Hk Hc Hr X1 X2 Y1 Y2. destruct (nearest_block G cs HL p k Hk) as [Hlt [Kc Kr]].
    destruct HL as [Hdx [Hdy [Hnc [Hnr _]]]].
    rewrite (cell_of_inside _ _ _ _ c Hdx Hc) in Kc by lra.
    rewrite (cell_of_inside _ _ _ _ r Hdy Hr) in Kr by lra.
    assert (Ec: (k mod g_nc G)%nat = c) by (destruct Kc as [E|[_ E]]; [exact E|lra]).
    assert (Er: (k / g_nc G)%nat = r) by (destruct Kr as [E|[_ E]]; [exact E|lra]).
    rewrite (Nat.div_mod k (g_nc G)) by lia. rewrite Ec, Er. lia.
  Qed.

  (** a point on the edge shared by columns c-1 and c goes to one of the two (same for rows) *)
  Theorem label_edge_adjacent p k : is_nearest cs p k ->
    (forall c, (1 <= c < g_nc G)%nat -> fst p == g_w G + inject_Z (Z.of_nat c) * g_dx G ->
       (k mod g_nc G = c \/ k mod g_nc G = c - 1)%nat) /\
    (forall r, (1 <= r < g_nr G)%nat -> snd p == g_s G + inject_Z (Z.of_nat r) * g_dy G ->
       (k / g_nc G = r \/ k / g_nc G = r - 1)%nat).
  Proof.
    intros Hk. destruct (nearest_block G cs HL p k Hk) as [Hlt [Kc Kr]].
    destruct HL as [Hdx [Hdy [Hnc [Hnr _]]]]. split.
    - intros c Hc Hx. rewrite (cell_of_inside _ _ _ _ c Hdx) in Kc by (try lia; rewrite Hx; try lra; nra).
      destruct Kc as [E|[E _]]; [left; exact E|right; lia].
    - intros r Hr Hy. rewrite (cell_of_inside _ _ _ _ r Hdy) in Kr by (try lia; rewrite Hy; try lra; nra).
      destruct Kr as [E|[E _]]; [left; exact E|right; lia].
  Qed.

  (** points outside the blocks go to the border block obtained by clamping the index *)
  Theorem label_outside_clamped p k : is_nearest cs p k ->
    (fst p <= g_w G -> (k mod g_nc G = 0)%nat) /\
    (g_w G + inject_Z (Z.of_nat (g_nc G)) * g_dx G <= fst p -> (k mod g_nc G = g_nc G - 1)%nat) /\
    (snd p <= g_s G -> (k / g_nc G = 0)%nat) /\
    (g_s G + inject_Z (Z.of_nat (g_nr G)) * g_dy G <= snd p -> (k / g_nc G = g_nr G - 1)%nat).
  Proof.
    intros Hk. destruct (nearest_block G cs HL p k Hk) as [Hlt [Kc Kr]].
    destruct HL as [Hdx [Hdy [Hnc [Hnr _]]]].
    assert (Low: forall w h n x, 0 < h -> (0 < n)%nat -> x <= w -> cell_of w h n x = 0%nat).
    { intros w h n x Hh Hn Hx. destruct (Qlt_le_dec x w) as [L|L]; [apply cell_of_below; assumption|].
      apply cell_of_inside; try assumption; change (inject_Z (Z.of_nat 0)) with 0; lra. }
    repeat split.
    - intros Hx. rewrite (Low _ _ _ _ Hdx Hnc Hx) in Kc. destruct Kc as [E|[E _]]; [exact E|lia].
    - intros Hx. rewrite (cell_of_above _ _ _ _ Hdx Hnc Hx) in Kc. destruct Kc as [E|[E1 E2]]; [exact E|exfalso].
      replace (Z.of_nat (g_nc G - 1)) with (Z.of_nat (g_nc G) - 1)%Z in E2 by lia.
      rewrite inject_Z_sub in E2. change (inject_Z 1) with 1 in E2.
      set (a := inject_Z (Z.of_nat (g_nc G))) in *. clearbody a. nra.
    - intros Hy. rewrite (Low _ _ _ _ Hdy Hnr Hy) in Kr. destruct Kr as [E|[E _]]; [exact E|lia].
    - intros Hy. rewrite (cell_of_above _ _ _ _ Hdy Hnr Hy) in Kr. destruct Kr as [E|[E1 E2]]; [exact E|exfalso].
      replace (Z.of_nat (g_nr G - 1)) with (Z.of_nat (g_nr G) - 1)%Z in E2 by lia.
      rewrite inject_Z_sub in E2. change (inject_Z 1) with 1 in E2.
      set (a := inject_Z (Z.of_nat (g_nr G))) in *. clearbody a. nra.
  Qed.
End Layout2.

(** ** the model's centres are the closed-form layout *)
Lemma concat_uniform {A} (rows : list (list A)) n d : (0 < n)%nat ->
  Forall (fun r => length r = n) rows ->
  length (concat rows) = (length rows * n)%nat /\
  forall k, (k < length rows * n)%nat ->
    nth k (concat rows) d = nth (k mod n) (nth (k / n) rows []) d.
Proof.
  intros Hn. induction rows as [|r rows IH]; intros HF.
  - split; [reflexivity|]. cbn. intros k Hk. lia.
  - inversion HF as [|? ? Hr HF']. subst. destruct (IH HF') as [IL IN].
    cbn [concat]. rewrite app_length. split; [cbn [length]; lia|].
    intros k Hk. destruct (Nat.lt_ge_cases k (length r)) as [L|L].
    + rewrite app_nth1 by exact L. rewrite Nat.div_small, Nat.mod_small by exact L. reflexivity.
    + rewrite app_nth2 by exact L.
      assert (Ek: k = (1 * length r + (k - length r))%nat) by lia.
      rewrite Ek at 2 3. rewrite Nat.div_add_l by lia.
      rewrite (Nat.add_comm (1 * length r)), Nat.mod_add by lia.
      change (1 + (k - length r) / length r)%nat with (S ((k - length r) / length r)).
      rewrite nth_S_cons. apply IN. cbn [length] in Hk. lia.
Qed.

Lemma Qdiv_pos a b : 0 < a -> 0 < b -> 0 < a / b.
Proof. intros Ha Hb. apply Qlt_shift_div_l; [exact Hb|lra]. Qed.

Lemma axis_centres start stop size spacing adjust v :
  start < stop -> (forall sp, spacing = Some sp -> 0 < sp) -> (forall n, size = Some n -> (1 <= n)%Z) ->
  line_coordinates start stop size spacing adjust true = Some v ->
  exists h n, axis_geom start stop size spacing adjust = Some (h, n) /\ 0 < h /\ (0 < n)%nat /\
    length v = n /\ forall i, (i < n)%nat -> nth i v 0 == centre1 start h i.
Proof.
  intros Hlt Hsp Hsz Hv.
  pose proof (line_spec_correct start stop size spacing adjust true ltac:(lra) Hsp Hsz) as C.
  rewrite Hv in C. unfold line_spec, axis_geom in *.
  destruct size as [n|], spacing as [sp|]; cbn [same_result] in C; try contradiction.
  - specialize (Hsz n eq_refl).
    assert (Pn: 0 < inject_Z n). { change 0 with (inject_Z 0). rewrite <- Zlt_Qlt. lia. }
    exists ((stop - start) / inject_Z n), (Z.to_nat n). split; [reflexivity|].
    split; [apply Qdiv_pos; lra|]. split; [lia|].
    destruct C as [CL CN]. rewrite nodes_from_length in CL. split; [exact CL|].
    intros i Hi. rewrite CN by lia. rewrite nodes_from_nth by exact Hi. reflexivity.
  - specialize (Hsp sp eq_refl).
    destruct (negb ((adjust =? 0)%Z || (adjust =? 1)%Z)); [contradiction|].
    set (k := intervals start stop sp) in *.
    assert (Hk: (1 <= k)%Z) by (unfold k, intervals; lia).
    assert (Pk: 0 < inject_Z k). { change 0 with (inject_Z 0). rewrite <- Zlt_Qlt. lia. }
    eexists _, (Z.to_nat k). split; [reflexivity|].
    split; [destruct (adjust =? 0)%Z; [apply Qdiv_pos; lra|exact Hsp]|]. split; [lia|].
    destruct C as [CL CN]. rewrite nodes_from_length in CL. split; [exact CL|].
    intros i Hi. rewrite CN by lia. rewrite nodes_from_nth by exact Hi. reflexivity.
Qed.

Lemma nth_map_Qred l k : nth k (map Qred l) 0 == nth k l 0.
Proof.
  destruct (Nat.lt_ge_cases k (length l)) as [L|L].
  - rewrite (nth_map_const Qred l k 0 0 L). apply Qred_correct.
  - rewrite !nth_overflow by (try rewrite map_length; exact L). reflexivity.
Qed.

(** the lines of the pixel-registered grid that block_split builds *)
Lemma block_grid_lines w e s n shape spacing adjust g :
  grid_coordinates [w; e; s; n] shape spacing adjust true None true = Some g ->
  exists size_e size_n sp_e sp_n,
    line_coordinates w e size_e sp_e adjust true = Some (g_east1 g) /\
    line_coordinates s n size_n sp_n adjust true = Some (g_north1 g) /\
    (forall G, block_geom [w; e; s; n] shape spacing adjust = Some G <->
       exists dx nc dy nr, axis_geom w e size_e sp_e adjust = Some (dx, nc) /\
         axis_geom s n size_n sp_n adjust = Some (dy, nr) /\
         G = {| g_w := w; g_dx := dx; g_nc := nc; g_s := s; g_dy := dy; g_nr := nr |}) /\
    (forall x, sp_e = Some x \/ sp_n = Some x -> exists l, spacing = Some l /\ In x l) /\
    (forall z, size_e = Some z \/ size_n = Some z -> exists sn se, shape = Some (sn, se) /\ (z = sn \/ z = se)).
Proof.
  intros Hg.
  assert (Hchk: check_region [w; e; s; n] = true).
  { unfold grid_coordinates in Hg. destruct (check_region [w; e; s; n]); [reflexivity|discriminate]. }
  assert (Hb: negb (Qleb w e && Qleb s n) = false) by (cbn in Hchk; rewrite Hchk; reflexivity).
  assert (Gen: forall size_e size_n sp_e sp_n G,
    (match axis_geom w e size_e sp_e adjust, axis_geom s n size_n sp_n adjust with
     | Some (dx, nc), Some (dy, nr) => Some {| g_w := w; g_dx := dx; g_nc := nc; g_s := s; g_dy := dy; g_nr := nr |}
     | _, _ => None end = Some G) <->
    exists dx nc dy nr, axis_geom w e size_e sp_e adjust = Some (dx, nc) /\
         axis_geom s n size_n sp_n adjust = Some (dy, nr) /\
         G = {| g_w := w; g_dx := dx; g_nc := nc; g_s := s; g_dy := dy; g_nr := nr |}).
  { intros se sn spe spn G.
    destruct (axis_geom w e se spe adjust) as [[dx nc]|], (axis_geom s n sn spn adjust) as [[dy nr]|]; split;
      try discriminate; try (intros [? [? [? [? [? [? ?]]]]]]; discriminate).
    - intros H. injection H as <-. exists dx, nc, dy, nr. auto.
    - intros [dx' [nc' [dy' [nr' [E1 [E2 ->]]]]]]. injection E1 as <- <-. injection E2 as <- <-. reflexivity. }
  destruct shape as [[sn se]|], spacing as [[|sp1 [|sp2 [|sp3 l]]]|].
  all: try (exfalso; revert Hg; unfold grid_coordinates; rewrite Hchk; cbn [negb]; discriminate).
  - (* shape *)
    destruct (grid_lines_shape _ _ _ _ _ _ _ _ _ _ _ Hg) as [L1 L2].
    exists (Some se), (Some sn), None, None. split; [exact L1|]. split; [exact L2|]. split; [|split].
    + intros G. rewrite <- Gen. unfold block_geom. rewrite Hb.
      destruct (axis_geom w e (Some se) None adjust) as [[? ?]|], (axis_geom s n (Some sn) None adjust) as [[? ?]|]; reflexivity.
    + intros x [H|H]; discriminate.
    + intros z [H|H]; injection H as <-; exists sn, se; auto.
  - (* scalar spacing *)
    rewrite grid_scalar_spacing in Hg. destruct (grid_lines_spacing _ _ _ _ _ _ _ _ _ _ _ Hg) as [L1 L2].
    exists None, None, (Some sp1), (Some sp1). split; [exact L1|]. split; [exact L2|]. split; [|split].
    + intros G. rewrite <- Gen. unfold block_geom. rewrite Hb.
      destruct (axis_geom w e None (Some sp1) adjust) as [[? ?]|], (axis_geom s n None (Some sp1) adjust) as [[? ?]|]; reflexivity.
    + intros x [H|H]; injection H as <-; exists [sp1]; split; [reflexivity|left; reflexivity| reflexivity|left; reflexivity].
    + intros z [H|H]; discriminate.
  - (* (north, east) spacing *)
    destruct (grid_lines_spacing _ _ _ _ _ _ _ _ _ _ _ Hg) as [L1 L2].
    exists None, None, (Some sp2), (Some sp1). split; [exact L1|]. split; [exact L2|]. split; [|split].
    + intros G. rewrite <- Gen. unfold block_geom. rewrite Hb.
      destruct (axis_geom w e None (Some sp2) adjust) as [[? ?]|], (axis_geom s n None (Some sp1) adjust) as [[? ?]|]; reflexivity.
    + intros x [H|H]; injection H as <-; exists [sp1; sp2]; split; try reflexivity; cbn; auto.
    + intros z [H|H]; discriminate.
Qed.

Definition spacing_pos (spacing : option (list Q)) : Prop :=
  forall sp, spacing = Some sp -> Forall (fun x => 0 < x) sp.
Definition shape_pos (shape : option (Z * Z)) : Prop :=
  forall sn se, shape = Some (sn, se) -> (1 <= sn)%Z /\ (1 <= se)%Z.

Lemma Forall_nth_len {A} (P : list A -> Prop) (rows : list (list A)) :
  (forall i, (i < length rows)%nat -> P (nth i rows [])) -> Forall P rows.
Proof.
  intros H. apply Forall_forall. intros r Hr. apply (In_nth _ _ []) in Hr as [i [Hi <-]]. apply H. exact Hi.
Qed.

(** block_split: centres in the closed-form row-major layout; one label per point,
    in the raveled order of the input, each the nearest-centre query of that point *)
Theorem block_split_spec east north spacing adjust region shape b w e s n :
  block_split east north spacing adjust region shape = Some b ->
  effective_region east north region = Some [w; e; s; n] ->
  w < e -> s < n -> spacing_pos spacing -> shape_pos shape ->
  exists G, block_geom [w; e; s; n] shape spacing adjust = Some G /\
    g_w G = w /\ g_s G = s /\
    layout G (combine (b_east b) (b_north b)) /\
    length (b_east b) = (g_nr G * g_nc G)%nat /\ length (b_north b) = (g_nr G * g_nc G)%nat /\
    (forall k, (k < g_nr G * g_nc G)%nat ->
       nth k (b_east b) 0 == centre_e G k /\ nth k (b_north b) 0 == centre_n G k) /\
    length east = length north /\
    length (b_labels b) = length east /\
    forall i, (i < length east)%nat ->
      nth i (b_labels b) 0%nat = nearest (combine (b_east b) (b_north b)) (nth i east 0, nth i north 0).
Proof.
  intros Hb Heff Hwe Hsn Hsp Hsh. unfold block_split in Hb.
  destruct (length east =? length north)%nat eqn:Hlen; [|discriminate]. cbn [negb] in Hb.
  apply Nat.eqb_eq in Hlen. rewrite Heff in Hb.
  destruct (grid_coordinates [w; e; s; n] shape spacing adjust true None true) as [g|] eqn:Hg; [|discriminate].
  destruct (block_grid_lines _ _ _ _ _ _ _ _ Hg) as [size_e [size_n [sp_e [sp_n [L1 [L2 [HG [Hsps Hszs]]]]]]]].
  assert (Pe: forall sp, sp_e = Some sp -> 0 < sp).
  { intros x Hx. destruct (Hsps x (or_introl Hx)) as [l [El Il]].
    specialize (Hsp l El). rewrite Forall_forall in Hsp. apply Hsp. exact Il. }
  assert (Pn: forall sp, sp_n = Some sp -> 0 < sp).
  { intros x Hx. destruct (Hsps x (or_intror Hx)) as [l [El Il]].
    specialize (Hsp l El). rewrite Forall_forall in Hsp. apply Hsp. exact Il. }
  assert (Ze: forall z, size_e = Some z -> (1 <= z)%Z).
  { intros z Hz. destruct (Hszs z (or_introl Hz)) as [sn' [se' [Es [->| ->]]]]; apply (Hsh _ _ Es). }
  assert (Zn: forall z, size_n = Some z -> (1 <= z)%Z).
  { intros z Hz. destruct (Hszs z (or_intror Hz)) as [sn' [se' [Es [->| ->]]]]; apply (Hsh _ _ Es). }
  destruct (axis_centres _ _ _ _ _ _ Hwe Pe Ze L1) as [dx [nc [A1 [Hdx [Hnc [Le Ce]]]]]].
  destruct (axis_centres _ _ _ _ _ _ Hsn Pn Zn L2) as [dy [nr [A2 [Hdy [Hnr [Ln Cn]]]]]].
  pose (G := {| g_w := w; g_dx := dx; g_nc := nc; g_s := s; g_dy := dy; g_nr := nr |}).
  assert (HGG: block_geom [w; e; s; n] shape spacing adjust = Some G).
  { apply HG. exists dx, nc, dy, nr. auto. }
  destruct (grid_shape_orientation _ _ _ _ _ _ _ _ Hg) as [O1 [O2 [O3 [O4 [O5 _]]]]].
  cbv zeta in O1, O2, O3, O4, O5. rewrite Le, Ln in *.
  assert (F1: Forall (fun r => length r = nc) (g_east2 g)).
  { apply Forall_nth_len. intros i Hi. rewrite O3 by lia. exact Le. }
  assert (F2: Forall (fun r => length r = nc) (g_north2 g)).
  { apply Forall_nth_len. intros i Hi. apply O4. lia. }
  destruct (concat_uniform (g_east2 g) nc 0 Hnc F1) as [CL1 CN1].
  destruct (concat_uniform (g_north2 g) nc 0 Hnc F2) as [CL2 CN2].
  rewrite O1 in CL1, CN1. rewrite O2 in CL2, CN2.
  remember (map Qred (concat (g_east2 g))) as ce eqn:Ece.
  remember (map Qred (concat (g_north2 g))) as cn eqn:Ecn.
  injection Hb as <-. cbn [b_east b_north b_labels].
  assert (Lce: length ce = (nr * nc)%nat) by (subst ce; rewrite map_length; exact CL1).
  assert (Lcn: length cn = (nr * nc)%nat) by (subst cn; rewrite map_length; exact CL2).
  assert (Cen: forall k, (k < nr * nc)%nat -> nth k ce 0 == centre_e G k /\ nth k cn 0 == centre_n G k).
  { intros k Hk. destruct (rowcol_lt nr nc k Hnc Hk) as [Hkc Hkr]. subst ce cn.
    rewrite !nth_map_Qred. rewrite CN1, CN2 by exact Hk.
    destruct (O5 (k / nc)%nat (k mod nc)%nat Hkr Hkc) as [-> ->].
    unfold centre_e, centre_n. cbn [g_w g_dx g_nc g_s g_dy g_nr G].
    split; [apply Ce; exact Hkc|apply Cn; exact Hkr]. }
  exists G. split; [exact HGG|]. split; [reflexivity|]. split; [reflexivity|]. split.
  { unfold layout. cbn [g_w g_dx g_nc g_s g_dy g_nr G].
    split; [exact Hdx|]. split; [exact Hdy|]. split; [exact Hnc|]. split; [exact Hnr|]. split.
    - rewrite combine_length, Lce, Lcn. lia.
    - intros k Hk. rewrite combine_nth by lia. cbn [fst snd]. apply (Cen k Hk). }
  split; [exact Lce|]. split; [exact Lcn|]. split; [exact Cen|]. split; [exact Hlen|]. split.
  - rewrite map_length, combine_length. lia.
  - intros i Hi.
    rewrite (nth_map_const _ _ _ _ (0, 0)) by (rewrite combine_length; lia).
    rewrite combine_nth by exact Hlen. reflexivity.
Qed.

(** the effective region is the one given, else the tight bounding box of the points *)
Theorem effective_region_spec east north region r :
  effective_region east north region = Some r ->
  match region with
  | Some r' => r = r'
  | None => exists w e s n, r = [w; e; s; n] /\ get_region east north = Some (w, e, s, n)
  end.
Proof.
  unfold effective_region. destruct region as [r'|]; [intros H; injection H as <-; reflexivity|].
  destruct (get_region east north) as [[[[w e] s] n]|]; [|discriminate].
  intros H. injection H as <-. exists w, e, s, n. auto.
Qed.

(** ** statements about block_split itself *)
Section BlockSplit.
  Variables (east north : list Q) (spacing : option (list Q)) (adjust : Z)
            (region : option (list Q)) (shape : option (Z * Z)) (b : blocks) (w e s n : Q).
  Hypothesis Hb : block_split east north spacing adjust region shape = Some b.
  Hypothesis Heff : effective_region east north region = Some [w; e; s; n].
  Hypothesis Hwe : w < e.
  Hypothesis Hsn : s < n.
  Hypothesis Hsp : spacing_pos spacing.
  Hypothesis Hsh : shape_pos shape.

  Lemma label_is_nearest i : (i < length east)%nat ->
    is_nearest (combine (b_east b) (b_north b)) (nth i east 0, nth i north 0) (nth i (b_labels b) 0%nat).
  Proof.
    intros Hi.
    destruct (block_split_spec _ _ _ _ _ _ _ _ _ _ _ Hb Heff Hwe Hsn Hsp Hsh)
      as [G [_ [_ [_ [HL [_ [_ [_ [_ [_ Hlab]]]]]]]]]].
    rewrite (Hlab i Hi). apply nearest_is_nearest.
    destruct HL as [_ [_ [Hnc [Hnr [Hlen _]]]]].
    intros E. rewrite E in Hlen. cbn in Hlen. nia.
  Qed.

  (** every label is a valid block index whose closed block (border blocks extended
      outwards) contains the point - the decidable statement, for any allowance t >= 0 *)
  Theorem block_split_labels_ok t : 0 <= t ->
    exists G, block_geom [w; e; s; n] shape spacing adjust = Some G /\
      length (b_labels b) = length east /\
      forall i, (i < length east)%nat ->
        label_ok G t (nth i east 0, nth i north 0) (nth i (b_labels b) 0%nat) = true.
  Proof.
    intros Ht.
    destruct (block_split_spec _ _ _ _ _ _ _ _ _ _ _ Hb Heff Hwe Hsn Hsp Hsh)
      as [G [HG [_ [_ [HL [_ [_ [_ [_ [Hll _]]]]]]]]]].
    exists G. split; [exact HG|]. split; [exact Hll|].
    intros i Hi. apply (label_closed_block G _ HL _ _ t Ht). apply label_is_nearest. exact Hi.
  Qed.

  Theorem block_split_label_interior G i r c :
    block_geom [w; e; s; n] shape spacing adjust = Some G ->
    (i < length east)%nat -> (c < g_nc G)%nat -> (r < g_nr G)%nat ->
    w + inject_Z (Z.of_nat c) * g_dx G < nth i east 0 ->
    nth i east 0 < w + (inject_Z (Z.of_nat c) + 1) * g_dx G ->
    s + inject_Z (Z.of_nat r) * g_dy G < nth i north 0 ->
    nth i north 0 < s + (inject_Z (Z.of_nat r) + 1) * g_dy G ->
    nth i (b_labels b) 0%nat = (r * g_nc G + c)%nat.
  Proof.
    intros HG Hi Hc Hr X1 X2 Y1 Y2.
    destruct (block_split_spec _ _ _ _ _ _ _ _ _ _ _ Hb Heff Hwe Hsn Hsp Hsh)
      as [G' [HG' [Gw [Gs [HL _]]]]].
    rewrite HG in HG'. injection HG' as <-.
    apply (label_interior G _ HL (nth i east 0, nth i north 0)); try assumption;
      cbn [fst snd]; try rewrite Gw; try rewrite Gs; try assumption.
    apply label_is_nearest. exact Hi.
  Qed.

  Theorem block_split_label_edge G i :
    block_geom [w; e; s; n] shape spacing adjust = Some G -> (i < length east)%nat ->
    let l := nth i (b_labels b) 0%nat in
    (forall c, (1 <= c < g_nc G)%nat -> nth i east 0 == w + inject_Z (Z.of_nat c) * g_dx G ->
       (l mod g_nc G = c \/ l mod g_nc G = c - 1)%nat) /\
    (forall r, (1 <= r < g_nr G)%nat -> nth i north 0 == s + inject_Z (Z.of_nat r) * g_dy G ->
       (l / g_nc G = r \/ l / g_nc G = r - 1)%nat).
  Proof.
    intros HG Hi l.
    destruct (block_split_spec _ _ _ _ _ _ _ _ _ _ _ Hb Heff Hwe Hsn Hsp Hsh)
      as [G' [HG' [Gw [Gs [HL _]]]]].
    rewrite HG in HG'. injection HG' as <-.
    pose proof (label_edge_adjacent G _ HL (nth i east 0, nth i north 0) l (label_is_nearest i Hi)) as H.
    cbn [fst snd] in H. rewrite Gw, Gs in H. exact H.
  Qed.

  Theorem block_split_label_outside G i :
    block_geom [w; e; s; n] shape spacing adjust = Some G -> (i < length east)%nat ->
    let l := nth i (b_labels b) 0%nat in
    (nth i east 0 <= w -> (l mod g_nc G = 0)%nat) /\
    (w + inject_Z (Z.of_nat (g_nc G)) * g_dx G <= nth i east 0 -> (l mod g_nc G = g_nc G - 1)%nat) /\
    (nth i north 0 <= s -> (l / g_nc G = 0)%nat) /\
    (s + inject_Z (Z.of_nat (g_nr G)) * g_dy G <= nth i north 0 -> (l / g_nc G = g_nr G - 1)%nat).
  Proof.
    intros HG Hi l.
    destruct (block_split_spec _ _ _ _ _ _ _ _ _ _ _ Hb Heff Hwe Hsn Hsp Hsh)
      as [G' [HG' [Gw [Gs [HL _]]]]].
    rewrite HG in HG'. injection HG' as <-.
    pose proof (label_outside_clamped G _ HL (nth i east 0, nth i north 0) l (label_is_nearest i Hi)) as H.
    cbn [fst snd] in H. rewrite Gw, Gs in H. exact H.
  Qed.
End BlockSplit.

(** the blocks of a shape, or of a spacing adjusted to the region, tile the region exactly;
    with adjust = "region" the block size is exactly the requested spacing *)
Theorem axis_geom_tiles start stop size spacing adjust h k :
  start < stop -> (forall sp, spacing = Some sp -> 0 < sp) -> (forall z, size = Some z -> (1 <= z)%Z) ->
  axis_geom start stop size spacing adjust = Some (h, k) ->
  match size, spacing with
  | Some z, _ => k = Z.to_nat z /\ inject_Z (Z.of_nat k) * h == stop - start
  | None, Some sp =>
      k = Z.to_nat (Z.max 1 (rhe ((stop - start) / sp))) /\
      (adjust = 0%Z -> inject_Z (Z.of_nat k) * h == stop - start) /\
      (adjust = 1%Z -> h = sp)
  | None, None => False
  end.
Proof.
  intros Hlt Hsp Hsz. unfold axis_geom.
  destruct size as [z|], spacing as [sp|]; try discriminate.
  - intros H. injection H as <- <-. specialize (Hsz z eq_refl). split; [reflexivity|].
    rewrite Z2Nat.id by lia.
    assert (0 < inject_Z z). { change 0 with (inject_Z 0). rewrite <- Zlt_Qlt. lia. }
    field. lra.
  - destruct (negb ((adjust =? 0)%Z || (adjust =? 1)%Z)); [discriminate|].
    intros H. injection H as <- <-. unfold intervals. split; [reflexivity|].
    set (kk := Z.max 1 (rhe ((stop - start) / sp))).
    assert (Hk: (1 <= kk)%Z) by (unfold kk; lia).
    assert (0 < inject_Z kk). { change 0 with (inject_Z 0). rewrite <- Zlt_Qlt. lia. }
    split; intros ->; cbn [Z.eqb]; [|reflexivity].
    rewrite Z2Nat.id by lia. field. lra.
Qed.

(** ** the decidable statement evaluated by the check holds of the model's output *)
Lemma all2_nth {A B} (f : A -> B -> bool) (l1 : list A) (l2 : list B) da db :
  length l1 = length l2 ->
  (forall i, (i < length l1)%nat -> f (nth i l1 da) (nth i l2 db) = true) ->
  all2 f l1 l2 = true.
Proof.
  revert l2. induction l1 as [|x t IH]; intros [|y t2] Hl H; cbn [length] in Hl; try lia; [reflexivity|].
  cbn [all2]. apply andb_true_iff. split.
  - apply (H 0%nat). cbn [length]. lia.
  - apply IH; [lia|]. intros i Hi. apply (H (S i)). cbn [length]. lia.
Qed.

Lemma close_by_eq sc a b : 0 <= sc -> a == b -> close_by sc a b = true.
Proof.
  intros Hs E. unfold close_by. apply Qleb_spec.
  assert (Z: a - b == 0) by (rewrite E; ring). rewrite Z. cbn [Qabs Z.abs Qnum Qden].
  assert (0 < tol40) by reflexivity. change (Qabs 0) with 0. nra.
Qed.

Theorem block_split_holds east north spacing adjust region shape b w e s n sc t :
  block_split east north spacing adjust region shape = Some b ->
  effective_region east north region = Some [w; e; s; n] ->
  w < e -> s < n -> spacing_pos spacing -> shape_pos shape -> 0 <= sc -> 0 <= t ->
  exists G, block_geom [w; e; s; n] shape spacing adjust = Some G /\
    block_holds sc t G (combine east north) (b_east b) (b_north b) (b_labels b) = true.
Proof.
  intros Hb Heff Hwe Hsn Hsp Hsh Hsc Ht.
  destruct (block_split_spec _ _ _ _ _ _ _ _ _ _ _ Hb Heff Hwe Hsn Hsp Hsh)
    as [G [HG [_ [_ [HL [Le [Ln [Cen [Hlen [Hll _]]]]]]]]]].
  exists G. split; [exact HG|]. unfold block_holds, centres_ok. rewrite !andb_true_iff. repeat split.
  - apply (all2_nth _ _ _ 0 0); rewrite map_length, seq_length; [lia|].
    intros i Hi. rewrite (nth_map_const _ _ _ _ 0%nat) by (rewrite seq_length; exact Hi).
    rewrite seq_nth by exact Hi. apply close_by_eq; [exact Hsc|]. symmetry. apply (Cen i Hi).
  - apply (all2_nth _ _ _ 0 0); rewrite map_length, seq_length; [lia|].
    intros i Hi. rewrite (nth_map_const _ _ _ _ 0%nat) by (rewrite seq_length; exact Hi).
    rewrite seq_nth by exact Hi. apply close_by_eq; [exact Hsc|]. symmetry. apply (Cen i Hi).
  - apply (all2_nth _ _ _ (0, 0) 0%nat); rewrite combine_length; [lia|].
    intros i Hi. rewrite combine_nth by exact Hlen.
    apply (label_closed_block G _ HL _ _ t Ht).
    apply (label_is_nearest _ _ _ _ _ _ _ _ _ _ _ Hb Heff Hwe Hsn Hsp Hsh). lia.
Qed.
