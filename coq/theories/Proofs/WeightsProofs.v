(** Proofs about variance_to_weights and the BlockMean model (C10). *)
From Coq Require Import ZArith QArith Qabs Qminmax List Bool Lia Lqa.
From Verde Require Import Lib.Dyadic Lib.QList Model.BlockReduce Model.Weights Proofs.BlockReduceProofs.
Import ListNotations.
Open Scope Q_scope.

(** ** order facts *)
Lemma above_spec tol v : above tol v = true <-> tol < v.
Proof.
  unfold above. rewrite negb_true_iff. split.
  - intros H. apply Qnot_le_lt. intros Hle. apply Qle_bool_iff in Hle. congruence.
  - intros H. destruct (Qle_bool v tol) eqn:E; [|reflexivity].
    apply Qle_bool_iff in E. exfalso. exact (Qlt_not_le _ _ H E).
Qed.

Lemma above_false tol v : above tol v = false <-> v <= tol.
Proof.
  unfold above. rewrite negb_false_iff. apply Qle_bool_iff.
Qed.

Lemma fold_min_le x t :
  fold_right Qmin x t <= x /\ forall y, In y t -> fold_right Qmin x t <= y.
Proof.
  induction t as [|a t [IH1 IH2]]; cbn [fold_right].
  - split; [apply Qle_refl|intros y []].
  - split.
    + eapply Qle_trans; [apply Q.le_min_r|exact IH1].
    + intros y [<-|H]; [apply Q.le_min_l|].
      eapply Qle_trans; [apply Q.le_min_r|apply IH2, H].
Qed.

Lemma fold_min_in x t : exists y, In y (x :: t) /\ y == fold_right Qmin x t.
Proof.
  induction t as [|a t (y & Hy & E)]; cbn [fold_right].
  - exists x. split; [left; reflexivity|reflexivity].
  - destruct (Q.min_spec a (fold_right Qmin x t)) as [[_ H]|[_ H]].
    + exists a. split; [right; left; reflexivity|symmetry; exact H].
    + exists y. split.
      * destruct Hy as [<-|Hy]; [left; reflexivity|right; right; exact Hy].
      * rewrite H. exact E.
Qed.

Lemma qmin_spec l : l <> [] ->
  (exists y, In y l /\ y == qmin l) /\ forall y, In y l -> qmin l <= y.
Proof.
  destruct l as [|x t]; [intros H; contradiction|intros _]. unfold qmin. split.
  - apply fold_min_in.
  - destruct (fold_min_le x t) as [H1 H2]. intros y [<-|H]; [exact H1|exact (H2 y H)].
Qed.

Lemma minpos_none tol var : minpos tol var = None -> forall v, In v var -> v <= tol.
Proof.
  unfold minpos. destruct (filter (above tol) var) eqn:F; [|discriminate].
  intros _ v Hin. destruct (Qlt_le_dec tol v) as [H|H]; [|exact H].
  exfalso. assert (Hf : In v (filter (above tol) var)).
  { apply filter_In. split; [exact Hin|apply above_spec, H]. }
  rewrite F in Hf. exact Hf.
Qed.

Lemma minpos_some tol var m : minpos tol var = Some m ->
  (exists v, In v var /\ tol < v /\ v == m) /\ forall v, In v var -> tol < v -> m <= v.
Proof.
  unfold minpos. destruct (filter (above tol) var) as [|q l0] eqn:F; [discriminate|].
  intros E. injection E as <-.
  destruct (qmin_spec (q :: l0)) as [(y & Hy & Ey) Hle]; [discriminate|].
  rewrite <- F in Hy. split.
  - apply filter_In in Hy as [Hy1 Hy2]. exists y. split; [exact Hy1|].
    split; [apply above_spec, Hy2|exact Ey].
  - intros v Hv Hlt. apply Hle. rewrite <- F. apply filter_In. split; [exact Hv|apply above_spec, Hlt].
Qed.

Lemma minpos_is_minpos tol vs m : 0 <= tol ->
  minpos tol (map nan_to_num vs) = Some m -> is_minpos tol vs m.
Proof.
  intros Ht H. apply minpos_some in H as [(v & Hin & Hlt & Ev) Hle]. split.
  - apply in_map_iff in Hin as ([q|] & E & Hin); cbn in E; subst v.
    + exists q. split; [exact Hin|split; assumption].
    + exfalso. lra.
  - intros q Hin' Hq. apply Hle; [|exact Hq].
    apply in_map_iff. exists (Some q). split; [reflexivity|exact Hin'].
Qed.

Lemma minpos_none_all tol vs :
  minpos tol (map nan_to_num vs) = None -> forall q, In (Some q) vs -> q <= tol.
Proof.
  intros H q Hin. apply (minpos_none _ _ H). apply in_map_iff. exists (Some q).
  split; [reflexivity|exact Hin].
Qed.

(** ** variance_to_weights *)
Lemma v2w1_nth tol vs i :
  nth_error (v2w1 tol vs) i =
  match nth_error vs i with
  | None => None
  | Some o => Some (match minpos tol (map nan_to_num vs) with
                    | None => 1
                    | Some m => if above tol (nan_to_num o) then Qred (m / nan_to_num o) else 1
                    end)
  end.
Proof.
  unfold v2w1. destruct (minpos tol (map nan_to_num vs));
    rewrite !nth_error_map; destruct (nth_error vs i); reflexivity.
Qed.

(** same shape *)
Theorem v2w_shape tol vs : length (v2w1 tol vs) = length vs.
Proof.
  unfold v2w1. destruct (minpos tol (map nan_to_num vs)); rewrite !map_length; reflexivity.
Qed.

(** weight 1 for NaN and for variances at or below the tolerance *)
Theorem v2w_small_and_nan tol vs i o : 0 <= tol ->
  nth_error vs i = Some o ->
  match o with None => True | Some q => q <= tol end ->
  nth_error (v2w1 tol vs) i = Some 1.
Proof.
  intros Ht Hn Ho. rewrite v2w1_nth, Hn.
  destruct (minpos tol (map nan_to_num vs)); [|reflexivity].
  assert (E : above tol (nan_to_num o) = false).
  { apply above_false. destruct o as [q0|]; cbn; [exact Ho|exact Ht]. }
  rewrite E. reflexivity.
Qed.

(** min-positive-variance / variance above the tolerance *)
Theorem v2w_formula tol vs i q : 0 <= tol ->
  nth_error vs i = Some (Some q) -> tol < q ->
  exists m w, nth_error (v2w1 tol vs) i = Some w /\ w == m / q /\ is_minpos tol vs m.
Proof.
  intros Ht Hn Hq. rewrite v2w1_nth, Hn. cbn [nan_to_num].
  destruct (minpos tol (map nan_to_num vs)) as [m|] eqn:Hm.
  - exists m, (Qred (m / q)). rewrite (proj2 (above_spec tol q) Hq).
    split; [reflexivity|]. split; [apply Qred_correct|apply minpos_is_minpos; assumption].
  - exfalso. pose proof (minpos_none_all _ _ Hm q (nth_error_In _ _ Hn)). lra.
Qed.

(** every weight lies in (0, 1] *)
Theorem v2w_range tol vs : 0 <= tol ->
  Forall (fun w => 0 < w /\ w <= 1) (v2w1 tol vs).
Proof.
  intros Ht. apply Forall_forall. intros w Hw. unfold v2w1 in Hw.
  destruct (minpos tol (map nan_to_num vs)) as [m|] eqn:Hm.
  - apply in_map_iff in Hw as (v & <- & Hv).
    destruct (above tol v) eqn:Ha; [|lra].
    apply above_spec in Ha.
    apply minpos_some in Hm as [(v0 & _ & Hlt0 & E0) Hle].
    specialize (Hle v Hv Ha). rewrite Qred_correct. split.
    + apply Qlt_shift_div_l; lra.
    + apply Qle_shift_div_r; lra.
  - apply in_map_iff in Hw as (v & <- & _). lra.
Qed.

(** at least one weight equals 1 *)
Theorem v2w_has_one tol vs : 0 <= tol -> vs <> [] ->
  exists w, In w (v2w1 tol vs) /\ w == 1.
Proof.
  intros Ht Hne. unfold v2w1.
  destruct (minpos tol (map nan_to_num vs)) as [m|] eqn:Hm.
  - apply minpos_some in Hm as [(v & Hin & Hlt & Ev) _].
    exists (Qred (m / v)). split.
    + apply in_map_iff. exists v. split; [|exact Hin].
      rewrite (proj2 (above_spec tol v) Hlt). reflexivity.
    + rewrite Qred_correct, <- Ev. field. lra.
  - destruct vs as [|o t]; [contradiction|]. exists 1. split; [left; reflexivity|reflexivity].
Qed.

(** the inputs are values, not mutable arrays: the function is a pure map of
    them (that the implementation leaves the caller's arrays untouched is
    checked by the correspondence) *)

(** ** reductions *)
Lemma qmean_spec l : qmean l == Qsum l / Qlen l.
Proof. unfold qmean. rewrite Qred_correct, qsum_Qsum. reflexivity. Qed.

Lemma qavg_spec xs ws : qavg xs ws == Qsum (map2 Qmult xs ws) / Qsum ws.
Proof. unfold qavg, qdot. rewrite Qred_correct, !qsum_Qsum. reflexivity. Qed.

Lemma qvar_spec ddof l v : qvar ddof l = Some v ->
  (ddof < length l)%nat /\
  v == Qsum (map (fun x => (x - qmean l) * (x - qmean l)) l) / inject_Z (Z.of_nat (length l - ddof)).
Proof.
  unfold qvar. destruct (Nat.leb_spec (length l) ddof) as [H|H]; [discriminate|].
  cbv zeta. intros E. split; [exact H|].
  apply (f_equal (fun o => match o with Some x => x | None => 0 end)) in E.
  cbv beta iota in E. rewrite <- E.
  rewrite Qred_correct. rewrite qsum_Qsum. unfold qsq. reflexivity.
Qed.

Lemma qvar_none ddof l : qvar ddof l = None <-> (length l <= ddof)%nat.
Proof.
  unfold qvar. destruct (Nat.leb_spec (length l) ddof) as [H|H].
  - split; [intros _; exact H|reflexivity].
  - split; [discriminate|lia].
Qed.

Lemma qwvar_spec xs ws :
  qwvar xs ws = qavg (map (fun x => (x - qavg xs ws) * (x - qavg xs ws)) xs) ws.
Proof. reflexivity. Qed.

(** ** BlockMean.filter *)
Lemma bm_unweighted_spec ddof labels col : length col = length labels ->
  bm_unweighted ddof labels col = (spec_col qmean labels col, spec_var ddof labels col).
Proof.
  intros H. unfold bm_unweighted, spec_col, spec_var.
  rewrite groupby_spec, !map_map. cbn [snd]. rewrite map_fst_combine by lia. reflexivity.
Qed.

Lemma weighted_groups labels col w (f : list Q -> list Q -> option Q) :
  length col = length labels -> length w = length labels ->
  map (fun e => f (map fst (snd e)) (map snd (snd e))) (groupby (combine labels (combine col w))) =
  map (fun k => f (select k (combine labels col)) (select k (combine labels w))) (ukeys labels).
Proof.
  intros H1 H2. rewrite groupby_spec, map_map. cbn [snd].
  rewrite map_fst_combine by (rewrite combine_length; lia).
  apply map_ext. intros k. rewrite select_combine by assumption.
  rewrite map_fst_combine, map_snd_combine by (apply select_length_combine; assumption).
  reflexivity.
Qed.

Lemma bm_uncertainty_spec labels col w :
  length col = length labels -> length w = length labels ->
  bm_uncertainty labels col w = (spec_wcol qavg labels col w, spec_uvar labels w).
Proof.
  intros H1 H2. unfold bm_uncertainty. f_equal.
  - apply (wreduce_col_spec qavg); assumption.
  - apply (weighted_groups labels col w (fun _ ws => Some (Qred (/ qsum ws)))); assumption.
Qed.

Lemma bm_wvariance_spec labels col w :
  length col = length labels -> length w = length labels ->
  bm_wvariance labels col w = (spec_wcol qavg labels col w, spec_wvar labels col w).
Proof.
  intros H1 H2. unfold bm_wvariance. f_equal.
  - apply (wreduce_col_spec qavg); assumption.
  - apply (weighted_groups labels col w (fun xs ws => Some (qwvar xs ws))); assumption.
Qed.

Lemma map_map2 {X Y Z' W} (g : Z' -> W) (f : X -> Y -> Z') la lb :
  map g (map2 f la lb) = map2 (fun a b => g (f a b)) la lb.
Proof.
  revert lb. induction la as [|a ta IH]; intros [|b tb]; cbn; try reflexivity.
  rewrite IH. reflexivity.
Qed.

Lemma map2_snd_only {X Y Z'} (f : Y -> Z') (la : list X) lb :
  length la = length lb -> map2 (fun _ b => f b) la lb = map f lb.
Proof.
  revert lb. induction la as [|a ta IH]; intros [|b tb] H; cbn in *; try reflexivity; try discriminate.
  rewrite IH by lia. reflexivity.
Qed.

(** the whole function in specification vocabulary: per non-empty block (in
    ascending label order) the (weighted) mean of its members and the weight
    that variance_to_weights gives to the block variances of that component *)
Theorem block_mean_spec ddof tol labels coords data weights centres center drop uncertainty out :
  block_mean ddof tol labels coords data weights centres center drop uncertainty = Some out ->
  out = (spec_coords qmean labels coords centres center drop,
         spec_means labels data weights,
         map (v2w1 tol) (spec_variances ddof labels data weights uncertainty)).
Proof.
  unfold block_mean. destruct (br_valid labels coords data weights) eqn:Hv; [|discriminate].
  cbn [negb].
  assert (Hc : block_coords qmean labels coords centres center drop =
               spec_coords qmean labels coords centres center drop).
  { pose proof (block_reduce_spec qmean qavg labels coords data weights centres center drop) as Hs.
    unfold block_reduce in Hs. rewrite Hv in Hs. specialize (Hs _ eq_refl).
    injection Hs as Hs _. exact Hs. }
  rewrite Hc.
  unfold br_valid in Hv. repeat (apply andb_true_iff in Hv as [Hv ?]).
  rename H into Hw, H0 into Hd.
  destruct weights as [ws|].
  - apply andb_true_iff in Hw as [Hlen Hw]. apply Nat.eqb_eq in Hlen.
    intros E. injection E as <-. unfold spec_means, spec_variances.
    rewrite !map_map2.
    destruct uncertainty.
    + f_equal; [f_equal|].
      * apply map2_ext_in. intros a b Ha Hb. rewrite bm_uncertainty_spec; [reflexivity| |].
        -- apply (all_len_In _ _ _ Hd), Ha.
        -- apply (all_len_In _ _ _ Hw), Hb.
      * rewrite <- (map2_snd_only (spec_uvar labels) data ws) by lia. rewrite map_map2.
        apply map2_ext_in. intros a b Ha Hb. rewrite bm_uncertainty_spec; [reflexivity| |].
        -- apply (all_len_In _ _ _ Hd), Ha.
        -- apply (all_len_In _ _ _ Hw), Hb.
    + f_equal; [f_equal|].
      * apply map2_ext_in. intros a b Ha Hb. rewrite bm_wvariance_spec; [reflexivity| |].
        -- apply (all_len_In _ _ _ Hd), Ha.
        -- apply (all_len_In _ _ _ Hw), Hb.
      * rewrite map_map2.
        apply map2_ext_in. intros a b Ha Hb. rewrite bm_wvariance_spec; [reflexivity| |].
        -- apply (all_len_In _ _ _ Hd), Ha.
        -- apply (all_len_In _ _ _ Hw), Hb.
  - destruct uncertainty; [discriminate|].
    intros E. injection E as <-. unfold spec_means, spec_variances.
    rewrite !map_map. f_equal; [f_equal|].
    + apply map_ext_in. intros c Hin. rewrite bm_unweighted_spec; [reflexivity|].
      apply (all_len_In _ _ _ Hd), Hin.
    + apply map_ext_in. intros c Hin. rewrite bm_unweighted_spec; [reflexivity|].
      apply (all_len_In _ _ _ Hd), Hin.
Qed.

(** uncertainty propagation without weights is rejected; nothing else is,
    among well-shaped inputs *)
Theorem block_mean_uncertainty_needs_weights ddof tol labels coords data centres center drop :
  block_mean ddof tol labels coords data None centres center drop true = None.
Proof. unfold block_mean. destruct (negb (br_valid labels coords data None)); reflexivity. Qed.

Theorem block_mean_none_iff ddof tol labels coords data weights centres center drop uncertainty :
  block_mean ddof tol labels coords data weights centres center drop uncertainty = None <->
  br_valid labels coords data weights = false \/ (weights = None /\ uncertainty = true).
Proof.
  unfold block_mean. destruct (br_valid labels coords data weights); cbn [negb].
  - destruct weights as [ws|]; [|destruct uncertainty].
    + split; [discriminate|intros [H|[H _]]; discriminate].
    + split; [intros _; right; split; reflexivity|reflexivity].
    + split; [discriminate|intros [H|[_ H]]; discriminate].
  - split; [intros _; left; reflexivity|reflexivity].
Qed.

(** *** the three weighting rules, per block *)
Lemma spec_var_nth ddof labels col i k :
  nth_error (ukeys labels) i = Some k ->
  nth_error (spec_var ddof labels col) i = Some (qvar ddof (select k (combine labels col))).
Proof. intros H. unfold spec_var. rewrite nth_error_map, H. reflexivity. Qed.

Lemma spec_uvar_nth labels w i k :
  nth_error (ukeys labels) i = Some k ->
  nth_error (spec_uvar labels w) i = Some (Some (Qred (/ qsum (select k (combine labels w))))).
Proof. intros H. unfold spec_uvar. rewrite nth_error_map, H. reflexivity. Qed.

Lemma spec_wvar_nth labels col w i k :
  nth_error (ukeys labels) i = Some k ->
  nth_error (spec_wvar labels col w) i =
  Some (Some (qwvar (select k (combine labels col)) (select k (combine labels w)))).
Proof. intros H. unfold spec_wvar. rewrite nth_error_map, H. reflexivity. Qed.

(** without input weights: smallest block variance above the tolerance / the block's variance *)
Theorem blockmean_w_unweighted ddof tol labels col i k q : 0 <= tol ->
  nth_error (ukeys labels) i = Some k ->
  qvar ddof (select k (combine labels col)) = Some q -> tol < q ->
  exists m w, nth_error (v2w1 tol (spec_var ddof labels col)) i = Some w /\
              w == m / q /\ is_minpos tol (spec_var ddof labels col) m.
Proof.
  intros Ht Hk Hq Hlt. apply v2w_formula; [exact Ht| |exact Hlt].
  rewrite (spec_var_nth _ _ _ _ _ Hk), Hq. reflexivity.
Qed.

(** blocks whose variance is at or below the tolerance (single-member blocks,
    NaN variances when n <= ddof) get weight 1 *)
Theorem blockmean_w_small ddof tol labels col i k : 0 <= tol ->
  nth_error (ukeys labels) i = Some k ->
  match qvar ddof (select k (combine labels col)) with None => True | Some q => q <= tol end ->
  nth_error (v2w1 tol (spec_var ddof labels col)) i = Some 1.
Proof.
  intros Ht Hk Hq. eapply v2w_small_and_nan; [exact Ht|apply spec_var_nth, Hk|exact Hq].
Qed.

(** otherwise (weights, no uncertainty propagation): inversely proportional to the weighted variance *)
Theorem blockmean_w_weighted tol labels col w i k : 0 <= tol ->
  nth_error (ukeys labels) i = Some k ->
  let q := qwvar (select k (combine labels col)) (select k (combine labels w)) in
  tol < q ->
  exists m wt, nth_error (v2w1 tol (spec_wvar labels col w)) i = Some wt /\
               wt == m / q /\ is_minpos tol (spec_wvar labels col w) m.
Proof.
  intros Ht Hk q Hlt. apply v2w_formula; [exact Ht| |exact Hlt].
  rewrite (spec_wvar_nth _ _ _ _ _ Hk). reflexivity.
Qed.

Lemma inv_le_inv a b : 0 < a -> 0 < b -> / a <= / b -> b <= a.
Proof.
  intros Ha Hb H.
  assert (E1 : / a * a == 1) by (field; lra).
  assert (E2 : / b * b == 1) by (field; lra).
  set (ia := / a) in *. set (ib := / b) in *.
  assert (Hab : 0 < a * b) by nra.
  assert (H3 : 0 <= (ib - ia) * (a * b)) by (apply Qmult_le_0_compat; lra).
  assert (E : (ib - ia) * (a * b) == a - b).
  { transitivity ((ib * b) * a - (ia * a) * b); [ring|]. rewrite E1, E2. ring. }
  lra.
Qed.

(** with weights and uncertainty propagation: proportional to the sum of the
    input weights in the block, the largest sum getting weight 1 *)
Theorem blockmean_w_uncertainty tol labels w i k : 0 <= tol ->
  let S := fun k => qsum (select k (combine labels w)) in
  (forall k', In k' (ukeys labels) -> 0 < S k' /\ tol < / S k') ->
  nth_error (ukeys labels) i = Some k ->
  exists kmax wt, nth_error (v2w1 tol (spec_uvar labels w)) i = Some wt /\
                  wt == S k / S kmax /\
                  In kmax (ukeys labels) /\ (forall k', In k' (ukeys labels) -> S k' <= S kmax).
Proof.
  intros Ht S Hall Hk.
  pose proof (nth_error_In _ _ Hk) as Hin.
  destruct (Hall k Hin) as [Hpos Hlt].
  destruct (v2w_formula tol (spec_uvar labels w) i (Qred (/ S k)) Ht) as (m & wt & Hn & Ew & [Hex Hmin]).
  { apply spec_uvar_nth, Hk. }
  { rewrite Qred_correct. exact Hlt. }
  destruct Hex as (q & Hq & Hqlt & Eq).
  unfold spec_uvar in Hq. apply in_map_iff in Hq as (kmax & E & Hkmax). injection E as E.
  fold (S kmax) in E.
  destruct (Hall kmax Hkmax) as [Hposm Hltm].
  exists kmax, wt. split; [exact Hn|]. split; [|split; [exact Hkmax|]].
  - rewrite Ew, <- Eq, <- E, !Qred_correct. field. split; lra.
  - intros k' Hk'. destruct (Hall k' Hk') as [Hpos' Hlt'].
    apply inv_le_inv; [exact Hposm|exact Hpos'|].
    assert (Hle : m <= Qred (/ S k')).
    { apply Hmin.
      - unfold spec_uvar. apply in_map_iff. exists k'. split; [reflexivity|exact Hk'].
      - rewrite Qred_correct. exact Hlt'. }
    rewrite <- Eq, <- E, !Qred_correct in Hle. exact Hle.
Qed.

(** every output weight column is in (0,1] and contains a 1 *)
Lemma spec_variances_length ddof labels data weights uncertainty vs :
  In vs (spec_variances ddof labels data weights uncertainty) -> length vs = length (ukeys labels).
Proof.
  unfold spec_variances. destruct weights as [ws|]; [destruct uncertainty|].
  - intros H. apply in_map_iff in H as (w & <- & _). unfold spec_uvar. apply map_length.
  - rewrite map2_combine. intros H. apply in_map_iff in H as (p & <- & _). unfold spec_wvar. apply map_length.
  - intros H. apply in_map_iff in H as (c & <- & _). unfold spec_var. apply map_length.
Qed.

Theorem blockmean_weights_range ddof tol labels coords data weights centres center drop uncertainty oc om ow :
  0 <= tol -> labels <> [] ->
  block_mean ddof tol labels coords data weights centres center drop uncertainty = Some (oc, om, ow) ->
  Forall (fun col => length col = length (ukeys labels) /\
                     Forall (fun w => 0 < w /\ w <= 1) col /\
                     exists w, In w col /\ w == 1) ow.
Proof.
  intros Ht Hne H. apply block_mean_spec in H. injection H as _ _ ->.
  apply Forall_forall. intros col Hcol. apply in_map_iff in Hcol as (vs & <- & Hvs).
  apply spec_variances_length in Hvs.
  split; [rewrite v2w_shape; exact Hvs|]. split; [apply v2w_range, Ht|].
  apply v2w_has_one; [exact Ht|].
  intros ->. cbn in Hvs. destruct labels as [|l t]; [contradiction|].
  assert (Hin : In l (ukeys (l :: t))) by (apply ukeys_In; left; reflexivity).
  destruct (ukeys (l :: t)); [exact Hin|discriminate].
Qed.

Lemma variance_to_weights_components tol comps :
  variance_to_weights tol comps = map (v2w1 tol) comps.
Proof. reflexivity. Qed.
