(** Support for the source-regenerated tie of verde.BlockReduce (harness/pylite_blockreduce.v.tmpl, C09):
    - the column names "data0", "coordinate1", ... ([key]) are pairwise different (decimal printing is injective),
      so a dict / data frame built from them is the association list [keyedf] and looking a name up finds the
      column of that index;
    - THE SPECIFICATION of the pandas calls the code makes (trusted; it is the executable specification the C09
      model already rests on, Model/BlockReduce.v [groupby]):
        pd.DataFrame(d)                 the frame with d's columns, in d's order (pandas raises for columns of
                                        unequal lengths: not modelled - the callers validated the lengths with
                                        check_fit_input)
        frame.groupby(k)                a GroupBy object remembering frame and key column
        gb.aggregate(f)  f a function   one column per column of the frame other than the key, same names and order:
                                        [reduce_col red labels col] - f applied to the values of every group, groups
                                        in ascending label order
        gb.aggregate(d)  d a dict {name: attach_weights(f, w)}
                                        one column per item of d, in d's order: [wreduce_col wred labels col w] - the
                                        closure built by verde's attach_weights (given BY SPECIFICATION too: PyLite
                                        has no closures; its body is `reduction(values, weights=weights[values.index])`)
                                        receives the group's values and the weights at the same row positions
        frame[name]                     the column as a Series (KeyError if absent); series.values / np.ravel(series)
                                        its values as a 1-D array
        frame[name] = a                 replaces / appends the column
        np.unique(labels)               [ukeys]
      [red] / [wred] are arbitrary functions (the reduction given to BlockReduce, called without / with weights). *)
From Coq Require Import ZArith QArith List Bool String Lia Arith.
From Coq Require Import DecimalString DecimalZ DecimalPos Decimal.
From Verde Require Import Lib.QList Lib.PyLite Model.BlockReduce Proofs.PyLiteBridge.
Import ListNotations.
Open Scope string_scope.

(** ** names *)
Lemma to_int_nonnil z : Z.to_int z <> Pos Nil /\ Z.to_int z <> Neg Nil.
Proof.
  destruct z; cbn; split; try discriminate; intros H; injection H as H; revert H; apply Unsigned.to_uint_nonnil.
Qed.

Lemma str_of_Z_inj a b : str_of_Z a = str_of_Z b -> a = b.
Proof.
  unfold str_of_Z. intros H. apply to_int_inj.
  destruct (to_int_nonnil a) as [A1 A2]. destruct (to_int_nonnil b) as [B1 B2].
  pose proof (NilZero.isi _ A1 A2) as Ea. pose proof (NilZero.isi _ B1 B2) as Eb.
  rewrite H in Ea. rewrite Ea in Eb. injection Eb as E. exact E.
Qed.

Definition key (p : string) (i : nat) : string := p ++ str_of_Z (Z.of_nat i).

Lemma append_inj_l p : forall a b, p ++ a = p ++ b -> a = b.
Proof. induction p as [|c p IH]; intros a b H; [exact H|]. cbn in H. injection H as H. apply IH. exact H. Qed.

Lemma key_inj p i j : key p i = key p j -> i = j.
Proof. unfold key. intros H. apply append_inj_l, str_of_Z_inj in H. lia. Qed.

Lemma key_eqb p i j : String.eqb (key p i) (key p j) = Nat.eqb i j.
Proof.
  destruct (Nat.eqb i j) eqn:E.
  - apply Nat.eqb_eq in E. subst j. apply String.eqb_refl.
  - apply String.eqb_neq. intros H. apply key_inj in H. apply Nat.eqb_neq in E. contradiction.
Qed.

Lemma append_nil_r s : s ++ "" = s.
Proof. induction s as [|c s IH]; [reflexivity|]. cbn. rewrite IH. reflexivity. Qed.

(** ** association lists keyed by [key p a], [key p (a+1)], ... *)
Section Keyed.
Context {A : Type}.
Variable p : string.
Variable f : A -> val.

Definition keyedf (a : nat) (xs : list A) : list (string * val) :=
  map (fun ix => (key p (fst ix), f (snd ix))) (combine (seq a (List.length xs)) xs).

Lemma keyedf_cons a x xs : keyedf a (x :: xs) = (key p a, f x) :: keyedf (S a) xs.
Proof. reflexivity. Qed.

Lemma lookup_keyedf xs : forall a i rest d, (i < List.length xs)%nat ->
  lookup (keyedf a xs ++ rest) (key p (a + i)) = Some (f (nth i xs d)).
Proof.
  induction xs as [|x t IH]; intros a i rest d H; [cbn in H; lia|].
  rewrite keyedf_cons, <- app_comm_cons. cbn [lookup]. rewrite key_eqb. destruct i as [|i].
  - rewrite Nat.add_0_r, Nat.eqb_refl. reflexivity.
  - assert (E : Nat.eqb (a + S i) a = false) by (apply Nat.eqb_neq; lia). rewrite E.
    replace (a + S i)%nat with (S a + i)%nat by lia. apply IH. cbn in H. lia.
Qed.

Lemma dict_set_append fs k v :
  (forall k', In k' (map fst fs) -> String.eqb k k' = false) -> dict_set fs k v = (fs ++ [(k, v)])%list.
Proof.
  induction fs as [|[k' v'] t IH]; intros H; [reflexivity|].
  cbn [dict_set app]. rewrite (H k') by (left; reflexivity). rewrite IH; [reflexivity|].
  intros k'' Hin. apply H. right. exact Hin.
Qed.

Lemma dict_of_pairs_keyedf xs : forall a acc,
  (forall k' i, In k' (map fst acc) -> (a <= i)%nat -> String.eqb (key p i) k' = false) ->
  dict_of_pairs (map (fun ix => VT [VS (key p (fst ix)); f (snd ix)]) (combine (seq a (List.length xs)) xs)) acc =
  Some (acc ++ keyedf a xs)%list.
Proof.
  induction xs as [|x t IH]; intros a acc H.
  - cbn. rewrite app_nil_r. reflexivity.
  - cbn [List.length seq combine map dict_of_pairs fst snd].
    rewrite dict_set_append by (intros k' Hin; apply (H k' a Hin); lia).
    rewrite IH.
    + rewrite keyedf_cons, <- app_assoc. reflexivity.
    + intros k' i Hin Hle. rewrite map_app, in_app_iff in Hin. destruct Hin as [Hin|Hin].
      * apply (H k' i Hin). lia.
      * cbn in Hin. destruct Hin as [<-|[]]. rewrite key_eqb. apply Nat.eqb_neq. lia.
Qed.

Lemma enumerate_from_combine xs : forall a,
  enumerate_from (Z.of_nat a) (map f xs) =
  map (fun ix => VT [VZ (Z.of_nat (fst ix)); f (snd ix)]) (combine (seq a (List.length xs)) xs).
Proof.
  induction xs as [|x t IH]; intros a; [reflexivity|].
  cbn [map enumerate_from List.length seq combine fst snd]. f_equal.
  replace (Z.of_nat a + 1)%Z with (Z.of_nat (S a)) by lia. apply IH.
Qed.

Lemma keyedf_keys_ne a xs k : (forall i, String.eqb k (key p i) = false) ->
  forall k', In k' (map fst (keyedf a xs)) -> String.eqb k k' = false.
Proof.
  intros H k' Hin. unfold keyedf in Hin. rewrite map_map in Hin. apply in_map_iff in Hin as [ix [<- _]]. apply H.
Qed.
End Keyed.

Lemma map_nth_seq {B} (l : list B) d : map (fun i => nth i l d) (seq 0 (List.length l)) = l.
Proof.
  induction l as [|x t IH]; [reflexivity|].
  cbn [List.length seq map nth]. f_equal. rewrite <- seq_shift, map_map. exact IH.
Qed.

(** ** the specification of the pandas / numpy calls *)
Definition unZ (l : list val) : option (list Z) := map_opt (fun v => match v with VZ z => Some z | _ => None end) l.
Definition arrZ (l : list Z) : val := VA (map VZ l).
Lemma unZ_VZ l : unZ (map VZ l) = Some l.
Proof. unfold unZ. induction l as [|x t IH]; [reflexivity|]. cbn [map map_opt]. rewrite IH. reflexivity. Qed.

Definition col_of (v : val) : option (list Q) := match v with VA l => unQ l | _ => None end.
Lemma col_of_arr c : col_of (arr c) = Some c.
Proof. unfold col_of, arr. apply unQ_VQ. Qed.

Section PandasSpec.
Variable red : list Q -> Q.
Variable wred : list Q -> list Q -> Q.

Definition agg_plain (labels : list Z) (kv : string * val) : option (string * val) :=
  match col_of (snd kv) with Some c => Some (fst kv, arr (reduce_col red labels c)) | None => None end.

(** an item {name: attach_weights(f, w)} of the reduction dict, applied to the column [name] of the frame *)
Definition agg_weighted (labels : list Z) (fs : list (string * val)) (kv : string * val) : option (string * val) :=
  match snd kv with
  | VO c cl =>
      if String.eqb c "weighted_reduction" then
        match lookup fs (fst kv), lookup cl "weights" with
        | Some colv, Some wv =>
            match col_of colv, col_of wv with
            | Some col, Some w => Some (fst kv, arr (wreduce_col wred labels col w))
            | _, _ => None
            end
        | _, _ => None
        end
      else None
  | _ => None
  end.

Definition spec_aggregate (g r : val) : option (option val) :=
  match g with
  | VO gc gfs =>
      if String.eqb gc "GroupBy" then
        match lookup gfs "key", lookup gfs "frame" with
        | Some (VS k), Some (VO fc fs) =>
            match lookup fs k with
            | Some (VA lab) =>
                match unZ lab with
                | Some labels =>
                    match r with
                    | VS _ =>
                        match map_opt (agg_plain labels) (filter (fun kv => negb (String.eqb (fst kv) k)) fs) with
                        | Some out => Some (Some (VO "DataFrame" out))
                        | None => None end
                    | VO rc items =>
                        if String.eqb rc "dict" then
                          match map_opt (agg_weighted labels fs) items with
                          | Some out => Some (Some (VO "DataFrame" out))
                          | None => None end
                        else None
                    | _ => None
                    end
                | None => None
                end
            | _ => None
            end
        | _, _ => None
        end
      else None
  | _ => None
  end.

Definition user_pandas : string -> option (list val -> option (option val)) :=
  fun f =>
    if String.eqb f "pd.DataFrame" then
      Some (fun args => match args with
                        | [VO c fs] => if String.eqb c "dict" then Some (Some (VO "DataFrame" fs)) else None
                        | _ => None end)
    else if String.eqb f "meth:groupby" then
      Some (fun args => match args with
                        | [VO c fs; VS k] => if String.eqb c "DataFrame"
                                             then Some (Some (VO "GroupBy" [("key", VS k); ("frame", VO c fs)])) else None
                        | _ => None end)
    else if String.eqb f "meth:aggregate" then
      Some (fun args => match args with [g; r] => spec_aggregate g r | _ => None end)
    else if String.eqb f "attach_weights" then
      Some (fun args => match args with
                        | [r; w] => Some (Some (VO "weighted_reduction" [("reduction", r); ("weights", w)]))
                        | _ => None end)
    else if String.eqb f "getitem:DataFrame" then
      Some (fun args => match args with
                        | [VO _ fs; VS k] => match lookup fs k with
                                             | Some col => Some (Some (VO "Series" [("values", col)]))
                                             | None => Some None end
                        | _ => None end)
    else if String.eqb f "setitem:DataFrame" then
      Some (fun args => match args with
                        | [VO c fs; VS k; VA v] => Some (Some (VO c (dict_set fs k (VA v))))
                        | _ => None end)
    else if String.eqb f "np.ravel" then
      Some (fun args => match args with
                        | [VO c fs] => if String.eqb c "Series"
                                       then match lookup fs "values" with Some v => Some (Some v) | None => None end
                                       else None
                        | [VA l] => if all_scalar l then Some (Some (VA l)) else None
                        | _ => None end)
    else if String.eqb f "np.unique" then
      Some (fun args => match args with
                        | [VA l] => match unZ l with Some zs => Some (Some (arrZ (ukeys zs))) | None => None end
                        | _ => None end)
    else None.

(** the plain aggregation of a frame of float columns named [key p i] plus the label column *)
Lemma agg_plain_keyedf p (labels : list Z) (cols : list (list Q)) : forall a,
  map_opt (agg_plain labels) (keyedf p arr a cols) = Some (keyedf p (fun c => arr (reduce_col red labels c)) a cols).
Proof.
  induction cols as [|c t IH]; intros a; [reflexivity|].
  rewrite !keyedf_cons. cbn [map_opt]. unfold agg_plain at 1. cbn [fst snd]. rewrite col_of_arr, IH. reflexivity.
Qed.

Lemma filter_keyedf {A} p (g : A -> val) k (xs : list A) lab : forall a,
  (forall i, String.eqb (key p i) k = false) ->
  filter (fun kv : string * val => negb (String.eqb (fst kv) k)) (keyedf p g a xs ++ [(k, lab)]) = keyedf p g a xs.
Proof.
  intros a H. revert a. induction xs as [|x t IH]; intros a.
  - cbn. rewrite String.eqb_refl. reflexivity.
  - rewrite keyedf_cons, <- app_comm_cons. cbn [filter fst]. rewrite H. cbn [negb]. rewrite IH. reflexivity.
Qed.
(** the weighted aggregation: item i of the reduction dict {name_i: attach_weights(f, w_i)} meets column name_i *)
Lemma agg_weighted_keyedf p (labels : list Z) (redv : val) (dw : list (list Q * list Q)) rest :
  map_opt (agg_weighted labels (keyedf p (fun q : list Q * list Q => arr (fst q)) 0 dw ++ rest))
          (keyedf p (fun q : list Q * list Q =>
                       VO "weighted_reduction" [("reduction", redv); ("weights", arr (snd q))]) 0 dw) =
  Some (keyedf p (fun q : list Q * list Q => arr (wreduce_col wred labels (fst q) (snd q))) 0 dw).
Proof.
  set (FS := (keyedf p (fun q : list Q * list Q => arr (fst q)) 0 dw ++ rest)%list).
  assert (G : forall suf pre, dw = (pre ++ suf)%list ->
            map_opt (agg_weighted labels FS)
                    (keyedf p (fun q : list Q * list Q =>
                                 VO "weighted_reduction" [("reduction", redv); ("weights", arr (snd q))])
                            (List.length pre) suf) =
            Some (keyedf p (fun q : list Q * list Q => arr (wreduce_col wred labels (fst q) (snd q)))
                         (List.length pre) suf)).
  { induction suf as [|x t IH]; intros pre E; [reflexivity|].
    rewrite !keyedf_cons. cbn [map_opt]. unfold agg_weighted at 1. cbn [fst snd].
    change (String.eqb "weighted_reduction" "weighted_reduction") with true. cbv iota.
    assert (L : lookup FS (key p (List.length pre)) = Some (arr (fst x))).
    { unfold FS. replace (List.length pre) with (0 + List.length pre)%nat by reflexivity.
      rewrite (lookup_keyedf p (fun q : list Q * list Q => arr (fst q)) dw 0 (List.length pre) rest ([], [])).
      - rewrite E, nth_middle. reflexivity.
      - rewrite E, app_length. cbn [List.length]. lia. }
    rewrite L. cbn [lookup String.eqb Ascii.eqb Bool.eqb]. rewrite !col_of_arr.
    specialize (IH (pre ++ [x])%list). rewrite app_length in IH. cbn [List.length] in IH.
    replace (List.length pre + 1)%nat with (S (List.length pre)) in IH by lia.
    rewrite IH by (rewrite <- app_assoc; exact E). reflexivity. }
  exact (G dw [] eq_refl).
Qed.
End PandasSpec.

Lemma in_combine_seq_nth {A} (l : list A) d : forall a i c,
  In (i, c) (combine (seq a (List.length l)) l) -> nth (i - a) l d = c.
Proof.
  induction l as [|x t IH]; intros a i c H; [destruct H|]. cbn [List.length seq combine] in H.
  destruct H as [H|H]; [injection H as <- <-; rewrite Nat.sub_diag; reflexivity|].
  assert (Hi := in_combine_l _ _ _ _ H). apply in_seq in Hi.
  replace (i - a)%nat with (S (i - S a)) by lia. cbn [nth]. apply (IH (S a)). exact H.
Qed.

Lemma map2_fst_snd {A B C} (f : A -> B -> C) (l : list (A * B)) :
  map2 f (map fst l) (map snd l) = map (fun q => f (fst q) (snd q)) l.
Proof. induction l as [|x t IH]; [reflexivity|]. cbn [map map2]. rewrite IH. reflexivity. Qed.
