(** C03 - proofs about Model/Trend.v: the accumulation loops are matrix-vector
    products; the monomial order.  Axiom-free (nat / Q / lists). *)
From Coq Require Import QArith ZArith List Bool Arith Lia Lqa Sorted Permutation.
From Verde Require Import Model.Trend.
Import ListNotations.
Open Scope Q_scope.

(** ** helpers *)
Lemma nth_map_seq {A} (g : nat -> A) n i d : (i < n)%nat -> nth i (map g (seq 0 n)) d = g i.
Proof.
  intros H. rewrite (nth_indep _ d (g 0%nat)) by (rewrite map_length, seq_length; exact H).
  rewrite map_nth, seq_nth by exact H. reflexivity.
Qed.

Lemma nth_map_in {A B} (g : A -> B) l i d d' : (i < length l)%nat -> nth i (map g l) d = g (nth i l d').
Proof.
  intros H. rewrite (nth_indep _ d (g d')) by (rewrite map_length; exact H). apply map_nth.
Qed.

Lemma dot_nil_r u : dot u [] = 0.
Proof. destruct u; reflexivity. Qed.

Lemma dot_app a b c d : length a = length c -> dot (a ++ b) (c ++ d) == dot a c + dot b d.
Proof.
  revert c. induction a as [|x a IH]; intros [|y c] H; try discriminate; cbn [app dot].
  - ring.
  - rewrite IH by (cbn in H; lia). ring.
Qed.

(** ** scalar loop *)
Lemma axpy_length acc col c : length col = length acc -> length (axpy acc col c) = length acc.
Proof.
  revert col. induction acc as [|a acc IH]; intros [|g col] H; try discriminate; cbn [axpy length].
  - reflexivity.
  - rewrite IH by (cbn in H; lia). reflexivity.
Qed.

Lemma axpy_nth acc col c i : length col = length acc ->
  nth i (axpy acc col c) 0 == nth i acc 0 + nth i col 0 * c.
Proof.
  revert col i. induction acc as [|a acc IH]; intros [|g col] i H; try discriminate.
  - destruct i; cbn; ring.
  - destruct i; cbn [axpy nth]; [reflexivity|]. apply IH. cbn in H; lia.
Qed.

Lemma predict_loop_length cols forces acc :
  Forall (fun c => length c = length acc) cols -> length (predict_loop cols forces acc) = length acc.
Proof.
  revert forces acc. induction cols as [|c cs IH]; intros forces acc H; [reflexivity|].
  destruct forces as [|f fs]; [reflexivity|]. cbn [predict_loop].
  inversion H as [|? ? Hc Hcs]; subst.
  rewrite IH; [apply axpy_length; exact Hc|].
  rewrite axpy_length by exact Hc. exact Hcs.
Qed.

(** for ANY list of columns: entry i of the accumulated array is the initial value
    plus the dot product of row i with the parameters *)
Lemma predict_loop_nth cols forces acc i :
  Forall (fun c => length c = length acc) cols ->
  nth i (predict_loop cols forces acc) 0 == nth i acc 0 + dot (map (fun c => nth i c 0) cols) forces.
Proof.
  revert forces acc. induction cols as [|c cs IH]; intros forces acc H.
  - cbn. ring.
  - destruct forces as [|f fs].
    + cbn [predict_loop]. rewrite dot_nil_r. ring.
    + cbn [predict_loop map dot]. inversion H as [|? ? Hc Hcs]; subst.
      rewrite IH by (rewrite axpy_length by exact Hc; exact Hcs).
      rewrite axpy_nth by exact Hc. ring.
Qed.

Lemma cols_of_lengths K n m : Forall (fun c => length c = length (zeros n)) (cols_of K n m).
Proof.
  unfold cols_of, zeros. apply Forall_forall. intros c Hc. apply in_map_iff in Hc as (j & <- & _).
  unfold col_of. rewrite map_length, seq_length, repeat_length. reflexivity.
Qed.

Lemma cols_of_row K n m i : (i < n)%nat -> map (fun c => nth i c 0) (cols_of K n m) = row_of K m i.
Proof.
  intros H. unfold cols_of, row_of. rewrite map_map. apply map_ext. intros j.
  unfold col_of. apply (nth_map_seq (fun x => K x j)). exact H.
Qed.

Lemma zeros_nth n i : nth i (zeros n) 0 = 0.
Proof. unfold zeros. apply nth_repeat. Qed.

Lemma mv_jac_nth K n m f i : (i < n)%nat -> nth i (mv (jac_of K n m) f) 0 = dot (row_of K m i) f.
Proof.
  intros H. unfold mv, jac_of. rewrite map_map. apply (nth_map_seq (fun x => dot (row_of K m x) f)). exact H.
Qed.

(** predict = jacobian x parameters, for any kernel table K (n data points, m forces) *)
Theorem predict_is_jacobian_times_params K n m f :
  length (predict_loop (cols_of K n m) f (zeros n)) = n /\
  forall i, (i < n)%nat ->
    nth i (predict_loop (cols_of K n m) f (zeros n)) 0 == nth i (mv (jac_of K n m) f) 0.
Proof.
  split.
  - rewrite predict_loop_length by apply cols_of_lengths. unfold zeros. apply repeat_length.
  - intros i H. rewrite predict_loop_nth by apply cols_of_lengths.
    rewrite zeros_nth, cols_of_row, mv_jac_nth by exact H. ring.
Qed.

(** ** two-component loop *)
Lemma axpy2_length acc c1 c2 f1 f2 : length c1 = length acc -> length c2 = length acc ->
  length (axpy2 acc c1 c2 f1 f2) = length acc.
Proof.
  revert c1 c2. induction acc as [|a acc IH]; intros [|g1 c1] [|g2 c2] H1 H2; try discriminate; cbn [axpy2 length].
  - reflexivity.
  - rewrite IH by (cbn in H1, H2; lia). reflexivity.
Qed.

Lemma axpy2_nth acc c1 c2 f1 f2 i : length c1 = length acc -> length c2 = length acc ->
  nth i (axpy2 acc c1 c2 f1 f2) 0 == nth i acc 0 + (nth i c1 0 * f1 + nth i c2 0 * f2).
Proof.
  revert c1 c2 i. induction acc as [|a acc IH]; intros [|g1 c1] [|g2 c2] i H1 H2; try discriminate.
  - destruct i; cbn; ring.
  - destruct i; cbn [axpy2 nth]; [reflexivity|]. apply IH; cbn in H1, H2; lia.
Qed.

Definition same_len (n : nat) (cols : list (list Q)) : Prop := Forall (fun c => length c = n) cols.

Lemma predict2_loop_spec cee cnn cne fe fn ve vn i :
  length cnn = length cee -> length cne = length cee -> length fe = length cee -> length fn = length cee ->
  length vn = length ve ->
  same_len (length ve) cee -> same_len (length ve) cnn -> same_len (length ve) cne ->
  let r := predict2_loop cee cnn cne fe fn ve vn in
  length (fst r) = length ve /\ length (snd r) = length ve /\
  nth i (fst r) 0 == nth i ve 0 + dot (map (fun c => nth i c 0) cee) fe + dot (map (fun c => nth i c 0) cne) fn /\
  nth i (snd r) 0 == nth i vn 0 + dot (map (fun c => nth i c 0) cne) fe + dot (map (fun c => nth i c 0) cnn) fn.
Proof.
  revert cnn cne fe fn ve vn.
  induction cee as [|a cee IH]; intros [|b cnn] [|c cne] [|f1 fe] [|f2 fn] ve vn L1 L2 L3 L4 Lv S1 S2 S3;
    try discriminate.
  - cbn [predict2_loop fst snd map dot]. repeat split; try reflexivity; try exact Lv; ring.
  - cbn [predict2_loop]. cbn in L1, L2, L3, L4.
    inversion S1 as [|? ? Ha Sa]; inversion S2 as [|? ? Hb Sb]; inversion S3 as [|? ? Hc Sc]; subst.
    assert (E1: length (axpy2 ve a c f1 f2) = length ve) by (apply axpy2_length; assumption).
    assert (E2: length (axpy2 vn c b f1 f2) = length ve) by (rewrite axpy2_length; lia).
    specialize (IH cnn cne fe fn (axpy2 ve a c f1 f2) (axpy2 vn c b f1 f2)).
    rewrite E1 in IH. specialize (IH ltac:(lia) ltac:(lia) ltac:(lia) ltac:(lia) E2 Sa Sb Sc).
    cbn zeta in IH. destruct IH as (I1 & I2 & I3 & I4).
    cbn zeta. repeat split; try assumption.
    + rewrite I3. rewrite axpy2_nth by assumption. cbn [map dot]. ring.
    + rewrite I4. rewrite axpy2_nth by lia. cbn [map dot]. ring.
Qed.

Lemma cols_of_same_len K n m : same_len n (cols_of K n m).
Proof.
  unfold same_len, cols_of. apply Forall_forall. intros c Hc. apply in_map_iff in Hc as (j & <- & _).
  unfold col_of. rewrite map_length, seq_length. reflexivity.
Qed.

Lemma cols_of_length K n m : length (cols_of K n m) = m.
Proof. unfold cols_of. rewrite map_length, seq_length. reflexivity. Qed.

Lemma row_of_length K m i : length (row_of K m i) = m.
Proof. unfold row_of. rewrite map_length, seq_length. reflexivity. Qed.

(** the two prediction components stacked (east on top of north) are the block
    Jacobian times the stacked forces *)
Theorem predict2_is_jacobian_times_params Kee Knn Kne n m fe fn :
  length fe = m -> length fn = m ->
  let r := predict2_loop (cols_of Kee n m) (cols_of Knn n m) (cols_of Kne n m) fe fn (zeros n) (zeros n) in
  let Jf := mv (jac2_of Kee Knn Kne n m) (fe ++ fn) in
  length (fst r) = n /\ length (snd r) = n /\ length Jf = (2 * n)%nat /\
  forall i, (i < n)%nat ->
    nth i (fst r) 0 == nth i Jf 0 /\ nth i (snd r) 0 == nth (n + i) Jf 0.
Proof.
  intros Lfe Lfn r Jf.
  assert (Z: length (zeros n) = n) by (unfold zeros; apply repeat_length).
  assert (LJ: length Jf = (2 * n)%nat).
  { unfold Jf, mv, jac2_of. rewrite map_length, app_length, !map_length, seq_length. lia. }
  assert (P: forall i, length (fst r) = n /\ length (snd r) = n /\
     nth i (fst r) 0 == nth i (zeros n) 0 + dot (map (fun c => nth i c 0) (cols_of Kee n m)) fe
                        + dot (map (fun c => nth i c 0) (cols_of Kne n m)) fn /\
     nth i (snd r) 0 == nth i (zeros n) 0 + dot (map (fun c => nth i c 0) (cols_of Kne n m)) fe
                        + dot (map (fun c => nth i c 0) (cols_of Knn n m)) fn).
  { intros i. pose proof (predict2_loop_spec (cols_of Kee n m) (cols_of Knn n m) (cols_of Kne n m) fe fn
      (zeros n) (zeros n) i) as H. rewrite !cols_of_length, Z in H.
    apply H; try assumption; try reflexivity; apply cols_of_same_len. }
  repeat split; try apply (P 0%nat); try exact LJ.
  - destruct (P i) as (_ & _ & A & _). rewrite A, zeros_nth, !cols_of_row by assumption.
    unfold Jf, mv, jac2_of. rewrite map_app, !map_map, app_nth1 by (rewrite map_length, seq_length; assumption).
    rewrite (nth_map_seq (fun x => dot (row_of Kee m x ++ row_of Kne m x) (fe ++ fn))) by assumption.
    rewrite dot_app by (rewrite row_of_length; lia). ring.
  - destruct (P i) as (_ & _ & _ & B). rewrite B, zeros_nth, !cols_of_row by assumption.
    unfold Jf, mv, jac2_of. rewrite map_app, !map_map.
    rewrite app_nth2 by (rewrite map_length, seq_length; lia).
    rewrite map_length, seq_length. replace (n + i - n)%nat with i by lia.
    rewrite (nth_map_seq (fun x => dot (row_of Kne m x ++ row_of Knn m x) (fe ++ fn))) by assumption.
    rewrite dot_app by (rewrite row_of_length; lia). ring.
Qed.

(** ** Trend: predictions are the polynomial with coef_ over the monomials *)
Theorem trend_predict_is_polynomial N coef east north :
  let pts := combine east north in
  length (trend_predict N coef east north) = length pts /\
  forall i, (i < length pts)%nat ->
    nth i (trend_predict N coef east north) 0 ==
    dot (trend_row N (fst (nth i pts (0, 0))) (snd (nth i pts (0, 0)))) coef.
Proof.
  intros pts. unfold trend_predict. fold pts.
  assert (F: Forall (fun c => length c = length (zeros (length pts))) (trend_cols N east north)).
  { unfold trend_cols. fold pts. apply Forall_forall. intros c Hc. apply in_map_iff in Hc as (x & <- & _).
    unfold zeros. rewrite map_length, repeat_length. reflexivity. }
  split.
  - rewrite predict_loop_length by exact F. unfold zeros. apply repeat_length.
  - intros i Hi. rewrite predict_loop_nth by exact F. rewrite zeros_nth.
    unfold trend_cols, trend_row. fold pts. rewrite map_map.
    rewrite (map_ext _ (monomial (fst (nth i pts (0, 0))) (snd (nth i pts (0, 0))))).
    + ring.
    + intros c. apply (nth_map_in (fun p => monomial (fst p) (snd p) c)). exact Hi.
Qed.

(** ... and equal Trend.jacobian times coef_ *)
Theorem trend_predict_is_jacobian_times_coef N coef east north i :
  (i < length (combine east north))%nat ->
  nth i (trend_predict N coef east north) 0 == nth i (mv (trend_jacobian N east north) coef) 0.
Proof.
  intros Hi. destruct (trend_predict_is_polynomial N coef east north) as [_ H].
  rewrite H by exact Hi. unfold mv, trend_jacobian. rewrite map_map.
  rewrite (nth_map_in (fun p => dot (trend_row N (fst p) (snd p)) coef) _ _ 0 (0, 0)) by exact Hi.
  reflexivity.
Qed.
