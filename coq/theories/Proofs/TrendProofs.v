(** C03 - proofs about Model/Trend.v: the accumulation loops are matrix-vector
    products; the monomial order.  Axiom-free (nat / Q / lists). *)
From Coq Require Import QArith ZArith List Bool Arith Lia Lqa Sorted Permutation.
From Verde Require Import Model.Trend.
Import ListNotations.
Open Scope Q_scope.

(** ** helpers *)
Lemma nth_map_seq {A} (g : nat -> A) n i d : (i < n)%nat -> nth i (map g (seq 0 n)) d = g i.
Proof.
  intros H. rewrite (nth_indep _ d (g 0%nat)) by (rewrite map_length, seq_length; exact H).
  rewrite map_nth, seq_nth by exact H. reflexivity.
Qed.

Lemma nth_map_in {A B} (g : A -> B) l i d d' : (i < length l)%nat -> nth i (map g l) d = g (nth i l d').
Proof.
  intros H. rewrite (nth_indep _ d (g d')) by (rewrite map_length; exact H). apply map_nth.
Qed.

Lemma dot_nil_r u : dot u [] = 0.
Proof. destruct u; reflexivity. Qed.

Lemma dot_app a b c d : length a = length c -> dot (a ++ b) (c ++ d) == dot a c + dot b d.
Proof.
  revert c. induction a as [|x a IH]; intros [|y c] H; try discriminate; cbn [app dot].
  - ring.
  - rewrite IH by (cbn in H; lia). ring.
Qed.

(** ** scalar loop *)
Lemma axpy_length acc col c : length col = length acc -> length (axpy acc col c) = length acc.
Proof.
  revert col. induction acc as [|a acc IH]; intros [|g col] H; try discriminate; cbn [axpy length].
  - reflexivity.
  - rewrite IH by (cbn in H; lia). reflexivity.
Qed.

Lemma axpy_nth acc col c i : length col = length acc ->
  nth i (axpy acc col c) 0 == nth i acc 0 + nth i col 0 * c.
Proof.
  revert col i. induction acc as [|a acc IH]; intros [|g col] i H; try discriminate.
  - destruct i; cbn; ring.
  - destruct i; cbn [axpy nth]; [reflexivity|]. apply IH. cbn in H; lia.
Qed.

Lemma predict_loop_length cols forces acc :
  Forall (fun c => length c = length acc) cols -> length (predict_loop cols forces acc) = length acc.
Proof.
  revert forces acc. induction cols as [|c cs IH]; intros forces acc H; [reflexivity|].
  destruct forces as [|f fs]; [reflexivity|]. cbn [predict_loop].
  inversion H as [|? ? Hc Hcs]; subst.
  rewrite IH; [apply axpy_length; exact Hc|].
  rewrite axpy_length by exact Hc. exact Hcs.
Qed.

(** for ANY list of columns: entry i of the accumulated array is the initial value
    plus the dot product of row i with the parameters *)
Lemma predict_loop_nth cols forces acc i :
  Forall (fun c => length c = length acc) cols ->
  nth i (predict_loop cols forces acc) 0 == nth i acc 0 + dot (map (fun c => nth i c 0) cols) forces.
Proof.
  revert forces acc. induction cols as [|c cs IH]; intros forces acc H.
  - cbn. ring.
  - destruct forces as [|f fs].
    + cbn [predict_loop]. rewrite dot_nil_r. ring.
    + cbn [predict_loop map dot]. inversion H as [|? ? Hc Hcs]; subst.
      rewrite IH by (rewrite axpy_length by exact Hc; exact Hcs).
      rewrite axpy_nth by exact Hc. ring.
Qed.

Lemma cols_of_lengths K n m : Forall (fun c => length c = length (zeros n)) (cols_of K n m).
Proof.
  unfold cols_of, zeros. apply Forall_forall. intros c Hc. apply in_map_iff in Hc as (j & <- & _).
  unfold col_of. rewrite map_length, seq_length, repeat_length. reflexivity.
Qed.

Lemma cols_of_row K n m i : (i < n)%nat -> map (fun c => nth i c 0) (cols_of K n m) = row_of K m i.
Proof.
  intros H. unfold cols_of, row_of. rewrite map_map. apply map_ext. intros j.
  unfold col_of. apply (nth_map_seq (fun x => K x j)). exact H.
Qed.

Lemma zeros_nth n i : nth i (zeros n) 0 = 0.
Proof. unfold zeros. apply nth_repeat. Qed.

Lemma mv_jac_nth K n m f i : (i < n)%nat -> nth i (mv (jac_of K n m) f) 0 = dot (row_of K m i) f.
Proof.
  intros H. unfold mv, jac_of. rewrite map_map. apply (nth_map_seq (fun x => dot (row_of K m x) f)). exact H.
Qed.

(** predict = jacobian x parameters, for any kernel table K (n data points, m forces) *)
Theorem predict_is_jacobian_times_params K n m f :
  length (predict_loop (cols_of K n m) f (zeros n)) = n /\
  forall i, (i < n)%nat ->
    nth i (predict_loop (cols_of K n m) f (zeros n)) 0 == nth i (mv (jac_of K n m) f) 0.
Proof.
  split.
  - rewrite predict_loop_length by apply cols_of_lengths. unfold zeros. apply repeat_length.
  - intros i H. rewrite predict_loop_nth by apply cols_of_lengths.
    rewrite zeros_nth, cols_of_row, mv_jac_nth by exact H. ring.
Qed.

(** ** two-component loop *)
Lemma axpy2_length acc c1 c2 f1 f2 : length c1 = length acc -> length c2 = length acc ->
  length (axpy2 acc c1 c2 f1 f2) = length acc.
Proof.
  revert c1 c2. induction acc as [|a acc IH]; intros [|g1 c1] [|g2 c2] H1 H2; try discriminate; cbn [axpy2 length].
  - reflexivity.
  - rewrite IH by (cbn in H1, H2; lia). reflexivity.
Qed.

Lemma axpy2_nth acc c1 c2 f1 f2 i : length c1 = length acc -> length c2 = length acc ->
  nth i (axpy2 acc c1 c2 f1 f2) 0 == nth i acc 0 + (nth i c1 0 * f1 + nth i c2 0 * f2).
Proof.
  revert c1 c2 i. induction acc as [|a acc IH]; intros [|g1 c1] [|g2 c2] i H1 H2; try discriminate.
  - destruct i; cbn; ring.
  - destruct i; cbn [axpy2 nth]; [reflexivity|]. apply IH; cbn in H1, H2; lia.
Qed.

Definition same_len (n : nat) (cols : list (list Q)) : Prop := Forall (fun c => length c = n) cols.

Lemma predict2_loop_spec cee cnn cne fe fn ve vn i :
  length cnn = length cee -> length cne = length cee -> length fe = length cee -> length fn = length cee ->
  length vn = length ve ->
  same_len (length ve) cee -> same_len (length ve) cnn -> same_len (length ve) cne ->
  let r := predict2_loop cee cnn cne fe fn ve vn in
  length (fst r) = length ve /\ length (snd r) = length ve /\
  nth i (fst r) 0 == nth i ve 0 + dot (map (fun c => nth i c 0) cee) fe + dot (map (fun c => nth i c 0) cne) fn /\
  nth i (snd r) 0 == nth i vn 0 + dot (map (fun c => nth i c 0) cne) fe + dot (map (fun c => nth i c 0) cnn) fn.
Proof.
  revert cnn cne fe fn ve vn.
  induction cee as [|a cee IH]; intros [|b cnn] [|c cne] [|f1 fe] [|f2 fn] ve vn L1 L2 L3 L4 Lv S1 S2 S3;
    try discriminate.
  - cbn [predict2_loop fst snd map dot]. repeat split; try reflexivity; try exact Lv; ring.
  - cbn [predict2_loop]. cbn in L1, L2, L3, L4.
    inversion S1 as [|? ? Ha Sa]; inversion S2 as [|? ? Hb Sb]; inversion S3 as [|? ? Hc Sc]; subst.
    assert (E1: length (axpy2 ve a c f1 f2) = length ve) by (apply axpy2_length; assumption).
    assert (E2: length (axpy2 vn c b f1 f2) = length ve) by (rewrite axpy2_length; lia).
    specialize (IH cnn cne fe fn (axpy2 ve a c f1 f2) (axpy2 vn c b f1 f2)).
    rewrite E1 in IH. specialize (IH ltac:(lia) ltac:(lia) ltac:(lia) ltac:(lia) E2 Sa Sb Sc).
    cbn zeta in IH. destruct IH as (I1 & I2 & I3 & I4).
    cbn zeta. repeat split; try assumption.
    + rewrite I3. rewrite axpy2_nth by assumption. cbn [map dot]. ring.
    + rewrite I4. rewrite axpy2_nth by lia. cbn [map dot]. ring.
Qed.

Lemma cols_of_same_len K n m : same_len n (cols_of K n m).
Proof.
  unfold same_len, cols_of. apply Forall_forall. intros c Hc. apply in_map_iff in Hc as (j & <- & _).
  unfold col_of. rewrite map_length, seq_length. reflexivity.
Qed.

Lemma cols_of_length K n m : length (cols_of K n m) = m.
Proof. unfold cols_of. rewrite map_length, seq_length. reflexivity. Qed.

Lemma row_of_length K m i : length (row_of K m i) = m.
Proof. unfold row_of. rewrite map_length, seq_length. reflexivity. Qed.

(** the two prediction components stacked (east on top of north) are the block
    Jacobian times the stacked forces *)
Theorem predict2_is_jacobian_times_params Kee Knn Kne n m fe fn :
  length fe = m -> length fn = m ->
  let r := predict2_loop (cols_of Kee n m) (cols_of Knn n m) (cols_of Kne n m) fe fn (zeros n) (zeros n) in
  let Jf := mv (jac2_of Kee Knn Kne n m) (fe ++ fn) in
  length (fst r) = n /\ length (snd r) = n /\ length Jf = (2 * n)%nat /\
  forall i, (i < n)%nat ->
    nth i (fst r) 0 == nth i Jf 0 /\ nth i (snd r) 0 == nth (n + i) Jf 0.
Proof.
  intros Lfe Lfn r Jf.
  assert (Z: length (zeros n) = n) by (unfold zeros; apply repeat_length).
  assert (LJ: length Jf = (2 * n)%nat).
  { unfold Jf, mv, jac2_of. rewrite map_length, app_length, !map_length, seq_length. lia. }
  assert (P: forall i, length (fst r) = n /\ length (snd r) = n /\
     nth i (fst r) 0 == nth i (zeros n) 0 + dot (map (fun c => nth i c 0) (cols_of Kee n m)) fe
                        + dot (map (fun c => nth i c 0) (cols_of Kne n m)) fn /\
     nth i (snd r) 0 == nth i (zeros n) 0 + dot (map (fun c => nth i c 0) (cols_of Kne n m)) fe
                        + dot (map (fun c => nth i c 0) (cols_of Knn n m)) fn).
  { intros i. pose proof (predict2_loop_spec (cols_of Kee n m) (cols_of Knn n m) (cols_of Kne n m) fe fn
      (zeros n) (zeros n) i) as H. rewrite !cols_of_length, Z in H.
    apply H; try assumption; try reflexivity; apply cols_of_same_len. }
  repeat split; try apply (P 0%nat); try exact LJ.
  - destruct (P i) as (_ & _ & A & _). rewrite A, zeros_nth, !cols_of_row by assumption.
    unfold Jf, mv, jac2_of. rewrite map_app, !map_map, app_nth1 by (rewrite map_length, seq_length; assumption).
    rewrite (nth_map_seq (fun x => dot (row_of Kee m x ++ row_of Kne m x) (fe ++ fn))) by assumption.
    rewrite dot_app by (rewrite row_of_length; lia). ring.
  - destruct (P i) as (_ & _ & _ & B). rewrite B, zeros_nth, !cols_of_row by assumption.
    unfold Jf, mv, jac2_of. rewrite map_app, !map_map.
    rewrite app_nth2 by (rewrite map_length, seq_length; lia).
    rewrite map_length, seq_length. replace (n + i - n)%nat with i by lia.
    rewrite (nth_map_seq (fun x => dot (row_of Kne m x ++ row_of Knn m x) (fe ++ fn))) by assumption.
    rewrite dot_app by (rewrite row_of_length; lia). ring.
Qed.

(** ** Trend: predictions are the polynomial with coef_ over the monomials *)
Theorem trend_predict_is_polynomial N coef east north :
  let pts := combine east north in
  length (trend_predict N coef east north) = length pts /\
  forall i, (i < length pts)%nat ->
    nth i (trend_predict N coef east north) 0 ==
    dot (trend_row N (fst (nth i pts (0, 0))) (snd (nth i pts (0, 0)))) coef.
Proof.
  intros pts. unfold trend_predict. fold pts.
  assert (F: Forall (fun c => length c = length (zeros (length pts))) (trend_cols N east north)).
  { unfold trend_cols. fold pts. apply Forall_forall. intros c Hc. apply in_map_iff in Hc as (x & <- & _).
    unfold zeros. rewrite map_length, repeat_length. reflexivity. }
  split.
  - rewrite predict_loop_length by exact F. unfold zeros. apply repeat_length.
  - intros i Hi. rewrite predict_loop_nth by exact F. rewrite zeros_nth.
    unfold trend_cols, trend_row. fold pts. rewrite map_map.
    rewrite (map_ext _ (monomial (fst (nth i pts (0, 0))) (snd (nth i pts (0, 0))))).
    + ring.
    + intros c. apply (nth_map_in (fun p => monomial (fst p) (snd p) c)). exact Hi.
Qed.

(** ... and equal Trend.jacobian times coef_ *)
Theorem trend_predict_is_jacobian_times_coef N coef east north i :
  (i < length (combine east north))%nat ->
  nth i (trend_predict N coef east north) 0 == nth i (mv (trend_jacobian N east north) coef) 0.
Proof.
  intros Hi. destruct (trend_predict_is_polynomial N coef east north) as [_ H].
  rewrite H by exact Hi. unfold mv, trend_jacobian. rewrite map_map.
  rewrite (nth_map_in (fun p => dot (trend_row N (fst p) (snd p)) coef) _ _ 0 (0, 0)) by exact Hi.
  reflexivity.
Qed.

(** ** the monomial order *)
Close Scope Q_scope.
Open Scope nat_scope.

Lemma insert_by_perm {A} (k : A -> nat) x l : Permutation (insert_by k x l) (x :: l).
Proof.
  induction l as [|y t IH]; cbn [insert_by]; [reflexivity|].
  destruct (k x <=? k y); [reflexivity|].
  rewrite IH. apply perm_swap.
Qed.

Lemma stable_sort_perm {A} (k : A -> nat) l : Permutation (stable_sort k l) l.
Proof.
  induction l as [|x t IH]; cbn [stable_sort]; [reflexivity|].
  rewrite insert_by_perm. apply perm_skip, IH.
Qed.

Definition key_le {A} (k : A -> nat) (x y : A) : Prop := k x <= k y.

Lemma insert_by_sorted {A} (k : A -> nat) x l :
  StronglySorted (key_le k) l -> StronglySorted (key_le k) (insert_by k x l).
Proof.
  induction l as [|y t IH]; intros H; cbn [insert_by].
  - constructor; constructor.
  - apply StronglySorted_inv in H as [Ht Hy].
    destruct (k x <=? k y) eqn:E.
    + apply Nat.leb_le in E. constructor; [constructor; assumption|].
      constructor; [exact E|]. eapply Forall_impl; [|exact Hy]. unfold key_le. intros; lia.
    + apply Nat.leb_gt in E. constructor; [apply IH; exact Ht|].
      eapply Permutation_Forall; [symmetry; apply insert_by_perm|].
      constructor; [unfold key_le; lia|exact Hy].
Qed.

Lemma stable_sort_sorted {A} (k : A -> nat) l : StronglySorted (key_le k) (stable_sort k l).
Proof.
  induction l as [|x t IH]; cbn [stable_sort]; [constructor|]. apply insert_by_sorted, IH.
Qed.

(** stability: elements with equal keys keep their relative order *)
Lemma insert_by_filter {A} (k : A -> nat) d x l :
  filter (fun y => k y =? d) (insert_by k x l) =
  if k x =? d then x :: filter (fun y => k y =? d) l else filter (fun y => k y =? d) l.
Proof.
  induction l as [|y t IH]; cbn [insert_by filter].
  - reflexivity.
  - destruct (k x <=? k y) eqn:E; cbn [filter].
    + reflexivity.
    + apply Nat.leb_gt in E. rewrite IH.
      destruct (k x =? d) eqn:Ex; [|reflexivity].
      apply Nat.eqb_eq in Ex.
      assert (Ey: (k y =? d) = false) by (apply Nat.eqb_neq; lia).
      rewrite Ey. reflexivity.
Qed.

Lemma stable_sort_stable {A} (k : A -> nat) d l :
  filter (fun y => k y =? d) (stable_sort k l) = filter (fun y => k y =? d) l.
Proof.
  induction l as [|x t IH]; cbn [stable_sort]; [reflexivity|].
  rewrite insert_by_filter, IH. cbn [filter]. reflexivity.
Qed.

(** *** the generator *)
Lemma in_gen_combos N i j : In (i, j) (gen_combos N) <-> i + j <= N.
Proof.
  unfold gen_combos. rewrite in_flat_map. split.
  - intros (j' & Hj & Hi). apply in_seq in Hj. apply in_map_iff in Hi as (i' & E & Hi).
    apply in_seq in Hi. injection E as -> ->. lia.
  - intros H. exists j. split; [apply in_seq; lia|].
    apply in_map_iff. exists i. split; [reflexivity|apply in_seq; lia].
Qed.

Lemma NoDup_app_intro {A} (l1 l2 : list A) :
  NoDup l1 -> NoDup l2 -> (forall x, In x l1 -> ~ In x l2) -> NoDup (l1 ++ l2).
Proof.
  induction l1 as [|x t IH]; intros H1 H2 D; cbn [app]; [exact H2|].
  inversion H1 as [|? ? Hx Ht]; subst. constructor.
  - rewrite in_app_iff. intros [I|I]; [exact (Hx I)|]. exact (D x (or_introl eq_refl) I).
  - apply IH; try assumption. intros y Hy. apply D. right. exact Hy.
Qed.

Lemma NoDup_pairs (f : nat -> nat) js :
  NoDup js -> NoDup (flat_map (fun j => map (fun i => (i, j)) (seq 0 (f j))) js).
Proof.
  induction js as [|j t IH]; intros H; cbn [flat_map]; [constructor|].
  inversion H as [|? ? Hj Ht]; subst. apply NoDup_app_intro.
  - apply FinFun.Injective_map_NoDup; [|apply seq_NoDup]. intros a b E. injection E as ->. reflexivity.
  - apply IH, Ht.
  - intros [a b] Ha Hb. apply in_map_iff in Ha as (i & E & _). injection E as -> ->.
    apply in_flat_map in Hb as (j' & Hj' & Hb). apply in_map_iff in Hb as (i' & E & _).
    injection E as -> ->. exact (Hj Hj').
Qed.

Lemma gen_combos_NoDup N : NoDup (gen_combos N).
Proof. unfold gen_combos. apply (NoDup_pairs (fun j => N + 1 - j)), seq_NoDup. Qed.

Lemma gen_combos_length_aux N a k : a + k = N + 1 ->
  2 * length (flat_map (fun j => map (fun i => (i, j)) (seq 0 (N + 1 - j))) (seq a k)) = k * (k + 1).
Proof.
  revert a. induction k as [|k IH]; intros a H; [reflexivity|].
  cbn [seq flat_map]. rewrite app_length, map_length, seq_length.
  specialize (IH (S a) ltac:(lia)). nia.
Qed.

(** *** polynomial_power_combinations *)

(** (N+1)(N+2)/2 coefficients, for every degree *)
Theorem combos_length N : 2 * length (power_combinations N) = (N + 1) * (N + 2).
Proof.
  unfold power_combinations. rewrite (Permutation_length (stable_sort_perm deg (gen_combos N))).
  unfold gen_combos. rewrite (gen_combos_length_aux N 0 (N + 1)) by lia. lia.
Qed.

(** (i, j) occurs iff i + j <= N, and exactly once *)
Theorem combos_complete N :
  NoDup (power_combinations N) /\ forall i j, In (i, j) (power_combinations N) <-> i + j <= N.
Proof.
  split.
  - eapply Permutation_NoDup; [symmetry; apply stable_sort_perm|apply gen_combos_NoDup].
  - intros i j. rewrite <- in_gen_combos. split; apply Permutation_in;
      [apply stable_sort_perm|symmetry; apply stable_sort_perm].
Qed.

(** total degree non-decreasing along the list *)
Theorem combos_sorted N : StronglySorted (fun a b => deg a <= deg b) (power_combinations N).
Proof. apply (stable_sort_sorted deg). Qed.

(** *** order within a degree: (d, 0), (d-1, 1), ..., (0, d) *)
Lemma filter_eq_seq c a n : filter (fun i => i =? c) (seq a n) = if (a <=? c) && (c <? a + n) then [c] else [].
Proof.
  revert a. induction n as [|n IH]; intros a; cbn [seq filter].
  - destruct ((a <=? c) && (c <? a + 0)) eqn:E; [|reflexivity].
    apply andb_true_iff in E as [E1 E2]. apply Nat.leb_le in E1. apply Nat.ltb_lt in E2. lia.
  - rewrite IH. destruct (a =? c) eqn:E.
    + apply Nat.eqb_eq in E. subst a.
      replace ((S c <=? c) && (c <? S c + n)) with false
        by (symmetry; apply andb_false_iff; left; apply Nat.leb_gt; lia).
      replace ((c <=? c) && (c <? c + S n)) with true
        by (symmetry; apply andb_true_iff; split; [apply Nat.leb_le|apply Nat.ltb_lt]; lia).
      reflexivity.
    + apply Nat.eqb_neq in E.
      assert (X: (S a <=? c) && (c <? S a + n) = (a <=? c) && (c <? a + S n)).
      { apply eq_true_iff_eq. rewrite !andb_true_iff, !Nat.leb_le, !Nat.ltb_lt. lia. }
      rewrite X. reflexivity.
Qed.

Lemma filter_flat_map {A B} (p : B -> bool) (f : A -> list B) l :
  filter p (flat_map f l) = flat_map (fun x => filter p (f x)) l.
Proof.
  induction l as [|x t IH]; cbn [flat_map]; [reflexivity|]. rewrite filter_app, IH. reflexivity.
Qed.

Lemma filter_map_comm {A B} (p : B -> bool) (f : A -> B) l : filter p (map f l) = map f (filter (fun x => p (f x)) l).
Proof.
  induction l as [|x t IH]; cbn [map filter]; [reflexivity|]. rewrite IH. destruct (p (f x)); reflexivity.
Qed.

Lemma flat_map_singletons {A} (g : nat -> A) (p : nat -> bool) a n d :
  (forall j, a <= j < a + n -> p j = (j <=? d)) ->
  flat_map (fun j => if p j then [g j] else []) (seq a n) = map g (seq a (Nat.min n (d + 1 - a))).
Proof.
  revert a. induction n as [|n IH]; intros a Hp; [reflexivity|].
  cbn [seq flat_map]. rewrite (Hp a) by lia.
  destruct (a <=? d) eqn:E.
  - apply Nat.leb_le in E. rewrite IH by (intros; apply Hp; lia).
    replace (Nat.min (S n) (d + 1 - a)) with (S (Nat.min n (d + 1 - S a))) by lia. reflexivity.
  - apply Nat.leb_gt in E. replace (d + 1 - a) with 0 by lia. rewrite Nat.min_0_r. cbn [seq map app].
    rewrite IH by (intros; apply Hp; lia). replace (d + 1 - S a) with 0 by lia. rewrite Nat.min_0_r. reflexivity.
Qed.

Lemma filter_none {A} (l : list A) : filter (fun _ => false) l = [].
Proof. induction l; [reflexivity|exact IHl]. Qed.

Lemma gen_combos_degree N d : d <= N ->
  filter (fun c => deg c =? d) (gen_combos N) = map (fun j => (d - j, j)) (seq 0 (d + 1)).
Proof.
  intros H. unfold gen_combos. rewrite filter_flat_map.
  rewrite (flat_map_ext _ (fun j => if j <=? d then [(d - j, j)] else [])).
  - rewrite (flat_map_singletons (fun j => (d - j, j)) (fun j => j <=? d) 0 (N + 1) d) by (intros; reflexivity).
    replace (Nat.min (N + 1) (d + 1 - 0)) with (d + 1) by lia. reflexivity.
  - intros j. rewrite filter_map_comm. unfold deg; cbn [fst snd].
    destruct (j <=? d) eqn:E.
    + apply Nat.leb_le in E.
      rewrite (filter_ext _ (fun i => i =? d - j)).
      * rewrite filter_eq_seq.
        assert (E1: (0 <=? d - j) = true) by (apply Nat.leb_le; lia).
        assert (E2: (d - j <? 0 + (N + 1 - j)) = true) by (apply Nat.ltb_lt; lia).
        rewrite E1, E2. reflexivity.
      * intros i. destruct (i + j =? d) eqn:X; destruct (i =? d - j) eqn:Y; try reflexivity;
          try apply Nat.eqb_eq in X; try apply Nat.eqb_neq in X; try apply Nat.eqb_eq in Y; try apply Nat.eqb_neq in Y; lia.
    + apply Nat.leb_gt in E.
      rewrite (filter_ext _ (fun _ => false)).
      * rewrite filter_none. reflexivity.
      * intros i. apply Nat.eqb_neq. lia.
Qed.

(** order within a degree, as Python's stable sort leaves the generator's order *)
Theorem combos_within_degree N d : d <= N ->
  filter (fun c => deg c =? d) (power_combinations N) = map (fun j => (d - j, j)) (seq 0 (d + 1)).
Proof.
  intros H. unfold power_combinations. rewrite stable_sort_stable. apply gen_combos_degree. exact H.
Qed.

(** *** closed form: a list sorted by key is the concatenation of its key classes *)
Lemma filter_key_none {A} (k : A -> nat) d l :
  Forall (fun y => d < k y) l -> filter (fun y => k y =? d) l = [].
Proof.
  induction 1 as [|x t Hx Ht IH]; cbn [filter]; [reflexivity|].
  replace (k x =? d) with false by (symmetry; apply Nat.eqb_neq; lia). exact IH.
Qed.

Lemma flat_filter_cons {A} (k : A -> nat) x t cnt : forall lo,
  lo <= k x < lo + cnt -> Forall (fun y => k x <= k y) t ->
  flat_map (fun d => filter (fun y => k y =? d) (x :: t)) (seq lo cnt) =
  x :: flat_map (fun d => filter (fun y => k y =? d) t) (seq lo cnt).
Proof.
  induction cnt as [|c IH]; intros lo H F; [lia|].
  cbn [seq flat_map filter]. destruct (k x =? lo) eqn:E.
  - apply Nat.eqb_eq in E. cbn [app]. f_equal. f_equal.
    rewrite !flat_map_concat_map. f_equal. apply map_ext_in. intros d Hd. apply in_seq in Hd.
    cbn [filter]. replace (k x =? d) with false by (symmetry; apply Nat.eqb_neq; lia). reflexivity.
  - apply Nat.eqb_neq in E.
    rewrite (filter_key_none k lo t) by (eapply Forall_impl; [|exact F]; cbn; intros; lia).
    cbn [app]. apply IH; [lia|exact F].
Qed.

Lemma sorted_partition {A} (k : A -> nat) l lo cnt :
  StronglySorted (key_le k) l -> Forall (fun x => lo <= k x < lo + cnt) l ->
  flat_map (fun d => filter (fun y => k y =? d) l) (seq lo cnt) = l.
Proof.
  induction l as [|x t IH]; intros S F.
  - induction (seq lo cnt) as [|d ds IHd]; [reflexivity|exact IHd].
  - apply StronglySorted_inv in S as [St Hx]. inversion F as [|? ? Fx Ft]; subst.
    rewrite flat_filter_cons by assumption. f_equal. apply IH; assumption.
Qed.

(** polynomial_power_combinations(N) is exactly the documented list, for every degree N *)
Theorem combos_closed_form N : power_combinations N = by_degree N.
Proof.
  rewrite <- (sorted_partition deg (power_combinations N) 0 (N + 1)).
  - unfold by_degree. rewrite !flat_map_concat_map. f_equal. apply map_ext_in. intros d Hd.
    apply in_seq in Hd. apply combos_within_degree. lia.
  - apply (stable_sort_sorted deg).
  - apply Forall_forall. intros [i j] Hin. apply (proj2 (combos_complete N)) in Hin.
    unfold deg; cbn [fst snd]. lia.
Qed.

Example combos_doc_example :
  power_combinations 3 = [(0, 0); (1, 0); (0, 1); (2, 0); (1, 1); (0, 2); (3, 0); (2, 1); (1, 2); (0, 3)].
Proof. reflexivity. Qed.
