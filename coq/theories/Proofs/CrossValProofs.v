(** Proofs about the model of verde's blocked cross-validators (C11). *)
From Coq Require Import Arith List Bool ZArith QArith Qround Qabs Lia Permutation Sorted.
From Verde Require Import Lib.Verdict Lib.Dyadic Model.CrossVal.
Import ListNotations.
Close Scope Q_scope.
Open Scope nat_scope.

(** * A. generic list facts *)

Lemma memb_In x l : memb x l = true <-> In x l.
Proof.
  unfold memb. rewrite existsb_exists. split.
  - intros [y [Hy E]]. apply Nat.eqb_eq in E. subst. exact Hy.
  - intros H. exists x. split; [exact H|apply Nat.eqb_refl].
Qed.

Lemma memb_false x l : memb x l = false <-> ~ In x l.
Proof. rewrite <- memb_In. destruct (memb x l); split; intro H; congruence. Qed.

Lemma memb_app x l1 l2 : memb x (l1 ++ l2) = memb x l1 || memb x l2.
Proof. unfold memb. apply existsb_app. Qed.

Lemma nodupb_NoDup l : nodupb l = true <-> NoDup l.
Proof.
  induction l as [|x t IH]; cbn.
  - split; [constructor|reflexivity].
  - rewrite andb_true_iff, negb_true_iff, memb_false, IH. split.
    + intros [H1 H2]. constructor; assumption.
    + intros H. inversion H; subst. split; assumption.
Qed.

Lemma NoDup_app_intro {A} (l1 l2 : list A) :
  NoDup l1 -> NoDup l2 -> (forall x, In x l1 -> ~ In x l2) -> NoDup (l1 ++ l2).
Proof.
  induction l1 as [|x t IH]; cbn; intros H1 H2 Hd; [exact H2|].
  inversion H1; subst. constructor.
  - rewrite in_app_iff. intros [Hi|Hi]; [contradiction|]. apply (Hd x); [left; reflexivity|exact Hi].
  - apply IH; [assumption|assumption|]. intros y Hy. apply Hd. right. exact Hy.
Qed.

Lemma NoDup_app_inv {A} (l1 l2 : list A) :
  NoDup (l1 ++ l2) -> NoDup l1 /\ NoDup l2 /\ (forall x, In x l1 -> ~ In x l2).
Proof.
  induction l1 as [|x t IH]; cbn; intros H.
  - repeat split; [constructor|exact H|intros ? []].
  - inversion H; subst. destruct (IH H3) as [Ha [Hb Hc]]. rewrite in_app_iff in H2.
    repeat split.
    + constructor; [tauto|exact Ha].
    + exact Hb.
    + intros y [<-|Hy]; [tauto|apply Hc; exact Hy].
Qed.

Lemma filter_neg_perm {A} (f : A -> bool) l :
  Permutation (filter (fun x => negb (f x)) l ++ filter f l) l.
Proof.
  induction l as [|x t IH]; cbn; [constructor|].
  destruct (f x); cbn.
  - apply Permutation_sym, Permutation_cons_app, Permutation_sym, IH.
  - constructor. exact IH.
Qed.

Lemma filter_or_perm {A} (f g : A -> bool) l :
  (forall x, In x l -> f x && g x = false) ->
  Permutation (filter (fun x => f x || g x) l) (filter f l ++ filter g l).
Proof.
  induction l as [|x t IH]; cbn; intros Hd; [constructor|].
  assert (Hx := Hd x (or_introl eq_refl)).
  assert (IH' := IH (fun y Hy => Hd y (or_intror Hy))).
  destruct (f x), (g x); cbn in *; try discriminate.
  - constructor. exact IH'.
  - apply Permutation_cons_app. exact IH'.
  - exact IH'.
Qed.

Lemma filter_all {A} (f : A -> bool) l : (forall x, In x l -> f x = true) -> filter f l = l.
Proof.
  induction l as [|x t IH]; cbn; intros H; [reflexivity|].
  rewrite (H x (or_introl eq_refl)). f_equal. apply IH. intros y Hy. apply H. right. exact Hy.
Qed.

Lemma list_sum_app_ l1 l2 : list_sum (l1 ++ l2) = list_sum l1 + list_sum l2.
Proof. apply list_sum_app. Qed.

Lemma list_sum_firstn_skipn k l : list_sum (firstn k l) + list_sum (skipn k l) = list_sum l.
Proof. rewrite <- list_sum_app. rewrite firstn_skipn. reflexivity. Qed.

Lemma map_nth_seq (l : list nat) : map (fun b => nth b l 0) (seq 0 (length l)) = l.
Proof.
  induction l as [|x t IH]; cbn; [reflexivity|]. f_equal.
  rewrite <- seq_shift, map_map. exact IH.
Qed.

Lemma le_list_max x l : In x l -> x <= list_max l.
Proof.
  intros H. assert (Hm := proj1 (list_max_le l (list_max l)) (le_n _)).
  rewrite Forall_forall in Hm. apply Hm. exact H.
Qed.

(** * B. np.unique *)

Lemma insert_u_In a x l : In a (insert_u x l) <-> a = x \/ In a l.
Proof.
  induction l as [|y t IH]; cbn [insert_u].
  - cbn. intuition.
  - destruct (x <? y) eqn:E1; [cbn; intuition|].
    destruct (x =? y) eqn:E2.
    + apply Nat.eqb_eq in E2. subst. cbn. intuition.
    + cbn [In]. rewrite IH. cbn. intuition.
Qed.

Lemma insert_u_sorted x l : StronglySorted lt l -> StronglySorted lt (insert_u x l).
Proof.
  induction l as [|y t IH]; cbn [insert_u]; intros H.
  - constructor; constructor.
  - inversion H; subst.
    destruct (x <? y) eqn:E1.
    + apply Nat.ltb_lt in E1. constructor; [exact H|].
      constructor; [exact E1|]. rewrite Forall_forall in *. intros z Hz. specialize (H3 z Hz). lia.
    + destruct (x =? y) eqn:E2; [exact H|].
      apply Nat.ltb_ge in E1. apply Nat.eqb_neq in E2.
      constructor; [apply IH; exact H2|].
      rewrite Forall_forall in *. intros z Hz. apply insert_u_In in Hz as [->|Hz]; [lia|apply H3; exact Hz].
Qed.

Lemma usort_sorted l : StronglySorted lt (usort l).
Proof. induction l as [|x t IH]; cbn; [constructor|apply insert_u_sorted, IH]. Qed.

Lemma sorted_lt_NoDup l : StronglySorted lt l -> NoDup l.
Proof.
  induction 1 as [|x t Hs IH Hf]; constructor; [|exact IH].
  intros Hi. rewrite Forall_forall in Hf. specialize (Hf x Hi). lia.
Qed.

Lemma usort_In x l : In x (usort l) <-> In x l.
Proof.
  induction l as [|y t IH]; cbn; [tauto|]. rewrite insert_u_In, IH. intuition congruence.
Qed.

Lemma usort_NoDup l : NoDup (usort l).
Proof. apply sorted_lt_NoDup, usort_sorted. Qed.

(** * C. cumsum, searchsorted, partition_by_sum *)

Lemma cumsum_from_length acc l : length (cumsum_from acc l) = length l.
Proof. revert acc. induction l as [|x t IH]; cbn; intros; [reflexivity|f_equal; apply IH]. Qed.

Lemma ls_cons x t : list_sum (x :: t) = x + list_sum t.
Proof. reflexivity. Qed.

Lemma last_cons_default {A} (x d : A) l : last (x :: l) d = last l x.
Proof.
  revert x d. induction l as [|y t IH]; intros x d; [reflexivity|].
  change (last (x :: y :: t) d) with (last (y :: t) d). rewrite IH. symmetry. apply IH.
Qed.

Lemma last_cumsum_from acc l : last (cumsum_from acc l) acc = acc + list_sum l.
Proof.
  revert acc. induction l as [|x t IH]; intros acc; [cbn; lia|].
  cbn [cumsum_from]. rewrite last_cons_default, IH, ls_cons. lia.
Qed.

Lemma last_cumsum l : last (cumsum l) 0 = list_sum l.
Proof. unfold cumsum. rewrite last_cumsum_from. reflexivity. Qed.

(** the searchsorted result [i] on a cumulative sum: the first [i] entries
    sum to at most [v]; one more entry exceeds [v] *)
Lemma ss_spec l : forall acc v, acc <= v ->
  let i := searchsorted_right (cumsum_from acc l) v in
  i <= length l /\ acc + list_sum (firstn i l) <= v /\
  (i < length l -> v < acc + list_sum (firstn (S i) l)).
Proof.
  induction l as [|x t IH]; intros acc v Hacc; cbn [cumsum_from searchsorted_right].
  - cbn. lia.
  - destruct (acc + x <=? v) eqn:E.
    + apply Nat.leb_le in E. destruct (IH (acc + x) v E) as [H1 [H2 H3]].
      cbn zeta. rewrite !firstn_cons, !ls_cons. cbn [length]. split; [lia|]. split; [lia|].
      intros Hlt. lia.
    + apply Nat.leb_gt in E. cbn. lia.
Qed.

Lemma ss_mono a v v' : v <= v' -> searchsorted_right a v <= searchsorted_right a v'.
Proof.
  induction a as [|x t IH]; cbn; intros H; [lia|].
  destruct (x <=? v) eqn:E1.
  - apply Nat.leb_le in E1. assert (E2 : x <=? v' = true) by (apply Nat.leb_le; lia).
    rewrite E2. specialize (IH H). lia.
  - lia.
Qed.

(** partial sums *)
Definition psum (l : list nat) (i : nat) : nat := list_sum (firstn i l).

Lemma psum_le l i j : i <= j -> psum l i <= psum l j.
Proof.
  unfold psum. revert i j. induction l as [|x t IH]; intros i j H.
  - rewrite !firstn_nil. lia.
  - destruct i, j; rewrite ?firstn_cons, ?firstn_O, ?ls_cons; try (cbn; lia). specialize (IH i j). lia.
Qed.

Lemma psum_all l i : length l <= i -> psum l i = list_sum l.
Proof. intros H. unfold psum. rewrite firstn_all2 by exact H. reflexivity. Qed.

Lemma psum_S l i : i < length l -> psum l (S i) = psum l i + nth i l 0.
Proof.
  unfold psum. revert i. induction l as [|x t IH]; intros i H; cbn in H; [lia|].
  destruct i; rewrite ?firstn_cons, ?firstn_O, ?ls_cons; cbn [nth]; [cbn; lia|].
  rewrite (IH i) by lia. lia.
Qed.

(** sum of the slice l[a:b], truncated subtraction handles b < a *)
Lemma sum_slice l a b : list_sum (firstn (b - a) (skipn a l)) = psum l b - psum l a.
Proof.
  unfold psum. revert a b. induction l as [|x t IH]; intros a b.
  - rewrite skipn_nil, !firstn_nil. reflexivity.
  - destruct a.
    + rewrite Nat.sub_0_r. cbn [skipn]. rewrite firstn_O. cbn. lia.
    + destruct b.
      * cbn. lia.
      * cbn [skipn Nat.sub]. rewrite !firstn_cons, !ls_cons, IH. lia.
Qed.

Lemma sum_skipn l a : list_sum (skipn a l) = list_sum l - psum l a.
Proof. unfold psum. rewrite <- (list_sum_firstn_skipn a l). lia. Qed.

(** what a successful partition_by_sum looks like *)
Lemma pbs_inv array parts idx :
  partition_by_sum array parts = Some idx ->
  parts <= length array /\
  idx = map (searchsorted_right (cumsum array))
            (map (fun j => (j * list_sum array) / parts) (seq 1 (parts - 1))) /\
  NoDup idx /\ Forall (fun i => 0 < i /\ i <> length array) idx.
Proof.
  unfold partition_by_sum. rewrite last_cumsum.
  destruct (length array <? parts) eqn:E1; [discriminate|]. apply Nat.ltb_ge in E1.
  set (indices := map _ _).
  destruct (negb (nodupb indices) || existsb (Nat.eqb 0) indices || existsb (Nat.eqb (length array)) indices) eqn:E2;
    [discriminate|].
  intros H. injection H as <-.
  apply orb_false_iff in E2 as [E2 E4]. apply orb_false_iff in E2 as [E2 E3].
  apply negb_false_iff in E2. apply nodupb_NoDup in E2.
  repeat split; try assumption.
  rewrite Forall_forall. intros i Hi. split.
  - destruct (Nat.eq_dec i 0) as [->|]; [|lia]. exfalso.
    assert (existsb (Nat.eqb 0) indices = true) by (apply existsb_exists; exists 0; split; [exact Hi|reflexivity]).
    congruence.
  - intros ->.
    assert (existsb (Nat.eqb (length array)) indices = true)
      by (apply existsb_exists; exists (length array); split; [exact Hi|apply Nat.eqb_refl]).
    congruence.
Qed.

(** strictly increasing split points inside (a, len) *)
Fixpoint incr (a : nat) (idx : list nat) (len : nat) : Prop :=
  match idx with [] => a < len | b :: t => a < b /\ incr b t len end.

Lemma incr_lt a idx len : incr a idx len -> a < len.
Proof.
  revert a. induction idx as [|b t IH]; cbn; intros a H; [exact H|].
  destruct H as [H1 H2]. specialize (IH b H2). lia.
Qed.

Lemma incr_of_sorted idx : forall a len,
  StronglySorted lt idx -> Forall (fun i => a < i /\ i < len) idx -> a < len -> incr a idx len.
Proof.
  induction idx as [|b t IH]; cbn; intros a len Hs Hf Ha; [exact Ha|].
  inversion Hs; subst. inversion Hf; subst. split; [lia|].
  apply IH; [assumption| |lia].
  rewrite Forall_forall in *. intros i Hi. specialize (H2 i Hi). specialize (H4 i Hi). lia.
Qed.

Lemma sorted_le_NoDup_lt l : StronglySorted le l -> NoDup l -> StronglySorted lt l.
Proof.
  induction 1 as [|x t Hs IH Hf]; intros Hn; constructor.
  - apply IH. inversion Hn; assumption.
  - inversion Hn; subst. rewrite Forall_forall in *. intros y Hy. specialize (Hf y Hy).
    assert (x <> y) by (intros ->; contradiction). lia.
Qed.

Lemma sorted_map_mono (f : nat -> nat) l :
  (forall x y, x <= y -> f x <= f y) -> StronglySorted le l -> StronglySorted le (map f l).
Proof.
  intros Hf. induction 1 as [|x t Hs IH Hx]; cbn; constructor; [exact IH|].
  rewrite Forall_forall in *. intros y Hy. apply in_map_iff in Hy as [z [<- Hz]]. apply Hf, Hx, Hz.
Qed.

Lemma targets_sorted c k m : forall a, StronglySorted le (map (fun j => (j * c) / k) (seq a m)).
Proof.
  induction m as [|m IH]; intros a; cbn; constructor; [apply IH|].
  rewrite Forall_forall. intros y Hy. apply in_map_iff in Hy as [z [<- Hz]]. apply in_seq in Hz.
  destruct k as [|k]; [cbn; lia|]. apply Nat.div_le_mono; [lia|]. apply Nat.mul_le_mono_r. lia.
Qed.

(** structure of a successful partition: parts-1 strictly increasing split
    points, all strictly inside the array *)
Theorem pbs_structure array parts idx :
  partition_by_sum array parts = Some idx ->
  length idx = parts - 1 /\ StronglySorted lt idx /\
  Forall (fun i => 0 < i /\ i < length array) idx.
Proof.
  intros H. destruct (pbs_inv _ _ _ H) as [Hp [Hi [Hn Hf]]].
  split; [|split].
  - rewrite Hi, !map_length, seq_length. reflexivity.
  - apply sorted_le_NoDup_lt; [|exact Hn]. rewrite Hi.
    apply sorted_map_mono; [intros x y; apply ss_mono|apply targets_sorted].
  - rewrite Forall_forall in *. intros i Hin. destruct (Hf i Hin) as [H0 Hne]. split; [exact H0|].
    rewrite Hi in Hin. apply in_map_iff in Hin as [v [<- _]].
    assert (Hs := ss_spec array 0 v (Nat.le_0_l v)). cbn zeta in Hs. fold (cumsum array) in Hs.
    destruct Hs as [Hs _]. lia.
Qed.

Lemma skipn_add {A} a b (l : list A) : skipn b (skipn a l) = skipn (a + b) l.
Proof.
  revert l. induction a as [|a IH]; intros l; [reflexivity|].
  destruct l as [|x t]; [rewrite !skipn_nil; reflexivity|]. cbn [skipn Nat.add]. apply IH.
Qed.

Lemma slices_incr {A} (l : list A) idx : forall a, incr a idx (length l) ->
  length (slices l a idx) = S (length idx) /\
  concat (slices l a idx) = skipn a l /\
  Forall (fun p => p <> []) (slices l a idx).
Proof.
  induction idx as [|b t IH]; intros a H; cbn [slices incr] in *.
  - repeat split.
    + cbn. apply app_nil_r.
    + constructor; [|constructor]. intros E. apply (f_equal (@length A)) in E.
      rewrite skipn_length in E. cbn in E. lia.
  - destruct H as [Hab Hb]. destruct (IH b Hb) as [H1 [H2 H3]]. assert (Hbl := incr_lt _ _ _ Hb).
    repeat split.
    + cbn [length]. rewrite H1. reflexivity.
    + cbn [concat]. rewrite H2.
      replace (skipn b l) with (skipn (b - a) (skipn a l)).
      * apply firstn_skipn.
      * rewrite skipn_add. f_equal. lia.
    + constructor; [|exact H3]. intros E. apply (f_equal (@length A)) in E.
      rewrite firstn_length, skipn_length in E. cbn in E. lia.
Qed.

(** the parts of a successful partition: exactly [parts] of them, none
    empty, concatenating to the array *)
Theorem pbs_parts array parts idx :
  partition_by_sum array parts = Some idx -> 1 <= parts ->
  let ps := np_split array idx in
  length ps = parts /\ concat ps = array /\ Forall (fun p => p <> []) ps.
Proof.
  intros H Hp. destruct (pbs_structure _ _ _ H) as [Hl [Hs Hf]].
  destruct (pbs_inv _ _ _ H) as [Hle _].
  assert (Hi : incr 0 idx (length array)) by (apply incr_of_sorted; [exact Hs|exact Hf|lia]).
  destruct (slices_incr array idx 0 Hi) as [H1 [H2 H3]].
  cbn zeta. unfold np_split. repeat split; [lia|exact H2|exact H3].
Qed.

(** ** balance of the parts *)

Lemma slices_nonnil {A B} (f : list A -> B) (l : list A) a idx : map f (slices l a idx) <> [].
Proof. destruct idx; cbn; discriminate. Qed.

Lemma nth_le_list_max l i : nth i l 0 <= list_max l.
Proof.
  destruct (Nat.lt_ge_cases i (length l)) as [H|H].
  - apply le_list_max, nth_In, H.
  - rewrite nth_overflow by exact H. lia.
Qed.

Lemma psum_le_total l a : psum l a <= list_sum l.
Proof.
  destruct (Nat.le_ge_cases a (length l)) as [Hc|Hc].
  - rewrite <- (psum_all l (length l)) by lia. apply psum_le, Hc.
  - rewrite psum_all by exact Hc. lia.
Qed.

(** the cumulative sum at the split point found for the target J/k lies in
    (J/k - x, J/k] where x is the element at the split point *)
Lemma split_point_bound l k J : 0 < k ->
  let b := searchsorted_right (cumsum l) (J / k) in
  b < length l ->
  k * psum l b <= J /\ J < k * (psum l b + nth b l 0).
Proof.
  intros Hk b Hb.
  assert (Hs := ss_spec l 0 (J / k) (Nat.le_0_l _)). cbn zeta in Hs. fold (cumsum l) in Hs. fold b in Hs.
  destruct Hs as [_ [Hs1 Hs2]]. specialize (Hs2 Hb). cbn [Nat.add] in Hs1, Hs2.
  fold (psum l b) in Hs1. fold (psum l (S b)) in Hs2. rewrite psum_S in Hs2 by exact Hb.
  assert (Hd := Nat.div_mod J k ltac:(lia)). assert (Hm := Nat.mod_upper_bound J k ltac:(lia)).
  assert (H1 : k * psum l b <= k * (J / k)) by (apply Nat.mul_le_mono_l, Hs1).
  assert (H2 : k * (J / k + 1) <= k * (psum l b + nth b l 0)) by (apply Nat.mul_le_mono_l; lia).
  lia.
Qed.

Lemma balance_ok_cons total k M p ps :
  balance_ok total k M (p :: ps) = (k * p <? total + k * M) && (total <? k * p + k * M) && balance_ok total k M ps.
Proof. reflexivity. Qed.

Lemma balance_gen l k M : 0 < k -> (forall i, nth i l 0 <= M) ->
  forall ts a J,
  k * psum l a <= J -> J < k * psum l a + k * M ->
  (fix steps (J : nat) (ts : list nat) : Prop :=
     match ts with [] => True | t :: rest => t = (J + list_sum l) / k /\ steps (J + list_sum l) rest end) J ts ->
  Forall (fun i => i < length l) (map (searchsorted_right (cumsum l)) ts) ->
  J + S (length ts) * list_sum l = k * list_sum l ->
  balance_ok (list_sum l) k M (map (@list_sum) (slices l a (map (searchsorted_right (cumsum l)) ts))) = true.
Proof.
  intros Hk HM. induction ts as [|t rest IH]; intros a J Ha1 Ha2 Hst Hf Htot.
  - cbn [map slices]. rewrite balance_ok_cons. cbn [balance_ok forallb]. rewrite andb_true_r, sum_skipn.
    assert (Hle := psum_le_total l a). rewrite Nat.mul_sub_distr_l.
    assert (k * psum l a <= k * list_sum l) by (apply Nat.mul_le_mono_l, Hle).
    cbn [length] in Htot. apply andb_true_iff. split; apply Nat.ltb_lt; lia.
  - destruct Hst as [-> Hst]. cbn [map slices]. rewrite balance_ok_cons.
    set (J' := J + list_sum l) in *.
    set (b := searchsorted_right (cumsum l) (J' / k)) in *.
    inversion Hf as [|? ? Hb Hf']; subst.
    destruct (split_point_bound l k J' Hk Hb) as [Hb1 Hb2]. fold b in Hb1, Hb2.
    specialize (HM b).
    assert (Hb3 : k * (psum l b + nth b l 0) <= k * psum l b + k * M)
      by (rewrite <- Nat.mul_add_distr_l; apply Nat.mul_le_mono_l; lia).
    rewrite sum_slice, Nat.mul_sub_distr_l.
    rewrite (IH b J'); [| lia | lia | exact Hst | exact Hf' | cbn [length] in Htot; unfold J'; lia].
    rewrite andb_true_r. unfold J' in *. apply andb_true_iff. split; apply Nat.ltb_lt; lia.
Qed.

Lemma steps_targets c k m : forall j,
  (fix steps (J : nat) (ts : list nat) : Prop :=
     match ts with [] => True | t :: rest => t = (J + c) / k /\ steps (J + c) rest end)
    (j * c) (map (fun j => (j * c) / k) (seq (S j) m)).
Proof.
  induction m as [|m IH]; intros j; cbn [seq map]; [exact I|].
  replace (j * c + c) with (S j * c) by lia. split; [reflexivity|apply IH].
Qed.

(** the largest element is positive when a partition into >= 2 parts exists *)
Lemma pbs_max_pos array parts idx :
  partition_by_sum array parts = Some idx -> 2 <= parts -> 0 < list_max array.
Proof.
  intros H Hp. destruct (pbs_structure _ _ _ H) as [_ [_ Hf]]. destruct (pbs_inv _ _ _ H) as [_ [Hi _]].
  destruct parts as [|[|k]]; try lia. cbn [Nat.sub seq map] in Hi.
  rewrite Hi in Hf. inversion Hf as [|? ? [_ Hb] _]; subst.
  destruct (split_point_bound array (S (S k)) (1 * list_sum array) ltac:(lia) Hb) as [H1 H2].
  set (b := searchsorted_right _ _) in *.
  assert (Hn := nth_le_list_max array b).
  destruct (nth b array 0) eqn:E; [|lia]. rewrite Nat.add_0_r in H2. lia.
Qed.

(** STRICT balance: every part's sum differs from total/parts (the rational)
    by less than the largest element *)
Theorem pbs_balance array parts idx :
  partition_by_sum array parts = Some idx -> 2 <= parts ->
  balance_ok (list_sum array) parts (list_max array) (map (@list_sum) (np_split array idx)) = true.
Proof.
  intros H Hp. destruct (pbs_structure _ _ _ H) as [Hl [Hs Hf]].
  destruct (pbs_inv _ _ _ H) as [Hle [Hi _]].
  assert (HM := pbs_max_pos _ _ _ H Hp).
  unfold np_split. rewrite Hi.
  apply (balance_gen array parts (list_max array) ltac:(lia) (nth_le_list_max array) _ 0 0).
  - cbn. lia.
  - cbn. rewrite Nat.mul_0_r. cbn. apply Nat.mul_pos_pos; lia.
  - apply (steps_targets (list_sum array) parts (parts - 1) 0).
  - rewrite <- Hi. rewrite Forall_forall in *. intros i Hin. apply Hf, Hin.
  - rewrite map_length, seq_length. replace (S (parts - 1)) with parts by lia. lia.
Qed.

(** the sharper per-split-point form: the cumulative sum in front of split
    point number j (1-based) is at most j*total/parts and misses it by less
    than the element sitting at the split point *)
Theorem pbs_split_point_balance array parts idx :
  partition_by_sum array parts = Some idx ->
  forall j, j < length idx ->
  let b := nth j idx 0 in
  parts * list_sum (firstn b array) <= S j * list_sum array /\
  S j * list_sum array < parts * (list_sum (firstn b array) + nth b array 0).
Proof.
  intros H j Hj. destruct (pbs_structure _ _ _ H) as [Hl [_ Hf]]. destruct (pbs_inv _ _ _ H) as [Hle [Hi _]].
  cbn zeta. assert (Hb : nth j idx 0 < length array).
  { rewrite Forall_forall in Hf. apply Hf, nth_In, Hj. }
  assert (E : nth j idx 0 = searchsorted_right (cumsum array) ((S j * list_sum array) / parts)).
  { rewrite Hi. rewrite (nth_indep _ 0 (searchsorted_right (cumsum array) 0)) by (rewrite <- Hi; exact Hj).
    rewrite map_nth. f_equal.
    rewrite (nth_indep _ 0 ((fun j => j * list_sum array / parts) 0)) by (rewrite map_length, seq_length; lia).
    rewrite (map_nth (fun j => j * list_sum array / parts)). rewrite seq_nth by lia. reflexivity. }
  rewrite E in *. apply (split_point_bound array parts (S j * list_sum array)); [lia|exact Hb].
Qed.

(** reading of [balance_ok]: |p - total/k| < M, cross-multiplied by k *)
Lemma balance_ok_spec total k M ps :
  balance_ok total k M ps = true <->
  Forall (fun p => k * p < total + k * M /\ total < k * p + k * M) ps.
Proof.
  unfold balance_ok. rewrite forallb_forall, Forall_forall.
  split; intros H p Hp; specialize (H p Hp).
  - apply andb_true_iff in H as [H1 H2]. apply Nat.ltb_lt in H1, H2. split; assumption.
  - apply andb_true_iff. split; apply Nat.ltb_lt; tauto.
Qed.

(** ... and as a statement about rationals *)
Lemma balance_ok_Q total k M p : 0 < k ->
  (k * p < total + k * M /\ total < k * p + k * M) <->
  (Qabs (inject_Z (Z.of_nat p) - (Z.of_nat total # Pos.of_nat k)) < inject_Z (Z.of_nat M))%Q.
Proof.
  intros Hk. rewrite Qabs_Qlt_condition. unfold Qlt, Qminus, Qplus, Qopp, inject_Z. cbn [Qnum Qden].
  rewrite !Z.mul_1_r, !Pos.mul_1_l.
  assert (E : Z.pos (Pos.of_nat k) = Z.of_nat k).
  { destruct k; [lia|]. rewrite <- Pos.of_nat_succ. lia. }
  rewrite !E. split; intros [H1 H2]; split; nia.
Qed.

(** the pinned code violated the strict bound: five singleton blocks in three
    parts gave sums 1, 1, 3 (3 is 4/3 away from 5/3, a block's population is 1) *)
Lemma partition_by_sum_pinned_refuted :
  partition_by_sum_pinned [1;1;1;1;1] 3 = Some [1;2] /\
  map (@list_sum) (np_split [1;1;1;1;1] [1;2]) = [1;1;3] /\
  balance_ok 5 3 (list_max [1;1;1;1;1]) [1;1;3] = false /\
  (* while the repaired code gives 1, 2, 2 *)
  partition_by_sum [1;1;1;1;1] 3 = Some [1;3] /\
  map (@list_sum) (np_split [1;1;1;1;1] [1;3]) = [1;2;2].
Proof. repeat split; reflexivity. Qed.

(** * D. sklearn KFold without shuffling *)

Lemma consec_length s sizes : length (consec s sizes) = length sizes.
Proof. revert s. induction sizes as [|x t IH]; intros s; cbn; [reflexivity|f_equal; apply IH]. Qed.

Lemma consec_concat sizes : forall s, concat (consec s sizes) = seq s (list_sum sizes).
Proof.
  induction sizes as [|x t IH]; intros s; cbn [consec concat]; [reflexivity|].
  rewrite IH, ls_cons, seq_app. reflexivity.
Qed.

Lemma consec_nonempty sizes : forall s, Forall (fun x => 0 < x) sizes -> Forall (fun f => f <> []) (consec s sizes).
Proof.
  induction sizes as [|x t IH]; intros s H; cbn [consec]; constructor; inversion H; subst.
  - destruct x; [lia|discriminate].
  - apply IH. assumption.
Qed.

Lemma fold_sizes_sum_gen q r m : forall a,
  list_sum (map (fun j => q + (if j <? r then 1 else 0)) (seq a m)) = m * q + (Nat.min r (a + m) - Nat.min r a).
Proof.
  induction m as [|m IH]; intros a.
  - cbn. rewrite Nat.add_0_r. lia.
  - cbn [seq map]. rewrite ls_cons, IH. destruct (a <? r) eqn:E.
    + apply Nat.ltb_lt in E. lia.
    + apply Nat.ltb_ge in E. lia.
Qed.

Lemma fold_sizes_sum n k : 0 < k -> list_sum (fold_sizes n k) = n.
Proof.
  intros Hk. unfold fold_sizes. rewrite fold_sizes_sum_gen.
  assert (Hm := Nat.mod_upper_bound n k ltac:(lia)).
  assert (E := Nat.div_mod n k ltac:(lia)). lia.
Qed.

Lemma fold_sizes_length n k : length (fold_sizes n k) = k.
Proof. unfold fold_sizes. rewrite map_length, seq_length. reflexivity. Qed.

Theorem kfold_length n k : length (kfold n k) = k.
Proof. unfold kfold. rewrite consec_length. apply fold_sizes_length. Qed.

Theorem kfold_concat n k : 0 < k -> concat (kfold n k) = seq 0 n.
Proof. intros Hk. unfold kfold. rewrite consec_concat, fold_sizes_sum by exact Hk. reflexivity. Qed.

Theorem kfold_nonempty n k : 0 < k -> k <= n -> Forall (fun f => f <> []) (kfold n k).
Proof.
  intros Hk Hn. unfold kfold. apply consec_nonempty. unfold fold_sizes.
  rewrite Forall_forall. intros x Hx. apply in_map_iff in Hx as [j [<- _]].
  assert (1 <= n / k) by (apply Nat.div_le_lower_bound; lia). lia.
Qed.

(** folds are runs of consecutive indices whose lengths differ by at most one *)
Theorem kfold_runs n k :
  Forall (fun f => exists s m, f = seq s m /\ n / k <= m <= n / k + 1) (kfold n k).
Proof.
  unfold kfold.
  cut (forall s, Forall (fun f => exists s m, f = seq s m /\ n / k <= m <= n / k + 1) (consec s (fold_sizes n k)));
    [intros H; apply H|].
  assert (H : Forall (fun m => n / k <= m <= n / k + 1) (fold_sizes n k)).
  { unfold fold_sizes. rewrite Forall_forall. intros x Hx. apply in_map_iff in Hx as [j [<- _]].
    destruct (j <? n mod k); lia. }
  induction H as [|m t Hm Ht IH]; intros s; cbn [consec]; constructor.
  - exists s, m. split; [reflexivity|exact Hm].
  - apply IH.
Qed.

(** * E. from blocks to points; the sklearn split *)

Lemma In_where_isin labels B j :
  In j (where_isin labels B) <-> j < length labels /\ In (lab labels j) B.
Proof.
  unfold where_isin. rewrite filter_In, in_seq, memb_In. split; intros [H1 H2]; split; try assumption; lia.
Qed.

Lemma where_isin_NoDup labels B : NoDup (where_isin labels B).
Proof. apply NoDup_filter, seq_NoDup. Qed.

Lemma filter_memb_filter (P : nat -> bool) s :
  filter (fun j => memb j (filter P s)) s = filter P s.
Proof.
  apply filter_ext_in. intros j Hj.
  destruct (P j) eqn:E.
  - apply memb_In, filter_In. split; assumption.
  - apply memb_false. rewrite filter_In. intros [_ H]. congruence.
Qed.

Lemma sk_split_test labels B :
  snd (sk_split (length labels) (where_isin labels B)) = where_isin labels B.
Proof. unfold sk_split, where_isin. cbn [snd]. apply filter_memb_filter. Qed.

Lemma sk_split_perm n t : Permutation (fst (sk_split n t) ++ snd (sk_split n t)) (seq 0 n).
Proof. unfold sk_split. cbn [fst snd]. apply (filter_neg_perm (fun j => memb j t)). Qed.

Lemma sk_split_blocks labels B i j :
  In i (fst (sk_split (length labels) (where_isin labels B))) ->
  In j (snd (sk_split (length labels) (where_isin labels B))) ->
  lab labels i <> lab labels j.
Proof.
  rewrite sk_split_test. unfold sk_split. cbn [fst]. rewrite filter_In, in_seq, negb_true_iff, memb_false.
  rewrite !In_where_isin. intros [Hi Hn] [Hj Hb] E. apply Hn. split; [lia|]. rewrite E. exact Hb.
Qed.

Lemma filter_map_swap {A B} (f : B -> bool) (g : A -> B) l :
  filter f (map g l) = map g (filter (fun x => f (g x)) l).
Proof.
  induction l as [|x t IH]; cbn; [reflexivity|]. destruct (f (g x)); cbn; rewrite IH; reflexivity.
Qed.

Lemma count_filter labels x :
  length (filter (fun j => nth j labels 0 =? x) (seq 0 (length labels))) = count labels x.
Proof.
  unfold count. induction labels as [|a t IH]; [reflexivity|].
  change (seq 0 (length (a :: t))) with (0 :: seq 1 (length t)).
  rewrite <- seq_shift. cbn [filter nth count_occ]. rewrite filter_map_swap.
  cbn [nth]. destruct (Nat.eq_dec a x) as [->|Hne].
  - rewrite Nat.eqb_refl. cbn [length]. rewrite map_length, IH. reflexivity.
  - apply Nat.eqb_neq in Hne. rewrite Hne. rewrite map_length, IH. reflexivity.
Qed.

Lemma length_where_isin labels B : NoDup B ->
  length (where_isin labels B) = list_sum (map (count labels) B).
Proof.
  induction B as [|x t IH]; intros Hn.
  - unfold where_isin. cbn. induction (seq 0 (length labels)); [reflexivity|assumption].
  - inversion Hn; subst. cbn [map]. rewrite ls_cons, <- IH by assumption. rewrite <- count_filter.
    unfold where_isin. rewrite <- app_length. apply Permutation_length.
    apply (filter_or_perm (fun j => nth j labels 0 =? x) (fun j => memb (lab labels j) t)).
    intros j _. unfold lab. destruct (nth j labels 0 =? x) eqn:E; [|reflexivity].
    apply Nat.eqb_eq in E. rewrite E. cbn. apply memb_false. assumption.
Qed.

Lemma where_isin_concat labels Ls : NoDup (concat Ls) ->
  Permutation (concat (map (where_isin labels) Ls)) (where_isin labels (concat Ls)).
Proof.
  induction Ls as [|L t IH]; cbn [concat map]; intros Hn.
  - unfold where_isin. cbn. induction (seq 0 (length labels)); [constructor|assumption].
  - apply NoDup_app_inv in Hn as [H1 [H2 H3]].
    eapply Permutation_trans; [apply Permutation_app_head, IH, H2|].
    apply Permutation_sym. unfold where_isin.
    erewrite filter_ext; [apply filter_or_perm|intros j; apply memb_app].
    intros j _. destruct (memb (lab labels j) L) eqn:E; [|reflexivity].
    apply memb_In in E. cbn. apply memb_false, H3, E.
Qed.

Lemma where_isin_all labels B :
  (forall x, In x labels -> In x B) -> where_isin labels B = seq 0 (length labels).
Proof.
  intros H. apply filter_all. intros j Hj. apply in_seq in Hj. apply memb_In, H. apply nth_In. lia.
Qed.

Lemma where_isin_nonempty labels B x : In x B -> In x labels -> where_isin labels B <> [].
Proof.
  intros HB Hl E. destruct (In_nth labels x 0 Hl) as [j [Hj Hx]].
  assert (In j (where_isin labels B)) by (apply In_where_isin; split; [exact Hj|unfold lab; rewrite Hx; exact HB]).
  rewrite E in H. exact H.
Qed.

(** * F. BlockKFold *)

(** the oracle of shuffle=True is a permutation of the block positions *)
Definition shuffle_ok (labels : list nat) (shuffle : option (list nat)) : Prop :=
  match shuffle with None => True | Some p => Permutation p (seq 0 (length (usort labels))) end.

Lemma take_seq l : take l (seq 0 (length l)) = l.
Proof. apply map_nth_seq. Qed.

Lemma block_ids_perm labels shuffle : shuffle_ok labels shuffle ->
  Permutation (block_ids labels shuffle) (usort labels).
Proof.
  destruct shuffle as [p|]; cbn; intros H; [|apply Permutation_refl].
  rewrite <- (take_seq (usort labels)) at 2. apply Permutation_map, H.
Qed.

Lemma block_ids_NoDup labels shuffle : shuffle_ok labels shuffle -> NoDup (block_ids labels shuffle).
Proof.
  intros H. eapply Permutation_NoDup; [apply Permutation_sym, block_ids_perm, H|apply usort_NoDup].
Qed.

Lemma block_ids_In labels shuffle x : shuffle_ok labels shuffle ->
  (In x (block_ids labels shuffle) <-> In x labels).
Proof.
  intros H. rewrite <- (usort_In x labels). split; apply Permutation_in; [|apply Permutation_sym]; apply block_ids_perm, H.
Qed.

Lemma block_ids_length labels shuffle : shuffle_ok labels shuffle ->
  length (block_ids labels shuffle) = length (usort labels).
Proof. intros H. apply Permutation_length, block_ids_perm, H. Qed.

(** the test folds of the model, as lists of positions into the block ids *)
Definition block_folds (labels : list nat) (n_splits : nat) (shuffle : option (list nat)) (balance : bool)
  : bool * list (list nat) :=
  let nb := length (usort labels) in
  let ids := block_ids labels shuffle in
  if balance then
    match partition_by_sum (map (count labels) ids) n_splits with
    | Some sp => (false, np_split (seq 0 nb) sp)
    | None => (true, kfold nb n_splits)
    end
  else (false, kfold nb n_splits).

Lemma block_kfold_eq labels k shuffle balance r :
  block_kfold labels k shuffle balance = Some r ->
  2 <= k <= length (usort labels) /\
  r = (fst (block_folds labels k shuffle balance),
       map (fun f => sk_split (length labels) (where_isin labels (take (block_ids labels shuffle) f)))
           (snd (block_folds labels k shuffle balance))).
Proof.
  unfold block_kfold, block_folds.
  destruct (k <? 2) eqn:E1; [discriminate|]. destruct (length (usort labels) <? k) eqn:E2; [discriminate|].
  apply Nat.ltb_ge in E1, E2. cbn [orb]. intros H. injection H as <-. split; [lia|reflexivity].
Qed.

Lemma block_folds_props labels k shuffle balance :
  shuffle_ok labels shuffle -> 2 <= k <= length (usort labels) ->
  let folds := snd (block_folds labels k shuffle balance) in
  length folds = k /\ concat folds = seq 0 (length (usort labels)) /\ Forall (fun f => f <> []) folds.
Proof.
  intros Hs Hk. unfold block_folds. set (nb := length (usort labels)) in *.
  assert (Hkf : length (kfold nb k) = k /\ concat (kfold nb k) = seq 0 nb /\ Forall (fun f => f <> []) (kfold nb k)).
  { repeat split; [apply kfold_length|apply kfold_concat; lia|apply kfold_nonempty; lia]. }
  destruct balance; [|exact Hkf].
  destruct (partition_by_sum (map (count labels) (block_ids labels shuffle)) k) as [sp|] eqn:E; [|exact Hkf].
  cbn [snd]. destruct (pbs_structure _ _ _ E) as [Hl [Hss Hf]].
  rewrite map_length, block_ids_length in Hf by exact Hs. fold nb in Hf.
  assert (Hi : incr 0 sp (length (seq 0 nb))).
  { rewrite seq_length. apply incr_of_sorted; [exact Hss|exact Hf|lia]. }
  destruct (slices_incr (seq 0 nb) sp 0 Hi) as [H1 [H2 H3]].
  unfold np_split. repeat split; [lia|exact H2|exact H3].
Qed.

Lemma NoDup_concat_In {A} (Ls : list (list A)) L : NoDup (concat Ls) -> In L Ls -> NoDup L.
Proof.
  induction Ls as [|L' t IH]; cbn; intros Hn Hi; [destruct Hi|]. destruct Hi as [->|Hi].
  - apply NoDup_app_inv in Hn. tauto.
  - apply IH; [|exact Hi]. apply NoDup_app_inv in Hn. tauto.
Qed.

Lemma In_concat_In {A} (Ls : list (list A)) L x : In L Ls -> In x L -> In x (concat Ls).
Proof. intros H1 H2. apply in_concat. exists L. split; assumption. Qed.

(** the label sets of the folds are disjoint pieces of the block ids *)
Lemma take_folds ids folds : concat folds = seq 0 (length ids) ->
  concat (map (take ids) folds) = ids.
Proof. intros H. unfold take. rewrite <- concat_map, H. apply map_nth_seq. Qed.

Section BlockKFold.
Variables (labels : list nat) (k : nat) (shuffle : option (list nat)) (balance : bool).
Variables (warned : bool) (splits : list (list nat * list nat)).
Hypothesis Hshuffle : shuffle_ok labels shuffle.
Hypothesis Hrun : block_kfold labels k shuffle balance = Some (warned, splits).

Let ids := block_ids labels shuffle.
Let folds := snd (block_folds labels k shuffle balance).
Let n := length labels.

Lemma bk_k : 2 <= k <= length (usort labels).
Proof. apply (block_kfold_eq _ _ _ _ _ Hrun). Qed.

Lemma bk_splits : splits = map (fun f => sk_split n (where_isin labels (take ids f))) folds.
Proof. destruct (block_kfold_eq _ _ _ _ _ Hrun) as [_ H]. injection H as _ H. exact H. Qed.

Lemma bk_warned : warned = fst (block_folds labels k shuffle balance).
Proof. destruct (block_kfold_eq _ _ _ _ _ Hrun) as [_ H]. injection H as H _. exact H. Qed.

Lemma bk_tests : map snd splits = map (fun f => where_isin labels (take ids f)) folds.
Proof.
  rewrite bk_splits, map_map. apply map_ext. intros f. apply sk_split_test.
Qed.

Lemma bk_folds : length folds = k /\ concat folds = seq 0 (length ids) /\ Forall (fun f => f <> []) folds.
Proof.
  unfold ids. rewrite block_ids_length by exact Hshuffle. apply block_folds_props; [exact Hshuffle|apply bk_k].
Qed.

(** exactly n_splits splits *)
Theorem bk_count : length splits = k.
Proof. rewrite bk_splits, map_length. apply bk_folds. Qed.

(** every split partitions the sample indices *)
Theorem bk_partition : Forall (fun s => Permutation (fst s ++ snd s) (seq 0 n)) splits.
Proof.
  rewrite bk_splits, Forall_forall. intros s Hs. apply in_map_iff in Hs as [f [<- _]]. apply sk_split_perm.
Qed.

(** no block has samples on both sides of a split *)
Theorem bk_blocks_whole :
  Forall (fun s => forall i j, In i (fst s) -> In j (snd s) -> lab labels i <> lab labels j) splits.
Proof.
  rewrite bk_splits, Forall_forall. intros s Hs. apply in_map_iff in Hs as [f [<- _]].
  intros i j. apply sk_split_blocks.
Qed.

(** every test fold is non-empty *)
Theorem bk_nonempty : Forall (fun s => snd s <> []) splits.
Proof.
  destruct bk_folds as [_ [Hc Hne]].
  rewrite bk_splits, Forall_forall. intros s Hs. apply in_map_iff in Hs as [f [<- Hf]].
  unfold n. rewrite sk_split_test. rewrite Forall_forall in Hne. specialize (Hne f Hf).
  destruct f as [|b t]; [contradiction|].
  assert (Hb : In (nth b ids 0) ids).
  { apply nth_In. assert (Hin : In b (concat folds)) by (eapply In_concat_In; [exact Hf|left; reflexivity]).
    rewrite Hc in Hin. apply in_seq in Hin. lia. }
  apply (where_isin_nonempty labels _ (nth b ids 0)); [left; reflexivity|].
  apply (block_ids_In labels shuffle); assumption.
Qed.

(** the test folds are pairwise disjoint and cover every sample exactly once *)
Theorem bk_cover : Permutation (concat (map snd splits)) (seq 0 n).
Proof.
  destruct bk_folds as [_ [Hc _]].
  rewrite bk_tests, <- (map_map (take ids) (where_isin labels)).
  eapply Permutation_trans; [apply where_isin_concat|].
  - rewrite take_folds by exact Hc. apply block_ids_NoDup, Hshuffle.
  - rewrite take_folds by exact Hc. rewrite where_isin_all; [apply Permutation_refl|].
    intros x Hx. apply (block_ids_In labels shuffle); assumption.
Qed.

Lemma take_map (g : nat -> nat) l f : Forall (fun b => b < length l) f ->
  take (map g l) f = map g (take l f).
Proof.
  intros H. unfold take. rewrite map_map. apply map_ext_in. intros b Hb.
  rewrite Forall_forall in H. specialize (H b Hb).
  rewrite (nth_indep _ 0 (g 0)) by (rewrite map_length; exact H). apply map_nth.
Qed.

Lemma slices_map {A B} (g : A -> B) l idx : forall a, map (map g) (slices l a idx) = slices (map g l) a idx.
Proof.
  induction idx as [|b t IH]; intros a; cbn [slices map].
  - rewrite skipn_map. reflexivity.
  - rewrite IH, skipn_map, firstn_map. reflexivity.
Qed.

Lemma fold_sizes_points f : In f folds ->
  length (where_isin labels (take ids f)) = list_sum (take (map (count labels) ids) f).
Proof.
  intros Hf. destruct bk_folds as [_ [Hc _]].
  rewrite take_map.
  - apply length_where_isin. apply (NoDup_concat_In (map (take ids) folds)).
    + rewrite take_folds by exact Hc. apply block_ids_NoDup, Hshuffle.
    + apply in_map, Hf.
  - rewrite Forall_forall. intros b Hb.
    assert (Hin : In b (concat folds)) by (eapply In_concat_In; eassumption).
    rewrite Hc in Hin. apply in_seq in Hin. lia.
Qed.

Lemma total_points : list_sum (map (count labels) ids) = n.
Proof.
  rewrite <- length_where_isin by (apply block_ids_NoDup, Hshuffle).
  rewrite where_isin_all; [apply seq_length|].
  intros x Hx. apply (block_ids_In labels shuffle); assumption.
Qed.

Lemma list_max_perm l l' : Permutation l l' -> list_max l = list_max l'.
Proof.
  induction 1 as [|x l l' _ IH|x y l|l l' l'' _ IH1 _ IH2].
  - reflexivity.
  - change (Nat.max x (list_max l) = Nat.max x (list_max l')). rewrite IH. reflexivity.
  - change (Nat.max y (Nat.max x (list_max l)) = Nat.max x (Nat.max y (list_max l))). lia.
  - congruence.
Qed.

(** balanced path: every test fold's point count differs from n / n_splits
    (the rational) by less than one block's population (the largest) *)
Theorem bk_balance : balance = true -> warned = false ->
  balance_ok n k (list_max (map (count labels) (usort labels)))
             (map (fun s => length (snd s)) splits) = true.
Proof.
  intros Hb Hw. assert (Hk := bk_k).
  rewrite <- (map_map snd (@length nat)), bk_tests.
  assert (Hfolds := fold_sizes_points). revert Hfolds.
  assert (Hwd := bk_warned). rewrite Hw in Hwd. revert Hwd.
  unfold folds, block_folds. rewrite Hb. fold ids.
  destruct (partition_by_sum (map (count labels) ids) k) as [sp|] eqn:E; [|discriminate].
  cbn [fst snd]. intros _ Hfolds.
  remember (list_max (map (count labels) (usort labels))) as M eqn:HM.
  rewrite map_map. erewrite map_ext_in; [|intros f Hf; apply Hfolds, Hf].
  rewrite <- (map_map (take (map (count labels) ids)) (@list_sum)).
  unfold np_split, take. rewrite slices_map.
  replace (length (usort labels)) with (length (map (count labels) ids))
    by (rewrite map_length; apply block_ids_length, Hshuffle).
  rewrite map_nth_seq.
  assert (Hbal := pbs_balance _ _ _ E ltac:(lia)). rewrite total_points in Hbal.
  rewrite (list_max_perm _ (map (count labels) (usort labels))) in Hbal
    by (apply Permutation_map, block_ids_perm, Hshuffle).
  rewrite HM. exact Hbal.
Qed.

(** a warning is raised only when balancing was requested and partition_by_sum
    failed; then, and when balancing is off, the folds are sklearn KFold's
    folds over the blocks (equal block counts up to one) *)
Theorem bk_fallback :
  (warned = true -> balance = true /\ partition_by_sum (map (count labels) ids) k = None) /\
  (warned = true \/ balance = false ->
   map snd splits = map (fun f => where_isin labels (take ids f)) (kfold (length (usort labels)) k)).
Proof.
  rewrite bk_tests. assert (Hwd := bk_warned). revert Hwd. unfold folds, block_folds. fold ids.
  destruct balance.
  - destruct (partition_by_sum (map (count labels) ids) k) as [sp|] eqn:E; cbn [fst snd]; intros ->.
    + split; [discriminate|]. intros [H|H]; discriminate.
    + split; [intros _; split; reflexivity|reflexivity].
  - cbn [fst snd]. intros ->. split; [discriminate|reflexivity].
Qed.

End BlockKFold.

(** rejection: exactly when n_splits < 2 or exceeds the number of occupied blocks *)
Theorem bk_rejects labels k shuffle balance :
  block_kfold labels k shuffle balance = None <-> (k < 2 \/ length (usort labels) < k).
Proof.
  unfold block_kfold. rewrite <- !Nat.ltb_lt, <- orb_true_iff.
  destruct ((k <? 2) || (length (usort labels) <? k)); split; intros H; try reflexivity; discriminate.
Qed.

(** * G. BlockShuffleSplit *)

(** np.argmin returns the first position of the minimum *)
Lemma argmin_spec (l : list Q) : l <> [] ->
  argmin l < length l /\
  (forall j, j < length l -> (nth (argmin l) l 0 <= nth j l 0)%Q) /\
  (forall j, j < argmin l -> (nth (argmin l) l 0 < nth j l 0)%Q).
Proof.
  induction l as [|x t IH]; intros Hne; [contradiction|].
  destruct t as [|y t'].
  - cbn [argmin length]. repeat split; [lia| |intros j Hj; lia].
    intros j Hj. assert (j = 0) by lia. subst. cbn. apply Qle_refl.
  - destruct (IH ltac:(discriminate)) as [H1 [H2 H3]].
    set (t := y :: t') in *. set (i := argmin t) in *.
    assert (E : argmin (x :: t) = if Qle_bool x (nth i t 0%Q) then 0 else S i) by reflexivity.
    rewrite E. clear E. destruct (Qle_bool x (nth i t 0%Q)) eqn:Eq.
    + apply Qle_bool_iff in Eq. repeat split; [cbn; lia| |intros j Hj; lia].
      intros [|j] Hj; cbn [nth]; [apply Qle_refl|].
      eapply Qle_trans; [exact Eq|]. apply H2. cbn [length] in Hj. lia.
    + assert (Hlt : (nth i t 0 < x)%Q).
      { apply Qnot_le_lt. intros Hc. apply Qle_bool_iff in Hc. congruence. }
      repeat split; [cbn [length]; lia| |].
      * intros [|j] Hj; cbn [nth]; [apply Qlt_le_weak, Hlt|]. apply H2. cbn [length] in Hj. lia.
      * intros [|j] Hj; cbn [nth]; [exact Hlt|]. apply H3. lia.
Qed.

Lemma groups_length {A} k b (l : list A) : length (groups k b l) = k.
Proof. revert l. induction k as [|k IH]; intros l; cbn; [reflexivity|f_equal; apply IH]. Qed.

Lemma groups_full {A} k b : forall (l : list A), length l = k * b ->
  Forall (fun g => length g = b) (groups k b l).
Proof.
  induction k as [|k IH]; intros l Hl; cbn [groups]; constructor.
  - rewrite firstn_length. lia.
  - apply IH. rewrite skipn_length. lia.
Qed.

Lemma groups_In {A} k b : forall (l : list A) g x, In g (groups k b l) -> In x g -> In x l.
Proof.
  induction k as [|k IH]; intros l g x Hg Hx; cbn [groups] in Hg; [destruct Hg|].
  destruct Hg as [<-|Hg].
  - rewrite <- (firstn_skipn b l). apply in_or_app. left. exact Hx.
  - rewrite <- (firstn_skipn b l). apply in_or_app. right. eapply IH; eassumption.
Qed.

Lemma where_isin_nil labels : where_isin labels [] = [].
Proof. unfold where_isin. cbn. induction (seq 0 (length labels)); [reflexivity|assumption]. Qed.

(** the index set handed to sklearn's split is always the point set of a set of blocks *)
Lemma best_candidate_blocks labels ids draws :
  exists B, best_candidate (map (candidate labels ids) draws) = where_isin labels B.
Proof.
  unfold best_candidate. set (cs := map (candidate labels ids) draws).
  destruct (Nat.lt_ge_cases (argmin (map fst cs)) (length cs)) as [H|H].
  - unfold cs in *. rewrite map_length in H.
    exists (take ids (snd (nth (argmin (map fst (map (candidate labels ids) draws))) draws ([], [])))).
    rewrite (nth_indep _ _ (candidate labels ids ([], []))) by (rewrite map_length; exact H).
    rewrite map_nth. reflexivity.
  - exists []. rewrite nth_overflow by exact H. cbn. symmetry. apply where_isin_nil.
Qed.

Lemma bss_inv labels ns b ts tr perms splits :
  block_shuffle_split labels ns b ts tr perms = Some splits -> ns <> 0 ->
  1 <= b /\ exists ntr nte,
    validate_shuffle_split (length (usort labels)) ts tr = Some (ntr, nte) /\
    splits = map (fun g => sk_split (length labels) (best_candidate (group_candidates labels ntr nte g)))
                 (groups ns b perms).
Proof.
  unfold block_shuffle_split. destruct (b <? 1) eqn:E1; [discriminate|]. apply Nat.ltb_ge in E1.
  destruct (ns =? 0) eqn:E2; [apply Nat.eqb_eq in E2; intros _ H; contradiction|].
  destruct (validate_shuffle_split (length (usort labels)) ts tr) as [[ntr nte]|]; [|discriminate].
  intros H _. injection H as <-. split; [exact E1|]. exists ntr, nte. split; reflexivity.
Qed.

(** n_splits splits *)
Theorem bss_count labels ns b ts tr perms splits :
  block_shuffle_split labels ns b ts tr perms = Some splits -> length splits = ns.
Proof.
  destruct (Nat.eq_dec ns 0) as [->|Hne].
  - unfold block_shuffle_split. destruct (b <? 1); [discriminate|]. cbn. intros H. injection H as <-. reflexivity.
  - intros H. destruct (bss_inv _ _ _ _ _ _ _ H Hne) as [_ [ntr [nte [_ ->]]]].
    rewrite map_length. apply groups_length.
Qed.

(** every split partitions the samples and keeps blocks whole *)
Theorem bss_partition labels ns b ts tr perms splits :
  block_shuffle_split labels ns b ts tr perms = Some splits ->
  Forall (fun s => Permutation (fst s ++ snd s) (seq 0 (length labels)) /\
                   forall i j, In i (fst s) -> In j (snd s) -> lab labels i <> lab labels j) splits.
Proof.
  destruct (Nat.eq_dec ns 0) as [->|Hne].
  - unfold block_shuffle_split. destruct (b <? 1); [discriminate|]. cbn. intros H. injection H as <-. constructor.
  - intros H. destruct (bss_inv _ _ _ _ _ _ _ H Hne) as [_ [ntr [nte [_ ->]]]].
    rewrite Forall_forall. intros s Hs. apply in_map_iff in Hs as [g [<- _]]. split; [apply sk_split_perm|].
    unfold group_candidates. rewrite <- (map_map (shuffle_draw ntr nte) (candidate labels (usort labels))).
    destruct (best_candidate_blocks labels (usort labels) (map (shuffle_draw ntr nte) g)) as [B ->].
    intros i j. apply sk_split_blocks.
Qed.

(** the test set of each split is the test set of the FIRST candidate of its
    group of [balancing] draws that minimises the imbalance *)
Definition best_of (cs : list (Q * list nat)) (test : list nat) : Prop :=
  exists m, m < length cs /\ test = snd (nth m cs (0%Q, [])) /\
    (forall j, j < length cs -> (fst (nth m cs (0%Q, [])) <= fst (nth j cs (0%Q, [])))%Q) /\
    (forall j, j < m -> (fst (nth m cs (0%Q, [])) < fst (nth j cs (0%Q, [])))%Q).

Lemma best_candidate_best cs : cs <> [] -> best_of cs (best_candidate cs).
Proof.
  intros Hne. unfold best_candidate.
  assert (Hne' : map fst cs <> []) by (destruct cs; [contradiction|discriminate]).
  destruct (argmin_spec (map fst cs) Hne') as [H1 [H2 H3]]. rewrite map_length in H1, H2.
  exists (argmin (map fst cs)). split; [exact H1|]. split; [reflexivity|].
  assert (Hn : forall j, nth j (map fst cs) 0%Q = fst (nth j cs (0%Q, []))) by (intros j; apply (map_nth fst cs (0%Q, []))).
  split.
  - intros j Hj. rewrite <- !Hn. apply H2, Hj.
  - intros j Hj. rewrite <- !Hn. apply H3, Hj.
Qed.

Theorem bss_best labels ns b ts tr perms splits ntr nte :
  block_shuffle_split labels ns b ts tr perms = Some splits -> ns <> 0 ->
  validate_shuffle_split (length (usort labels)) ts tr = Some (ntr, nte) ->
  length perms = ns * b ->
  Forall2 (fun s g => length g = b /\ best_of (group_candidates labels ntr nte g) (snd s))
          splits (groups ns b perms).
Proof.
  intros H Hne Hv Hl. destruct (bss_inv _ _ _ _ _ _ _ H Hne) as [Hb [ntr' [nte' [Hv' ->]]]].
  rewrite Hv in Hv'. injection Hv' as <- <-.
  assert (Hfull := groups_full ns b perms Hl).
  clear H. induction Hfull as [|g gs Hg _ IH]; cbn [map]; [constructor|].
  constructor; [|exact IH].
  split; [exact Hg|]. cbn [snd].
  unfold group_candidates at 2. rewrite <- (map_map (shuffle_draw ntr nte) (candidate labels (usort labels))).
  destruct (best_candidate_blocks labels (usort labels) (map (shuffle_draw ntr nte) g)) as [B HB].
  rewrite map_map in HB. fold (group_candidates labels ntr nte g) in HB. rewrite map_map.
  fold (group_candidates labels ntr nte g). rewrite HB, sk_split_test, <- HB.
  apply best_candidate_best. unfold group_candidates. destruct g; [cbn in Hg; lia|discriminate].
Qed.

(** ** sklearn's _validate_shuffle_split *)

Lemma size_ok_float nz d : size_bad nz (SFloat d) = false -> (0 < D2Q d)%Q /\ (D2Q d < 1)%Q.
Proof.
  cbn [size_bad]. intros H. apply orb_false_iff in H as [H1 H2]. split; apply Qnot_le_lt; intros Hc;
    apply Qle_bool_iff in Hc; congruence.
Qed.

Lemma size_ok_int nz z : size_bad nz (SInt z) = false -> (0 < z < nz)%Z.
Proof. cbn [size_bad]. intros H. apply orb_false_iff in H as [H1 H2]. lia. Qed.

Lemma frac_bounds q nz : (0 < q)%Q -> (q < 1)%Q -> (0 <= nz)%Z ->
  (0 <= q * inject_Z nz)%Q /\ (q * inject_Z nz <= inject_Z nz)%Q /\
  ((0 < nz)%Z -> (0 < q * inject_Z nz)%Q /\ (q * inject_Z nz < inject_Z nz)%Q).
Proof.
  intros H0 H1 Hn. assert (Hq : (0 <= inject_Z nz)%Q) by (change (inject_Z 0 <= inject_Z nz)%Q; rewrite <- Zle_Qle; exact Hn).
  split; [apply Qmult_le_0_compat; [apply Qlt_le_weak, H0|exact Hq]|].
  split.
  - rewrite <- (Qmult_1_l (inject_Z nz)) at 2. apply Qmult_le_compat_r; [apply Qlt_le_weak, H1|exact Hq].
  - intros Hp. assert (Hq' : (0 < inject_Z nz)%Q) by (change (inject_Z 0 < inject_Z nz)%Q; rewrite <- Zlt_Qlt; exact Hp). split.
    + apply Qmult_lt_0_compat; assumption.
    + rewrite <- (Qmult_1_l (inject_Z nz)) at 2. apply Qmult_lt_compat_r; assumption.
Qed.

Lemma ceil_bounds q nz : (0 < q)%Q -> (q < 1)%Q -> (0 <= nz)%Z ->
  (0 <= Qceiling (q * inject_Z nz) <= nz)%Z /\ ((0 < nz)%Z -> (1 <= Qceiling (q * inject_Z nz))%Z).
Proof.
  intros H0 H1 Hn. destruct (frac_bounds q nz H0 H1 Hn) as [Ha [Hb Hc]].
  split; [split|].
  - change 0%Z with (Qceiling (inject_Z 0)). apply Qceiling_resp_le, Ha.
  - rewrite <- (Qceiling_Z nz) at 2. apply Qceiling_resp_le, Hb.
  - intros Hp. destruct (Hc Hp) as [Hd _].
    assert (Hl := Qle_ceiling (q * inject_Z nz)).
    assert (Hz : (0 < inject_Z (Qceiling (q * inject_Z nz)))%Q) by (eapply Qlt_le_trans; eassumption).
    change (inject_Z 0 < inject_Z (Qceiling (q * inject_Z nz)))%Q in Hz. rewrite <- Zlt_Qlt in Hz. lia.
Qed.

Lemma floor_bounds q nz : (0 < q)%Q -> (q < 1)%Q -> (0 <= nz)%Z ->
  (0 <= Qfloor (q * inject_Z nz) <= nz)%Z /\ ((0 < nz)%Z -> (Qfloor (q * inject_Z nz) < nz)%Z).
Proof.
  intros H0 H1 Hn. destruct (frac_bounds q nz H0 H1 Hn) as [Ha [Hb Hc]].
  split; [split|].
  - change 0%Z with (Qfloor (inject_Z 0)). apply Qfloor_resp_le, Ha.
  - rewrite <- (Qfloor_Z nz) at 2. apply Qfloor_resp_le, Hb.
  - intros Hp. destruct (Hc Hp) as [_ Hd].
    assert (Hl := Qfloor_le (q * inject_Z nz)).
    assert (Hz : (inject_Z (Qfloor (q * inject_Z nz)) < inject_Z nz)%Q) by (eapply Qle_lt_trans; eassumption).
    rewrite <- Zlt_Qlt in Hz. exact Hz.
Qed.

Local Opaque Qfloor Qceiling.

(** both sides get at least one block and they fit in the number of blocks *)
Theorem validate_bounds n ts tr ntr nte :
  validate_shuffle_split n ts tr = Some (ntr, nte) -> 1 <= ntr /\ 1 <= nte /\ ntr + nte <= n.
Proof.
  intros H. assert (Hnz : (0 <= Z.of_nat n)%Z) by lia.
  destruct ts as [|t|t], tr as [|r|r];
    cbv beta iota zeta delta [validate_shuffle_split] in H;
    repeat match type of H with
           | (if ?c then None else _) = Some _ => let E := fresh "E" in destruct c eqn:E; [discriminate|]
           end;
    change (fst (?a, ?b)) with a in *; change (snd (?a, ?b)) with b in *;
    injection H as <- <-;
    try (apply orb_false_iff in E as [Ea Eb]);
    repeat match goal with
           | Hb : size_bad _ (SFloat ?d) = false |- _ =>
               let H0 := fresh "Hq" in let H1 := fresh "Hq" in
               destruct (size_ok_float _ _ Hb) as [H0 H1]; clear Hb;
               let C := fresh "Hc" in let F := fresh "Hf" in
               assert (C := ceil_bounds _ _ H0 H1 Hnz); assert (F := floor_bounds _ _ H0 H1 Hnz)
           | Hb : size_bad _ (SInt ?z) = false |- _ => apply size_ok_int in Hb
           end;
    lia.
Qed.

Local Transparent Qfloor Qceiling.

(** the test set of every split consists of exactly n_test whole blocks *)
Lemma n_blocks_where_isin labels B : NoDup B -> (forall x, In x B -> In x labels) ->
  n_blocks_of labels (where_isin labels B) = length B.
Proof.
  intros Hn Hsub. unfold n_blocks_of. apply Permutation_length, NoDup_Permutation; [apply usort_NoDup|exact Hn|].
  intros x. rewrite usort_In, in_map_iff. split.
  - intros [j [<- Hj]]. apply In_where_isin in Hj. tauto.
  - intros Hx. destruct (In_nth labels x 0 (Hsub x Hx)) as [j [Hj E]].
    exists j. split; [exact E|]. apply In_where_isin. split; [exact Hj|]. unfold lab. rewrite E. exact Hx.
Qed.

Lemma take_perm_firstn ids p m : NoDup ids -> Permutation p (seq 0 (length ids)) -> m <= length ids ->
  NoDup (take ids (firstn m p)) /\ length (take ids (firstn m p)) = m /\
  (forall x, In x (take ids (firstn m p)) -> In x ids).
Proof.
  intros Hn Hp Hm.
  assert (Hall : Permutation (take ids p) ids).
  { rewrite <- (take_seq ids) at 2. apply Permutation_map, Hp. }
  assert (Hnd : NoDup (take ids p)) by (eapply Permutation_NoDup; [apply Permutation_sym, Hall|exact Hn]).
  assert (Hsplit : take ids p = take ids (firstn m p) ++ take ids (skipn m p)).
  { unfold take. rewrite <- map_app, firstn_skipn. reflexivity. }
  rewrite Hsplit in Hnd. apply NoDup_app_inv in Hnd as [H1 _].
  split; [exact H1|]. split.
  - unfold take. rewrite map_length, firstn_length. rewrite (Permutation_length Hp), seq_length. lia.
  - intros x Hx. apply (Permutation_in x Hall). rewrite Hsplit. apply in_or_app. left. exact Hx.
Qed.

Theorem bss_n_test labels ns b ts tr perms splits ntr nte :
  block_shuffle_split labels ns b ts tr perms = Some splits -> ns <> 0 ->
  validate_shuffle_split (length (usort labels)) ts tr = Some (ntr, nte) ->
  length perms = ns * b ->
  Forall (fun p => Permutation p (seq 0 (length (usort labels)))) perms ->
  Forall (fun s => n_blocks_of labels (snd s) = nte) splits.
Proof.
  intros H Hne Hv Hl Hperms.
  assert (Hbest := bss_best _ _ _ _ _ _ _ _ _ H Hne Hv Hl).
  destruct (validate_bounds _ _ _ _ _ Hv) as [_ [_ Hle]].
  assert (Hin : forall g, In g (groups ns b perms) -> forall p, In p g -> Permutation p (seq 0 (length (usort labels)))).
  { intros g Hg p Hp. rewrite Forall_forall in Hperms. apply Hperms. eapply groups_In; eassumption. }
  clear H. revert Hbest Hin. generalize (groups ns b perms) as gs0. intros gs0 Hbest.
  induction Hbest as [|s g ss gs [_ [m [Hm [Ht _]]]] _ IH]; intros Hin; constructor.
  - rewrite Ht. unfold group_candidates in *. rewrite map_length in Hm.
    rewrite (nth_indep _ _ (candidate labels (usort labels) (shuffle_draw ntr nte []))) by (rewrite map_length; exact Hm).
    rewrite (map_nth (fun p => candidate labels (usort labels) (shuffle_draw ntr nte p))).
    cbn [candidate snd shuffle_draw].
    assert (Hp : Permutation (nth m g []) (seq 0 (length (usort labels)))) by (apply (Hin g (or_introl eq_refl)), nth_In, Hm).
    destruct (take_perm_firstn (usort labels) (nth m g []) nte (usort_NoDup labels) Hp ltac:(lia)) as [H1 [H2 H3]].
    rewrite n_blocks_where_isin; [exact H2|exact H1|]. intros x Hx. apply usort_In, H3, Hx.
  - apply IH. intros g' Hg'. apply Hin. right. exact Hg'.
Qed.

(** rejection *)
Theorem bss_rejects labels ns b ts tr perms :
  block_shuffle_split labels ns b ts tr perms = None <->
  (b < 1 \/ (ns <> 0 /\ validate_shuffle_split (length (usort labels)) ts tr = None)).
Proof.
  unfold block_shuffle_split. destruct (b <? 1) eqn:E1.
  - apply Nat.ltb_lt in E1. split; [intros _; left; exact E1|reflexivity].
  - apply Nat.ltb_ge in E1. destruct (ns =? 0) eqn:E2.
    + apply Nat.eqb_eq in E2. split; [discriminate|]. intros [Hb|[Hn _]]; [lia|contradiction].
    + apply Nat.eqb_neq in E2.
      destruct (validate_shuffle_split (length (usort labels)) ts tr) as [[a c]|].
      * split; [discriminate|]. intros [Hb|[_ Hn]]; [lia|discriminate].
      * split; [intros _; right; split; [exact E2|reflexivity]|reflexivity].
Qed.

(** [bss_best] with [best_of] unfolded, in terms of the draws of the group *)
Theorem bss_best_explicit labels ns b ts tr perms splits ntr nte :
  block_shuffle_split labels ns b ts tr perms = Some splits -> ns <> 0 ->
  validate_shuffle_split (length (usort labels)) ts tr = Some (ntr, nte) ->
  length perms = ns * b ->
  Forall2 (fun s g => length g = b /\
             exists m, m < length g /\
               let cs := group_candidates labels ntr nte g in
               snd s = snd (nth m cs (0%Q, [])) /\
               (forall j, j < length g -> (fst (nth m cs (0%Q, [])) <= fst (nth j cs (0%Q, [])))%Q) /\
               (forall j, j < m -> (fst (nth m cs (0%Q, [])) < fst (nth j cs (0%Q, [])))%Q))
          splits (groups ns b perms).
Proof.
  intros H Hne Hv Hl. assert (Hb := bss_best _ _ _ _ _ _ _ _ _ H Hne Hv Hl).
  clear H. induction Hb as [|s g ss gs [Hg [m [Hm [Ht [H1 H2]]]]] _ IH]; [constructor|].
  constructor; [|exact IH].
  unfold group_candidates in Hm, H1. rewrite map_length in Hm, H1.
  split; [exact Hg|]. exists m. split; [exact Hm|]. cbn zeta. repeat split; assumption.
Qed.

(** * H. the decidable checks used on observed folds mean what they say *)

Lemma is_perm_seq_spec l n : is_perm_seq l n = true <-> Permutation l (seq 0 n).
Proof.
  unfold is_perm_seq. rewrite !andb_true_iff, nodupb_NoDup, Nat.eqb_eq, forallb_forall. split.
  - intros [[Hn Hl] Hf]. apply NoDup_Permutation_bis; [exact Hn|rewrite seq_length; lia|].
    intros x Hx. apply in_seq. specialize (Hf x Hx). apply Nat.ltb_lt in Hf. lia.
  - intros Hp. repeat split.
    + eapply Permutation_NoDup; [apply Permutation_sym, Hp|apply seq_NoDup].
    + rewrite (Permutation_length Hp). apply seq_length.
    + intros x Hx. apply Nat.ltb_lt. apply (Permutation_in x Hp) in Hx. apply in_seq in Hx. lia.
Qed.

Lemma split_ok_spec labels s :
  split_ok labels s = true <->
  (Permutation (fst s ++ snd s) (seq 0 (length labels)) /\
   forall i j, In i (fst s) -> In j (snd s) -> lab labels i <> lab labels j).
Proof.
  unfold split_ok. rewrite andb_true_iff, is_perm_seq_spec, forallb_forall.
  apply and_iff_compat_l. split.
  - intros H i j Hi Hj E.
    assert (Hb : In (lab labels i) (usort (map (lab labels) (fst s)))) by (apply usort_In, in_map, Hi).
    specialize (H _ Hb). apply negb_true_iff, memb_false in H. apply H.
    apply usort_In. rewrite E. apply in_map, Hj.
  - intros H b Hb. apply negb_true_iff, memb_false. intros Hc.
    apply usort_In, in_map_iff in Hb as [i [<- Hi]]. apply usort_In, in_map_iff in Hc as [j [E Hj]].
    apply (H i j Hi Hj). symmetry. exact E.
Qed.
