(** C03 - proofs about the real-valued kernels of Model/Kernels.v.
    These theorems use the standard library's axiomatic real numbers, so
    [Print Assumptions] lists the stdlib Reals axioms (no axiom of our own). *)
From Coq Require Import Reals Lra Lia List.
From Verde Require Import Model.Kernels.
Import ListNotations.
Open Scope R_scope.

(** ** the biharmonic kernel *)
Lemma ln_pow_self r : 0 < r -> ln (pow_self r) = r * ln r.
Proof.
  intros H. unfold pow_self. destruct (Req_EM_T r 0) as [E|E]; [lra|]. apply ln_exp.
Qed.

Lemma g_small_eq r : 0 < r -> g_small r = r ^ 2 * (ln r - 1).
Proof. intros H. unfold g_small. rewrite ln_pow_self by assumption. ring. Qed.

(** both branches of the code are the documented r^2 (ln r - 1) for r > 0 *)
Lemma g_code_eq r : 0 < r -> g_code r = r ^ 2 * (ln r - 1).
Proof.
  intros H. unfold g_code. destruct (Rlt_dec r 1); [apply g_small_eq; assumption|reflexivity].
Qed.

(** g(0) = 0 without evaluating a logarithm at 0: 0 * (log(0**0) - 0) = 0 * (log 1 - 0) *)
Lemma g_code_0 : g_code 0 = 0.
Proof.
  unfold g_code. destruct (Rlt_dec 0 1) as [_|H]; [|lra].
  unfold g_small, pow_self. destruct (Req_EM_T 0 0) as [_|H]; [|lra].
  rewrite ln_1. ring.
Qed.

(** the documented function with its value at 0 made explicit *)
Definition g_spec (r : R) : R := if Req_EM_T r 0 then 0 else r ^ 2 * (ln r - 1).

Lemma g_code_spec r : 0 <= r -> g_code r = g_spec r.
Proof.
  intros H. unfold g_spec. destruct (Req_EM_T r 0) as [E|E].
  - subst r. apply g_code_0.
  - apply g_code_eq. lra.
Qed.

(** the branch switch at r = 1 is seamless *)
Lemma branches_agree_at_1 : g_small 1 = g_big 1 /\ g_code 1 = -1.
Proof.
  split.
  - rewrite g_small_eq by lra. reflexivity.
  - rewrite g_code_eq by lra. rewrite ln_1. ring.
Qed.

Lemma branches_agree r : 0 < r -> g_small r = g_big r.
Proof. intros H. rewrite g_small_eq by assumption. reflexivity. Qed.

(** g(0) = 0 is the continuous extension: |g r| <= r on [0, 1] *)
Lemma g_code_small_bound r : 0 <= r <= 1 -> Rabs (g_code r) <= r.
Proof.
  intros [H0 H1]. destruct (Req_EM_T r 0) as [E|E].
  - subst r. rewrite g_code_0, Rabs_R0. lra.
  - assert (Hr: 0 < r) by lra. rewrite g_code_eq by assumption.
    assert (Hl: - ln r <= / r - 1).
    { rewrite <- ln_Rinv by assumption.
      assert (Hi: 0 < / r) by (apply Rinv_0_lt_compat; assumption).
      pose proof (exp_ineq1_le (/ r - 1)) as He.
      destruct (Rle_or_lt (ln (/ r)) (/ r - 1)) as [L|G]; [exact L|exfalso].
      apply exp_increasing in G. rewrite exp_ln in G by assumption. lra. }
    assert (Hln: ln r <= 0).
    { destruct (Req_EM_T r 1) as [E1|E1]; [subst r; rewrite ln_1; lra|].
      assert (ln r < ln 1) by (apply ln_increasing; lra). rewrite ln_1 in H. lra. }
    assert (Hx: r * / r = 1) by (apply Rinv_r; lra).
    rewrite Rabs_left1.
    + assert (r * (- ln r) <= r * (/ r - 1)) by (apply Rmult_le_compat_l; lra).
      assert (r * (r * (- ln r)) <= r * (r * (/ r - 1))) by (apply Rmult_le_compat_l; lra).
      replace (r * (r * (/ r - 1))) with (r * (r * / r) - r * r) in H2 by ring.
      rewrite Hx in H2. simpl. lra.
    + assert (0 <= r ^ 2) by (apply pow2_ge_0).
      assert (0 <= r ^ 2 * (1 - ln r)) by (apply Rmult_le_pos; lra). lra.
Qed.

(** ** distances *)
Lemma dist_nonneg dx dy md : 0 <= md -> 0 <= dist dx dy md.
Proof. intros H. unfold dist. pose proof (sqrt_pos (dx * dx + dy * dy)). lra. Qed.

(** a positive mindist keeps the distance positive even for coincident points *)
Lemma dist_pos_mindist dx dy md : 0 < md -> 0 < dist dx dy md.
Proof. intros H. unfold dist. pose proof (sqrt_pos (dx * dx + dy * dy)). lra. Qed.

Lemma dist_pos_apart dx dy md : 0 <= md -> dx <> 0 \/ dy <> 0 -> 0 < dist dx dy md.
Proof.
  intros H Hd. unfold dist.
  assert (0 < dx * dx + dy * dy).
  { destruct Hd as [Hd|Hd].
    - assert (0 < dx * dx) by (destruct (Rtotal_order dx 0) as [L|[E|G]]; [|lra|]; nra).
      assert (0 <= dy * dy) by nra. lra.
    - assert (0 < dy * dy) by (destruct (Rtotal_order dy 0) as [L|[E|G]]; [|lra|]; nra).
      assert (0 <= dx * dx) by nra. lra. }
  pose proof (sqrt_lt_R0 _ H0). lra.
Qed.

Lemma dist_coincident md : dist 0 0 md = md.
Proof. unfold dist. replace (0 * 0 + 0 * 0) with 0 by ring. rewrite sqrt_0. ring. Qed.

Lemma dist_even dx dy md : dist (- dx) (- dy) md = dist dx dy md.
Proof. unfold dist. replace (- dx * - dx + - dy * - dy) with (dx * dx + dy * dy) by ring. reflexivity. Qed.

(** ** Spline.jacobian entries: the documented kernel of the distance (+ mindist) *)
Lemma spline_entry_formula e n fe fn md : 0 <= md ->
  spline_entry e n fe fn md = g_spec (dist (e - fe) (n - fn) md).
Proof. intros H. unfold spline_entry, spline_kernel. apply g_code_spec, dist_nonneg, H. Qed.

(** coincident points with the default mindist = 0 give exactly 0 (finite) *)
Lemma spline_entry_coincident e n : spline_entry e n e n 0 = 0.
Proof.
  unfold spline_entry, spline_kernel. replace (e - e) with 0 by ring. replace (n - n) with 0 by ring.
  rewrite dist_coincident. apply g_code_0.
Qed.

(** the entries depend on coordinate differences only *)
Lemma spline_entry_translation e n fe fn md a b :
  spline_entry (e + a) (n + b) (fe + a) (fn + b) md = spline_entry e n fe fn md.
Proof.
  unfold spline_entry. replace (e + a - (fe + a)) with (e - fe) by ring.
  replace (n + b - (fn + b)) with (n - fn) by ring. reflexivity.
Qed.

Lemma spline_entry_differences e n fe fn e' n' fe' fn' md :
  e - fe = e' - fe' -> n - fn = n' - fn' -> spline_entry e n fe fn md = spline_entry e' n' fe' fn' md.
Proof. intros H1 H2. unfold spline_entry. rewrite H1, H2. reflexivity. Qed.

(** predictions: sum over the forces of force x g(distance) *)
Fixpoint spline_sum (e n md : R) (forces : list (R * R * R)) : R :=
  match forces with
  | [] => 0
  | (fe, fn, f) :: t => f * g_spec (dist (e - fe) (n - fn) md) + spline_sum e n md t
  end.

Lemma spline_predict_is_sum e n md forces : 0 <= md ->
  spline_predict e n md forces = spline_sum e n md forces.
Proof.
  intros H. induction forces as [|[[fe fn] f] t IH]; cbn [spline_predict spline_sum].
  - reflexivity.
  - rewrite IH, spline_entry_formula by assumption. ring.
Qed.

(** ** elastic kernels *)
(** the terms the code computes are Sandwell & Wessel's q, p, w with r = distance + mindist *)
Lemma elastic_formulas dx dy md nu : 0 < dist dx dy md ->
  let r := dist dx dy md in
  g_ee dx dy md nu = (3 - nu) * ln r + (1 + nu) * dy ^ 2 / r ^ 2 /\
  g_nn dx dy md nu = (3 - nu) * ln r + (1 + nu) * dx ^ 2 / r ^ 2 /\
  g_ne dx dy md nu = - (1 + nu) * dx * dy / r ^ 2.
Proof.
  intros H r. unfold g_ee, g_nn, g_ne, el_ln. fold r.
  assert (r <> 0) by (unfold r; lra).
  repeat split; field; assumption.
Qed.

(** with mindist = 0: r^2 = dx^2 + dy^2, the formulas of the paper *)
Lemma elastic_sandwell_wessel dx dy nu : dx <> 0 \/ dy <> 0 ->
  let r2 := dx ^ 2 + dy ^ 2 in
  g_ee dx dy 0 nu = (3 - nu) * ln (sqrt r2) + (1 + nu) * dy ^ 2 / r2 /\
  g_nn dx dy 0 nu = (3 - nu) * ln (sqrt r2) + (1 + nu) * dx ^ 2 / r2 /\
  g_ne dx dy 0 nu = - (1 + nu) * dx * dy / r2.
Proof.
  intros Hd r2.
  pose proof (dist_pos_apart dx dy 0 (Rle_refl 0) Hd) as Hp.
  assert (Es: dx * dx + dy * dy = r2) by (unfold r2; ring).
  assert (Ed: dist dx dy 0 = sqrt r2) by (unfold dist; rewrite Es; ring).
  assert (Hr2: 0 < r2).
  { rewrite Ed in Hp. destruct (Rle_or_lt r2 0) as [L|G]; [|exact G].
    rewrite sqrt_neg_0 in Hp by exact L. lra. }
  assert (E2: sqrt r2 ^ 2 = r2) by (apply pow2_sqrt; lra).
  destruct (elastic_formulas dx dy 0 nu Hp) as (A & B & C).
  rewrite A, B, C, Ed, E2. repeat split; reflexivity.
Qed.

(** the logarithm's argument and the denominator are positive when mindist > 0 *)
Lemma elastic_defined dx dy md : 0 < md -> 0 < dist dx dy md /\ 0 < dist dx dy md ^ 2.
Proof.
  intros H. pose proof (dist_pos_mindist dx dy md H) as Hp. split; [exact Hp|].
  simpl. rewrite Rmult_1_r. apply Rmult_lt_0_compat; assumption.
Qed.

(** the ratios the code forms are bounded by 1 (no overflow however small the distance):
    hence every term but the logarithm is bounded by |1 + nu| *)
Lemma elastic_ratio_bounded dx dy md : 0 <= md -> 0 < dist dx dy md ->
  Rabs (dx / dist dx dy md) <= 1 /\ Rabs (dy / dist dx dy md) <= 1.
Proof.
  intros Hm Hd.
  assert (B: forall a b, Rabs a <= sqrt (a * a + b * b)).
  { intros a b. rewrite <- sqrt_Rsqr_abs. apply sqrt_le_1_alt. unfold Rsqr. nra. }
  assert (Hx: Rabs dx <= dist dx dy md) by (unfold dist; pose proof (B dx dy); lra).
  assert (Hy: Rabs dy <= dist dx dy md).
  { unfold dist. pose proof (B dy dx) as H. replace (dy * dy + dx * dx) with (dx * dx + dy * dy) in H by ring. lra. }
  assert (Hi: 0 < / dist dx dy md) by (apply Rinv_0_lt_compat; exact Hd).
  unfold Rdiv. rewrite !Rabs_mult, (Rabs_right (/ dist dx dy md)) by lra.
  split.
  - apply Rmult_le_reg_r with (dist dx dy md); [exact Hd|].
    rewrite Rmult_assoc, Rinv_l by lra. lra.
  - apply Rmult_le_reg_r with (dist dx dy md); [exact Hd|].
    rewrite Rmult_assoc, Rinv_l by lra. lra.
Qed.

(** coincident points: ee = nn = (3 - nu) ln mindist, ne = 0 *)
Lemma elastic_coincident md nu : 0 < md ->
  g_ee 0 0 md nu = (3 - nu) * ln md /\ g_nn 0 0 md nu = (3 - nu) * ln md /\ g_ne 0 0 md nu = 0.
Proof.
  intros H. unfold g_ee, g_nn, g_ne, el_ln. rewrite dist_coincident.
  assert (md <> 0) by lra. repeat split; field; assumption.
Qed.

(** Poisson ratio -1 uncouples the components *)
Lemma elastic_uncoupled dx dy md : 0 < dist dx dy md ->
  g_ne dx dy md (-1) = 0 /\ g_ee dx dy md (-1) = 4 * ln (dist dx dy md) /\
  g_nn dx dy md (-1) = 4 * ln (dist dx dy md).
Proof.
  intros H. unfold g_ee, g_nn, g_ne, el_ln.
  assert (dist dx dy md <> 0) by lra. repeat split; field; assumption.
Qed.

Lemma g_ee_even dx dy md nu : g_ee (- dx) (- dy) md nu = g_ee dx dy md nu.
Proof. unfold g_ee. rewrite dist_even. unfold Rdiv. ring. Qed.
Lemma g_nn_even dx dy md nu : g_nn (- dx) (- dy) md nu = g_nn dx dy md nu.
Proof. unfold g_nn. rewrite dist_even. unfold Rdiv. ring. Qed.
Lemma g_ne_even dx dy md nu : g_ne (- dx) (- dy) md nu = g_ne dx dy md nu.
Proof. unfold g_ne. rewrite dist_even. unfold Rdiv. ring. Qed.

(** the 2x2 block layout: the same J_ne in both off-diagonal blocks *)
Lemma elastic_block_layout pts forces md nu i j :
  (i < length pts)%nat -> (j < length forces)%nat ->
  let np := length pts in let nf := length forces in
  let dx := fst (nth i pts (0, 0)) - fst (nth j forces (0, 0)) in
  let dy := snd (nth i pts (0, 0)) - snd (nth j forces (0, 0)) in
  vec_entry pts forces md nu i j = g_ee dx dy md nu /\
  vec_entry pts forces md nu i (nf + j) = g_ne dx dy md nu /\
  vec_entry pts forces md nu (np + i) j = g_ne dx dy md nu /\
  vec_entry pts forces md nu (np + i) (nf + j) = g_nn dx dy md nu.
Proof.
  intros Hi Hj np nf dx dy. unfold vec_entry. fold np nf.
  assert (A: Nat.ltb i np = true) by (apply Nat.ltb_lt; assumption).
  assert (B: Nat.ltb j nf = true) by (apply Nat.ltb_lt; assumption).
  assert (A': Nat.ltb (np + i) np = false) by (apply Nat.ltb_ge; lia).
  assert (B': Nat.ltb (nf + j) nf = false) by (apply Nat.ltb_ge; lia).
  rewrite A, B, A', B'.
  replace (np + i - np)%nat with i by lia. replace (nf + j - nf)%nat with j by lia.
  repeat split; reflexivity.
Qed.

(** forces under the data points: the whole (2n) x (2n) matrix is symmetric *)
Lemma elastic_symmetric pts md nu i j :
  vec_entry pts pts md nu i j = vec_entry pts pts md nu j i.
Proof.
  unfold vec_entry.
  set (n := length pts).
  set (pi := nth (if Nat.ltb i n then i else (i - n)%nat) pts (0, 0)).
  set (pj := nth (if Nat.ltb j n then j else (j - n)%nat) pts (0, 0)).
  replace (fst pj - fst pi) with (- (fst pi - fst pj)) by ring.
  replace (snd pj - snd pi) with (- (snd pi - snd pj)) by ring.
  destruct (Nat.ltb i n), (Nat.ltb j n);
    first [rewrite g_ee_even|rewrite g_nn_even|rewrite g_ne_even]; reflexivity.
Qed.

(** depends on coordinate differences only *)
Definition shift (a b : R) (p : R * R) : R * R := (fst p + a, snd p + b).

Lemma vec_entry_translation pts forces md nu a b i j :
  (i < 2 * length pts)%nat -> (j < 2 * length forces)%nat ->
  vec_entry (map (shift a b) pts) (map (shift a b) forces) md nu i j = vec_entry pts forces md nu i j.
Proof.
  intros Hi Hj. unfold vec_entry. rewrite !map_length.
  set (np := length pts) in *. set (nf := length forces) in *.
  set (ki := if Nat.ltb i np then i else (i - np)%nat).
  set (kj := if Nat.ltb j nf then j else (j - nf)%nat).
  assert (Hki: (ki < np)%nat).
  { unfold ki. destruct (Nat.ltb i np) eqn:E; [apply Nat.ltb_lt in E|apply Nat.ltb_ge in E]; lia. }
  assert (Hkj: (kj < nf)%nat).
  { unfold kj. destruct (Nat.ltb j nf) eqn:E; [apply Nat.ltb_lt in E|apply Nat.ltb_ge in E]; lia. }
  rewrite (nth_indep (map (shift a b) pts) (0, 0) (shift a b (0, 0))) by (rewrite map_length; exact Hki).
  rewrite (nth_indep (map (shift a b) forces) (0, 0) (shift a b (0, 0))) by (rewrite map_length; exact Hkj).
  rewrite !map_nth. unfold shift; cbn [fst snd].
  set (p := nth ki pts (0, 0)). set (f := nth kj forces (0, 0)).
  replace (fst p + a - (fst f + a)) with (fst p - fst f) by ring.
  replace (snd p + b - (snd f + b)) with (snd p - snd f) by ring.
  reflexivity.
Qed.

(** ** CheckerBoard *)
Lemma checker_default_formula amp w e_ s n_ e n :
  checker_default amp w e_ s n_ e n =
  amp * sin (2 * PI / ((e_ - w) / 2) * e) * cos (2 * PI / ((n_ - s) / 2) * n).
Proof. reflexivity. Qed.

(** the four option combinations: a given wavelength is used as given whatever the other option is,
    an omitted one is half of the region's extent in ITS direction *)
Lemma checker_options amp w e_ s n_ we wn e n :
  checker_opt amp w e_ s n_ None None e n = checker amp ((e_ - w) / 2) ((n_ - s) / 2) e n /\
  checker_opt amp w e_ s n_ (Some we) None e n = checker amp we ((n_ - s) / 2) e n /\
  checker_opt amp w e_ s n_ None (Some wn) e n = checker amp ((e_ - w) / 2) wn e n /\
  checker_opt amp w e_ s n_ (Some we) (Some wn) e n = checker amp we wn e n.
Proof. repeat split; reflexivity. Qed.

(** periodic with the stated wavelengths *)
Lemma checker_periodic amp we wn e n : we <> 0 -> wn <> 0 ->
  checker amp we wn (e + we) n = checker amp we wn e n /\
  checker amp we wn e (n + wn) = checker amp we wn e n.
Proof.
  intros He Hn. unfold checker. split.
  - replace (2 * PI / we * (e + we)) with (2 * PI / we * e + 2 * PI) by (field; assumption).
    rewrite sin_plus, sin_2PI, cos_2PI. ring.
  - replace (2 * PI / wn * (n + wn)) with (2 * PI / wn * n + 2 * PI) by (field; assumption).
    rewrite cos_plus, sin_2PI, cos_2PI. ring.
Qed.
