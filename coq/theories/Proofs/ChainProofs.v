(** Proofs about Chain, Vector and filter composition (C06). *)
From Coq Require Import QArith List Bool Lia Lqa Morphisms.
From Verde Require Import Lib.QExtra Model.Chain.
Import ListNotations.
Open Scope Q_scope.

(** equality of tuples of components up to [==], and equality of shapes *)
Definition ceq (a b : comps) : Prop := Forall2 (Forall2 Qeq) a b.
Definition same_shape (a b : comps) : Prop := Forall2 (fun u v : list Q => length u = length v) a b.

Lemma Forall2_Qeq_refl l : Forall2 Qeq l l.
Proof. induction l; constructor; [reflexivity|assumption]. Qed.
Lemma ceq_refl a : ceq a a.
Proof. induction a; constructor; [apply Forall2_Qeq_refl|assumption]. Qed.
Lemma Forall2_Qeq_trans a b c : Forall2 Qeq a b -> Forall2 Qeq b c -> Forall2 Qeq a c.
Proof.
  intros H. revert c. induction H; intros c Hc; inversion Hc; subst; constructor.
  - etransitivity; eassumption.
  - apply IHForall2; assumption.
Qed.
Lemma ceq_trans a b c : ceq a b -> ceq b c -> ceq a c.
Proof.
  intros H. revert c. induction H; intros c Hc; inversion Hc; subst; constructor.
  - eapply Forall2_Qeq_trans; eassumption.
  - apply IHForall2; assumption.
Qed.
Lemma Forall2_Qeq_sym a b : Forall2 Qeq a b -> Forall2 Qeq b a.
Proof. induction 1; constructor; [symmetry; assumption|assumption]. Qed.
Lemma ceq_sym a b : ceq a b -> ceq b a.
Proof. induction 1; constructor; [apply Forall2_Qeq_sym; assumption|assumption]. Qed.

Lemma same_shape_refl a : same_shape a a.
Proof. induction a; constructor; auto. Qed.
Lemma same_shape_sym a b : same_shape a b -> same_shape b a.
Proof. induction 1; constructor; auto. Qed.
Lemma same_shape_trans a b c : same_shape a b -> same_shape b c -> same_shape a c.
Proof.
  intros H. revert c. induction H as [|x y a b Hl H IH]; intros c Hc; inversion Hc; subst.
  - constructor.
  - constructor; [congruence|apply IH; assumption].
Qed.

(** ** point-wise algebra *)
Lemma row_sub_add (d p : list Q) : length d = length p ->
  Forall2 Qeq (map (fun q => fst q + snd q) (combine p (map (fun q => fst q - snd q) (combine d p)))) d.
Proof.
  revert p. induction d as [|x d IH]; intros [|y p] H; try discriminate; cbn; constructor.
  - cbn. ring.
  - apply IH. cbn in H. lia.
Qed.

Lemma vadd_vsub d p : same_shape d p -> ceq (vadd p (vsub d p)) d.
Proof.
  induction 1 as [|x y d p Hl H IH]; cbn; constructor.
  - cbn. apply row_sub_add. exact Hl.
  - exact IH.
Qed.

Lemma vsub_shape d p : same_shape d p -> same_shape d (vsub d p).
Proof.
  induction 1 as [|x y d p Hl H IH]; cbn; constructor; [|exact IH].
  cbn. rewrite map_length, combine_length. lia.
Qed.

Lemma row_add_comp a a' b b' : Forall2 Qeq a a' -> Forall2 Qeq b b' ->
  Forall2 Qeq (map (fun q => fst q + snd q) (combine a b)) (map (fun q => fst q + snd q) (combine a' b')).
Proof.
  intros H. revert b b'. induction H; intros b b' Hb; cbn; [constructor|].
  inversion Hb; subst; cbn; constructor; [cbn; rewrite H, H1; reflexivity|apply IHForall2; assumption].
Qed.

Lemma vadd_comp a a' b b' : ceq a a' -> ceq b b' -> ceq (vadd a b) (vadd a' b').
Proof.
  intros H. revert b b'. induction H; intros b b' Hb; cbn; [constructor|].
  inversion Hb; subst; cbn; constructor; [cbn; apply row_add_comp; assumption|apply IHForall2; assumption].
Qed.

Lemma row_add_assoc (a b c : list Q) : length a = length b -> length b = length c ->
  Forall2 Qeq (map (fun q => fst q + snd q) (combine (map (fun q => fst q + snd q) (combine a b)) c))
              (map (fun q => fst q + snd q) (combine a (map (fun q => fst q + snd q) (combine b c)))).
Proof.
  revert b c. induction a as [|x a IH]; intros [|y b] [|z c] H1 H2; try discriminate; cbn; constructor.
  - cbn. ring.
  - apply IH; cbn in *; lia.
Qed.

Lemma vadd_assoc a b c : same_shape a b -> same_shape b c -> ceq (vadd (vadd a b) c) (vadd a (vadd b c)).
Proof.
  intros H. revert c. induction H as [|x y a b Hl H IH]; intros c Hc; inversion Hc; subst; cbn; constructor.
  - cbn. apply row_add_assoc; assumption.
  - apply IH. assumption.
Qed.

Lemma vadd_shape a b : same_shape a b -> same_shape a (vadd a b).
Proof.
  induction 1 as [|x y a b Hl H IH]; cbn; constructor; [|exact IH].
  cbn. rewrite map_length, combine_length. lia.
Qed.

Lemma row_zero_add (p : list Q) :
  Forall2 Qeq (map (fun q => fst q + snd q) (combine (map (fun _ => 0) p) p)) p.
Proof. induction p; cbn; constructor; [cbn; ring|assumption]. Qed.

Lemma vadd_zero p : ceq (vadd (map (map (fun _ => 0)) p) p) p.
Proof. induction p; cbn; constructor; [cbn; apply row_zero_add|assumption]. Qed.

Lemma nth_map_dflt {A B} (f : A -> B) (l : list A) i d d' :
  (i < length l)%nat -> nth i (map f l) d = f (nth i l d').
Proof. intros H. rewrite (nth_indep _ d (f d')) by (rewrite map_length; exact H). apply map_nth. Qed.

Section WithC.
Variable C : Type.
Notation args := (args C).
Notation step := (step C).

(** ** filter contract: coordinates and weights returned as given, data minus
    prediction, in the data's shape *)
Theorem filter_contract (fit : args -> predictor C) (a : args) :
  a_coords (base_filter fit a) = a_coords a /\
  a_weights (base_filter fit a) = a_weights a /\
  a_data (base_filter fit a) = vsub (a_data a) (fit a (a_coords a)) /\
  (same_shape (a_data a) (fit a (a_coords a)) ->
   same_shape (a_data a) (a_data (base_filter fit a)) /\
   ceq (vadd (fit a (a_coords a)) (a_data (base_filter fit a))) (a_data a)).
Proof.
  repeat split; try reflexivity.
  - apply vsub_shape. assumption.
  - apply vadd_vsub. assumption.
Qed.

(** ** Chain.fit threads the arguments: step k is fitted on exactly what the
    previous step's filter returned *)
Theorem chain_inputs_length (steps : list step) a : length (chain_inputs steps a) = length steps.
Proof. revert a. induction steps as [|s t IH]; intros a; cbn; [reflexivity|rewrite IH; reflexivity]. Qed.

Theorem chain_threads (steps : list step) a :
  (forall s t, steps = s :: t -> nth_error (chain_inputs steps a) 0 = Some a) /\
  (forall k s ak, nth_error steps k = Some s -> nth_error (chain_inputs steps a) k = Some ak ->
     (forall a', nth_error (chain_inputs steps a) (S k) = Some a' -> a' = sfilter s ak) /\
     (S k = length steps -> chain_final steps a = sfilter s ak)).
Proof.
  split.
  - intros s t ->. reflexivity.
  - revert a. induction steps as [|s0 t IH]; intros a k s ak Hs Hk; [destruct k; discriminate|].
    destruct k as [|k].
    + cbn in Hs, Hk. injection Hs as <-. injection Hk as <-. split.
      * intros a' H. cbn in H. destruct t as [|s1 t']; [discriminate|]. cbn in H. injection H as <-. reflexivity.
      * intros Hl. cbn in Hl. destruct t; [reflexivity|discriminate].
    + cbn in Hs, Hk. destruct (IH (sfilter s0 a) k s ak Hs Hk) as [H1 H2]. split.
      * intros a' H. apply H1. exact H.
      * intros Hl. cbn [chain_final]. apply H2. cbn in Hl. lia.
Qed.

(** ** Chain.predict is the sum of the predictions of the predicting steps,
    each fitted on its own threaded input *)
Fixpoint pred_list (steps : list step) (a : args) (q : C) : list comps :=
  match steps with
  | [] => []
  | Gridder fit :: t => fit a q :: pred_list t (base_filter fit a) q
  | Reduction f :: t => pred_list t (f a) q
  end.

Theorem chain_predict_sum (steps : list step) a q :
  chain_predict steps a q = fold_left acc_add (pred_list steps a q) None.
Proof.
  unfold chain_predict. generalize (@None comps) as acc. revert a.
  induction steps as [|[fit|f] t IH]; intros a acc; cbn; [reflexivity| |]; apply IH.
Qed.

(** the predictions summed are exactly those of the steps fitted on the threaded inputs *)
Theorem pred_list_inputs (steps : list step) a q :
  pred_list steps a q =
  flat_map (fun p => match fst p with Gridder fit => [fit (snd p) q] | Reduction _ => [] end)
           (combine steps (chain_inputs steps a)).
Proof.
  revert a. induction steps as [|[fit|f] t IH]; intros a; cbn; [reflexivity| |]; rewrite IH; reflexivity.
Qed.

(** reductions in front only change the arguments the rest is fitted on *)
Theorem chain_leading_reductions (rs : list (args -> args)) (rest : list step) a q :
  let a' := fold_left (fun x f => f x) rs a in
  chain_predict (map Reduction rs ++ rest) a q = chain_predict rest a' q /\
  chain_final (map Reduction rs ++ rest) a = chain_final rest a'.
Proof.
  revert a. induction rs as [|f rs IH]; intros a; cbn; [split; reflexivity|].
  unfold chain_predict in *. cbn. apply IH.
Qed.

(** ** telescoping: for a chain of gridders, prediction at the data plus the
    last step's residual equals the data *)
Section Telescope.
Variable fits : list (args -> predictor C).
(** gridders predict in the shape of the data at the data's coordinates
    (BaseGridder.filter reshapes the prediction to the data's shape) *)
Hypothesis shape_ok : forall fit a, In fit fits -> same_shape (a_data a) (fit a (a_coords a)).

Lemma coords_fixed (l : list (args -> predictor C)) a :
  a_coords (chain_final (map Gridder l) a) = a_coords a.
Proof. revert a. induction l as [|f l IH]; intros a; cbn; [reflexivity|rewrite IH; reflexivity]. Qed.

Lemma telescope_from (l : list (args -> predictor C)) : (forall f, In f l -> In f fits) ->
  forall a acc d0, same_shape d0 acc -> same_shape d0 (a_data a) ->
  ceq (vadd acc (a_data a)) d0 ->
  match chain_predict_from (Some acc) (map Gridder l) a (a_coords a) with
  | Some P => ceq (vadd P (a_data (chain_final (map Gridder l) a))) d0
  | None => False
  end.
Proof.
  induction l as [|f l IH]; intros Hin a acc d0 Hs1 Hs2 Hc; cbn.
  - exact Hc.
  - assert (Hf: In f fits) by (apply Hin; left; reflexivity).
    pose proof (shape_ok f a Hf) as Hp.
    set (p := f a (a_coords a)) in *.
    refine (IH _ (base_filter f a) (vadd acc p) d0 _ _ _).
    + intros g Hg. apply Hin. right. exact Hg.
    + eapply same_shape_trans; [exact Hs1|]. apply vadd_shape.
      eapply same_shape_trans; [apply same_shape_sym; exact Hs1|].
      eapply same_shape_trans; [exact Hs2|exact Hp].
    + cbn. eapply same_shape_trans; [exact Hs2|]. apply vsub_shape. exact Hp.
    + cbn [base_filter a_data].
      eapply ceq_trans; [apply vadd_assoc|].
      * eapply same_shape_trans; [apply same_shape_sym; exact Hs1|].
        eapply same_shape_trans; [exact Hs2|exact Hp].
      * eapply same_shape_trans; [apply same_shape_sym; exact Hp|]. apply vsub_shape. exact Hp.
      * eapply ceq_trans; [|exact Hc]. apply vadd_comp; [apply ceq_refl|].
        apply vadd_vsub. exact Hp.
Qed.

Theorem chain_telescopes a : fits <> [] ->
  match chain_predict (map Gridder fits) a (a_coords a) with
  | Some P => ceq (vadd P (a_data (chain_final (map Gridder fits) a))) (a_data a)
  | None => False
  end.
Proof.
  assert (G: forall l0, (forall g, In g l0 -> In g fits) -> l0 <> [] ->
    match chain_predict (map Gridder l0) a (a_coords a) with
    | Some P => ceq (vadd P (a_data (chain_final (map Gridder l0) a))) (a_data a)
    | None => False
    end).
  2:{ intros Hne. apply G; [auto|exact Hne]. }
  intros [|f l] Hin Hne; [congruence|].
  unfold chain_predict. cbn [map chain_predict_from chain_final acc_add].
  assert (Hf: In f fits) by (apply Hin; left; reflexivity).
  pose proof (shape_ok f a Hf) as Hp.
  set (p := f a (a_coords a)) in *.
  assert (Hz: ceq (vadd (map (map (fun _ => 0)) p) p) p) by apply vadd_zero.
  assert (Hzs: same_shape p (vadd (map (map (fun _ => 0)) p) p)).
  { clear. induction p as [|r p IH]; cbn; constructor; [|exact IH].
    cbn. rewrite map_length, combine_length, map_length. lia. }
  refine (telescope_from l _ (base_filter f a) _ (a_data a) _ _ _).
  - intros g Hg. apply Hin. right. exact Hg.
  - eapply same_shape_trans; [exact Hp|exact Hzs].
  - cbn. apply vsub_shape. exact Hp.
  - cbn [base_filter a_data]. fold p.
    eapply ceq_trans; [apply vadd_comp; [exact Hz|apply ceq_refl]|].
    apply vadd_vsub. exact Hp.
Qed.
End Telescope.

(** ** Vector: component i sees data[i] and weights[i] only, and the prediction
    tuple is the tuple of the separately fitted components' predictions *)
Theorem vector_components (components : list (args -> predictor C)) a q i dflt :
  (i < length components)%nat ->
  nth i (vector_predict components a q) [] =
  hd [] (nth i components dflt {| a_coords := a_coords a;
                                 a_data := [nth i (a_data a) []];
                                 a_weights := nth_weight (a_weights a) i |} q).
Proof.
  intros Hi. unfold vector_predict, vector_fit. rewrite map_map.
  rewrite (nth_map_dflt _ _ _ _ (0%nat, dflt)) by (rewrite combine_length, seq_length; lia).
  rewrite combine_nth by (rewrite seq_length; reflexivity).
  rewrite seq_nth by exact Hi. cbn [fst snd Nat.add]. reflexivity.
Qed.

Theorem vector_length (components : list (args -> predictor C)) a q :
  length (vector_predict components a q) = length components.
Proof.
  unfold vector_predict, vector_fit. rewrite !map_length, combine_length, seq_length. lia.
Qed.

(** no leak between components: changing the other components' data or
    weights does not change component i *)
Theorem vector_no_leak (components : list (args -> predictor C)) c d d' w w' q i :
  (i < length components)%nat ->
  nth i d [] = nth i d' [] -> nth_weight w i = nth_weight w' i ->
  nth i (vector_predict components {| a_coords := c; a_data := d; a_weights := w |} q) [] =
  nth i (vector_predict components {| a_coords := c; a_data := d'; a_weights := w' |} q) [].
Proof.
  intros Hi Hd Hw.
  rewrite !(vector_components _ _ _ _ (fun _ _ => []) Hi). cbn [a_coords a_data a_weights].
  rewrite Hd, Hw. reflexivity.
Qed.

End WithC.
