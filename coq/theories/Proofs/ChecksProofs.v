(** C20 (d): exact characterisations of verde's argument checks. *)
From Coq Require Import List Bool Arith ZArith QArith Lia.
From Verde Require Import Lib.Verdict Lib.Dyadic Model.Checks.
Close Scope Q_scope.
Import ListNotations.

Lemma shape_eqb_eq : forall a b, shape_eqb a b = true <-> a = b.
Proof. apply list_eqb_spec. intros x y. apply Nat.eqb_eq. Qed.

Lemma shape_eqb_refl : forall a, shape_eqb a a = true.
Proof. intro a. apply shape_eqb_eq. reflexivity. Qed.

Lemma shape_eqb_size : forall a b, shape_eqb a b = true -> Nat.eqb (size a) (size b) = true.
Proof. intros a b H. apply shape_eqb_eq in H. subst. apply Nat.eqb_refl. Qed.

Lemma check_coordinates_iff : forall l, check_coordinates l = true <-> same_shapes l.
Proof.
  intros [|s0 t]; unfold same_shapes; cbn [check_coordinates].
  - split; [intros _ a b []|reflexivity].
  - rewrite forallb_forall. split.
    + intros H a b Ha Hb. apply H in Ha, Hb. apply shape_eqb_eq in Ha, Hb. congruence.
    + intros H x Hx. apply shape_eqb_eq. apply H; [exact Hx|left; reflexivity].
Qed.

Lemma data_ok_iff : forall c d, data_ok c d = true <-> data_matches c d.
Proof.
  intros c [|d0 dt]; unfold data_matches.
  - cbn. split; [left; reflexivity|reflexivity].
  - destruct c as [|s0 t]; cbn [data_ok].
    + split; [discriminate|]. intros [E|(s & t & E & _)]; discriminate.
    + rewrite forallb_forall. split.
      * intro H. right. exists s0, t. split; [reflexivity|]. intros x Hx. apply shape_eqb_eq. apply H. exact Hx.
      * intros [E|(s & t' & E & H)]; [discriminate|]. injection E as <- <-.
        intros x Hx. apply shape_eqb_eq. apply H. exact Hx.
Qed.

Lemma existsb_is_some_false : forall (l : list (option shape)),
  existsb is_some l = false <-> forall w, In w l -> w = None.
Proof.
  induction l as [|[s|] t IH]; cbn.
  - split; [intros _ w []|reflexivity].
  - split; [discriminate|]. intro H. specialize (H (Some s) (or_introl eq_refl)). discriminate.
  - rewrite IH. split.
    + intros H w [<-|Hw]; [reflexivity|apply H; exact Hw].
    + intros H w Hw. apply H. right. exact Hw.
Qed.

Lemma fitsb_iff : forall ws d, fitsb ws d = true <-> weight_fits ws d.
Proof.
  intros ws d. unfold fitsb, weight_fits. rewrite orb_true_iff, !shape_eqb_eq. tauto.
Qed.

Lemma forallb_false_witness : forall {A} (f : A -> bool) l,
  forallb f l = false -> exists x, In x l /\ f x = false.
Proof.
  intros A f l. induction l as [|y t IH]; [discriminate|]. cbn. intro H.
  apply andb_false_iff in H as [H|H].
  - exists y. split; [left; reflexivity|exact H].
  - destruct (IH H) as (z & Hz & E). exists z. split; [right; exact Hz|exact E].
Qed.

Lemma weights_ok_iff : forall d w, weights_ok d w = true <-> weights_match d w.
Proof.
  intros d w. unfold weights_ok, weights_match. destruct (existsb is_some w) eqn:Ex.
  - rewrite andb_true_iff, Nat.eqb_eq, forallb_forall. split.
    + intros [Hl H]. right. split; [exact Hl|]. intros x y Hx Hy. specialize (H x Hx).
      rewrite forallb_forall in H. apply fitsb_iff. apply H. exact Hy.
    + intros [H|[Hl H]].
      * apply existsb_is_some_false in H. congruence.
      * split; [exact Hl|]. intros x Hx. apply forallb_forall. intros y Hy. apply fitsb_iff. apply H; assumption.
  - split; [|reflexivity]. intros _. left. apply existsb_is_some_false. exact Ex.
Qed.

Lemma weights_strict_iff : forall d w, weights_strict d w = true <-> weights_match_strict d w.
Proof.
  intros d w. unfold weights_strict, weights_match_strict. destruct (existsb is_some w) eqn:Ex.
  - rewrite andb_true_iff, Nat.eqb_eq, forallb_forall. split.
    + intros [Hl H]. right. split; [exact Hl|]. intros x Hx. specialize (H x Hx).
      destruct x as [ws|]; [|discriminate]. exists ws. split; [reflexivity|].
      rewrite forallb_forall in H. intros y Hy. apply fitsb_iff. apply H. exact Hy.
    + intros [H|[Hl H]].
      * apply existsb_is_some_false in H. congruence.
      * split; [exact Hl|]. intros x Hx. destruct (H x Hx) as (ws & -> & Hd).
        apply forallb_forall. intros y Hy. apply fitsb_iff. apply Hd. exact Hy.
  - split; [|reflexivity]. intros _. left. apply existsb_is_some_false. exact Ex.
Qed.

(** check_fit_input accepts exactly: coordinates of one shape, every data
    component of that shape, and weights absent or one per component, each
    with the component's shape or its raveled 1-D form (a None among arrays
    counting as a 0-d array) *)
Theorem check_fit_input_iff : forall c d w,
  check_fit_input c d w = true <-> fit_input_consistent c d w.
Proof.
  intros c d w. unfold check_fit_input, fit_input_consistent.
  rewrite !andb_true_iff, check_coordinates_iff, data_ok_iff, weights_ok_iff. tauto.
Qed.

Theorem fit_input_strict_iff : forall c d w,
  fit_input_strict c d w = true <-> fit_input_consistent_strict c d w.
Proof.
  intros c d w. unfold fit_input_strict, fit_input_consistent_strict.
  rewrite !andb_true_iff, check_coordinates_iff, data_ok_iff, weights_strict_iff. tauto.
Qed.

(** everything that is consistent in the strict sense is accepted ... *)
Theorem strict_accepted : forall c d w,
  fit_input_consistent_strict c d w -> check_fit_input c d w = true.
Proof.
  intros c d w (H1 & H2 & H3). apply check_fit_input_iff. split; [exact H1|split; [exact H2|]].
  destruct H3 as [H|[Hl H]]; [left; exact H|right]. split; [exact Hl|].
  intros x y Hx Hy. destruct (H x Hx) as (ws & -> & Hd). apply Hd. exact Hy.
Qed.

(** ... every accepted weight ARRAY is aligned with every data component (no
    same-size-other-shape gap any more) ... *)
Theorem accepted_weights_aligned : forall c d w ws dd,
  check_fit_input c d w = true -> In (Some ws) w -> In dd d -> weight_fits ws dd.
Proof.
  intros c d w ws dd H Hw Hd. apply check_fit_input_iff in H as (_ & _ & [H|[_ H]]).
  - specialize (H _ Hw). discriminate.
  - apply (H (Some ws) dd Hw Hd).
Qed.

(** ... and the only input accepted beyond the strict specification is a None
    among weight arrays when every data component is a 0-d array *)
Theorem fit_input_gap : forall c d w,
  check_fit_input c d w = true -> fit_input_strict c d w = false ->
  In None w /\ existsb is_some w = true /\ forall dd, In dd d -> dd = [].
Proof.
  intros c d w Hc Hs. unfold check_fit_input, fit_input_strict in *.
  apply andb_true_iff in Hc as [Hc Hw]. rewrite Hc in Hs. cbn in Hs.
  unfold weights_ok, weights_strict in *.
  destruct (existsb is_some w) eqn:Ex; [|discriminate].
  apply andb_true_iff in Hw as [Hl Hw]. rewrite Hl in Hs. cbn in Hs.
  rewrite forallb_forall in Hw.
  destruct (forallb_false_witness _ _ Hs) as (x & Hx & E).
  specialize (Hw x Hx). destruct x as [ws|]; [cbn in Hw; congruence|].
  split; [exact Hx|split; [reflexivity|]]. intros dd Hd. cbn in Hw. rewrite forallb_forall in Hw.
  specialize (Hw dd Hd). apply fitsb_iff in Hw. destruct Hw as [Hw|Hw]; [symmetry; exact Hw|discriminate].
Qed.

Theorem check_data_names_iff : forall n names,
  check_data_names n names = true <-> names = Some n.
Proof.
  intros n [m|]; cbn; [rewrite Nat.eqb_eq|]; split; intro H; try congruence; try discriminate.
Qed.

Theorem check_extra_coords_names_iff : forall n names,
  check_extra_coords_names n names = true <-> names = Some (n - 2).
Proof.
  intros n [m|]; cbn; [rewrite Nat.eqb_eq|]; split; intro H; try congruence; try discriminate.
Qed.

Theorem check_region_iff : forall r, check_region r = true <-> region_valid r.
Proof.
  intro r. unfold region_valid. split.
  - destruct r as [|w [|e [|s [|n [|x t]]]]]; cbn; try discriminate.
    intro H. apply andb_true_iff in H as [H1 H2]. apply Z.leb_le in H1, H2.
    exists w, e, s, n. repeat split; assumption.
  - intros (w & e & s & n & -> & H1 & H2). cbn. apply andb_true_iff. split; apply Z.leb_le; assumption.
Qed.

(** on exact doubles: accepted iff W <= E and S <= N as real numbers - an
    inversion by a single ulp is rejected, equality is accepted *)
Theorem check_region_d_iff : forall r, check_region_d r = true <-> region_valid_d r.
Proof.
  intro r. unfold region_valid_d. split.
  - destruct r as [|w [|e [|s [|n [|x t]]]]]; cbn; try discriminate.
    intro H. apply andb_true_iff in H as [H1 H2]. apply dle_spec in H1. apply dle_spec in H2.
    exists w, e, s, n. repeat split; assumption.
  - intros (w & e & s & n & -> & H1 & H2). cbn. apply andb_true_iff. split; apply dle_spec; assumption.
Qed.

Theorem one_of_iff : forall a b, one_of a b = true <-> (a = true /\ b = false) \/ (a = false /\ b = true).
Proof. intros [|] [|]; cbn; split; intro H; try discriminate; try tauto; destruct H as [[? ?]|[? ?]]; discriminate. Qed.

Theorem grid_args_iff : forall r sh sp,
  grid_args r sh sp = true <->
  region_valid r /\ ((sh = true /\ sp = None) \/ (sh = false /\ exists n, sp = Some n /\ n <= 2)).
Proof.
  intros r sh sp. unfold grid_args. rewrite !andb_true_iff, check_region_iff, one_of_iff.
  destruct sh, sp as [n|]; cbn; split.
  all: try (intros [[H [[? ?]|[? ?]]] ?]; discriminate).
  all: try (intros [H [[? ?]|[? (m & ? & ?)]]]; discriminate).
  - intros [[H _] _]. split; [exact H|left; split; reflexivity].
  - intros [H _]. split; [split; [exact H|left; split; reflexivity]|reflexivity].
  - intros [[H _] Hn]. apply Nat.leb_le in Hn. split; [exact H|right; split; [reflexivity|exists n; split; [reflexivity|exact Hn]]].
  - intros [H [[? ?]|[_ (m & E & Hm)]]]; [discriminate|]. injection E as ->.
    split; [split; [exact H|right; split; reflexivity]|apply Nat.leb_le; exact Hm].
Qed.

Theorem vectorspline_fit_iff : forall c d w,
  vectorspline_fit c d w = true <-> fit_input_consistent c d w /\ length d = 2.
Proof.
  intros c d w. unfold vectorspline_fit. rewrite andb_true_iff, check_fit_input_iff, Nat.eqb_eq. tauto.
Qed.

Theorem vector_fit_iff : forall n c d w,
  vector_fit n c d w = true <-> fit_input_consistent c d w /\ length d = n.
Proof.
  intros n c d w. unfold vector_fit. rewrite andb_true_iff, check_fit_input_iff, Nat.eqb_eq. tauto.
Qed.

(** meaning of an [ok] verdict of the malformed stream *)
Theorem c20_check_case_ok : forall c obs,
  c20_check_case c obs = Vok -> run c = obs /\ (consistentb c = false -> obs = false).
Proof.
  intros c obs. unfold c20_check_case, mk_verdict.
  destruct (Bool.eqb (run c) obs) eqn:E; destruct (consistentb c || negb obs) eqn:H; try discriminate.
  intros _. split; [apply eqb_prop; exact E|]. intro Hc. rewrite Hc in H. cbn in H.
  destruct obs; [discriminate|reflexivity].
Qed.

(** strictly consistent calls are accepted by the code (no false rejections) *)
Theorem consistent_accepted : forall c, consistentb c = true -> run c = true.
Proof.
  intros [co d w|co|n nm|n nm|r|r|r sh sp|sh sp|co d w|k co d w]; cbn; try (intro H; exact H).
  - intro H. apply strict_accepted. apply fit_input_strict_iff. exact H.
  - intro H. apply andb_true_iff in H as [H1 H2]. unfold vectorspline_fit. rewrite H2, andb_true_r.
    apply strict_accepted. apply fit_input_strict_iff. exact H1.
  - intro H. apply andb_true_iff in H as [H1 H2]. unfold vector_fit. rewrite H2, andb_true_r.
    apply strict_accepted. apply fit_input_strict_iff. exact H1.
Qed.
