(** C20 (b): soundness of the frame analysis. *)
From Coq Require Import List Bool Arith String Lia.
From Verde Require Import Model.Frames.
Import ListNotations.
Open Scope string_scope.
Open Scope list_scope.

Lemma mem_cons : forall a b l, mem a (b :: l) = String.eqb a b || mem a l.
Proof. reflexivity. Qed.

Lemma mem_in : forall a l, mem a l = true <-> In a l.
Proof.
  intros a l. unfold mem. rewrite existsb_exists. split.
  - intros (x & Hx & E). apply String.eqb_eq in E. subst. exact Hx.
  - intro H. exists a. split; [exact H|apply String.eqb_refl].
Qed.

Lemma mem_app : forall a l1 l2, mem a (l1 ++ l2) = mem a l1 || mem a l2.
Proof. intros. unfold mem. apply existsb_app. Qed.

Lemma mem_inter : forall a l1 l2, mem a (inter l1 l2) = mem a l1 && mem a l2.
Proof.
  intros a l1 l2. destruct (mem a (inter l1 l2)) eqn:E.
  - apply mem_in in E. unfold inter in E. apply filter_In in E as [E1 E2].
    apply mem_in in E1. rewrite E1, E2. reflexivity.
  - destruct (mem a l1) eqn:E1; [|reflexivity]. destruct (mem a l2) eqn:E2; [|reflexivity].
    assert (H : mem a (inter l1 l2) = true).
    { apply mem_in. unfold inter. apply filter_In. split; [apply mem_in; exact E1|exact E2]. }
    congruence.
Qed.

Lemma subset_mem : forall l1 l2, subset l1 l2 = true -> forall a, mem a l1 = true -> mem a l2 = true.
Proof.
  intros l1 l2 H a Ha. unfold subset in H. rewrite forallb_forall in H. apply H. apply mem_in. exact Ha.
Qed.

Lemma upd_same : forall s a v, upd s a v a = v.
Proof. intros. unfold upd. rewrite String.eqb_refl. reflexivity. Qed.

Lemma upd_other : forall s a v b, String.eqb b a = false -> upd s a v b = s b.
Proof. intros s a v b H. unfold upd. rewrite H. reflexivity. Qed.

Definition agree (D : list attr) (s1 s2 : state) : Prop := forall a, mem a D = true -> s1 a = s2 a.

Definition rel (D : list attr) (r1 r2 : option cfg) : Prop :=
  match r1, r2 with
  | Some (s1, l1, k1), Some (s2, l2, k2) => l1 = l2 /\ k1 = k2 /\ agree D s1 s2
  | None, None => True
  | _, _ => False
  end.

Lemma rel_weaken : forall D D' r1 r2,
  (forall a, mem a D' = true -> mem a D = true) -> rel D r1 r2 -> rel D' r1 r2.
Proof.
  intros D D' [[[s1 l1] k1]|] [[[s2 l2] k2]|] H; cbn; try tauto.
  intros (E1 & E2 & Ha). repeat split; try assumption. intros a Hm. apply Ha. apply H. exact Hm.
Qed.

Lemma forallb_eq_in : forall {A} (f g : A -> bool) l,
  (forall x, In x l -> f x = g x) -> forallb f l = forallb g l.
Proof.
  intros A f g l H. induction l as [|x t IH]; [reflexivity|]. cbn.
  rewrite (H x (or_introl eq_refl)), IH; [reflexivity|]. intros y Hy. apply H. right. exact Hy.
Qed.

Section Sound.
  Variable o : oracle.
  Variable P wo : list attr.

  Lemma chk_grows : forall c D D' M, chk P wo c D = Some (D', M) ->
    forall a, mem a D = true -> mem a D' = true.
  Proof.
    induction c as [|c1 IH1 c2 IH2|b|b|b|b|c1 IH1 c2 IH2|c1 IH1|g]; intros D D' M H a Ha; cbn in H.
    - injection H as <- <-. exact Ha.
    - destruct (chk P wo c1 D) as [[D1 M1]|] eqn:E1; [|discriminate].
      destruct (chk P wo c2 D1) as [[D2 M2]|] eqn:E2; [|discriminate].
      injection H as <- <-. eapply IH2; [exact E2|]. eapply IH1; [exact E1|exact Ha].
    - destruct (mem b D); [|discriminate]. injection H as <- <-. exact Ha.
    - destruct (mem b D); [|discriminate]. injection H as <- <-. exact Ha.
    - destruct (mem b P); [discriminate|]. injection H as <- <-. rewrite mem_cons, Ha. apply orb_true_r.
    - destruct (mem b wo && mem b P && mem b D); [|discriminate]. injection H as <- <-. exact Ha.
    - destruct (chk P wo c1 D) as [[D1 M1]|] eqn:E1; [|discriminate].
      destruct (chk P wo c2 D) as [[D2 M2]|] eqn:E2; [|discriminate].
      injection H as <- <-. rewrite mem_inter. apply andb_true_iff. split.
      + eapply IH1; [exact E1|exact Ha].
      + eapply IH2; [exact E2|exact Ha].
    - destruct (chk P wo c1 D) as [[D1 M1]|]; [|discriminate]. injection H as <- <-. exact Ha.
    - destruct (subset g D); [|discriminate]. injection H as <- <-. exact Ha.
  Qed.

  (** written attributes are never constructor attributes *)
  Lemma chk_M_notP : forall c D D' M, chk P wo c D = Some (D', M) ->
    forall a, mem a M = true -> mem a P = false.
  Proof.
    induction c as [|c1 IH1 c2 IH2|b|b|b|b|c1 IH1 c2 IH2|c1 IH1|g]; intros D D' M H a Ha; cbn in H.
    - injection H as <- <-. discriminate.
    - destruct (chk P wo c1 D) as [[D1 M1]|] eqn:E1; [|discriminate].
      destruct (chk P wo c2 D1) as [[D2 M2]|] eqn:E2; [|discriminate].
      injection H as <- <-. rewrite mem_app in Ha. apply orb_true_iff in Ha as [Ha|Ha].
      + eapply IH1; [exact E1|exact Ha].
      + eapply IH2; [exact E2|exact Ha].
    - destruct (mem b D); [|discriminate]. injection H as <- <-. discriminate.
    - destruct (mem b D); [|discriminate]. injection H as <- <-. discriminate.
    - destruct (mem b P) eqn:Eb; [discriminate|]. injection H as <- <-.
      rewrite mem_cons in Ha. cbn in Ha. rewrite orb_false_r in Ha. apply String.eqb_eq in Ha. subst. exact Eb.
    - destruct (mem b wo && mem b P && mem b D); [|discriminate]. injection H as <- <-. discriminate.
    - destruct (chk P wo c1 D) as [[D1 M1]|] eqn:E1; [|discriminate].
      destruct (chk P wo c2 D) as [[D2 M2]|] eqn:E2; [|discriminate].
      injection H as <- <-. rewrite mem_app in Ha. apply orb_true_iff in Ha as [Ha|Ha].
      + eapply IH1; [exact E1|exact Ha].
      + eapply IH2; [exact E2|exact Ha].
    - destruct (chk P wo c1 D) as [[D1 M1]|] eqn:E1; [|discriminate]. injection H as <- <-.
      eapply IH1; [exact E1|exact Ha].
    - destruct (subset g D); [|discriminate]. injection H as <- <-. discriminate.
  Qed.

  (** NONINTERFERENCE: two executions from states that agree on the
      definitely-set attributes observe the same values, take the same
      decisions, fail together, and end in states that agree on the
      definitely-set attributes *)
  Lemma ni : forall c D D' M, chk P wo c D = Some (D', M) ->
    forall s1 s2 l k, agree D s1 s2 -> rel D' (exec o c (s1, l, k)) (exec o c (s2, l, k)).
  Proof.
    induction c as [|c1 IH1 c2 IH2|b|b|b|b|c1 IH1 c2 IH2|c1 IH1|g]; intros D D' M H s1 s2 l k Ha; cbn in H.
    - injection H as <- <-. cbn. auto.
    - destruct (chk P wo c1 D) as [[D1 M1]|] eqn:E1; [|discriminate].
      destruct (chk P wo c2 D1) as [[D2 M2]|] eqn:E2; [|discriminate].
      injection H as <- <-. cbn [exec].
      specialize (IH1 _ _ _ E1 s1 s2 l k Ha).
      destruct (exec o c1 (s1, l, k)) as [[[t1 l1] k1]|], (exec o c1 (s2, l, k)) as [[[t2 l2] k2]|]; cbn in IH1; try tauto.
      destruct IH1 as (-> & -> & Ht). eapply IH2; [exact E2|exact Ht].
    - destruct (mem b D) eqn:Eb; [|discriminate]. injection H as <- <-. cbn. rewrite (Ha b Eb).
      destruct (s2 b); cbn; auto.
    - destruct (mem b D) eqn:Eb; [|discriminate]. injection H as <- <-. cbn. rewrite (Ha b Eb). auto.
    - destruct (mem b P); [discriminate|]. injection H as <- <-. cbn. repeat split.
      intros a Hm. unfold upd. destruct (String.eqb a b) eqn:Eab; [reflexivity|].
      apply Ha. rewrite mem_cons, Eab in Hm. exact Hm.
    - destruct (mem b wo && mem b P && mem b D) eqn:Eb; [|discriminate]. injection H as <- <-.
      apply andb_true_iff in Eb as [_ Eb]. cbn. rewrite (Ha b Eb).
      destruct (s2 b) as [[|n]|]; cbn; auto. repeat split.
      intros a Hm. unfold upd. destruct (String.eqb a b); [reflexivity|]. apply Ha. exact Hm.
    - destruct (chk P wo c1 D) as [[D1 M1]|] eqn:E1; [|discriminate].
      destruct (chk P wo c2 D) as [[D2 M2]|] eqn:E2; [|discriminate].
      injection H as <- <-. cbn [exec]. destruct (branch o k l).
      + eapply rel_weaken; [|eapply IH1; [exact E1|exact Ha]].
        intros a Hm. rewrite mem_inter in Hm. apply andb_true_iff in Hm. tauto.
      + eapply rel_weaken; [|eapply IH2; [exact E2|exact Ha]].
        intros a Hm. rewrite mem_inter in Hm. apply andb_true_iff in Hm. tauto.
    - destruct (chk P wo c1 D) as [[D1 M1]|] eqn:E1; [|discriminate]. injection H as <- <-.
      cbn [exec]. remember (count o k l) as n eqn:En. clear En. generalize (S k) as k0. generalize l as l0. revert s1 s2 Ha.
      induction n as [|n IHn]; intros s1 s2 Ha l0 k0; cbn [iter].
      + cbn. auto.
      + specialize (IH1 _ _ _ E1 s1 s2 l0 k0 Ha).
        destruct (exec o c1 (s1, l0, k0)) as [[[t1 l1] k1]|], (exec o c1 (s2, l0, k0)) as [[[t2 l2] k2]|]; cbn in IH1; try tauto.
        destruct IH1 as (-> & -> & Ht). apply IHn. intros a Hm. apply Ht. eapply chk_grows; [exact E1|exact Hm].
    - destruct (subset g D) eqn:Eg; [|discriminate]. injection H as <- <-. cbn [exec].
      assert (E : forallb (defined s1) g = forallb (defined s2) g).
      { apply forallb_eq_in. intros x Hx. unfold defined. rewrite (Ha x); [reflexivity|].
        eapply subset_mem; [exact Eg|apply mem_in; exact Hx]. }
      rewrite E. destruct (forallb (defined s2) g); cbn; auto.
  Qed.

  (** FRAME: only the possibly-written attributes (and write-once
      parameters that are still None) change *)
  Lemma frame : forall c D D' M, chk P wo c D = Some (D', M) ->
    forall s l k s' l' k', exec o c (s, l, k) = Some (s', l', k') ->
    forall a, mem a M = false -> (mem a wo = false \/ s a <> Some 0) -> s' a = s a.
  Proof.
    induction c as [|c1 IH1 c2 IH2|b|b|b|b|c1 IH1 c2 IH2|c1 IH1|g]; intros D D' M H s l k s' l' k' He a Ha Hw; cbn in H.
    - cbn in He. injection He as <- <- <-. reflexivity.
    - destruct (chk P wo c1 D) as [[D1 M1]|] eqn:E1; [|discriminate].
      destruct (chk P wo c2 D1) as [[D2 M2]|] eqn:E2; [|discriminate].
      injection H as <- <-. rewrite mem_app in Ha. apply orb_false_iff in Ha as [Ha1 Ha2].
      cbn [exec] in He. destruct (exec o c1 (s, l, k)) as [[[t lt] kt]|] eqn:Ex; [|discriminate].
      assert (Et : t a = s a) by (eapply IH1; eassumption).
      rewrite <- Et. eapply IH2; try eassumption. rewrite Et. exact Hw.
    - cbn in He. destruct (s b); [|discriminate]. injection He as <- <- <-. reflexivity.
    - cbn in He. injection He as <- <- <-. reflexivity.
    - destruct (mem b P); [discriminate|]. injection H as <- <-. cbn in He. injection He as <- <- <-.
      rewrite mem_cons in Ha. cbn in Ha. rewrite orb_false_r in Ha. apply upd_other. exact Ha.
    - destruct (mem b wo && mem b P && mem b D) eqn:Eb; [|discriminate]. injection H as <- <-.
      apply andb_true_iff in Eb as [Eb _]. apply andb_true_iff in Eb as [Eb _].
      cbn in He. destruct (String.eqb a b) eqn:Eab.
      + apply String.eqb_eq in Eab. subst b. destruct Hw as [Hw|Hw]; [congruence|].
        destruct (s a) as [[|n]|] eqn:Es; try discriminate; [exfalso; apply Hw; reflexivity|]. injection He as <- <- <-. exact Es.
      + destruct (s b) as [[|n]|]; try discriminate; injection He as <- <- <-; [apply upd_other; exact Eab|reflexivity].
    - destruct (chk P wo c1 D) as [[D1 M1]|] eqn:E1; [|discriminate].
      destruct (chk P wo c2 D) as [[D2 M2]|] eqn:E2; [|discriminate].
      injection H as <- <-. rewrite mem_app in Ha. apply orb_false_iff in Ha as [Ha1 Ha2].
      cbn [exec] in He. destruct (branch o k l).
      + eapply IH1; eassumption.
      + eapply IH2; eassumption.
    - destruct (chk P wo c1 D) as [[D1 M1]|] eqn:E1; [|discriminate]. injection H as <- <-.
      cbn [exec] in He. remember (count o k l) as n eqn:En. clear En. revert He. generalize (S k) as k0. generalize l as l0. revert s Hw.
      induction n as [|n IHn]; intros s Hw l0 k0 He; cbn [iter] in He.
      + injection He as <- <- <-. reflexivity.
      + destruct (exec o c1 (s, l0, k0)) as [[[t lt] kt]|] eqn:Ex; [|discriminate].
        assert (Et : t a = s a) by (eapply IH1; eassumption).
        rewrite <- Et. eapply IHn; [|exact He]. rewrite Et. exact Hw.
    - cbn in He. destruct (forallb (defined s) g); [|discriminate]. injection He as <- <- <-. reflexivity.
  Qed.
End Sound.

(** executions do not distinguish extensionally equal states *)
Lemma exec_ext : forall o c (s1 s2 : state) (l : list V) (k : nat), (forall a, s1 a = s2 a) ->
  match exec o c (s1, l, k), exec o c (s2, l, k) with
  | Some (t1, l1, k1), Some (t2, l2, k2) => l1 = l2 /\ k1 = k2 /\ forall a, t1 a = t2 a
  | None, None => True
  | _, _ => False
  end.
Proof.
  intros o c. induction c as [|c1 IH1 c2 IH2|b|b|b|b|c1 IH1 c2 IH2|c1 IH1|g]; intros s1 s2 l k H.
  - cbn. auto.
  - cbn [exec]. specialize (IH1 s1 s2 l k H).
    destruct (exec o c1 (s1, l, k)) as [[[t1 l1] k1]|], (exec o c1 (s2, l, k)) as [[[t2 l2] k2]|]; try tauto.
    destruct IH1 as (-> & -> & Ht). apply IH2. exact Ht.
  - cbn. rewrite (H b). destruct (s2 b); auto.
  - cbn. rewrite (H b). auto.
  - cbn. repeat split. intro a. unfold upd. destruct (String.eqb a b); auto.
  - cbn. rewrite (H b). destruct (s2 b) as [[|n]|]; auto. repeat split. intro a. unfold upd. destruct (String.eqb a b); auto.
  - cbn [exec]. destruct (branch o k l); [apply IH1|apply IH2]; exact H.
  - cbn [exec]. remember (count o k l) as n eqn:En. clear En. generalize (S k) as k0. generalize l as l0. revert s1 s2 H.
    induction n as [|n IHn]; intros s1 s2 H l0 k0; cbn [iter]; [auto|].
    specialize (IH1 s1 s2 l0 k0 H).
    destruct (exec o c1 (s1, l0, k0)) as [[[t1 l1] k1]|], (exec o c1 (s2, l0, k0)) as [[[t2 l2] k2]|]; try tauto.
    destruct IH1 as (-> & -> & Ht). apply IHn. exact Ht.
  - cbn [exec]. assert (E : forallb (defined s1) g = forallb (defined s2) g).
    { apply forallb_eq_in. intros x _. unfold defined. rewrite (H x). reflexivity. }
    rewrite E. destruct (forallb (defined s2) g); auto.
Qed.

(** ------------------------------------------------------------------ *)
(** class-level theorems *)

(** a sequence of successful fits on data sets [ds] *)
Fixpoint fits (o : oracle) (c : cmd) (s : state) (ds : list V) : option state :=
  match ds with
  | [] => Some s
  | d :: t => match call_state o c s d with Some s' => fits o c s' t | None => None end
  end.

Definition fresh (C : cls) (s : state) : Prop := forall a, mem a (ctor_attrs C) = false -> s a = None.

Section Class.
  Variable o : oracle.
  Variable C : cls.
  Variable c : cmd.
  Hypothesis Hfit : fit C = Some c.
  Hypothesis Hok : fit_ok C = true.

  Let P := ctor_attrs C.
  Let wo := memo C.

  Lemma fit_sets_some : exists D M, chk P wo c P = Some (D, M) /\ subset M D = true.
  Proof.
    unfold fit_ok, fit_sets in Hok. rewrite Hfit in Hok. fold P wo in Hok.
    destruct (chk P wo c P) as [[D M]|]; [|discriminate]. exists D, M. split; [reflexivity|].
    apply andb_true_iff in Hok. tauto.
  Qed.

  (** frame_noninterference: the state after [fit] on the constructor
      attributes and on everything fit may write depends only on the
      constructor attributes (parameters) and the arguments - not on the
      previous values of fitted attributes; everything else is untouched *)
  Theorem frame_noninterference : forall D M, chk P wo c P = Some (D, M) ->
    forall (s1 s2 : state) (arg : V), agree P s1 s2 ->
    match call_state o c s1 arg, call_state o c s2 arg with
    | Some t1, Some t2 =>
        agree D t1 t2 /\ (forall a, mem a M = true -> t1 a = t2 a) /\
        (forall a, mem a M = false -> mem a wo = false -> t1 a = s1 a /\ t2 a = s2 a)
    | None, None => True
    | _, _ => False
    end.
  Proof.
    intros D M Hc s1 s2 arg Ha. unfold call_state, call.
    pose proof (ni o P wo c P D M Hc s1 s2 [arg] 0 Ha) as R.
    destruct (exec o c (s1, [arg], 0)) as [[[t1 l1] k1]|] eqn:E1,
             (exec o c (s2, [arg], 0)) as [[[t2 l2] k2]|] eqn:E2; cbn in R; try tauto.
    destruct R as (_ & _ & Ht). split; [exact Ht|split].
    - intros a Hm. apply Ht. destruct fit_sets_some as (D0 & M0 & Hc0 & Hs). rewrite Hc in Hc0.
      injection Hc0 as <- <-. eapply subset_mem; eassumption.
    - intros a Hm Hw. split; eapply frame; try eassumption; left; exact Hw.
  Qed.

  (** states reachable from base [b] by fits: equal to [b] outside the fitted attributes *)
  Definition inv (M : list attr) (b s : state) : Prop := forall a, mem a M = false -> s a = b a.

  Lemma refit_step : forall D M, chk P wo c P = Some (D, M) ->
    forall b : state, (forall a, mem a wo = true -> b a <> Some 0) ->
    forall (s : state) (d : V) (s' : state), inv M b s -> call_state o c s d = Some s' ->
    inv M b s' /\ exists sF, call_state o c b d = Some sF /\ forall a, s' a = sF a.
  Proof.
    intros D M Hc b Hb s d s' Hi Hs.
    assert (Hag : agree P s b).
    { intros a Hm. apply Hi. destruct (mem a M) eqn:E; [|reflexivity].
      rewrite (chk_M_notP P wo c P D M Hc a E) in Hm. discriminate. }
    assert (Hsub : subset M D = true).
    { destruct fit_sets_some as (D0 & M0 & Hc0 & Hsub). rewrite Hc in Hc0. injection Hc0 as <- <-. exact Hsub. }
    unfold call_state, call in *.
    pose proof (ni o P wo c P D M Hc s b [d] 0 Hag) as R.
    destruct (exec o c (s, [d], 0)) as [[[t1 l1] k1]|] eqn:E1; [|discriminate].
    injection Hs as <-.
    destruct (exec o c (b, [d], 0)) as [[[t2 l2] k2]|] eqn:E2; cbn in R; [|elim R].
    destruct R as (_ & _ & Ht).
    assert (F1 : forall a, mem a M = false -> t1 a = s a).
    { intros a Hm. eapply frame; try eassumption.
      destruct (mem a wo) eqn:Ew; [right|left; reflexivity]. rewrite (Hi a Hm). apply Hb. exact Ew. }
    assert (F2 : forall a, mem a M = false -> t2 a = b a).
    { intros a Hm. eapply frame; try eassumption.
      destruct (mem a wo) eqn:Ew; [right|left; reflexivity]. apply Hb. exact Ew. }
    split.
    - intros a Hm. rewrite (F1 a Hm). apply Hi. exact Hm.
    - exists t2. split; [reflexivity|]. intro a. destruct (mem a M) eqn:Em.
      + apply Ht. eapply subset_mem; eassumption.
      + rewrite (F1 a Em), (F2 a Em). apply Hi. exact Em.
  Qed.

  (** refit_general: after ANY sequence of successful fits, started in any
      state that differs from [b] at most on fitted attributes, the estimator is
      in exactly the state of [b] fitted once to the last data set *)
  Theorem refit_general : forall D M, chk P wo c P = Some (D, M) ->
    forall b : state, (forall a, mem a wo = true -> b a <> Some 0) ->
    forall (ds : list V) (s : state) (d : V) (sN : state), inv M b s -> fits o c s (ds ++ [d]) = Some sN ->
    exists sF, call_state o c b d = Some sF /\ forall a, sN a = sF a.
  Proof.
    intros D M Hc b Hb ds. induction ds as [|d0 t IH]; intros s d sN Hi Hf; cbn [fits app] in Hf.
    - destruct (call_state o c s d) as [s'|] eqn:E; [|discriminate]. injection Hf as <-.
      eapply refit_step; eassumption.
    - destruct (call_state o c s d0) as [s'|] eqn:E; [|discriminate].
      eapply IH; [|exact Hf]. eapply refit_step; eassumption.
  Qed.

  (** refit_like_fresh: an estimator without write-once parameters (or whose
      write-once parameters were given at construction), after any sequence
      of fits, is in the state of the freshly constructed estimator [s0]
      fitted to the last data set only *)
  Theorem refit_like_fresh : forall s0 : state,
    (forall a, mem a wo = true -> s0 a <> Some 0) ->
    forall ds d sN, fits o c s0 (ds ++ [d]) = Some sN ->
    exists sF, call_state o c s0 d = Some sF /\ forall a, sN a = sF a.
  Proof.
    intros s0 H0 ds d sN Hf. destruct fit_sets_some as (D & M & Hc & _).
    eapply refit_general; try eassumption. intros a _. reflexivity.
  Qed.

  (** refit_memo (VectorSpline2D): when write-once parameters were None at
      construction, the first fit fills them in; from then on the estimator
      behaves like a fresh one CONSTRUCTED WITH those values (the first data
      set's coordinates as force_coords) and fitted to the last data set *)
  Definition with_memo (s0 s1 : state) : state := fun a => if mem a wo then s1 a else s0 a.

  Theorem refit_memo : forall (s0 : state) (d1 : V) (s1 : state),
    call_state o c s0 d1 = Some s1 ->
    (forall a, mem a wo = true -> s1 a <> Some 0) ->
    forall ds d sN, fits o c s1 (ds ++ [d]) = Some sN ->
    exists sF, call_state o c (with_memo s0 s1) d = Some sF /\ forall a, sN a = sF a.
  Proof.
    intros s0 d1 s1 H1 Hnz ds d sN Hf. destruct fit_sets_some as (D & M & Hc & _).
    eapply refit_general; try eassumption.
    - intros a Hm. unfold with_memo. rewrite Hm. apply Hnz. exact Hm.
    - intros a Hm. unfold with_memo. destruct (mem a wo) eqn:Ew; [reflexivity|].
      unfold call_state, call in H1. destruct (exec o c (s0, [d1], 0)) as [[[t l] k]|] eqn:E; [|discriminate].
      injection H1 as <-. eapply frame; try eassumption. left. exact Ew.
  Qed.
End Class.

(** equal states give equal method results (used with the theorems above:
    predictions after any fit sequence = predictions of the fresh estimator) *)
Theorem same_state_same_result : forall o p (s1 s2 : state) (arg : V), (forall a, s1 a = s2 a) ->
  call_result o p s1 arg = call_result o p s2 arg.
Proof.
  intros o p s1 s2 arg H. unfold call_result, call.
  pose proof (exec_ext o p s1 s2 [arg] 0 H) as R.
  destruct (exec o p (s1, [arg], 0)) as [[[t1 l1] k1]|], (exec o p (s2, [arg], 0)) as [[[t2 l2] k2]|]; cbn in R; try tauto.
  destruct R as (-> & -> & _). reflexivity.
Qed.

(** predict_unfitted_errors *)
Theorem predict_unfitted_errors : forall o C p f (s : state) (arg : V),
  predict C = Some p -> fit C = Some f -> predict_ok C = true -> fresh C s -> call o p s arg = None.
Proof.
  intros o C p f s arg Hp Hfit Hok Hf. unfold predict_ok in Hok. rewrite Hp, Hfit in Hok.
  assert (G : forall g M, guard_ok C M g = true -> forallb (defined s) g = false).
  { intros [|a t] M H; [discriminate|]. unfold guard_ok in H. cbn in H. apply andb_true_iff in H as [H2 _].
    apply andb_true_iff in H2 as [_ H2]. apply negb_true_iff in H2. cbn. unfold defined at 1.
    rewrite (Hf a H2). reflexivity. }
  destruct (fit_sets C) as [[D M]|]; [|discriminate].
  destruct p as [|c1 c2| | | | | | |g]; try discriminate.
  - destruct c1; try discriminate. apply andb_true_iff in Hok as [H1 _].
    unfold call. cbn [exec]. rewrite (G g M H1). reflexivity.
  - unfold call. cbn [exec]. rewrite (G g M Hok). reflexivity.
Qed.

(** read-only methods leave the estimator unchanged and depend only on
    constructor attributes and definitely-fitted attributes *)
Theorem reader_pure : forall o C r (s : state) (arg : V) (s' : state) l k,
  reader_ok C r = true -> call o r s arg = Some (s', l, k) -> forall a, s' a = s a.
Proof.
  intros o C r s arg s' l k Hr Hc a. unfold reader_ok in Hr.
  destruct (fit_sets C) as [[D M]|]; [|discriminate].
  destruct (chk (ctor_attrs C) [] r D) as [[D' [|x t]]|] eqn:E; try discriminate.
  eapply frame; try eassumption; [reflexivity|left; reflexivity].
Qed.

Theorem reader_depends_on_fitted_only : forall o C r D M (s1 s2 : state) (arg : V),
  fit_sets C = Some (D, M) -> reader_ok C r = true -> agree D s1 s2 ->
  call_result o r s1 arg = call_result o r s2 arg.
Proof.
  intros o C r D M s1 s2 arg Hs Hr Ha. unfold reader_ok in Hr. rewrite Hs in Hr.
  destruct (chk (ctor_attrs C) [] r D) as [[D' [|x t]]|] eqn:E; try discriminate.
  unfold call_result, call. pose proof (ni o _ _ r D D' [] E s1 s2 [arg] 0 Ha) as R.
  destruct (exec o r (s1, [arg], 0)) as [[[t1 l1] k1]|], (exec o r (s2, [arg], 0)) as [[[t2 l2] k2]|]; cbn in R; try tauto.
  destruct R as (-> & -> & _). reflexivity.
Qed.

(** ------------------------------------------------------------------ *)
(** constructor: stores only; get_params / clone round trip *)
Section InitProofs.
  Variable konst : attr -> V.
  Variable compute : attr -> (attr -> V) -> V.
  Hypothesis konst_not_none : forall a, konst a <> 0.

  Fixpoint lookup (items : list init_item) (a : attr) : option init_item :=
    match items with
    | [] => None
    | i :: t => if String.eqb a (item_attr i) then Some i else lookup t a
    end.

  Definition item_value (args : attr -> V) (i : init_item) : V :=
    match i with
    | IStore a => args a
    | IDefault a => match args a with 0 => konst a | v => v end
    | IConst a => konst a
    | IBad a => compute a args
    end.

  Lemma init_step_attr : forall args s i, init_step konst compute args s i (item_attr i) = Some (item_value args i).
  Proof. intros args s [a|a|a|a]; cbn; apply upd_same. Qed.

  Lemma init_step_other : forall args s i b, String.eqb b (item_attr i) = false -> init_step konst compute args s i b = s b.
  Proof. intros args s [a|a|a|a] b H; cbn in *; apply upd_other; exact H. Qed.

  Lemma lookup_none : forall items a, mem a (map item_attr items) = false -> lookup items a = None.
  Proof.
    induction items as [|i t IH]; intros a H; [reflexivity|]. cbn [map] in H. rewrite mem_cons in H.
    apply orb_false_iff in H as [H1 H2]. cbn [lookup]. rewrite H1. apply IH. exact H2.
  Qed.

  Lemma fold_init_lookup : forall args items s a, nodupb (map item_attr items) = true ->
    fold_left (init_step konst compute args) items s a =
    match lookup items a with Some i => Some (item_value args i) | None => s a end.
  Proof.
    intros args items. induction items as [|i t IH]; intros s a Hn; [reflexivity|].
    cbn [map nodupb] in Hn. apply andb_true_iff in Hn as [Hn1 Hn2]. apply negb_true_iff in Hn1.
    cbn [fold_left lookup]. rewrite (IH _ a Hn2). destruct (String.eqb a (item_attr i)) eqn:E.
    - apply String.eqb_eq in E. subst a. rewrite (lookup_none t _ Hn1). apply init_step_attr.
    - destruct (lookup t a); [reflexivity|]. apply init_step_other. exact E.
  Qed.

  Lemma lookup_attr : forall items a i, lookup items a = Some i -> item_attr i = a /\ In i items.
  Proof.
    induction items as [|j t IH]; intros a i H; [discriminate|]. cbn in H.
    destruct (String.eqb a (item_attr j)) eqn:E.
    - injection H as <-. apply String.eqb_eq in E. split; [symmetry; exact E|left; reflexivity].
    - destruct (IH a i H) as [H1 H2]. split; [exact H1|right; exact H2].
  Qed.

  (** init_fresh: a new estimator has exactly the constructor attributes *)
  Theorem init_fresh : forall C args, init_ok C = true -> fresh C (init_state konst compute (init C) args).
  Proof.
    intros C args Hok a Ha. unfold init_ok in Hok. apply andb_true_iff in Hok as [Hok _].
    apply andb_true_iff in Hok as [Hn _]. unfold init_state. rewrite fold_init_lookup by exact Hn.
    unfold ctor_attrs in Ha. rewrite (lookup_none _ _ Ha). reflexivity.
  Qed.

  (** init_stores: every parameter attribute holds the argument passed
      (or the documented non-None default when the argument is None) *)
  Theorem init_stores : forall C args a, init_ok C = true -> mem a (params C) = true ->
    init_state konst compute (init C) args a = Some (args a) \/
    (args a = 0 /\ init_state konst compute (init C) args a = Some (konst a)).
  Proof.
    intros C args a Hok Ha. unfold init_ok in Hok. apply andb_true_iff in Hok as [Hok Hs].
    apply andb_true_iff in Hok as [Hn Hf]. unfold init_state. rewrite fold_init_lookup by exact Hn.
    pose proof (subset_mem _ _ Hs a Ha) as Hin.
    destruct (lookup (init C) a) as [i|] eqn:El.
    - destruct (lookup_attr _ _ _ El) as [Ea Hi]. rewrite forallb_forall in Hf. specialize (Hf i Hi).
      destruct i as [b|b|b|b]; cbn in Ea; subst b; cbn.
      + left. reflexivity.
      + destruct (args a) eqn:E; [right; split; reflexivity|left; reflexivity].
      + rewrite Ha in Hf. discriminate.
      + discriminate.
    - exfalso. clear -Hin El. induction (init C) as [|j t IH]; [discriminate|].
      cbn [map] in Hin. cbn [lookup] in El. rewrite mem_cons in Hin.
      destruct (String.eqb a (item_attr j)); [discriminate|]. apply IH; assumption.
  Qed.

  (** clone_roundtrip: constructing a new estimator from get_params() of an
      estimator gives an estimator in the identical state *)
  Theorem clone_roundtrip : forall C args, init_ok C = true ->
    let s := init_state konst compute (init C) args in
    forall a, init_state konst compute (init C) (get_params s) a = s a.
  Proof.
    intros C args Hok s a. pose proof Hok as Hok0. unfold init_ok in Hok. apply andb_true_iff in Hok as [Hok Hs].
    apply andb_true_iff in Hok as [Hn Hf]. subst s. unfold init_state at 1 3. rewrite !fold_init_lookup by exact Hn.
    destruct (lookup (init C) a) as [i|] eqn:El; [|reflexivity].
    destruct (lookup_attr _ _ _ El) as [Ea Hi]. rewrite forallb_forall in Hf. specialize (Hf i Hi).
    assert (Eg : get_params (init_state konst compute (init C) args) a = item_value args i).
    { unfold get_params, init_state. rewrite fold_init_lookup by exact Hn. rewrite El. reflexivity. }
    destruct i as [b|b|b|b]; cbn in Ea; subst b; cbn [item_value] in *; try discriminate.
    - rewrite Eg. reflexivity.
    - rewrite Eg. destruct (args a) as [|n] eqn:E; [|reflexivity].
      destruct (konst a) eqn:Ek; [exfalso; eapply konst_not_none; exact Ek|reflexivity].
    - reflexivity.
  Qed.
End InitProofs.
