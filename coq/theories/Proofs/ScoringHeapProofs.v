(** C12: cross_val_score on mutable estimator objects.  Because every split
    works on its own clone, any interleaving of the fit and score steps of the
    tasks gives the serial scores and leaves the estimator passed in (and
    every other existing object) untouched. *)
From Coq Require Import QArith List Bool Arith Lia.
From Verde Require Import Lib.QExtra Model.Scoring.
Import ListNotations.
Open Scope nat_scope.

Lemma set_nth_length {A} i (x : A) l : length (set_nth i x l) = length l.
Proof. revert i. induction l as [|y t IH]; intros [|i]; cbn; auto. Qed.

Lemma nth_error_set_nth_eq {A} i (x : A) l : i < length l -> nth_error (set_nth i x l) i = Some x.
Proof. revert i. induction l as [|y t IH]; intros [|i] H; cbn in *; try lia; auto. apply IH. lia. Qed.

Lemma nth_error_set_nth_neq {A} i j (x : A) l : i <> j -> nth_error (set_nth i x l) j = nth_error l j.
Proof.
  revert i j. induction l as [|y t IH]; intros [|i] [|j] H; cbn; try reflexivity; try lia.
  apply IH. lia.
Qed.

Section HeapProofs.
Variable P M : Type.
Variable fitp : P -> dataset -> M.
Variable predict : M -> tuple -> tuple.
Variable mt : metric.
Variable h : heap P M.
Variable a : nat.
Variable dflt : P.
Variable ds : dataset.
Variable splits : list (list nat * list nat).
Hypothesis Ha : a < length h.

Let n := length splits.
Let p0 := o_params P M (nth a h {| o_params := dflt; o_state := None |}).
Let c0 : obj P M := {| o_params := p0; o_state := None |}.
Let addr := fun k => length h + k.
Let fitted_state k := fitp p0 (select_ds (fst (nth k splits ([], []))) ds).
Let sc k := score_estimator M predict mt (fitted_state k) (select_ds (snd (nth k splits ([], []))) ds).

Lemma alloc_clones_spec m : forall h', (a < length h') -> nth a h' {| o_params := dflt; o_state := None |} = nth a h {| o_params := dflt; o_state := None |} ->
  alloc_clones P M h' a dflt m = h' ++ repeat c0 m.
Proof.
  induction m as [|m IH]; intros h' Hl Hn; cbn [alloc_clones repeat].
  - rewrite app_nil_r. reflexivity.
  - unfold clone_at. cbn [fst]. rewrite IH.
    + rewrite Hn. fold p0. fold c0. rewrite <- app_assoc. reflexivity.
    + rewrite app_length. lia.
    + rewrite app_nth1 by exact Hl. exact Hn.
Qed.

Definition inv (fitted : list nat) (st : heap P M * list (nat * option Q)) : Prop :=
  length (fst st) = length h + n /\
  (forall i, i < length h -> nth_error (fst st) i = nth_error h i) /\
  (forall k, k < n -> exists s, nth_error (fst st) (addr k) = Some {| o_params := p0; o_state := s |} /\
                               (In k fitted -> s = Some (fitted_state k))) /\
  (forall k v, In (k, v) (snd st) -> v = Some (sc k)).

Lemma inv_init : inv [] (alloc_clones P M h a dflt n, []).
Proof.
  rewrite alloc_clones_spec by (auto).
  unfold inv. cbn [fst snd]. repeat split.
  - rewrite app_length, repeat_length. reflexivity.
  - intros i Hi. apply nth_error_app1. exact Hi.
  - intros k Hk. exists None. split; [|intros []].
    unfold addr. rewrite nth_error_app2 by lia.
    replace (length h + k - length h) with k by lia.
    rewrite (nth_error_nth' _ c0) by (rewrite repeat_length; exact Hk).
    rewrite nth_repeat. reflexivity.
  - intros k v [].
Qed.

Definition next_fitted (fitted : list nat) (e : event) : list nat :=
  match e with EFit k => k :: fitted | EScore _ => fitted end.

Lemma nth_splits k s : nth_error splits k = Some s -> k < n /\ nth k splits ([], []) = s.
Proof.
  intros H. split; [apply nth_error_Some; congruence|]. apply nth_error_nth. exact H.
Qed.

Lemma step_inv fitted st e :
  inv fitted st ->
  match e with EScore k => In k fitted | EFit _ => True end ->
  inv (next_fitted fitted e) (step P M fitp predict mt addr ds splits st e).
Proof.
  intros (I1 & I2 & I3 & I4) He. destruct st as [hp res]. cbn [fst snd] in *.
  destruct e as [k|k]; cbn [step next_fitted].
  - destruct (nth_error splits k) as [s|] eqn:Es.
    2: { repeat split; auto. intros k' Hk'. destruct (I3 k' Hk') as (s' & E1 & E2). exists s'. split; [exact E1|].
         intros [->|Hin]; [apply nth_error_None in Es; unfold n in Hk'; lia|auto]. }
    destruct (nth_splits _ _ Es) as [Hk Hs].
    destruct (I3 k Hk) as (s0 & E0 & _). rewrite E0. cbn [o_params].
    unfold inv. cbn [fst snd]. repeat split.
    + rewrite set_nth_length. exact I1.
    + intros i Hi. rewrite nth_error_set_nth_neq by (unfold addr; lia). apply I2. exact Hi.
    + intros k' Hk'. destruct (Nat.eq_dec k' k) as [->|Hne].
      * eexists. split.
        -- apply nth_error_set_nth_eq. unfold addr. lia.
        -- intros _. unfold fitted_state. rewrite Hs. reflexivity.
      * destruct (I3 k' Hk') as (s' & E1 & E2). exists s'. split.
        -- rewrite nth_error_set_nth_neq by (unfold addr; lia). exact E1.
        -- intros [E|Hin]; [congruence|auto].
    + exact I4.
  - destruct (nth_error splits k) as [s|] eqn:Es.
    2: { repeat split; auto. }
    destruct (nth_splits _ _ Es) as [Hk Hs].
    destruct (I3 k Hk) as (s0 & E0 & E1). rewrite E0. cbn [o_state].
    unfold inv. cbn [fst snd]. repeat split; auto.
    intros k' v Hin. apply in_app_or in Hin. destruct Hin as [Hin|[E|[]]]; [apply I4; exact Hin|].
    injection E as <- <-. rewrite (E1 He). cbn [option_map]. unfold sc. rewrite Hs. reflexivity.
Qed.

Lemma step_res_mono st e x :
  In x (snd st) -> In x (snd (step P M fitp predict mt addr ds splits st e)).
Proof.
  destruct st as [hp res]. destruct e as [k|k]; cbn [step];
    destruct (nth_error splits k); destruct (nth_error hp (addr k)); cbn [snd]; auto.
  intros H. apply in_or_app. left. exact H.
Qed.

Lemma step_score_recorded fitted st k :
  inv fitted st -> k < n ->
  exists v, In (k, v) (snd (step P M fitp predict mt addr ds splits st (EScore k))).
Proof.
  intros (I1 & I2 & I3 & I4) Hk. destruct st as [hp res]. cbn [fst snd] in *. cbn [step].
  destruct (nth_error splits k) as [s|] eqn:Es.
  2: { apply nth_error_None in Es. unfold n in Hk. lia. }
  destruct (I3 k Hk) as (s0 & E0 & _). rewrite E0. cbn [snd].
  eexists. apply in_or_app. right. left. reflexivity.
Qed.

Lemma run_mono evs : forall st x,
  In x (snd st) -> In x (snd (run_events P M fitp predict mt addr ds splits st evs)).
Proof.
  induction evs as [|e t IH]; intros st x H; cbn; [exact H|].
  apply IH. apply step_res_mono. exact H.
Qed.

Lemma run_inv evs : forall fitted st,
  inv fitted st -> fit_before_score fitted evs ->
  let st' := run_events P M fitp predict mt addr ds splits st evs in
  (exists fitted', inv fitted' st') /\
  (forall k, k < n -> In (EScore k) evs -> exists v, In (k, v) (snd st')).
Proof.
  induction evs as [|e t IH]; intros fitted st I F; cbn [run_events fold_left].
  - split; [exists fitted; exact I|intros k _ []].
  - assert (I': inv (next_fitted fitted e) (step P M fitp predict mt addr ds splits st e)).
    { apply step_inv; [exact I|]. destruct e; cbn in F; [exact Logic.I|apply F]. }
    assert (F': fit_before_score (next_fitted fitted e) t).
    { destruct e; cbn in F |- *; [exact F|apply F]. }
    destruct (IH _ _ I' F') as [J1 J2]. split; [exact J1|].
    intros k Hk [E|Hin]; [|apply J2; assumption].
    subst e. destruct (step_score_recorded _ _ k I Hk) as (v & Hv).
    exists v. apply run_mono. exact Hv.
Qed.

Lemma lookup_in {R} k (res : list (nat * R)) :
  (exists v, In (k, v) res) -> exists v, lookup k res = Some v /\ In (k, v) res.
Proof.
  induction res as [|[j r] t IH]; intros (v & Hv); [destruct Hv|].
  cbn [lookup]. destruct (Nat.eqb j k) eqn:E.
  - apply Nat.eqb_eq in E. subst j. exists r. split; [reflexivity|left; reflexivity].
  - destruct Hv as [Hv|Hv]; [injection Hv as -> _; rewrite Nat.eqb_refl in E; discriminate|].
    destruct (IH (ex_intro _ v Hv)) as (v' & L & I'). exists v'. split; [exact L|right; exact I'].
Qed.

(** any schedule that scores every split after fitting it gives the serial
    scores, and leaves every pre-existing object - in particular the estimator
    passed in, at address [a] - exactly as it was *)
Theorem cvs_heap_any_schedule evs :
  fit_before_score [] evs ->
  (forall k, k < n -> In (EScore k) evs) ->
  let (h2, res) := cvs_heap P M fitp predict mt h a dflt ds splits evs in
  res = map (fun s => Some (Some (fit_score M (fitp p0) predict mt (select_ds (fst s) ds) (select_ds (snd s) ds)))) splits /\
  (forall i, i < length h -> nth_error h2 i = nth_error h i) /\
  nth_error h2 a = nth_error h a.
Proof.
  intros F C. unfold cvs_heap. fold n. fold addr.
  destruct (run_events P M fitp predict mt addr ds splits (alloc_clones P M h a dflt n, []) evs) as [h2 res] eqn:E.
  pose proof (run_inv evs [] _ inv_init F) as R. cbn zeta in R. rewrite E in R.
  destruct R as [(fitted' & I1 & I2 & I3 & I4) R2]. cbn [fst snd] in *.
  split; [|split; [exact I2|apply I2; exact Ha]].
  apply nth_ext with (d := lookup O res) (d' := None).
  - rewrite !map_length, seq_length. reflexivity.
  - intros i Hi. rewrite map_length, seq_length in Hi.
    rewrite (map_nth (fun k => lookup k res)), seq_nth by exact Hi. cbn [plus].
    destruct (lookup_in i res (R2 i Hi (C i Hi))) as (v & L & Hin). rewrite L.
    rewrite (I4 _ _ Hin).
    set (f := fun s : list nat * list nat => Some (Some (fit_score M (fitp p0) predict mt (select_ds (fst s) ds) (select_ds (snd s) ds)))).
    rewrite nth_indep with (d' := f ([], [])) by (rewrite map_length; exact Hi).
    rewrite (map_nth f). reflexivity.
Qed.

Lemma serial_valid_from l : forall fitted, fit_before_score fitted (flat_map (fun k => [EFit k; EScore k]) l).
Proof.
  induction l as [|k t IH]; intros fitted; cbn; [exact I|].
  split; [left; reflexivity|apply IH].
Qed.

Lemma serial_valid m : fit_before_score [] (serial_events m) /\ (forall k, k < m -> In (EScore k) (serial_events m)).
Proof.
  split; [apply serial_valid_from|]. intros k Hk. unfold serial_events. apply in_flat_map.
  exists k. split; [apply in_seq; lia|right; left; reflexivity].
Qed.

(** hence: any valid parallel schedule = the serial loop *)
Theorem cvs_heap_schedule_independent evs :
  fit_before_score [] evs ->
  (forall k, k < n -> In (EScore k) evs) ->
  snd (cvs_heap P M fitp predict mt h a dflt ds splits evs) =
  snd (cvs_heap P M fitp predict mt h a dflt ds splits (serial_events n)).
Proof.
  intros F C. pose proof (cvs_heap_any_schedule evs F C) as H1.
  destruct (serial_valid n) as [F2 C2].
  pose proof (cvs_heap_any_schedule _ F2 C2) as H2.
  destruct (cvs_heap P M fitp predict mt h a dflt ds splits evs) as [x1 r1].
  destruct (cvs_heap P M fitp predict mt h a dflt ds splits (serial_events n)) as [x2 r2].
  cbn [snd]. destruct H1 as [-> _]. destruct H2 as [-> _]. reflexivity.
Qed.
End HeapProofs.
