(** The Z form of the C08 statement used for very large block grids is the statement itself. *)
From Coq Require Import QArith Qround Qabs ZArith List Bool Lia.
From Verde Require Import Lib.QExtra Model.Coordinates Model.CoordCases Model.Blocks Model.BlocksHuge.
Open Scope Q_scope.

Lemma cell_okZ_eq w h n t x c :
  cell_okZ w h (Z.of_nat n) t x (Z.of_nat c) = cell_ok w h n t x c.
Proof.
  unfold cell_okZ, cell_ok.
  assert (E0: (0 <=? Z.of_nat c)%Z = true) by (apply Z.leb_le; lia).
  assert (E1: (Z.of_nat c <? Z.of_nat n)%Z = (c <? n)%nat).
  { destruct (Z.ltb_spec (Z.of_nat c) (Z.of_nat n)), (Nat.ltb_spec c n); try reflexivity; lia. }
  assert (E2: (Z.of_nat c =? 0)%Z = (c =? 0)%nat).
  { destruct (Z.eqb_spec (Z.of_nat c) 0), (Nat.eqb_spec c 0); try reflexivity; lia. }
  assert (E3: (Z.of_nat c + 1 =? Z.of_nat n)%Z = (S c =? n)%nat).
  { destruct (Z.eqb_spec (Z.of_nat c + 1) (Z.of_nat n)), (Nat.eqb_spec (S c) n); try reflexivity; lia. }
  rewrite E0, E1, E2, E3. replace (Z.of_nat c + 1)%Z with (Z.of_nat (S c)) by lia. reflexivity.
Qed.

Theorem label_okZ_eq G t p k : label_okZ G t p (Z.of_nat k) = label_ok G t p k.
Proof.
  unfold label_okZ, label_ok. cbv zeta.
  assert (E0: (0 <=? Z.of_nat k)%Z = true) by (apply Z.leb_le; lia).
  assert (E1: (Z.of_nat k <? Z.of_nat (g_nr G) * Z.of_nat (g_nc G))%Z = (k <? g_nr G * g_nc G)%nat).
  { rewrite <- Nat2Z.inj_mul.
    destruct (Z.ltb_spec (Z.of_nat k) (Z.of_nat (g_nr G * g_nc G))), (Nat.ltb_spec k (g_nr G * g_nc G)); try reflexivity; lia. }
  rewrite E0, E1. cbn [andb].
  destruct (Nat.eq_dec (g_nc G) 0) as [Z0|NZ].
  - (* no columns: both sides are false *)
    rewrite Z0. rewrite Nat.mul_0_r. cbn [Nat.ltb Nat.leb]. reflexivity.
  - rewrite <- Nat2Z.inj_mod, <- Nat2Z.inj_div. rewrite !cell_okZ_eq. reflexivity.
Qed.
