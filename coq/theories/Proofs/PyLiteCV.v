(** Lemmas used by the source-regenerated tie of the blocked cross-validators
    (harness/pylite_cvsplit.v.tmpl, C11): the exact builtins np.isin, a.sum(), np.where(mask),
    a[int array] of Lib/PyLite.v on arrays of naturals, in the vocabulary of Model/CrossVal.v. *)
From Coq Require Import ZArith QArith List Bool String Lia Arith.
From Verde Require Import Lib.PyLite Model.CrossVal Proofs.CrossValProofs Proofs.PyLiteBridge.
Import ListNotations.
Open Scope string_scope.

Lemma existsb_id_map {A} (f : A -> bool) l : existsb (fun b : bool => b) (map f l) = existsb f l.
Proof. induction l as [|x t IH]; [reflexivity|]. cbn [map existsb]. rewrite IH. reflexivity. Qed.

(** np.isin(labels, blocks) *)
Lemma isin_val_vnat r x : isin_val (map vnat r) (vnat x) = Some (VB (memb x r)).
Proof.
  unfold isin_val, vnat at 1.
  rewrite (map_opt_map_some _ _ (fun z => Nat.eqb x z)).
  2: { intros z. unfold vnat. rewrite Zeqb_of_nat. reflexivity. }
  cbn [option_map]. rewrite existsb_id_map. reflexivity.
Qed.

Lemma call_isin_arr labels blocks :
  call "np.isin" [VA (map vnat labels); VA (map vnat blocks)] = Some (Some (VA (map (fun x => VB (memb x blocks)) labels))).
Proof.
  cbn -[isin_val map_opt]. rewrite (map_opt_map_some _ _ (fun x => VB (memb x blocks))).
  - reflexivity.
  - intros x. apply isin_val_vnat.
Qed.

Lemma call_isin_int labels i :
  call "np.isin" [VA (map vnat labels); vnat i] = Some (Some (VA (map (fun x => VB (Nat.eqb x i)) labels))).
Proof.
  change (vnat i) with (VZ (Z.of_nat i)). cbn -[isin_val map_opt].
  rewrite (map_opt_map_some _ _ (fun x => VB (Nat.eqb x i))).
  - reflexivity.
  - intros x. change [VZ (Z.of_nat i)] with (map vnat [i]). rewrite isin_val_vnat. cbn [memb existsb].
    rewrite orb_false_r. reflexivity.
Qed.

(** mask.sum() *)
Lemma sum_val_bools {A} (p : A -> bool) l :
  sum_val (map (fun x => VB (p x)) l) = Some (Z.of_nat (List.length (filter p l))).
Proof.
  unfold sum_val. induction l as [|x t IH]; [reflexivity|].
  cbn [map fold_right filter]. rewrite IH. destruct (p x); cbn [List.length]; f_equal; lia.
Qed.

Lemma count_filter_labels labels i : List.length (filter (fun x => Nat.eqb x i) labels) = count labels i.
Proof.
  unfold count. induction labels as [|a t IH]; [reflexivity|].
  cbn [filter count_occ]. destruct (Nat.eq_dec a i) as [->|Hne].
  - rewrite Nat.eqb_refl. cbn [List.length]. rewrite IH. reflexivity.
  - apply Nat.eqb_neq in Hne. rewrite Hne. exact IH.
Qed.

Lemma call_sum_isin labels i :
  call "meth:sum" [VA (map (fun x => VB (Nat.eqb x i)) labels)] = Some (Some (vnat (count labels i))).
Proof.
  cbn -[sum_val]. rewrite sum_val_bools, count_filter_labels. reflexivity.
Qed.

(** np.where(mask)[0] *)
Lemma where_combine {A} (p : A -> bool) (d : A) l : forall a,
  map fst (filter (fun q : nat * bool => snd q) (combine (seq a (List.length l)) (map p l))) =
  filter (fun j => p (nth (j - a) l d)) (seq a (List.length l)).
Proof.
  induction l as [|x t IH]; intros a; [reflexivity|].
  cbn [List.length seq map combine filter snd]. rewrite Nat.sub_diag. change (nth 0 (x :: t) d) with x.
  assert (E : filter (fun j => p (nth (j - a) (x :: t) d)) (seq (S a) (List.length t)) =
              filter (fun j => p (nth (j - S a) t d)) (seq (S a) (List.length t))).
  { apply filter_ext_in. intros j Hj. apply in_seq in Hj.
    replace (j - a) with (S (j - S a)) by lia. reflexivity. }
  rewrite E, <- IH. destruct (p x); reflexivity.
Qed.

Lemma call_where_mask (p : nat -> bool) labels :
  call "np.where" [VA (map (fun x => VB (p x)) labels)] =
  Some (Some (VT [arrN (filter (fun j => p (nth j labels 0)) (seq 0 (List.length labels)))])).
Proof.
  cbn -[unB combine seq filter]. rewrite unB_map, map_length.
  rewrite <- (map_map (fun q : nat * bool => fst q) (fun i => VZ (Z.of_nat i))).
  change (fun q : nat * bool => fst q) with (@fst nat bool).
  rewrite (where_combine p 0 labels 0). unfold arrN, vnat.
  assert (E : filter (fun j => p (nth (j - 0) labels 0)) (seq 0 (List.length labels)) =
              filter (fun j => p (nth j labels 0)) (seq 0 (List.length labels))).
  { apply filter_ext. intros j. rewrite Nat.sub_0_r. reflexivity. }
  rewrite E. reflexivity.
Qed.

Lemma call_where_isin labels blocks :
  call "np.where" [VA (map (fun x => VB (memb x blocks)) labels)] = Some (Some (VT [arrN (where_isin labels blocks)])).
Proof. apply (call_where_mask (fun x => memb x blocks)). Qed.

(** ids[positions] *)
Lemma nth_val_vnat ids j : j < List.length ids -> nth_val (map vnat ids) j = Some (vnat (nth j ids 0)).
Proof.
  revert j. induction ids as [|x t IH]; intros j H; [cbn in H; lia|].
  destruct j; [reflexivity|]. cbn [map nth_val nth]. apply IH. cbn in H. lia.
Qed.

Lemma norm_index_nat n j : j < n -> norm_index n (Z.of_nat j) = Some j.
Proof.
  intros H. unfold norm_index.
  destruct (Z.ltb_spec (Z.of_nat j) 0); [lia|].
  destruct (Z.ltb_spec (Z.of_nat j) 0); [lia|].
  destruct (Z.leb_spec (Z.of_nat n) (Z.of_nat j)); [lia|]. cbn [orb]. rewrite Nat2Z.id. reflexivity.
Qed.

Lemma take_idx_vnat ids f : Forall (fun j => j < List.length ids) f ->
  take_idx (map vnat ids) (map vnat f) = Some (Some (map vnat (take ids f))).
Proof.
  induction 1 as [|j t Hj Ht IH]; [reflexivity|].
  cbn [map take].
  change (take_idx (map vnat ids) (vnat j :: map vnat t))
    with (match norm_index (List.length (map vnat ids)) (Z.of_nat j) with
          | Some k => match nth_val (map vnat ids) k, take_idx (map vnat ids) (map vnat t) with
                      | Some x, Some (Some r) => Some (Some (x :: r))
                      | Some _, o => o
                      | None, _ => None end
          | None => None end).
  rewrite map_length, (norm_index_nat _ _ Hj), (nth_val_vnat _ _ Hj), IH. reflexivity.
Qed.

(** the positions in the folds of the model are positions of block ids *)
Lemma folds_in_range (folds : list (list nat)) n :
  List.concat folds = seq 0 n -> Forall (fun f => Forall (fun j => j < n) f) folds.
Proof.
  intros H. apply Forall_forall. intros f Hf. apply Forall_forall. intros j Hj.
  assert (Hin : In j (List.concat folds)) by (apply in_concat; exists f; split; assumption).
  rewrite H in Hin. apply in_seq in Hin. lia.
Qed.

(** np.atleast_1d of a list of ints *)
Lemma np_array_VL_vnat l : np_array (VL (map vnat l)) = Some (VA (map vnat l)).
Proof.
  pose proof (np_array_vnat l) as H. unfold np_array in *.
  change (rect (VL (map vnat l))) with (rect (VA (map vnat l))).
  change (has_Q (VL (map vnat l))) with (has_Q (VA (map vnat l))).
  destruct (rect (VA (map vnat l))); [|discriminate]. exact H.
Qed.

(** X[:, 0], X[:, 1] of a two-column array *)
Definition xarr (pts : list (val * val)) : val := VA (map (fun p => VA [fst p; snd p]) pts).

Lemma call_col0 pts : call "index[:,]" [xarr pts; VZ 0] = Some (Some (VA (map fst pts))).
Proof.
  unfold xarr. cbn -[map_opt]. rewrite (map_opt_map_some _ _ (fun p => Some (fst p))) by (intros x; reflexivity).
  rewrite (map_opt_map_some _ _ (fun p : val * val => fst p)) by (intros x; reflexivity). reflexivity.
Qed.

Lemma call_col1 pts : call "index[:,]" [xarr pts; VZ 1] = Some (Some (VA (map snd pts))).
Proof.
  unfold xarr. cbn -[map_opt]. rewrite (map_opt_map_some _ _ (fun p => Some (snd p))) by (intros x; reflexivity).
  rewrite (map_opt_map_some _ _ (fun p : val * val => snd p)) by (intros x; reflexivity). reflexivity.
Qed.

Lemma call_size_arrN l : call "attr:size" [VA (map vnat l)] = Some (Some (vnat (List.length l))).
Proof. cbn -[all_scalar]. rewrite all_scalar_vnat, map_length. reflexivity. Qed.

Lemma call_arange_nat n : call "np.arange" [vnat n] = Some (Some (arrN (seq 0 n))).
Proof. unfold vnat. cbn -[seq Z.to_nat]. rewrite Nat2Z.id. reflexivity. Qed.
