(** Proofs about the BlockReduce model (C09). *)
From Coq Require Import ZArith QArith Qabs List Bool Lia Lqa Permutation Sorting.Sorted.
From Verde Require Import Lib.Dyadic Lib.QList Model.BlockReduce.
Import ListNotations.

(** ** np.unique *)
Lemma uinsert_In k l j : In j (uinsert k l) <-> j = k \/ In j l.
Proof.
  induction l as [|k' t IH]; cbn [uinsert].
  - cbn. intuition.
  - destruct (Z.ltb_spec k k') as [H|H].
    + cbn. intuition.
    + destruct (Z.eqb_spec k k') as [E|E].
      * subst. cbn. intuition.
      * cbn [In]. rewrite IH. intuition.
Qed.

Lemma ukeys_In l k : In k (ukeys l) <-> In k l.
Proof.
  induction l as [|x t IH]; cbn [ukeys fold_right]; [reflexivity|].
  fold (ukeys t). rewrite uinsert_In, IH. cbn. intuition.
Qed.

Lemma uinsert_sorted k l : StronglySorted Z.lt l -> StronglySorted Z.lt (uinsert k l).
Proof.
  induction l as [|k' t IH]; intros Hs; cbn [uinsert].
  - constructor; constructor.
  - inversion Hs as [|? ? Hst Hall]; subst.
    destruct (Z.ltb_spec k k') as [H|H].
    + constructor; [exact Hs|]. constructor; [exact H|].
      eapply Forall_impl; [|exact Hall]. cbn. intros; lia.
    + destruct (Z.eqb_spec k k') as [E|E]; [exact Hs|].
      constructor; [apply IH, Hst|].
      apply Forall_forall. intros j Hj. apply uinsert_In in Hj as [->|Hj]; [lia|].
      rewrite Forall_forall in Hall. apply Hall, Hj.
Qed.

Lemma ukeys_sorted l : StronglySorted Z.lt (ukeys l).
Proof.
  induction l as [|x t IH]; cbn [ukeys fold_right]; [constructor|].
  apply uinsert_sorted, IH.
Qed.

Lemma sorted_lt_NoDup l : StronglySorted Z.lt l -> NoDup l.
Proof.
  induction 1 as [|k t Hs IH Hall]; constructor; [|exact IH].
  intros Hin. rewrite Forall_forall in Hall. specialize (Hall _ Hin). lia.
Qed.

Lemma ukeys_NoDup l : NoDup (ukeys l).
Proof. apply sorted_lt_NoDup, ukeys_sorted. Qed.

(** ** groupby *)
Section GroupbyProofs.
Context {A : Type}.
Implicit Types (ps : list (Z * A)) (g : list (Z * list A)).

Lemma select_cons k p ps :
  select k (p :: ps) = if (fst p =? k)%Z then snd p :: select k ps else select k ps.
Proof. unfold select. cbn [filter]. destruct (fst p =? k)%Z; reflexivity. Qed.

Lemma select_nil k ps : ~ In k (map fst ps) -> select k ps = [].
Proof.
  induction ps as [|p t IH]; intros Hn; [reflexivity|].
  rewrite select_cons. cbn [map In] in Hn.
  destruct (Z.eqb_spec (fst p) k) as [E|E]; [exfalso; apply Hn; left; exact E|].
  apply IH. intros H. apply Hn. right. exact H.
Qed.

Lemma select_nonempty k ps : In k (map fst ps) -> select k ps <> [].
Proof.
  induction ps as [|p t IH]; cbn [map In]; [intros []|].
  intros [E|H]; rewrite select_cons.
  - rewrite E, Z.eqb_refl. discriminate.
  - destruct (fst p =? k)%Z; [discriminate|apply IH, H].
Qed.

(** filing a row into groups that are given as a function of the key *)
Lemma ginsert_map k (x : A) (f : Z -> list A) ks :
  StronglySorted Z.lt ks ->
  (~ In k ks -> f k = []) ->
  ginsert k x (map (fun j => (j, f j)) ks) =
  map (fun j => (j, if (j =? k)%Z then x :: f j else f j)) (uinsert k ks).
Proof.
  induction ks as [|k' t IH]; intros Hs Hf.
  - cbn. rewrite Z.eqb_refl, Hf by (intros []). reflexivity.
  - inversion Hs as [|? ? Hst Hall]; subst. rewrite Forall_forall in Hall.
    assert (Hext : (k <= k')%Z ->
      map (fun j => (j, if (j =? k)%Z then x :: f j else f j)) t = map (fun j => (j, f j)) t).
    { intros Hle. apply map_ext_in. intros j Hj. specialize (Hall _ Hj).
      destruct (Z.eqb_spec j k); [lia|reflexivity]. }
    cbn [map ginsert uinsert].
    destruct (Z.ltb_spec k k') as [H|H].
    + cbn [map]. rewrite Z.eqb_refl.
      destruct (Z.eqb_spec k' k); [lia|].
      rewrite Hext by lia. rewrite Hf; [reflexivity|].
      intros [E|Hin]; [lia|]. specialize (Hall _ Hin). lia.
    + destruct (Z.eqb_spec k k') as [E|E].
      * subst k'. cbn [map]. rewrite Z.eqb_refl. rewrite Hext by lia. reflexivity.
      * cbn [map]. destruct (Z.eqb_spec k' k); [lia|].
        rewrite IH; [reflexivity|exact Hst|].
        intros Hn. apply Hf. intros [E2|Hin]; [lia|exact (Hn Hin)].
Qed.

(** the groups are exactly: for each distinct label in ascending order, the
    rows carrying it, in input order *)
Theorem groupby_spec ps :
  groupby ps = map (fun k => (k, select k ps)) (ukeys (map fst ps)).
Proof.
  induction ps as [|p t IH]; [reflexivity|].
  cbn [groupby fold_right map ukeys]. fold (groupby t). fold (ukeys (map fst t)).
  rewrite IH.
  rewrite (ginsert_map (fst p) (snd p) (fun j => select j t)).
  - apply map_ext. intros j. rewrite select_cons, (Z.eqb_sym j). reflexivity.
  - apply ukeys_sorted.
  - intros Hn. apply select_nil. intros H. apply Hn, ukeys_In, H.
Qed.

Corollary groupby_keys ps : map fst (groupby ps) = ukeys (map fst ps).
Proof. rewrite groupby_spec, map_map. cbn [fst]. apply map_id. Qed.

Corollary groupby_keys_sorted ps : StronglySorted Z.lt (map fst (groupby ps)).
Proof. rewrite groupby_keys. apply ukeys_sorted. Qed.

Corollary groupby_keys_iff ps k : In k (map fst (groupby ps)) <-> In k (map fst ps).
Proof. rewrite groupby_keys. apply ukeys_In. Qed.

Corollary groupby_members ps k (grp : list A) :
  In (k, grp) (groupby ps) -> grp = select k ps /\ grp <> [] /\ In k (map fst ps).
Proof.
  rewrite groupby_spec. intros H. apply in_map_iff in H as (j & E & Hj).
  injection E as -> <-. apply (proj1 (ukeys_In _ _)) in Hj.
  split; [reflexivity|]. split; [apply select_nonempty, Hj|exact Hj].
Qed.

Corollary groupby_complete ps k :
  In k (map fst ps) -> In (k, select k ps) (groupby ps).
Proof.
  intros H. rewrite groupby_spec. apply in_map_iff. exists k. split; [reflexivity|].
  apply ukeys_In, H.
Qed.

(** no row is lost or duplicated *)
Lemma ginsert_perm k (x : A) g :
  Permutation (concat (map snd (ginsert k x g))) (x :: concat (map snd g)).
Proof.
  induction g as [|[k' xs] t IH]; cbn [ginsert]; [reflexivity|].
  destruct (k <? k')%Z; [reflexivity|].
  destruct (k =? k')%Z; [reflexivity|].
  cbn [map snd concat]. rewrite IH. symmetry. apply Permutation_middle.
Qed.

Theorem groupby_partition ps : Permutation (concat (map snd (groupby ps))) (map snd ps).
Proof.
  induction ps as [|p t IH]; [reflexivity|].
  cbn [groupby fold_right map]. fold (groupby t).
  rewrite ginsert_perm. constructor. exact IH.
Qed.

(** a row is in the group of [k] exactly when it carries label [k] *)
Lemma select_In_iff k ps x : In x (select k ps) <-> In (k, x) ps.
Proof.
  unfold select. rewrite in_map_iff. split.
  - intros ([k' y] & E & H). cbn in E. subst y. apply filter_In in H as [H1 H2].
    cbn in H2. apply Z.eqb_eq in H2. subst. exact H1.
  - intros H. exists (k, x). split; [reflexivity|]. apply filter_In. split; [exact H|].
    cbn. apply Z.eqb_refl.
Qed.
End GroupbyProofs.

(** rows zipped from several columns: selecting the rows of a block selects
    the same positions in every column *)
Lemma map_fst_combine {A B} (la : list A) (lb : list B) :
  length la = length lb -> map fst (combine la lb) = la.
Proof.
  revert lb. induction la as [|a ta IH]; intros [|b tb] H; cbn in *; try reflexivity; try discriminate.
  rewrite IH by lia. reflexivity.
Qed.

Lemma map_snd_combine {A B} (la : list A) (lb : list B) :
  length la = length lb -> map snd (combine la lb) = lb.
Proof.
  revert lb. induction la as [|a ta IH]; intros [|b tb] H; cbn in *; try reflexivity; try discriminate.
  rewrite IH by lia. reflexivity.
Qed.

Lemma select_combine {A B} k (labels : list Z) (xs : list A) (ws : list B) :
  length xs = length labels -> length ws = length labels ->
  select k (combine labels (combine xs ws)) =
  combine (select k (combine labels xs)) (select k (combine labels ws)).
Proof.
  revert xs ws. induction labels as [|l ls IH]; intros [|x xs] [|w ws] H1 H2;
    cbn [combine length] in *; try reflexivity; try discriminate.
  rewrite !select_cons. cbn [fst snd].
  destruct (l =? k)%Z; cbn [combine]; rewrite IH by lia; reflexivity.
Qed.

Lemma select_length_combine {A B} k (labels : list Z) (xs : list A) (ws : list B) :
  length xs = length labels -> length ws = length labels ->
  length (select k (combine labels xs)) = length (select k (combine labels ws)).
Proof.
  revert xs ws. induction labels as [|l ls IH]; intros [|x xs] [|w ws] H1 H2;
    cbn [combine length] in *; try reflexivity; try discriminate.
  rewrite !select_cons. cbn [fst snd].
  destruct (l =? k)%Z; cbn [length]; rewrite (IH xs ws) by lia; reflexivity.
Qed.

(** positions: [x] is among the members of block [k] iff some point [i] has
    label [k] and value [x] *)
Lemma In_combine_nth {A B} (la : list A) (lb : list B) a b :
  In (a, b) (combine la lb) <-> exists i, nth_error la i = Some a /\ nth_error lb i = Some b.
Proof.
  revert lb. induction la as [|a' ta IH]; intros [|b' tb]; cbn [combine In].
  - split; [intros []|intros ([|i] & H & _); discriminate].
  - split; [intros []|intros ([|i] & H & _); discriminate].
  - split; [intros []|intros ([|i] & _ & H); discriminate].
  - rewrite IH. split.
    + intros [E|(i & H1 & H2)]; [injection E as -> ->; exists 0%nat; split; reflexivity|].
      exists (S i). split; assumption.
    + intros ([|i] & H1 & H2); cbn in H1, H2.
      * left. congruence.
      * right. exists i. split; assumption.
Qed.

Theorem select_members {A} k (labels : list Z) (col : list A) x :
  In x (select k (combine labels col)) <->
  exists i, nth_error labels i = Some k /\ nth_error col i = Some x.
Proof. rewrite select_In_iff. apply In_combine_nth. Qed.

(** ** BlockReduce.filter *)
Section BlockReduceProofs.
Variable red : list Q -> Q.
Variable wred : list Q -> list Q -> Q.

Lemma reduce_col_spec labels col :
  length col = length labels -> reduce_col red labels col = spec_col red labels col.
Proof.
  intros H. unfold reduce_col, spec_col. rewrite groupby_spec, map_map. cbn [snd].
  rewrite map_fst_combine by lia. reflexivity.
Qed.

Lemma wreduce_col_spec labels col w :
  length col = length labels -> length w = length labels ->
  wreduce_col wred labels col w = spec_wcol wred labels col w.
Proof.
  intros H1 H2. unfold wreduce_col, spec_wcol. rewrite groupby_spec, map_map. cbn [snd].
  rewrite map_fst_combine by (rewrite combine_length; lia).
  apply map_ext. intros k. rewrite select_combine by assumption.
  rewrite map_fst_combine, map_snd_combine by (apply select_length_combine; assumption).
  reflexivity.
Qed.

(** every output column has one entry per distinct label *)
Lemma spec_col_length labels col : length (spec_col red labels col) = length (ukeys labels).
Proof. unfold spec_col. apply map_length. Qed.
Lemma spec_wcol_length labels col w : length (spec_wcol wred labels col w) = length (ukeys labels).
Proof. unfold spec_wcol. apply map_length. Qed.

Lemma all_len_In {B} n (ls : list (list B)) l : all_len n ls = true -> In l ls -> length l = n.
Proof.
  unfold all_len. rewrite forallb_forall. intros H Hin. apply Nat.eqb_eq, H, Hin.
Qed.

Lemma map2_ext_in {X Y Z'} (f g : X -> Y -> Z') la lb :
  (forall a b, In a la -> In b lb -> f a b = g a b) -> map2 f la lb = map2 g la lb.
Proof.
  revert lb. induction la as [|a ta IH]; intros [|b tb] H; cbn; try reflexivity.
  rewrite H by (left; reflexivity). f_equal. apply IH. intros; apply H; right; assumption.
Qed.

Lemma In_firstn {B} n (l : list B) x : In x (firstn n l) -> In x l.
Proof.
  revert l. induction n as [|n IH]; intros [|y t]; cbn; try tauto.
  intros [E|H]; [left; exact E|right; apply IH, H].
Qed.

Definition spec_data labels data (weights : option (list (list Q))) : list (list Q) :=
  match weights with
  | None => map (spec_col red labels) data
  | Some ws => map2 (spec_wcol wred labels) data ws
  end.

Definition spec_coords labels (coords : list (list Q)) (centres : list Q * list Q) (center drop : bool) :=
  let cs := if drop then firstn 2 coords else coords in
  let reduced := map (spec_col red labels) cs in
  if center
  then centre_col (fst centres) labels :: centre_col (snd centres) labels :: skipn 2 reduced
  else reduced.

(** the whole function, in specification vocabulary *)
Theorem block_reduce_spec labels coords data weights centres center drop out :
  block_reduce red wred labels coords data weights centres center drop = Some out ->
  out = (spec_coords labels coords centres center drop, spec_data labels data weights).
Proof.
  unfold block_reduce. destruct (br_valid labels coords data weights) eqn:Hv; [|discriminate].
  intros E. injection E as <-.
  unfold br_valid in Hv. repeat (apply andb_true_iff in Hv as [Hv ?]).
  rename H into Hw, H0 into Hd, H2 into Hc.
  f_equal.
  - unfold block_coords, spec_coords.
    assert (Hmap : map (reduce_col red labels) (if drop then firstn 2 coords else coords) =
                   map (spec_col red labels) (if drop then firstn 2 coords else coords)).
    { apply map_ext_in. intros c Hin. apply reduce_col_spec.
      apply (all_len_In _ _ _ Hc). destruct drop; [apply In_firstn in Hin|]; exact Hin. }
    rewrite Hmap. reflexivity.
  - unfold block_data, spec_data. destruct weights as [ws|].
    + apply andb_true_iff in Hw as [_ Hw]. apply map2_ext_in. intros a b Ha Hb.
      apply wreduce_col_spec; [apply (all_len_In _ _ _ Hd), Ha|apply (all_len_In _ _ _ Hw), Hb].
    + apply map_ext_in. intros c Hin. apply reduce_col_spec, (all_len_In _ _ _ Hd), Hin.
Qed.

(** well-formed inputs are never rejected, malformed ones always *)
Lemma block_reduce_some labels coords data weights centres center drop :
  br_valid labels coords data weights = true <->
  exists out, block_reduce red wred labels coords data weights centres center drop = Some out.
Proof.
  unfold block_reduce. destruct (br_valid labels coords data weights).
  - split; [eexists; reflexivity|reflexivity].
  - split; [discriminate|intros [? H]; discriminate].
Qed.

(** per-entry reading: the i-th entry of every output column belongs to the
    i-th smallest distinct label *)
Lemma spec_col_nth labels col i k :
  nth_error (ukeys labels) i = Some k ->
  nth_error (spec_col red labels col) i = Some (red (select k (combine labels col))).
Proof. intros H. unfold spec_col. rewrite nth_error_map, H. reflexivity. Qed.

Lemma spec_wcol_nth labels col w i k :
  nth_error (ukeys labels) i = Some k ->
  nth_error (spec_wcol wred labels col w) i =
  Some (wred (select k (combine labels col)) (select k (combine labels w))).
Proof. intros H. unfold spec_wcol. rewrite nth_error_map, H. reflexivity. Qed.

Lemma centre_col_nth centres labels i k :
  nth_error (ukeys labels) i = Some k ->
  nth_error (centre_col centres labels) i = Some (nth (Z.to_nat k) centres 0).
Proof. intros H. unfold centre_col. rewrite nth_error_map, H. reflexivity. Qed.
End BlockReduceProofs.

(** ** a sum reduction conserves the total *)
Theorem sum_conserved (red : list Q -> Q) labels col :
  (forall l, red l == Qsum l) ->
  length col = length labels ->
  Qsum (reduce_col red labels col) == Qsum col.
Proof.
  intros Hred Hlen. unfold reduce_col.
  assert (E : forall G : list (Z * list Q),
             Qsum (map (fun g => red (snd g)) G) == Qsum (concat (map snd G))).
  { induction G as [|g t IH]; cbn [map concat Qsum]; [reflexivity|].
    rewrite Qsum_app, IH, Hred. reflexivity. }
  rewrite E. rewrite (Qsum_perm _ _ (groupby_partition _)).
  rewrite map_snd_combine by lia. reflexivity.
Qed.

Corollary sum_conserved_spec (red : list Q -> Q) labels col :
  (forall l, red l == Qsum l) ->
  length col = length labels ->
  Qsum (spec_col red labels col) == Qsum col.
Proof.
  intros H1 H2. rewrite <- reduce_col_spec by exact H2. apply sum_conserved; assumption.
Qed.

Lemma Forall2_map_in {X Y} (P : X -> Y -> Prop) (f : X -> Y) l :
  (forall x, In x l -> P x (f x)) -> Forall2 P l (map f l).
Proof.
  induction l as [|x t IH]; intros H; cbn [map]; constructor.
  - apply H. left. reflexivity.
  - apply IH. intros y Hy. apply H. right. exact Hy.
Qed.

(** the whole function: with a sum reduction every returned data column adds
    up to the total of the corresponding input column *)
Theorem block_reduce_sum_conserved (red : list Q -> Q) wred labels coords data centres center drop oc od :
  (forall l, red l == Qsum l) ->
  block_reduce red wred labels coords data None centres center drop = Some (oc, od) ->
  Forall2 (fun col out => Qsum out == Qsum col) data od.
Proof.
  intros Hred. unfold block_reduce. destruct (br_valid labels coords data None) eqn:Hv; [|discriminate].
  intros E. injection E as _ <-. unfold block_data.
  unfold br_valid in Hv. repeat (apply andb_true_iff in Hv as [Hv ?]).
  apply Forall2_map_in. intros col Hin. apply sum_conserved; [exact Hred|].
  eapply all_len_In; eassumption.
Qed.
