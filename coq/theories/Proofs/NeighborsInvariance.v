(** Order-independence of the median (two sorted permutations of the same
    values agree position by position up to ==), hence of every reduction, and
    the full-strength form of [knn_predict_unique]. *)
From Coq Require Import QArith Qabs ZArith List Bool Arith Lia Lqa Permutation Sorted.
From Verde Require Import Lib.QExtra Lib.ISort Model.Neighbors Proofs.NeighborsProofs.
Import ListNotations.
Open Scope Q_scope.

Definition cnt (f : Q -> bool) (l : list Q) : nat := length (filter f l).

Lemma cnt_perm f l l' : Permutation l l' -> cnt f l = cnt f l'.
Proof.
  intros P. unfold cnt. apply Permutation_length.
  induction P; cbn.
  - constructor.
  - destruct (f x); [constructor|]; assumption.
  - destruct (f x), (f y); try reflexivity. apply perm_swap.
  - etransitivity; eassumption.
Qed.

Lemma cnt_mono f g l : (forall y, In y l -> f y = true -> g y = true) -> (cnt f l <= cnt g l)%nat.
Proof.
  unfold cnt. induction l as [|a t IH]; intros H; [cbn; lia|].
  assert (IH': (length (filter f t) <= length (filter g t))%nat).
  { apply IH. intros y Hy. apply H. right; exact Hy. }
  cbn. destruct (f a) eqn:Fa.
  - rewrite (H a (or_introl eq_refl) Fa). cbn. lia.
  - destruct (g a); cbn; lia.
Qed.

Lemma cnt_app f l1 l2 : cnt f (l1 ++ l2) = (cnt f l1 + cnt f l2)%nat.
Proof. unfold cnt. rewrite filter_app, app_length. reflexivity. Qed.

Lemma cnt_le_length f l : (cnt f l <= length l)%nat.
Proof. unfold cnt. induction l as [|a t IH]; cbn; [lia|]. destruct (f a); cbn; lia. Qed.

Lemma cnt_none f l : (forall y, In y l -> f y = false) -> cnt f l = 0%nat.
Proof.
  unfold cnt. induction l as [|a t IH]; intros H; [reflexivity|]. cbn.
  rewrite (H a (or_introl eq_refl)). apply IH. intros y Hy. apply H. right; exact Hy.
Qed.

Lemma cnt_all f l : (forall y, In y l -> f y = true) -> cnt f l = length l.
Proof.
  unfold cnt. induction l as [|a t IH]; intros H; [reflexivity|]. cbn.
  rewrite (H a (or_introl eq_refl)). cbn. f_equal. apply IH. intros y Hy. apply H. right; exact Hy.
Qed.

Lemma nth_skipn' {A} (d : A) i : forall s j, nth j (skipn i s) d = nth (i + j) s d.
Proof.
  induction i as [|i IH]; intros s j; [reflexivity|].
  destruct s as [|a t]; [cbn; destruct j; reflexivity|]. cbn. apply IH.
Qed.

Lemma nth_firstn' {A} (d : A) i : forall s j, (j < i)%nat -> nth j (firstn i s) d = nth j s d.
Proof.
  induction i as [|i IH]; intros s j H; [lia|].
  destruct s as [|a t]; [reflexivity|]. destruct j as [|j]; [reflexivity|]. cbn. apply IH. lia.
Qed.

(** in a sorted list, fewer than i+1 elements are below the i-th, at least i+1 are at most it *)
Lemma sorted_cnt_lt s i :
  StronglySorted Qle s -> (i < length s)%nat ->
  (cnt (fun y => Qltb y (nth i s 0%Q)) s <= i)%nat.
Proof.
  intros Hs Hi. remember (nth i s 0%Q) as x eqn:Ex.
  rewrite <- (firstn_skipn i s). rewrite cnt_app. subst x.
  assert (Z: cnt (fun y => Qltb y (nth i s 0%Q)) (skipn i s) = 0%nat).
  { apply cnt_none. intros y Hy. destruct (In_nth _ _ 0 Hy) as [j [Hj Ej]].
    rewrite skipn_length in Hj. rewrite nth_skipn' in Ej.
    destruct (Qltb y (nth i s 0%Q)) eqn:E; [|reflexivity]. apply Qltb_spec in E.
    destruct (Nat.eq_dec j 0) as [->|NZ].
    - rewrite Nat.add_0_r in Ej. rewrite <- Ej in E. lra.
    - pose proof (StronglySorted_nth Qle s 0 Hs i (i + j)%nat ltac:(lia)) as L. rewrite Ej in L. lra. }
  rewrite Z. pose proof (cnt_le_length (fun y => Qltb y (nth i s 0%Q)) (firstn i s)) as B.
  rewrite firstn_length in B. lia.
Qed.

Lemma sorted_cnt_le s i :
  StronglySorted Qle s -> (i < length s)%nat ->
  (i < cnt (fun y => Qleb y (nth i s 0%Q)) s)%nat.
Proof.
  intros Hs Hi. remember (nth i s 0%Q) as x eqn:Ex.
  rewrite <- (firstn_skipn (S i) s). rewrite cnt_app. subst x.
  assert (A: cnt (fun y => Qleb y (nth i s 0%Q)) (firstn (S i) s) = S i).
  { rewrite cnt_all; [rewrite firstn_length; lia|].
    intros y Hy. destruct (In_nth _ _ 0 Hy) as [j [Hj Ej]].
    rewrite firstn_length in Hj. rewrite nth_firstn' in Ej by lia.
    apply Qleb_spec. rewrite <- Ej. destruct (Nat.eq_dec j i) as [->|NE]; [lra|].
    pose proof (StronglySorted_nth Qle s 0 Hs j i ltac:(lia)) as L. lra. }
  lia.
Qed.

Theorem sorted_perm_nth s1 s2 i :
  StronglySorted Qle s1 -> StronglySorted Qle s2 -> Permutation s1 s2 ->
  (i < length s1)%nat -> nth i s1 0 == nth i s2 0.
Proof.
  intros H1 H2 P Hi. assert (Hi2: (i < length s2)%nat) by (rewrite <- (Permutation_length P); exact Hi).
  set (x1 := nth i s1 0). set (x2 := nth i s2 0).
  destruct (Q_dec x1 x2) as [[L|L]|E]; [exfalso|exfalso|exact E].
  - pose proof (sorted_cnt_le s1 i H1 Hi) as A. fold x1 in A.
    pose proof (sorted_cnt_lt s2 i H2 Hi2) as B. fold x2 in B.
    rewrite (cnt_perm _ _ _ P) in A.
    pose proof (cnt_mono (fun y => Qleb y x1) (fun y => Qltb y x2) s2) as M.
    assert ((cnt (fun y => Qleb y x1) s2 <= cnt (fun y => Qltb y x2) s2)%nat).
    { apply M. intros y _ Hy. apply Qleb_spec in Hy. apply Qltb_spec. lra. }
    lia.
  - pose proof (sorted_cnt_le s2 i H2 Hi2) as A. fold x2 in A.
    pose proof (sorted_cnt_lt s1 i H1 Hi) as B. fold x1 in B.
    rewrite <- (cnt_perm _ _ _ P) in A.
    assert ((cnt (fun y => Qleb y x2) s1 <= cnt (fun y => Qltb y x1) s1)%nat).
    { apply cnt_mono. intros y _ Hy. apply Qleb_spec in Hy. apply Qltb_spec. lra. }
    lia.
Qed.

Lemma qsort_length l : length (qsort l) = length l.
Proof. apply Permutation_length, qsort_perm. Qed.

(** the median does not depend on the order of the values *)
Theorem median_perm l l' : Permutation l l' -> median l == median l'.
Proof.
  intros P. unfold median. rewrite <- (Permutation_length P).
  assert (PS: Permutation (qsort l) (qsort l')).
  { rewrite qsort_perm, P. symmetry. apply qsort_perm. }
  assert (N: forall i, (i < length l)%nat -> nth i (qsort l) 0 == nth i (qsort l') 0).
  { intros i Hi. apply sorted_perm_nth; [apply qsort_sorted|apply qsort_sorted|exact PS|].
    rewrite qsort_length. exact Hi. }
  destruct l as [|a t].
  - apply Permutation_nil in P. subst. reflexivity.
  - set (n := length (a :: t)) in *. assert (Hn: (0 < n)%nat) by (unfold n; cbn; lia).
    assert (H2: (n / 2 < n)%nat) by (apply Nat.div_lt; lia).
    destruct (Nat.even n).
    + rewrite (N (n / 2 - 1)%nat) by lia. rewrite (N (n / 2)%nat) by lia. reflexivity.
    + apply N. lia.
Qed.

Theorem reduce_perm r l l' : Permutation l l' -> reduce r l == reduce r l'.
Proof.
  intros P. destruct r; cbn [reduce];
    [apply mean_perm|apply median_perm|apply qmin_perm|apply qmax_perm]; exact P.
Qed.

(** KNeighbors, full strength: in general position the prediction is the
    reduction (any of the four) of the values of ANY set of k closest points *)
Theorem knn_predict_unique_all r k pts vals q sel :
  general_position pts q -> closest_set k pts q sel ->
  knn_predict r k pts vals q == reduce r (map (fun i => nth i vals 0) sel).
Proof.
  intros G H. unfold knn_predict. symmetry. apply reduce_perm.
  apply knn_predict_values_unique; assumption.
Qed.
