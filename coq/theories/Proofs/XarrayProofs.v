(** Proofs about the make_xarray_grid / meshgrid / grid_to_table model (C18). *)
From Coq Require Import String List Bool Arith ZArith Lia QArith Qabs Lqa.
From Verde Require Import Lib.Verdict Lib.Dyadic Model.Xarray.
Import ListNotations.
Open Scope nat_scope.

(** ** Lists, association lists *)

Lemma assoc_hit {B} nm (b : B) t : assoc nm ((nm, b) :: t) = Some b.
Proof. cbn. rewrite String.eqb_refl. reflexivity. Qed.

Lemma assoc_skip {B} nm k (b : B) t : nm <> k -> assoc nm ((k, b) :: t) = assoc nm t.
Proof. intros H. cbn. apply String.eqb_neq in H. rewrite H. reflexivity. Qed.

Lemma map_combine_snd {A B C} (f : B -> C) (l : list A) (xs : list B) :
  map (fun p => (fst p, f (snd p))) (combine l xs) = combine l (map f xs).
Proof.
  revert xs. induction l as [|a l IH]; intros [|x xs]; cbn; try reflexivity.
  rewrite IH. reflexivity.
Qed.

Lemma map_fst_combine {A B} (l : list A) (xs : list B) :
  length l = length xs -> map fst (combine l xs) = l.
Proof.
  revert xs. induction l as [|a l IH]; intros [|x xs] H; cbn in *; try reflexivity; try discriminate.
  rewrite IH by lia. reflexivity.
Qed.

Lemma forallb_combine_snd {A B} (f : B -> bool) (l : list A) (xs : list B) :
  length l = length xs ->
  forallb (fun p => f (snd p)) (combine l xs) = forallb f xs.
Proof.
  revert xs. induction l as [|a l IH]; intros [|x xs] H; cbn in *; try reflexivity; try discriminate.
  rewrite IH by lia. reflexivity.
Qed.

(** the k-th name of a duplicate-free list finds the k-th value *)
Lemma assoc_combine {B C} (f : B -> C) (names : list string) (vals : list B) k nm a :
  NoDup names ->
  nth_error names k = Some nm -> nth_error vals k = Some a ->
  assoc nm (combine names (map f vals)) = Some (f a).
Proof.
  intros Hnd. revert vals k. induction Hnd as [|x l Hx Hnd IH]; intros vals k Hn Hv.
  - destruct k; discriminate.
  - destruct vals as [|v vals]; [destruct k; discriminate|].
    destruct k as [|k]; cbn in Hn, Hv.
    + injection Hn as ->. injection Hv as ->. cbn. rewrite String.eqb_refl. reflexivity.
    + cbn. assert (Hne: nm <> x).
      { intros ->. apply Hx. eapply nth_error_In. exact Hn. }
      apply String.eqb_neq in Hne. rewrite Hne. eapply IH; eassumption.
Qed.

Lemma assoc_not_in {B} nm (l : list (string * B)) : ~ In nm (map fst l) -> assoc nm l = None.
Proof.
  induction l as [|[k b] t IH]; cbn; intros H; [reflexivity|].
  destruct (String.eqb_spec nm k) as [->|Hne]; [exfalso; apply H; left; reflexivity|].
  apply IH. intros Hin. apply H. right. exact Hin.
Qed.

Section Proofs.
Variable V : Type.
Variable veqb : V -> V -> bool.
Hypothesis veqb_spec : forall x y, veqb x y = true <-> x = y.

Notation arr2 := (arr2 V).

(** ** Shapes and the C-order ravel *)

Lemma rect_spec nn ne (a : arr2) :
  rect nn ne a = true <-> length a = nn /\ Forall (fun r => length r = ne) a.
Proof.
  unfold rect. rewrite andb_true_iff, Nat.eqb_eq, forallb_forall, Forall_forall.
  split; intros [H1 H2]; split; try exact H1; intros r Hr; specialize (H2 r Hr);
    apply Nat.eqb_eq; exact H2.
Qed.

Lemma length_ravel ne (a : arr2) :
  Forall (fun r => length r = ne) a -> length (ravel a) = length a * ne.
Proof.
  unfold ravel. induction 1 as [|r t Hr Ht IH]; cbn; [reflexivity|].
  rewrite app_length, IH, Hr. reflexivity.
Qed.

(** entry (i, j) of a rectangular array is entry i*ne + j of its ravel *)
Lemma nth_error_ravel_ij ne (a : arr2) i j :
  Forall (fun r => length r = ne) a -> j < ne ->
  nth_error (ravel a) (i * ne + j) = cell a i j.
Proof.
  unfold ravel, cell. intros Ha Hj. revert i.
  induction Ha as [|r t Hr Ht IH]; intros i.
  - cbn. destruct (i * ne + j), i; reflexivity.
  - destruct i as [|i]; cbn [concat nth_error].
    + cbn. apply nth_error_app1. lia.
    + rewrite nth_error_app2 by lia.
      replace (S i * ne + j - length r) with (i * ne + j) by (cbn; lia).
      apply IH.
Qed.

Lemma divmod_idx nn ne k : k < nn * ne ->
  k / ne < nn /\ k mod ne < ne /\ k = (k / ne) * ne + k mod ne.
Proof.
  intros Hk. assert (Hne: ne <> 0) by (intros ->; lia).
  split; [|split].
  - apply Nat.div_lt_upper_bound; [exact Hne|lia].
  - apply Nat.mod_upper_bound. exact Hne.
  - pose proof (Nat.div_mod k ne Hne). lia.
Qed.

(** row-major order: entry k of the ravel is cell (k / ne, k mod ne) *)
Lemma nth_error_ravel nn ne (a : arr2) k :
  rect nn ne a = true -> k < nn * ne ->
  nth_error (ravel a) k = cell a (k / ne) (k mod ne).
Proof.
  intros Ha Hk. apply rect_spec in Ha as [_ Ha].
  destruct (divmod_idx nn ne k Hk) as (_ & Hj & Ek).
  rewrite Ek at 1. apply nth_error_ravel_ij; assumption.
Qed.

Lemma length_ravel_rect nn ne (a : arr2) : rect nn ne a = true -> length (ravel a) = nn * ne.
Proof. intros Ha. apply rect_spec in Ha as [<- Ha]. apply length_ravel. exact Ha. Qed.

(** ** numpy.meshgrid *)

Lemma rect_mesh_e (e n : list V) : rect (length n) (length e) (mesh_e e n) = true.
Proof.
  apply rect_spec. unfold mesh_e. split; [apply map_length|].
  apply Forall_forall. intros r Hr. apply in_map_iff in Hr as (y & <- & _). reflexivity.
Qed.

Lemma rect_mesh_n (e n : list V) : rect (length n) (length e) (mesh_n e n) = true.
Proof.
  apply rect_spec. unfold mesh_n. split; [apply map_length|].
  apply Forall_forall. intros r Hr. apply in_map_iff in Hr as (y & <- & _). apply map_length.
Qed.

Lemma cell_mesh_e (e n : list V) i j : i < length n ->
  cell (mesh_e e n) i j = nth_error e j.
Proof.
  intros Hi. unfold cell, mesh_e. rewrite nth_error_map.
  destruct (nth_error n i) eqn:E; [reflexivity|].
  apply nth_error_None in E. lia.
Qed.

Lemma cell_mesh_n (e n : list V) i j : j < length e ->
  cell (mesh_n e n) i j = nth_error n i.
Proof.
  intros Hj. unfold cell, mesh_n. rewrite nth_error_map.
  destruct (nth_error n i) eqn:E; [|reflexivity]. cbn.
  rewrite nth_error_map. destruct (nth_error e j) eqn:E2; [reflexivity|].
  apply nth_error_None in E2. lia.
Qed.

Lemma first_row_mesh_e (e n : list V) : n <> [] -> first_row (mesh_e e n) = e.
Proof. destruct n; [congruence|reflexivity]. Qed.

Lemma first_col_mesh_n (e n : list V) : e <> [] -> first_col (mesh_n e n) = n.
Proof.
  intros He. destruct e as [|x e]; [congruence|].
  unfold first_col, mesh_n. induction n as [|y n IH]; cbn; [reflexivity|].
  f_equal. exact IH.
Qed.

Lemma all2_refl (cl : V -> V -> bool) (l : list V) :
  (forall x, In x l -> cl x x = true) -> all2 cl l l = true.
Proof.
  intros H. unfold all2. induction l as [|x l IH]; cbn; [reflexivity|].
  rewrite (H x (or_introl eq_refl)), IH; [reflexivity|].
  intros z Hz. apply H. right. exact Hz.
Qed.

Lemma rows_close_mesh_e (cl : V -> V -> bool) (e n : list V) :
  (forall x, In x e -> cl x x = true) -> rows_close cl (mesh_e e n) = true.
Proof.
  intros H. unfold rows_close, mesh_e. destruct n as [|y n]; [reflexivity|].
  cbn [map]. apply forallb_forall. intros r Hr.
  assert (r = e) as ->.
  { destruct Hr as [<-|Hr]; [reflexivity|]. apply in_map_iff in Hr as (? & <- & _). reflexivity. }
  apply all2_refl. exact H.
Qed.

Lemma cols_close_mesh_n (cl : V -> V -> bool) (e n : list V) :
  (forall y, In y n -> cl y y = true) -> cols_close cl (mesh_n e n) = true.
Proof.
  intros H. unfold cols_close, mesh_n. apply forallb_forall. intros r Hr.
  apply in_map_iff in Hr as (y & <- & Hy). destruct e as [|x e]; [reflexivity|].
  cbn [map]. apply forallb_forall. intros z Hz.
  assert (z = y) as ->.
  { destruct Hz as [<-|Hz]; [reflexivity|]. apply in_map_iff in Hz as (? & <- & _). reflexivity. }
  apply H. exact Hy.
Qed.

Lemma length_first_col ne (N : arr2) : 0 < ne ->
  Forall (fun r => length r = ne) N -> length (first_col N) = length N.
Proof.
  intros Hne. unfold first_col. induction 1 as [|r t Hr Ht IH]; [reflexivity|].
  cbn [flat_map]. rewrite app_length, IH. destruct r; cbn in *; [lia|reflexivity].
Qed.

(** ** meshgrid_to_1d / meshgrid_from_1d *)

Lemma all2_nth (cl : V -> V -> bool) l1 l2 j a b :
  all2 cl l1 l2 = true -> nth_error l1 j = Some a -> nth_error l2 j = Some b -> cl a b = true.
Proof.
  unfold all2. revert l2 j. induction l1 as [|x l1 IH]; intros l2 j H Ha Hb.
  - destruct j; discriminate.
  - destruct l2 as [|y l2]; [destruct j; discriminate|].
    cbn in H. apply andb_true_iff in H as [H1 H2].
    destruct j as [|j]; cbn in Ha, Hb.
    + injection Ha as <-. injection Hb as <-. exact H1.
    + eapply IH; eassumption.
Qed.

Lemma rows_close_cell (cl : V -> V -> bool) (E : arr2) i j x0 x :
  rows_close cl E = true -> cell E 0 j = Some x0 -> cell E i j = Some x -> cl x0 x = true.
Proof.
  unfold rows_close, cell. intros H H0 Hi.
  destruct E as [|r0 t]; [discriminate|]. cbn [nth_error] in H0.
  destruct (nth_error (r0 :: t) i) as [r|] eqn:Er; [|discriminate].
  apply nth_error_In in Er.
  rewrite forallb_forall in H. specialize (H r Er).
  eapply all2_nth; eassumption.
Qed.

Lemma cols_close_cell (cl : V -> V -> bool) (N : arr2) i j y0 y :
  cols_close cl N = true -> cell N i 0 = Some y0 -> cell N i j = Some y -> cl y0 y = true.
Proof.
  unfold cols_close, cell. intros H H0 Hj.
  destruct (nth_error N i) as [r|] eqn:Er; [|discriminate].
  apply nth_error_In in Er. rewrite forallb_forall in H. specialize (H r Er).
  destruct r as [|z r]; [discriminate|]. cbn in H0. injection H0 as ->.
  rewrite forallb_forall in H. apply H. eapply nth_error_In. exact Hj.
Qed.

Lemma mesh_e_rebuild (E : arr2) (e n : list V) :
  (forall r, In r E -> r = e) -> length n = length E -> mesh_e e n = E.
Proof.
  unfold mesh_e. revert n. induction E as [|r t IH]; intros n H Hl.
  - destruct n; [reflexivity|discriminate].
  - destruct n as [|y n]; [discriminate|]. cbn. f_equal.
    + symmetry. apply H. left. reflexivity.
    + apply IH; [|cbn in Hl; lia]. intros r' Hr'. apply H. right. exact Hr'.
Qed.

Lemma const_row (r e : list V) x :
  (forall z, In z r -> z = x) -> length r = length e -> map (fun _ => x) e = r.
Proof.
  revert e. induction r as [|z r IH]; intros e H Hl.
  - destruct e; [reflexivity|discriminate].
  - destruct e as [|w e]; [discriminate|]. cbn. f_equal.
    + symmetry. apply H. left. reflexivity.
    + apply IH; [|cbn in Hl; lia]. intros z' Hz'. apply H. right. exact Hz'.
Qed.

Lemma mesh_n_rebuild (N : arr2) (e : list V) :
  e <> [] -> Forall (fun r => length r = length e) N -> cols_equal_first N ->
  mesh_n e (first_col N) = N.
Proof.
  intros He HN Hc. unfold mesh_n, first_col.
  induction HN as [|r t Hr Ht IH]; [reflexivity|].
  cbn [flat_map]. destruct r as [|x r].
  { destruct e; [congruence|discriminate]. }
  cbn [firstn app map]. f_equal.
  - apply const_row; [|exact Hr].
    intros z Hz. specialize (Hc (x :: r) z (or_introl eq_refl) Hz). cbn in Hc. congruence.
  - apply IH. intros r' z Hr' Hz. apply (Hc r' z); [right; exact Hr'|exact Hz].
Qed.

Section WithClose.
Variable close : V -> V -> bool.

(** unfolding the acceptance test of meshgrid_to_1d *)
Lemma meshgrid_to_1d_Some (E N : arr2) extras e n :
  meshgrid_to_1d close E N extras = Some (e, n) ->
  let nn := length E in
  let ne := length (first_row E) in
  0 < nn /\ 0 < ne /\ rect nn ne E = true /\ rect nn ne N = true /\
  forallb (rect nn ne) extras = true /\
  rows_close close E = true /\ cols_close close N = true /\
  e = first_row E /\ n = first_col N /\ length e = ne /\ length n = nn.
Proof.
  unfold meshgrid_to_1d. intros H.
  destruct (_ && _) eqn:C in H; [|discriminate]. injection H as <- <-.
  apply andb_true_iff in C as [C Cg]. apply andb_true_iff in C as [C Cf].
  apply andb_true_iff in C as [C Ce]. apply andb_true_iff in C as [C Cd].
  apply andb_true_iff in C as [C Cc]. apply andb_true_iff in C as [Ca Cb].
  apply Nat.ltb_lt in Ca. apply Nat.ltb_lt in Cb.
  repeat (split; [assumption|]). split; [reflexivity|]. split; [reflexivity|]. split; [reflexivity|].
  apply rect_spec in Cd as [Cd1 Cd2]. rewrite <- Cd1.
  eapply length_first_col; eassumption.
Qed.

(** meshgrid_to_1d undoes meshgrid_from_1d on non-empty vectors whose entries
    are close to themselves (i.e. are not NaN) *)
Theorem meshgrid_to_from_1d (e n : list V) extras :
  (forall x, In x e \/ In x n -> close x x = true) -> e <> [] -> n <> [] ->
  forallb (rect (length n) (length e)) extras = true ->
  meshgrid_from_1d e n extras = Some (mesh_e e n, mesh_n e n) /\
  meshgrid_to_1d close (mesh_e e n) (mesh_n e n) extras = Some (e, n).
Proof.
  intros Hrefl He Hn Hx. split.
  - unfold meshgrid_from_1d. rewrite Hx. reflexivity.
  - unfold meshgrid_to_1d. rewrite first_row_mesh_e by exact Hn.
    replace (length (mesh_e e n)) with (length n) by (unfold mesh_e; rewrite map_length; reflexivity).
    rewrite rect_mesh_e, rect_mesh_n, Hx.
    rewrite rows_close_mesh_e by (intros x Hin; apply Hrefl; left; exact Hin).
    rewrite cols_close_mesh_n by (intros x Hin; apply Hrefl; right; exact Hin).
    rewrite first_col_mesh_n by exact He.
    destruct e; [congruence|]. destruct n; [congruence|]. reflexivity.
Qed.

(** meshgrid_from_1d rejects extra coordinates of the wrong shape *)
Theorem meshgrid_from_1d_rejects (e n : list V) extras :
  forallb (rect (length n) (length e)) extras = false -> meshgrid_from_1d e n extras = None.
Proof. intros H. unfold meshgrid_from_1d. rewrite H. reflexivity. Qed.

(** meshgrid_from_1d undoes meshgrid_to_1d on exact meshgrids *)
Theorem meshgrid_from_to_1d (E N : arr2) extras e n :
  meshgrid_to_1d close E N extras = Some (e, n) ->
  rows_equal_first E -> cols_equal_first N ->
  meshgrid_from_1d e n extras = Some (E, N).
Proof.
  intros H HE HN.
  destruct (meshgrid_to_1d_Some _ _ _ _ _ H) as (Hnn & Hne & RE & RN & RX & _ & _ & -> & -> & Le & Ln).
  unfold meshgrid_from_1d. rewrite Ln, RX. f_equal. f_equal.
  - apply mesh_e_rebuild; [exact HE|exact Ln].
  - apply rect_spec in RN as [_ RN]. apply mesh_n_rebuild.
    + intros E0. rewrite E0 in Hne. cbn in Hne. lia.
    + exact RN.
    + exact HN.
Qed.

(** what meshgrid_to_1d returns, cell by cell: the axis vectors agree with
    every cell of the input within [close], and exactly on exact meshgrids *)
Theorem meshgrid_to_1d_cells (E N : arr2) extras e n i j x0 y0 :
  meshgrid_to_1d close E N extras = Some (e, n) ->
  cell E i j = Some x0 -> cell N i j = Some y0 ->
  exists x y, nth_error e j = Some x /\ nth_error n i = Some y /\
    close x x0 = true /\ close y y0 = true /\
    (rows_equal_first E -> x = x0) /\ (cols_equal_first N -> y = y0).
Proof.
  intros H Hx Hy.
  destruct (meshgrid_to_1d_Some _ _ _ _ _ H) as (Hnn & Hne & RE & RN & RX & CE & CN & -> & -> & Le & Ln).
  apply rect_spec in RE as [_ RE]. apply rect_spec in RN as [LN RN].
  rewrite Forall_forall in RE, RN.
  (* row i of E and of N *)
  unfold cell in Hx, Hy.
  destruct (nth_error E i) as [re|] eqn:Ere; [|discriminate].
  destruct (nth_error N i) as [rn|] eqn:Ern; [|discriminate].
  pose proof (RE _ (nth_error_In _ _ Ere)) as Lre.
  pose proof (RN _ (nth_error_In _ _ Ern)) as Lrn.
  assert (Hj: j < length (first_row E)).
  { rewrite <- Lre. apply nth_error_Some. congruence. }
  destruct (nth_error (first_row E) j) as [x|] eqn:Ex; [|apply nth_error_None in Ex; lia].
  assert (Hfc: nth_error (first_col N) i = hd_error rn).
  { clear - Ern RN Hne. revert i Ern. unfold first_col.
    induction N as [|r t IH]; intros i Ern; [destruct i; discriminate|].
    assert (Lr: length r = length (first_row E)) by (apply RN; left; reflexivity).
    destruct r as [|z r]; [cbn in Lr; lia|].
    cbn [flat_map firstn app]. destruct i as [|i]; cbn in Ern |- *.
    - injection Ern as <-. reflexivity.
    - apply IH; [|exact Ern]. intros r' Hr'. apply RN. right. exact Hr'. }
  destruct rn as [|y rn]; [cbn in Lrn; lia|]. cbn in Hfc.
  exists x, y. repeat split; try assumption.
  - eapply (rows_close_cell close E i j); [exact CE| |].
    + unfold cell. destruct E; [discriminate|]. exact Ex.
    + unfold cell. rewrite Ere. exact Hx.
  - eapply (cols_close_cell close N i j); [exact CN| |].
    + unfold cell. rewrite Ern. reflexivity.
    + unfold cell. rewrite Ern. exact Hy.
  - intros HE. specialize (HE re (nth_error_In _ _ Ere)). subst re. congruence.
  - intros HN. specialize (HN (y :: rn) y0 (nth_error_In _ _ Ern) (nth_error_In _ _ Hy)).
    cbn in HN. congruence.
Qed.

End WithClose.

(** both directions in one statement *)
Theorem meshgrid_inverse (close : V -> V -> bool) (extras : list arr2) :
  (forall e n : list V, (forall x, In x e \/ In x n -> close x x = true) -> e <> [] -> n <> [] ->
     forallb (rect (length n) (length e)) extras = true ->
     exists E N, meshgrid_from_1d e n extras = Some (E, N) /\
                 meshgrid_to_1d close E N extras = Some (e, n)) /\
  (forall (E N : arr2) e n, meshgrid_to_1d close E N extras = Some (e, n) ->
     rows_equal_first E -> cols_equal_first N ->
     meshgrid_from_1d e n extras = Some (E, N)).
Proof.
  split.
  - intros e n Hrefl He Hn Hx. exists (mesh_e e n), (mesh_n e n).
    apply meshgrid_to_from_1d; assumption.
  - intros E N e n. apply meshgrid_from_to_1d.
Qed.

(** ** make_xarray_grid *)

Lemma check_names_Some count nm l :
  check_names count nm = Some l ->
  length l = count /\ l = names_list nm /\ names_valid count nm = true.
Proof.
  destruct nm as [|s|l']; cbn; [discriminate| |].
  - destruct (count =? 1) eqn:C; [|discriminate]. intros [= <-].
    apply Nat.eqb_eq in C. subst. repeat split.
  - destruct (count =? length l') eqn:C; [|discriminate]. intros [= <-].
    apply Nat.eqb_eq in C. subst. repeat split.
Qed.

Lemma check_names_None count nm : check_names count nm = None -> names_valid count nm = false.
Proof.
  destruct nm as [|s|l']; cbn; [reflexivity| |].
  - destruct (count =? 1); [discriminate|reflexivity].
  - destruct (count =? length l'); [discriminate|reflexivity].
Qed.

Section Make.
Variable close : V -> V -> bool.

(** the grid that make_xarray_grid builds, explicitly *)
Lemma make_structure ce cn extras data dnames dims xnames ds :
  make_xarray_grid close ce cn extras data dnames dims xnames = Some ds ->
  exists e n,
    horizontal close ce cn extras = Some (e, n) /\
    fst dims <> snd dims /\
    length (extra_names_of extras xnames) = length extras /\
    length (data_names_of data dnames) = length (data_list data) /\
    forallb (rect (length n) (length e)) (extras ++ data_list data) = true /\
    (match extras with [] => true | _ => names_valid (length extras) xnames end) = true /\
    (match data with DNone => true | _ => names_valid (length (data_list data)) dnames end) = true /\
    ds = mk_ds ((snd dims, Idx e) :: (fst dims, Idx n)
                  :: map (fun p => (fst p, Aux (mk_var dims (snd p))))
                       (combine (extra_names_of extras xnames) extras))
               (map (fun p => (fst p, mk_var dims (snd p)))
                  (combine (data_names_of data dnames) (data_list data))).
Proof.
  unfold make_xarray_grid. intros H.
  destruct (horizontal close ce cn extras) as [[e n]|]; [|discriminate].
  exists e, n. split; [reflexivity|].
  destruct (match extras with [] => Some [] | _ :: _ => check_names (length extras) xnames end)
    as [xn|] eqn:EX; [|discriminate].
  destruct (match data with DNone => Some [] | _ => check_names (length (data_list data)) dnames end)
    as [dn|] eqn:ED; [|discriminate].
  assert (HX: length xn = length extras /\ xn = extra_names_of extras xnames /\
              (match extras with [] => true | _ => names_valid (length extras) xnames end) = true).
  { unfold extra_names_of. destruct extras as [|x0 xs].
    - injection EX as <-. repeat split.
    - apply check_names_Some in EX. exact EX. }
  assert (HD: length dn = length (data_list data) /\ dn = data_names_of data dnames /\
              (match data with DNone => true | _ => names_valid (length (data_list data)) dnames end) = true).
  { unfold data_names_of. destruct data as [|a|l].
    - injection ED as <-. repeat split.
    - apply check_names_Some in ED. exact ED.
    - apply check_names_Some in ED. exact ED. }
  destruct HX as (LX & -> & VX). destruct HD as (LD & -> & VD).
  unfold xr_dataset in H.
  destruct (String.eqb_spec (fst dims) (snd dims)) as [|Hd]; [discriminate|].
  destruct (forallb _ _) eqn:F in H; [|discriminate].
  injection H as <-.
  rewrite forallb_app in F. rewrite !forallb_combine_snd in F by assumption.
  rewrite <- forallb_app in F.
  repeat (split; [assumption|]). reflexivity.
Qed.

(** names and dimensions of the result are the requested ones, in order *)
Theorem make_grid_names ce cn extras data dnames dims xnames ds :
  make_xarray_grid close ce cn extras data dnames dims xnames = Some ds ->
  map fst (ds_vars ds) = data_names_of data dnames /\
  map fst (ds_coords ds) = snd dims :: fst dims :: extra_names_of extras xnames /\
  Forall (fun p => v_dims (snd p) = dims) (ds_vars ds) /\
  length (ds_vars ds) = length (data_list data) /\
  length (ds_coords ds) = 2 + length extras.
Proof.
  intros H. destruct (make_structure _ _ _ _ _ _ _ _ H) as (e & n & _ & _ & LX & LD & _ & _ & _ & ->).
  cbn [ds_vars ds_coords map fst]. rewrite !map_map. cbn [fst snd].
  rewrite !map_fst_combine by assumption.
  repeat split.
  - apply Forall_forall. intros p Hp. apply in_map_iff in Hp as (q & <- & _). reflexivity.
  - rewrite map_length, combine_length. lia.
  - cbn [length]. rewrite map_length, combine_length. lia.
Qed.


Lemma horizontal_cells ce cn extras e n i j (a : arr2) (v : V) :
  horizontal close ce cn extras = Some (e, n) ->
  rect (length n) (length e) a = true -> cell a i j = Some v ->
  exists y x, nth_error n i = Some y /\ nth_error e j = Some x /\ source_cell close ce cn i j y x.
Proof.
  intros H Ra Hv.
  apply rect_spec in Ra as [La Ra]. rewrite Forall_forall in Ra.
  unfold cell in Hv. destruct (nth_error a i) as [r|] eqn:Er; [|discriminate].
  assert (Hi: i < length n). { rewrite <- La. apply nth_error_Some. congruence. }
  assert (Hj: j < length e).
  { rewrite <- (Ra r (nth_error_In _ _ Er)). apply nth_error_Some. congruence. }
  destruct ce as [e1|E], cn as [n1|N]; cbn in H; try discriminate.
  - injection H as -> ->.
    destruct (nth_error n i) as [y|] eqn:Ey; [|apply nth_error_None in Ey; lia].
    destruct (nth_error e j) as [x|] eqn:Ex; [|apply nth_error_None in Ex; lia].
    exists y, x. cbn. repeat split; assumption.
  - destruct (meshgrid_to_1d_Some _ _ _ _ _ _ H) as (Hnn & Hne & RE & RN & _ & _ & _ & _ & _ & Le & Ln).
    assert (exists x0, cell E i j = Some x0) as [x0 Hx0].
    { apply rect_spec in RE as [LE RE]. rewrite Forall_forall in RE. unfold cell.
      destruct (nth_error E i) as [re|] eqn:Ere; [|apply nth_error_None in Ere; lia].
      destruct (nth_error re j) as [x0|] eqn:Ex0; [exists x0; reflexivity|].
      apply nth_error_None in Ex0. rewrite (RE re (nth_error_In _ _ Ere)) in Ex0. lia. }
    assert (exists y0, cell N i j = Some y0) as [y0 Hy0].
    { apply rect_spec in RN as [LN RN]. rewrite Forall_forall in RN. unfold cell.
      destruct (nth_error N i) as [rn|] eqn:Ern; [|apply nth_error_None in Ern; lia].
      destruct (nth_error rn j) as [y0|] eqn:Ey0; [exists y0; reflexivity|].
      apply nth_error_None in Ey0. rewrite (RN rn (nth_error_In _ _ Ern)) in Ey0. lia. }
    destruct (meshgrid_to_1d_cells _ _ _ _ _ _ _ _ _ _ H Hx0 Hy0) as (x & y & Hx & Hy & C1 & C2 & X1 & X2).
    exists y, x. cbn. split; [exact Hy|]. split; [exact Hx|].
    exists y0, x0. repeat split; assumption.
Qed.

(** placement of the data: cell (i, j) of the k-th data array is the value of
    the variable with the k-th name at index (i, j), and the grid's
    coordinates there are those of the source cell *)
Theorem make_grid_placement ce cn extras data dnames dims xnames ds k nm (a : arr2) i j (v : V) :
  make_xarray_grid close ce cn extras data dnames dims xnames = Some ds ->
  NoDup (data_names_of data dnames) ->
  nth_error (data_names_of data dnames) k = Some nm ->
  nth_error (data_list data) k = Some a ->
  cell a i j = Some v ->
  exists y x, sel ds nm i j = Some (y, x, v) /\ source_cell close ce cn i j y x.
Proof.
  intros H Hnd Hnm Ha Hv.
  destruct (make_structure _ _ _ _ _ _ _ _ H) as (e & n & Hh & Hd & LX & LD & F & _ & _ & ->).
  assert (Ra: rect (length n) (length e) a = true).
  { rewrite forallb_forall in F. apply F. apply in_or_app. right. eapply nth_error_In. exact Ha. }
  destruct (horizontal_cells _ _ _ _ _ _ _ _ _ Hh Ra Hv) as (y & x & Hy & Hx & Hsrc).
  exists y, x. split; [|exact Hsrc].
  unfold sel. cbn [ds_vars ds_coords].
  rewrite (map_combine_snd (mk_var dims)).
  rewrite (assoc_combine (mk_var dims) _ _ k _ _ Hnd Hnm Ha). cbn [v_dims v_rows].
  rewrite assoc_skip by exact Hd. rewrite assoc_hit, assoc_hit.
  rewrite Hy, Hx, Hv. reflexivity.
Qed.

(** the same for the extra coordinates *)
Theorem make_grid_placement_extra ce cn extras data dnames dims xnames ds k nm (a : arr2) i j (v : V) :
  make_xarray_grid close ce cn extras data dnames dims xnames = Some ds ->
  NoDup (extra_names_of extras xnames) ->
  nm <> fst dims -> nm <> snd dims ->
  nth_error (extra_names_of extras xnames) k = Some nm ->
  nth_error extras k = Some a ->
  cell a i j = Some v ->
  exists y x, sel_coord ds nm i j = Some (y, x, v) /\ source_cell close ce cn i j y x.
Proof.
  intros H Hnd N0 N1 Hnm Ha Hv.
  destruct (make_structure _ _ _ _ _ _ _ _ H) as (e & n & Hh & Hd & LX & LD & F & _ & _ & ->).
  assert (Ra: rect (length n) (length e) a = true).
  { rewrite forallb_forall in F. apply F. apply in_or_app. left. eapply nth_error_In. exact Ha. }
  destruct (horizontal_cells _ _ _ _ _ _ _ _ _ Hh Ra Hv) as (y & x & Hy & Hx & Hsrc).
  exists y, x. split; [|exact Hsrc].
  unfold sel_coord. cbn [ds_vars ds_coords].
  rewrite assoc_skip by exact N1. rewrite assoc_skip by exact N0.
  rewrite (map_combine_snd (fun a => Aux (mk_var dims a))).
  rewrite (assoc_combine (fun a => Aux (mk_var dims a)) _ _ k _ _ Hnd Hnm Ha). cbn [v_dims v_rows].
  rewrite assoc_skip by exact Hd. rewrite assoc_hit, assoc_hit.
  rewrite Hy, Hx, Hv. reflexivity.
Qed.

(** ** Acceptance and rejection *)

Lemma check_names_valid count nm :
  names_valid count nm = true -> check_names count nm = Some (names_list nm).
Proof.
  destruct nm as [|s|l]; cbn; [discriminate| |]; intros ->; reflexivity.
Qed.

Lemma horizontal_valid ce cn extras (datas : list arr2) e n :
  horizontal close ce cn extras = Some (e, n) ->
  forallb (rect (length n) (length e)) (extras ++ datas) = true ->
  coords_valid close ce cn extras datas = true.
Proof.
  intros H F. destruct ce as [e1|E], cn as [n1|N]; cbn in H; try discriminate.
  - injection H as -> ->. exact F.
  - destruct (meshgrid_to_1d_Some _ _ _ _ _ _ H) as (Hnn & Hne & RE & RN & _ & CE & CN & _ & _ & Le & Ln).
    rewrite Le, Ln in F. unfold coords_valid. cbn [forallb].
    apply Nat.ltb_lt in Hnn. apply Nat.ltb_lt in Hne.
    rewrite Hnn, Hne, RE, RN, F, CE, CN. reflexivity.
Qed.

Lemma valid_horizontal ce cn extras (datas : list arr2) :
  coords_valid close ce cn extras datas = true ->
  exists e n, horizontal close ce cn extras = Some (e, n) /\
    forallb (rect (length n) (length e)) (extras ++ datas) = true.
Proof.
  intros H. destruct ce as [e1|E], cn as [n1|N]; try (cbn in H; discriminate).
  - exists e1, n1. split; [reflexivity|exact H].
  - unfold coords_valid in H. cbv zeta in H. cbn [forallb] in H.
    apply andb_true_iff in H as [H CN]. apply andb_true_iff in H as [H CE].
    apply andb_true_iff in H as [H F]. apply andb_true_iff in H as [Hnn Hne].
    apply andb_true_iff in F as [RE F]. apply andb_true_iff in F as [RN F].
    pose proof F as F'. rewrite forallb_app in F'. apply andb_true_iff in F' as [FX _].
    exists (first_row E), (first_col N). cbn [horizontal]. unfold meshgrid_to_1d.
    rewrite Hnn, Hne, RE, RN, FX, CE, CN. split; [reflexivity|].
    apply Nat.ltb_lt in Hne. apply rect_spec in RN as [LN RN].
    rewrite (length_first_col _ _ Hne RN), LN. exact F.
Qed.

(** make_xarray_grid accepts exactly the valid inputs *)
Theorem make_accepts ce cn extras data dnames dims xnames :
  make_valid close ce cn extras data dnames dims xnames = true ->
  exists ds, make_xarray_grid close ce cn extras data dnames dims xnames = Some ds.
Proof.
  unfold make_valid. intros H.
  apply andb_true_iff in H as [H Hd]. apply andb_true_iff in H as [H VD].
  apply andb_true_iff in H as [HC VX].
  destruct (valid_horizontal _ _ _ _ HC) as (e & n & Hh & F).
  unfold make_xarray_grid. rewrite Hh.
  assert (EX: exists xn, (match extras with [] => Some [] | _ :: _ => check_names (length extras) xnames end) = Some xn
                         /\ length xn = length extras).
  { destruct extras as [|x0 xs]; [exists []; split; reflexivity|].
    exists (names_list xnames). pose proof (check_names_valid _ _ VX) as E1.
    split; [exact E1|]. apply check_names_Some in E1. apply E1. }
  destruct EX as (xn & -> & LX).
  assert (ED: exists dn, (match data with DNone => Some [] | _ => check_names (length (data_list data)) dnames end) = Some dn
                         /\ length dn = length (data_list data)).
  { destruct data as [|a|l]; [exists []; split; reflexivity| |];
      (exists (names_list dnames); pose proof (check_names_valid _ _ VD) as E1;
       split; [exact E1|]; apply check_names_Some in E1; apply E1). }
  destruct ED as (dn & -> & LD).
  unfold xr_dataset. apply negb_true_iff in Hd. rewrite Hd.
  rewrite forallb_app, !forallb_combine_snd, <- forallb_app, F by assumption.
  eexists. reflexivity.
Qed.

Theorem make_rejects ce cn extras data dnames dims xnames :
  make_valid close ce cn extras data dnames dims xnames = false ->
  make_xarray_grid close ce cn extras data dnames dims xnames = None.
Proof.
  intros Hv. destruct (make_xarray_grid close ce cn extras data dnames dims xnames) as [ds|] eqn:H; [|reflexivity].
  exfalso. destruct (make_structure _ _ _ _ _ _ _ _ H) as (e & n & Hh & Hd & _ & _ & F & VX & VD & _).
  unfold make_valid in Hv. rewrite (horizontal_valid _ _ _ _ _ _ Hh F), VX, VD in Hv.
  apply String.eqb_neq in Hd. rewrite Hd in Hv. discriminate.
Qed.

(** the individual rejection claims *)
Theorem make_rejects_non_meshgrid_easting E N extras data dnames dims xnames i j x0 x :
  cell E 0 j = Some x0 -> cell E i j = Some x -> close x0 x = false ->
  make_xarray_grid close (A2 E) (A2 N) extras data dnames dims xnames = None.
Proof.
  intros H0 Hi Hc. apply make_rejects. unfold make_valid, coords_valid.
  destruct (rows_close close E) eqn:R.
  - rewrite (rows_close_cell _ _ _ _ _ _ R H0 Hi) in Hc. discriminate.
  - rewrite !andb_false_r. reflexivity.
Qed.

Theorem make_rejects_non_meshgrid_northing E N extras data dnames dims xnames i j y0 y :
  cell N i 0 = Some y0 -> cell N i j = Some y -> close y0 y = false ->
  make_xarray_grid close (A2 E) (A2 N) extras data dnames dims xnames = None.
Proof.
  intros H0 Hi Hc. apply make_rejects. unfold make_valid, coords_valid.
  destruct (cols_close close N) eqn:R.
  - rewrite (cols_close_cell _ _ _ _ _ _ R H0 Hi) in Hc. discriminate.
  - rewrite !andb_false_r. reflexivity.
Qed.

Theorem make_rejects_mixed_ndim e N extras data dnames dims xnames :
  make_xarray_grid close (A1 e) (A2 N) extras data dnames dims xnames = None /\
  make_xarray_grid close (A2 N) (A1 e) extras data dnames dims xnames = None.
Proof. split; reflexivity. Qed.

Theorem make_rejects_data_names ce cn extras data dnames dims xnames :
  data <> DNone ->
  names_valid (length (data_list data)) dnames = false ->
  make_xarray_grid close ce cn extras data dnames dims xnames = None.
Proof.
  intros Hd Hn. apply make_rejects. unfold make_valid.
  destruct data; [congruence| |]; rewrite Hn, !andb_false_r; reflexivity.
Qed.

Theorem make_rejects_extra_names ce cn extras data dnames dims xnames :
  extras <> [] ->
  names_valid (length extras) xnames = false ->
  make_xarray_grid close ce cn extras data dnames dims xnames = None.
Proof.
  intros Hx Hn. apply make_rejects. unfold make_valid.
  destruct extras; [congruence|]. rewrite Hn, !andb_false_r. reflexivity.
Qed.

(** a data or extra-coordinate array of the wrong shape is rejected (1-D
    input: the shape is (len northing, len easting)) *)
Theorem make_rejects_shape_1d e n extras data dnames dims xnames (a : arr2) :
  In a (extras ++ data_list data) -> rect (length n) (length e) a = false ->
  make_xarray_grid close (A1 e) (A1 n) extras data dnames dims xnames = None.
Proof.
  intros Hin Hr. apply make_rejects. unfold make_valid, coords_valid.
  destruct (forallb _ _) eqn:F; [|reflexivity].
  rewrite forallb_forall in F. rewrite (F a Hin) in Hr. discriminate.
Qed.

Theorem make_rejects_shape_2d E N extras data dnames dims xnames (a : arr2) :
  In a (N :: extras ++ data_list data) -> rect (length E) (length (first_row E)) a = false ->
  make_xarray_grid close (A2 E) (A2 N) extras data dnames dims xnames = None.
Proof.
  intros Hin Hr. apply make_rejects. unfold make_valid, coords_valid.
  destruct (forallb _ _) eqn:F; [|rewrite !andb_false_r; reflexivity].
  rewrite forallb_forall in F. rewrite (F a (or_intror Hin)) in Hr. discriminate.
Qed.

End Make.

(** ** Transposition *)

Lemma col_length w (a : arr2) i :
  Forall (fun r => length r = w) a -> i < w -> length (col i a) = length a.
Proof.
  intros Ha Hi. unfold col. induction Ha as [|r t Hr Ht IH]; [reflexivity|].
  cbn [flat_map]. rewrite app_length, IH.
  destruct (nth_error r i) eqn:E; [reflexivity|]. apply nth_error_None in E. lia.
Qed.

Lemma col_nth w (a : arr2) i j :
  Forall (fun r => length r = w) a -> i < w -> nth_error (col i a) j = cell a j i.
Proof.
  intros Ha Hi. unfold col, cell. revert j. induction Ha as [|r t Hr Ht IH]; intros j.
  - destruct j; reflexivity.
  - cbn [flat_map]. destruct (nth_error r i) as [x|] eqn:E; [|apply nth_error_None in E; lia].
    destruct j as [|j]; cbn [app nth_error]; [symmetry; exact E|apply IH].
Qed.

Lemma rect_width nn ne (a : arr2) : rect ne nn a = true -> 0 < ne -> length (hd [] a) = nn.
Proof.
  intros Ra Hne. apply rect_spec in Ra as [La Ra].
  destruct a as [|r t]; [cbn in La; lia|]. inversion Ra; assumption.
Qed.

Lemma transpose_rect nn ne (a : arr2) :
  rect ne nn a = true -> 0 < ne -> rect nn ne (transpose a) = true.
Proof.
  intros Ra Hne. pose proof (rect_width _ _ _ Ra Hne) as Hw.
  apply rect_spec in Ra as [La Ra]. apply rect_spec.
  unfold transpose. rewrite Hw. split; [rewrite map_length, seq_length; reflexivity|].
  apply Forall_forall. intros c Hc. apply in_map_iff in Hc as (i & <- & Hi). apply in_seq in Hi.
  rewrite (col_length nn); [exact La|exact Ra|lia].
Qed.

(** entry (i, j) of the transposed array is entry (j, i) *)
Lemma transpose_cell nn ne (a : arr2) i j :
  rect ne nn a = true -> 0 < ne -> i < nn -> cell (transpose a) i j = cell a j i.
Proof.
  intros Ra Hne Hi. pose proof (rect_width _ _ _ Ra Hne) as Hw.
  apply rect_spec in Ra as [La Ra].
  assert (Hs: nth_error (seq 0 nn) i = Some i).
  { rewrite (nth_error_nth' _ 0) by (rewrite seq_length; exact Hi). rewrite seq_nth by exact Hi. reflexivity. }
  unfold transpose. unfold cell at 1. rewrite Hw, nth_error_map, Hs. cbn [option_map].
  apply (col_nth nn); assumption.
Qed.

Lemma dims_eqb_refl d : dims_eqb d d = true.
Proof. unfold dims_eqb. rewrite !String.eqb_refl. reflexivity. Qed.

Lemma dims_eqb_swap d0 d1 : d0 <> d1 -> dims_eqb (d1, d0) (d0, d1) = false.
Proof. intros H. unfold dims_eqb. cbn [fst snd]. apply String.eqb_neq in H. rewrite H, andb_false_r. reflexivity. Qed.

(** a variable transposed to (d0, d1), raveled: nn * ne entries, entry k is
    the variable's value at cell (k / ne, k mod ne) *)
Lemma oriented_ravel d0 d1 nn ne (v : var2 V) :
  d0 <> d1 -> laid_out d0 d1 nn ne v ->
  length (ravel (oriented d0 d1 v)) = nn * ne /\
  forall k, k < nn * ne ->
    nth_error (ravel (oriented d0 d1 v)) k = value_at d0 d1 v (k / ne) (k mod ne).
Proof.
  intros Hd [[Hv Rv]|[Hv Rv]]; unfold oriented, value_at; rewrite Hv.
  - rewrite dims_eqb_refl. split; [apply length_ravel_rect; exact Rv|].
    intros k Hk. apply (nth_error_ravel _ _ _ _ Rv Hk).
  - rewrite (dims_eqb_swap _ _ Hd), dims_eqb_refl.
    destruct (Nat.eq_dec ne 0) as [->|Hne].
    + apply rect_spec in Rv as [La _]. apply length_zero_iff_nil in La. rewrite La.
      split; [cbn; lia|]. intros k Hk. lia.
    + assert (Hne': 0 < ne) by lia.
      pose proof (transpose_rect _ _ _ Rv Hne') as Rt.
      split; [apply length_ravel_rect; exact Rt|].
      intros k Hk. destruct (divmod_idx _ _ _ Hk) as (Hi & _ & _).
      rewrite (nth_error_ravel _ _ _ _ Rt Hk). apply (transpose_cell _ _ _ _ _ Rv Hne' Hi).
Qed.

(** ** grid_to_table *)

(** one row per cell, row-major, each row holding the cell's coordinates,
    extra coordinates and every variable - whichever of the two dimension
    orders each variable / coordinate is stored in *)
Theorem table_rows (g : grid V) d0 d1 (north east : list V) :
  aligned_grid g d0 d1 north east ->
  let nn := length north in
  let ne := length east in
  let extras := filter (is_extra d0 d1) (grid_coords g) in
  exists t, grid_to_table g = Some t /\
    map fst t = d0 :: d1 :: map fst extras ++ map fst (grid_vars g) /\
    Forall (fun c => length (snd c) = nn * ne) t /\
    forall k, k < nn * ne ->
      table_row t k =
        nth_error north (k / ne) :: nth_error east (k mod ne)
        :: map (fun p => coord_at d0 d1 (snd p) (k / ne) (k mod ne)) extras
        ++ map (fun p => value_at d0 d1 (snd p) (k / ne) (k mod ne)) (grid_vars g).
Proof.
  intros (Hd & (nm & v0 & rest & Hv & Hd0) & Hn & He & FV & FC). cbv zeta.
  unfold grid_to_table.
  destruct (grid_vars g) as [|[nm' v0'] rest'] eqn:EV; [discriminate|].
  injection Hv as -> -> ->. cbv beta iota.
  rewrite Hd0. cbn [fst snd]. rewrite Hn, He. cbn [coord_values].
  set (vars := (nm, v0) :: rest) in *.
  set (extras := filter (is_extra d0 d1) (grid_coords g)).
  assert (FX: forall p, In p extras -> exists v, snd p = Aux v /\
                laid_out d0 d1 (length north) (length east) v).
  { intros p Hp. apply filter_In in Hp as [Hp1 Hp2]. rewrite Forall_forall in FC. apply FC; assumption. }
  rewrite Forall_forall in FV.
  eexists. split; [reflexivity|]. split; [|split].
  - cbn [map fst]. rewrite map_app, !map_map. reflexivity.
  - repeat apply Forall_cons; cbn [snd].
    + apply length_ravel_rect. apply rect_mesh_n.
    + apply length_ravel_rect. apply rect_mesh_e.
    + apply Forall_app. split; apply Forall_forall; intros c Hc;
        apply in_map_iff in Hc as (p & <- & Hp); cbn [snd].
      * destruct (FX p Hp) as (v & -> & Lv). cbn [coord_oriented].
        apply (oriented_ravel _ _ _ _ _ Hd Lv).
      * apply (oriented_ravel _ _ _ _ _ Hd (FV p Hp)).
  - intros k Hk. destruct (divmod_idx _ _ _ Hk) as (Hi & Hj & _).
    unfold table_row. cbn [map snd]. rewrite map_app, !map_map. cbn [snd].
    rewrite (nth_error_ravel _ _ _ _ (rect_mesh_n east north) Hk), (cell_mesh_n _ _ _ _ Hj).
    rewrite (nth_error_ravel _ _ _ _ (rect_mesh_e east north) Hk), (cell_mesh_e _ _ _ _ Hi).
    f_equal. f_equal. f_equal.
    + apply map_ext_in. intros p Hp. destruct (FX p Hp) as (v & -> & Lv).
      cbn [coord_oriented coord_at]. apply (proj2 (oriented_ravel _ _ _ _ _ Hd Lv) k Hk).
    + apply map_ext_in. intros p Hp. apply (proj2 (oriented_ravel _ _ _ _ _ Hd (FV p Hp)) k Hk).
Qed.

(** ** The decidable table statement is what [table_rows] establishes: the
    model's own output satisfies it on every aligned grid *)

Lemma list_eqb_refl {A} (eqb : A -> A -> bool) (l : list A) :
  (forall x, eqb x x = true) -> list_eqb eqb l l = true.
Proof. intros H. induction l as [|x l IH]; cbn; [reflexivity|]. rewrite H, IH. reflexivity. Qed.

Theorem table_holds_model (g : grid V) d0 d1 (north east : list V) :
  aligned_grid g d0 d1 north east ->
  table_holds veqb g (grid_to_table g) = true.
Proof.
  intros Hal. pose proof Hal as (Hd & (nm & v0 & rest & Hv & Hd0) & Hn & He & FV & FC).
  destruct (table_rows _ _ _ _ _ Hal) as (t & Ht & Hnames & Hlen & Hrows).
  rewrite Ht. unfold table_holds. rewrite Hv. cbv beta iota.
  rewrite Hd0. cbn [fst snd]. rewrite Hn, He. rewrite <- Hv.
  rewrite Hnames.
  apply andb_true_iff. split; [apply andb_true_iff; split|].
  - apply list_eqb_refl. apply String.eqb_refl.
  - apply forallb_forall. intros c Hc. rewrite Forall_forall in Hlen.
    apply Nat.eqb_eq. apply Hlen. exact Hc.
  - apply forallb_forall. intros k Hk. apply in_seq in Hk.
    rewrite Hrows by lia.
    apply list_eqb_refl. intros [x|]; cbn; [apply veqb_spec; reflexivity|reflexivity].
Qed.

(** ** arrays -> grid -> table *)

Section Round.
Variable close : V -> V -> bool.

Theorem grid_table_roundtrip ce cn extras data dnames dims xnames ds :
  make_xarray_grid close ce cn extras data dnames dims xnames = Some ds ->
  data_list data <> [] ->
  ~ In (fst dims) (extra_names_of extras xnames) ->
  ~ In (snd dims) (extra_names_of extras xnames) ->
  exists e n, horizontal close ce cn extras = Some (e, n) /\
    grid_to_table (GDataset ds) =
      Some ((fst dims, ravel (mesh_n e n)) :: (snd dims, ravel (mesh_e e n))
            :: combine (extra_names_of extras xnames) (map (@ravel V) extras)
            ++ combine (data_names_of data dnames) (map (@ravel V) (data_list data))).
Proof.
  intros H Hne N0 N1.
  destruct (make_structure _ _ _ _ _ _ _ _ _ H) as (e & n & Hh & Hd & LX & LD & F & _ & _ & ->).
  exists e, n. split; [exact Hh|].
  unfold grid_to_table. cbn [grid_vars grid_coords ds_vars ds_coords].
  destruct (combine (data_names_of data dnames) (data_list data)) as [|[nm0 a0] rest] eqn:EC.
  { exfalso. apply Hne. apply length_zero_iff_nil.
    apply (f_equal (@length _)) in EC. rewrite combine_length in EC. cbn in EC. lia. }
  cbn [map fst snd v_dims]. cbv beta iota.
  rewrite assoc_skip by exact Hd. rewrite !assoc_hit. cbn [coord_values].
  do 3 f_equal.
  assert (Hf: forall l : list (string * arr2),
             ~ In (fst dims) (map fst l) -> ~ In (snd dims) (map fst l) ->
             filter (is_extra (fst dims) (snd dims))
               (map (fun p => (fst p, Aux (mk_var dims (snd p)))) l)
             = map (fun p => (fst p, Aux (mk_var dims (snd p)))) l).
  { induction l as [|[s a] l IH]; intros A B; [reflexivity|]. cbn [map filter fst snd].
    unfold is_extra at 1. cbn [fst].
    destruct (String.eqb_spec s (fst dims)) as [->|_]; [exfalso; apply A; left; reflexivity|].
    destruct (String.eqb_spec s (snd dims)) as [->|_]; [exfalso; apply B; left; reflexivity|].
    cbn [orb negb]. f_equal. apply IH; intros C; [apply A|apply B]; right; exact C. }
  cbn [filter]. unfold is_extra at 1. cbn [fst].
  rewrite String.eqb_refl, orb_true_r. cbn [negb].
  unfold is_extra at 1. cbn [fst].
  rewrite String.eqb_refl. cbn [orb negb].
  rewrite Hf by (rewrite map_fst_combine by exact LX; assumption).
  assert (Ho: forall a : arr2, oriented (fst dims) (snd dims) (mk_var dims a) = a).
  { intros a. unfold oriented, dims_eqb. cbn [v_dims v_rows fst snd].
    rewrite !String.eqb_refl. reflexivity. }
  f_equal.
  - rewrite map_map. rewrite <- (map_combine_snd (@ravel V)).
    apply map_ext. intros p. cbn [fst snd coord_oriented]. rewrite Ho. reflexivity.
  - rewrite <- (map_combine_snd (@ravel V)), EC. cbn [map fst snd]. rewrite Ho. f_equal.
    rewrite map_map. apply map_ext. intros p. cbn [fst snd]. rewrite Ho. reflexivity.
Qed.

(** on an exact 2-D meshgrid the coordinate columns are the raveled input
    coordinate arrays themselves *)
Theorem grid_table_roundtrip_meshgrid E N extras data dnames dims xnames ds :
  make_xarray_grid close (A2 E) (A2 N) extras data dnames dims xnames = Some ds ->
  rows_equal_first E -> cols_equal_first N ->
  data_list data <> [] ->
  ~ In (fst dims) (extra_names_of extras xnames) ->
  ~ In (snd dims) (extra_names_of extras xnames) ->
  grid_to_table (GDataset ds) =
    Some ((fst dims, ravel N) :: (snd dims, ravel E)
          :: combine (extra_names_of extras xnames) (map (@ravel V) extras)
          ++ combine (data_names_of data dnames) (map (@ravel V) (data_list data))).
Proof.
  intros H HE HN Hne N0 N1.
  destruct (grid_table_roundtrip _ _ _ _ _ _ _ _ H Hne N0 N1) as (e & n & Hh & ->).
  cbn [horizontal] in Hh.
  pose proof (meshgrid_from_to_1d _ _ _ _ _ _ Hh HE HN) as Hm.
  unfold meshgrid_from_1d in Hm. destruct (forallb _ _) in Hm; [|discriminate].
  injection Hm as -> ->. reflexivity.
Qed.

End Round.

(** ** The decidable exact-meshgrid test is the stated condition *)

Lemma veqb_refl x : veqb x x = true.
Proof. apply veqb_spec. reflexivity. Qed.

Lemma all2_eq (l1 l2 : list V) : length l1 = length l2 -> all2 veqb l1 l2 = true -> l1 = l2.
Proof.
  unfold all2. revert l2. induction l1 as [|x l1 IH]; intros [|y l2] Hl H; cbn in *; try reflexivity; try discriminate.
  apply andb_true_iff in H as [H1 H2]. apply veqb_spec in H1. subst y. f_equal. apply IH; [lia|exact H2].
Qed.

Theorem exact_meshgrid_b_spec nn ne (E N : arr2) :
  rect nn ne E = true ->
  (exact_meshgrid_b veqb E N = true <-> rows_equal_first E /\ cols_equal_first N).
Proof.
  intros RE. apply rect_spec in RE as [_ RE]. rewrite Forall_forall in RE.
  unfold exact_meshgrid_b. rewrite andb_true_iff.
  assert (A: rows_close veqb E = true <-> rows_equal_first E).
  { unfold rows_close, rows_equal_first, first_row. destruct E as [|r0 t].
    - split; [intros _ r []|reflexivity].
    - cbn [hd]. rewrite forallb_forall. split; intros H r Hr.
      + symmetry. apply all2_eq; [|apply H; exact Hr].
        rewrite (RE r0 (or_introl eq_refl)), (RE r Hr). reflexivity.
      + rewrite (H r Hr). apply all2_refl. intros z _. apply veqb_refl. }
  assert (B: cols_close veqb N = true <-> cols_equal_first N).
  { unfold cols_close, cols_equal_first. rewrite forallb_forall. split; intros H.
    - intros r x Hr Hx. specialize (H r Hr). destruct r as [|x0 r]; [destruct Hx|].
      rewrite forallb_forall in H. specialize (H x Hx). apply veqb_spec in H. subst. reflexivity.
    - intros r Hr. destruct r as [|x0 r]; [reflexivity|].
      apply forallb_forall. intros x Hx. specialize (H _ x Hr Hx). cbn in H.
      injection H as ->. apply veqb_refl. }
  rewrite A, B. reflexivity.
Qed.

End Proofs.

(** ** The instance used by the generated case files: exact dyadic doubles *)

Lemma deqb_spec (a b : D) : deqb a b = true <-> a = b.
Proof.
  destruct a as [m1 e1], b as [m2 e2]. unfold deqb. cbn [fst snd].
  rewrite andb_true_iff, !Z.eqb_eq. split; [intros [-> ->]; reflexivity|intros [= -> ->]; split; reflexivity].
Qed.

Open Scope Q_scope.

Lemma np_atol_pos : 0 < D2Q np_atol.
Proof.
  unfold D2Q, np_atol. cbn [fst snd]. apply Qmult_lt_0_compat; [reflexivity|apply pow2_pos].
Qed.

Lemma np_rtol_pos : 0 < D2Q np_rtol.
Proof.
  unfold D2Q, np_rtol. cbn [fst snd]. apply Qmult_lt_0_compat; [reflexivity|apply pow2_pos].
Qed.

(** [dclose a b] is |a - b| <= atol + rtol * |b| over the rationals *)
Lemma dclose_spec (a b : D) :
  dclose a b = true <-> Qabs (D2Q a - D2Q b) <= D2Q np_atol + D2Q np_rtol * Qabs (D2Q b).
Proof.
  unfold dclose. rewrite dle_spec, D2Q_abs, D2Q_add, D2Q_mul, D2Q_abs.
  rewrite (Qabs_wd _ _ (D2Q_sub a b)). reflexivity.
Qed.

Lemma dclose_refl (x : D) : dclose x x = true.
Proof.
  apply dclose_spec.
  rewrite (Qabs_wd (D2Q x - D2Q x) 0) by ring. cbn [Qabs Z.abs Qnum Qden].
  pose proof np_atol_pos. pose proof np_rtol_pos. pose proof (Qabs_nonneg (D2Q x)).
  change (Qabs 0) with 0. nra.
Qed.

(** values that may be NaN: [None] is NaN.  Equality is structural (NaN
    matches NaN position for position); [oclose] is numpy.allclose's element
    test, false as soon as one side is NaN *)
Close Scope Q_scope.

Lemma odeqb_spec (a b : OD) : odeqb a b = true <-> a = b.
Proof.
  destruct a as [x|], b as [y|]; cbn; try (split; [discriminate|intros [=]]); try tauto.
  rewrite deqb_spec. split; [intros ->; reflexivity|intros [= ->]; reflexivity].
Qed.

Lemma oclose_spec (a b : OD) :
  oclose a b = true <-> exists x y, a = Some x /\ b = Some y /\ dclose x y = true.
Proof.
  destruct a as [x|], b as [y|]; cbn; split; try discriminate.
  - intros H. exists x, y. repeat split. exact H.
  - intros (x' & y' & [= <-] & [= <-] & H). exact H.
  - intros (x' & y' & _ & [=] & _).
  - intros (x' & y' & [=] & _).
  - intros (x' & y' & [=] & _).
Qed.

Lemma oclose_refl_finite (x : D) : oclose (Some x) (Some x) = true.
Proof. cbn. apply dclose_refl. Qed.
