(** C01: exactness of the nearest-neighbour (k = 1), Chain and Vector models. *)
From Coq Require Import QArith Qabs ZArith List Bool Lia Lqa Morphisms Setoid.
From Verde Require Import Lib.Dyadic Lib.QExtra Lib.LinAlgQ Model.Interpolators Proofs.LeastSquaresProofs.
Import ListNotations.
Open Scope Q_scope.

Lemma sqdist_nonneg a b : 0 <= sqdist a b.
Proof.
  unfold sqdist. set (u := fst a - fst b). set (v := snd a - snd b). clearbody u v.
  assert (0 <= u * u) by nra. assert (0 <= v * v) by nra. lra.
Qed.
Lemma sq_zero u : u * u == 0 -> u == 0.
Proof.
  intros H. destruct (Qeq_dec u 0) as [E|E]; [exact E|exfalso].
  destruct (Qlt_le_dec u 0); [nra|]. destruct (Qlt_le_dec 0 u); [nra|]. apply E. lra.
Qed.
Lemma sqdist_zero_iff a b : sqdist a b == 0 <-> pt_eq a b.
Proof.
  unfold sqdist, pt_eq. split.
  - set (u := fst a - fst b). set (v := snd a - snd b). intros H.
    assert (Hu: 0 <= u * u) by (clearbody u; nra). assert (Hv: 0 <= v * v) by (clearbody v; nra).
    assert (Eu: u == 0) by (apply sq_zero; lra). assert (Ev: v == 0) by (apply sq_zero; lra).
    unfold u, v in *. split; lra.
  - intros [H1 H2]. rewrite H1, H2. ring.
Qed.
Lemma sqdist_pos a b : ~ pt_eq a b -> 0 < sqdist a b.
Proof.
  intros H. pose proof (sqdist_nonneg a b). destruct (Qlt_le_dec 0 (sqdist a b)) as [P|P]; [exact P|].
  exfalso. apply H. apply sqdist_zero_iff. lra.
Qed.

(** once the candidate is at distance 0 it is never replaced *)
Lemma argmin_keep q pts i best : snd best == 0 -> argmin_from q pts i best = best.
Proof.
  revert i best; induction pts as [|x t IH]; intros i best H; simpl; [reflexivity|].
  assert (E: Qltb (sqdist q x) (snd best) = false).
  { destruct (Qltb (sqdist q x) (snd best)) eqn:E; [|reflexivity].
    apply Qltb_spec in E. pose proof (sqdist_nonneg q x). lra. }
  rewrite E. apply IH; assumption.
Qed.

(** a candidate at positive distance is replaced by the first point at
    distance 0 when all points before it are at positive distance *)
Lemma argmin_finds q pts k i best :
  0 < snd best -> (k < length pts)%nat ->
  sqdist q (nth k pts (0, 0)) == 0 ->
  (forall m, (m < k)%nat -> 0 < sqdist q (nth m pts (0, 0))) ->
  fst (argmin_from q pts i best) = (i + k)%nat.
Proof.
  revert k i best; induction pts as [|x t IH]; intros k i best Hb Hk H0 Hbefore; simpl in Hk; [lia|].
  simpl argmin_from. destruct k as [|k].
  - simpl in H0.
    assert (E: Qltb (sqdist q x) (snd best) = true) by (apply Qltb_spec; lra).
    rewrite E. rewrite argmin_keep by (simpl; exact H0). simpl. lia.
  - assert (Hx: 0 < sqdist q x) by (apply (Hbefore 0%nat); lia).
    replace (i + S k)%nat with (S i + k)%nat by lia.
    apply IH.
    + destruct (Qltb (sqdist q x) (snd best)); simpl; assumption.
    + lia.
    + exact H0.
    + intros m Hm. apply (Hbefore (S m)). lia.
Qed.

Theorem nearest_self pts i :
  pairwise_distinct pts -> (i < length pts)%nat -> nearest (nth i pts (0, 0)) pts = Some i.
Proof.
  intros Hd Hi. destruct pts as [|x t]; [simpl in Hi; lia|]. unfold nearest.
  set (q := nth i (x :: t) (0, 0)).
  assert (Hself: sqdist q q == 0) by (apply sqdist_zero_iff; split; reflexivity).
  destruct i as [|i].
  - unfold q. simpl nth. rewrite argmin_keep; [reflexivity|]. simpl. apply sqdist_zero_iff; split; reflexivity.
  - f_equal. change (S i) with (1 + i)%nat. apply argmin_finds.
    + simpl. apply sqdist_pos. intros E.
      apply (Hd (S i) 0%nat); [exact Hi|simpl; lia|lia|exact E].
    + simpl in Hi. lia.
    + unfold q. simpl nth. apply sqdist_zero_iff; split; reflexivity.
    + intros m Hm. apply sqdist_pos. intros E.
      apply (Hd (S i) (S m)); [exact Hi|simpl in *; lia|lia|exact E].
Qed.

(** KNeighbors(k=1) fitted to pairwise-distinct points predicts, at data
    point i, exactly datum i *)
Theorem knn1_exact pts data i :
  pairwise_distinct pts -> (i < length pts)%nat ->
  knn1_predict pts data (nth i pts (0, 0)) = Some (nth i data 0).
Proof. intros Hd Hi. unfold knn1_predict. rewrite nearest_self by assumption. reflexivity. Qed.

(** ** Chain *)
Lemma vadd_zeros_r a : veq (vadd a (zeros (length a))) a.
Proof. induction a; simpl; constructor; [ring|assumption]. Qed.

Lemma length_chain_run steps r : Forall shape_preserving steps -> length (chain_run steps r) = length r.
Proof.
  intros H; revert r; induction H as [|f t Hf H IH]; intros r; simpl; [apply length_zeros|].
  rewrite length_vadd; [apply Hf|]. rewrite IH, length_vsub; rewrite Hf; reflexivity.
Qed.

(** a chain whose LAST step is exact reproduces the data at the data points,
    whatever the earlier steps (trends, block reductions, ...) predict *)
Theorem chain_exact steps last r :
  Forall shape_preserving steps -> shape_preserving last -> exact_step last ->
  veq (chain_run (steps ++ [last]) r) r.
Proof.
  intros Hs Hl He. revert r. induction Hs as [|f t Hf Hs IH]; intros r; simpl.
  - rewrite (He r) at 1.
    assert (E: length (vsub r (last r)) = length r) by (rewrite length_vsub; rewrite ?Hl; reflexivity).
    rewrite E. apply vadd_zeros_r.
  - rewrite IH. apply vadd_vsub_cancel. symmetry. apply Hf.
Qed.

(** an exact step anywhere leaves a zero residual to the later steps; if those
    predict zero for zero data (linear estimators do) the chain is still exact *)
Theorem chain_exact_single f r : exact_step f -> veq (chain_run [f] r) r.
Proof. intros He. apply (chain_exact [] f r); [constructor|intros x; apply veq_length, He|exact He]. Qed.

(** ** Vector: exact component-wise *)
Theorem vector_exact comps data :
  Forall exact_step comps -> length comps = length data ->
  Forall2 veq (vector_run comps data) data.
Proof.
  intros H; revert data; induction H as [|f t Hf H IH]; intros [|d data] Hl; simpl in *; try discriminate; constructor.
  - apply Hf.
  - apply IH. congruence.
Qed.
