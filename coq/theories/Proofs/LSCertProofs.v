(** Column-scale facts (StandardScaler) and soundness of the run-time
    certificate: [ls_cert] evaluated on dyadics implies the rational statement
    [approx_normal_eq] about the embedded problem, with the squared scales the
    exact population variances of the Jacobian's columns. *)
From Coq Require Import QArith Qabs ZArith List Bool Lia Lqa Morphisms Setoid.
From Verde Require Import Lib.Dyadic Lib.QExtra Lib.LinAlgQ Lib.LinAlgD Model.LeastSquares Model.LSCases
  Proofs.LeastSquaresProofs.
Import ListNotations.
Open Scope Q_scope.

(** ** population variance *)
Lemma Qlen_cons {T} (x : T) l : Qlen (x :: l) == Qlen l + 1.
Proof.
  unfold Qlen. cbn [length]. rewrite Nat2Z.inj_succ. unfold Z.succ. rewrite inject_Z_plus. reflexivity.
Qed.
Lemma Qlen_nonneg {T} (l : list T) : 0 <= Qlen l.
Proof. unfold Qlen. change 0 with (inject_Z 0). rewrite <- Zle_Qle. lia. Qed.
Lemma Qlen_pos {T} (l : list T) : l <> [] -> 0 < Qlen l.
Proof. destruct l; [congruence|]. intros _. rewrite Qlen_cons. pose proof (Qlen_nonneg l). lra. Qed.

Lemma sum_sq_dev l m :
  Qsum (map (fun x => (x - m) * (x - m)) l) == Qsum (vsq l) - 2 * m * Qsum l + Qlen l * m * m.
Proof.
  unfold vsq. induction l as [|x l IH].
  - unfold Qlen; simpl. ring.
  - cbn [map Qsum]. rewrite IH, Qlen_cons. ring.
Qed.

Lemma pvar_formula l : l <> [] ->
  Qlen l * Qlen l * pvar l == Qlen l * Qsum (vsq l) - Qsum l * Qsum l.
Proof.
  intros H. pose proof (Qlen_pos l H) as HN. unfold pvar. rewrite sum_sq_dev. unfold mean.
  field. lra.
Qed.

Lemma Qsum_sq_nonneg (f : Q -> Q) l : 0 <= Qsum (map (fun x => f x * f x) l).
Proof. induction l as [|x l IH]; cbn [map Qsum]; [lra|]. assert (0 <= f x * f x) by nra. lra. Qed.

Lemma pvar_nonneg l : 0 <= pvar l.
Proof.
  destruct l as [|x l]; [vm_compute; discriminate|].
  unfold pvar. apply Qle_shift_div_l; [apply Qlen_pos; discriminate|]. rewrite Qmult_0_l.
  apply (Qsum_sq_nonneg (fun y => y - mean (x :: l))).
Qed.

(** the squared scale is positive: dividing by the scale is legitimate *)
Lemma scale2_of_pos l : 0 < scale2_of l.
Proof.
  unfold scale2_of. destruct (Qeqb (pvar l) 0) eqn:E; [lra|].
  pose proof (pvar_nonneg l). destruct (Qlt_le_dec 0 (pvar l)) as [P|P]; [exact P|].
  assert (Z: pvar l == 0) by lra. apply Qeqb_spec in Z. congruence.
Qed.

Lemma scale2_pos n A : Forall (fun x => 0 < x) (scale2 n A).
Proof. unfold scale2. apply Forall_forall. intros x Hx. apply in_map_iff in Hx as (j & <- & _). apply scale2_of_pos. Qed.

Lemma scale2_length n A : length (scale2 n A) = n.
Proof. unfold scale2. rewrite map_length, seq_length. reflexivity. Qed.

(** an exactly constant column gets scale 1 (sklearn: zero variance -> 1) *)
Lemma const_sums l c : (forall x, In x l -> x == c) ->
  Qsum l == Qlen l * c /\ Qsum (vsq l) == Qlen l * (c * c).
Proof.
  unfold vsq. induction l as [|x l IH]; intros H.
  - unfold Qlen; simpl; split; ring.
  - destruct IH as [I1 I2]; [intros y Hy; apply H; right; exact Hy|].
    cbn [map Qsum]. rewrite I1, I2, Qlen_cons, (H x (or_introl eq_refl)). split; ring.
Qed.

Theorem scale2_of_constant l c : (forall x, In x l -> x == c) -> scale2_of l == 1.
Proof.
  intros H. unfold scale2_of.
  assert (Z: pvar l == 0).
  { destruct l as [|x l]; [vm_compute; reflexivity|].
    assert (NE: x :: l <> []) by discriminate.
    pose proof (pvar_formula _ NE) as F. destruct (const_sums _ c H) as [S1 S2].
    rewrite S1, S2 in F. pose proof (Qlen_pos _ NE) as HN.
    set (N := Qlen (x :: l)) in *. set (v := pvar (x :: l)) in *. clearbody N v.
    assert (E: N * N * v == 0) by (rewrite F; ring).
    assert (0 < N * N) by nra.
    destruct (Qeq_dec v 0) as [Zv|Zv]; [exact Zv|exfalso].
    destruct (Qlt_le_dec 0 v); nra. }
  apply Qeqb_spec in Z. rewrite Z. reflexivity.
Qed.

Theorem scale2_of_variance l : ~ pvar l == 0 -> scale2_of l == pvar l.
Proof.
  intros H. unfold scale2_of. destruct (Qeqb (pvar l) 0) eqn:E; [|reflexivity].
  apply Qeqb_spec in E. contradiction.
Qed.

(** ** component access *)
Lemma nth_veq j a b : veq a b -> nth j a 0 == nth j b 0.
Proof. intros H; revert j; induction H; intros [|j]; simpl; auto; reflexivity. Qed.
Lemma veq_of_nth a b : length a = length b ->
  (forall j, (j < length a)%nat -> nth j a 0 == nth j b 0) -> veq a b.
Proof.
  revert b; induction a as [|x a IH]; intros [|y b] Hl H; simpl in *; try discriminate; constructor.
  - apply (H 0%nat). lia.
  - apply IH; [congruence|]. intros j Hj. apply (H (S j)). lia.
Qed.
Lemma nth_vadd j a b : length a = length b -> nth j (vadd a b) 0 == nth j a 0 + nth j b 0.
Proof.
  revert j b; induction a as [|x a IH]; intros [|j] [|y b] Hl; simpl in *; try discriminate; try ring.
  apply IH; congruence.
Qed.
Lemma nth_vsub j a b : length a = length b -> nth j (vsub a b) 0 == nth j a 0 - nth j b 0.
Proof.
  revert j b; induction a as [|x a IH]; intros [|j] [|y b] Hl; simpl in *; try discriminate; try ring.
  apply IH; congruence.
Qed.
Lemma nth_vmul j a b : length a = length b -> nth j (vmul a b) 0 == nth j a 0 * nth j b 0.
Proof.
  revert j b; induction a as [|x a IH]; intros [|j] [|y b] Hl; simpl in *; try discriminate; try ring.
  apply IH; congruence.
Qed.
Lemma nth_vscale j c a : nth j (vscale c a) 0 == c * nth j a 0.
Proof. revert j; induction a as [|x a IH]; intros [|j]; simpl; try ring. apply IH. Qed.
Lemma nth_zeros j n : nth j (zeros n) 0 == 0.
Proof. revert j; induction n; intros [|j]; simpl; try reflexivity. apply IHn. Qed.

Lemma col_length j A : length (col j A) = length A.
Proof. apply map_length. Qed.

Lemma nth_tmv n j A v : wfm n A -> nth j (tmv n A v) 0 == dot (col j A) v.
Proof.
  intros HA; revert v; induction HA as [|r A Hr HA IH]; intros [|x v]; cbn [tmv col map dot];
    try apply nth_zeros.
  rewrite nth_vadd by (rewrite length_vscale, length_tmv by assumption; congruence).
  rewrite nth_vscale. unfold col in IH. rewrite IH. ring.
Qed.

Lemma dot_ones l m : length l = m -> dot l (ones m) == Qsum l.
Proof.
  revert m; induction l as [|x l IH]; intros [|m] H; simpl in *; try discriminate; try reflexivity.
  rewrite IH by congruence. ring.
Qed.

Lemma Qsum_veq a b : veq a b -> Qsum a == Qsum b.
Proof. intros H; induction H; simpl; [reflexivity|]. rewrite H, IHForall2. reflexivity. Qed.

Lemma col_squares j A : veq (col j (map (fun r => vmul r r) A)) (vsq (col j A)).
Proof.
  unfold col, vsq. induction A as [|r A IH]; simpl; constructor; [|exact IH].
  apply nth_vmul. reflexivity.
Qed.

Lemma nth_map_seq (f : nat -> Q) n j : (j < n)%nat -> nth j (map f (seq 0 n)) 0 = f j.
Proof.
  intros H. rewrite (nth_indep _ 0 (f 0%nat)) by (rewrite map_length, seq_length; exact H).
  rewrite map_nth, seq_nth by exact H. reflexivity.
Qed.

(** ** N^2 * scale2 without division (rational level) *)
Definition qfix (N v : Q) : Q := if Qeqb v 0 then N * N else v.
Definition qnvar (n : nat) (A : list (list Q)) : list Q :=
  let N := Qlen A in
  let one := ones (length A) in
  map (qfix N) (vsub (vscale N (tmv n (map (fun r => vmul r r) A) one))
                     (vmul (tmv n A one) (tmv n A one))).

Lemma wfm_squares n A : wfm n A -> wfm n (map (fun r => vmul r r) A).
Proof.
  intros H. induction H; simpl; constructor; auto. rewrite length_vmul; auto.
Qed.

Lemma qnvar_scale2 n A : wfm n A -> A <> [] ->
  veq (qnvar n A) (vscale (Qlen A * Qlen A) (scale2 n A)).
Proof.
  intros HA NE. pose proof (wfm_squares n A HA) as HA2.
  set (L := vsub (vscale (Qlen A) (tmv n (map (fun r => vmul r r) A) (ones (length A))))
                 (vmul (tmv n A (ones (length A))) (tmv n A (ones (length A))))).
  assert (HL: length L = n).
  { unfold L. rewrite length_vsub; rewrite length_vscale, length_tmv by assumption; [reflexivity|].
    rewrite length_vmul; rewrite !length_tmv by assumption; reflexivity. }
  apply veq_of_nth.
  - unfold qnvar. fold L. rewrite map_length, length_vscale, scale2_length. exact HL.
  - unfold qnvar. fold L. rewrite map_length, HL. intros j Hj.
    rewrite (nth_indep _ 0 (qfix (Qlen A) 0)) by (rewrite map_length; lia).
    rewrite map_nth. rewrite nth_vscale. unfold scale2. rewrite nth_map_seq by exact Hj.
    set (c := col j A).
    assert (Hc: c <> []).
    { intros E. apply (f_equal (@length Q)) in E. unfold c in E. rewrite col_length in E.
      destruct A; [congruence|discriminate]. }
    assert (Hlc: Qlen c == Qlen A) by (unfold Qlen, c; rewrite col_length; reflexivity).
    assert (Hv: nth j L 0 == Qlen A * Qlen A * pvar c).
    { rewrite <- Hlc. rewrite (pvar_formula c Hc). rewrite Hlc. unfold L.
      rewrite nth_vsub by (rewrite length_vscale, length_vmul; rewrite !length_tmv by assumption; reflexivity).
      rewrite nth_vscale, nth_vmul by reflexivity.
      rewrite !nth_tmv by assumption.
      rewrite !dot_ones by (rewrite col_length, ?map_length; reflexivity).
      rewrite (Qsum_veq _ _ (col_squares j A)). fold c. ring. }
    set (v := nth j L 0) in *. clearbody v.
    pose proof (Qlen_pos A NE) as HN. set (N := Qlen A) in *. clearbody N.
    assert (HNN: 0 < N * N) by nra.
    unfold qfix, scale2_of.
    destruct (Qeqb v 0) eqn:E1; destruct (Qeqb (pvar c) 0) eqn:E2.
    + ring.
    + exfalso. apply Qeqb_spec in E1. rewrite Hv in E1.
      assert (Z: pvar c == 0).
      { destruct (Qeq_dec (pvar c) 0) as [Z|Z]; [exact Z|exfalso]. pose proof (pvar_nonneg c).
        destruct (Qlt_le_dec 0 (pvar c)); nra. }
      apply Qeqb_spec in Z. congruence.
    + exfalso. apply Qeqb_spec in E2. rewrite E2 in Hv.
      assert (Z: v == 0) by (rewrite Hv; ring). apply Qeqb_spec in Z. congruence.
    + exact Hv.
Qed.

(** ** dyadic level -> rational level *)
Lemma D2Q_dlen {T} (l : list T) : D2Q (dlen l) == Qlen l.
Proof. unfold dlen, Qlen. apply D2Q_Z. Qed.

Lemma Dv_map_fix N Nq L Lq : D2Q N == Nq -> veq (Dv L) Lq ->
  veq (Dv (map (fun v => if deq v d0 then dmul N N else v) L)) (map (qfix Nq) Lq).
Proof.
  intros HN. revert Lq. induction L as [|v L IH]; intros Lq H; inversion H; subst; cbn [map Dv]; constructor.
  - unfold qfix. destruct (deq v d0) eqn:E1; destruct (Qeqb y 0) eqn:E2.
    + rewrite D2Q_mul, HN. reflexivity.
    + exfalso. apply deq_spec in E1. rewrite D2Q_d0 in E1. rewrite H2 in E1. apply Qeqb_spec in E1. congruence.
    + exfalso. apply Qeqb_spec in E2. rewrite <- H2 in E2. rewrite <- D2Q_d0 in E2. apply deq_spec in E2. congruence.
    + exact H2.
  - apply IH. exact H4.
Qed.

Lemma DM_squares A : Forall2 veq (DM (map (fun r => dvmul r r) A)) (map (fun r => vmul r r) (DM A)).
Proof. induction A; simpl; constructor; [apply Dv_dvmul|assumption]. Qed.

Lemma Dv_dnvar n A : veq (Dv (dnvar n A)) (qnvar n (DM A)).
Proof.
  unfold dnvar, qnvar. apply Dv_map_fix.
  - rewrite D2Q_dlen. unfold Qlen. rewrite DM_length. reflexivity.
  - rewrite Dv_dvsub, Dv_dvscale, Dv_dvmul, !Dv_dtmv, Dv_dones, D2Q_dlen, DM_length.
    apply vsub_proper; [|reflexivity].
    apply vscale_proper; [unfold Qlen; rewrite DM_length; reflexivity|].
    apply tmv_rows_proper; [apply DM_squares|reflexivity].
Qed.

Lemma DM_wfm n A : forallb (fun r => Nat.eqb (length r) n) A = true -> wfm n (DM A).
Proof.
  intros H. unfold wfm, DM. apply Forall_forall. intros r Hr. apply in_map_iff in Hr as (r0 & <- & Hin).
  rewrite forallb_forall in H. specialize (H r0 Hin). apply Nat.eqb_eq in H. rewrite Dv_length. exact H.
Qed.

Lemma DM_nonempty A : A <> [] -> DM A <> [].
Proof. destruct A; [congruence|discriminate]. Qed.

(** N^2 x the rational residual / bound *)
Lemma Dv_dresidual n A d w p alpha : wfm n (DM A) -> A <> [] ->
  veq (Dv (dresidual n A d w p alpha))
      (vscale (Qlen A * Qlen A)
         (normal_residual n (DM A) (Dv d) (Dv w) (D2Q alpha) (scale2 n (DM A)) (Dv p))).
Proof.
  intros HA NE. unfold dresidual, normal_residual.
  rewrite Dv_dvadd, !Dv_dvscale, Dv_dtmv, !Dv_dvmul, Dv_dvsub, Dv_dmv, Dv_dnvar, D2Q_mul, D2Q_dlen.
  rewrite qnvar_scale2 by (first [assumption | apply DM_nonempty; assumption]).
  rewrite vscale_vadd. unfold Qlen at 3 4. rewrite DM_length. fold (Qlen A).
  apply vadd_proper; [reflexivity|].
  rewrite vmul_vscale_l, !vscale_vscale. apply vscale_proper; [ring|reflexivity].
Qed.

Lemma vabs_rows_mv A B p q : Forall2 veq A B -> veq p q -> veq (mv A p) (mv B q).
Proof. apply mv_rows_proper. Qed.

Lemma Dv_dbound n A d w p alpha : wfm n (DM A) -> A <> [] ->
  veq (Dv (dbound n A d w p alpha))
      (vscale (Qlen A * Qlen A)
         (residual_bound n (DM A) (Dv d) (Dv w) (D2Q alpha) (scale2 n (DM A)) (Dv p))).
Proof.
  intros HA NE. unfold dbound, residual_bound.
  rewrite Dv_dvadd, !Dv_dvscale, Dv_dtmv, !Dv_dvmul, Dv_dvadd, Dv_dmv, !Dv_dvabs, Dv_dnvar, D2Q_mul, D2Q_dlen.
  rewrite qnvar_scale2 by (first [assumption | apply DM_nonempty; assumption]).
  rewrite vscale_vadd. unfold Qlen at 3 4. rewrite DM_length. fold (Qlen A).
  apply vadd_proper.
  - apply vscale_proper; [reflexivity|].
    apply tmv_rows_proper; [apply DM_abs|].
    apply vmul_proper; [reflexivity|]. apply vadd_proper; [|reflexivity].
    apply mv_rows_proper; [apply DM_abs|reflexivity].
  - rewrite vmul_vscale_l, !vscale_vscale. apply vscale_proper; [ring|reflexivity].
Qed.

Lemma all2_Forall2 {T U} (f : T -> U -> bool) l1 l2 :
  all2 f l1 l2 = true -> Forall2 (fun x y => f x y = true) l1 l2.
Proof.
  revert l2; induction l1 as [|x l1 IH]; intros [|y l2] H; simpl in H; try discriminate; constructor.
  - apply andb_true_iff in H as [H _]. exact H.
  - apply andb_true_iff in H as [_ H]. apply IH; exact H.
Qed.

Lemma Forall2_bound_veq tol a b a' b' :
  Forall2 (fun g y => Qabs g <= tol * y) a b -> veq a a' -> veq b b' ->
  Forall2 (fun g y => Qabs g <= tol * y) a' b'.
Proof.
  intros H; revert a' b'; induction H as [|x y a b Hxy H IH]; intros a' b' Ha Hb;
    inversion Ha as [|? ? ? ? Hx Ha']; inversion Hb as [|? ? ? ? Hy Hb']; subst; constructor.
  - rewrite <- Hx, <- Hy. exact Hxy.
  - apply IH; assumption.
Qed.

Lemma Forall2_bound_unscale tol k a b : 0 < k ->
  Forall2 (fun g y => Qabs g <= tol * y) (vscale k a) (vscale k b) ->
  length a = length b ->
  Forall2 (fun g y => Qabs g <= tol * y) a b.
Proof.
  intros Hk. revert b; induction a as [|x a IH]; intros [|y b] H Hl; simpl in *; try discriminate; constructor;
    inversion H; subst.
  - rewrite Qabs_Qmult, (Qabs_pos k) in H3 by lra.
    assert (0 <= Qabs x) by apply Qabs_nonneg. set (ax := Qabs x) in *. clearbody ax. nra.
  - apply IH; [assumption|congruence].
Qed.

Lemma wfm_abs n A : wfm n A -> wfm n (map vabs A).
Proof. intros H; induction H; simpl; constructor; auto. unfold vabs; rewrite map_length; assumption. Qed.
Lemma length_residual_bound n A d w alpha s2 p :
  ls_shapes n A d w s2 p -> length (residual_bound n A d w alpha s2 p) = n.
Proof.
  intros (HA & Hd & Hw & Hs & Hp). unfold residual_bound.
  pose proof (wfm_abs n A HA) as HAa.
  rewrite length_vadd; rewrite length_tmv by assumption; [reflexivity|].
  rewrite length_vscale, length_vmul; unfold vabs; rewrite ?map_length; congruence.
Qed.

(** soundness of the run-time certificate *)
Theorem ls_cert_sound tolexp n A d w p alpha :
  ls_cert tolexp n A d w p alpha = true ->
  ls_shapes n (DM A) (Dv d) (Dv w) (scale2 n (DM A)) (Dv p) /\
  approx_normal_eq (pow2 tolexp) n (DM A) (Dv d) (Dv w) (D2Q alpha) (scale2 n (DM A)) (Dv p).
Proof.
  unfold ls_cert, shapes_ok. intros H.
  apply andb_true_iff in H as [Hs Hc].
  repeat (apply andb_true_iff in Hs as [Hs ?]).
  apply Nat.eqb_eq in H0, H1, H2. apply negb_true_iff, Nat.eqb_neq in H.
  assert (NE: A <> []) by (intros E; subst A; apply H; reflexivity).
  pose proof (DM_wfm n A Hs) as HA.
  assert (Hsh: ls_shapes n (DM A) (Dv d) (Dv w) (scale2 n (DM A)) (Dv p)).
  { repeat split; rewrite ?Dv_length, ?DM_length, ?scale2_length; auto. }
  split; [exact Hsh|].
  unfold approx_normal_eq.
  apply all2_Forall2 in Hc.
  assert (Hq: Forall2 (fun g y => Qabs g <= pow2 tolexp * y)
                (Dv (dresidual n A d w p alpha)) (Dv (dbound n A d w p alpha))).
  { revert Hc. generalize (dresidual n A d w p alpha) (dbound n A d w p alpha).
    intros l1 l2 Hc. induction Hc; cbn [Dv map]; constructor; auto.
    apply dle_spec in H3. rewrite D2Q_abs, D2Q_mul, D2Q_pow2 in H3. exact H3. }
  pose proof (Forall2_bound_veq _ _ _ _ _ Hq (Dv_dresidual n A d w p alpha HA NE) (Dv_dbound n A d w p alpha HA NE)) as Hq2.
  apply (Forall2_bound_unscale (pow2 tolexp) (Qlen A * Qlen A)).
  - pose proof (Qlen_pos A NE). nra.
  - exact Hq2.
  - rewrite length_normal_residual, length_residual_bound by exact Hsh. reflexivity.
Qed.
