(** Proofs for C04 (layout / order / dtype invariance and linearity).
    Part 1: storage order, strided views, broadcasting, index permutations.
    Part 2: least squares - simultaneous row permutation, permutation of the
            parameters (columns), linearity in the data.
    Part 3: nearest neighbours - permutation of the data points, linearity of
            the mean prediction. *)
From Coq Require Import QArith Qabs ZArith List Bool Arith Lia Lqa Permutation Morphisms Setoid.
From Verde Require Import Lib.Dyadic Lib.QExtra Lib.QList Lib.LinAlgQ Lib.ISort
  Model.LeastSquares Model.Invariance Proofs.LeastSquaresProofs Proofs.LSCertProofs.
Import ListNotations.
Open Scope Q_scope.

(** * Part 1: arrays *)
Lemma map_nth_seq {T} (d : T) (l : list T) : map (fun i => nth i l d) (seq 0 (length l)) = l.
Proof.
  induction l as [|x t IH]; [reflexivity|].
  cbn [length seq map nth]. f_equal. rewrite <- seq_shift, map_map. exact IH.
Qed.

Lemma flat_map_ext_in {A B} (f g : A -> list B) l : (forall a, In a l -> f a = g a) -> flat_map f l = flat_map g l.
Proof.
  induction l as [|a t IH]; intros H; [reflexivity|]. cbn. rewrite (H a (or_introl eq_refl)).
  f_equal. apply IH. intros b Hb. apply H. right; exact Hb.
Qed.

(** raveling depends only on the logical elements, not on how they are stored *)
Theorem ravel2_logical a b :
  a_rows a = a_rows b -> a_cols a = a_cols b ->
  (forall i j, (i < a_rows a)%nat -> (j < a_cols a)%nat -> get2 a i j = get2 b i j) ->
  ravel2 a = ravel2 b.
Proof.
  intros Hr Hc H. unfold ravel2. rewrite <- Hr, <- Hc.
  apply flat_map_ext_in. intros i Hi. apply in_seq in Hi.
  apply map_ext_in. intros j Hj. apply in_seq in Hj. apply H; lia.
Qed.

(** a C-contiguous array ravels to its buffer *)
Lemma nth_firstn_lt {T} (d : T) c : forall (l : list T) j, (j < c)%nat -> nth j (firstn c l) d = nth j l d.
Proof.
  induction c as [|c IH]; intros l j H; [lia|].
  destruct l as [|a t]; [reflexivity|]. destruct j as [|j]; [reflexivity|]. cbn. apply IH. lia.
Qed.
Lemma nth_skipn_add {T} (d : T) c : forall (l : list T) j, nth j (skipn c l) d = nth (c + j) l d.
Proof.
  induction c as [|c IH]; intros l j; [reflexivity|].
  destruct l as [|a t]; [cbn; destruct j; reflexivity|]. cbn. apply IH.
Qed.
Lemma first_row c (l : list Q) : (c <= length l)%nat -> map (fun j => nth j l 0) (seq 0 c) = firstn c l.
Proof.
  intros H. rewrite <- (map_nth_seq 0 (firstn c l)). rewrite firstn_length, Nat.min_l by exact H.
  apply map_ext_in. intros j Hj. apply in_seq in Hj. symmetry. apply nth_firstn_lt. lia.
Qed.
Theorem ravel2_c_array r c l : length l = (r * c)%nat -> ravel2 (c_array r c l) = l.
Proof.
  unfold ravel2, c_array, get2. cbn [a_rows a_cols a_order a_buf].
  revert l. induction r as [|r IH]; intros l Hl.
  - destruct l; [reflexivity|discriminate].
  - cbn [seq flat_map]. rewrite <- seq_shift, flat_map_concat_map, map_map, <- flat_map_concat_map.
    transitivity (firstn c l ++ skipn c l); [|apply firstn_skipn]. f_equal.
    + cbn [Nat.mul Nat.add]. apply first_row. nia.
    + rewrite <- (IH (skipn c l)) by (rewrite skipn_length; nia).
      apply flat_map_ext_in. intros i _. apply map_ext. intros j.
      rewrite nth_skipn_add. f_equal. lia.
Qed.

(** the Fortran-ordered copy has the same logical elements ... *)
Lemma get2_as_fortran a i j : (i < a_rows a)%nat -> (j < a_cols a)%nat -> get2 (as_fortran a) i j = get2 a i j.
Proof.
  intros Hi Hj. unfold get2 at 1, as_fortran. cbn [a_rows a_cols a_order a_buf].
  rewrite (nth_flat_map_rows _ (a_rows a) _ 0%nat 0).
  - rewrite seq_nth by exact Hj. cbn [Nat.add].
    rewrite (nth_indep _ 0 (get2 a 0%nat j)) by (rewrite map_length, seq_length; exact Hi).
    rewrite (map_nth (fun i0 => get2 a i0 j)), seq_nth by exact Hi. reflexivity.
  - intros x. rewrite map_length, seq_length. reflexivity.
  - rewrite seq_length. exact Hj.
  - exact Hi.
Qed.

(** ... hence the same C-order ravel: element order is storage independent *)
Theorem ravel2_as_fortran a : ravel2 (as_fortran a) = ravel2 a.
Proof.
  apply ravel2_logical; [reflexivity|reflexivity|].
  intros i j Hi Hj. apply get2_as_fortran; assumption.
Qed.

(** its BUFFER (what ravel(order="K") returns) is the transposed sequence *)
Theorem as_fortran_buffer a : a_buf (as_fortran a) = ravel_F a.
Proof. reflexivity. Qed.

(** a strided view [b[::2]] of an interleaved buffer ravels to the original *)
Lemma interleave_nth l junk i : length junk = length l -> nth (i * 2) (interleave l junk) 0 = nth i l 0.
Proof.
  revert junk i. induction l as [|x t IH]; intros [|y j] i H; try discriminate.
  - destruct i; reflexivity.
  - destruct i as [|i]; [reflexivity|]. cbn [Nat.mul Nat.add interleave nth]. apply IH. cbn in H; lia.
Qed.
Theorem ravel1_strided l junk : length junk = length l ->
  ravel1 {| v_off := 0; v_step := 2; v_len := length l; v_buf := interleave l junk |} = l.
Proof.
  intros H. unfold ravel1. cbn [v_off v_step v_len v_buf Nat.add].
  transitivity (map (fun i => nth i l 0) (seq 0 (length l))); [|apply map_nth_seq].
  apply map_ext. intros i. apply interleave_nth, H.
Qed.

(** ** broadcasting *)
Lemma bc_rev_refl s : bc_rev s s = Some s.
Proof. induction s as [|x t IH]; [reflexivity|]. cbn. rewrite IH, Nat.eqb_refl. reflexivity. Qed.

Theorem broadcast_same s : broadcast_shape s s = Some s.
Proof. unfold broadcast_shape. rewrite bc_rev_refl. cbn. rewrite rev_involutive. reflexivity. Qed.

Theorem broadcast_scalar_l s : broadcast_shape [] s = Some s.
Proof. unfold broadcast_shape. cbn. rewrite rev_involutive. reflexivity. Qed.
Theorem broadcast_scalar_r s : broadcast_shape s [] = Some s.
Proof.
  unfold broadcast_shape. cbn [rev].
  assert (E: bc_rev (rev s) [] = Some (rev s)) by (destruct (rev s); reflexivity).
  rewrite E. cbn. rewrite rev_involutive. reflexivity.
Qed.

(** a column of northings against a row / 1-D array of eastings gives the grid shape *)
Theorem broadcast_column_row m n : broadcast_shape [m; 1%nat] [1%nat; n] = Some [m; n].
Proof.
  unfold broadcast_shape. cbn.
  assert (E: (if (m =? 1)%nat then Some [m] else if (m =? 1)%nat then Some [1%nat] else Some [m]) = Some [m])
    by (destruct (m =? 1)%nat; reflexivity).
  rewrite E. destruct n as [|[|n]]; reflexivity.
Qed.
Theorem broadcast_column_1d m n : broadcast_shape [m; 1%nat] [n] = Some [m; n].
Proof. unfold broadcast_shape. cbn. destruct n as [|[|n]]; reflexivity. Qed.
Theorem broadcast_1d_column m n : broadcast_shape [n] [m; 1%nat] = Some [m; n].
Proof. unfold broadcast_shape. cbn. destruct n as [|[|n]]; reflexivity. Qed.

Lemma bc_rev_comm a : forall b, bc_rev a b = bc_rev b a.
Proof.
  induction a as [|x a IH]; intros [|y b]; try reflexivity. cbn. rewrite (IH b).
  destruct (bc_rev b a); [|reflexivity].
  destruct (Nat.eqb_spec x y) as [->|Hxy]; [rewrite Nat.eqb_refl; reflexivity|].
  destruct (Nat.eqb_spec y x) as [E|_]; [congruence|].
  destruct (Nat.eqb_spec x 1) as [->|Hx]; destruct (Nat.eqb_spec y 1) as [->|Hy]; try reflexivity; try congruence.
Qed.
Theorem broadcast_comm a b : broadcast_shape a b = broadcast_shape b a.
Proof. unfold broadcast_shape. rewrite bc_rev_comm. reflexivity. Qed.

(** incompatible trailing dimensions do not broadcast *)
Theorem broadcast_mismatch a b x y : x <> y -> x <> 1%nat -> y <> 1%nat ->
  broadcast_shape (a ++ [x]) (b ++ [y]) = None.
Proof.
  intros Hxy Hx Hy. unfold broadcast_shape. rewrite !rev_app_distr. cbn.
  destruct (bc_rev (rev a) (rev b)); [|reflexivity].
  destruct (Nat.eqb_spec x y); [contradiction|]. destruct (Nat.eqb_spec x 1); [contradiction|].
  destruct (Nat.eqb_spec y 1); [contradiction|]. reflexivity.
Qed.

(** ** the model reads sequences only *)
Theorem ravel_only g f f' q q' : same_sequences f f' -> same_query q q' -> grid_apply g f q = grid_apply g f' q'.
Proof.
  intros (E1 & E2 & E3 & E4) (Q1 & Q2 & Q3). unfold grid_apply.
  rewrite E1, E2, E3, E4, Q1, Q2, Q3. reflexivity.
Qed.

(** extra coordinates are never read *)
Theorem extra_coords_ignored g f q ex ex' :
  grid_apply g {| f_east := f_east f; f_north := f_north f; f_extra := ex; f_data := f_data f; f_weights := f_weights f |}
             {| q_east := q_east q; q_north := q_north q; q_extra := ex' |} = grid_apply g f q.
Proof. reflexivity. Qed.

(** ** index permutations *)
Lemma permute_length {T} (d : T) s l : length (permute d s l) = length s.
Proof. apply map_length. Qed.

Lemma nth_permute {T} (d : T) s l j : (j < length s)%nat -> nth j (permute d s l) d = nth (nth j s 0%nat) l d.
Proof.
  intros H. unfold permute.
  rewrite (nth_indep _ d (nth 0%nat l d)) by (rewrite map_length; exact H).
  rewrite (map_nth (fun i => nth i l d)). reflexivity.
Qed.

(** [l[s]] is a rearrangement of [l] *)
Theorem permute_Permutation {T} (d : T) s l : is_perm (length l) s -> Permutation (permute d s l) l.
Proof.
  intros H. unfold permute. transitivity (map (fun i => nth i l d) (seq 0 (length l))); [|rewrite map_nth_seq; reflexivity]. apply Permutation_map. exact H.
Qed.

Lemma is_perm_length n s : is_perm n s -> length s = n.
Proof. intros H. rewrite (Permutation_length H). apply seq_length. Qed.
Lemma is_perm_lt n s i : is_perm n s -> In i s -> (i < n)%nat.
Proof. intros H Hi. apply (Permutation_in _ H) in Hi. apply in_seq in Hi. lia. Qed.
Lemma is_perm_has n s i : is_perm n s -> (i < n)%nat -> In i s.
Proof. intros H Hi. apply (Permutation_in _ (Permutation_sym H)). apply in_seq. lia. Qed.
Lemma is_perm_nodup n s : is_perm n s -> NoDup s.
Proof. intros H. apply (Permutation_NoDup (Permutation_sym H)). apply seq_NoDup. Qed.
Lemma is_perm_nth_lt n s j : is_perm n s -> (j < n)%nat -> (nth j s 0 < n)%nat.
Proof. intros H Hj. apply (is_perm_lt n s _ H). apply nth_In. rewrite (is_perm_length _ _ H). exact Hj. Qed.
Lemma is_perm_surj n s i : is_perm n s -> (i < n)%nat -> exists j, (j < n)%nat /\ nth j s 0%nat = i.
Proof.
  intros H Hi. destruct (In_nth s i 0%nat (is_perm_has _ _ _ H Hi)) as [j [Hj E]].
  exists j. rewrite (is_perm_length _ _ H) in Hj. split; assumption.
Qed.
Lemma is_perm_inj n s a b : is_perm n s -> (a < n)%nat -> (b < n)%nat -> nth a s 0%nat = nth b s 0%nat -> a = b.
Proof.
  intros H Ha Hb E. pose proof (proj1 (NoDup_nth s 0%nat) (is_perm_nodup _ _ H)) as N.
  apply N; rewrite ?(is_perm_length _ _ H); assumption.
Qed.
