(** Proofs for C04 (layout / order / dtype invariance and linearity).
    Part 1: storage order, strided views, broadcasting, index permutations.
    Part 2: least squares - simultaneous row permutation, permutation of the
            parameters (columns), linearity in the data.
    Part 3: nearest neighbours - permutation of the data points, linearity of
            the mean prediction. *)
From Coq Require Import QArith Qabs ZArith List Bool Arith Lia Lqa Permutation Morphisms Setoid.
From Verde Require Import Lib.Dyadic Lib.QExtra Lib.QList Lib.LinAlgQ Lib.ISort
  Model.LeastSquares Model.Invariance Proofs.LeastSquaresProofs Proofs.LSCertProofs.
Import ListNotations.
Open Scope Q_scope.

(** * Part 1: arrays *)
Lemma map_nth_seq {T} (d : T) (l : list T) : map (fun i => nth i l d) (seq 0 (length l)) = l.
Proof.
  induction l as [|x t IH]; [reflexivity|].
  cbn [length seq map nth]. f_equal. rewrite <- seq_shift, map_map. exact IH.
Qed.

Lemma flat_map_ext_in {A B} (f g : A -> list B) l : (forall a, In a l -> f a = g a) -> flat_map f l = flat_map g l.
Proof.
  induction l as [|a t IH]; intros H; [reflexivity|]. cbn. rewrite (H a (or_introl eq_refl)).
  f_equal. apply IH. intros b Hb. apply H. right; exact Hb.
Qed.

(** raveling depends only on the logical elements, not on how they are stored *)
Theorem ravel2_logical a b :
  a_rows a = a_rows b -> a_cols a = a_cols b ->
  (forall i j, (i < a_rows a)%nat -> (j < a_cols a)%nat -> get2 a i j = get2 b i j) ->
  ravel2 a = ravel2 b.
Proof.
  intros Hr Hc H. unfold ravel2. rewrite <- Hr, <- Hc.
  apply flat_map_ext_in. intros i Hi. apply in_seq in Hi.
  apply map_ext_in. intros j Hj. apply in_seq in Hj. apply H; lia.
Qed.

(** a C-contiguous array ravels to its buffer *)
Lemma nth_firstn_lt {T} (d : T) c : forall (l : list T) j, (j < c)%nat -> nth j (firstn c l) d = nth j l d.
Proof.
  induction c as [|c IH]; intros l j H; [lia|].
  destruct l as [|a t]; [reflexivity|]. destruct j as [|j]; [reflexivity|]. cbn. apply IH. lia.
Qed.
Lemma nth_skipn_add {T} (d : T) c : forall (l : list T) j, nth j (skipn c l) d = nth (c + j) l d.
Proof.
  induction c as [|c IH]; intros l j; [reflexivity|].
  destruct l as [|a t]; [cbn; destruct j; reflexivity|]. cbn. apply IH.
Qed.
Lemma first_row c (l : list Q) : (c <= length l)%nat -> map (fun j => nth j l 0) (seq 0 c) = firstn c l.
Proof.
  intros H. rewrite <- (map_nth_seq 0 (firstn c l)). rewrite firstn_length, Nat.min_l by exact H.
  apply map_ext_in. intros j Hj. apply in_seq in Hj. symmetry. apply nth_firstn_lt. lia.
Qed.
Theorem ravel2_c_array r c l : length l = (r * c)%nat -> ravel2 (c_array r c l) = l.
Proof.
  unfold ravel2, c_array, get2. cbn [a_rows a_cols a_order a_buf].
  revert l. induction r as [|r IH]; intros l Hl.
  - destruct l; [reflexivity|discriminate].
  - cbn [seq flat_map]. rewrite <- seq_shift, flat_map_concat_map, map_map, <- flat_map_concat_map.
    transitivity (firstn c l ++ skipn c l); [|apply firstn_skipn]. f_equal.
    + cbn [Nat.mul Nat.add]. apply first_row. nia.
    + rewrite <- (IH (skipn c l)) by (rewrite skipn_length; nia).
      apply flat_map_ext_in. intros i _. apply map_ext. intros j.
      rewrite nth_skipn_add. f_equal. lia.
Qed.

(** the Fortran-ordered copy has the same logical elements ... *)
Lemma get2_as_fortran a i j : (i < a_rows a)%nat -> (j < a_cols a)%nat -> get2 (as_fortran a) i j = get2 a i j.
Proof.
  intros Hi Hj. unfold get2 at 1, as_fortran. cbn [a_rows a_cols a_order a_buf].
  rewrite (nth_flat_map_rows _ (a_rows a) _ 0%nat 0).
  - rewrite seq_nth by exact Hj. cbn [Nat.add].
    rewrite (nth_indep _ 0 (get2 a 0%nat j)) by (rewrite map_length, seq_length; exact Hi).
    rewrite (map_nth (fun i0 => get2 a i0 j)), seq_nth by exact Hi. reflexivity.
  - intros x. rewrite map_length, seq_length. reflexivity.
  - rewrite seq_length. exact Hj.
  - exact Hi.
Qed.

(** ... hence the same C-order ravel: element order is storage independent *)
Theorem ravel2_as_fortran a : ravel2 (as_fortran a) = ravel2 a.
Proof.
  apply ravel2_logical; [reflexivity|reflexivity|].
  intros i j Hi Hj. apply get2_as_fortran; assumption.
Qed.

(** its BUFFER (what ravel(order="K") returns) is the transposed sequence *)
Theorem as_fortran_buffer a : a_buf (as_fortran a) = ravel_F a.
Proof. reflexivity. Qed.

(** a strided view [b[::2]] of an interleaved buffer ravels to the original *)
Lemma interleave_nth l junk i : length junk = length l -> nth (i * 2) (interleave l junk) 0 = nth i l 0.
Proof.
  revert junk i. induction l as [|x t IH]; intros [|y j] i H; try discriminate.
  - destruct i; reflexivity.
  - destruct i as [|i]; [reflexivity|]. cbn [Nat.mul Nat.add interleave nth]. apply IH. cbn in H; lia.
Qed.
Theorem ravel1_strided l junk : length junk = length l ->
  ravel1 {| v_off := 0; v_step := 2; v_len := length l; v_buf := interleave l junk |} = l.
Proof.
  intros H. unfold ravel1. cbn [v_off v_step v_len v_buf Nat.add].
  transitivity (map (fun i => nth i l 0) (seq 0 (length l))); [|apply map_nth_seq].
  apply map_ext. intros i. apply interleave_nth, H.
Qed.

(** ** broadcasting *)
Lemma bc_rev_refl s : bc_rev s s = Some s.
Proof. induction s as [|x t IH]; [reflexivity|]. cbn. rewrite IH, Nat.eqb_refl. reflexivity. Qed.

Theorem broadcast_same s : broadcast_shape s s = Some s.
Proof. unfold broadcast_shape. rewrite bc_rev_refl. cbn. rewrite rev_involutive. reflexivity. Qed.

Theorem broadcast_scalar_l s : broadcast_shape [] s = Some s.
Proof. unfold broadcast_shape. cbn. rewrite rev_involutive. reflexivity. Qed.
Theorem broadcast_scalar_r s : broadcast_shape s [] = Some s.
Proof.
  unfold broadcast_shape. cbn [rev].
  assert (E: bc_rev (rev s) [] = Some (rev s)) by (destruct (rev s); reflexivity).
  rewrite E. cbn. rewrite rev_involutive. reflexivity.
Qed.

(** a column of northings against a row / 1-D array of eastings gives the grid shape *)
Theorem broadcast_column_row m n : broadcast_shape [m; 1%nat] [1%nat; n] = Some [m; n].
Proof.
  unfold broadcast_shape. cbn.
  assert (E: (if (m =? 1)%nat then Some [m] else if (m =? 1)%nat then Some [1%nat] else Some [m]) = Some [m])
    by (destruct (m =? 1)%nat; reflexivity).
  rewrite E. destruct n as [|[|n]]; reflexivity.
Qed.
Theorem broadcast_column_1d m n : broadcast_shape [m; 1%nat] [n] = Some [m; n].
Proof. unfold broadcast_shape. cbn. destruct n as [|[|n]]; reflexivity. Qed.
Theorem broadcast_1d_column m n : broadcast_shape [n] [m; 1%nat] = Some [m; n].
Proof. unfold broadcast_shape. cbn. destruct n as [|[|n]]; reflexivity. Qed.

Lemma bc_rev_comm a : forall b, bc_rev a b = bc_rev b a.
Proof.
  induction a as [|x a IH]; intros [|y b]; try reflexivity. cbn. rewrite (IH b).
  destruct (bc_rev b a); [|reflexivity].
  destruct (Nat.eqb_spec x y) as [->|Hxy]; [rewrite Nat.eqb_refl; reflexivity|].
  destruct (Nat.eqb_spec y x) as [E|_]; [congruence|].
  destruct (Nat.eqb_spec x 1) as [->|Hx]; destruct (Nat.eqb_spec y 1) as [->|Hy]; try reflexivity; try congruence.
Qed.
Theorem broadcast_comm a b : broadcast_shape a b = broadcast_shape b a.
Proof. unfold broadcast_shape. rewrite bc_rev_comm. reflexivity. Qed.

(** incompatible trailing dimensions do not broadcast *)
Theorem broadcast_mismatch a b x y : x <> y -> x <> 1%nat -> y <> 1%nat ->
  broadcast_shape (a ++ [x]) (b ++ [y]) = None.
Proof.
  intros Hxy Hx Hy. unfold broadcast_shape. rewrite !rev_app_distr. cbn.
  destruct (bc_rev (rev a) (rev b)); [|reflexivity].
  destruct (Nat.eqb_spec x y); [contradiction|]. destruct (Nat.eqb_spec x 1); [contradiction|].
  destruct (Nat.eqb_spec y 1); [contradiction|]. reflexivity.
Qed.

(** ** the model reads sequences only *)
Theorem ravel_only g f f' q q' : same_sequences f f' -> same_query q q' -> grid_apply g f q = grid_apply g f' q'.
Proof.
  intros (E1 & E2 & E3 & E4) (Q1 & Q2 & Q3). unfold grid_apply.
  rewrite E1, E2, E3, E4, Q1, Q2, Q3. reflexivity.
Qed.

(** extra coordinates are never read *)
Theorem extra_coords_ignored g f q ex ex' :
  grid_apply g {| f_east := f_east f; f_north := f_north f; f_extra := ex; f_data := f_data f; f_weights := f_weights f |}
             {| q_east := q_east q; q_north := q_north q; q_extra := ex' |} = grid_apply g f q.
Proof. reflexivity. Qed.

(** ** index permutations *)
Lemma permute_length {T} (d : T) s l : length (permute d s l) = length s.
Proof. apply map_length. Qed.

Lemma nth_permute {T} (d : T) s l j : (j < length s)%nat -> nth j (permute d s l) d = nth (nth j s 0%nat) l d.
Proof.
  intros H. unfold permute.
  rewrite (nth_indep _ d (nth 0%nat l d)) by (rewrite map_length; exact H).
  rewrite (map_nth (fun i => nth i l d)). reflexivity.
Qed.

(** [l[s]] is a rearrangement of [l] *)
Theorem permute_Permutation {T} (d : T) s l : is_perm (length l) s -> Permutation (permute d s l) l.
Proof.
  intros H. unfold permute. transitivity (map (fun i => nth i l d) (seq 0 (length l))); [|rewrite map_nth_seq; reflexivity]. apply Permutation_map. exact H.
Qed.

Lemma is_perm_length n s : is_perm n s -> length s = n.
Proof. intros H. rewrite (Permutation_length H). apply seq_length. Qed.
Lemma is_perm_lt n s i : is_perm n s -> In i s -> (i < n)%nat.
Proof. intros H Hi. apply (Permutation_in _ H) in Hi. apply in_seq in Hi. lia. Qed.
Lemma is_perm_has n s i : is_perm n s -> (i < n)%nat -> In i s.
Proof. intros H Hi. apply (Permutation_in _ (Permutation_sym H)). apply in_seq. lia. Qed.
Lemma is_perm_nodup n s : is_perm n s -> NoDup s.
Proof. intros H. apply (Permutation_NoDup (Permutation_sym H)). apply seq_NoDup. Qed.
Lemma is_perm_nth_lt n s j : is_perm n s -> (j < n)%nat -> (nth j s 0 < n)%nat.
Proof. intros H Hj. apply (is_perm_lt n s _ H). apply nth_In. rewrite (is_perm_length _ _ H). exact Hj. Qed.
Lemma is_perm_surj n s i : is_perm n s -> (i < n)%nat -> exists j, (j < n)%nat /\ nth j s 0%nat = i.
Proof.
  intros H Hi. destruct (In_nth s i 0%nat (is_perm_has _ _ _ H Hi)) as [j [Hj E]].
  exists j. rewrite (is_perm_length _ _ H) in Hj. split; assumption.
Qed.
Lemma is_perm_inj n s a b : is_perm n s -> (a < n)%nat -> (b < n)%nat -> nth a s 0%nat = nth b s 0%nat -> a = b.
Proof.
  intros H Ha Hb E. pose proof (proj1 (NoDup_nth s 0%nat) (is_perm_nodup _ _ H)) as N.
  apply N; rewrite ?(is_perm_length _ _ H); assumption.
Qed.

(** * Part 2: least squares *)
Lemma dot_Qsum a b : dot a b == Qsum (map (fun p => fst p * snd p) (combine a b)).
Proof.
  revert b. induction a as [|x a IH]; intros [|y b]; cbn; try reflexivity. rewrite IH. reflexivity.
Qed.

(** a dot product does not depend on the order of its (paired) terms *)
Lemma dot_perm a b a' b' : Permutation (combine a b) (combine a' b') -> dot a b == dot a' b'.
Proof. intros H. rewrite !dot_Qsum. apply QList.Qsum_perm. apply Permutation_map. exact H. Qed.

Lemma combine_map_same {A B C} (f : A -> B) (g : A -> C) l :
  combine (map f l) (map g l) = map (fun x => (f x, g x)) l.
Proof. induction l as [|x t IH]; [reflexivity|]. cbn. rewrite IH. reflexivity. Qed.

Lemma bundle_rA A d w : length d = length A -> length w = length A -> rA (bundle A d w) = A.
Proof.
  revert d w. induction A as [|r A IH]; intros [|x d] [|y w] Hd Hw; try discriminate; [reflexivity|].
  cbn. f_equal. apply IH; cbn in *; lia.
Qed.
Lemma bundle_rD A d w : length d = length A -> length w = length A -> rD (bundle A d w) = d.
Proof.
  revert d w. induction A as [|r A IH]; intros [|x d] [|y w] Hd Hw; try discriminate; [reflexivity|].
  cbn. f_equal. apply IH; cbn in *; lia.
Qed.
Lemma bundle_rW A d w : length d = length A -> length w = length A -> rW (bundle A d w) = w.
Proof.
  revert d w. induction A as [|r A IH]; intros [|x d] [|y w] Hd Hw; try discriminate; [reflexivity|].
  cbn. f_equal. apply IH; cbn in *; lia.
Qed.

(** the weighted misfit vector  W (A p - d) *)
Definition uvec (A : list (list Q)) (d w p : list Q) : list Q := vmul w (vsub (mv A p) d).

Lemma uvec_bundle B p :
  uvec (rA B) (rD B) (rW B) p = map (fun b => snd (snd b) * (dot (fst b) p - fst (snd b))) B.
Proof. induction B as [|b B IH]; [reflexivity|]. cbn. unfold uvec, rA, rD, rW, mv in IH. rewrite IH. reflexivity. Qed.

Lemma wfm_perm n A A' : Permutation A A' -> wfm n A -> wfm n A'.
Proof. intros P H. unfold wfm in *. eapply Permutation_Forall; eassumption. Qed.

Lemma rA_perm B B' : Permutation B B' -> Permutation (rA B) (rA B').
Proof. apply Permutation_map. Qed.

(** A^T W (A p - d) is a sum over the rows: any simultaneous reordering of
    (Jacobian rows, data, weights) leaves it unchanged *)
Lemma tmv_perm n B B' p : Permutation B B' -> wfm n (rA B) ->
  veq (tmv n (rA B) (uvec (rA B) (rD B) (rW B) p)) (tmv n (rA B') (uvec (rA B') (rD B') (rW B') p)).
Proof.
  intros P HA. assert (HA': wfm n (rA B')) by (eapply wfm_perm; [apply rA_perm|]; eassumption).
  apply veq_of_nth; [rewrite !length_tmv by assumption; reflexivity|].
  intros j _. rewrite !nth_tmv by assumption. apply dot_perm.
  rewrite !uvec_bundle. unfold col, rA. rewrite !map_map, !combine_map_same.
  apply Permutation_map. exact P.
Qed.

Theorem normal_residual_perm n B B' alpha s2 p : Permutation B B' -> wfm n (rA B) ->
  veq (normal_residual n (rA B) (rD B) (rW B) alpha s2 p) (normal_residual n (rA B') (rD B') (rW B') alpha s2 p).
Proof.
  intros P HA. unfold normal_residual. apply vadd_proper; [|reflexivity].
  apply (tmv_perm n B B' p P HA).
Qed.

(** column scales (population variance of each Jacobian column) *)
Lemma mean_perm l l' : Permutation l l' -> LeastSquares.mean l == LeastSquares.mean l'.
Proof.
  intros P. unfold LeastSquares.mean, LeastSquares.Qlen. rewrite (QList.Qsum_perm _ _ P), (Permutation_length P). reflexivity.
Qed.
Lemma Qsum_sqdev_m m m' l : m == m' ->
  Qsum (map (fun x => (x - m) * (x - m)) l) == Qsum (map (fun x => (x - m') * (x - m')) l).
Proof. intros E. induction l as [|x t IH]; cbn; [reflexivity|]. rewrite IH, E. reflexivity. Qed.
Lemma pvar_perm l l' : Permutation l l' -> pvar l == pvar l'.
Proof.
  intros P. unfold pvar, LeastSquares.Qlen. rewrite (Qsum_sqdev_m _ _ l (mean_perm _ _ P)).
  rewrite (QList.Qsum_perm _ _ (Permutation_map (fun x => (x - LeastSquares.mean l') * (x - LeastSquares.mean l')) P)).
  rewrite (Permutation_length P). reflexivity.
Qed.
Lemma scale2_of_eq a b : a == b -> (if Qeqb a 0 then 1 else a) == (if Qeqb b 0 then 1 else b).
Proof.
  intros E. destruct (Qeqb a 0) eqn:Ea, (Qeqb b 0) eqn:Eb; try reflexivity; try exact E; exfalso.
  - apply Qeqb_spec in Ea. assert (Qeqb b 0 = true) by (apply Qeqb_spec; rewrite <- E; exact Ea). congruence.
  - apply Qeqb_spec in Eb. assert (Qeqb a 0 = true) by (apply Qeqb_spec; rewrite E; exact Eb). congruence.
Qed.
Lemma scale2_of_perm l l' : Permutation l l' -> scale2_of l == scale2_of l'.
Proof. intros P. unfold scale2_of. apply scale2_of_eq, pvar_perm, P. Qed.
Lemma Forall2_map_same {A} (R : Q -> Q -> Prop) (f g : A -> Q) l :
  (forall x, In x l -> R (f x) (g x)) -> Forall2 R (map f l) (map g l).
Proof.
  induction l as [|x t IH]; intros H; cbn; constructor.
  - apply H. left; reflexivity.
  - apply IH. intros y Hy. apply H. right; exact Hy.
Qed.
Theorem scale2_perm n A A' : Permutation A A' -> veq (scale2 n A) (scale2 n A').
Proof.
  intros P. unfold scale2. apply Forall2_map_same. intros j _.
  apply scale2_of_perm. unfold col. apply Permutation_map. exact P.
Qed.

Lemma normal_residual_s2_proper n A d w alpha s2 s2' p : veq s2 s2' ->
  veq (normal_residual n A d w alpha s2 p) (normal_residual n A d w alpha s2' p).
Proof.
  intros E. unfold normal_residual. apply vadd_proper; [reflexivity|].
  apply vscale_proper; [reflexivity|]. apply vmul_proper; [exact E|reflexivity].
Qed.

(** reordering the data points (rows of the system, with their data and
    weights) does not change the set of solutions, column scales included *)
Theorem normal_eq_perm n B B' alpha p : Permutation B B' -> wfm n (rA B) ->
  (normal_eq n (rA B) (rD B) (rW B) alpha (scale2 n (rA B)) p <->
   normal_eq n (rA B') (rD B') (rW B') alpha (scale2 n (rA B')) p).
Proof.
  intros P HA. unfold normal_eq.
  assert (E: veq (normal_residual n (rA B) (rD B) (rW B) alpha (scale2 n (rA B)) p)
                 (normal_residual n (rA B') (rD B') (rW B') alpha (scale2 n (rA B')) p)).
  { rewrite (normal_residual_perm n B B' alpha _ p P HA).
    apply normal_residual_s2_proper. apply scale2_perm, rA_perm, P. }
  rewrite E. reflexivity.
Qed.

Lemma Forall_perm_map {A} (P : Q -> Prop) (f : A -> Q) l l' : Permutation l l' -> Forall P (map f l) -> Forall P (map f l').
Proof. intros Hp. apply Permutation_Forall. apply Permutation_map. exact Hp. Qed.

(** hence the fitted parameters - and with them every prediction - are those
    of the original ordering: damped fit ... *)
Theorem ls_fit_perm_damped n B B' alpha p p' : Permutation B B' ->
  wfm n (rA B) -> length p = n -> length p' = n ->
  Forall (fun x => 0 <= x) (rW B) -> 0 < alpha ->
  normal_eq n (rA B) (rD B) (rW B) alpha (scale2 n (rA B)) p ->
  normal_eq n (rA B') (rD B') (rW B') alpha (scale2 n (rA B')) p' ->
  veq p' p /\ forall Qm, veq (mv Qm p') (mv Qm p).
Proof.
  intros P HA Hp Hp' Hw Ha N N'.
  apply (normal_eq_perm n B B' alpha p' P HA) in N'.
  assert (E: veq p' p).
  { apply (optimal_unique_damped n (rA B) (rD B) (rW B) alpha (scale2 n (rA B))); try assumption.
    - unfold ls_shapes, rA, rD, rW. rewrite !map_length, scale2_length. repeat split; try assumption.
    - apply scale2_pos. }
  split; [exact E|]. intros Qm. rewrite E. reflexivity.
Qed.

(** ... and undamped fit with an injective Jacobian *)
Theorem ls_fit_perm_injective n B B' p p' : Permutation B B' ->
  wfm n (rA B) -> length p = n -> length p' = n ->
  Forall (fun x => 0 < x) (rW B) -> injective_on n (rA B) ->
  normal_eq n (rA B) (rD B) (rW B) 0 (scale2 n (rA B)) p ->
  normal_eq n (rA B') (rD B') (rW B') 0 (scale2 n (rA B')) p' ->
  veq p' p /\ forall Qm, veq (mv Qm p') (mv Qm p).
Proof.
  intros P HA Hp Hp' Hw Hinj N N'.
  apply (normal_eq_perm n B B' 0 p' P HA) in N'.
  assert (E: veq p' p).
  { apply (optimal_unique_injective n (rA B) (rD B) (rW B) (scale2 n (rA B))); try assumption.
    - unfold ls_shapes, rA, rD, rW. rewrite !map_length, scale2_length. repeat split; try assumption.
    - eapply Forall_impl; [|apply scale2_pos]. intros a Ha; simpl in Ha; lra. }
  split; [exact E|]. intros Qm. rewrite E. reflexivity.
Qed.

(** ** permuting the parameters (Spline / VectorSpline2D place one force per
    data point: reordering the points also reorders the columns of the
    Jacobian, of the query Jacobian and the parameters) *)
Lemma dot_map2 {T} (f g : T -> Q) s : dot (map f s) (map g s) == Qsum (map (fun i => f i * g i) s).
Proof. induction s as [|x t IH]; cbn; [reflexivity|]. rewrite IH. reflexivity. Qed.

Lemma dot_seq a b n : length a = n -> length b = n ->
  dot a b == Qsum (map (fun i => nth i a 0 * nth i b 0) (seq 0 n)).
Proof.
  intros Ha Hb. rewrite <- dot_map2. subst n. rewrite map_nth_seq. rewrite <- Hb, map_nth_seq. reflexivity.
Qed.

Lemma dot_permute s a b n : is_perm n s -> length a = n -> length b = n ->
  dot (qpermute s a) (qpermute s b) == dot a b.
Proof.
  intros H Ha Hb. unfold qpermute, permute. rewrite dot_map2, (dot_seq a b n Ha Hb).
  apply QList.Qsum_perm. apply Permutation_map. exact H.
Qed.

Definition colperm (s : list nat) (A : list (list Q)) : list (list Q) := map (qpermute s) A.

Lemma mv_colperm n s A p : wfm n A -> is_perm n s -> length p = n ->
  veq (mv (colperm s A) (qpermute s p)) (mv A p).
Proof.
  intros HA H Hp. induction HA as [|r A Hr HA IH]; cbn; constructor; [|exact IH].
  apply (dot_permute s r p n); assumption.
Qed.

Lemma col_colperm s A j : (j < length s)%nat -> col j (colperm s A) = col (nth j s 0%nat) A.
Proof.
  intros Hj. unfold col, colperm. rewrite map_map. apply map_ext. intros r.
  unfold qpermute. apply nth_permute. exact Hj.
Qed.

Lemma wfm_colperm n s A : length s = n -> wfm n (colperm s A).
Proof.
  intros H. unfold wfm, colperm. apply Forall_forall. intros r Hr. apply in_map_iff in Hr as [r0 [<- _]].
  unfold qpermute. rewrite permute_length. exact H.
Qed.

Lemma nr_nth n A d w alpha s2 p j : ls_shapes n A d w s2 p ->
  nth j (normal_residual n A d w alpha s2 p) 0 == dot (col j A) (uvec A d w p) + alpha * (nth j s2 0 * nth j p 0).
Proof.
  intros (HA & Hd & Hw & Hs & Hp). unfold normal_residual.
  rewrite nth_vadd by (rewrite length_tmv, length_vscale, length_vmul by (assumption || congruence); congruence).
  rewrite nth_tmv by assumption. rewrite nth_vscale, nth_vmul by congruence. reflexivity.
Qed.

Lemma uvec_colperm n s A d w p : wfm n A -> is_perm n s -> length p = n ->
  veq (uvec (colperm s A) d w (qpermute s p)) (uvec A d w p).
Proof.
  intros HA H Hp. unfold uvec. apply vmul_proper; [reflexivity|]. apply vsub_proper; [|reflexivity].
  apply (mv_colperm n); assumption.
Qed.

Theorem normal_residual_colperm n s A d w alpha s2 p : ls_shapes n A d w s2 p -> is_perm n s ->
  veq (normal_residual n (colperm s A) d w alpha (qpermute s s2) (qpermute s p))
      (qpermute s (normal_residual n A d w alpha s2 p)).
Proof.
  intros Hsh H. pose proof Hsh as (HA & Hd & Hw & Hs & Hp).
  pose proof (is_perm_length _ _ H) as Ls.
  assert (Hsh': ls_shapes n (colperm s A) d w (qpermute s s2) (qpermute s p)).
  { unfold ls_shapes, qpermute. rewrite !permute_length. unfold colperm at 2 3. rewrite map_length.
    repeat split; try assumption. apply wfm_colperm, Ls. }
  apply veq_of_nth.
  - rewrite (length_normal_residual _ _ _ _ _ _ _ Hsh'). unfold qpermute. rewrite permute_length. congruence.
  - rewrite (length_normal_residual _ _ _ _ _ _ _ Hsh'). intros j Hj.
    rewrite (nr_nth _ _ _ _ _ _ _ j Hsh').
    assert (E1: nth j (qpermute s s2) 0 = nth (nth j s 0%nat) s2 0) by (apply nth_permute; congruence).
    assert (E2: nth j (qpermute s p) 0 = nth (nth j s 0%nat) p 0) by (apply nth_permute; congruence).
    assert (E3: nth j (qpermute s (normal_residual n A d w alpha s2 p)) 0 =
                nth (nth j s 0%nat) (normal_residual n A d w alpha s2 p) 0) by (apply nth_permute; congruence).
    rewrite E1, E2, E3.
    rewrite (nr_nth _ _ _ _ _ _ _ (nth j s 0%nat) Hsh).
    rewrite col_colperm by congruence.
    rewrite (uvec_colperm n s A d w p HA H Hp). reflexivity.
Qed.

Lemma vzero_nth v : vzero v <-> forall i, (i < length v)%nat -> nth i v 0 == 0.
Proof.
  unfold vzero. split.
  - intros F i Hi. rewrite Forall_forall in F. apply F. apply nth_In. exact Hi.
  - intros H. apply Forall_forall. intros x Hx. destruct (In_nth v x 0 Hx) as [i [Hi <-]]. apply H, Hi.
Qed.

Lemma vzero_permute s v : is_perm (length v) s -> (vzero (qpermute s v) <-> vzero v).
Proof.
  intros H. pose proof (is_perm_length _ _ H) as Ls. rewrite !vzero_nth. unfold qpermute. rewrite permute_length.
  split; intros Z i Hi.
  - destruct (is_perm_surj _ _ i H Hi) as [j [Hj <-]].
    rewrite <- (nth_permute 0 s v j) by congruence. apply Z. congruence.
  - rewrite nth_permute by exact Hi. apply Z. apply (is_perm_nth_lt _ _ _ H). congruence.
Qed.

Lemma map_nth_fun {T} (F : nat -> T) s : map (fun j => F (nth j s 0%nat)) (seq 0 (length s)) = map F s.
Proof. rewrite <- (map_map (fun j => nth j s 0%nat) F). rewrite map_nth_seq. reflexivity. Qed.

Theorem scale2_colperm n s A : is_perm n s -> scale2 n (colperm s A) = qpermute s (scale2 n A).
Proof.
  intros H. pose proof (is_perm_length _ _ H) as Ls. unfold scale2, qpermute, permute.
  transitivity (map (fun j => scale2_of (col (nth j s 0%nat) A)) (seq 0 n)).
  - apply map_ext_in. intros j Hj. apply in_seq in Hj. rewrite col_colperm by lia. reflexivity.
  - rewrite <- Ls at 1. rewrite (map_nth_fun (fun i => scale2_of (col i A)) s).
    apply map_ext_in. intros i Hi. symmetry. apply nth_map_seq. apply (is_perm_lt _ _ _ H Hi).
Qed.

(** the reordered parameters solve the system with reordered columns, and
    conversely; predictions through an equally reordered query Jacobian agree *)
Theorem normal_eq_colperm n s A d w alpha p : ls_shapes n A d w (scale2 n A) p -> is_perm n s ->
  (normal_eq n (colperm s A) d w alpha (scale2 n (colperm s A)) (qpermute s p) <->
   normal_eq n A d w alpha (scale2 n A) p) /\
  forall Qm, wfm n Qm -> veq (mv (colperm s Qm) (qpermute s p)) (mv Qm p).
Proof.
  intros Hsh H. split.
  - unfold normal_eq. rewrite (scale2_colperm n s A H).
    rewrite (normal_residual_colperm n s A d w alpha _ p Hsh H).
    apply vzero_permute. rewrite (length_normal_residual _ _ _ _ _ _ _ Hsh). exact H.
  - intros Qm HQ. apply (mv_colperm n); [exact HQ|exact H|]. apply Hsh.
Qed.

(** ** linearity in the data *)
Lemma nth_lin j a x b y : length x = length y -> nth j (lin a x b y) 0 == a * nth j x 0 + b * nth j y 0.
Proof. intros H. unfold lin. rewrite nth_vadd by (rewrite !length_vscale; exact H). rewrite !nth_vscale. reflexivity. Qed.
Lemma length_lin a x b y : length x = length y -> length (lin a x b y) = length x.
Proof. intros H. unfold lin. rewrite length_vadd; rewrite !length_vscale; congruence. Qed.

Lemma dot_lin_r h a x b y : length x = length h -> length y = length h ->
  dot h (lin a x b y) == a * dot h x + b * dot h y.
Proof.
  intros Hx Hy. unfold lin. rewrite dot_vadd_r by (rewrite length_vscale; assumption).
  rewrite !dot_vscale_r. reflexivity.
Qed.

Lemma mv_lin n A a p1 b p2 : wfm n A -> length p1 = n -> length p2 = n ->
  veq (mv A (lin a p1 b p2)) (lin a (mv A p1) b (mv A p2)).
Proof.
  intros HA H1 H2. induction HA as [|r A Hr HA IH]; [constructor|].
  unfold lin, mv in *. cbn [map vscale vadd]. constructor; [|exact IH].
  apply (dot_lin_r r a p1 b p2); congruence.
Qed.

Ltac lens := repeat match goal with
  | |- context [length (vscale _ _)] => rewrite length_vscale
  | |- context [length (mv _ _)] => rewrite length_mv
  | |- context [length (col _ _)] => rewrite col_length
  | |- context [length (lin ?a ?x ?b ?y)] => rewrite (length_lin a x b y) by lens
  | |- context [length (vsub ?x ?y)] => rewrite (length_vsub x y) by lens
  | |- context [length (vmul ?x ?y)] => rewrite (length_vmul x y) by lens
  | |- context [length (vadd ?x ?y)] => rewrite (length_vadd x y) by lens
  end; try congruence; try reflexivity.

Lemma uvec_lin n A w a p1 d1 b p2 d2 : wfm n A -> length p1 = n -> length p2 = n ->
  length d1 = length A -> length d2 = length A -> length w = length A ->
  veq (uvec A (lin a d1 b d2) w (lin a p1 b p2)) (lin a (uvec A d1 w p1) b (uvec A d2 w p2)).
Proof.
  intros HA H1 H2 Hd1 Hd2 Hw. unfold uvec. rewrite (mv_lin n A a p1 b p2 HA H1 H2).
  apply veq_of_nth; [lens|].
  intros j _. rewrite nth_vmul by lens.
  rewrite nth_vsub by lens. rewrite !nth_lin by lens.
  rewrite !nth_vmul by lens. rewrite !nth_vsub by lens. ring.
Qed.

Theorem normal_residual_lin n A w alpha s2 a p1 d1 b p2 d2 :
  ls_shapes n A d1 w s2 p1 -> length p2 = n -> length d2 = length A ->
  veq (normal_residual n A (lin a d1 b d2) w alpha s2 (lin a p1 b p2))
      (lin a (normal_residual n A d1 w alpha s2 p1) b (normal_residual n A d2 w alpha s2 p2)).
Proof.
  intros Hsh H2 Hd2. pose proof Hsh as (HA & Hd1 & Hw & Hs & H1).
  assert (Hsh2: ls_shapes n A d2 w s2 p2) by (repeat split; assumption).
  assert (Hsh12: ls_shapes n A (lin a d1 b d2) w s2 (lin a p1 b p2)).
  { repeat split; try assumption; rewrite length_lin; congruence. }
  apply veq_of_nth.
  - rewrite length_lin; rewrite !length_normal_residual by assumption; reflexivity.
  - intros j _. rewrite nth_lin by (rewrite !length_normal_residual by assumption; reflexivity).
    rewrite !nr_nth by assumption.
    rewrite (uvec_lin n A w a p1 d1 b p2 d2) by assumption.
    rewrite dot_lin_r by (unfold uvec; lens).
    rewrite nth_lin by congruence. ring.
Qed.

(** solutions superpose: fit(a d1 + b d2) is solved by a fit(d1) + b fit(d2)
    (same Jacobian, weights, damping and column scales - none depends on the data) *)
Theorem ls_linear n A w alpha s2 a p1 d1 b p2 d2 :
  ls_shapes n A d1 w s2 p1 -> length p2 = n -> length d2 = length A ->
  normal_eq n A d1 w alpha s2 p1 -> normal_eq n A d2 w alpha s2 p2 ->
  normal_eq n A (lin a d1 b d2) w alpha s2 (lin a p1 b p2).
Proof.
  intros Hsh H2 Hd2 N1 N2. unfold normal_eq in *.
  rewrite (normal_residual_lin n A w alpha s2 a p1 d1 b p2 d2 Hsh H2 Hd2).
  unfold lin. apply vadd_zeros_vzero; apply vscale_vzero; assumption.
Qed.

(** with a unique minimiser (damped) the fit of the combined data IS the
    combination, and so is the prediction through any query Jacobian *)
Theorem ls_predict_linear_damped n A w alpha s2 a p1 d1 b p2 d2 p12 :
  ls_shapes n A d1 w s2 p1 -> length p2 = n -> length d2 = length A -> length p12 = n ->
  Forall (fun x => 0 <= x) w -> Forall (fun x => 0 < x) s2 -> 0 < alpha ->
  normal_eq n A d1 w alpha s2 p1 -> normal_eq n A d2 w alpha s2 p2 ->
  normal_eq n A (lin a d1 b d2) w alpha s2 p12 ->
  veq p12 (lin a p1 b p2) /\
  forall Qm, wfm n Qm -> veq (mv Qm p12) (lin a (mv Qm p1) b (mv Qm p2)).
Proof.
  intros Hsh H2 Hd2 H12 Hw Hs Ha N1 N2 N12. pose proof Hsh as (HA & Hd1 & Hlw & Hls & H1).
  assert (E: veq p12 (lin a p1 b p2)).
  { apply (optimal_unique_damped n A (lin a d1 b d2) w alpha s2); try assumption.
    - repeat split; try assumption; rewrite length_lin; congruence.
    - apply ls_linear; assumption. }
  split; [exact E|]. intros Qm HQ. rewrite E. apply (mv_lin n); assumption.
Qed.

Theorem ls_predict_linear_injective n A w s2 a p1 d1 b p2 d2 p12 :
  ls_shapes n A d1 w s2 p1 -> length p2 = n -> length d2 = length A -> length p12 = n ->
  Forall (fun x => 0 < x) w -> Forall (fun x => 0 <= x) s2 -> injective_on n A ->
  normal_eq n A d1 w 0 s2 p1 -> normal_eq n A d2 w 0 s2 p2 ->
  normal_eq n A (lin a d1 b d2) w 0 s2 p12 ->
  veq p12 (lin a p1 b p2) /\
  forall Qm, wfm n Qm -> veq (mv Qm p12) (lin a (mv Qm p1) b (mv Qm p2)).
Proof.
  intros Hsh H2 Hd2 H12 Hw Hs Hinj N1 N2 N12. pose proof Hsh as (HA & Hd1 & Hlw & Hls & H1).
  assert (E: veq p12 (lin a p1 b p2)).
  { apply (optimal_unique_injective n A (lin a d1 b d2) w s2); try assumption.
    - repeat split; try assumption; rewrite length_lin; congruence.
    - apply ls_linear; assumption. }
  split; [exact E|]. intros Qm HQ. rewrite E. apply (mv_lin n); assumption.
Qed.
