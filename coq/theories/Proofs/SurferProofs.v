(** Proofs about the load_surfer model (C19). *)
From Coq Require Import ZArith QArith Qabs String Ascii List Bool Lia Lqa.
From Verde Require Import Lib.Verdict Lib.Dyadic Model.Surfer.
Import ListNotations.
Open Scope string_scope.

(** ** The tokeniser *)

Lemma all_ws_cons c r : all_ws (String c r) = is_ws c && all_ws r.
Proof. reflexivity. Qed.

Lemma no_ws_cons c r : no_ws (String c r) = negb (is_ws c) && no_ws r.
Proof. reflexivity. Qed.

Lemma append_assoc (a b c : string) : (a ++ b) ++ c = a ++ (b ++ c).
Proof. induction a as [|x a IH]; cbn; [reflexivity|now rewrite IH]. Qed.

Lemma append_nil_r (a : string) : a ++ "" = a.
Proof. induction a as [|x a IH]; cbn; [reflexivity|now rewrite IH]. Qed.

(** leading whitespace is ignored *)
Lemma split_ws_skip s r : all_ws s = true -> split_ws (s ++ r) = split_ws r.
Proof.
  induction s as [|c s IH]; intros H; [reflexivity|].
  rewrite all_ws_cons in H. apply andb_true_iff in H as [Hc Hs].
  cbn [append split_ws]. rewrite Hc. now apply IH.
Qed.

Lemma split_ws_all_ws s : all_ws s = true -> split_ws s = [].
Proof. intros H. rewrite <- (append_nil_r s). now rewrite split_ws_skip. Qed.

(** the rest of the line after a token: nothing, or something that starts
    with a whitespace character *)
Definition starts_ws (r : string) : Prop :=
  match r with EmptyString => True | String c _ => is_ws c = true end.

(** a token: non-empty, no whitespace inside *)
Definition token (t : string) : Prop := t <> "" /\ no_ws t = true.

Lemma split_ws_token t r : token t -> starts_ws r ->
  split_ws (t ++ r) = t :: split_ws r.
Proof.
  intros [Hne Hnw] Hr. induction t as [|c t IH]; [congruence|].
  rewrite no_ws_cons in Hnw. apply andb_true_iff in Hnw as [Hc Ht].
  apply negb_true_iff in Hc.
  destruct t as [|c2 t].
  - cbn [append split_ws]. rewrite Hc. destruct r as [|c' r']; [reflexivity|].
    cbn in Hr. now rewrite Hr.
  - assert (IH' : split_ws (String c2 t ++ r) = String c2 t :: split_ws r)
      by (apply IH; [discriminate|exact Ht]).
    pose proof Ht as Ht'. rewrite no_ws_cons in Ht'. apply andb_true_iff in Ht' as [Hc2 _].
    apply negb_true_iff in Hc2.
    change (String c (String c2 t) ++ r) with (String c (String c2 t ++ r)).
    cbn [split_ws]. rewrite Hc.
    change (String c2 t ++ r) with (String c2 (t ++ r)) at 1.
    cbv iota. rewrite Hc2. rewrite IH'. reflexivity.
Qed.

(** the text of a line: tokens, each followed by a whitespace run that is
    non-empty except possibly after the last token *)
Fixpoint well_separated (l : list (string * string)) : Prop :=
  match l with
  | [] => True
  | (t, sep) :: r =>
      token t /\ all_ws sep = true /\
      match r with [] => True | _ => sep <> "" end /\ well_separated r
  end.

Lemma starts_ws_app sep r : all_ws sep = true -> (sep <> "" \/ starts_ws r) -> starts_ws (sep ++ r).
Proof.
  intros Hs [Hne|Hr]; destruct sep as [|c sep]; cbn; try congruence; try exact Hr;
    rewrite all_ws_cons in Hs; now apply andb_true_iff in Hs as [Hc _].
Qed.

Lemma split_ws_join_aux l : well_separated l -> split_ws (join_ws l) = map fst l.
Proof.
  induction l as [|[t sep] r IH]; intros H; [reflexivity|].
  destruct H as (Ht & Hs & Hne & Hr).
  cbn [join_ws map fst].
  rewrite split_ws_token; [|exact Ht|].
  - f_equal. rewrite split_ws_skip by exact Hs. now apply IH.
  - apply starts_ws_app; [exact Hs|]. destruct r as [|p r']; [right; exact I|left; exact Hne].
Qed.

(** [split_ws] returns exactly the tokens, whatever the amount and kind of
    whitespace before, between and after them *)
Theorem split_ws_join sep0 l : all_ws sep0 = true -> well_separated l ->
  split_ws (sep0 ++ join_ws l) = map fst l.
Proof. intros H0 Hl. rewrite split_ws_skip by exact H0. now apply split_ws_join_aux. Qed.

(** str.strip() *)
Lemma lstrip_skip s r : all_ws s = true -> lstrip (s ++ r) = lstrip r.
Proof.
  induction s as [|c s IH]; intros H; [reflexivity|].
  rewrite all_ws_cons in H. apply andb_true_iff in H as [Hc Hs].
  cbn [append lstrip]. rewrite Hc. now apply IH.
Qed.

Lemma rstrip_all_ws s : all_ws s = true -> rstrip s = "".
Proof.
  induction s as [|c s IH]; intros H; [reflexivity|].
  rewrite all_ws_cons in H. apply andb_true_iff in H as [Hc Hs].
  cbn [rstrip]. rewrite (IH Hs), Hc. reflexivity.
Qed.

(** a string whose last character is not whitespace (or the empty string) *)
Fixpoint ends_nonws (s : string) : Prop :=
  match s with
  | EmptyString => True
  | String c EmptyString => is_ws c = false
  | String _ r => ends_nonws r
  end.

Lemma rstrip_core s b : s <> "" -> ends_nonws s -> all_ws b = true -> rstrip (s ++ b) = s.
Proof.
  intros Hne He Hb. induction s as [|c s IH]; [congruence|].
  destruct s as [|c2 s].
  - cbn in He. cbn [append rstrip]. rewrite (rstrip_all_ws b Hb), He. reflexivity.
  - assert (IH' : rstrip (String c2 s ++ b) = String c2 s) by (apply IH; [discriminate|exact He]).
    change (String c (String c2 s) ++ b) with (String c (String c2 s ++ b)).
    cbn [rstrip]. rewrite IH'. reflexivity.
Qed.

Theorem strip_spec a s b : all_ws a = true -> all_ws b = true ->
  match s with EmptyString => True | String c _ => is_ws c = false end -> ends_nonws s ->
  strip (a ++ s ++ b) = s.
Proof.
  intros Ha Hb Hs He. unfold strip. rewrite lstrip_skip by exact Ha.
  destruct s as [|c s].
  - cbn [append]. assert (E : lstrip b = "").
    { clear -Hb. induction b as [|x b IH]; [reflexivity|].
      rewrite all_ws_cons in Hb. apply andb_true_iff in Hb as [Hx Hb]. cbn. rewrite Hx. auto. }
    rewrite E. reflexivity.
  - cbn [append lstrip]. rewrite Hs.
    change (String c (s ++ b)) with (String c s ++ b).
    apply rstrip_core; [discriminate|exact He|exact Hb].
Qed.

(** ** Numbers *)

Theorem is_blank_spec dt d : is_blank dt (Fin d) = true <-> (D2Q (thr dt) <= D2Q d)%Q.
Proof. cbn [is_blank]. apply dle_spec. Qed.

Theorem isclose_spec a b :
  isclose (Fin a) (Fin b) = true <->
  (Qabs (D2Q a - D2Q b) <= atol + rtol * Qabs (D2Q b))%Q.
Proof.
  cbn [isclose]. rewrite dle_spec. unfold isclose_lhs, isclose_rhs.
  rewrite D2Q_mul, D2Q_add, D2Q_mul, !D2Q_abs, D2Q_sub, !D2Q_Z.
  set (u := Qabs (D2Q a - D2Q b)). set (v := Qabs (D2Q b)).
  unfold atol, rtol.
  change (inject_Z 100000000) with (100000000 # 1)%Q.
  change (inject_Z 1000) with (1000 # 1)%Q.
  change (inject_Z 1) with 1%Q.
  split; intros H; lra.
Qed.

Lemma isclose_nan_l y : isclose NaN y = false.
Proof. reflexivity. Qed.

Lemma nmin_nan_l x : nmin NaN x = NaN. Proof. reflexivity. Qed.
Lemma nmin_nan_r x : nmin x NaN = NaN. Proof. now destruct x. Qed.
Lemma nmax_nan_l x : nmax NaN x = NaN. Proof. reflexivity. Qed.
Lemma nmax_nan_r x : nmax x NaN = NaN. Proof. now destruct x. Qed.

Lemma fold_nan (op : num -> num -> num) l : (forall x, op NaN x = NaN) -> fold_left op l NaN = NaN.
Proof. intros H. induction l as [|x l IH]; cbn; [reflexivity|now rewrite H]. Qed.

Lemma fold_num_nan (op : num -> num -> num) l :
  (forall x, op NaN x = NaN) -> (forall x, op x NaN = NaN) ->
  In NaN l -> fold_num op l = NaN.
Proof.
  intros Hl Hr. destruct l as [|v t]; [intros []|]. cbn [fold_num].
  revert v. induction t as [|y t IH]; intros v [E|H].
  - now subst.
  - destruct H.
  - subst v. cbn. rewrite Hl. now apply fold_nan.
  - destruct H as [E|H].
    + subst y. cbn. rewrite Hr. now apply fold_nan.
    + cbn. apply IH. now right.
Qed.

Definition fin (v : num) : Prop := exists d, v = Fin d.

Lemma dle_false a b : dle a b = false -> (D2Q b < D2Q a)%Q.
Proof.
  intros H. destruct (Qlt_le_dec (D2Q b) (D2Q a)) as [L|L]; [exact L|].
  apply dle_spec in L. congruence.
Qed.

(** minimum / maximum of finite numbers *)
Lemma fold_min_fin l : forall v, Forall fin (v :: l) ->
  exists m, fold_left nmin l v = Fin m /\ In (Fin m) (v :: l) /\
            forall x, In (Fin x) (v :: l) -> (D2Q m <= D2Q x)%Q.
Proof.
  induction l as [|y t IH]; intros v HF.
  - inversion HF as [|? ? [a ->] _]. exists a. cbn. split; [reflexivity|]. split; [now left|].
    intros x [E|[]]. injection E as ->. lra.
  - inversion HF as [|? ? [a ->] HF']. inversion HF' as [|? ? [b ->] HF''].
    cbn [fold_left nmin].
    set (c := if dle a b then a else b).
    assert (Hc : (if dle a b then Fin a else Fin b) = Fin c) by (unfold c; now destruct (dle a b)).
    rewrite Hc.
    destruct (IH (Fin c)) as (m & E & Hin & Hlb).
    { constructor; [now exists c|exact HF'']. }
    exists m. split; [exact E|].
    assert (Hca : (D2Q c <= D2Q a)%Q /\ (D2Q c <= D2Q b)%Q /\ (c = a \/ c = b)).
    { unfold c. destruct (dle a b) eqn:Eab.
      - apply dle_spec in Eab. repeat split; [lra|exact Eab|now left].
      - apply dle_false in Eab. repeat split; [lra|lra|now right]. }
    destruct Hca as (Hca & Hcb & Hcc).
    split.
    + destruct Hin as [Em|Hin].
      * injection Em as <-. destruct Hcc as [->| ->]; [now left|right; now left].
      * right; right; exact Hin.
    + assert (Hmc : (D2Q m <= D2Q c)%Q) by (apply Hlb; now left).
      intros x [Ex|[Ex|Hx]].
      * injection Ex as <-. lra.
      * injection Ex as <-. lra.
      * apply Hlb. now right.
Qed.

Lemma fold_max_fin l : forall v, Forall fin (v :: l) ->
  exists m, fold_left nmax l v = Fin m /\ In (Fin m) (v :: l) /\
            forall x, In (Fin x) (v :: l) -> (D2Q x <= D2Q m)%Q.
Proof.
  induction l as [|y t IH]; intros v HF.
  - inversion HF as [|? ? [a ->] _]. exists a. cbn. split; [reflexivity|]. split; [now left|].
    intros x [E|[]]. injection E as ->. lra.
  - inversion HF as [|? ? [a ->] HF']. inversion HF' as [|? ? [b ->] HF''].
    cbn [fold_left nmax].
    set (c := if dle a b then b else a).
    assert (Hc : (if dle a b then Fin b else Fin a) = Fin c) by (unfold c; now destruct (dle a b)).
    rewrite Hc.
    destruct (IH (Fin c)) as (m & E & Hin & Hub).
    { constructor; [now exists c|exact HF'']. }
    exists m. split; [exact E|].
    assert (Hca : (D2Q a <= D2Q c)%Q /\ (D2Q b <= D2Q c)%Q /\ (c = a \/ c = b)).
    { unfold c. destruct (dle a b) eqn:Eab.
      - apply dle_spec in Eab. repeat split; [exact Eab|lra|now right].
      - apply dle_false in Eab. repeat split; [lra|lra|now left]. }
    destruct Hca as (Hca & Hcb & Hcc).
    split.
    + destruct Hin as [Em|Hin].
      * injection Em as <-. destruct Hcc as [->| ->]; [now left|right; now left].
      * right; right; exact Hin.
    + assert (Hmc : (D2Q c <= D2Q m)%Q) by (apply Hub; now left).
      intros x [Ex|[Ex|Hx]].
      * injection Ex as <-. lra.
      * injection Ex as <-. lra.
      * apply Hub. now right.
Qed.

(** [field_min] / [field_max] are the least / greatest unmasked value *)
Theorem field_min_spec dt rows :
  Forall fin (unmasked dt rows) -> unmasked dt rows <> [] ->
  exists m, field_min dt rows = Fin m /\ In (Fin m) (unmasked dt rows) /\
            forall x, In (Fin x) (unmasked dt rows) -> (D2Q m <= D2Q x)%Q.
Proof.
  unfold field_min. destruct (unmasked dt rows) as [|v t]; [congruence|].
  intros HF _. cbn [fold_num]. now apply fold_min_fin.
Qed.

Theorem field_max_spec dt rows :
  Forall fin (unmasked dt rows) -> unmasked dt rows <> [] ->
  exists m, field_max dt rows = Fin m /\ In (Fin m) (unmasked dt rows) /\
            forall x, In (Fin x) (unmasked dt rows) -> (D2Q x <= D2Q m)%Q.
Proof.
  unfold field_max. destruct (unmasked dt rows) as [|v t]; [congruence|].
  intros HF _. cbn [fold_num]. now apply fold_max_fin.
Qed.

(** ** linspace *)
Lemma linspace_length a b n : length (linspace a b n) = n.
Proof.
  destruct n as [|[|m]]; [reflexivity|reflexivity|].
  unfold linspace. now rewrite map_length, seq_length.
Qed.

Theorem linspace_nth a b n i : (2 <= n)%nat -> (i < n)%nat ->
  nth i (linspace a b n) 0%Q =
  (a + inject_Z (Z.of_nat i) * (b - a) / inject_Z (Z.of_nat (n - 1)))%Q.
Proof.
  intros Hn Hi. destruct n as [|[|m]]; [lia|lia|].
  unfold linspace.
  set (f := fun i0 : nat => (a + inject_Z (Z.of_nat i0) * (b - a) / inject_Z (Z.of_nat (S (S m) - 1)))%Q).
  rewrite (nth_indep _ 0%Q (f 0%nat)) by (now rewrite map_length, seq_length).
  rewrite map_nth. rewrite seq_nth by exact Hi. reflexivity.
Qed.

Lemma inject_nat_nonzero k : (0 < k)%nat -> ~ (inject_Z (Z.of_nat k) == 0)%Q.
Proof. intros Hk E. unfold Qeq in E. cbn in E. lia. Qed.

(** first point = start, last point = stop, constant spacing *)
Theorem linspace_first a b n : (2 <= n)%nat -> (nth 0 (linspace a b n) 0 == a)%Q.
Proof.
  intros Hn. rewrite linspace_nth by lia. cbn [Z.of_nat].
  pose proof (inject_nat_nonzero (n - 1) ltac:(lia)) as Hk.
  change (inject_Z 0) with 0%Q. field. exact Hk.
Qed.

Theorem linspace_last a b n : (2 <= n)%nat -> (nth (n - 1) (linspace a b n) 0 == b)%Q.
Proof.
  intros Hn. rewrite linspace_nth by lia.
  pose proof (inject_nat_nonzero (n - 1) ltac:(lia)) as Hk.
  field. exact Hk.
Qed.

Theorem linspace_step a b n i : (2 <= n)%nat -> (S i < n)%nat ->
  (nth (S i) (linspace a b n) 0 - nth i (linspace a b n) 0 == (b - a) / inject_Z (Z.of_nat (n - 1)))%Q.
Proof.
  intros Hn Hi. rewrite !linspace_nth by lia.
  pose proof (inject_nat_nonzero (n - 1) ltac:(lia)) as Hk.
  rewrite Nat2Z.inj_succ. unfold Z.succ. rewrite inject_Z_plus.
  change (inject_Z 1) with 1%Q. field. exact Hk.
Qed.

(** ** The loader *)
Section Loader.
Variable pint : string -> option Z.
Variable pflt : string -> option num.
Variable pval : string -> option num.

Notation read_lines := (read_lines pint pflt pval).
Notation parse_header := (parse_header pint pflt).
Notation loadtxt := (loadtxt pval).
Notation header_is := (header_is pint pflt).
Notation body_is := (body_is pval).
Notation load_surfer := (load_surfer pint pflt pval).

Lemma map_opt_length {A B} (f : A -> option B) l r : map_opt f l = Some r -> length r = length l.
Proof.
  revert r. induction l as [|x l IH]; intros r H; cbn in H.
  - now injection H as <-.
  - destruct (f x); [|discriminate]. destruct (map_opt f l) eqn:E; [|discriminate].
    injection H as <-. cbn. f_equal. now apply IH.
Qed.

Lemma list_eqb_Z (a b : list Z) : list_eqb Z.eqb a b = true <-> a = b.
Proof. apply list_eqb_spec. intros x y. apply Z.eqb_eq. Qed.

Lemma rect_shape {A} (rows : list (list A)) r t :
  rows = r :: t -> rect rows = true -> Forall (fun r' => length r' = length r) rows.
Proof.
  intros -> H. cbn in H. constructor; [reflexivity|].
  apply Forall_forall. intros x Hx. rewrite forallb_forall in H.
  apply Nat.eqb_eq. now apply H.
Qed.

(** a 2-D field shape: at least 2 x 2, every row of the same length *)
Lemma field_shape_2d {A} (rows : list (list A)) (nr nc : Z) :
  rect rows = true -> Forall (fun r => r <> []) rows ->
  field_shape rows = [nr; nc] ->
  (2 <= Z.to_nat nr)%nat /\ (2 <= Z.to_nat nc)%nat /\
  nr = Z.of_nat (Z.to_nat nr) /\ nc = Z.of_nat (Z.to_nat nc) /\
  has_shape rows (Z.to_nat nr) (Z.to_nat nc).
Proof.
  intros Hrect Hne Hs. destruct rows as [|r t]; [discriminate|].
  pose proof (rect_shape _ r t eq_refl Hrect) as Hall.
  inversion Hne as [|? ? Hr _]. subst.
  assert (Hlr : (1 <= length r)%nat) by (destruct r; [congruence|cbn; lia]).
  cbn [field_shape filter] in Hs.
  destruct (Z.eqb_spec (Z.of_nat (length (r :: t))) 1) as [E1|E1];
    destruct (Z.eqb_spec (Z.of_nat (length r)) 1) as [E2|E2]; cbn [negb] in Hs; try discriminate.
  injection Hs as <- <-.
  rewrite !Nat2Z.id.
  assert (Hlen : length (r :: t) = S (length t)) by reflexivity.
  repeat split; try lia. exact Hall.
Qed.

Lemma field_shape_has {A} (rows : list (list A)) (nr nc : nat) :
  (2 <= nr)%nat -> (2 <= nc)%nat -> has_shape rows nr nc ->
  field_shape rows = [Z.of_nat nr; Z.of_nat nc] /\ rect rows = true /\ concat rows <> [].
Proof.
  intros Hnr Hnc [Hl Hall]. destruct rows as [|r t]; [cbn in Hl; lia|].
  inversion Hall as [|x l Hr Ht]. subst x l.
  cbn [field_shape filter]. rewrite Hr, Hl.
  destruct (Z.eqb_spec (Z.of_nat nr) 1) as [E1|E1]; [lia|].
  destruct (Z.eqb_spec (Z.of_nat nc) 1) as [E2|E2]; [lia|].
  cbn [negb]. repeat split.
  - cbn [rect]. apply forallb_forall. intros x Hx. apply Nat.eqb_eq.
    rewrite Forall_forall in Ht. rewrite Hr. now apply Ht.
  - destruct r; [cbn in Hr; lia|]. cbn. discriminate.
Qed.

Lemma has_shape_field {A} (rows : list (list A)) (nr nc : nat) :
  rect rows = true -> field_shape rows = [Z.of_nat nr; Z.of_nat nc] -> has_shape rows nr nc.
Proof.
  intros Hrect Hs. destruct rows as [|r t]; [discriminate|].
  pose proof (rect_shape _ r t eq_refl Hrect) as Hall.
  cbn [field_shape filter] in Hs.
  destruct (Z.eqb_spec (Z.of_nat (length (r :: t))) 1) as [E1|E1];
    destruct (Z.eqb_spec (Z.of_nat (length r)) 1) as [E2|E2]; cbn [negb] in Hs; try discriminate.
  injection Hs as H1 H2.
  assert (H1' : length (r :: t) = nr) by (cbn [length]; lia).
  assert (H2' : length r = nc) by lia.
  split; [exact H1'|]. rewrite <- H2'. exact Hall.
Qed.

Lemma body_rows_nonempty f : Forall (fun r => r <> []) (body_rows f).
Proof.
  apply Forall_forall. intros r Hr. unfold body_rows in Hr.
  apply filter_In in Hr as [_ Hr]. destruct r; [discriminate|discriminate].
Qed.

Lemma map_opt_rows_nonempty rows vals :
  map_opt (map_opt pval) rows = Some vals ->
  Forall (fun r => r <> []) rows -> Forall (fun r : list num => r <> []) vals.
Proof.
  revert vals. induction rows as [|r t IH]; intros vals H HF; cbn in H.
  - injection H as <-. constructor.
  - destruct (map_opt pval r) as [v|] eqn:Ev; [|discriminate].
    destruct (map_opt (map_opt pval) t) as [vt|] eqn:Et; [|discriminate].
    injection H as <-. inversion HF as [|? ? Hr Ht]. subst. constructor.
    + apply map_opt_length in Ev. destruct v; [|discriminate].
      destruct r; [congruence|discriminate].
    + now apply IH.
Qed.

(** *** Soundness: a returned grid is the file's grid *)
Theorem load_sound fileattr dt f g :
  read_lines fileattr dt f = Ok g ->
  exists nr nc s n w e rng rows,
    (2 <= nr)%nat /\ (2 <= nc)%nat /\
    header_is f nr nc s n w e rng /\
    body_is f rows /\ has_shape rows nr nc /\
    range_agrees dt rows rng /\
    g_vals g = map (map (mask dt)) rows /\
    g_north g = linspace (D2Q s) (D2Q n) nr /\
    g_east g = linspace (D2Q w) (D2Q e) nc /\
    g_id g = strip (line f 0) /\
    g_file g = fileattr /\
    g_dims g = ["northing"; "easting"] /\
    g_dtype g = dt.
Proof.
  unfold read_lines, Surfer.read_lines, Surfer.parse_header, Surfer.loadtxt, check_integrity.
  intros H.
  destruct (map_opt pint (split_ws (line f 1))) as [shape|] eqn:E1; [|discriminate].
  destruct (map_opt pflt (split_ws (line f 2))) as [[|s0 [|n0 [|]]]|] eqn:E2; try discriminate.
  destruct (map_opt pflt (split_ws (line f 3))) as [[|w0 [|e0 [|]]]|] eqn:E3; try discriminate.
  destruct (map_opt pflt (split_ws (line f 4))) as [rng|] eqn:E4; [|discriminate].
  cbn [bind] in H.
  destruct (map_opt (map_opt pval) (body_rows f)) as [rows|] eqn:E5; [|discriminate].
  destruct (rect rows) eqn:Erect; [|discriminate].
  cbn [bind h_shape h_range h_south h_north h_west h_east h_id] in H.
  destruct (list_eqb Z.eqb (field_shape rows) shape) eqn:Eshape; [|discriminate].
  cbn [negb] in H.
  destruct (is_nil (concat rows)) eqn:Enil; [discriminate|].
  destruct (range_close (field_min dt rows) (field_max dt rows) rng) as [[|]|] eqn:Erng; try discriminate.
  cbn [bind] in H.
  apply list_eqb_Z in Eshape.
  destruct shape as [|nr [|nc [|]]]; try discriminate.
  destruct s0 as [s| | |]; try discriminate.
  destruct n0 as [n| | |]; try discriminate.
  destruct w0 as [w| | |]; try discriminate.
  destruct e0 as [e| | |]; try discriminate.
  injection H as <-.
  pose proof (map_opt_rows_nonempty _ _ E5 (body_rows_nonempty f)) as Hne.
  destruct (field_shape_2d rows nr nc Erect Hne Eshape) as (Hnr & Hnc & Enr & Enc & Hshape).
  exists (Z.to_nat nr), (Z.to_nat nc), s, n, w, e, rng, rows.
  cbn [g_vals g_north g_east g_id g_file g_dims g_dtype].
  repeat split; try assumption; try reflexivity.
  - rewrite <- Enr, <- Enc. exact E1.
  - apply Hshape.
  - apply Hshape.
Qed.

(** in a returned grid, a cell is NaN exactly when the file's value is a blank *)
Lemma range_agrees_no_nan dt rows rng :
  range_agrees dt rows rng -> ~ In NaN (unmasked dt rows).
Proof.
  unfold range_agrees, range_close, field_min. intros H Hin.
  rewrite (fold_num_nan nmin _ nmin_nan_l nmin_nan_r Hin) in H.
  destruct rng as [|b1 [|b2 [|]]]; cbn in H; discriminate.
Qed.

Theorem blank_iff_nan dt rows rng v :
  range_agrees dt rows rng -> In v (concat rows) ->
  (mask dt v = NaN <-> is_blank dt v = true).
Proof.
  intros Hr Hin. unfold mask. destruct (is_blank dt v) eqn:Eb.
  - split; reflexivity.
  - split; [|discriminate]. intros ->. exfalso.
    apply (range_agrees_no_nan _ _ _ Hr). unfold unmasked. apply filter_In. split; [exact Hin|].
    now rewrite Eb.
Qed.

(** *** Completeness: a well-formed file whose header agrees with its body loads *)
Theorem load_complete fileattr dt f nr nc s n w e rng rows :
  (2 <= nr)%nat -> (2 <= nc)%nat ->
  header_is f nr nc s n w e rng ->
  body_is f rows -> has_shape rows nr nc ->
  range_agrees dt rows rng ->
  read_lines fileattr dt f =
    Ok {| g_vals := map (map (mask dt)) rows;
          g_north := linspace (D2Q s) (D2Q n) nr;
          g_east := linspace (D2Q w) (D2Q e) nc;
          g_id := strip (line f 0);
          g_file := fileattr;
          g_dims := ["northing"; "easting"];
          g_dtype := dt |}.
Proof.
  intros Hnr Hnc (E1 & E2 & E3 & E4) E5 Hshape Hrng.
  destruct (field_shape_has rows nr nc Hnr Hnc Hshape) as (Efs & Erect & Hne).
  unfold read_lines, Surfer.read_lines, Surfer.parse_header, Surfer.loadtxt, check_integrity.
  rewrite E1, E2, E3, E4. cbn [bind]. unfold body_is, Surfer.body_is in E5. rewrite E5, Erect.
  cbn [bind h_shape h_range h_south h_north h_west h_east h_id].
  rewrite Efs. assert (Eq : list_eqb Z.eqb [Z.of_nat nr; Z.of_nat nc] [Z.of_nat nr; Z.of_nat nc] = true)
    by (now apply list_eqb_Z).
  rewrite Eq. cbn [negb].
  assert (Enil : is_nil (concat rows) = false) by (destruct (concat rows); [congruence|reflexivity]).
  rewrite Enil.
  unfold range_agrees in Hrng. rewrite Hrng. cbn [bind].
  rewrite !Nat2Z.id. reflexivity.
Qed.

(** *** Refusal *)

(** the header cannot be read: ValueError *)
Theorem load_refuses_header fileattr dt f e :
  parse_header f = Err e -> read_lines fileattr dt f = Err e.
Proof. unfold read_lines, Surfer.read_lines. now intros ->. Qed.

(** a body token that is not a number: ValueError *)
Theorem load_refuses_token fileattr dt f h :
  parse_header f = Ok h -> map_opt (map_opt pval) (body_rows f) = None ->
  read_lines fileattr dt f = Err EValue.
Proof.
  unfold read_lines, Surfer.read_lines, Surfer.loadtxt. intros -> ->. reflexivity.
Qed.

(** the body is not [nr] lines of [nc] numbers (too few / too many lines or
    columns, wrapped rows, ragged rows): IOError if it is a rectangle of the
    wrong shape, ValueError (from loadtxt) if it is ragged; never a grid *)
Theorem load_refuses_shape fileattr dt f nr nc s n w e rng rows :
  header_is f nr nc s n w e rng -> body_is f rows ->
  ~ has_shape rows nr nc ->
  read_lines fileattr dt f = Err (if rect rows then EIO else EValue).
Proof.
  intros (E1 & E2 & E3 & E4) E5 Hns.
  unfold read_lines, Surfer.read_lines, Surfer.parse_header, Surfer.loadtxt, check_integrity.
  rewrite E1, E2, E3, E4. cbn [bind]. unfold body_is, Surfer.body_is in E5. rewrite E5.
  destruct (rect rows) eqn:Erect; [|reflexivity].
  cbn [bind h_shape].
  destruct (list_eqb Z.eqb (field_shape rows) [Z.of_nat nr; Z.of_nat nc]) eqn:Es; [|reflexivity].
  exfalso. apply Hns. apply list_eqb_Z in Es. now apply has_shape_field.
Qed.

Corollary load_refuses_wrapped fileattr dt f nr nc s n w e rng rows r :
  header_is f nr nc s n w e rng -> body_is f rows ->
  In r rows -> length r <> nc ->
  exists err, read_lines fileattr dt f = Err err.
Proof.
  intros Hh Hb Hin Hlen. eexists. eapply load_refuses_shape; try eassumption.
  intros [_ Hall]. rewrite Forall_forall in Hall. apply Hlen. now apply Hall.
Qed.

Corollary load_refuses_row_count fileattr dt f nr nc s n w e rng rows :
  header_is f nr nc s n w e rng -> body_is f rows ->
  length rows <> nr ->
  exists err, read_lines fileattr dt f = Err err.
Proof.
  intros Hh Hb Hlen. eexists. eapply load_refuses_shape; try eassumption.
  intros [Hl _]. now apply Hlen.
Qed.

(** the header's data range is not allclose to the body's: IOError (or
    ValueError when the range line does not have one or two numbers) *)
Theorem load_refuses_range fileattr dt f nr nc s n w e rng rows :
  header_is f nr nc s n w e rng -> body_is f rows ->
  ~ range_agrees dt rows rng ->
  exists err, read_lines fileattr dt f = Err err.
Proof.
  intros Hh Hb Hnr.
  destruct (read_lines fileattr dt f) as [g|err] eqn:E; [|now exists err].
  exfalso. apply load_sound in E.
  destruct E as (nr' & nc' & s' & n' & w' & e' & rng' & rows' & _ & _ & Hh' & Hb' & _ & Hr' & _).
  destruct Hh as (_ & _ & _ & E4). destruct Hh' as (_ & _ & _ & E4').
  unfold body_is, Surfer.body_is in Hb, Hb'.
  assert (rng' = rng) by congruence. assert (rows' = rows) by congruence. subst. now apply Hnr.
Qed.

(** no input yields a grid that differs from the file: whenever a grid is
    returned, every one of its cells is the (masked) number written at that
    place of the file *)
Corollary load_cells fileattr dt f g :
  read_lines fileattr dt f = Ok g ->
  exists rows, body_is f rows /\
    forall i j, nth j (nth i (g_vals g) []) NaN = 
                match nth_error rows i with
                | Some r => match nth_error r j with Some v => mask dt v | None => NaN end
                | None => NaN
                end.
Proof.
  intros H. apply load_sound in H.
  destruct H as (nr & nc & s & n & w & e & rng & rows & _ & _ & _ & Hb & _ & _ & Hv & _).
  exists rows. split; [exact Hb|]. intros i j. rewrite Hv. clear.
  revert i j. induction rows as [|r t IH]; intros [|i] j; cbn; try (destruct j; reflexivity).
  - revert j. induction r as [|v r IHr]; intros [|j]; cbn; try reflexivity. apply IHr.
  - apply IH.
Qed.

(** *** Handles *)

Definition with_file (fa : option fattr) (g : grid) : grid :=
  {| g_vals := g_vals g; g_north := g_north g; g_east := g_east g; g_id := g_id g;
     g_file := fa; g_dims := g_dims g; g_dtype := g_dtype g |}.

Definition map_result {A B} (k : A -> B) (r : result A) : result B :=
  match r with Ok a => Ok (k a) | Err e => Err e end.

Lemma read_lines_fileattr fa dt f :
  read_lines fa dt f = map_result (with_file fa) (read_lines None dt f).
Proof.
  unfold read_lines, Surfer.read_lines.
  destruct (parse_header f) as [h|]; [|reflexivity]. cbn [bind].
  destruct (loadtxt f) as [rows|]; [|reflexivity]. cbn [bind].
  destruct (check_integrity dt rows h); [|reflexivity]. cbn [bind].
  destruct (h_shape h) as [|nr [|nc [|]]]; try reflexivity.
  destruct (h_south h), (h_north h), (h_west h), (h_east h); reflexivity.
Qed.

(** what the function computes, whichever way it is called: the [file]
    attribute is the object that was given - the string, character by
    character, or the Path object *)
Theorem load_surfer_result fs src dt :
  o_result (load_surfer fs src dt) =
  match src with
  | Path p => match fs p with
              | None => Err EIO
              | Some c => read_lines (Some (FStr p)) dt c
              end
  | PathObj p => match fs p with
                 | None => Err EIO
                 | Some c => read_lines (Some (FPathObj p)) dt c
                 end
  | FileObj h => match hd_state h with
                 | Closed => Err EValue
                 | Opened => read_lines None dt (hd_lines h)
                 end
  end.
Proof.
  destruct src as [p|p|h]; cbn; unfold load_path.
  - destruct (fs p); reflexivity.
  - destruct (fs p); reflexivity.
  - unfold read_handle. destruct (hd_state h); reflexivity.
Qed.

(** the [file] attribute of a grid loaded from the string [p] is [p] itself,
    for every string: no normalisation of "./", "//", "/./", "/../" *)
Theorem file_attr_is_given fs p dt g :
  o_result (load_surfer fs (Path p) dt) = Ok g -> g_file g = Some (FStr p).
Proof.
  rewrite load_surfer_result. destruct (fs p) as [c|]; [|discriminate].
  intros H. apply load_sound in H.
  destruct H as (nr & nc & s & n & w & e & rng & rows & H). apply H.
Qed.

Theorem file_attr_pathobj fs p dt g :
  o_result (load_surfer fs (PathObj p) dt) = Ok g -> g_file g = Some (FPathObj p).
Proof.
  rewrite load_surfer_result. destruct (fs p) as [c|]; [|discriminate].
  intros H. apply load_sound in H.
  destruct H as (nr & nc & s & n & w & e & rng & rows & H). apply H.
Qed.

Theorem file_attr_fileobj fs h dt g :
  o_result (load_surfer fs (FileObj h) dt) = Ok g -> g_file g = None.
Proof.
  rewrite load_surfer_result. destruct (hd_state h); [|discriminate].
  intros H. apply load_sound in H.
  destruct H as (nr & nc & s & n & w & e & rng & rows & H). apply H.
Qed.

(** the file the function opens is closed when it returns or raises, on every
    input; nothing else is opened *)
Definition is_path (src : source) (p : string) : Prop := src = Path p \/ src = PathObj p.

Theorem handle_closed fs src p dt : is_path src p ->
  match o_opened (load_surfer fs src dt) with
  | Some h => hd_state h = Closed /\ fs p = Some (hd_lines h)
  | None => fs p = None
  end /\ o_given (load_surfer fs src dt) = None.
Proof. intros [-> | ->]; cbn; unfold load_path; destruct (fs p); cbn; repeat split; reflexivity. Qed.

(** the outcome is a function of what the path contains NOW: whatever the
    path contained before, whatever was loaded before (no memory between
    calls) - two file systems that agree on [p] give the same outcome *)
Theorem load_current_content fs1 fs2 src p dt : is_path src p ->
  fs1 p = fs2 p -> load_surfer fs1 src dt = load_surfer fs2 src dt.
Proof. intros [-> | ->] E; cbn; unfold load_path; rewrite E; reflexivity. Qed.

(** a caller's file object is not closed, and no file is opened *)
Theorem fileobj_untouched fs h dt :
  o_opened (load_surfer fs (FileObj h) dt) = None /\
  o_given (load_surfer fs (FileObj h) dt) = Some h.
Proof. split; reflexivity. Qed.

(** same result from a path or from an open file object on the same
    content, up to the [file] attribute *)
Theorem path_equals_fileobj fs p c dt :
  fs p = Some c ->
  o_result (load_surfer fs (Path p) dt) =
  map_result (with_file (Some (FStr p)))
    (o_result (load_surfer fs (FileObj {| hd_lines := c; hd_state := Opened |}) dt)) /\
  o_result (load_surfer fs (PathObj p) dt) =
  map_result (with_file (Some (FPathObj p)))
    (o_result (load_surfer fs (FileObj {| hd_lines := c; hd_state := Opened |}) dt)).
Proof.
  intros E. rewrite !load_surfer_result, E. cbn [hd_state hd_lines]. split; apply read_lines_fileattr.
Qed.

End Loader.

(** ** The decidable statement used by the generated cases *)
Section Decidable.
Variable pint : string -> option Z.
Variable pflt : string -> option num.
Variable pval : string -> option num.

Lemma all_len_Forall {A} n (rows : list (list A)) :
  all_len n rows = true -> Forall (fun r => length r = n) rows.
Proof.
  unfold all_len. intros H. apply Forall_forall. intros r Hr.
  rewrite forallb_forall in H. apply Nat.eqb_eq. now apply H.
Qed.

Lemma range_status_yes dt rows rng :
  range_status dt rows rng = Yes -> range_agrees dt rows rng.
Proof.
  unfold range_status, range_agrees, range_close.
  destruct rng as [|b1 [|b2 [|]]]; try discriminate.
  - destruct (isclose_tie _ _ || isclose_tie _ _); [discriminate|].
    destruct (isclose _ _ && isclose _ _); [reflexivity|discriminate].
  - destruct (isclose_tie _ _ || isclose_tie _ _); [discriminate|].
    destruct (isclose _ _ && isclose _ _); [reflexivity|discriminate].
Qed.

(** the harness reports a raised error as a violation only when
    [well_formed] says [Yes]; such a file does load in the model
    (completeness), so this never contradicts the model *)
Theorem well_formed_loads fileattr dt f :
  well_formed pint pflt pval dt f = Yes ->
  exists g, read_lines pint pflt pval fileattr dt f = Ok g.
Proof.
  unfold well_formed. intros H.
  destruct (map_opt pint (split_ws (line f 1))) as [[|nr [|nc [|]]]|] eqn:E1; try discriminate.
  destruct (map_opt pflt (split_ws (line f 2))) as [[|[s| | |] [|[n| | |] [|]]]|] eqn:E2; try discriminate.
  destruct (map_opt pflt (split_ws (line f 3))) as [[|[w| | |] [|[e| | |] [|]]]|] eqn:E3; try discriminate.
  destruct (map_opt pflt (split_ws (line f 4))) as [[|[lo| | |] [|[hi| | |] [|]]]|] eqn:E4; try discriminate.
  destruct (map_opt (map_opt pval) (body_rows f)) as [rows|] eqn:E5; try discriminate.
  match type of H with (if ?c then _ else _) = _ => destruct c eqn:C; [|discriminate] end.
  repeat (apply andb_true_iff in C as [C ?]).
  apply Z.leb_le in C. 
  match goal with Hx : (2 <=? nc)%Z = true |- _ => apply Z.leb_le in Hx end.
  match goal with Hx : (Z.of_nat (length rows) =? nr)%Z = true |- _ => apply Z.eqb_eq in Hx end.
  match goal with Hx : all_len _ rows = true |- _ => apply all_len_Forall in Hx end.
  apply range_status_yes in H.
  eexists. eapply (load_complete pint pflt pval fileattr dt f (Z.to_nat nr) (Z.to_nat nc) s n w e).
  - lia.
  - lia.
  - unfold header_is. rewrite !Z2Nat.id by lia. repeat split; eassumption.
  - exact E5.
  - split; [lia|assumption].
  - exact H.
Qed.

(** conversely, when the model returns a grid, [grid_is_file] does not say
    [No] of an observed grid that equals the model's (same values, id, file,
    dims, dtype, coordinates within the tolerance) *)
Lemma num_eqb_sym a b : num_eqb a b = num_eqb b a.
Proof.
  destruct a as [x| | |], b as [y| | |]; try reflexivity. cbn. unfold deq.
  destruct (Z.eqb_spec (fst (dsub x y)) 0) as [E|E];
    destruct (Z.eqb_spec (fst (dsub y x)) 0) as [E'|E']; try reflexivity; exfalso.
  - apply E'. apply D2Q_sign_eq. apply D2Q_sign_eq in E. rewrite D2Q_sub in *. lra.
  - apply E. apply D2Q_sign_eq. apply D2Q_sign_eq in E'. rewrite D2Q_sub in *. lra.
Qed.

Lemma list_eqb_app {A} (eqb : A -> A -> bool) a1 a2 b1 b2 :
  list_eqb eqb a1 b1 = true -> list_eqb eqb a2 b2 = true -> list_eqb eqb (a1 ++ a2)%list (b1 ++ b2)%list = true.
Proof.
  revert b1. induction a1 as [|x a1 IH]; intros [|y b1] H1 H2; cbn in *; try discriminate; [exact H2|].
  apply andb_true_iff in H1 as [Hx H1]. rewrite Hx. cbn. now apply IH.
Qed.

Lemma vals_eqb_concat a b : vals_eqb a b = true -> list_eqb num_eqb (concat a) (concat b) = true.
Proof.
  unfold vals_eqb. revert b. induction a as [|r a IH]; intros [|r' b] H; cbn in *; try discriminate; [reflexivity|].
  apply andb_true_iff in H as [Hr H]. apply list_eqb_app; [exact Hr|now apply IH].
Qed.

Lemma list_eqb_sym {A} (eqb : A -> A -> bool) :
  (forall x y, eqb x y = eqb y x) -> forall a b, list_eqb eqb a b = list_eqb eqb b a.
Proof.
  intros Hs a. induction a as [|x a IH]; intros [|y b]; cbn; try reflexivity.
  now rewrite Hs, IH.
Qed.

Lemma list_eqb_length {A} (eqb : A -> A -> bool) a b : list_eqb eqb a b = true -> length a = length b.
Proof.
  revert b. induction a as [|x a IH]; intros [|y b] H; cbn in *; try discriminate; [reflexivity|].
  apply andb_true_iff in H as [_ H]. f_equal. now apply IH.
Qed.

Lemma vals_eqb_all_len n a b : vals_eqb a b = true -> all_len n a = true -> all_len n b = true.
Proof.
  unfold vals_eqb, all_len. revert b. induction a as [|r a IH]; intros [|r' b] H Ha; cbn in *; try discriminate; [reflexivity|].
  apply andb_true_iff in H as [Hr H]. apply andb_true_iff in Ha as [Hn Ha].
  apply list_eqb_length in Hr. rewrite <- Hr, Hn. cbn. now apply IH.
Qed.

Lemma concat_map_map {A B} (k : A -> B) rows : concat (map (map k) rows) = map k (concat rows).
Proof. induction rows as [|r t IH]; cbn; [reflexivity|]. now rewrite map_app, IH. Qed.

Lemma range_agrees_status dt rows rng :
  range_agrees dt rows rng -> range_status dt rows rng <> No.
Proof.
  unfold range_status, range_agrees, range_close.
  destruct rng as [|b1 [|b2 [|]]]; try discriminate.
  - intros H. injection H as H. destruct (isclose_tie _ _ || isclose_tie _ _); [discriminate|].
    rewrite H. discriminate.
  - intros H. injection H as H. destruct (isclose_tie _ _ || isclose_tie _ _); [discriminate|].
    rewrite H. discriminate.
Qed.

(** [regroup]: one grid row per line is its own regrouping; in general the
    result is the file's values in file order cut into rows of [nc], each row
    made of whole lines *)
Lemma regroup_rows {A} (nc : nat) (rows : list (list A)) :
  (1 <= nc)%nat -> Forall (fun r => length r = nc) rows -> regroup nc [] rows = Some rows.
Proof.
  intros Hnc. induction rows as [|r t IH]; intros HF; [reflexivity|].
  inversion HF as [|x l Hr Ht]. subst x l.
  cbn [regroup app]. rewrite Hr, Nat.eqb_refl. now rewrite (IH Ht).
Qed.

Theorem regroup_spec {A} (nc : nat) (rows : list (list A)) : forall acc grows,
  regroup nc acc rows = Some grows ->
  concat grows = (acc ++ concat rows)%list /\ Forall (fun r => length r = nc) grows.
Proof.
  induction rows as [|r t IH]; intros acc grows H; cbn [regroup] in H.
  - destruct acc; cbn in H; [|discriminate]. injection H as <-. split; [reflexivity|constructor].
  - destruct (Nat.eqb_spec (length (acc ++ r)%list) nc) as [E|E].
    + destruct (regroup nc [] t) as [g'|] eqn:Eg; [|discriminate]. cbn in H. injection H as <-.
      destruct (IH _ _ Eg) as [Hc Hf]. split.
      * cbn [concat]. rewrite Hc. cbn [app]. now rewrite app_assoc.
      * constructor; assumption.
    + destruct (length (acc ++ r)%list <? nc)%nat; [|discriminate].
      destruct (IH _ _ H) as [Hc Hf]. split; [|exact Hf].
      rewrite Hc. cbn [concat]. now rewrite app_assoc.
Qed.

(** a line longer than a grid row is never accepted: e.g. a row-per-line
    R x C body under a header whose column count is smaller than C (swapped
    counts, another factorisation of the same product) *)
Theorem regroup_long_line {A} (nc : nat) (r : list A) t :
  (nc < length r)%nat -> regroup nc [] (r :: t) = None.
Proof.
  intros H. cbn [regroup app].
  destruct (Nat.eqb_spec (length r) nc); [lia|].
  destruct (Nat.ltb_spec (length r) nc); [lia|reflexivity].
Qed.

Theorem agree_grid_is_file fileattr dt f g o :
  read_lines pint pflt pval fileattr dt f = Ok g ->
  grid_agrees g o = true ->
  grid_is_file pint pflt pval fileattr dt f o <> No.
Proof.
  intros Hl Ha. apply load_sound in Hl.
  destruct Hl as (nr & nc & s & n & w & e & rng & rows & Hnr & Hnc & (E1 & E2 & E3 & E4) & E5 &
                  (Hlen & Hall) & Hrng & Hv & Hn & He & Hid & Hf & Hd & Hdt).
  unfold body_is in E5.
  unfold grid_is_file. rewrite E1, E2, E3, E4, E5.
  unfold grid_agrees in Ha.
  apply andb_true_iff in Ha as [Ha Adt]. apply andb_true_iff in Ha as [Ha Adims].
  apply andb_true_iff in Ha as [Ha Aname]. apply andb_true_iff in Ha as [Ha Akeys].
  apply andb_true_iff in Ha as [Ha Afile]. apply andb_true_iff in Ha as [Ha Aid].
  apply andb_true_iff in Ha as [Ha Aeast]. apply andb_true_iff in Ha as [Avals Anorth].
  rewrite Hv in Avals. rewrite Hn in Anorth. rewrite He in Aeast.
  rewrite !Nat2Z.id. rewrite (regroup_rows nc rows ltac:(lia) Hall).
  rewrite Hlen, Z.eqb_refl, Avals, Anorth, Aeast. cbn [andb].
  assert (C5 : String.eqb (og_id o) (strip (line f 0)) = true).
  { apply String.eqb_eq in Aid. rewrite <- Aid, Hid. apply String.eqb_refl. }
  assert (C6 : option_eqb fattr_eqb (og_file o) fileattr = true).
  { rewrite Hf in Afile. destruct fileattr as [[a|a]|], (og_file o) as [[b|b]|]; cbn in *; try discriminate;
      try reflexivity; now rewrite String.eqb_sym. }
  rewrite Hf in Akeys.
  assert (C7 : list_eqb String.eqb (og_dims o) ["northing"; "easting"] = true).
  { rewrite Hd in Adims. now rewrite (list_eqb_sym String.eqb String.eqb_sym). }
  assert (C8 : dtype_eqb (og_dtype o) dt = true).
  { rewrite Hdt in Adt. now destruct dt, (og_dtype o). }
  rewrite C5, C6, Akeys, Aname, C7, C8. cbn [andb].
  now apply range_agrees_status.
Qed.

(** an observation that agrees with the model satisfies the decidable
    statement: what the generated cases call a violation is never a mere
    artefact of the statement being stricter than the model; and the model
    itself is covered by the theorems above *)
Theorem agree_implies_holds dt f src ob :
  outcome_agrees (load_surfer pint pflt pval (fst (model_source f src)) (snd (model_source f src)) dt) ob = true ->
  snd (surfer_holds pint pflt pval dt f src ob) = true.
Proof.
  intros Ha. unfold outcome_agrees in Ha.
  apply andb_true_iff in Ha as [Ha Hgiven]. apply andb_true_iff in Ha as [Hres Hleak].
  rewrite load_surfer_result in Hres.
  assert (Hclosed : (ob_leak ob =? 0)%Z = true).
  { destruct src as [p ex|p ex|closed]; cbn in Hleak; unfold load_path in Hleak;
      try (destruct (ex && (p =? p)%string); cbn in Hleak; [|exact Hleak];
           destruct (ob_leak ob =? 0)%Z; [reflexivity|discriminate]).
    exact Hleak. }
  unfold surfer_holds. rewrite Hclosed.
  destruct (ob_res ob) as [o|e'].
  - (* a grid was observed *)
    destruct src as [p ex|p ex|closed]; cbn [model_source fst snd readable fileattr_of] in *.
    + destruct ex; cbn [andb] in Hres; [|discriminate].
      rewrite String.eqb_refl in Hres.
      destruct (read_lines pint pflt pval (Some (FStr p)) dt f) as [g|] eqn:El; [|discriminate].
      pose proof (agree_grid_is_file _ _ _ _ _ El Hres) as Hn.
      destruct (grid_is_file pint pflt pval (Some (FStr p)) dt f o); try reflexivity. congruence.
    + destruct ex; cbn [andb] in Hres; [|discriminate].
      rewrite String.eqb_refl in Hres.
      destruct (read_lines pint pflt pval (Some (FPathObj p)) dt f) as [g|] eqn:El; [|discriminate].
      pose proof (agree_grid_is_file _ _ _ _ _ El Hres) as Hn.
      destruct (grid_is_file pint pflt pval (Some (FPathObj p)) dt f o); try reflexivity. congruence.
    + destruct closed; cbn [hd_state hd_lines negb] in *; [discriminate|].
      destruct (read_lines pint pflt pval None dt f) as [g|] eqn:El; [|discriminate].
      pose proof (agree_grid_is_file _ _ _ _ _ El Hres) as Hn.
      destruct (grid_is_file pint pflt pval None dt f o); try reflexivity. congruence.
  - (* an error was observed *)
    destruct (readable src) eqn:Er; [|reflexivity].
    destruct (well_formed pint pflt pval dt f) eqn:Ew; try reflexivity.
    exfalso.
    destruct src as [p ex|p ex|closed]; cbn [model_source fst snd readable] in *.
    + subst ex. cbn [andb] in Hres. rewrite String.eqb_refl in Hres.
      destruct (well_formed_loads (Some (FStr p)) dt f Ew) as [g El]. rewrite El in Hres. discriminate.
    + subst ex. cbn [andb] in Hres. rewrite String.eqb_refl in Hres.
      destruct (well_formed_loads (Some (FPathObj p)) dt f Ew) as [g El]. rewrite El in Hres. discriminate.
    + destruct closed; [discriminate|]. cbn [hd_state hd_lines] in Hres.
      destruct (well_formed_loads None dt f Ew) as [g El]. rewrite El in Hres. discriminate.
Qed.

End Decidable.
