(** Proofs about the load_surfer model (C19). *)
From Coq Require Import ZArith QArith Qabs String Ascii List Bool Lia Lqa.
From Verde Require Import Lib.Verdict Lib.Dyadic Model.Surfer.
Import ListNotations.
Open Scope string_scope.

(** ** The tokeniser *)

Lemma all_ws_cons c r : all_ws (String c r) = is_ws c && all_ws r.
Proof. reflexivity. Qed.

Lemma no_ws_cons c r : no_ws (String c r) = negb (is_ws c) && no_ws r.
Proof. reflexivity. Qed.

Lemma append_assoc (a b c : string) : (a ++ b) ++ c = a ++ (b ++ c).
Proof. induction a as [|x a IH]; cbn; [reflexivity|now rewrite IH]. Qed.

Lemma append_nil_r (a : string) : a ++ "" = a.
Proof. induction a as [|x a IH]; cbn; [reflexivity|now rewrite IH]. Qed.

(** leading whitespace is ignored *)
Lemma split_ws_skip s r : all_ws s = true -> split_ws (s ++ r) = split_ws r.
Proof.
  induction s as [|c s IH]; intros H; [reflexivity|].
  rewrite all_ws_cons in H. apply andb_true_iff in H as [Hc Hs].
  cbn [append split_ws]. rewrite Hc. now apply IH.
Qed.

Lemma split_ws_all_ws s : all_ws s = true -> split_ws s = [].
Proof. intros H. rewrite <- (append_nil_r s). now rewrite split_ws_skip. Qed.

(** the rest of the line after a token: nothing, or something that starts
    with a whitespace character *)
Definition starts_ws (r : string) : Prop :=
  match r with EmptyString => True | String c _ => is_ws c = true end.

(** a token: non-empty, no whitespace inside *)
Definition token (t : string) : Prop := t <> "" /\ no_ws t = true.

Lemma split_ws_token t r : token t -> starts_ws r ->
  split_ws (t ++ r) = t :: split_ws r.
Proof.
  intros [Hne Hnw] Hr. induction t as [|c t IH]; [congruence|].
  rewrite no_ws_cons in Hnw. apply andb_true_iff in Hnw as [Hc Ht].
  apply negb_true_iff in Hc.
  destruct t as [|c2 t].
  - cbn [append split_ws]. rewrite Hc. destruct r as [|c' r']; [reflexivity|].
    cbn in Hr. now rewrite Hr.
  - assert (IH' : split_ws (String c2 t ++ r) = String c2 t :: split_ws r)
      by (apply IH; [discriminate|exact Ht]).
    pose proof Ht as Ht'. rewrite no_ws_cons in Ht'. apply andb_true_iff in Ht' as [Hc2 _].
    apply negb_true_iff in Hc2.
    change (String c (String c2 t) ++ r) with (String c (String c2 t ++ r)).
    cbn [split_ws]. rewrite Hc.
    change (String c2 t ++ r) with (String c2 (t ++ r)) at 1.
    cbv iota. rewrite Hc2. rewrite IH'. reflexivity.
Qed.

(** the text of a line: tokens, each followed by a whitespace run that is
    non-empty except possibly after the last token *)
Fixpoint well_separated (l : list (string * string)) : Prop :=
  match l with
  | [] => True
  | (t, sep) :: r =>
      token t /\ all_ws sep = true /\
      match r with [] => True | _ => sep <> "" end /\ well_separated r
  end.

Lemma starts_ws_app sep r : all_ws sep = true -> (sep <> "" \/ starts_ws r) -> starts_ws (sep ++ r).
Proof.
  intros Hs [Hne|Hr]; destruct sep as [|c sep]; cbn; try congruence; try exact Hr;
    rewrite all_ws_cons in Hs; now apply andb_true_iff in Hs as [Hc _].
Qed.

Lemma split_ws_join_aux l : well_separated l -> split_ws (join_ws l) = map fst l.
Proof.
  induction l as [|[t sep] r IH]; intros H; [reflexivity|].
  destruct H as (Ht & Hs & Hne & Hr).
  cbn [join_ws map fst].
  rewrite split_ws_token; [|exact Ht|].
  - f_equal. rewrite split_ws_skip by exact Hs. now apply IH.
  - apply starts_ws_app; [exact Hs|]. destruct r as [|p r']; [right; exact I|left; exact Hne].
Qed.

(** [split_ws] returns exactly the tokens, whatever the amount and kind of
    whitespace before, between and after them *)
Theorem split_ws_join sep0 l : all_ws sep0 = true -> well_separated l ->
  split_ws (sep0 ++ join_ws l) = map fst l.
Proof. intros H0 Hl. rewrite split_ws_skip by exact H0. now apply split_ws_join_aux. Qed.

(** str.strip() *)
Lemma lstrip_skip s r : all_ws s = true -> lstrip (s ++ r) = lstrip r.
Proof.
  induction s as [|c s IH]; intros H; [reflexivity|].
  rewrite all_ws_cons in H. apply andb_true_iff in H as [Hc Hs].
  cbn [append lstrip]. rewrite Hc. now apply IH.
Qed.

Lemma rstrip_all_ws s : all_ws s = true -> rstrip s = "".
Proof.
  induction s as [|c s IH]; intros H; [reflexivity|].
  rewrite all_ws_cons in H. apply andb_true_iff in H as [Hc Hs].
  cbn [rstrip]. rewrite (IH Hs), Hc. reflexivity.
Qed.

(** a string whose last character is not whitespace (or the empty string) *)
Fixpoint ends_nonws (s : string) : Prop :=
  match s with
  | EmptyString => True
  | String c EmptyString => is_ws c = false
  | String _ r => ends_nonws r
  end.

Lemma rstrip_core s b : s <> "" -> ends_nonws s -> all_ws b = true -> rstrip (s ++ b) = s.
Proof.
  intros Hne He Hb. induction s as [|c s IH]; [congruence|].
  destruct s as [|c2 s].
  - cbn in He. cbn [append rstrip]. rewrite (rstrip_all_ws b Hb), He. reflexivity.
  - assert (IH' : rstrip (String c2 s ++ b) = String c2 s) by (apply IH; [discriminate|exact He]).
    change (String c (String c2 s) ++ b) with (String c (String c2 s ++ b)).
    cbn [rstrip]. rewrite IH'. reflexivity.
Qed.

Theorem strip_spec a s b : all_ws a = true -> all_ws b = true ->
  match s with EmptyString => True | String c _ => is_ws c = false end -> ends_nonws s ->
  strip (a ++ s ++ b) = s.
Proof.
  intros Ha Hb Hs He. unfold strip. rewrite lstrip_skip by exact Ha.
  destruct s as [|c s].
  - cbn [append]. assert (E : lstrip b = "").
    { clear -Hb. induction b as [|x b IH]; [reflexivity|].
      rewrite all_ws_cons in Hb. apply andb_true_iff in Hb as [Hx Hb]. cbn. rewrite Hx. auto. }
    rewrite E. reflexivity.
  - cbn [append lstrip]. rewrite Hs.
    change (String c (s ++ b)) with (String c s ++ b).
    apply rstrip_core; [discriminate|exact He|exact Hb].
Qed.

(** ** Numbers *)

Theorem is_blank_spec dt d : is_blank dt (Fin d) = true <-> (D2Q (thr dt) <= D2Q d)%Q.
Proof. cbn [is_blank]. apply dle_spec. Qed.

Theorem isclose_spec a b :
  isclose (Fin a) (Fin b) = true <->
  (Qabs (D2Q a - D2Q b) <= atol + rtol * Qabs (D2Q b))%Q.
Proof.
  cbn [isclose]. rewrite dle_spec. unfold isclose_lhs, isclose_rhs.
  rewrite D2Q_mul, D2Q_add, D2Q_mul, !D2Q_abs, D2Q_sub, !D2Q_Z.
  set (u := Qabs (D2Q a - D2Q b)). set (v := Qabs (D2Q b)).
  unfold atol, rtol.
  change (inject_Z 100000000) with (100000000 # 1)%Q.
  change (inject_Z 1000) with (1000 # 1)%Q.
  change (inject_Z 1) with 1%Q.
  split; intros H; lra.
Qed.

Lemma isclose_nan_l y : isclose NaN y = false.
Proof. reflexivity. Qed.

Lemma nmin_nan_l x : nmin NaN x = NaN. Proof. reflexivity. Qed.
Lemma nmin_nan_r x : nmin x NaN = NaN. Proof. now destruct x. Qed.
Lemma nmax_nan_l x : nmax NaN x = NaN. Proof. reflexivity. Qed.
Lemma nmax_nan_r x : nmax x NaN = NaN. Proof. now destruct x. Qed.

Lemma fold_nan (op : num -> num -> num) l : (forall x, op NaN x = NaN) -> fold_left op l NaN = NaN.
Proof. intros H. induction l as [|x l IH]; cbn; [reflexivity|now rewrite H]. Qed.

Lemma fold_num_nan (op : num -> num -> num) l :
  (forall x, op NaN x = NaN) -> (forall x, op x NaN = NaN) ->
  In NaN l -> fold_num op l = NaN.
Proof.
  intros Hl Hr. destruct l as [|v t]; [intros []|]. cbn [fold_num].
  revert v. induction t as [|y t IH]; intros v [E|H].
  - now subst.
  - destruct H.
  - subst v. cbn. rewrite Hl. now apply fold_nan.
  - destruct H as [E|H].
    + subst y. cbn. rewrite Hr. now apply fold_nan.
    + cbn. apply IH. now right.
Qed.

Definition fin (v : num) : Prop := exists d, v = Fin d.

Lemma dle_false a b : dle a b = false -> (D2Q b < D2Q a)%Q.
Proof.
  intros H. destruct (Qlt_le_dec (D2Q b) (D2Q a)) as [L|L]; [exact L|].
  apply dle_spec in L. congruence.
Qed.

(** minimum / maximum of finite numbers *)
Lemma fold_min_fin l : forall v, Forall fin (v :: l) ->
  exists m, fold_left nmin l v = Fin m /\ In (Fin m) (v :: l) /\
            forall x, In (Fin x) (v :: l) -> (D2Q m <= D2Q x)%Q.
Proof.
  induction l as [|y t IH]; intros v HF.
  - inversion HF as [|? ? [a ->] _]. exists a. cbn. split; [reflexivity|]. split; [now left|].
    intros x [E|[]]. injection E as ->. lra.
  - inversion HF as [|? ? [a ->] HF']. inversion HF' as [|? ? [b ->] HF''].
    cbn [fold_left nmin].
    set (c := if dle a b then a else b).
    assert (Hc : (if dle a b then Fin a else Fin b) = Fin c) by (unfold c; now destruct (dle a b)).
    rewrite Hc.
    destruct (IH (Fin c)) as (m & E & Hin & Hlb).
    { constructor; [now exists c|exact HF'']. }
    exists m. split; [exact E|].
    assert (Hca : (D2Q c <= D2Q a)%Q /\ (D2Q c <= D2Q b)%Q /\ (c = a \/ c = b)).
    { unfold c. destruct (dle a b) eqn:Eab.
      - apply dle_spec in Eab. repeat split; [lra|exact Eab|now left].
      - apply dle_false in Eab. repeat split; [lra|lra|now right]. }
    destruct Hca as (Hca & Hcb & Hcc).
    split.
    + destruct Hin as [Em|Hin].
      * injection Em as <-. destruct Hcc as [->| ->]; [now left|right; now left].
      * right; right; exact Hin.
    + assert (Hmc : (D2Q m <= D2Q c)%Q) by (apply Hlb; now left).
      intros x [Ex|[Ex|Hx]].
      * injection Ex as <-. lra.
      * injection Ex as <-. lra.
      * apply Hlb. now right.
Qed.

Lemma fold_max_fin l : forall v, Forall fin (v :: l) ->
  exists m, fold_left nmax l v = Fin m /\ In (Fin m) (v :: l) /\
            forall x, In (Fin x) (v :: l) -> (D2Q x <= D2Q m)%Q.
Proof.
  induction l as [|y t IH]; intros v HF.
  - inversion HF as [|? ? [a ->] _]. exists a. cbn. split; [reflexivity|]. split; [now left|].
    intros x [E|[]]. injection E as ->. lra.
  - inversion HF as [|? ? [a ->] HF']. inversion HF' as [|? ? [b ->] HF''].
    cbn [fold_left nmax].
    set (c := if dle a b then b else a).
    assert (Hc : (if dle a b then Fin b else Fin a) = Fin c) by (unfold c; now destruct (dle a b)).
    rewrite Hc.
    destruct (IH (Fin c)) as (m & E & Hin & Hub).
    { constructor; [now exists c|exact HF'']. }
    exists m. split; [exact E|].
    assert (Hca : (D2Q a <= D2Q c)%Q /\ (D2Q b <= D2Q c)%Q /\ (c = a \/ c = b)).
    { unfold c. destruct (dle a b) eqn:Eab.
      - apply dle_spec in Eab. repeat split; [exact Eab|lra|now right].
      - apply dle_false in Eab. repeat split; [lra|lra|now left]. }
    destruct Hca as (Hca & Hcb & Hcc).
    split.
    + destruct Hin as [Em|Hin].
      * injection Em as <-. destruct Hcc as [->| ->]; [now left|right; now left].
      * right; right; exact Hin.
    + assert (Hmc : (D2Q c <= D2Q m)%Q) by (apply Hub; now left).
      intros x [Ex|[Ex|Hx]].
      * injection Ex as <-. lra.
      * injection Ex as <-. lra.
      * apply Hub. now right.
Qed.

(** [field_min] / [field_max] are the least / greatest unmasked value *)
Theorem field_min_spec dt rows :
  Forall fin (unmasked dt rows) -> unmasked dt rows <> [] ->
  exists m, field_min dt rows = Fin m /\ In (Fin m) (unmasked dt rows) /\
            forall x, In (Fin x) (unmasked dt rows) -> (D2Q m <= D2Q x)%Q.
Proof.
  unfold field_min. destruct (unmasked dt rows) as [|v t]; [congruence|].
  intros HF _. cbn [fold_num]. now apply fold_min_fin.
Qed.

Theorem field_max_spec dt rows :
  Forall fin (unmasked dt rows) -> unmasked dt rows <> [] ->
  exists m, field_max dt rows = Fin m /\ In (Fin m) (unmasked dt rows) /\
            forall x, In (Fin x) (unmasked dt rows) -> (D2Q x <= D2Q m)%Q.
Proof.
  unfold field_max. destruct (unmasked dt rows) as [|v t]; [congruence|].
  intros HF _. cbn [fold_num]. now apply fold_max_fin.
Qed.

(** ** linspace *)
Lemma linspace_length a b n : length (linspace a b n) = n.
Proof.
  destruct n as [|[|m]]; [reflexivity|reflexivity|].
  unfold linspace. now rewrite map_length, seq_length.
Qed.

Theorem linspace_nth a b n i : (2 <= n)%nat -> (i < n)%nat ->
  nth i (linspace a b n) 0%Q =
  (a + inject_Z (Z.of_nat i) * (b - a) / inject_Z (Z.of_nat (n - 1)))%Q.
Proof.
  intros Hn Hi. destruct n as [|[|m]]; [lia|lia|].
  unfold linspace.
  set (f := fun i0 : nat => (a + inject_Z (Z.of_nat i0) * (b - a) / inject_Z (Z.of_nat (S (S m) - 1)))%Q).
  rewrite (nth_indep _ 0%Q (f 0%nat)) by (now rewrite map_length, seq_length).
  rewrite map_nth. rewrite seq_nth by exact Hi. reflexivity.
Qed.

Lemma inject_nat_nonzero k : (0 < k)%nat -> ~ (inject_Z (Z.of_nat k) == 0)%Q.
Proof. intros Hk E. unfold Qeq in E. cbn in E. lia. Qed.

(** first point = start, last point = stop, constant spacing *)
Theorem linspace_first a b n : (2 <= n)%nat -> (nth 0 (linspace a b n) 0 == a)%Q.
Proof.
  intros Hn. rewrite linspace_nth by lia. cbn [Z.of_nat].
  pose proof (inject_nat_nonzero (n - 1) ltac:(lia)) as Hk.
  change (inject_Z 0) with 0%Q. field. exact Hk.
Qed.

Theorem linspace_last a b n : (2 <= n)%nat -> (nth (n - 1) (linspace a b n) 0 == b)%Q.
Proof.
  intros Hn. rewrite linspace_nth by lia.
  pose proof (inject_nat_nonzero (n - 1) ltac:(lia)) as Hk.
  field. exact Hk.
Qed.

Theorem linspace_step a b n i : (2 <= n)%nat -> (S i < n)%nat ->
  (nth (S i) (linspace a b n) 0 - nth i (linspace a b n) 0 == (b - a) / inject_Z (Z.of_nat (n - 1)))%Q.
Proof.
  intros Hn Hi. rewrite !linspace_nth by lia.
  pose proof (inject_nat_nonzero (n - 1) ltac:(lia)) as Hk.
  rewrite Nat2Z.inj_succ. unfold Z.succ. rewrite inject_Z_plus.
  change (inject_Z 1) with 1%Q. field. exact Hk.
Qed.
