(** Lemmas used by the source-regenerated tie of verde/io.py (harness/pylite_surfer.v.tmpl, C19):
    tokens returned by [split_ws] are unchanged by [strip]; list comprehensions whose element
    may raise, as [map_opt]. *)
From Coq Require Import ZArith QArith String Ascii List Bool Lia.
From Verde Require Import Lib.PyLite Model.Surfer Proofs.SurferProofs.
Import ListNotations.
Open Scope string_scope.

(** ** every string returned by [str.split()] is a token *)
Lemma token_single c : is_ws c = false -> token (String c "").
Proof. intros H. split; [discriminate|]. rewrite no_ws_cons, H. reflexivity. Qed.

Lemma token_cons c t : is_ws c = false -> token t -> token (String c t).
Proof. intros H [_ Ht]. split; [discriminate|]. rewrite no_ws_cons, H, Ht. reflexivity. Qed.

Lemma split_ws_tokens s : Forall token (split_ws s).
Proof.
  induction s as [|c r IH]; [constructor|].
  cbn [split_ws]. destruct (is_ws c) eqn:Hc; [exact IH|].
  destruct r as [|c' r'].
  - constructor; [apply token_single; exact Hc|constructor].
  - destruct (is_ws c') eqn:Hc'.
    + constructor; [apply token_single; exact Hc|exact IH].
    + destruct (split_ws (String c' r')) as [|t ts].
      * constructor; [apply token_single; exact Hc|constructor].
      * inversion IH as [|? ? Ht Hts]; subst. constructor; [apply token_cons; assumption|exact Hts].
Qed.

(** ** [str.strip()] leaves a token unchanged *)
Lemma rstrip_no_ws t : no_ws t = true -> rstrip t = t.
Proof.
  induction t as [|c r IH]; intros H; [reflexivity|].
  rewrite no_ws_cons in H. apply andb_true_iff in H as [Hc Hr]. apply negb_true_iff in Hc.
  cbn [rstrip]. rewrite (IH Hr). destruct r; [rewrite Hc|]; reflexivity.
Qed.

Lemma strip_token t : token t -> strip t = t.
Proof.
  intros [Hne Hnw]. unfold strip. destruct t as [|c r]; [congruence|].
  pose proof Hnw as H. rewrite no_ws_cons in H. apply andb_true_iff in H as [Hc _]. apply negb_true_iff in Hc.
  cbn [lstrip]. rewrite Hc. apply rstrip_no_ws. exact Hnw.
Qed.

Lemma strip_split_ws s t : In t (split_ws s) -> strip t = t.
Proof. intros H. apply strip_token. exact (proj1 (Forall_forall _ _) (split_ws_tokens s) t H). Qed.

(** ** [e(x) for x in l] where e may raise: the model's [map_opt] *)
Lemma comp_list_map_opt {A B} f (g : A -> val) (p : A -> option B) (k : B -> val) (l : list A) :
  (forall a, In a l -> f (g a) = Some (option_map k (p a))) ->
  comp_loop CList f (map g l) = Some (option_map (fun r => VL (map k r)) (Surfer.map_opt p l)).
Proof.
  induction l as [|a t IH]; intros H; [reflexivity|].
  cbn [map comp_loop Surfer.map_opt]. rewrite (H a (or_introl eq_refl)).
  destruct (p a) as [y|]; cbn [option_map]; [|reflexivity].
  rewrite IH by (intros b Hb; apply H; right; exact Hb).
  destruct (Surfer.map_opt p t); reflexivity.
Qed.

(** ** comparison of int tuples (shapes) *)
Lemma all_num_VZ l : forallb (fun v => match v with VZ _ | VQ _ => true | _ => false end) (map VZ l) = true.
Proof. induction l as [|x t IH]; [reflexivity|]. cbn [map forallb]. rewrite IH. reflexivity. Qed.

Lemma tuple_eqb_VZ a : forall b, tuple_eqb (map VZ a) (map VZ b) = Some (Verdict.list_eqb Z.eqb a b).
Proof.
  induction a as [|x a IH]; intros [|y b]; try reflexivity.
  - change (tuple_eqb (map VZ []) (map VZ (y :: b)))
      with (if forallb (fun v => match v with VZ _ | VQ _ => true | _ => false end) ([] ++ map VZ (y :: b))
            then Some false else None).
    cbn [app]. rewrite all_num_VZ. reflexivity.
  - change (tuple_eqb (map VZ (x :: a)) (map VZ []))
      with (if forallb (fun v => match v with VZ _ | VQ _ => true | _ => false end) (map VZ (x :: a) ++ [])
            then Some false else None).
    rewrite app_nil_r, all_num_VZ. reflexivity.
  - cbn [map tuple_eqb Verdict.list_eqb]. rewrite IH. cbn [cmp_scalar]. reflexivity.
Qed.

Lemma cmp_bc_ne_VZ a b :
  cmp_bc CNe (VT (map VZ a)) (VT (map VZ b)) = Some (VB (negb (Verdict.list_eqb Z.eqb a b))).
Proof. cbn [cmp_bc cmp_val]. rewrite tuple_eqb_VZ. reflexivity. Qed.

(** decoding a list of rendered numbers *)
Lemma map_opt_decode {A} (nv : A -> val) (vn : val -> option A) :
  (forall x, vn (nv x) = Some x) -> forall l, PyLite.map_opt vn (map nv l) = Some l.
Proof.
  intros H l. induction l as [|x t IH]; [reflexivity|]. cbn [map PyLite.map_opt]. rewrite H, IH. reflexivity.
Qed.
