(** Proofs about the nearest-neighbour model (C15). *)
From Coq Require Import QArith Qabs ZArith List Bool Arith Lia Lqa Permutation Sorted Morphisms.
From Verde Require Import Lib.QExtra Lib.ISort Model.Neighbors.
Import ListNotations.
Open Scope Q_scope.

(** ** squared distances *)
Lemma sq_nonneg x : 0 <= sq x.
Proof. unfold sq. nra. Qed.

Lemma d2_nonneg p q : 0 <= d2 p q.
Proof. unfold d2. pose proof (sq_nonneg (fst p - fst q)). pose proof (sq_nonneg (snd p - snd q)). lra. Qed.

Lemma d2_self p : d2 p p == 0.
Proof. unfold d2, sq. ring. Qed.

Lemma d2_sym p q : d2 p q == d2 q p.
Proof. unfold d2, sq. ring. Qed.

Lemma sq_zero x : sq x == 0 -> x == 0.
Proof. unfold sq. intros H. nra. Qed.

(** zero distance only between equal points *)
Lemma d2_zero_iff p q : d2 p q == 0 <-> fst p == fst q /\ snd p == snd q.
Proof.
  unfold d2. split.
  - intros H. pose proof (sq_nonneg (fst p - fst q)) as A. pose proof (sq_nonneg (snd p - snd q)) as B.
    assert (E1: sq (fst p - fst q) == 0) by lra. assert (E2: sq (snd p - snd q) == 0) by lra.
    apply sq_zero in E1. apply sq_zero in E2. split; lra.
  - intros [E1 E2]. unfold sq. rewrite E1, E2. ring.
Qed.

(** distance <= maxdist iff squared distance <= maxdist^2, for a nonnegative distance r *)
Lemma dist_le_iff_sq r m : 0 <= r -> 0 <= m -> (r <= m <-> r * r <= m * m).
Proof. intros Hr Hm. split; intros H; nra. Qed.

(** ** the key order *)
Definition key_le (a b : key) : Prop := key_leb a b = true.

Lemma key_leb_spec a b :
  key_leb a b = true <-> fst a < fst b \/ (fst a == fst b /\ (snd a <= snd b)%nat).
Proof.
  unfold key_leb. destruct (Qcompare (fst a) (fst b)) eqn:E.
  - apply Qeq_alt in E. rewrite Nat.leb_le. split; [intros H; right; split; assumption|].
    intros [H|[_ H]]; [lra|exact H].
  - apply Qlt_alt in E. split; [intros _; left; exact E|reflexivity].
  - apply Qgt_alt in E. split; [discriminate|]. intros [H|[H _]]; lra.
Qed.

Lemma key_leb_total a b : key_leb a b = false -> key_leb b a = true.
Proof.
  intros H. apply key_leb_spec.
  destruct (Qlt_le_dec (fst b) (fst a)) as [L|L]; [left; exact L|].
  destruct (Qlt_le_dec (fst a) (fst b)) as [L2|L2].
  - assert (T: key_leb a b = true) by (apply key_leb_spec; left; exact L2). congruence.
  - right. split; [lra|]. destruct (le_lt_dec (snd b) (snd a)) as [N|N]; [exact N|].
    assert (T: key_leb a b = true) by (apply key_leb_spec; right; split; [lra|lia]). congruence.
Qed.

Lemma key_leb_trans a b c : key_leb a b = true -> key_leb b c = true -> key_leb a c = true.
Proof.
  rewrite !key_leb_spec. intros [H1|[H1 N1]] [H2|[H2 N2]].
  - left; lra.
  - left; lra.
  - left; lra.
  - right. split; [lra|lia].
Qed.

Lemma key_le_fst a b : key_le a b -> fst a <= fst b.
Proof. unfold key_le. rewrite key_leb_spec. intros [H|[H _]]; lra. Qed.

(** ** the keys of a cloud *)
Lemma keys_from_snd i pts q : map snd (keys_from i pts q) = seq i (length pts).
Proof. revert i. induction pts as [|p t IH]; intros i; cbn [keys_from map snd length seq]; [reflexivity|]. now rewrite IH. Qed.

Lemma keys_from_in i pts q x :
  In x (keys_from i pts q) ->
  (i <= snd x < i + length pts)%nat /\ fst x == d2 (nth (snd x - i) pts p0) q.
Proof.
  revert i. induction pts as [|p t IH]; intros i H; [destruct H|].
  cbn [keys_from In] in H. destruct H as [<-|H].
  - cbn [fst snd length]. split; [lia|]. rewrite Nat.sub_diag. cbn [nth]. apply Qred_correct.
  - apply IH in H as [R E]. cbn [length]. split; [lia|].
    replace (snd x - i)%nat with (S (snd x - S i)) by lia. exact E.
Qed.

Lemma keys_from_has i pts q j :
  (j < length pts)%nat -> exists d, In (d, (i + j)%nat) (keys_from i pts q) /\ d == d2 (nth j pts p0) q.
Proof.
  revert i j. induction pts as [|p t IH]; intros i j H; [cbn in H; lia|].
  destruct j as [|j].
  - exists (Qred (d2 p q)). rewrite Nat.add_0_r. split; [left; reflexivity|apply Qred_correct].
  - destruct (IH (S i) j) as [d [Hin E]]; [cbn in H; lia|].
    exists d. split; [|exact E]. right. replace (i + S j)%nat with (S i + j)%nat by lia. exact Hin.
Qed.

Lemma keys_in pts q x :
  In x (keys pts q) -> (snd x < length pts)%nat /\ fst x == dist2 pts q (snd x).
Proof.
  intros H. apply keys_from_in in H as [R E]. split; [lia|].
  unfold dist2. rewrite Nat.sub_0_r in E. exact E.
Qed.

Lemma keys_has pts q j :
  (j < length pts)%nat -> exists d, In (d, j) (keys pts q) /\ d == dist2 pts q j.
Proof. intros H. apply (keys_from_has 0 pts q j H). Qed.

Lemma keys_length pts q : length (keys pts q) = length pts.
Proof.
  unfold keys. transitivity (length (map snd (keys_from 0 pts q))); [symmetry; apply map_length|].
  rewrite keys_from_snd. apply seq_length.
Qed.

(** ** the sorted keys *)
Lemma sorted_keys_perm pts q : Permutation (sorted_keys pts q) (keys pts q).
Proof. apply isort_perm. Qed.

Lemma sorted_keys_sorted pts q : StronglySorted key_le (sorted_keys pts q).
Proof. apply isort_sorted; [exact key_leb_total|exact key_leb_trans]. Qed.

Lemma sorted_keys_length pts q : length (sorted_keys pts q) = length pts.
Proof. unfold sorted_keys. rewrite isort_length. apply keys_length. Qed.

Lemma sorted_keys_in pts q x :
  In x (sorted_keys pts q) -> (snd x < length pts)%nat /\ fst x == dist2 pts q (snd x).
Proof. intros H. apply keys_in. eapply Permutation_in; [apply sorted_keys_perm|exact H]. Qed.

Lemma sorted_keys_has pts q j :
  (j < length pts)%nat -> exists d, In (d, j) (sorted_keys pts q) /\ d == dist2 pts q j.
Proof.
  intros H. destruct (keys_has pts q j H) as [d [Hin E]]. exists d. split; [|exact E].
  eapply Permutation_in; [symmetry; apply sorted_keys_perm|exact Hin].
Qed.

Lemma sorted_keys_snd_nodup pts q : NoDup (map snd (sorted_keys pts q)).
Proof.
  eapply Permutation_NoDup.
  - apply Permutation_map. symmetry. apply sorted_keys_perm.
  - unfold keys. rewrite keys_from_snd. apply seq_NoDup.
Qed.

(** ** the k nearest: specification *)
(** [sel] has min(k, n) distinct valid indices and no selected point is farther
    from [q] than any point left out *)
Definition closest_set (k : nat) (pts : list pt) (q : pt) (sel : list nat) : Prop :=
  NoDup sel /\ length sel = Nat.min k (length pts) /\
  (forall i, In i sel -> (i < length pts)%nat) /\
  (forall i j, In i sel -> (j < length pts)%nat -> ~ In j sel -> dist2 pts q i <= dist2 pts q j).

(** no two data points at the same distance from the query *)
Definition general_position (pts : list pt) (q : pt) : Prop :=
  forall i j, (i < length pts)%nat -> (j < length pts)%nat -> i <> j ->
    ~ dist2 pts q i == dist2 pts q j.

Lemma NoDup_app_l {A} (l1 l2 : list A) : NoDup (l1 ++ l2) -> NoDup l1.
Proof.
  induction l1 as [|a t IH]; intros H; [constructor|].
  cbn in H. inversion H as [|? ? Hn Hd]; subst. constructor; [|apply IH; exact Hd].
  intros Hin. apply Hn. apply in_or_app. left; exact Hin.
Qed.

Lemma NoDup_firstn {A} k (l : list A) : NoDup l -> NoDup (firstn k l).
Proof. intros H. rewrite <- (firstn_skipn k l) in H. eapply NoDup_app_l; exact H. Qed.

Lemma In_firstn_full {A} k (l : list A) x : In x (firstn k l) -> In x l.
Proof. intros H. rewrite <- (firstn_skipn k l). apply in_or_app. left; exact H. Qed.

Theorem k_nearest_spec k pts q : closest_set k pts q (k_nearest k pts q).
Proof.
  unfold closest_set, k_nearest. set (s := sorted_keys pts q).
  assert (Hs: StronglySorted key_le (firstn k s ++ skipn k s)).
  { rewrite firstn_skipn. apply sorted_keys_sorted. }
  repeat split.
  - rewrite <- firstn_map. apply NoDup_firstn. apply sorted_keys_snd_nodup.
  - rewrite map_length, firstn_length. unfold s. rewrite sorted_keys_length. reflexivity.
  - intros i Hi. apply in_map_iff in Hi as [x [<- Hx]].
    apply (sorted_keys_in pts q x). eapply In_firstn_full; exact Hx.
  - intros i j Hi Hj Hnj. apply in_map_iff in Hi as [x [<- Hx]].
    destruct (sorted_keys_has pts q j Hj) as [d [Hin E]]. fold s in Hin.
    rewrite <- (firstn_skipn k s) in Hin. apply in_app_or in Hin as [Hin|Hin].
    + exfalso. apply Hnj. apply in_map_iff. exists (d, j). split; [reflexivity|exact Hin].
    + pose proof (StronglySorted_app_le _ _ _ Hs x (d, j) Hx Hin) as L.
      apply key_le_fst in L. cbn [fst] in L.
      assert (Hx': In x s) by (eapply In_firstn_full; exact Hx).
      apply sorted_keys_in in Hx' as [_ Ex]. lra.
Qed.


(** the selected indices come nearest first *)
Theorem k_nearest_ascending k pts q :
  StronglySorted (fun i j => dist2 pts q i <= dist2 pts q j) (k_nearest k pts q).
Proof.
  unfold k_nearest.
  apply StronglySorted_map with (R := key_le).
  - intros x y Hx Hy L. apply key_le_fst in L.
    apply In_firstn_full in Hx. apply In_firstn_full in Hy.
    apply sorted_keys_in in Hx as [_ Ex]. apply sorted_keys_in in Hy as [_ Ey]. lra.
  - apply StronglySorted_firstn. apply sorted_keys_sorted.
Qed.

(** in general position the set of the k nearest is unique *)
Lemma closest_set_incl k pts q A B :
  general_position pts q -> closest_set k pts q A -> closest_set k pts q B -> incl A B.
Proof.
  intros G (NA & LA & VA & CA) (NB & LB & VB & CB) x Hx.
  destruct (in_dec Nat.eq_dec x B) as [Hin|Hn]; [exact Hin|exfalso].
  destruct (incl_or_witness A B) as [I|[y [Hy Hny]]].
  - apply Hn. eapply (NoDup_length_incl NB); [|exact I|exact Hx]. lia.
  - pose proof (CA x y Hx (VB y Hy) Hny) as L1.
    pose proof (CB y x Hy (VA x Hx) Hn) as L2.
    apply (G x y (VA x Hx) (VB y Hy)); [intros ->; contradiction|lra].
Qed.

Theorem closest_set_unique k pts q sel :
  general_position pts q -> closest_set k pts q sel -> Permutation sel (k_nearest k pts q).
Proof.
  intros G H. pose proof (k_nearest_spec k pts q) as K.
  apply NoDup_Permutation; [apply H|apply K|].
  intros x. split; intros Hx.
  - eapply closest_set_incl; [exact G|exact H|exact K|exact Hx].
  - eapply closest_set_incl; [exact G|exact K|exact H|exact Hx].
Qed.

(** the boolean checker decides [closest_set] *)
Lemma memb_spec x l : memb x l = true <-> In x l.
Proof.
  unfold memb. rewrite existsb_exists. split.
  - intros [y [Hy E]]. apply Nat.eqb_eq in E. subst. exact Hy.
  - intros H. exists x. split; [exact H|apply Nat.eqb_refl].
Qed.

Lemma nodupb_spec l : nodupb l = true <-> NoDup l.
Proof.
  induction l as [|x t IH]; cbn [nodupb]; [split; [constructor|reflexivity]|].
  rewrite andb_true_iff, negb_true_iff, IH. fold (memb x t). split.
  - intros [H1 H2]. constructor; [|exact H2]. intros Hin. apply memb_spec in Hin. congruence.
  - intros H. inversion H as [|? ? Hn Hd]; subst. split; [|exact Hd].
    destruct (memb x t) eqn:E; [|reflexivity]. apply memb_spec in E. contradiction.
Qed.

Theorem closest_setb_spec k pts q sel :
  closest_setb k pts q sel = true <-> closest_set k pts q sel.
Proof.
  unfold closest_setb, closest_set.
  rewrite !andb_true_iff, nodupb_spec, Nat.eqb_eq, !forallb_forall.
  split.
  - intros [[[H1 H2] H3] H4]. repeat split; try assumption.
    + intros i Hi. apply Nat.ltb_lt. apply H3; exact Hi.
    + intros i j Hi Hj Hn. specialize (H4 i Hi). rewrite forallb_forall in H4.
      specialize (H4 j). rewrite in_seq in H4. specialize (H4 ltac:(lia)).
      apply orb_true_iff in H4 as [M|L]; [apply memb_spec in M; contradiction|].
      apply Qleb_spec in L. exact L.
  - intros (H1 & H2 & H3 & H4). repeat split; try assumption.
    + intros i Hi. apply Nat.ltb_lt. apply H3; exact Hi.
    + intros i Hi. apply forallb_forall. intros j Hj. apply in_seq in Hj.
      destruct (memb j sel) eqn:M; [reflexivity|]. cbn [orb]. apply Qleb_spec.
      apply H4; [exact Hi|lia|]. intros Hin. apply memb_spec in Hin. congruence.
Qed.

(** ** median_distance: the first of the k+1 neighbours of a data point is the point itself *)
Definition distinct_points (pts : list pt) : Prop :=
  forall i j, (i < length pts)%nat -> (j < length pts)%nat -> i <> j ->
    ~ d2 (nth i pts p0) (nth j pts p0) == 0.

(** [rest]: min(k, n-1) distinct valid indices other than [i], none farther from
    point [i] than any other point left out *)
Definition closest_others (k : nat) (pts : list pt) (i : nat) (rest : list nat) : Prop :=
  NoDup rest /\ ~ In i rest /\ length rest = Nat.min k (length pts - 1) /\
  (forall a, In a rest -> (a < length pts)%nat) /\
  (forall a j, In a rest -> (j < length pts)%nat -> j <> i -> ~ In j rest ->
     dist2 pts (nth i pts p0) a <= dist2 pts (nth i pts p0) j).

Lemma sorted_head_min {A} (R : A -> A -> Prop) (h : A) t :
  StronglySorted R (h :: t) -> forall x, In x t -> R h x.
Proof. intros S x Hx. inversion S as [|? ? _ F]; subst. rewrite Forall_forall in F. apply F; exact Hx. Qed.

Theorem self_is_first k pts i :
  distinct_points pts -> (i < length pts)%nat ->
  exists rest, k_nearest (S k) pts (nth i pts p0) = i :: rest /\ closest_others k pts i rest.
Proof.
  intros Dp Hi. set (q := nth i pts p0).
  pose proof (k_nearest_spec (S k) pts q) as K.
  pose proof (sorted_keys_sorted pts q) as Hsort.
  pose proof (sorted_keys_length pts q) as Ls.
  assert (Hhead: exists h t, sorted_keys pts q = h :: t /\ snd h = i).
  { destruct (sorted_keys pts q) as [|h t] eqn:Es; [cbn in Ls; lia|].
    exists h, t. split; [reflexivity|].
    destruct (sorted_keys_has pts q i Hi) as [d [Hin Ed]]. rewrite Es in Hin.
    assert (Hh: In h (sorted_keys pts q)) by (rewrite Es; left; reflexivity).
    apply sorted_keys_in in Hh as [Vh Eh].
    assert (Z0: d == 0). { rewrite Ed. unfold dist2. fold q. apply d2_self. }
    assert (Hle: fst h <= 0).
    { destruct Hin as [->|Hin]; [cbn [fst]; lra|].
      pose proof (sorted_head_min _ _ _ Hsort _ Hin) as L.
      apply key_le_fst in L. cbn [fst] in L. lra. }
    destruct (Nat.eq_dec (snd h) i) as [E|NE]; [exact E|exfalso].
    apply (Dp (snd h) i Vh Hi NE). fold q. unfold dist2 in Eh.
    pose proof (d2_nonneg (nth (snd h) pts p0) q). lra. }
  destruct Hhead as (h & t & Es & Eh).
  exists (map snd (firstn k t)). split.
  - unfold k_nearest. rewrite Es. cbn [firstn map]. rewrite Eh. reflexivity.
  - assert (E: k_nearest (S k) pts q = i :: map snd (firstn k t)).
    { unfold k_nearest. rewrite Es. cbn [firstn map]. rewrite Eh. reflexivity. }
    rewrite E in K. destruct K as (N & L & V & C).
    inversion N as [|? ? Nn Nd]; subst. unfold closest_others. repeat split.
    + exact Nd.
    + exact Nn.
    + cbn [length] in L. lia.
    + intros a Ha. apply V. right; exact Ha.
    + intros a j Ha Hj Hne Hnj. apply C; [right; exact Ha|exact Hj|].
      intros [Hji|Hji]; [congruence|contradiction].
Qed.

(** the squared distances kept by median_distance are those of [others_nearest], ascending *)
Lemma others_d2_spec k pts i :
  Forall2 (fun d a => d == dist2 pts (nth i pts p0) a) (others_d2 k pts i) (others_nearest k pts i).
Proof.
  unfold others_d2, others_nearest, k_nearest.
  set (q := nth i pts p0).
  assert (G: forall l, (forall x, In x l -> fst x == dist2 pts q (snd x)) ->
             Forall2 (fun d a => d == dist2 pts q a) (map fst l) (map snd l)).
  { induction l as [|x l IH]; intros H; cbn [map]; constructor.
    - apply H; left; reflexivity.
    - apply IH. intros y Hy. apply H; right; exact Hy. }
  specialize (G (firstn (S k) (sorted_keys pts q))).
  assert (P: forall x, In x (firstn (S k) (sorted_keys pts q)) -> fst x == dist2 pts q (snd x)).
  { intros x Hx. apply In_firstn_full in Hx. apply sorted_keys_in in Hx. apply Hx. }
  specialize (G P). destruct G; cbn [tl]; [constructor|assumption].
Qed.

Lemma others_d2_ascending k pts i : StronglySorted Qle (others_d2 k pts i).
Proof.
  unfold others_d2.
  assert (Hs: StronglySorted Qle (map fst (firstn (S k) (sorted_keys pts (nth i pts p0))))).
  { apply StronglySorted_map with (R := key_le).
    - intros x y _ _ L. apply key_le_fst; exact L.
    - apply StronglySorted_firstn. apply sorted_keys_sorted. }
  destruct Hs; cbn [tl]; [constructor|assumption].
Qed.

Lemma others_d2_length k pts i : length (others_d2 k pts i) = Nat.min k (length pts - 1).
Proof.
  unfold others_d2. destruct (firstn (S k) (sorted_keys pts (nth i pts p0))) eqn:E.
  - apply (f_equal (@length _)) in E. rewrite firstn_length, sorted_keys_length in E. cbn [length] in E. cbn [map tl length]. lia.
  - apply (f_equal (@length _)) in E. rewrite firstn_length, sorted_keys_length in E.
    cbn [map tl]. rewrite map_length. cbn [length] in E. unfold pt, key in *. lia.
Qed.

(** sqrt-free test of "m is the mean of the square roots of a and b" *)
Lemma mean_of_roots_iff m ra rb :
  0 <= m -> 0 <= ra -> 0 <= rb ->
  (m == (ra + rb) / 2 <->
   (sq (sq (2 * m) - sq ra - sq rb) == 4 * sq ra * sq rb /\ sq ra + sq rb <= sq (2 * m))).
Proof.
  intros Hm Ha Hb. unfold sq. split.
  - intros E. assert (E2: 2 * m == ra + rb) by (rewrite E; field).
    set (t := 2 * m) in *. clearbody t. split; [|nra].
    rewrite E2. ring.
  - intros [E L]. set (t := 2 * m) in *.
    assert (Ht: 0 <= t) by (unfold t; lra).
    assert (T: t == ra + rb); [|unfold t in T; rewrite <- T; field].
    clearbody t.
    set (X := t * t - ra * ra - rb * rb) in *.
    assert (HX: 0 <= X) by (unfold X; lra).
    set (Y := 2 * (ra * rb)).
    assert (HY: 0 <= Y) by (unfold Y; nra).
    assert (EXY: X * X == Y * Y) by (unfold Y; rewrite E; ring).
    assert (XY: X == Y) by nra.
    assert (TT: t * t == (ra + rb) * (ra + rb)) by (unfold X, Y in XY; nra).
    nra.
Qed.

(** ** reductions *)
Lemma Qleb_total a b : Qleb a b = false -> Qleb b a = true.
Proof.
  intros H. apply Qleb_spec. destruct (Qlt_le_dec b a) as [L|L]; [lra|].
  apply Qleb_spec in L. congruence.
Qed.

Lemma Qleb_trans a b c : Qleb a b = true -> Qleb b c = true -> Qleb a c = true.
Proof. rewrite !Qleb_spec. intros; lra. Qed.

Lemma qsort_perm l : Permutation (qsort l) l.
Proof. apply isort_perm. Qed.

Lemma qsort_sorted l : StronglySorted Qle (qsort l).
Proof.
  pose proof (isort_sorted Qleb Qleb_total Qleb_trans l) as H.
  unfold qsort. induction H; constructor; [assumption|].
  eapply Forall_impl; [|eassumption]. intros x Hx. apply Qleb_spec; exact Hx.
Qed.

Lemma mean_spec l : l <> [] -> mean l * inject_Z (Z.of_nat (length l)) == qsum l.
Proof.
  intros H. unfold mean.
  assert (N: ~ inject_Z (Z.of_nat (length l)) == 0).
  { destruct l as [|x t]; [congruence|]. intros E.
    assert (0 < inject_Z (Z.of_nat (length (x :: t)))).
    { change 0 with (inject_Z 0). rewrite <- Zlt_Qlt. cbn [length]. lia. }
    lra. }
  field. exact N.
Qed.

Lemma Qmin_cases a b : (Qmin a b = a /\ a <= b) \/ (Qmin a b = b /\ b <= a).
Proof.
  unfold Qmin. destruct (Qleb a b) eqn:E.
  - left. split; [reflexivity|apply Qleb_spec; exact E].
  - right. split; [reflexivity|]. apply Qleb_total in E. apply Qleb_spec; exact E.
Qed.

Lemma Qmax_cases a b : (Qmax a b = b /\ a <= b) \/ (Qmax a b = a /\ b <= a).
Proof.
  unfold Qmax. destruct (Qleb a b) eqn:E.
  - left. split; [reflexivity|apply Qleb_spec; exact E].
  - right. split; [reflexivity|]. apply Qleb_total in E. apply Qleb_spec; exact E.
Qed.

(** min / max: attained bounds *)
Lemma qmin_list_spec l : l <> [] -> In (qmin_list l) l /\ forall x, In x l -> qmin_list l <= x.
Proof.
  destruct l as [|a t]; [congruence|]. intros _. unfold qmin_list.
  induction t as [|b t IH]; cbn [fold_right].
  - split; [left; reflexivity|]. intros x [<-|[]]. lra.
  - destruct IH as [I B]. destruct (Qmin_cases b (fold_right Qmin a t)) as [[-> L]|[-> L]].
    + split; [right; left; reflexivity|]. intros x [<-|[<-|Hx]].
      * specialize (B a (or_introl eq_refl)). lra.
      * lra.
      * specialize (B x (or_intror Hx)). lra.
    + split.
      * destruct I as [I|I]; [left; exact I|right; right; exact I].
      * intros x [<-|[<-|Hx]]; [apply B; left; reflexivity|exact L|apply B; right; exact Hx].
Qed.

Lemma qmax_list_spec l : l <> [] -> In (qmax_list l) l /\ forall x, In x l -> x <= qmax_list l.
Proof.
  destruct l as [|a t]; [congruence|]. intros _. unfold qmax_list.
  induction t as [|b t IH]; cbn [fold_right].
  - split; [left; reflexivity|]. intros x [<-|[]]. lra.
  - destruct IH as [I B]. destruct (Qmax_cases b (fold_right Qmax a t)) as [[-> L]|[-> L]].
    + split.
      * destruct I as [I|I]; [left; exact I|right; right; exact I].
      * intros x [<-|[<-|Hx]]; [apply B; left; reflexivity|exact L|apply B; right; exact Hx].
    + split; [right; left; reflexivity|]. intros x [<-|[<-|Hx]].
      * specialize (B a (or_introl eq_refl)). lra.
      * lra.
      * specialize (B x (or_intror Hx)). lra.
Qed.

(** mean, min and max do not depend on the order of the values *)
Lemma qsum_perm l l' : Permutation l l' -> qsum l == qsum l'.
Proof.
  induction 1; cbn [qsum fold_right]; try lra.
  fold (qsum l) (qsum l'). lra.
Qed.

Lemma mean_perm l l' : Permutation l l' -> mean l == mean l'.
Proof.
  intros P. unfold mean. rewrite (Permutation_length P). rewrite (qsum_perm _ _ P). reflexivity.
Qed.

Lemma perm_nonempty {A} (l l' : list A) : Permutation l l' -> l <> [] -> l' <> [].
Proof. intros P H E. subst. apply Permutation_sym, Permutation_nil in P. contradiction. Qed.

Lemma qmin_perm l l' : Permutation l l' -> qmin_list l == qmin_list l'.
Proof.
  intros P. destruct l as [|a t].
  - apply Permutation_nil in P. subst. reflexivity.
  - assert (N: a :: t <> []) by congruence. pose proof (perm_nonempty _ _ P N) as N'.
    destruct (qmin_list_spec _ N) as [I B]. destruct (qmin_list_spec _ N') as [I' B'].
    apply (Permutation_in _ P) in I. apply (Permutation_in _ (Permutation_sym P)) in I'.
    specialize (B _ I'). specialize (B' _ I). lra.
Qed.

Lemma qmax_perm l l' : Permutation l l' -> qmax_list l == qmax_list l'.
Proof.
  intros P. destruct l as [|a t].
  - apply Permutation_nil in P. subst. reflexivity.
  - assert (N: a :: t <> []) by congruence. pose proof (perm_nonempty _ _ P N) as N'.
    destruct (qmax_list_spec _ N) as [I B]. destruct (qmax_list_spec _ N') as [I' B'].
    apply (Permutation_in _ P) in I. apply (Permutation_in _ (Permutation_sym P)) in I'.
    specialize (B _ I'). specialize (B' _ I). lra.
Qed.

(** ** KNeighbors.predict *)
Theorem knn_predict_spec r k pts vals q :
  closest_set k pts q (k_nearest k pts q) /\
  knn_predict r k pts vals q = reduce r (map (fun i => nth i vals 0) (k_nearest k pts q)).
Proof. split; [apply k_nearest_spec|reflexivity]. Qed.

(** in general position: the values reduced are those of ANY set of k closest points *)
Theorem knn_predict_values_unique k pts vals q sel :
  general_position pts q -> closest_set k pts q sel ->
  Permutation (map (fun i => nth i vals 0) sel) (neighbor_values k pts vals q).
Proof. intros G H. apply Permutation_map. apply closest_set_unique; assumption. Qed.

Theorem knn_predict_unique r k pts vals q sel :
  r <> RMedian ->
  general_position pts q -> closest_set k pts q sel ->
  knn_predict r k pts vals q == reduce r (map (fun i => nth i vals 0) sel).
Proof.
  intros Hr G H. pose proof (knn_predict_values_unique k pts vals q sel G H) as P.
  unfold knn_predict. symmetry. destruct r; cbn [reduce].
  - apply mean_perm; exact P.
  - congruence.
  - apply qmin_perm; exact P.
  - apply qmax_perm; exact P.
Qed.

Theorem knn_predict_all_length r k pts vals qs :
  length (knn_predict_all r k pts vals qs) = length qs.
Proof. apply map_length. Qed.

Theorem knn_predict_all_nth r k pts vals qs j :
  (j < length qs)%nat ->
  nth j (knn_predict_all r k pts vals qs) 0 = knn_predict r k pts vals (nth j qs p0).
Proof.
  intros H. unfold knn_predict_all.
  rewrite (nth_indep _ 0 (knn_predict r k pts vals p0)) by (rewrite map_length; exact H).
  apply map_nth.
Qed.

(** ** distance_mask *)
Theorem distance_mask_iff maxdist data q :
  distance_mask maxdist data q = true <->
  0 <= maxdist /\ exists p, In p data /\ d2 p q <= maxdist * maxdist.
Proof.
  unfold distance_mask. rewrite andb_true_iff, Qleb_spec, existsb_exists.
  split; intros [H [p [Hp L]]]; (split; [exact H|]); exists p; (split; [exact Hp|]);
    apply Qleb_spec; exact L.
Qed.

(** ... i.e. the NEAREST data point is within maxdist *)
Theorem distance_mask_nearest maxdist data q i :
  k_nearest 1 data q = [i] ->
  (distance_mask maxdist data q = true <-> 0 <= maxdist /\ dist2 data q i <= maxdist * maxdist).
Proof.
  intros E. rewrite distance_mask_iff.
  pose proof (k_nearest_spec 1 data q) as (N & L & V & C). rewrite E in *.
  assert (Hi: (i < length data)%nat) by (apply V; left; reflexivity).
  split; intros [H0 H]; (split; [exact H0|]).
  - destruct H as [p [Hp Lp]]. destruct (In_nth _ _ p0 Hp) as [j [Hj Ej]].
    destruct (Nat.eq_dec j i) as [->|NE]; [unfold dist2; rewrite Ej; exact Lp|].
    assert (Hc: dist2 data q i <= dist2 data q j).
    { apply C; [left; reflexivity|exact Hj|]. intros [Hx|[]]. congruence. }
    unfold dist2 in Hc at 2. rewrite Ej in Hc. lra.
  - exists (nth i data p0). split; [apply nth_In; exact Hi|exact H].
Qed.

Theorem distance_mask_proj_iff proj maxdist data q :
  distance_mask_proj proj maxdist data q = true <->
  0 <= maxdist /\ exists p, In p data /\ d2 (proj p) (proj q) <= maxdist * maxdist.
Proof.
  unfold distance_mask_proj. rewrite distance_mask_iff. split; intros [H0 [p [Hp L]]]; (split; [exact H0|]).
  - apply in_map_iff in Hp as [p' [<- Hp']]. exists p'. split; assumption.
  - exists (proj p). split; [apply in_map; exact Hp|exact L].
Qed.

Theorem distance_mask_all_length proj maxdist data qs :
  length (distance_mask_all proj maxdist data qs) = length qs.
Proof. apply map_length. Qed.

Theorem distance_mask_all_nth proj maxdist data qs j :
  (j < length qs)%nat ->
  nth j (distance_mask_all proj maxdist data qs) false = distance_mask_proj proj maxdist data (nth j qs p0).
Proof.
  intros H. unfold distance_mask_all.
  rewrite (nth_indep _ false (distance_mask_proj proj maxdist data p0)) by (rewrite map_length; exact H).
  apply map_nth.
Qed.

(** ** grid form *)
Lemma meshgrid_length east north : length (meshgrid east north) = (length north * length east)%nat.
Proof. unfold meshgrid. apply length_flat_map_rows. intros a. apply map_length. Qed.

Lemma meshgrid_nth east north i j :
  (i < length north)%nat -> (j < length east)%nat ->
  nth (i * length east + j) (meshgrid east north) p0 = (nth j east 0, nth i north 0).
Proof.
  intros Hi Hj. unfold meshgrid.
  rewrite (nth_flat_map_rows _ (length east) north 0 p0) by (try (intros; apply map_length); assumption).
  rewrite (nth_indep _ p0 ((fun e => (e, nth i north 0)) 0)) by (rewrite map_length; exact Hj).
  apply (map_nth (fun e => (e, nth i north 0))).
Qed.

(** cell (i, j) of the grid mask (row i = northing i, column j = easting j) is the
    array form evaluated at (easting j, northing i) *)
Theorem mask_grid_vs_array proj maxdist data east north i j :
  (i < length north)%nat -> (j < length east)%nat ->
  nth (i * length east + j) (mask_grid proj maxdist data east north) false =
  distance_mask_proj proj maxdist data (nth j east 0, nth i north 0).
Proof.
  intros Hi Hj. unfold mask_grid. rewrite distance_mask_all_nth.
  - rewrite meshgrid_nth by assumption. reflexivity.
  - rewrite meshgrid_length. nia.
Qed.

Lemma where_mask_length {A} mask (vals : list A) :
  length mask = length vals -> length (where_mask mask vals) = length vals.
Proof.
  revert vals. induction mask as [|b t IH]; intros [|v vt] H; cbn in *; try lia. rewrite IH; lia.
Qed.

Lemma where_mask_nth {A} mask (vals : list A) c d :
  (c < length mask)%nat -> (c < length vals)%nat ->
  nth c (where_mask mask vals) None = if nth c mask false then Some (nth c vals d) else None.
Proof.
  revert vals c. induction mask as [|b t IH]; intros [|v vt] c H1 H2; cbn in H1, H2; try lia.
  destruct c as [|c]; cbn [where_mask nth]; [reflexivity|]. apply IH; lia.
Qed.

(** the grid form keeps the value of cell (i, j) iff the array form is True at
    (easting j, northing i), and blanks it otherwise; nothing else changes *)
Theorem distance_mask_grid_cell {A} proj maxdist data east north (vals : list A) d i j :
  length vals = (length north * length east)%nat ->
  (i < length north)%nat -> (j < length east)%nat ->
  nth (i * length east + j) (distance_mask_grid proj maxdist data east north vals) None =
  if distance_mask_proj proj maxdist data (nth j east 0, nth i north 0)
  then Some (nth (i * length east + j) vals d) else None.
Proof.
  intros L Hi Hj. unfold distance_mask_grid.
  assert (Lm: length (mask_grid proj maxdist data east north) = (length north * length east)%nat).
  { unfold mask_grid. rewrite distance_mask_all_length. apply meshgrid_length. }
  rewrite (where_mask_nth _ _ _ d) by (rewrite ?Lm, ?L; nia).
  rewrite mask_grid_vs_array by assumption. reflexivity.
Qed.

Theorem distance_mask_grid_length {A} proj maxdist data east north (vals : list A) :
  length vals = (length north * length east)%nat ->
  length (distance_mask_grid proj maxdist data east north vals) = length vals.
Proof.
  intros L. unfold distance_mask_grid. apply where_mask_length.
  unfold mask_grid. rewrite distance_mask_all_length, meshgrid_length. lia.
Qed.

(** ** combined statements used by Props/C15.v *)
Lemma knn_shape r k pts vals qs :
  length (knn_predict_all r k pts vals qs) = length qs /\
  forall j, (j < length qs)%nat ->
    nth j (knn_predict_all r k pts vals qs) 0 = knn_predict r k pts vals (nth j qs p0).
Proof. split; [apply knn_predict_all_length|apply knn_predict_all_nth]. Qed.

Lemma min_max_spec l : l <> [] ->
  (In (qmin_list l) l /\ forall x, In x l -> qmin_list l <= x) /\
  (In (qmax_list l) l /\ forall x, In x l -> x <= qmax_list l).
Proof. intros H. split; [apply qmin_list_spec|apply qmax_list_spec]; exact H. Qed.

Lemma median_sort l : Permutation (qsort l) l /\ StronglySorted Qle (qsort l).
Proof. split; [apply qsort_perm|apply qsort_sorted]. Qed.

Lemma others_d2_all k pts i :
  Forall2 (fun d a => d == dist2 pts (nth i pts p0) a) (others_d2 k pts i) (others_nearest k pts i) /\
  StronglySorted Qle (others_d2 k pts i) /\
  length (others_d2 k pts i) = Nat.min k (length pts - 1).
Proof. split; [apply others_d2_spec|split; [apply others_d2_ascending|apply others_d2_length]]. Qed.

Lemma mask_shape proj maxdist data qs :
  length (distance_mask_all proj maxdist data qs) = length qs /\
  forall j, (j < length qs)%nat ->
    nth j (distance_mask_all proj maxdist data qs) false = distance_mask_proj proj maxdist data (nth j qs p0).
Proof. split; [apply distance_mask_all_length|apply distance_mask_all_nth]. Qed.
