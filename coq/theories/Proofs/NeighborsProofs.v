(** Proofs about the nearest-neighbour model (C15). *)
From Coq Require Import QArith Qabs ZArith List Bool Arith Lia Lqa Permutation Sorted Morphisms.
From Verde Require Import Lib.QExtra Lib.ISort Model.Neighbors.
Import ListNotations.
Open Scope Q_scope.

(** ** squared distances *)
Lemma sq_nonneg x : 0 <= sq x.
Proof. unfold sq. nra. Qed.

Lemma d2_nonneg p q : 0 <= d2 p q.
Proof. unfold d2. pose proof (sq_nonneg (fst p - fst q)). pose proof (sq_nonneg (snd p - snd q)). lra. Qed.

Lemma d2_self p : d2 p p == 0.
Proof. unfold d2, sq. ring. Qed.

Lemma d2_sym p q : d2 p q == d2 q p.
Proof. unfold d2, sq. ring. Qed.

Lemma sq_zero x : sq x == 0 -> x == 0.
Proof. unfold sq. intros H. nra. Qed.

(** zero distance only between equal points *)
Lemma d2_zero_iff p q : d2 p q == 0 <-> fst p == fst q /\ snd p == snd q.
Proof.
  unfold d2. split.
  - intros H. pose proof (sq_nonneg (fst p - fst q)) as A. pose proof (sq_nonneg (snd p - snd q)) as B.
    assert (E1: sq (fst p - fst q) == 0) by lra. assert (E2: sq (snd p - snd q) == 0) by lra.
    apply sq_zero in E1. apply sq_zero in E2. split; lra.
  - intros [E1 E2]. unfold sq. rewrite E1, E2. ring.
Qed.

(** distance <= maxdist iff squared distance <= maxdist^2, for a nonnegative distance r *)
Lemma dist_le_iff_sq r m : 0 <= r -> 0 <= m -> (r <= m <-> r * r <= m * m).
Proof. intros Hr Hm. split; intros H; nra. Qed.

(** ** the key order *)
Definition key_le (a b : key) : Prop := key_leb a b = true.

Lemma key_leb_spec a b :
  key_leb a b = true <-> fst a < fst b \/ (fst a == fst b /\ (snd a <= snd b)%nat).
Proof.
  unfold key_leb. destruct (Qcompare (fst a) (fst b)) eqn:E.
  - apply Qeq_alt in E. rewrite Nat.leb_le. split; [intros H; right; split; assumption|].
    intros [H|[_ H]]; [lra|exact H].
  - apply Qlt_alt in E. split; [intros _; left; exact E|reflexivity].
  - apply Qgt_alt in E. split; [discriminate|]. intros [H|[H _]]; lra.
Qed.

Lemma key_leb_total a b : key_leb a b = false -> key_leb b a = true.
Proof.
  intros H. apply key_leb_spec.
  destruct (Qlt_le_dec (fst b) (fst a)) as [L|L]; [left; exact L|].
  destruct (Qlt_le_dec (fst a) (fst b)) as [L2|L2].
  - assert (T: key_leb a b = true) by (apply key_leb_spec; left; exact L2). congruence.
  - right. split; [lra|]. destruct (le_lt_dec (snd b) (snd a)) as [N|N]; [exact N|].
    assert (T: key_leb a b = true) by (apply key_leb_spec; right; split; [lra|lia]). congruence.
Qed.

Lemma key_leb_trans a b c : key_leb a b = true -> key_leb b c = true -> key_leb a c = true.
Proof.
  rewrite !key_leb_spec. intros [H1|[H1 N1]] [H2|[H2 N2]].
  - left; lra.
  - left; lra.
  - left; lra.
  - right. split; [lra|lia].
Qed.

Lemma key_le_fst a b : key_le a b -> fst a <= fst b.
Proof. unfold key_le. rewrite key_leb_spec. intros [H|[H _]]; lra. Qed.

(** ** the keys of a cloud *)
Lemma keys_from_snd i pts q : map snd (keys_from i pts q) = seq i (length pts).
Proof. revert i. induction pts as [|p t IH]; intros i; cbn [keys_from map snd length seq]; [reflexivity|]. now rewrite IH. Qed.

Lemma keys_from_in i pts q x :
  In x (keys_from i pts q) ->
  (i <= snd x < i + length pts)%nat /\ fst x == d2 (nth (snd x - i) pts p0) q.
Proof.
  revert i. induction pts as [|p t IH]; intros i H; [destruct H|].
  cbn [keys_from In] in H. destruct H as [<-|H].
  - cbn [fst snd length]. split; [lia|]. rewrite Nat.sub_diag. cbn [nth]. apply Qred_correct.
  - apply IH in H as [R E]. cbn [length]. split; [lia|].
    replace (snd x - i)%nat with (S (snd x - S i)) by lia. exact E.
Qed.

Lemma keys_from_has i pts q j :
  (j < length pts)%nat -> exists d, In (d, (i + j)%nat) (keys_from i pts q) /\ d == d2 (nth j pts p0) q.
Proof.
  revert i j. induction pts as [|p t IH]; intros i j H; [cbn in H; lia|].
  destruct j as [|j].
  - exists (Qred (d2 p q)). rewrite Nat.add_0_r. split; [left; reflexivity|apply Qred_correct].
  - destruct (IH (S i) j) as [d [Hin E]]; [cbn in H; lia|].
    exists d. split; [|exact E]. right. replace (i + S j)%nat with (S i + j)%nat by lia. exact Hin.
Qed.

Lemma keys_in pts q x :
  In x (keys pts q) -> (snd x < length pts)%nat /\ fst x == dist2 pts q (snd x).
Proof.
  intros H. apply keys_from_in in H as [R E]. split; [lia|].
  unfold dist2. rewrite Nat.sub_0_r in E. exact E.
Qed.

Lemma keys_has pts q j :
  (j < length pts)%nat -> exists d, In (d, j) (keys pts q) /\ d == dist2 pts q j.
Proof. intros H. apply (keys_from_has 0 pts q j H). Qed.

Lemma keys_length pts q : length (keys pts q) = length pts.
Proof.
  unfold keys. transitivity (length (map snd (keys_from 0 pts q))); [symmetry; apply map_length|].
  rewrite keys_from_snd. apply seq_length.
Qed.

(** ** the sorted keys *)
Lemma sorted_keys_perm pts q : Permutation (sorted_keys pts q) (keys pts q).
Proof. apply isort_perm. Qed.

Lemma sorted_keys_sorted pts q : StronglySorted key_le (sorted_keys pts q).
Proof. apply isort_sorted; [exact key_leb_total|exact key_leb_trans]. Qed.

Lemma sorted_keys_length pts q : length (sorted_keys pts q) = length pts.
Proof. unfold sorted_keys. rewrite isort_length. apply keys_length. Qed.

Lemma sorted_keys_in pts q x :
  In x (sorted_keys pts q) -> (snd x < length pts)%nat /\ fst x == dist2 pts q (snd x).
Proof. intros H. apply keys_in. eapply Permutation_in; [apply sorted_keys_perm|exact H]. Qed.

Lemma sorted_keys_has pts q j :
  (j < length pts)%nat -> exists d, In (d, j) (sorted_keys pts q) /\ d == dist2 pts q j.
Proof.
  intros H. destruct (keys_has pts q j H) as [d [Hin E]]. exists d. split; [|exact E].
  eapply Permutation_in; [symmetry; apply sorted_keys_perm|exact Hin].
Qed.

Lemma sorted_keys_snd_nodup pts q : NoDup (map snd (sorted_keys pts q)).
Proof.
  eapply Permutation_NoDup.
  - apply Permutation_map. symmetry. apply sorted_keys_perm.
  - unfold keys. rewrite keys_from_snd. apply seq_NoDup.
Qed.

(** ** the k nearest: specification *)
(** [sel] has min(k, n) distinct valid indices and no selected point is farther
    from [q] than any point left out *)
Definition closest_set (k : nat) (pts : list pt) (q : pt) (sel : list nat) : Prop :=
  NoDup sel /\ length sel = Nat.min k (length pts) /\
  (forall i, In i sel -> (i < length pts)%nat) /\
  (forall i j, In i sel -> (j < length pts)%nat -> ~ In j sel -> dist2 pts q i <= dist2 pts q j).

(** no two data points at the same distance from the query *)
Definition general_position (pts : list pt) (q : pt) : Prop :=
  forall i j, (i < length pts)%nat -> (j < length pts)%nat -> i <> j ->
    ~ dist2 pts q i == dist2 pts q j.

Lemma NoDup_app_l {A} (l1 l2 : list A) : NoDup (l1 ++ l2) -> NoDup l1.
Proof.
  induction l1 as [|a t IH]; intros H; [constructor|].
  cbn in H. inversion H as [|? ? Hn Hd]; subst. constructor; [|apply IH; exact Hd].
  intros Hin. apply Hn. apply in_or_app. left; exact Hin.
Qed.

Lemma NoDup_firstn {A} k (l : list A) : NoDup l -> NoDup (firstn k l).
Proof. intros H. rewrite <- (firstn_skipn k l) in H. eapply NoDup_app_l; exact H. Qed.

Lemma In_firstn_full {A} k (l : list A) x : In x (firstn k l) -> In x l.
Proof. intros H. rewrite <- (firstn_skipn k l). apply in_or_app. left; exact H. Qed.

Theorem k_nearest_spec k pts q : closest_set k pts q (k_nearest k pts q).
Proof.
  unfold closest_set, k_nearest. set (s := sorted_keys pts q).
  assert (Hs: StronglySorted key_le (firstn k s ++ skipn k s)).
  { rewrite firstn_skipn. apply sorted_keys_sorted. }
  repeat split.
  - rewrite <- firstn_map. apply NoDup_firstn. apply sorted_keys_snd_nodup.
  - rewrite map_length, firstn_length. unfold s. rewrite sorted_keys_length. reflexivity.
  - intros i Hi. apply in_map_iff in Hi as [x [<- Hx]].
    apply (sorted_keys_in pts q x). eapply In_firstn_full; exact Hx.
  - intros i j Hi Hj Hnj. apply in_map_iff in Hi as [x [<- Hx]].
    destruct (sorted_keys_has pts q j Hj) as [d [Hin E]]. fold s in Hin.
    rewrite <- (firstn_skipn k s) in Hin. apply in_app_or in Hin as [Hin|Hin].
    + exfalso. apply Hnj. apply in_map_iff. exists (d, j). split; [reflexivity|exact Hin].
    + pose proof (StronglySorted_app_le _ _ _ Hs x (d, j) Hx Hin) as L.
      apply key_le_fst in L. cbn [fst] in L.
      assert (Hx': In x s) by (eapply In_firstn_full; exact Hx).
      apply sorted_keys_in in Hx' as [_ Ex]. lra.
Qed.

